/-
  History-level linearizability of the typed single-producer / single-consumer `WeakRingBuffer` machine
  (`Algo/Ring/Model.lean`), property C12.

  Part 1 (`namespace Ring.LinX`, independent of the ring): the ghost-log construction of
  `Algo/QueueLin/GhostP.lean` for an ARBITRARY sequential specification on `List Int`, with the abstract state of
  the machine EQUAL to the state of the specification (GhostP relates them up to permutation, which an
  order-sensitive specification such as a bounded FIFO cannot use; `Algo/QueueLin/Ghost.lean` is fixed to the
  unbounded `fifo`).  The text is that of GhostP with `PEff` replaced by the exact transition and the permutation
  removed from the replay invariant; `EmptyAt` is renamed `FailAt` (the instant at which an operation that answers
  `[0]` passes its linearization point) and no longer has to imply emptiness.  It reuses the spec-generic replay
  lemmas `runSpecS_*` of GhostP and the history / log bookkeeping of `Algo/QueueLin/History.lean`.

  Part 2: the instance.
    * The machine does not remember WHICH client operation it is executing (`push [5,6]` and `pushn [5,2]` run the
      same program counters), so the machine is paired with two ghost registers holding the operation invoked by
      the producer and by the consumer (`GS`, `gmodel`); `gmodel` has exactly the runs of `model` (`run_lift`).
    * Sequential specification `ringSpec cap`, in the machine's own vocabulary, batches included: a push of the batch
      `vs` succeeds iff `|q| + |vs| ≤ cap` (appends `vs`) and answers `[0]` otherwise; `pop k` succeeds iff
      `k ≤ |q|` (removes and returns the first `k`); `front` peeks; `popf` (= `front(); pop_front()`) dequeues one.
    * Abstract queue: `pushed.drop front` (= the live cells, `Inv.buffer_content`).
    * Linearization points: push = the `back_` store (`stBack`), failing push = the re-load of `front_` that leaves
      fewer than `count` free cells (`ldFront → done [0]`); pop / popf = the `front_` store (`stFront`,
      `stFrontPF`), failing pop / front / popf = the re-load of `back_` that shows fewer than the needed elements
      (`ldBack → done [0]`); successful `front` = the load (of `front_` or `back_`) after which it reads the cell.
      No linearization is tentative.
    * `ring_linearizable`: every run is linearizable to `ringSpec cap` (any program, batches included).
    * `ring_linearizable_bfifo`: for programs of single-element operations the same history, with the operations
      renamed `push v ↦ enq v`, `pop / pop 1 / popn 1 / popf ↦ deq`, `front ↦ front`, is linearizable to
      `Spec.bfifo cap`.
-/
import CdsVerif.Algo.Ring.Inv
import CdsVerif.Algo.QueueLin.GhostP
namespace CdsVerif.Algo.Ring.LinX
open CdsVerif.Machine CdsVerif.Spec CdsVerif.Lin CdsVerif.Algo.QueueLin
open CdsVerif.Algo.QueueLinP (SpecL runSpecS runSpecS_append runSpecS_close legal_of_runSpecS runSpecS_filter
  runSpecS_dropOpen)

structure QSys (σ : Type) where
  spec : SpecL
  model : Model σ
  init : σ
  Inv : σ → Prop
  absQ : σ → List Int
  lpRet : σ → Tid → Option GRet
  postRet : σ → Tid → Option GRet
  opOf : σ → Tid → Option GOp
  FailAt : σ → Tid → Prop

variable {σ : Type}

/-- The bookkeeping of the threads other than `t` is not touched by an action of `t`. -/
structure Frame (Q : QSys σ) (s s' : σ) (t : Tid) : Prop where
  lp : ∀ t2, t2 ≠ t → Q.lpRet s' t2 = Q.lpRet s t2
  op : ∀ t2, t2 ≠ t → Q.opOf s' t2 = Q.opOf s t2

structure InvokeOK (Q : QSys σ) (s : σ) (t : Tid) (op : GOp) (s' : σ) : Prop where
  inv : Q.Inv s'
  frame : Frame Q s s' t
  was : Q.lpRet s t = none
  nowop : Q.opOf s' t = some op
  nowlp : Q.lpRet s' t = none
  abs : Q.absQ s' = Q.absQ s

structure StepOK (Q : QSys σ) (s : σ) (t : Tid) (s' : σ) : Prop where
  inv : Q.Inv s'
  frame : Frame Q s s' t
  /-- passing a linearization point = the transition of `spec` on the abstract state, with the result fixed there -/
  lp : Q.lpRet s t = none → ∀ r, Q.lpRet s' t = some r →
        ∃ op, Q.opOf s t = some op ∧ Q.spec.next (Q.absQ s) op r = some (Q.absQ s')
  nolp : (Q.lpRet s t ≠ none ∨ Q.lpRet s' t = none) → Q.absQ s' = Q.absQ s
  /-- only a tentative `[0]` can be withdrawn (never happens in the ring: no linearization is tentative) -/
  keep : ∀ r, Q.lpRet s t = some r → Q.lpRet s' t = some r ∨ (r = [0] ∧ Q.lpRet s' t = none)
  op : Q.postRet s' t = none → Q.opOf s' t = Q.opOf s t
  empty : Q.lpRet s t = none → Q.lpRet s' t = some [0] → Q.FailAt s t

structure ResultOK (Q : QSys σ) (s : σ) (t : Tid) (r : GRet) (s' : σ) : Prop where
  inv : Q.Inv s'
  frame : Frame Q s s' t
  was : Q.lpRet s t = some r
  nowlp : Q.lpRet s' t = none
  nowop : Q.opOf s' t = none
  abs : Q.absQ s' = Q.absQ s

structure QSys.OK (Q : QSys σ) : Prop where
  ret0 : ∀ q op q', Q.spec.next q op [0] = some q' → q' = q
  spec_init : Q.spec.init = []
  inv_init : Q.Inv Q.init
  abs_init : Q.absQ Q.init = []
  lp_init : ∀ t, Q.lpRet Q.init t = none
  op_init : ∀ t, Q.opOf Q.init t = none
  post_lp : ∀ s t r, Q.postRet s t = some r → Q.lpRet s t = some r
  post_op : ∀ s t r, Q.postRet s t = some r → Q.opOf s t = none
  lp_post : ∀ s t r, Q.lpRet s t = some r → r ≠ [0] → Q.postRet s t = some r
  invoke : ∀ s t op s', Q.Inv s → Q.model.invoke s t op = some s' → InvokeOK Q s t op s'
  step : ∀ s t s' ev, Q.Inv s → Q.model.step s t = some (s', ev) → StepOK Q s t s'
  result : ∀ s t s' r, Q.Inv s → Q.model.result s t = some (s', r) → ResultOK Q s t r s'

/-! ### Instrumented runs -/

structure GSt (σ : Type) where
  s : σ
  clock : Nat                          -- number of actions so far = index of the next observation
  pend : Pend
  hist : List (OpRec GOp GRet)         -- records of the operations that have returned, in order of return
  log : List LE                        -- operations that have passed their linearization point, in that order
  trace : List σ                       -- the model states before each action so far (`trace[j]` = state before action `j`)

def ginit (Q : QSys σ) : GSt σ := ⟨Q.init, 0, fun _ => none, [], [], []⟩

/-- Ghost update for the action of thread `t` that leads to model state `s'` with observation `o`. -/
def gnext (Q : QSys σ) (g : GSt σ) (t : Tid) (s' : σ) : Obs → GSt σ
  | .call op =>
    { g with s := s', clock := g.clock + 1, pend := upd g.pend t (some (op, g.clock)), trace := g.trace ++ [g.s] }
  | .ev _ =>
    { g with
      s := s', clock := g.clock + 1, trace := g.trace ++ [g.s],
      log := match Q.lpRet g.s t, Q.lpRet s' t, g.pend t with
        | none, some r, some (op, k) => g.log ++ [⟨t, op, r, k, none⟩]     -- linearization point (possibly tentative)
        | some _, none, _ => dropOpen t g.log                               -- tentative linearization withdrawn
        | _, _, _ => g.log }
  | .ret r =>
    match g.pend t with
    | some (op, k) =>
      { s := s', clock := g.clock + 1, pend := upd g.pend t none,
        hist := g.hist ++ [⟨t, op, r, k, g.clock⟩], log := g.log.map (LE.close t g.clock),
        trace := g.trace ++ [g.s] }
    | none => { g with s := s', clock := g.clock + 1, trace := g.trace ++ [g.s] }

structure GI (Q : QSys σ) (g : GSt σ) : Prop where
  spec : runSpecS Q.spec [] g.log = some (Q.absQ g.s)
  invlt : ∀ e, e ∈ g.log → e.inv < g.clock
  rt : g.log.Pairwise (fun a b => ∀ r, b.res = some r → a.inv ≤ r)
  comp : (completed g.log).Perm g.hist
  pendlt : ∀ t op k, g.pend t = some (op, k) → k < g.clock
  pre : ∀ t op, Q.opOf g.s t = some op → ∃ k, g.pend t = some (op, k)
  preopen : ∀ t, Q.lpRet g.s t = none → openOf t g.log = []
  post : ∀ t r, Q.lpRet g.s t = some r → ∃ op k, g.pend t = some (op, k) ∧ openOf t g.log = [⟨t, op, r, k, none⟩]

def GInv (Q : QSys σ) (g : GSt σ) : Prop := Q.Inv g.s ∧ GI Q g

theorem ginv_init {Q : QSys σ} (hQ : Q.OK) : GInv Q (ginit Q) := by
  refine ⟨hQ.inv_init, ?_⟩
  constructor <;> simp [ginit, runSpecS, completed, openOf, hQ.abs_init, hQ.lp_init, hQ.op_init]

theorem ginv_invoke {Q : QSys σ} (hQ : Q.OK) {g : GSt σ} {t : Tid} {op : GOp} {s' : σ} (h : GInv Q g)
    (hs : Q.model.invoke g.s t op = some s') : GInv Q (gnext Q g t s' (.call op)) := by
  obtain ⟨hl, hg⟩ := h
  obtain ⟨hl', ⟨hflp, hfop⟩, hpw, hnowop, hnowlp, habs⟩ := hQ.invoke _ _ _ _ hl hs
  refine ⟨hl', ?_⟩
  obtain ⟨hspec, hinvlt, hrt, hcomp, hpendlt, hpre, hpreopen, hpost⟩ := hg
  constructor
  · simp only [gnext]; rw [habs]; exact hspec
  · intro e he; have := hinvlt e he; simp only [gnext]; omega
  · exact hrt
  · exact hcomp
  · intro t2 op2 k; simp only [gnext, upd]; intro h
    split at h
    · simp at h; omega
    · have := hpendlt t2 op2 k h; omega
  · intro t2 op2; simp only [gnext]
    by_cases ht : t2 = t
    · subst ht; rw [hnowop]; intro h; simp at h; subst h; exact ⟨g.clock, by simp [upd]⟩
    · rw [hfop t2 ht]; intro h
      obtain ⟨k, hk⟩ := hpre t2 op2 h
      exact ⟨k, by simp [upd, ht, hk]⟩
  · intro t2; simp only [gnext]
    by_cases ht : t2 = t
    · subst ht; intro _; exact hpreopen t2 hpw
    · rw [hflp t2 ht]; exact hpreopen t2
  · intro t2 r; simp only [gnext]
    by_cases ht : t2 = t
    · subst ht; rw [hnowlp]; intro h; simp at h
    · rw [hflp t2 ht]; intro h
      obtain ⟨op2, k, h1, h2⟩ := hpost t2 r h
      exact ⟨op2, k, by simp [upd, ht, h1], h2⟩

theorem ginv_result {Q : QSys σ} (hQ : Q.OK) {g : GSt σ} {t : Tid} {r : GRet} {s' : σ} (h : GInv Q g)
    (hs : Q.model.result g.s t = some (s', r)) : GInv Q (gnext Q g t s' (.ret r)) := by
  obtain ⟨hl, hg⟩ := h
  obtain ⟨hl', ⟨hflp, hfop⟩, hdone, hidlp, hidop, habs⟩ := hQ.result _ _ _ _ hl hs
  obtain ⟨hspec, hinvlt, hrt, hcomp, hpendlt, hpre, hpreopen, hpost⟩ := hg
  obtain ⟨op, k, hp, hopen⟩ := hpost t r hdone
  have hcl : ∀ e, (LE.close t g.clock e).inv = e.inv := by intro e; unfold LE.close; split <;> rfl
  simp only [gnext, hp]
  refine ⟨hl', ?_⟩
  constructor <;> dsimp only
  · rw [runSpecS_close, habs]; exact hspec
  · intro e he
    obtain ⟨e0, he0, rfl⟩ := List.mem_map.mp he
    have := hinvlt e0 he0; rw [hcl]; omega
  · rw [List.pairwise_map]
    refine List.Pairwise.imp_of_mem ?_ hrt
    intro a b ha hb hab r' hr'
    rw [hcl]
    unfold LE.close at hr'
    split at hr'
    · simp at hr'; have := hinvlt a ha; omega
    · exact hab r' hr'
  · refine (completed_close t g.clock g.log).trans ?_
    rw [hopen]
    exact List.Perm.append_right _ hcomp
  · intro t2 op2 k2 h
    simp only [upd] at h
    split at h
    · simp at h
    · have := hpendlt t2 op2 k2 h; omega
  · intro t2 op2
    by_cases ht : t2 = t
    · subst ht; rw [hidop]; simp
    · rw [hfop t2 ht]; intro h
      obtain ⟨k2, hk⟩ := hpre t2 op2 h
      exact ⟨k2, by simp [upd, ht, hk]⟩
  · intro t2
    by_cases ht : t2 = t
    · subst ht; intro _; exact openOf_close_same _ _ _
    · rw [hflp t2 ht, openOf_close_other _ _ _ ht]; exact hpreopen t2
  · intro t2 r2
    by_cases ht : t2 = t
    · subst ht; rw [hidlp]; simp
    · rw [hflp t2 ht, openOf_close_other _ _ _ ht]; intro h
      obtain ⟨op2, k2, h1, h2⟩ := hpost t2 r2 h
      exact ⟨op2, k2, by simp [upd, ht, h1], h2⟩

theorem ginv_step {Q : QSys σ} (hQ : Q.OK) {g : GSt σ} {t : Tid} {ev : Ev} {s' : σ} (h : GInv Q g)
    (hs : Q.model.step g.s t = some (s', ev)) : GInv Q (gnext Q g t s' (.ev ev)) := by
  obtain ⟨hl, hg⟩ := h
  obtain ⟨hl', ⟨hflp, hfop⟩, hlp, hnolp, hkeep, hop, -⟩ := hQ.step _ _ _ _ hl hs
  refine ⟨hl', ?_⟩
  obtain ⟨hspec, hinvlt, hrt, hcomp, hpendlt, hpre, hpreopen, hpost⟩ := hg
  -- the operation table of the moving thread
  have hpre' : ∀ op2, Q.opOf s' t = some op2 → ∃ k, g.pend t = some (op2, k) := by
    intro op2
    cases hp : Q.postRet s' t with
    | some r => rw [hQ.post_op _ _ _ hp]; simp
    | none => rw [hop hp]; exact hpre t op2
  by_cases hLP : Q.lpRet g.s t = none ∧ ∃ r, Q.lpRet s' t = some r
  · -- linearization point (tentative or definitive)
    obtain ⟨h1, r, h2⟩ := hLP
    obtain ⟨op, hopo, hnext⟩ := hlp h1 r h2
    obtain ⟨k, hk⟩ := hpre t op hopo
    have hlog : (gnext Q g t s' (.ev ev)).log = g.log ++ [⟨t, op, r, k, none⟩] := by
      simp only [gnext, h1, h2, hk]
    constructor
    · rw [hlog, runSpecS_append, hspec]
      simp only [gnext, Option.bind_some, runSpecS]
      rw [hnext]; rfl
    · rw [hlog]; intro e he
      simp only [gnext]
      rcases List.mem_append.mp he with h | h
      · have := hinvlt e h; omega
      · simp at h; subst h; have := hpendlt t op k hk; simp only; omega
    · rw [hlog, List.pairwise_append]
      refine ⟨hrt, by simp, ?_⟩
      intro a _ b hb r' hr'
      simp at hb; subst hb; simp at hr'
    · rw [hlog]
      simp only [completed, List.filterMap_append, gnext] at hcomp ⊢
      have : List.filterMap LE.done? [(⟨t, op, r, k, none⟩ : LE)] = [] := by simp [LE.done?]
      rw [this, List.append_nil]; exact hcomp
    · intro t2 op2 k2 h
      simp only [gnext] at h ⊢
      have := hpendlt t2 op2 k2 h; omega
    · intro t2 op2
      simp only [gnext]
      by_cases ht : t2 = t
      · subst ht; exact hpre' op2
      · rw [hfop t2 ht]; exact hpre t2 op2
    · intro t2
      rw [hlog]; simp only [gnext]
      by_cases ht : t2 = t
      · subst ht; rw [h2]; simp
      · rw [hflp t2 ht, openOf_append]; intro h
        rw [hpreopen t2 h]
        have : t ≠ t2 := fun e => ht e.symm
        simp [openOf, this]
    · intro t2 r2
      rw [hlog]; simp only [gnext]
      by_cases ht : t2 = t
      · subst ht; rw [h2]; intro h; simp at h; subst h
        refine ⟨op, k, hk, ?_⟩
        rw [openOf_append, hpreopen t2 h1]
        simp [openOf]
      · rw [hflp t2 ht, openOf_append]; intro h
        obtain ⟨op2, k2, h3, h4⟩ := hpost t2 r2 h
        refine ⟨op2, k2, h3, ?_⟩
        rw [h4]
        have : t ≠ t2 := fun e => ht e.symm
        simp [openOf, this]
  · by_cases hAB : (∃ r, Q.lpRet g.s t = some r) ∧ Q.lpRet s' t = none
    · -- a tentative linearization is withdrawn: the entry answered `[0]` and leaves the log
      obtain ⟨⟨r, h1⟩, h2⟩ := hAB
      have hr0 : r = [0] := by
        rcases hkeep r h1 with h | h
        · rw [h2] at h; simp at h
        · exact h.1
      have hll := hnolp (Or.inr h2)
      obtain ⟨op, k, hk, hopen⟩ := hpost t r h1
      have hlog : (gnext Q g t s' (.ev ev)).log = dropOpen t g.log := by
        simp only [gnext, h1, h2]
      constructor
      · rw [hlog]; simp only [gnext]; rw [hll]
        apply runSpecS_dropOpen _ hQ.ret0 _ _ _ _ _ hspec
        intro e he; rw [hopen] at he; simp at he; rw [he]; exact hr0
      · rw [hlog]; intro e he; have := hinvlt e (mem_dropOpen he); simp only [gnext]; omega
      · rw [hlog]; exact hrt.sublist (dropOpen_sublist t g.log)
      · rw [hlog, completed_dropOpen]; exact hcomp
      · intro t2 op2 k2 h
        simp only [gnext] at h ⊢
        have := hpendlt t2 op2 k2 h; omega
      · intro t2 op2
        simp only [gnext]
        by_cases ht : t2 = t
        · subst ht; exact hpre' op2
        · rw [hfop t2 ht]; exact hpre t2 op2
      · intro t2
        rw [hlog]; simp only [gnext]
        by_cases ht : t2 = t
        · subst ht; intro _; exact openOf_dropOpen_same _ _
        · rw [hflp t2 ht, openOf_dropOpen_other _ _ ht]; exact hpreopen t2
      · intro t2 r2
        rw [hlog]; simp only [gnext]
        by_cases ht : t2 = t
        · subst ht; rw [h2]; intro h; simp at h
        · rw [hflp t2 ht, openOf_dropOpen_other _ _ ht]; exact hpost t2 r2
    · -- neither: the thread's linearization status is unchanged
      have hEq : Q.lpRet s' t = Q.lpRet g.s t := by
        cases h1 : Q.lpRet g.s t with
        | none =>
          cases h2 : Q.lpRet s' t with
          | none => rfl
          | some r => exact absurd ⟨h1, r, h2⟩ hLP
        | some r =>
          rcases hkeep r h1 with h | h
          · exact h
          · exact absurd ⟨⟨r, h1⟩, h.2⟩ hAB
      have hc : Q.lpRet g.s t ≠ none ∨ Q.lpRet s' t = none := by
        cases h1 : Q.lpRet g.s t with
        | none => right; rw [hEq, h1]
        | some r => left; simp
      have hll := hnolp hc
      have hlog : (gnext Q g t s' (.ev ev)).log = g.log := by
        simp only [gnext]
        split
        next h1 h2 _ => exact absurd ⟨h1, _, h2⟩ hLP
        next h1 h2 => exact absurd ⟨⟨_, h1⟩, h2⟩ hAB
        next => rfl
      constructor
      · rw [hlog]; simp only [gnext]; rw [hll]; exact hspec
      · rw [hlog]; intro e he; have := hinvlt e he; simp only [gnext]; omega
      · rw [hlog]; exact hrt
      · rw [hlog]; exact hcomp
      · intro t2 op2 k2 h
        simp only [gnext] at h ⊢
        have := hpendlt t2 op2 k2 h; omega
      · intro t2 op2
        simp only [gnext]
        by_cases ht : t2 = t
        · subst ht; exact hpre' op2
        · rw [hfop t2 ht]; exact hpre t2 op2
      · intro t2
        rw [hlog]; simp only [gnext]
        by_cases ht : t2 = t
        · subst ht; rw [hEq]; exact hpreopen t2
        · rw [hflp t2 ht]; exact hpreopen t2
      · intro t2 r2
        rw [hlog]; simp only [gnext]
        by_cases ht : t2 = t
        · subst ht; rw [hEq]; exact hpost t2 r2
        · rw [hflp t2 ht]; exact hpost t2 r2

/-! ### The instant at which a failing operation saw the full / empty buffer -/

/-- Second ghost invariant: every operation that answered (or is about to answer) `[0]` has an instant `j`, after
    its call and before its return, at which `FailAt` held. -/
structure GE (Q : QSys σ) (g : GSt σ) : Prop where
  tlen : g.trace.length = g.clock
  histemp : ∀ r, r ∈ g.hist → r.ret = [0] →
    ∃ j s1, r.inv < j ∧ j < r.res ∧ g.trace[j]? = some s1 ∧ Q.FailAt s1 r.tid
  pendemp : ∀ t, Q.lpRet g.s t = some [0] →
    ∃ j s1 op k, g.pend t = some (op, k) ∧ k < j ∧ j < g.clock ∧ g.trace[j]? = some s1 ∧ Q.FailAt s1 t

theorem ge_init {Q : QSys σ} (hQ : Q.OK) : GE Q (ginit Q) := by
  constructor <;> simp [ginit, hQ.lp_init]

theorem ge_invoke {Q : QSys σ} (hQ : Q.OK) {g : GSt σ} {t : Tid} {op : GOp} {s' : σ} (h : GInv Q g) (he : GE Q g)
    (hs : Q.model.invoke g.s t op = some s') : GE Q (gnext Q g t s' (.call op)) := by
  obtain ⟨hl, hg⟩ := h
  obtain ⟨-, ⟨hflp, -⟩, -, -, hnowlp, -⟩ := hQ.invoke _ _ _ _ hl hs
  obtain ⟨htlen, hhist, hpend⟩ := he
  constructor
  · simp only [gnext, List.length_append, List.length_singleton, htlen]
  · intro r hr hret
    obtain ⟨j, s1, h1, h2, h3, h4⟩ := hhist r hr hret
    exact ⟨j, s1, h1, h2, getElem?_snoc_of_some h3, h4⟩
  · intro t2
    simp only [gnext]
    by_cases ht : t2 = t
    · subst ht; rw [hnowlp]; intro h; simp at h
    · rw [hflp t2 ht]; intro h
      obtain ⟨j, s1, op2, k, h1, h2, h3, h4, h5⟩ := hpend t2 h
      exact ⟨j, s1, op2, k, by simp [upd, ht, h1], h2, by omega, getElem?_snoc_of_some h4, h5⟩

theorem ge_result {Q : QSys σ} (hQ : Q.OK) {g : GSt σ} {t : Tid} {r : GRet} {s' : σ} (h : GInv Q g) (he : GE Q g)
    (hs : Q.model.result g.s t = some (s', r)) : GE Q (gnext Q g t s' (.ret r)) := by
  obtain ⟨hl, hg⟩ := h
  obtain ⟨-, ⟨hflp, -⟩, hdone, hidlp, -, -⟩ := hQ.result _ _ _ _ hl hs
  obtain ⟨htlen, hhist, hpend⟩ := he
  obtain ⟨op, k, hp, -⟩ := hg.post t r hdone
  simp only [gnext, hp]
  constructor <;> dsimp only
  · simp only [List.length_append, List.length_singleton, htlen]
  · intro r0 hr hret
    rcases List.mem_append.mp hr with hr | hr
    · obtain ⟨j, s1, h1, h2, h3, h4⟩ := hhist r0 hr hret
      exact ⟨j, s1, h1, h2, getElem?_snoc_of_some h3, h4⟩
    · simp at hr; subst hr
      simp only at hret
      obtain ⟨j, s1, op2, k2, h1, h2, h3, h4, h5⟩ := hpend t (by rw [hdone, hret])
      rw [hp] at h1; simp at h1
      exact ⟨j, s1, by simp only; omega, h3, getElem?_snoc_of_some h4, h5⟩
  · intro t2
    by_cases ht : t2 = t
    · subst ht; rw [hidlp]; intro h; simp at h
    · rw [hflp t2 ht]; intro h
      obtain ⟨j, s1, op2, k2, h1, h2, h3, h4, h5⟩ := hpend t2 h
      exact ⟨j, s1, op2, k2, by simp [upd, ht, h1], h2, by omega, getElem?_snoc_of_some h4, h5⟩

theorem ge_step {Q : QSys σ} (hQ : Q.OK) {g : GSt σ} {t : Tid} {ev : Ev} {s' : σ} (h : GInv Q g) (he : GE Q g)
    (hs : Q.model.step g.s t = some (s', ev)) : GE Q (gnext Q g t s' (.ev ev)) := by
  obtain ⟨hl, hg⟩ := h
  obtain ⟨-, ⟨hflp, -⟩, -, -, hkeep, -, hempty⟩ := hQ.step _ _ _ _ hl hs
  obtain ⟨htlen, hhist, hpend⟩ := he
  constructor
  · simp only [gnext, List.length_append, List.length_singleton, htlen]
  · intro r hr hret
    obtain ⟨j, s1, h1, h2, h3, h4⟩ := hhist r hr hret
    exact ⟨j, s1, h1, h2, getElem?_snoc_of_some h3, h4⟩
  · intro t2
    simp only [gnext]
    by_cases ht : t2 = t
    · subst ht
      intro h2
      cases h1 : Q.lpRet g.s t2 with
      | none =>
        -- the linearization point of a failing operation: the state before this very step
        have hE := hempty h1 h2
        obtain ⟨op, hopo, -⟩ := (hQ.step _ _ _ _ hl hs).lp h1 _ h2
        obtain ⟨k, hk⟩ := hg.pre t2 op hopo
        refine ⟨g.clock, g.s, _, k, hk, hg.pendlt _ _ _ hk, by omega, ?_, hE⟩
        rw [List.getElem?_append_right (by omega)]; simp [htlen]
      | some r =>
        have hr : r = [0] := by
          rcases hkeep r h1 with h | h
          · rw [h2] at h; simp at h; exact h.symm
          · exact h.1
        subst hr
        obtain ⟨j, s1, op2, k, e1, e2, e3, e4, e5⟩ := hpend t2 h1
        exact ⟨j, s1, op2, k, e1, e2, by omega, getElem?_snoc_of_some e4, e5⟩
    · rw [hflp t2 ht]; intro h
      obtain ⟨j, s1, op2, k, h1, h2, h3, h4, h5⟩ := hpend t2 h
      exact ⟨j, s1, op2, k, h1, h2, by omega, getElem?_snoc_of_some h4, h5⟩

theorem gnext_s (Q : QSys σ) (g : GSt σ) (t : Tid) (s' : σ) (o : Obs) : (gnext Q g t s' o).s = s' := by
  cases o <;> simp only [gnext]
  split <;> rfl

theorem gnext_clock (Q : QSys σ) (g : GSt σ) (t : Tid) (s' : σ) (o : Obs) : (gnext Q g t s' o).clock = g.clock + 1 := by
  cases o <;> simp only [gnext]
  split <;> rfl

theorem gnext_hist (Q : QSys σ) (g : GSt σ) (t : Tid) (s' : σ) (o : Obs) (os : List (Tid × Obs)) :
    (gnext Q g t s' o).hist ++ histAux (g.clock + 1) (gnext Q g t s' o).pend os
      = g.hist ++ histAux g.clock g.pend ((t, o) :: os) := by
  cases o with
  | call op => simp only [gnext, histAux]
  | ev e => simp only [gnext, histAux]
  | ret r =>
    simp only [gnext, histAux]
    cases hp : g.pend t with
    | none => simp only
    | some p => obtain ⟨op, k⟩ := p; simp only [List.append_assoc, List.singleton_append]

theorem gnext_pend (Q : QSys σ) (g : GSt σ) (t : Tid) (s' : σ) (o : Obs) (os : List (Tid × Obs)) :
    pendAux (g.clock + 1) (gnext Q g t s' o).pend os = pendAux g.clock g.pend ((t, o) :: os) := by
  cases o with
  | call op => simp only [gnext, pendAux]
  | ev e => simp only [gnext, pendAux]
  | ret r =>
    simp only [gnext, pendAux]
    cases hp : g.pend t with
    | none => simp only
    | some p => obtain ⟨op, k⟩ := p; simp only

theorem gnext_trace (Q : QSys σ) (g : GSt σ) (t : Tid) (s' : σ) (o : Obs) : (gnext Q g t s' o).trace = g.trace ++ [g.s] := by
  cases o <;> simp only [gnext]
  split <;> rfl

theorem ginv_apply {Q : QSys σ} (hQ : Q.OK) {g : GSt σ} {t : Tid} {a : Act} {s' : σ} {o : Obs} (h : GInv Q g)
    (hap : Q.model.apply g.s t a = some (s', o)) : GInv Q (gnext Q g t s' o) := by
  cases a with
  | invoke op =>
    simp only [Model.apply, Option.map_eq_some_iff] at hap
    obtain ⟨s1, hs1, heq⟩ := hap
    simp only [Prod.mk.injEq] at heq
    obtain ⟨rfl, rfl⟩ := heq
    exact ginv_invoke hQ h hs1
  | step =>
    simp only [Model.apply, Option.map_eq_some_iff] at hap
    obtain ⟨⟨s1, e⟩, hs1, heq⟩ := hap
    simp only [Prod.mk.injEq] at heq
    obtain ⟨rfl, rfl⟩ := heq
    exact ginv_step hQ h hs1
  | ret =>
    simp only [Model.apply, Option.map_eq_some_iff] at hap
    obtain ⟨⟨s1, r⟩, hs1, heq⟩ := hap
    simp only [Prod.mk.injEq] at heq
    obtain ⟨rfl, rfl⟩ := heq
    exact ginv_result hQ h hs1

theorem ge_apply {Q : QSys σ} (hQ : Q.OK) {g : GSt σ} {t : Tid} {a : Act} {s' : σ} {o : Obs} (h : GInv Q g) (he : GE Q g)
    (hap : Q.model.apply g.s t a = some (s', o)) : GE Q (gnext Q g t s' o) := by
  cases a with
  | invoke op =>
    simp only [Model.apply, Option.map_eq_some_iff] at hap
    obtain ⟨s1, hs1, heq⟩ := hap
    simp only [Prod.mk.injEq] at heq
    obtain ⟨rfl, rfl⟩ := heq
    exact ge_invoke hQ h he hs1
  | step =>
    simp only [Model.apply, Option.map_eq_some_iff] at hap
    obtain ⟨⟨s1, e⟩, hs1, heq⟩ := hap
    simp only [Prod.mk.injEq] at heq
    obtain ⟨rfl, rfl⟩ := heq
    exact ge_step hQ h he hs1
  | ret =>
    simp only [Model.apply, Option.map_eq_some_iff] at hap
    obtain ⟨⟨s1, r⟩, hs1, heq⟩ := hap
    simp only [Prod.mk.injEq] at heq
    obtain ⟨rfl, rfl⟩ := heq
    exact ge_result hQ h he hs1

/-- The states a run passes through: `(statesOf m s sched)[j]` is the state before action `j`. -/
def statesOf (m : Model σ) : σ → List (Tid × Act) → List σ
  | _, [] => []
  | s, (t, a) :: rest =>
    s :: (match m.apply s t a with
      | some (s', _) => statesOf m s' rest
      | none => [])

/-- `(statesOf m s sched)[j]` is the state reached by the first `j` actions of the run, which produce the first `j`
    observations. -/
theorem statesOf_prefix (m : Model σ) : ∀ (sched : List (Tid × Act)) (s s' : σ) (os : List (Tid × Obs)) (j : Nat) (s1 : σ),
    m.run s sched = some (s', os) → (statesOf m s sched)[j]? = some s1 →
    m.run s (sched.take j) = some (s1, os.take j) := by
  intro sched
  induction sched with
  | nil => intro s s' os j s1 _ h; simp [statesOf] at h
  | cons x rest ih =>
    intro s s' os j s1 hr h
    obtain ⟨t, a⟩ := x
    simp only [Model.run] at hr
    cases hap : m.apply s t a with
    | none => simp [hap] at hr
    | some p =>
      obtain ⟨s2, o⟩ := p
      simp only [hap] at hr
      cases hrr : m.run s2 rest with
      | none => simp [hrr] at hr
      | some q =>
        obtain ⟨s3, os2⟩ := q
        simp only [hrr, Option.some.injEq, Prod.mk.injEq] at hr
        obtain ⟨rfl, rfl⟩ := hr
        cases j with
        | zero =>
          simp [statesOf] at h
          subst h
          simp [Model.run]
        | succ j =>
          simp only [statesOf, hap, List.getElem?_cons_succ] at h
          have := ih s2 s3 os2 j s1 hrr h
          simp only [List.take_succ_cons, Model.run, hap, this]

/-- Every run of the model lifts to an instrumented run: the ghost state at the end satisfies the invariants, and
    its `hist` / `pend` / `trace` are the history / pending table / state sequence of the run. -/
theorem run_ghost {Q : QSys σ} (hQ : Q.OK) : ∀ (sched : List (Tid × Act)) (g : GSt σ) (s' : σ) (os : List (Tid × Obs)),
    GInv Q g → GE Q g → Q.model.run g.s sched = some (s', os) →
    ∃ g', GInv Q g' ∧ GE Q g' ∧ g'.s = s' ∧ g'.hist = g.hist ++ histAux g.clock g.pend os ∧
      g'.pend = pendAux g.clock g.pend os ∧ g'.clock = g.clock + os.length ∧
      g'.trace = g.trace ++ statesOf Q.model g.s sched := by
  intro sched
  induction sched with
  | nil =>
    intro g s' os hg he hr
    simp [Model.run] at hr
    obtain ⟨rfl, rfl⟩ := hr
    exact ⟨g, hg, he, rfl, by simp [histAux], by simp [pendAux], by simp, by simp [statesOf]⟩
  | cons x rest ih =>
    intro g s' os hg he hr
    obtain ⟨t, a⟩ := x
    simp only [Model.run] at hr
    cases hap : Q.model.apply g.s t a with
    | none => simp [hap] at hr
    | some p =>
      obtain ⟨s1, o⟩ := p
      simp only [hap] at hr
      cases hrr : Q.model.run s1 rest with
      | none => simp [hrr] at hr
      | some q =>
        obtain ⟨s2, os2⟩ := q
        simp only [hrr, Option.some.injEq, Prod.mk.injEq] at hr
        obtain ⟨rfl, rfl⟩ := hr
        have hg1 := ginv_apply hQ hg hap
        have he1 := ge_apply hQ hg he hap
        have hrr' : Q.model.run (gnext Q g t s1 o).s rest = some (s2, os2) := by rw [gnext_s]; exact hrr
        obtain ⟨g', hg', he', hs', hh, hp, hc, htr⟩ := ih (gnext Q g t s1 o) s2 os2 hg1 he1 hrr'
        refine ⟨g', hg', he', hs', ?_, ?_, ?_, ?_⟩
        · rw [hh, gnext_clock, gnext_hist]
        · rw [hp, gnext_clock, gnext_pend]
        · rw [hc, gnext_clock]; simp; omega
        · rw [htr, gnext_trace, gnext_s]; simp [statesOf, hap]

/-! ### From the ghost invariant to linearizability -/

/-- The linearization extracted from the ghost log. -/
theorem ginv_linearizable {Q : QSys σ} (hQ : Q.OK) {g : GSt σ} (h : GInv Q g) :
    Linearizable Q.spec (g.hist ++ (openAll (finalLog g.log)).map (LE.fin g.clock)) ∧
    (∀ e ∈ (openAll (finalLog g.log)).map (LE.fin g.clock),
        g.pend e.tid = some (e.op, e.inv) ∧ e.res = g.clock ∧ Q.postRet g.s e.tid = some e.ret) ∧
    ((openAll (finalLog g.log)).map (LE.fin g.clock)).Pairwise (fun a b => a.tid ≠ b.tid) := by
  obtain ⟨hl, hg⟩ := h
  obtain ⟨hspec, hinvlt, hrt, hcomp, hpendlt, hpre, hpreopen, hpost⟩ := hg
  have hsub : (finalLog g.log).Sublist g.log := List.filter_sublist
  have hcompl : completed (finalLog g.log) = completed g.log :=
    completed_filter_open keepLE g.log (fun e _ hk => (keepLE_false hk).1)
  refine ⟨⟨(finalLog g.log).map (LE.fin g.clock), ?_, ?_, ?_⟩, ?_, ?_⟩
  · refine (completed_openAll_perm g.clock (finalLog g.log)).symm.trans (List.Perm.append_right _ ?_)
    rw [hcompl]; exact hcomp
  · unfold RespectsRT
    rw [List.pairwise_map]
    refine List.Pairwise.imp_of_mem ?_ (hrt.sublist hsub)
    intro a b ha _ hab
    simp only [LE.fin]
    cases hr : b.res with
    | none => have := hinvlt a (hsub.subset ha); simp; omega
    | some r => have := hab r hr; simp; omega
  · show Legal Q.spec Q.spec.init _
    rw [hQ.spec_init]
    exact legal_of_runSpecS Q.spec g.clock (finalLog g.log) [] _
      (runSpecS_filter Q.spec hQ.ret0 keepLE g.log [] _ (fun e _ hk => (keepLE_false hk).2) hspec)
  · intro e' he'
    obtain ⟨e, he, rfl⟩ := List.mem_map.mp he'
    have he2 := List.mem_filter.mp he
    have he3 := List.mem_filter.mp he2.1
    have hr : e.res = none := by cases h : e.res <;> simp_all
    have hr0 : e.ret ≠ [0] := by
      intro h0
      have := he3.2
      simp [keepLE, hr, h0] at this
    have hmem : e ∈ openOf e.tid g.log := by
      simp only [openOf, List.mem_filter]; exact ⟨he3.1, by simp [hr]⟩
    cases hp : Q.lpRet g.s e.tid with
    | none => rw [hpreopen e.tid hp] at hmem; simp at hmem
    | some r =>
      obtain ⟨op, k, h1, h2⟩ := hpost e.tid r hp
      rw [h2] at hmem
      simp at hmem
      have e1 : e.op = op := by rw [hmem]
      have e2 : e.inv = k := by rw [hmem]
      have e3 : e.ret = r := by rw [hmem]
      have hpr : Q.postRet g.s e.tid = some r := hQ.lp_post _ _ _ hp (e3 ▸ hr0)
      simp [LE.fin, hr, h1, e1, e2, e3, hpr]
  · rw [List.pairwise_map]
    refine (openAll_pairwise g.log ?_).sublist (openAll_finalLog_sublist g.log)
    intro t
    cases hp : Q.lpRet g.s t with
    | none => rw [hpreopen t hp]; simp
    | some r => obtain ⟨op, k, -, h2⟩ := hpost t r hp; rw [h2]; simp

/-! ### Main theorems -/

theorem run_ghost_init {Q : QSys σ} (hQ : Q.OK) {sched : List (Tid × Act)} {s : σ} {os : List (Tid × Obs)}
    (h : Q.model.run Q.init sched = some (s, os)) :
    ∃ g, GInv Q g ∧ GE Q g ∧ g.s = s ∧ g.hist = historyOf os ∧ g.pend = pendingOf os ∧ g.clock = os.length ∧
      g.trace = statesOf Q.model Q.init sched := by
  obtain ⟨g, hg, he, h1, h2, h3, h4, h5⟩ := run_ghost hQ sched (ginit Q) s os (ginv_init hQ) (ge_init hQ) h
  exact ⟨g, hg, he, h1, by simpa [ginit, historyOf] using h2, by simpa [ginit, pendingOf] using h3,
    by simpa [ginit] using h4, by simpa [ginit] using h5⟩

/-- The structural invariant holds in every reachable state. -/
theorem inv_reachable {Q : QSys σ} (hQ : Q.OK) (s : σ) (h : Q.model.Reachable Q.init s) : Q.Inv s := by
  obtain ⟨sched, os, hr⟩ := h
  obtain ⟨g, hg, -, rfl, -⟩ := run_ghost_init hQ hr
  exact hg.1

/-- **Linearizability** (Herlihy–Wing, with completion of pending operations).  For every run of the machine, the
    history of the completed operations, extended by response records `extra` for SOME of the operations still
    pending at the end (operations that have passed their linearization point definitively — `postRet` — they get
    the result fixed there and the response time "end of the run"; at most one per thread), is linearizable to
    `Q.spec`.  All other pending operations are dropped. -/
theorem linearizable {Q : QSys σ} (hQ : Q.OK) (sched : List (Tid × Act)) (s : σ) (os : List (Tid × Obs))
    (h : Q.model.run Q.init sched = some (s, os)) :
    ∃ extra : List (OpRec GOp GRet),
      (∀ e ∈ extra, pendingOf os e.tid = some (e.op, e.inv) ∧ e.res = os.length ∧
          Q.postRet s e.tid = some e.ret) ∧
      extra.Pairwise (fun a b => a.tid ≠ b.tid) ∧
      Linearizable Q.spec (historyOf os ++ extra) := by
  obtain ⟨g, hg, -, rfl, h2, h3, h4, -⟩ := run_ghost_init hQ h
  obtain ⟨hlin, hex, hpw⟩ := ginv_linearizable hQ hg
  rw [h2, h3, h4] at *
  exact ⟨_, hex, hpw, hlin⟩

theorem linearizable_no_effect_pending {Q : QSys σ} (hQ : Q.OK) (sched : List (Tid × Act)) (s : σ)
    (os : List (Tid × Obs)) (h : Q.model.run Q.init sched = some (s, os)) (hq : ∀ t, Q.postRet s t = none) :
    Linearizable Q.spec (historyOf os) := by
  obtain ⟨extra, hex, -, hlin⟩ := linearizable hQ sched s os h
  have : extra = [] := by
    apply List.eq_nil_iff_forall_not_mem.mpr
    intro e he
    have := (hex e he).2.2
    rw [hq] at this; simp at this
  simpa [this] using hlin

end CdsVerif.Algo.Ring.LinX

/-! ## Part 2: the ring buffer -/

namespace CdsVerif.Algo.Ring
open CdsVerif.Machine CdsVerif.Spec CdsVerif.Lin CdsVerif.Algo.QueueLin

/-! ### The sequential specification, in the machine's vocabulary -/

/-- Push of the batch `vs` on the bounded queue `q`: all or nothing. -/
def pStep (cap : Nat) (q vs : List Int) : List Int × GRet :=
  if q.length + vs.length ≤ cap then (q ++ vs, [1]) else (q, [0])

/-- The consumer operations on the queue `q` (`popf2` is the second half of `popf`). -/
def cStep (q : List Int) : COp → List Int × GRet
  | .pop k => if k ≤ q.length then (q.drop k, 1 :: q.take k) else (q, [0])
  | .front => match q with
    | [] => ([], [0])
    | x :: xs => (x :: xs, [1, x])
  | _ => match q with
    | [] => ([], [0])
    | x :: xs => (xs, [1, x])

def ringStep (cap : Nat) (q : List Int) (op : GOp) : Option (List Int × GRet) :=
  match batchOf op with
  | some vs => some (pStep cap q vs)
  | none => (consOf op).map (cStep q)

/-- Bounded FIFO with batches: what `WeakRingBuffer` is for a single producer and a single consumer. -/
def ringSpec (cap : Nat) : Spec (List Int) GOp GRet := detSpec [] (ringStep cap)

theorem cStep_ret0 (q : List Int) (c : COp) (h : (cStep q c).2 = [0]) : (cStep q c).1 = q := by
  cases c <;> simp only [cStep] at h ⊢
  · split <;> simp_all
  all_goals (cases q <;> simp_all)

theorem pStep_ret0 (cap : Nat) (q vs : List Int) (h : (pStep cap q vs).2 = [0]) : (pStep cap q vs).1 = q := by
  simp only [pStep] at h ⊢
  split <;> simp_all

theorem ring_ret0 (cap : Nat) (q : List Int) (op : GOp) (q' : List Int)
    (h : (ringSpec cap).next q op [0] = some q') : q' = q := by
  simp only [ringSpec, detSpec, ringStep] at h
  cases hb : batchOf op with
  | some vs =>
    simp only [hb] at h
    split at h
    · rename_i heq; simp at h; rw [← h]; exact pStep_ret0 cap q vs heq.symm
    · simp at h
  | none =>
    simp only [hb] at h
    cases hc : consOf op with
    | none => simp [hc] at h
    | some c =>
      simp only [hc, Option.map_some] at h
      split at h
      · rename_i heq; simp at h; rw [← h]; exact cStep_ret0 q c heq.symm
      · simp at h

theorem ringSpec_push (cap : Nat) (q : List Int) (op : GOp) (vs : List Int) (hb : batchOf op = some vs) :
    (ringSpec cap).next q op (pStep cap q vs).2 = some (pStep cap q vs).1 := by
  simp [ringSpec, detSpec, ringStep, hb]

theorem batchOf_none_of_consOf (op : GOp) (c : COp) (h : consOf op = some c) : batchOf op = none := by
  unfold consOf at h
  split at h <;> simp at h <;> simp [batchOf, *]

theorem ringSpec_cons (cap : Nat) (q : List Int) (op : GOp) (c : COp) (hc : consOf op = some c) :
    (ringSpec cap).next q op (cStep q c).2 = some (cStep q c).1 := by
  simp [ringSpec, detSpec, ringStep, hc, batchOf_none_of_consOf op c hc]

/-! ### Abstract queue, linearization status, and what the program counters remember of the operation -/

/-- The abstract queue: the elements pushed and not yet popped. -/
def absQ (s : St) : List Int := s.pushed.drop s.front

def pRet : PPC → Option GRet
  | .done r => some r
  | _ => none

def cRet : CPC → Option GRet
  | .done r => some r
  | _ => none

/-- Thread `t` has passed the linearization point of its operation, with result `r` (nothing is tentative). -/
def lpRet (s : St) (t : Tid) : Option GRet :=
  if t = 0 then pRet s.pp else if t = 1 then cRet s.cp else none

def pBatch : PPC → Option (List Int)
  | .ldBack vs => some vs
  | .ldFront vs _ => some vs
  | .stBack vs _ => some vs
  | _ => none

def normC : COp → COp
  | .popf2 _ => .popf1
  | c => c

def cKind : CPC → Option COp
  | .ldFront c => some (normC c)
  | .ldBack c _ => some (normC c)
  | .stFront k _ => some (.pop k)
  | .stFrontPF _ _ => some .popf1
  | _ => none

theorem cStep_norm (q : List Int) (c : COp) : cStep q (normC c) = cStep q c := by
  cases c <;> rfl

theorem absQ_length (s : St) (h : RingInv s) : (absQ s).length = s.back - s.front := by
  simp [absQ, ← h.back_eq]

theorem drop_cons_of_getElem? (l : List Int) (i : Nat) (v : Int) (h : l[i]? = some v) :
    l.drop i = v :: l.drop (i + 1) := by
  obtain ⟨hi, rfl⟩ := List.getElem?_eq_some_iff.mp h
  exact List.drop_eq_getElem_cons hi

/-- Producer steps: silent, or the linearization point of the push (`back_` store, or the failing re-load). -/
theorem p_step (s s' : St) (ev : Ev) (h : RingInv s) (hs : step s 0 = some (s', ev)) :
    s'.cp = s.cp ∧ s'.cap = s.cap ∧ pRet s.pp = none ∧
    ((pRet s'.pp = none ∧ absQ s' = absQ s ∧ pBatch s'.pp = pBatch s.pp) ∨
     (∃ vs, pBatch s.pp = some vs ∧ pBatch s'.pp = none ∧ pRet s'.pp = some (pStep s.cap (absQ s) vs).2 ∧
        absQ s' = (pStep s.cap (absQ s) vs).1 ∧
        ((pStep s.cap (absQ s) vs).2 = [0] → ∃ b, s.pp = .ldFront vs b ∧ s.cap < (absQ s).length + vs.length))) := by
  have hlen := absQ_length s h
  have hfl := in_flight_le_cap s h
  unfold step at hs
  simp only [↓reduceIte] at hs
  split at hs
  · rename_i vs hpp
    split at hs <;> simp only [Option.some.injEq, Prod.mk.injEq] at hs <;> obtain ⟨rfl, -⟩ := hs <;>
      exact ⟨rfl, rfl, by simp [hpp, pRet], .inl ⟨by simp [pRet], rfl, by simp [hpp, pBatch]⟩⟩
  · rename_i vs b hpp
    have hb := h.p_ldFront vs b hpp
    split at hs <;> simp only [Option.some.injEq, Prod.mk.injEq] at hs <;> obtain ⟨rfl, -⟩ := hs
    · rename_i hlt
      have hp : pStep s.cap (absQ s) vs = (absQ s, [0]) := by
        unfold pStep; rw [if_neg (by omega)]
      refine ⟨rfl, rfl, by simp [hpp, pRet], .inr ⟨vs, by simp [hpp, pBatch], by simp [pBatch], ?_, ?_, ?_⟩⟩
      · rw [hp]; simp [pRet]
      · rw [hp]; rfl
      · intro _; exact ⟨b, hpp, by omega⟩
    · exact ⟨rfl, rfl, by simp [hpp, pRet], .inl ⟨by simp [pRet], rfl, by simp [hpp, pBatch]⟩⟩
  · rename_i vs b hpp
    obtain ⟨hb, hb2⟩ := h.p_stBack vs b hpp
    have hpf := h.pfront_le
    simp only [Option.some.injEq, Prod.mk.injEq] at hs
    obtain ⟨rfl, -⟩ := hs
    have hp : pStep s.cap (absQ s) vs = (absQ s ++ vs, [1]) := by
      unfold pStep; rw [if_pos (by omega)]
    refine ⟨rfl, rfl, by simp [hpp, pRet], .inr ⟨vs, by simp [hpp, pBatch], by simp [pBatch], ?_, ?_, ?_⟩⟩
    · rw [hp]; simp [pRet]
    · rw [hp]; simp only [absQ]
      exact List.drop_append_of_le_length (by rw [← h.back_eq]; omega)
    · rw [hp]; intro h0; simp at h0
  · simp at hs

/-- The thread-private continuation of the consumer: silent, except for `front`, which is linearized there. -/
theorem proceed_eff (s : St) (op : COp) (f : Nat) (hf : f = s.front) (hn : f + need op ≤ s.back)
    (hcont : ∀ j, s.front ≤ j → j < s.back → s.pushed[j]? = some (s.buf (j % s.cap))) :
    (proceed s op f).pp = s.pp ∧ (proceed s op f).cap = s.cap ∧ absQ (proceed s op f) = absQ s ∧
    ((cRet (proceed s op f).cp = none ∧ cKind (proceed s op f).cp = some (normC op)) ∨
     (op = .front ∧ cKind (proceed s op f).cp = none ∧
        cRet (proceed s op f).cp = some (cStep (absQ s) .front).2 ∧ (cStep (absQ s) .front).1 = absQ s)) := by
  cases op with
  | pop k => exact ⟨rfl, rfl, rfl, .inl ⟨rfl, rfl⟩⟩
  | popf1 => exact ⟨rfl, rfl, rfl, .inl ⟨rfl, rfl⟩⟩
  | popf2 v => exact ⟨rfl, rfl, rfl, .inl ⟨rfl, rfl⟩⟩
  | front =>
    refine ⟨rfl, rfl, rfl, .inr ⟨rfl, rfl, ?_, ?_⟩⟩
    · simp only [need] at hn
      have hq := drop_cons_of_getElem? s.pushed s.front _ (hcont s.front (Nat.le_refl _) (by omega))
      subst hf
      simp only [proceed, cRet, absQ, hq, cStep]
    · simp only [need] at hn
      have hq := drop_cons_of_getElem? s.pushed s.front _ (hcont s.front (Nat.le_refl _) (by omega))
      simp only [absQ, hq, cStep]

/-- Consumer steps: silent, or the linearization point of the pop / front / popf. -/
theorem c_step (s s' : St) (ev : Ev) (h : RingInv s) (hs : step s 1 = some (s', ev)) :
    s'.pp = s.pp ∧ s'.cap = s.cap ∧ cRet s.cp = none ∧
    ((cRet s'.cp = none ∧ absQ s' = absQ s ∧ cKind s'.cp = cKind s.cp) ∨
     (∃ c, cKind s.cp = some c ∧ cKind s'.cp = none ∧ cRet s'.cp = some (cStep (absQ s) c).2 ∧
        absQ s' = (cStep (absQ s) c).1 ∧
        ((cStep (absQ s) c).2 = [0] → ∃ op f, s.cp = .ldBack op f ∧ (absQ s).length < need op))) := by
  have hlen := absQ_length s h
  have hfl := in_flight_le_cap s h
  have hcb := h.cback_le
  have hfc := h.front_le
  unfold step at hs
  simp only [show ((1 : Tid) = 0) = False from by simp, ↓reduceIte] at hs
  split at hs
  · rename_i op hcp
    split at hs <;> simp only [Option.some.injEq, Prod.mk.injEq] at hs <;> obtain ⟨rfl, -⟩ := hs
    · exact ⟨rfl, rfl, by simp [hcp, cRet], .inl ⟨by simp [cRet], rfl, by simp [hcp, cKind]⟩⟩
    · rename_i hge
      obtain ⟨e1, e2, e3, e4⟩ := proceed_eff s op s.front rfl (by omega) h.content
      refine ⟨e1, e2, by simp [hcp, cRet], ?_⟩
      rcases e4 with ⟨e5, e6⟩ | ⟨rfl, e5, e6, e7⟩
      · exact .inl ⟨e5, e3, by rw [e6, hcp]; rfl⟩
      · refine .inr ⟨.front, by simp [hcp, cKind, normC], e5, e6, by rw [e3, e7], ?_⟩
        intro h0
        exfalso
        simp only [need] at hge
        have : absQ s ≠ [] := by intro hq; rw [hq] at hlen; simp at hlen; omega
        revert h0; cases hq : absQ s <;> simp_all [cStep]
  · rename_i op f hcp
    obtain ⟨hf, hv⟩ := h.c_ldBack op f hcp
    split at hs <;> simp only [Option.some.injEq, Prod.mk.injEq] at hs <;> obtain ⟨rfl, -⟩ := hs
    · rename_i hlt
      have hq : (absQ s).length < need op := by omega
      have hc : cStep (absQ s) (normC op) = (absQ s, [0]) := by
        rw [cStep_norm]
        cases op with
        | pop k => simp only [need] at hq; simp only [cStep]; rw [if_neg (by omega)]
        | front => simp only [need] at hq; cases hq2 : absQ s <;> simp_all [cStep]
        | popf1 => simp only [need] at hq; cases hq2 : absQ s <;> simp_all [cStep]
        | popf2 v => simp only [need] at hq; cases hq2 : absQ s <;> simp_all [cStep]
      refine ⟨rfl, rfl, by simp [hcp, cRet], .inr ⟨normC op, by simp [hcp, cKind], by simp [cKind], ?_, ?_, ?_⟩⟩
      · rw [hc]; simp [cRet]
      · rw [hc]; rfl
      · intro _; exact ⟨op, f, hcp, hq⟩
    · rename_i hge
      obtain ⟨e1, e2, e3, e4⟩ := proceed_eff { s with cback := s.back } op f hf (by dsimp only; omega) h.content
      refine ⟨e1, e2, by simp [hcp, cRet], ?_⟩
      have ha : absQ { s with cback := s.back } = absQ s := rfl
      rw [ha] at e3 e4
      rcases e4 with ⟨e5, e6⟩ | ⟨rfl, e5, e6, e7⟩
      · exact .inl ⟨e5, e3, by rw [e6, hcp]; rfl⟩
      · refine .inr ⟨.front, by simp [hcp, cKind, normC], e5, e6, by rw [e3, e7], ?_⟩
        intro h0
        exfalso
        simp only [need] at hge
        have : absQ s ≠ [] := by intro hq; rw [hq] at hlen; simp at hlen; omega
        revert h0; cases hq : absQ s <;> simp_all [cStep]
  · rename_i k f hcp
    obtain ⟨hf, hk⟩ := h.c_stFront k f hcp
    subst hf
    simp only [Option.some.injEq, Prod.mk.injEq] at hs
    obtain ⟨rfl, -⟩ := hs
    have hrd : readCells s.buf s.cap s.front k = (absQ s).take k :=
      readCells_eq s.buf s.cap s.front k s.pushed (by rw [← h.back_eq]; omega)
        (fun j h1 h2 => h.content j h1 (by omega))
    have hc : cStep (absQ s) (.pop k) = ((absQ s).drop k, 1 :: (absQ s).take k) := by
      simp only [cStep]; rw [if_pos (by omega)]
    refine ⟨rfl, rfl, by simp [hcp, cRet], .inr ⟨.pop k, by simp [hcp, cKind], by simp [cKind], ?_, ?_, ?_⟩⟩
    · rw [hc, ← hrd]; simp [cRet]
    · rw [hc]; simp only [absQ, List.drop_drop]
    · rw [hc]; intro h0; simp at h0
  · rename_i v f hcp
    obtain ⟨hf, hk, hv⟩ := h.c_stFrontPF v f hcp
    subst hf
    simp only [Option.some.injEq, Prod.mk.injEq] at hs
    obtain ⟨rfl, -⟩ := hs
    have hq := drop_cons_of_getElem? s.pushed s.front v hv
    have hc : cStep (absQ s) .popf1 = (s.pushed.drop (s.front + 1), [1, v]) := by
      simp only [absQ, hq, cStep]
    refine ⟨rfl, rfl, by simp [hcp, cRet], .inr ⟨.popf1, by simp [hcp, cKind], by simp [cKind], ?_, ?_, ?_⟩⟩
    · rw [hc]; simp [cRet]
    · rw [hc]; rfl
    · rw [hc]; intro h0; simp at h0
  · simp at hs

theorem step_tid (s : St) (t : Tid) (r : St × Ev) (hs : step s t = some r) : t = 0 ∨ t = 1 := by
  unfold step at hs
  split at hs
  · left; assumption
  · split at hs
    · right; assumption
    · simp at hs

theorem invoke_eff (s s' : St) (t : Tid) (op : GOp) (hs : invoke s t op = some s') :
    (t = 0 ∧ s.pp = .idle ∧ ∃ vs, batchOf op = some vs ∧ s' = { s with pp := .ldBack vs }) ∨
    (t = 1 ∧ s.cp = .idle ∧ ∃ c, consOf op = some c ∧ s' = { s with cp := .ldFront c }) := by
  unfold invoke at hs
  split at hs
  · split at hs
    · rename_i vs hpp hb
      simp at hs; subst hs
      exact .inl ⟨by assumption, hpp, vs, hb, rfl⟩
    · simp at hs
  · split at hs
    · split at hs
      · rename_i c hcp hc
        simp at hs; subst hs
        exact .inr ⟨by assumption, hcp, c, hc, rfl⟩
      · simp at hs
    · simp at hs

theorem result_eff (s s' : St) (t : Tid) (r : GRet) (hs : result s t = some (s', r)) :
    (t = 0 ∧ s.pp = .done r ∧ s' = { s with pp := .idle }) ∨
    (t = 1 ∧ s.cp = .done r ∧ s' = { s with cp := .idle }) := by
  unfold result at hs
  split at hs
  · split at hs
    · rename_i r0 hpp
      simp at hs; obtain ⟨rfl, rfl⟩ := hs
      exact .inl ⟨by assumption, hpp, rfl⟩
    · simp at hs
  · split at hs
    · split at hs
      · rename_i r0 hcp
        simp at hs; obtain ⟨rfl, rfl⟩ := hs
        exact .inr ⟨by assumption, hcp, rfl⟩
      · simp at hs
    · simp at hs

theorem normC_of_consOf (op : GOp) (c : COp) (h : consOf op = some c) : normC c = c := by
  cases c with
  | popf2 v => exact absurd rfl (consOf_ne_popf2 op _ h v)
  | _ => rfl

theorem lpRet_zero (s : St) : lpRet s 0 = pRet s.pp := rfl
theorem lpRet_one (s : St) : lpRet s 1 = cRet s.cp := rfl
theorem lpRet_other (s : St) (t : Tid) (h0 : t ≠ 0) (h1 : t ≠ 1) : lpRet s t = none := by simp [lpRet, h0, h1]

/-! ### The machine with the invoked operations remembered -/

/-- The machine state together with the operation last invoked by the producer and by the consumer. -/
structure GS where
  s : St
  pop : Option GOp
  cop : Option GOp

def gmodel : Model GS where
  invoke g t op := (invoke g.s t op).map (fun s' => if t = 0 then ⟨s', some op, g.cop⟩ else ⟨s', g.pop, some op⟩)
  step g t := (step g.s t).map (fun r => (⟨r.1, g.pop, g.cop⟩, r.2))
  result g t := (result g.s t).map (fun r => (⟨r.1, g.pop, g.cop⟩, r.2))

def ginit (cap : Nat) : GS := ⟨init cap, none, none⟩

/-- The operation thread `t` is executing, while its result is not fixed. -/
def gopOf (g : GS) (t : Tid) : Option GOp :=
  if t = 0 then (if (pBatch g.s.pp).isSome then g.pop else none)
  else if t = 1 then (if (cKind g.s.cp).isSome then g.cop else none) else none

theorem gopOf_zero (g : GS) : gopOf g 0 = if (pBatch g.s.pp).isSome then g.pop else none := rfl
theorem gopOf_one (g : GS) : gopOf g 1 = if (cKind g.s.cp).isSome then g.cop else none := rfl
theorem gopOf_other (g : GS) (t : Tid) (h0 : t ≠ 0) (h1 : t ≠ 1) : gopOf g t = none := by simp [gopOf, h0, h1]

/-- `RingInv`, the constant capacity, and: the program counters run the operation remembered. -/
structure GOK (cap : Nat) (g : GS) : Prop where
  inv : RingInv g.s
  cap_eq : g.s.cap = cap
  pop : ∀ vs, pBatch g.s.pp = some vs → ∃ op, g.pop = some op ∧ batchOf op = some vs
  cop : ∀ c, cKind g.s.cp = some c → ∃ op, g.cop = some op ∧ consOf op = some c

/-- Thread `t` is about to perform the load that makes its operation fail: the producer's re-load of `front_`
    with fewer than `count` free cells, the consumer's re-load of `back_` with fewer than the needed elements. -/
def FailAt (g : GS) (t : Tid) : Prop :=
  (t = 0 ∧ ∃ vs b, g.s.pp = .ldFront vs b ∧ g.s.cap < (absQ g.s).length + vs.length) ∨
  (t = 1 ∧ ∃ op f, g.s.cp = .ldBack op f ∧ (absQ g.s).length < need op)

def qsys (cap : Nat) : LinX.QSys GS where
  spec := ringSpec cap
  model := gmodel
  init := ginit cap
  Inv := GOK cap
  absQ := fun g => absQ g.s
  lpRet := fun g t => lpRet g.s t
  postRet := fun g t => lpRet g.s t
  opOf := gopOf
  FailAt := FailAt

theorem qsys_invoke (cap : Nat) (g : GS) (t : Tid) (op : GOp) (g' : GS) (hI : GOK cap g)
    (hs : gmodel.invoke g t op = some g') : LinX.InvokeOK (qsys cap) g t op g' := by
  simp only [gmodel, Option.map_eq_some_iff] at hs
  obtain ⟨s1, hs1, rfl⟩ := hs
  have hinv' := inv_invoke g.s t op s1 hI.inv hs1
  rcases invoke_eff g.s s1 t op hs1 with ⟨rfl, hpp, vs, hb, rfl⟩ | ⟨rfl, hcp, c, hc, rfl⟩
  · simp only [↓reduceIte]
    refine ⟨⟨hinv', hI.cap_eq, ?_, hI.cop⟩, ⟨?_, ?_⟩, ?_, ?_, ?_, rfl⟩
    · intro vs' h; simp only [pBatch, Option.some.injEq] at h; subst h; exact ⟨op, rfl, hb⟩
    · intro t2 ht; simp only [qsys, lpRet, if_neg ht]
    · intro t2 ht; simp only [qsys, gopOf, if_neg ht]
    · simp only [qsys, lpRet_zero, hpp, pRet]
    · simp only [qsys, gopOf_zero, pBatch, Option.isSome_some, if_true]
    · simp only [qsys, lpRet_zero, pRet]
  · simp only [show ((1 : Tid) = 0) = False from by simp, ↓reduceIte]
    refine ⟨⟨hinv', hI.cap_eq, hI.pop, ?_⟩, ⟨?_, ?_⟩, ?_, ?_, ?_, rfl⟩
    · intro c' h; simp only [cKind, Option.some.injEq] at h; subst h
      exact ⟨op, rfl, by rw [normC_of_consOf op c hc]; exact hc⟩
    · intro t2 ht
      by_cases h0 : t2 = 0
      · subst h0; rfl
      · simp only [qsys]; rw [lpRet_other _ _ h0 ht, lpRet_other _ _ h0 ht]
    · intro t2 ht
      by_cases h0 : t2 = 0
      · subst h0; rfl
      · simp only [qsys]; rw [gopOf_other _ _ h0 ht, gopOf_other _ _ h0 ht]
    · simp only [qsys, lpRet_one, hcp, cRet]
    · simp only [qsys, gopOf_one, cKind, Option.isSome_some, if_true]
    · simp only [qsys, lpRet_one, cRet]

theorem qsys_result (cap : Nat) (g : GS) (t : Tid) (g' : GS) (r : GRet) (hI : GOK cap g)
    (hs : gmodel.result g t = some (g', r)) : LinX.ResultOK (qsys cap) g t r g' := by
  simp only [gmodel, Option.map_eq_some_iff] at hs
  obtain ⟨⟨s1, r1⟩, hs1, heq⟩ := hs
  simp only [Prod.mk.injEq] at heq
  obtain ⟨rfl, rfl⟩ := heq
  have hinv' := inv_result g.s t (s1, r1) hI.inv hs1
  rcases result_eff g.s s1 t r1 hs1 with ⟨rfl, hpp, rfl⟩ | ⟨rfl, hcp, rfl⟩
  · refine ⟨⟨hinv', hI.cap_eq, ?_, hI.cop⟩, ⟨?_, ?_⟩, ?_, ?_, ?_, rfl⟩
    · intro vs' h; simp [pBatch] at h
    · intro t2 ht; simp only [qsys, lpRet, if_neg ht]
    · intro t2 ht; simp only [qsys, gopOf, if_neg ht]
    · simp only [qsys, lpRet_zero, hpp, pRet]
    · simp only [qsys, lpRet_zero, pRet]
    · simp [qsys, gopOf_zero, pBatch]
  · refine ⟨⟨hinv', hI.cap_eq, hI.pop, ?_⟩, ⟨?_, ?_⟩, ?_, ?_, ?_, rfl⟩
    · intro c' h; simp [cKind] at h
    · intro t2 ht
      by_cases h0 : t2 = 0
      · subst h0; rfl
      · simp only [qsys]; rw [lpRet_other _ _ h0 ht, lpRet_other _ _ h0 ht]
    · intro t2 ht
      by_cases h0 : t2 = 0
      · subst h0; rfl
      · simp only [qsys]; rw [gopOf_other _ _ h0 ht, gopOf_other _ _ h0 ht]
    · simp only [qsys, lpRet_one, hcp, cRet]
    · simp only [qsys, lpRet_one, cRet]
    · simp [qsys, gopOf_one, cKind]

theorem qsys_step (cap : Nat) (g : GS) (t : Tid) (g' : GS) (ev : Ev) (hI : GOK cap g)
    (hs : gmodel.step g t = some (g', ev)) : LinX.StepOK (qsys cap) g t g' := by
  simp only [gmodel, Option.map_eq_some_iff] at hs
  obtain ⟨⟨s1, e⟩, hs1, heq⟩ := hs
  simp only [Prod.mk.injEq] at heq
  obtain ⟨rfl, rfl⟩ := heq
  have hinv' := inv_step' g.s t (s1, e) hI.inv hs1
  have hcapeq := hI.cap_eq
  rcases step_tid _ _ _ hs1 with rfl | rfl
  · obtain ⟨hcp, hcap, hret, hcase⟩ := p_step g.s s1 e hI.inv hs1
    rw [hcapeq] at hcase
    refine ⟨⟨hinv', hcap.trans hcapeq, ?_, ?_⟩, ⟨?_, ?_⟩, ?_, ?_, ?_, ?_, ?_⟩
    · intro vs hv
      rcases hcase with ⟨-, -, hb⟩ | ⟨vs0, -, hb, -⟩
      · exact hI.pop vs (hb ▸ hv)
      · rw [hb] at hv; cases hv
    · intro c hc; exact hI.cop c (hcp ▸ hc)
    · intro t2 ht; simp only [qsys, lpRet, if_neg ht]; rw [hcp]
    · intro t2 ht; simp only [qsys, gopOf, if_neg ht]; rw [hcp]
    · intro h1 r h2
      simp only [qsys, lpRet_zero] at h1 h2 ⊢
      rcases hcase with ⟨hn, -, -⟩ | ⟨vs, hb, -, hr, ha, -⟩
      · rw [hn] at h2; cases h2
      · obtain ⟨op, hop, hbo⟩ := hI.pop vs hb
        rw [hr] at h2
        simp only [Option.some.injEq] at h2
        subst h2
        refine ⟨op, by simp [gopOf_zero, hb, hop], ?_⟩
        rw [ha]; exact ringSpec_push cap _ op vs hbo
    · intro hc
      simp only [qsys, lpRet_zero] at hc ⊢
      rcases hc with hc | hc
      · exact absurd hret hc
      · rcases hcase with ⟨-, ha, -⟩ | ⟨vs, -, -, hr, -⟩
        · exact ha
        · rw [hr] at hc; cases hc
    · intro r hr
      simp only [qsys, lpRet_zero] at hr
      rw [hret] at hr; cases hr
    · intro hp
      simp only [qsys, lpRet_zero] at hp
      rcases hcase with ⟨-, -, hb⟩ | ⟨vs, -, -, hr, -⟩
      · simp only [qsys, gopOf_zero, hb]
      · rw [hr] at hp; cases hp
    · intro h1 h2
      simp only [qsys, lpRet_zero] at h1 h2
      rcases hcase with ⟨hn, -, -⟩ | ⟨vs, -, -, hr, -, hf⟩
      · rw [hn] at h2; cases h2
      · rw [hr] at h2
        simp only [Option.some.injEq] at h2
        obtain ⟨b, hpp, hlt⟩ := hf h2
        exact .inl ⟨rfl, vs, b, hpp, by rw [hcapeq]; exact hlt⟩
  · obtain ⟨hpp, hcap, hret, hcase⟩ := c_step g.s s1 e hI.inv hs1
    refine ⟨⟨hinv', hcap.trans hcapeq, ?_, ?_⟩, ⟨?_, ?_⟩, ?_, ?_, ?_, ?_, ?_⟩
    · intro vs hv; exact hI.pop vs (hpp ▸ hv)
    · intro c hc
      rcases hcase with ⟨-, -, hb⟩ | ⟨c0, -, hb, -⟩
      · exact hI.cop c (hb ▸ hc)
      · rw [hb] at hc; cases hc
    · intro t2 ht
      by_cases h0 : t2 = 0
      · subst h0; simp only [qsys, lpRet_zero]; rw [hpp]
      · simp only [qsys]; rw [lpRet_other _ _ h0 ht, lpRet_other _ _ h0 ht]
    · intro t2 ht
      by_cases h0 : t2 = 0
      · subst h0; simp only [qsys, gopOf_zero]; rw [hpp]
      · simp only [qsys]; rw [gopOf_other _ _ h0 ht, gopOf_other _ _ h0 ht]
    · intro h1 r h2
      simp only [qsys, lpRet_one] at h1 h2 ⊢
      rcases hcase with ⟨hn, -, -⟩ | ⟨c, hb, -, hr, ha, -⟩
      · rw [hn] at h2; cases h2
      · obtain ⟨op, hop, hbo⟩ := hI.cop c hb
        rw [hr] at h2
        simp only [Option.some.injEq] at h2
        subst h2
        refine ⟨op, by simp [gopOf_one, hb, hop], ?_⟩
        rw [ha]; exact ringSpec_cons cap _ op c hbo
    · intro hc
      simp only [qsys, lpRet_one] at hc ⊢
      rcases hc with hc | hc
      · exact absurd hret hc
      · rcases hcase with ⟨-, ha, -⟩ | ⟨c, -, -, hr, -⟩
        · exact ha
        · rw [hr] at hc; cases hc
    · intro r hr
      simp only [qsys, lpRet_one] at hr
      rw [hret] at hr; cases hr
    · intro hp
      simp only [qsys, lpRet_one] at hp
      rcases hcase with ⟨-, -, hb⟩ | ⟨c, -, -, hr, -⟩
      · simp only [qsys, gopOf_one, hb]
      · rw [hr] at hp; cases hp
    · intro h1 h2
      simp only [qsys, lpRet_one] at h1 h2
      rcases hcase with ⟨hn, -, -⟩ | ⟨c, -, -, hr, -, hf⟩
      · rw [hn] at h2; cases h2
      · rw [hr] at h2
        simp only [Option.some.injEq] at h2
        obtain ⟨op, f, hcp, hlt⟩ := hf h2
        exact .inr ⟨rfl, op, f, hcp, hlt⟩

theorem gok_init (cap : Nat) (hcap : 0 < cap) : GOK cap (ginit cap) :=
  ⟨inv_init cap hcap, rfl, by intro vs h; simp [ginit, init, pBatch] at h,
    by intro c h; simp [ginit, init, cKind] at h⟩

theorem qsys_ok (cap : Nat) (hcap : 0 < cap) : (qsys cap).OK where
  ret0 := ring_ret0 cap
  spec_init := rfl
  inv_init := gok_init cap hcap
  abs_init := by simp [qsys, ginit, init, absQ]
  lp_init := by intro t; simp [qsys, ginit, init, lpRet, pRet, cRet]
  op_init := by intro t; simp [qsys, ginit, init, gopOf, pBatch, cKind]
  post_lp := by intro s t r h; exact h
  post_op := by
    intro g t r h
    simp only [qsys] at h ⊢
    by_cases h0 : t = 0
    · subst h0
      rw [lpRet_zero] at h
      rw [gopOf_zero]
      cases hpp : g.s.pp <;> simp_all [pRet, pBatch]
    · by_cases h1 : t = 1
      · subst h1
        rw [lpRet_one] at h
        rw [gopOf_one]
        cases hcp : g.s.cp <;> simp_all [cRet, cKind]
      · exact gopOf_other g t h0 h1
  lp_post := by intro s t r h _; exact h
  invoke := by intro g t op g' hI hs; exact qsys_invoke cap g t op g' hI hs
  step := by intro g t g' ev hI hs; exact qsys_step cap g t g' ev hI hs
  result := by intro g t g' r hI hs; exact qsys_result cap g t g' r hI hs

/-! ### `gmodel` has exactly the runs of `model` -/

theorem apply_lift (s s' : St) (t : Tid) (a : Act) (o : Obs) (h : model.apply s t a = some (s', o))
    (p c : Option GOp) : ∃ p' c', gmodel.apply ⟨s, p, c⟩ t a = some (⟨s', p', c'⟩, o) := by
  cases a with
  | invoke op =>
    simp only [Model.apply, model, Option.map_eq_some_iff, Prod.mk.injEq] at h
    obtain ⟨s1, hs1, rfl, rfl⟩ := h
    by_cases ht : t = 0
    · subst ht; exact ⟨some op, c, by simp [Model.apply, gmodel, hs1]⟩
    · exact ⟨p, some op, by simp [Model.apply, gmodel, hs1, ht]⟩
  | step =>
    simp only [Model.apply, model, Option.map_eq_some_iff, Prod.mk.injEq] at h
    obtain ⟨r, hr, rfl, rfl⟩ := h
    exact ⟨p, c, by simp [Model.apply, gmodel, hr]⟩
  | ret =>
    simp only [Model.apply, model, Option.map_eq_some_iff, Prod.mk.injEq] at h
    obtain ⟨r, hr, rfl, rfl⟩ := h
    exact ⟨p, c, by simp [Model.apply, gmodel, hr]⟩

theorem run_lift : ∀ (sched : List (Tid × Act)) (s s' : St) (os : List (Tid × Obs)) (p c : Option GOp),
    model.run s sched = some (s', os) → ∃ p' c', gmodel.run ⟨s, p, c⟩ sched = some (⟨s', p', c'⟩, os) := by
  intro sched
  induction sched with
  | nil =>
    intro s s' os p c h
    simp only [Model.run, Option.some.injEq, Prod.mk.injEq] at h
    obtain ⟨rfl, rfl⟩ := h
    exact ⟨p, c, rfl⟩
  | cons x rest ih =>
    intro s s' os p c h
    obtain ⟨t, a⟩ := x
    simp only [Model.run] at h
    cases hap : model.apply s t a with
    | none => simp [hap] at h
    | some q =>
      obtain ⟨s1, o⟩ := q
      simp only [hap] at h
      cases hrr : model.run s1 rest with
      | none => simp [hrr] at h
      | some q2 =>
        obtain ⟨s2, os2⟩ := q2
        simp only [hrr, Option.some.injEq, Prod.mk.injEq] at h
        obtain ⟨rfl, rfl⟩ := h
        obtain ⟨p1, c1, h1⟩ := apply_lift s s1 t a o hap p c
        obtain ⟨p2, c2, h2⟩ := ih s1 s2 os2 p1 c1 hrr
        exact ⟨p2, c2, by simp only [Model.run, h1, h2]⟩

/-! ### Main theorems -/

/-- **Linearizability of the ring buffer, history level** (batches included).  For every capacity, every client
    program of the producer (thread 0) and of the consumer (thread 1) and every schedule, the history of the
    completed operations — the calls and the values RETURNED to the clients — extended by response records for the
    pending operations that have passed their linearization point (at most one per thread, completed with the
    result fixed there), is linearizable to the bounded FIFO with batches `ringSpec cap`. -/
theorem ring_linearizable (cap : Nat) (hcap : 0 < cap) (sched : List (Tid × Act)) (s : St) (os : List (Tid × Obs))
    (h : model.run (init cap) sched = some (s, os)) :
    ∃ extra : List (OpRec GOp GRet),
      (∀ e ∈ extra, pendingOf os e.tid = some (e.op, e.inv) ∧ e.res = os.length ∧ lpRet s e.tid = some e.ret) ∧
      extra.Pairwise (fun a b => a.tid ≠ b.tid) ∧
      Linearizable (ringSpec cap) (historyOf os ++ extra) := by
  obtain ⟨p', c', hg⟩ := run_lift sched (init cap) s os none none h
  exact LinX.linearizable (qsys_ok cap hcap) sched ⟨s, p', c'⟩ os hg

/-- A failing operation failed for the right reason, at an instant inside its interval: if a completed operation
    returned `[0]`, there is an instant `j` strictly between its call and its return such that, in the state `s1`
    reached by the first `j` actions, the calling thread is about to perform the load that makes it fail, and the
    abstract queue leaves fewer than `count` free cells (producer) / holds fewer than the needed elements
    (consumer). -/
theorem ring_fail_hindsight (cap : Nat) (hcap : 0 < cap) (sched : List (Tid × Act)) (s : St)
    (os : List (Tid × Obs)) (h : model.run (init cap) sched = some (s, os)) (r : OpRec GOp GRet)
    (hr : r ∈ historyOf os) (hret : r.ret = [0]) :
    ∃ j s1, r.inv < j ∧ j < r.res ∧ model.run (init cap) (sched.take j) = some (s1, os.take j) ∧
      ((r.tid = 0 ∧ ∃ vs b, s1.pp = .ldFront vs b ∧ cap < (absQ s1).length + vs.length) ∨
       (r.tid = 1 ∧ ∃ op f, s1.cp = .ldBack op f ∧ (absQ s1).length < need op)) := by
  obtain ⟨p', c', hg⟩ := run_lift sched (init cap) s os none none h
  obtain ⟨g, -, he, -, h2, -, h4, h5⟩ := LinX.run_ghost_init (qsys_ok cap hcap) hg
  obtain ⟨j, g1, e1, e2, e3, e4⟩ := he.histemp r (h2 ▸ hr) hret
  rw [h5] at e3
  have hrun := LinX.statesOf_prefix (qsys cap).model sched (qsys cap).init _ os j g1 hg e3
  have hok : GOK cap g1 := LinX.inv_reachable (qsys_ok cap hcap) g1 ⟨_, _, hrun⟩
  have hjl : j ≤ sched.length := by
    have := (List.getElem?_eq_some_iff.mp e3).1
    have hlen : ∀ (sch : List (Tid × Act)) (g0 : GS), (LinX.statesOf gmodel g0 sch).length ≤ sch.length := by
      intro sch
      induction sch with
      | nil => intro g0; simp [LinX.statesOf]
      | cons x rest ih =>
        intro g0
        obtain ⟨t, a⟩ := x
        simp only [LinX.statesOf]
        cases hap : gmodel.apply g0 t a with
        | none => simp
        | some q => simpa using ih q.1
    have := hlen sched (qsys cap).init
    simp only [qsys] at *
    omega
  -- project the prefix run of `gmodel` back to `model`
  have hproj : ∀ (sch : List (Tid × Act)) (g0 g1 : GS) (os1 : List (Tid × Obs)),
      gmodel.run g0 sch = some (g1, os1) → model.run g0.s sch = some (g1.s, os1) := by
    intro sch
    induction sch with
    | nil => intro g0 g1 os1 hh; simp only [Model.run, Option.some.injEq, Prod.mk.injEq] at hh ⊢; exact ⟨by rw [hh.1], hh.2⟩
    | cons x rest ih =>
      intro g0 g1 os1 hh
      obtain ⟨t, a⟩ := x
      simp only [Model.run] at hh ⊢
      cases hap : gmodel.apply g0 t a with
      | none => simp [hap] at hh
      | some q =>
        obtain ⟨g2, o⟩ := q
        simp only [hap] at hh
        cases hrr : gmodel.run g2 rest with
        | none => simp [hrr] at hh
        | some q2 =>
          obtain ⟨g3, os2⟩ := q2
          simp only [hrr, Option.some.injEq, Prod.mk.injEq] at hh
          obtain ⟨rfl, rfl⟩ := hh
          have hap' : model.apply g0.s t a = some (g2.s, o) := by
            cases a with
            | invoke op =>
              simp only [Model.apply, gmodel, model, Option.map_eq_some_iff, Prod.mk.injEq] at hap ⊢
              obtain ⟨g4, ⟨s4, h4, rfl⟩, rfl, rfl⟩ := hap
              refine ⟨s4, h4, ?_, rfl⟩
              split <;> rfl
            | step =>
              simp only [Model.apply, gmodel, model, Option.map_eq_some_iff, Prod.mk.injEq] at hap ⊢
              obtain ⟨q4, ⟨r4, h4, rfl⟩, rfl, rfl⟩ := hap
              exact ⟨r4, h4, rfl, rfl⟩
            | ret =>
              simp only [Model.apply, gmodel, model, Option.map_eq_some_iff, Prod.mk.injEq] at hap ⊢
              obtain ⟨q4, ⟨r4, h4, rfl⟩, rfl, rfl⟩ := hap
              exact ⟨r4, h4, rfl, rfl⟩
          simp only [hap', ih g2 g3 os2 hrr]
  have hrun' := hproj _ _ _ _ hrun
  refine ⟨j, g1.s, e1, e2, hrun', ?_⟩
  rcases e4 with ⟨ht, vs, b, hpp, hlt⟩ | ⟨ht, op, f, hcp, hlt⟩
  · exact .inl ⟨ht, vs, b, hpp, by rw [← hok.cap_eq]; exact hlt⟩
  · exact .inr ⟨ht, op, f, hcp, hlt⟩

/-! ### Single-element programs: `Spec.bfifo cap` -/

/-- The `bfifo` name of a single-element operation: `push v` / `pushn v 1 ↦ enq v`, `pop` / `pop 1` / `popn 1` /
    `popf ↦ deq`, `front ↦ front`; `none` for a batch of another size. -/
def specOp? (op : GOp) : Option GOp :=
  match batchOf op with
  | some vs => (match vs with
    | [v] => some ⟨"enq", [v]⟩
    | _ => none)
  | none => match consOf op with
    | some (.pop k) => if k = 1 then some ⟨"deq", []⟩ else none
    | some .front => some ⟨"front", []⟩
    | some .popf1 => some ⟨"deq", []⟩
    | _ => none

def specOp (op : GOp) : GOp := (specOp? op).getD op

def specRec (r : OpRec GOp GRet) : OpRec GOp GRet := { r with op := specOp r.op }

/-- Every operation called in `os` is a single-element operation. -/
def SingleOps (os : List (Tid × Obs)) : Prop := ∀ x ∈ os, ∀ op, x.2 = .call op → (specOp? op).isSome

theorem detSpec_next {σ : Type} (i : σ) (step : σ → GOp → Option (σ × GRet)) (s : σ) (op : GOp) (r : GRet)
    (s' : σ) : (detSpec i step).next s op r = some s' ↔ step s op = some (s', r) := by
  simp only [detSpec]
  cases step s op with
  | none => simp
  | some p =>
    obtain ⟨a, b⟩ := p
    simp only [Option.some.injEq, Prod.mk.injEq]
    constructor
    · intro h; split at h
      · rename_i hr; simp only [Option.some.injEq] at h; exact ⟨h, hr.symm⟩
      · simp at h
    · rintro ⟨rfl, rfl⟩; simp

theorem ringSpec_bfifo (cap : Nat) (q q' : List Int) (op op' : GOp) (r : GRet) (ho : specOp? op = some op')
    (h : (ringSpec cap).next q op r = some q') : (bfifo cap).next q op' r = some q' := by
  simp only [ringSpec, bfifo, detSpec_next] at h ⊢
  unfold ringStep at h
  unfold specOp? at ho
  cases hb : batchOf op with
  | some vs =>
    simp only [hb] at h ho
    split at ho
    · simp only [Option.some.injEq] at ho; subst ho
      simp only [pStep, List.length_singleton, Option.some.injEq] at h
      simp only [bfifoStep]
      by_cases hl : q.length < cap
      · have hl' : q.length + 1 ≤ cap := by omega
        simp only [hl', ↓reduceIte] at h
        simp only [hl, ↓reduceIte, h]
      · have hl' : ¬ q.length + 1 ≤ cap := by omega
        simp only [hl', ↓reduceIte] at h
        simp only [hl, ↓reduceIte, h]
    · simp at ho
  | none =>
    simp only [hb] at h ho
    cases hc : consOf op with
    | none => simp [hc] at h
    | some c =>
      simp only [hc, Option.map_some, Option.some.injEq] at h ho
      cases c with
      | pop k =>
        simp only at ho
        split at ho
        · rename_i hk; subst hk
          simp only [Option.some.injEq] at ho; subst ho
          cases q <;> simp_all [bfifoStep, cStep]
        · simp at ho
      | front =>
        simp only [Option.some.injEq] at ho; subst ho
        cases q <;> simp_all [bfifoStep, cStep]
      | popf1 =>
        simp only [Option.some.injEq] at ho; subst ho
        cases q <;> simp_all [bfifoStep, cStep]
      | popf2 v => simp at ho

theorem legal_bfifo (cap : Nat) : ∀ (l : List (OpRec GOp GRet)) (st : List Int),
    (∀ o ∈ l, (specOp? o.op).isSome) → Legal (ringSpec cap) st l → Legal (bfifo cap) st (l.map specRec) := by
  intro l
  induction l with
  | nil => intro st _ _; trivial
  | cons o l ih =>
    intro st hs hl
    obtain ⟨st1, hn, hl'⟩ := hl
    obtain ⟨op', ho⟩ := Option.isSome_iff_exists.mp (hs o (by simp))
    refine ⟨st1, ?_, ih st1 (fun o' ho' => hs o' (List.mem_cons_of_mem _ ho')) hl'⟩
    simp only [specRec, specOp, ho, Option.getD_some]
    exact ringSpec_bfifo cap st st1 o.op op' o.ret ho hn

theorem linearizable_bfifo (cap : Nat) (ops : List (OpRec GOp GRet)) (hs : ∀ o ∈ ops, (specOp? o.op).isSome)
    (h : Linearizable (ringSpec cap) ops) : Linearizable (bfifo cap) (ops.map specRec) := by
  obtain ⟨perm, hperm, hrt, hlegal⟩ := h
  refine ⟨perm.map specRec, hperm.map specRec, ?_, ?_⟩
  · unfold RespectsRT at hrt ⊢
    rw [List.pairwise_map]
    exact hrt
  · exact legal_bfifo cap perm [] (fun o ho => hs o (hperm.mem_iff.mp ho)) hlegal

/-- **Linearizability to `Spec.bfifo cap`** for programs of single-element operations: the history of calls and
    returned values, completed as in `ring_linearizable`, with the operations renamed to the vocabulary of `bfifo`
    (`specRec`), is linearizable to the bounded FIFO queue of capacity `cap`: `enq` fails iff the queue is full at
    its linearization point, `deq` / `front` fail iff it is empty. -/
theorem ring_linearizable_bfifo (cap : Nat) (hcap : 0 < cap) (sched : List (Tid × Act)) (s : St)
    (os : List (Tid × Obs)) (h : model.run (init cap) sched = some (s, os)) (hsingle : SingleOps os) :
    ∃ extra : List (OpRec GOp GRet),
      (∀ e ∈ extra, pendingOf os e.tid = some (e.op, e.inv) ∧ e.res = os.length ∧ lpRet s e.tid = some e.ret) ∧
      extra.Pairwise (fun a b => a.tid ≠ b.tid) ∧
      Linearizable (bfifo cap) ((historyOf os ++ extra).map specRec) := by
  obtain ⟨extra, hex, hpw, hlin⟩ := ring_linearizable cap hcap sched s os h
  refine ⟨extra, hex, hpw, linearizable_bfifo cap _ ?_ hlin⟩
  intro o ho
  rcases List.mem_append.mp ho with ho | ho
  · have := (historyOf_sound os o ho).1
    exact hsingle _ (List.mem_of_getElem? this) o.op rfl
  · have := pendingOf_sound os o.tid o.op o.inv (hex o ho).1
    exact hsingle _ (List.mem_of_getElem? this) o.op rfl

theorem ring_linearizable_bfifo_no_effect_pending (cap : Nat) (hcap : 0 < cap) (sched : List (Tid × Act)) (s : St)
    (os : List (Tid × Obs)) (h : model.run (init cap) sched = some (s, os)) (hsingle : SingleOps os)
    (hq : ∀ t, lpRet s t = none) : Linearizable (bfifo cap) ((historyOf os).map specRec) := by
  obtain ⟨extra, hex, -, hlin⟩ := ring_linearizable_bfifo cap hcap sched s os h hsingle
  have : extra = [] := by
    apply List.eq_nil_iff_forall_not_mem.mpr
    intro e he
    have := (hex e he).2.2
    rw [hq] at this; simp at this
  simpa [this] using hlin

theorem ring_linearizable_bfifo_complete_runs (cap : Nat) (hcap : 0 < cap) (sched : List (Tid × Act)) (s : St)
    (os : List (Tid × Obs)) (h : model.run (init cap) sched = some (s, os)) (hsingle : SingleOps os)
    (hp : s.pp = .idle) (hc : s.cp = .idle) : Linearizable (bfifo cap) ((historyOf os).map specRec) :=
  ring_linearizable_bfifo_no_effect_pending cap hcap sched s os h hsingle
    (by intro t; simp [lpRet, hp, hc, pRet, cRet])

/-- Executable form of `SingleOps`. -/
def singleOpsB (os : List (Tid × Obs)) : Bool :=
  os.all (fun x => match x.2 with
    | .call op => (specOp? op).isSome
    | _ => true)

theorem singleOps_of_check (os : List (Tid × Obs)) (h : singleOpsB os = true) : SingleOps os := by
  intro x hx op hop
  have := List.all_eq_true.mp h x hx
  simpa [hop] using this

end CdsVerif.Algo.Ring

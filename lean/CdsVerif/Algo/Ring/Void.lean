/-
  Sequential model of the record layout of `cds::container::WeakRingBuffer<void>`
  (cds/container/weak_ringbuffer.h, second half): `back( size )` / `push_back()` /
  `push_back( data, size )` on the producer side, `front()` / `pop_front()` on the consumer side, over a
  byte array with 8-byte little-endian `size_t` headers and tail markers.  The helpers
  `calc_real_size` / `is_tail` / `make_tail` / `untail` are the translations generated from the header
  (Gen/RingBuffer.lean).

  The model is sequential (one thread performs all calls): it covers the layout — headers, padding,
  the unused-tail marker written when a record does not fit before the end of the buffer, the skip of
  that marker by `front()`, the caches `pfront_` / `cback_` — not the interleavings (those are covered
  for the typed variant in `Model.lean` / `Inv.lean`, and for the void variant by the harness).
  Counters are `Nat`; `WF` shows that no subtraction underflows.

  Hypothesis made explicit: the capacity is a multiple of 8 (the real constructor rounds it up).
-/
import CdsVerif.Algo.Ring.Inv
import CdsVerif.Gen.RingBuffer
namespace CdsVerif.Algo.Ring.Void
open CdsVerif.Gen.RingBuffer

abbrev Byte := BitVec 8

structure VSt where
  cap : Nat
  front : Nat
  back : Nat
  pfront : Nat
  cback : Nat
  mem : Nat → Byte      -- buffer_.buffer()[a], a < cap

def vinit (cap : Nat) : VSt := ⟨cap, 0, 0, 0, 0, fun _ => 0⟩

/-! ### Memory access -/

/-- `*reinterpret_cast<size_t*>( buffer + off ) = v` (little endian) -/
def write64 (mem : Nat → Byte) (off : Nat) (v : BitVec 64) : Nat → Byte :=
  fun a => if off ≤ a ∧ a < off + 8 then BitVec.ofNat 8 (v.toNat / 256 ^ (a - off)) else mem a

/-- `*reinterpret_cast<size_t*>( buffer + off )` -/
def read64 (mem : Nat → Byte) (off : Nat) : BitVec 64 :=
  BitVec.ofNat 64 ((mem off).toNat + (mem (off + 1)).toNat * 256 + (mem (off + 2)).toNat * 256 ^ 2
    + (mem (off + 3)).toNat * 256 ^ 3 + (mem (off + 4)).toNat * 256 ^ 4 + (mem (off + 5)).toNat * 256 ^ 5
    + (mem (off + 6)).toNat * 256 ^ 6 + (mem (off + 7)).toNat * 256 ^ 7)

/-- `memcpy( buffer + off, data, size )` -/
def writeBytes (mem : Nat → Byte) (off : Nat) (data : List Byte) : Nat → Byte :=
  fun a => if off ≤ a ∧ a < off + data.length then data.getD (a - off) 0 else mem a

def readBytes (mem : Nat → Byte) (off n : Nat) : List Byte :=
  (List.range n).map (fun i => mem (off + i))

/-! ### Operations -/

/-- `if ( pfront_ + capacity() - back < real_size ) pfront_ = front_.load()` -/
def refreshP (s : VSt) (b real : Nat) : VSt :=
  if s.pfront + s.cap - b < real then { s with pfront := s.front } else s

/-- `if ( cback_ - front < sizeof( size_t )) cback_ = back_.load()` -/
def refreshC (s : VSt) (f : Nat) : VSt :=
  if s.cback - f < 8 then { s with cback := s.back } else s

/-- `void* back( size_t size )`: the result is the offset of the reserved payload area in the buffer
    (`none` = nullptr). -/
def vback (s : VSt) (size : BitVec 64) : VSt × Option Nat :=
  let real := (calc_real_size size).toNat
  let b := s.back
  let s1 := refreshP s b real
  if s1.pfront + s.cap - b < real then (s1, none) else
  let off := b % s.cap
  let tail := s.cap - off
  if tail < real then
    -- make unused tail
    let s2 := { s1 with mem := write64 s1.mem off (make_tail (BitVec.ofNat 64 (tail - 8))) }
    let b' := b + tail
    let s3 := refreshP s2 b' real
    if s3.pfront + s.cap - b' < real then (s3, none) else
    ({ s3 with back := b', mem := write64 s3.mem 0 size }, some 8)
  else
    ({ s1 with mem := write64 s1.mem off size }, some (off + 8))

/-- `void push_back()` -/
def vpush (s : VSt) : VSt :=
  let real := (calc_real_size (read64 s.mem (s.back % s.cap))).toNat
  { s with back := s.back + real }

/-- `bool push_back( void const* data, size_t size )` = `back( size )`, `memcpy`, `push_back()` -/
def vpushData (s : VSt) (data : List Byte) : VSt × Bool :=
  match vback s (BitVec.ofNat 64 data.length) with
  | (s1, some p) => (vpush { s1 with mem := writeBytes s1.mem p data }, true)
  | (s1, none) => (s1, false)

/-- `bool pop_front()` -/
def vpop (s : VSt) : VSt × Bool :=
  let f := s.front
  let s1 := refreshC s f
  if s1.cback - f < 8 then (s1, false) else
  let size := read64 s1.mem (f % s.cap)
  let real := (calc_real_size (untail size)).toNat
  ({ s1 with front := f + real }, true)

/-- `std::pair<void*, size_t> front()`: offset of the payload and its size (`none` = nullptr). -/
def vfront (s : VSt) : VSt × Option (Nat × BitVec 64) :=
  let f := s.front
  let s1 := refreshC s f
  if s1.cback - f < 8 then (s1, none) else
  let size := read64 s1.mem (f % s.cap)
  if is_tail size then
    -- unused tail, skip
    let s2 := (vpop s1).1
    let f := s2.front
    let s3 := refreshC s2 f
    if s3.cback - f < 8 then (s3, none) else
    (s3, some (f % s.cap + 8, read64 s3.mem (f % s.cap)))
  else (s1, some (f % s.cap + 8, size))

/-! ### Memory lemmas -/

theorem read64_write64 (mem : Nat → Byte) (off : Nat) (v : BitVec 64) : read64 (write64 mem off v) off = v := by
  have hv := v.isLt
  have h0 : (write64 mem off v off).toNat = v.toNat % 256 := by simp [write64]
  have hi : ∀ i, 0 < i → i < 8 → (write64 mem off v (off + i)).toNat = (v.toNat / 256 ^ i) % 256 := by
    intro i h1 h2
    simp [write64, h2]
  simp only [read64, h0, hi 1 (by omega) (by omega), hi 2 (by omega) (by omega), hi 3 (by omega) (by omega),
    hi 4 (by omega) (by omega), hi 5 (by omega) (by omega), hi 6 (by omega) (by omega), hi 7 (by omega) (by omega)]
  apply BitVec.eq_of_toNat_eq
  rw [BitVec.toNat_ofNat]
  omega

theorem read64_congr (mem mem' : Nat → Byte) (off : Nat) (h : ∀ i, i < 8 → mem' (off + i) = mem (off + i)) :
    read64 mem' off = read64 mem off := by
  have h0 := h 0 (by omega)
  simp only [Nat.add_zero] at h0
  simp only [read64, h0, h 1 (by omega), h 2 (by omega), h 3 (by omega), h 4 (by omega), h 5 (by omega),
    h 6 (by omega), h 7 (by omega)]

theorem write64_other (mem : Nat → Byte) (off : Nat) (v : BitVec 64) (a : Nat) (h : ¬ (off ≤ a ∧ a < off + 8)) :
    write64 mem off v a = mem a := by
  simp [write64, h]

theorem writeBytes_other (mem : Nat → Byte) (off : Nat) (data : List Byte) (a : Nat)
    (h : ¬ (off ≤ a ∧ a < off + data.length)) : writeBytes mem off data a = mem a := by
  simp [writeBytes, h]

@[simp] theorem readBytes_length (mem : Nat → Byte) (off n : Nat) : (readBytes mem off n).length = n := by
  simp [readBytes]

theorem readBytes_writeBytes (mem : Nat → Byte) (off : Nat) (data : List Byte) :
    readBytes (writeBytes mem off data) off data.length = data := by
  apply List.ext_getElem
  · simp
  · intro i h1 h2
    simp only [readBytes_length] at h1
    simp [readBytes, writeBytes, h1]

theorem readBytes_congr (mem mem' : Nat → Byte) (off n : Nat) (h : ∀ i, i < n → mem' (off + i) = mem (off + i)) :
    readBytes mem' off n = readBytes mem off n := by
  apply List.ext_getElem
  · simp
  · intro i h1 h2
    simp only [readBytes_length] at h1
    simp [readBytes, h i h1]

/-! ### Arithmetic on offsets -/

theorem mod_add_of_lt {cap p i : Nat} (h : p % cap + i < cap) : (p + i) % cap = p % cap + i := by
  have h1 := Nat.div_add_mod p cap
  calc (p + i) % cap = (cap * (p / cap) + (p % cap + i)) % cap := by rw [← Nat.add_assoc, h1]
    _ = (p % cap + i) % cap := Nat.mul_add_mod ..
    _ = p % cap + i := Nat.mod_eq_of_lt h

theorem mod_add_tail {cap p : Nat} (hc : 0 < cap) : (p + (cap - p % cap)) % cap = 0 := by
  have h1 := Nat.div_add_mod p cap
  have h2 : p % cap < cap := Nat.mod_lt _ hc
  have : p + (cap - p % cap) = cap * (p / cap + 1) := by
    rw [Nat.mul_add, Nat.mul_one]; omega
  rw [this, Nat.mul_mod_right]

theorem mod_mod8 {cap p : Nat} (hc : cap % 8 = 0) : p % cap % 8 = p % 8 :=
  Nat.mod_mod_of_dvd p (Nat.dvd_of_mod_eq_zero hc)

/-- A byte at buffer address `b0 % cap + i` inside a block that starts at position `b0`, does not wrap and
    lies within one capacity above `f` is not the cell of any position `f ≤ q < b0`. -/
theorem cell_free {cap f q b0 n : Nat} (h1 : f ≤ q) (h2 : q < b0) (h3 : b0 + n ≤ f + cap)
    (h4 : b0 % cap + n ≤ cap) : ¬ (b0 % cap ≤ q % cap ∧ q % cap < b0 % cap + n) := by
  intro ⟨h5, h6⟩
  obtain ⟨i, hi⟩ : ∃ i, q % cap = b0 % cap + i := ⟨q % cap - b0 % cap, by omega⟩
  have h7 : (b0 + i) % cap = b0 % cap + i := mod_add_of_lt (by omega)
  exact mod_ne_of_lt (a := q) (b := b0 + i) (cap := cap) (by omega) (by omega) (by omega)

/-! ### Layout of the records between two positions -/

/-- `calc_real_size` on naturals: payload rounded up to 8, plus the header. -/
def realSize (n : Nat) : Nat := (n + 7) / 8 * 8 + 8

theorem realSize_facts (n : Nat) : realSize n % 8 = 0 ∧ n + 8 ≤ realSize n ∧ realSize n ≤ n + 15 := by
  unfold realSize; omega

/-- `Layout cap mem p b recs`: the bytes of the positions `p … b-1` (cells `position mod cap`) are
    exactly the records `recs` in order, each as header + payload + padding, never wrapping, with an
    unused-tail marker wherever the next record did not fit before the end of the buffer (never at
    offset 0). -/
inductive Layout (cap : Nat) (mem : Nat → Byte) : Nat → Nat → List (List Byte) → Prop
  | nil (p : Nat) : Layout cap mem p p []
  | record (p b : Nat) (data : List Byte) (rest : List (List Byte)) :
      p % 8 = 0 → p % cap + realSize data.length ≤ cap →
      read64 mem (p % cap) = BitVec.ofNat 64 data.length →
      readBytes mem (p % cap + 8) data.length = data →
      Layout cap mem (p + realSize data.length) b rest → Layout cap mem p b (data :: rest)
  | marker (p b : Nat) (recs : List (List Byte)) :
      p % 8 = 0 → p % cap ≠ 0 →
      read64 mem (p % cap) = make_tail (BitVec.ofNat 64 (cap - p % cap - 8)) →
      Layout cap mem (p + (cap - p % cap)) b recs → Layout cap mem p b recs

theorem Layout.le {cap : Nat} {mem : Nat → Byte} {p b : Nat} {recs : List (List Byte)}
    (h : Layout cap mem p b recs) : p ≤ b := by
  induction h with
  | nil p => exact Nat.le_refl _
  | record p b data rest _ _ _ _ _ ih => omega
  | marker p b recs _ _ _ _ ih => omega

/-- A non-empty stretch holds at least one 8-byte header. -/
theorem Layout.lt_of_ne {cap : Nat} {mem : Nat → Byte} {p b : Nat} {recs : List (List Byte)}
    (hc : cap % 8 = 0) (hpos : 0 < cap) (h : Layout cap mem p b recs) (hne : p ≠ b) : p + 8 ≤ b := by
  cases h with
  | nil => exact absurd rfl hne
  | record _ _ data rest _ _ _ _ hl => have := hl.le; have := realSize_facts data.length; omega
  | marker _ _ _ h8 h0 _ hl =>
    have := hl.le
    have := mod_mod8 (p := p) hc
    have := Nat.mod_lt p hpos
    omega

theorem Layout.aligned {cap : Nat} {mem : Nat → Byte} {p b : Nat} {recs : List (List Byte)}
    (hc : cap % 8 = 0) (h : Layout cap mem p b recs) (hp : p % 8 = 0) : b % 8 = 0 := by
  induction h with
  | nil p => exact hp
  | record p b data rest _ _ _ _ _ ih =>
    apply ih
    have := realSize_facts data.length
    omega
  | marker p b recs _ _ _ _ ih =>
    apply ih
    have := mod_mod8 (p := p) hc
    by_cases h0 : cap = 0
    · subst h0; simpa using hp
    · have := Nat.mod_lt p (show 0 < cap by omega)
      omega

theorem Layout.append {cap : Nat} {mem : Nat → Byte} {p m b : Nat} {r1 r2 : List (List Byte)}
    (h1 : Layout cap mem p m r1) (h2 : Layout cap mem m b r2) : Layout cap mem p b (r1 ++ r2) := by
  induction h1 with
  | nil p => simpa using h2
  | record p m data rest a1 a2 a3 a4 _ ih => exact Layout.record p b data _ a1 a2 a3 a4 (ih h2)
  | marker p m recs a1 a2 a3 _ ih => exact Layout.marker p b _ a1 a2 a3 (ih h2)

/-- The layout of `p … b-1` depends only on the cells of these positions. -/
theorem Layout.frame {cap : Nat} {mem mem' : Nat → Byte} {p b : Nat} {recs : List (List Byte)}
    (hc : cap % 8 = 0) (hpos : 0 < cap)
    (h : Layout cap mem p b recs) (hm : ∀ q, p ≤ q → q < b → mem' (q % cap) = mem (q % cap)) :
    Layout cap mem' p b recs := by
  induction h with
  | nil p => exact Layout.nil p
  | record p b data rest a1 a2 a3 a4 hl ih =>
    have hle := hl.le
    have hrs := realSize_facts data.length
    refine Layout.record p b data rest a1 a2 ?_ ?_ (ih (fun q h1 h2 => hm q (by omega) h2))
    · rw [read64_congr mem mem' _ ?_, a3]
      intro i hi
      rw [← mod_add_of_lt (p := p) (i := i) (by omega)]
      exact hm _ (by omega) (by omega)
    · rw [readBytes_congr mem mem' _ _ ?_, a4]
      intro i hi
      rw [Nat.add_assoc, ← mod_add_of_lt (p := p) (i := 8 + i) (by omega)]
      exact hm _ (by omega) (by omega)
  | marker p b recs a1 a2 a3 hl ih =>
    have hle := hl.le
    have h8 := mod_mod8 (p := p) hc
    have hlt := Nat.mod_lt p hpos
    refine Layout.marker p b recs a1 a2 ?_ (ih (fun q h1 h2 => hm q (by omega) h2))
    rw [read64_congr mem mem' _ ?_, a3]
    intro i hi
    rw [← mod_add_of_lt (p := p) (i := i) (by omega)]
    exact hm _ (by omega) (by omega)

/-! ### Sizes -/

theorem size_toNat (n : Nat) (hn : n < 2 ^ 63) : (BitVec.ofNat 64 n).toNat = n := by
  rw [BitVec.toNat_ofNat]; exact Nat.mod_eq_of_lt (by omega)

theorem real_of (n : Nat) (hn : n < 2 ^ 63) : (calc_real_size (BitVec.ofNat 64 n)).toNat = realSize n := by
  rw [calc_real_size_toNat _ (by rw [size_toNat n hn]; exact hn), size_toNat n hn]; rfl

theorem untail_of_lt (x : BitVec 64) (h : x.toNat < 2 ^ 63) : untail x = x := by
  simp only [untail, sh63, tp63]
  apply BitVec.eq_of_getLsbD_eq
  intro i hi
  rw [BitVec.getLsbD_and, lsb_mask63]
  by_cases h63 : i = 63
  · subst h63; rw [bit63 x h]; simp
  · have : i < 63 := by omega
    simp [this]

/-! ### Well-formed states -/

/-- `WF s recs`: the buffer holds exactly the records `recs` (oldest first) between `front_` and `back_`;
    the consumer's cache `cback_` is a record boundary in between, the producer's cache `pfront_` is
    conservative; everything is 8-byte aligned. -/
structure WF (s : VSt) (recs : List (List Byte)) : Prop where
  cap8 : s.cap % 8 = 0
  cap_pos : 0 < s.cap
  cap_lt : s.cap < 2 ^ 63
  front8 : s.front % 8 = 0
  pfront_le : s.pfront ≤ s.front
  back_le : s.back ≤ s.pfront + s.cap
  split : ∃ r1 r2, recs = r1 ++ r2 ∧ Layout s.cap s.mem s.front s.cback r1 ∧
    Layout s.cap s.mem s.cback s.back r2

theorem WF.layout {s : VSt} {recs : List (List Byte)} (h : WF s recs) :
    Layout s.cap s.mem s.front s.back recs := by
  obtain ⟨r1, r2, rfl, h1, h2⟩ := h.split
  exact h1.append h2

theorem WF.bounds {s : VSt} {recs : List (List Byte)} (h : WF s recs) :
    s.front ≤ s.cback ∧ s.cback ≤ s.back ∧ s.cback % 8 = 0 ∧ s.back % 8 = 0 := by
  obtain ⟨r1, r2, -, h1, h2⟩ := h.split
  have c8 := h1.aligned h.cap8 h.front8
  exact ⟨h1.le, h2.le, c8, h2.aligned h.cap8 c8⟩

theorem wf_init (cap : Nat) (h8 : cap % 8 = 0) (hpos : 0 < cap) (hlt : cap < 2 ^ 63) : WF (vinit cap) [] :=
  ⟨h8, hpos, hlt, rfl, Nat.le_refl _, by simp [vinit], [], [], rfl, Layout.nil 0, Layout.nil 0⟩

/-- Only the caches differ. -/
theorem WF.of_fields {s : VSt} {recs : List (List Byte)} (h : WF s recs) (s1 : VSt)
    (e1 : s1.cap = s.cap) (e2 : s1.front = s.front) (e3 : s1.back = s.back) (e4 : s1.cback = s.cback)
    (e5 : s1.mem = s.mem) (e6 : s1.pfront ≤ s1.front) (e7 : s1.back ≤ s1.pfront + s1.cap) : WF s1 recs := by
  obtain ⟨a1, a2, a3, a4, a5, a6, a7⟩ := h
  cases s1; cases s
  simp only at *
  subst e1 e2 e3 e4 e5
  exact ⟨a1, a2, a3, a4, e6, e7, a7⟩

/-- Writing outside the live cells keeps the state well-formed. -/
theorem WF.frame {s : VSt} {recs : List (List Byte)} (h : WF s recs) (mem' : Nat → Byte)
    (hm : ∀ q, s.front ≤ q → q < s.back → mem' (q % s.cap) = s.mem (q % s.cap)) :
    WF { s with mem := mem' } recs := by
  have hb := h.bounds
  obtain ⟨a1, a2, a3, a4, a5, a6, r1, r2, e, l1, l2⟩ := h
  refine ⟨a1, a2, a3, a4, a5, a6, r1, r2, e, ?_, ?_⟩
  · exact l1.frame a1 a2 (fun q (h1 : s.front ≤ q) (h2 : q < s.cback) => hm q h1 (by omega))
  · exact l2.frame a1 a2 (fun q (h1 : s.cback ≤ q) (h2 : q < s.back) => hm q (by omega) h2)

/-- A block that starts at position `b0 ≥ back_`, does not wrap and ends within one capacity above
    `front_` contains no live cell. -/
theorem WF.free_block {s : VSt} {recs : List (List Byte)} (_h : WF s recs) (b0 n : Nat) (hb : s.back ≤ b0)
    (h3 : b0 + n ≤ s.front + s.cap) (h4 : b0 % s.cap + n ≤ s.cap) (mem' : Nat → Byte)
    (hm' : ∀ a, ¬ (b0 % s.cap ≤ a ∧ a < b0 % s.cap + n) → mem' a = s.mem a) :
    ∀ q, s.front ≤ q → q < s.back → mem' (q % s.cap) = s.mem (q % s.cap) :=
  fun _ h1 h2 => hm' _ (cell_free h1 (by omega) h3 h4)

theorem refreshP_spec (s : VSt) (b real : Nat) (h1 : s.pfront ≤ s.front) :
    (refreshP s b real).cap = s.cap ∧ (refreshP s b real).front = s.front ∧
    (refreshP s b real).back = s.back ∧ (refreshP s b real).cback = s.cback ∧
    (refreshP s b real).mem = s.mem ∧ s.pfront ≤ (refreshP s b real).pfront ∧
    (refreshP s b real).pfront ≤ s.front ∧
    ((refreshP s b real).pfront + s.cap - b < real → s.front + s.cap - b < real) := by
  unfold refreshP
  split <;> simp <;> omega

/-! ### Producer -/

/-- State after a successful `back( n )`: header written at `back_`, `n` payload bytes reserved at `p`. -/
structure Reserved (s : VSt) (recs : List (List Byte)) (n p : Nat) : Prop where
  wf : WF s recs
  p_eq : p = s.back % s.cap + 8
  hdr : read64 s.mem (s.back % s.cap) = BitVec.ofNat 64 n
  fits : s.back % s.cap + realSize n ≤ s.cap
  room : s.back + realSize n ≤ s.pfront + s.cap

/-- What a record of `n` payload bytes costs at the current `back_`: its real size, plus the unusable
    tail when it does not fit before the end of the buffer. -/
def need (s : VSt) (n : Nat) : Nat :=
  if s.cap - s.back % s.cap < realSize n then (s.cap - s.back % s.cap) + realSize n else realSize n

/-- Publishing an unused-tail marker written at `back_`. -/
theorem WF.publish_marker {s : VSt} {recs : List (List Byte)} (h : WF s recs) (hoff0 : s.back % s.cap ≠ 0)
    (hm : read64 s.mem (s.back % s.cap) = make_tail (BitVec.ofNat 64 (s.cap - s.back % s.cap - 8)))
    (hroom : s.back + (s.cap - s.back % s.cap) ≤ s.pfront + s.cap) :
    WF { s with back := s.back + (s.cap - s.back % s.cap) } recs := by
  have hb := h.bounds
  obtain ⟨a1, a2, a3, a4, a5, a6, r1, r2, e, l1, l2⟩ := h
  refine ⟨a1, a2, a3, a4, a5, hroom, r1, r2, e, l1, ?_⟩
  have := l2.append (Layout.marker _ _ [] hb.2.2.2 hoff0 hm (Layout.nil _))
  simpa using this

/-- Publishing a record written at `back_`. -/
theorem WF.publish_record {s : VSt} {recs : List (List Byte)} (h : WF s recs) (data : List Byte)
    (hdr : read64 s.mem (s.back % s.cap) = BitVec.ofNat 64 data.length)
    (hbytes : readBytes s.mem (s.back % s.cap + 8) data.length = data)
    (fits : s.back % s.cap + realSize data.length ≤ s.cap)
    (hroom : s.back + realSize data.length ≤ s.pfront + s.cap) :
    WF { s with back := s.back + realSize data.length } (recs ++ [data]) := by
  have hb := h.bounds
  obtain ⟨a1, a2, a3, a4, a5, a6, r1, r2, e, l1, l2⟩ := h
  refine ⟨a1, a2, a3, a4, a5, hroom, r1, r2 ++ [data], by rw [e, List.append_assoc], l1, ?_⟩
  exact l2.append (Layout.record _ _ data [] hb.2.2.2 fits hdr hbytes (Layout.nil _))

theorem vback_spec (s : VSt) (recs : List (List Byte)) (n : Nat) (h : WF s recs) (hn : n < 2 ^ 63)
    (s' : VSt) (r : Option Nat) (hv : vback s (BitVec.ofNat 64 n) = (s', r)) :
    s'.front = s.front ∧ s'.cap = s.cap ∧
    match r with
    | some p => Reserved s' recs n p ∧ need s n ≤ s.cap - (s.back - s.front)
    | none => WF s' recs ∧ s'.back = s.back ∧ s.cap - (s.back - s.front) < need s n := by
  have hreal := real_of n hn
  have hrs := realSize_facts n
  have hbd := h.bounds
  have hpl := h.pfront_le
  have hbl := h.back_le
  have hc8 := h.cap8
  have hcp := h.cap_pos
  have hoff8 := mod_mod8 (p := s.back) hc8
  have hofflt := Nat.mod_lt s.back hcp
  simp only [vback, hreal] at hv
  obtain ⟨e1, e2, e3, e4, e5, e6, e7, e8⟩ := refreshP_spec s s.back (realSize n) h.pfront_le
  have hwf1 : WF (refreshP s s.back (realSize n)) recs := h.of_fields _ e1 e2 e3 e4 e5 (by omega) (by omega)
  generalize refreshP s s.back (realSize n) = s1 at *
  split at hv
  · -- first test fails
    rename_i hA
    simp only [Prod.mk.injEq] at hv
    obtain ⟨rfl, rfl⟩ := hv
    refine ⟨e2, e1, hwf1, e3, ?_⟩
    have := e8 hA
    unfold need
    split <;> omega
  · rename_i hA
    have hroom : s.back + realSize n ≤ s1.pfront + s.cap := by omega
    split at hv
    · -- the record does not fit before the end of the buffer: unused tail
      rename_i hB
      have hoff0 : s.back % s.cap ≠ 0 := by intro h0; omega
      -- the marker is written into free cells
      have hwf2 := hwf1.frame (write64 s1.mem (s.back % s.cap)
          (make_tail (BitVec.ofNat 64 (s.cap - s.back % s.cap - 8))))
        (hwf1.free_block s.back 8 (by omega) (by omega) (by rw [e1]; omega) _
          (fun a ha => write64_other _ _ _ _ (by rw [e1] at ha; exact ha)))
      have hmark : read64 (write64 s1.mem (s.back % s.cap)
          (make_tail (BitVec.ofNat 64 (s.cap - s.back % s.cap - 8)))) (s.back % s.cap) =
          make_tail (BitVec.ofNat 64 (s.cap - s.back % s.cap - 8)) := read64_write64 _ _ _
      generalize write64 s1.mem (s.back % s.cap)
          (make_tail (BitVec.ofNat 64 (s.cap - s.back % s.cap - 8))) = memM at *
      obtain ⟨f1, f2, f3, f4, f5, f6, f7, f8⟩ := refreshP_spec { s1 with mem := memM }
        (s.back + (s.cap - s.back % s.cap)) (realSize n) (by dsimp only; omega)
      have hwf3 : WF (refreshP { s1 with mem := memM } (s.back + (s.cap - s.back % s.cap)) (realSize n)) recs :=
        hwf2.of_fields _ f1 f2 f3 f4 f5 (by dsimp only at *; omega) (by dsimp only at *; omega)
      generalize refreshP { s1 with mem := memM } (s.back + (s.cap - s.back % s.cap)) (realSize n) = s3 at *
      dsimp only at f1 f2 f3 f4 f5 f6 f7 f8
      split at hv
      · -- second test fails: the marker stays unpublished
        rename_i hC
        simp only [Prod.mk.injEq] at hv
        obtain ⟨rfl, rfl⟩ := hv
        refine ⟨by omega, by omega, hwf3, by omega, ?_⟩
        have := f8 (by rw [e1]; exact hC)
        unfold need
        rw [if_pos hB]
        omega
      · rename_i hC
        simp only [Prod.mk.injEq] at hv
        obtain ⟨rfl, rfl⟩ := hv
        have g1 : s3.cap = s.cap := by omega
        have g3 : s3.back = s.back := by omega
        have hb0 : (s.back + (s.cap - s.back % s.cap)) % s.cap = 0 := mod_add_tail hcp
        have hwf4 : WF { s3 with back := s.back + (s.cap - s.back % s.cap) } recs := by
          have := hwf3.publish_marker (by rw [g1, g3]; exact hoff0) (by rw [g1, g3, f5]; exact hmark)
            (by rw [g1, g3]; omega)
          rw [g3, show s3.cap - s.back % s3.cap = s.cap - s.back % s.cap by rw [g1]] at this
          exact this
        have hwf5 := hwf4.frame (write64 s3.mem 0 (BitVec.ofNat 64 n))
          (hwf4.free_block (s.back + (s.cap - s.back % s.cap)) 8 (Nat.le_refl _)
            (by dsimp only; omega) (by dsimp only; rw [g1, hb0]; omega) _
            (fun a ha => write64_other _ _ _ _ (by dsimp only at ha; rw [g1, hb0] at ha; exact ha)))
        refine ⟨by dsimp only; omega, g1, ⟨hwf5, ?_, ?_, ?_, ?_⟩, ?_⟩
        · dsimp only; rw [g1, hb0]
        · dsimp only; rw [g1, hb0, read64_write64]
        · dsimp only; rw [g1, hb0]; omega
        · dsimp only; omega
        · unfold need; rw [if_pos hB]; omega
    · -- the record fits before the end of the buffer
      rename_i hB
      simp only [Prod.mk.injEq] at hv
      obtain ⟨rfl, rfl⟩ := hv
      have hwf2 := hwf1.frame (write64 s1.mem (s.back % s.cap) (BitVec.ofNat 64 n))
        (hwf1.free_block s.back 8 (by omega) (by omega) (by rw [e1]; omega) _
          (fun a ha => write64_other _ _ _ _ (by rw [e1] at ha; exact ha)))
      refine ⟨e2, e1, ⟨hwf2, ?_, ?_, ?_, ?_⟩, ?_⟩
      · dsimp only; rw [e1, e3]
      · dsimp only; rw [e1, e3, read64_write64]
      · dsimp only; rw [e1, e3]; omega
      · dsimp only; omega
      · unfold need; rw [if_neg hB]; omega

theorem vpush_eq (s : VSt) :
    vpush s = { s with back := s.back + (calc_real_size (read64 s.mem (s.back % s.cap))).toNat } := by
  unfold vpush; rfl

/-- `push_back( data, size )`: succeeds iff the record (plus the unusable tail, if it has to wrap) fits
    into the free space; on success the record is appended to the contents, on failure the contents are
    unchanged. -/
theorem vpushData_spec (s : VSt) (recs : List (List Byte)) (data : List Byte) (h : WF s recs)
    (hn : data.length < 2 ^ 63) (s' : VSt) (ok : Bool) (hv : vpushData s data = (s', ok)) :
    s'.front = s.front ∧ s'.cap = s.cap ∧
    (ok = true → WF s' (recs ++ [data]) ∧ need s data.length ≤ s.cap - (s.back - s.front)) ∧
    (ok = false → WF s' recs ∧ s'.back = s.back ∧ s.cap - (s.back - s.front) < need s data.length) := by
  unfold vpushData at hv
  cases hvb : vback s (BitVec.ofNat 64 data.length) with
  | mk s1 r =>
    have hspec := vback_spec s recs data.length h hn s1 r hvb
    rw [hvb] at hv
    cases r with
    | none =>
      simp only [Prod.mk.injEq] at hv
      obtain ⟨rfl, rfl⟩ := hv
      obtain ⟨hf, hc, hwf, hb, hlt⟩ := hspec
      exact ⟨hf, hc, by simp, fun _ => ⟨hwf, hb, hlt⟩⟩
    | some p =>
      simp only [Prod.mk.injEq] at hv
      obtain ⟨rfl, rfl⟩ := hv
      obtain ⟨hf, hc, ⟨hwf, hp, hdr, fits, room⟩, hneed⟩ := hspec
      have hrs := realSize_facts data.length
      have hpl := hwf.pfront_le
      -- the payload is copied into free cells, next to the header
      have hfree : ∀ a, ¬ (s1.back % s1.cap ≤ a ∧ a < s1.back % s1.cap + realSize data.length) →
          writeBytes s1.mem p data a = s1.mem a :=
        fun a ha => writeBytes_other _ _ _ _ (by rw [hp]; omega)
      have hwf2 := hwf.frame (writeBytes s1.mem p data)
        (hwf.free_block s1.back (realSize data.length) (Nat.le_refl _) (by omega) fits
          (writeBytes s1.mem p data) hfree)
      have hdr2 : read64 (writeBytes s1.mem p data) (s1.back % s1.cap) = BitVec.ofNat 64 data.length := by
        rw [read64_congr s1.mem _ _ (fun i hi => writeBytes_other _ _ _ _ (by rw [hp]; omega)), hdr]
      have hbytes : readBytes (writeBytes s1.mem p data) (s1.back % s1.cap + 8) data.length = data := by
        rw [← hp]; exact readBytes_writeBytes _ _ _
      have hwf3 := hwf2.publish_record data hdr2 hbytes fits room
      rw [vpush_eq]
      dsimp only
      rw [hdr2, real_of data.length hn]
      exact ⟨hf, hc, fun _ => ⟨hwf3, hneed⟩, fun hh => absurd hh (by decide)⟩

/-! ### Consumer -/

theorem ofNat_inj63 {a b : Nat} (ha : a < 2 ^ 63) (hb : b < 2 ^ 63)
    (h : BitVec.ofNat 64 a = BitVec.ofNat 64 b) : a = b := by
  have := congrArg BitVec.toNat h
  rwa [size_toNat a ha, size_toNat b hb] at this

/-- A non-empty stretch whose first header is a plain size starts with that record. -/
theorem Layout.head_record {cap : Nat} {mem : Nat → Byte} {f m : Nat} {r1 : List (List Byte)}
    (l1 : Layout cap mem f m r1) (hne : f ≠ m)
    (hnm : f % cap = 0 ∨ is_tail (read64 mem (f % cap)) = false) :
    ∃ data r1', r1 = data :: r1' ∧ read64 mem (f % cap) = BitVec.ofNat 64 data.length ∧
      readBytes mem (f % cap + 8) data.length = data ∧ f % cap + realSize data.length ≤ cap ∧
      Layout cap mem (f + realSize data.length) m r1' := by
  cases l1 with
  | nil => exact absurd rfl hne
  | record _ _ data rest a1 a2 a3 a4 hl => exact ⟨data, rest, rfl, a3, a4, a2, hl⟩
  | marker _ _ _ a1 a2 a3 hl =>
    rcases hnm with h0 | hnt
    · exact absurd h0 a2
    · rw [a3, is_tail_make_tail] at hnt
      exact absurd hnt (by decide)

/-- A non-empty stretch whose first header carries the tail mark starts with an unused tail. -/
theorem Layout.head_marker {cap : Nat} {mem : Nat → Byte} {f m : Nat} {r1 : List (List Byte)}
    (hcap : cap < 2 ^ 63) (l1 : Layout cap mem f m r1) (hne : f ≠ m)
    (ht : is_tail (read64 mem (f % cap)) = true) :
    f % cap ≠ 0 ∧ read64 mem (f % cap) = make_tail (BitVec.ofNat 64 (cap - f % cap - 8)) ∧
      Layout cap mem (f + (cap - f % cap)) m r1 := by
  cases l1 with
  | nil => exact absurd rfl hne
  | record _ _ data rest a1 a2 a3 a4 hl =>
    have := realSize_facts data.length
    rw [a3, is_tail_of_lt _ (by rw [size_toNat _ (by omega)]; omega)] at ht
    exact absurd ht (by decide)
  | marker _ _ _ a1 a2 a3 hl => exact ⟨a2, a3, hl⟩

/-- An empty stretch holds no record. -/
theorem Layout.nil_of_eq {cap : Nat} {mem : Nat → Byte} {f : Nat} {r : List (List Byte)}
    (hpos : 0 < cap) (l : Layout cap mem f f r) : r = [] := by
  cases l with
  | nil => rfl
  | record _ _ data rest a1 a2 a3 a4 hl =>
    have := hl.le; have := realSize_facts data.length; omega
  | marker _ _ _ a1 a2 a3 hl =>
    have := hl.le; have := Nat.mod_lt f hpos; omega

theorem refreshC_spec (s : VSt) (recs : List (List Byte)) (h : WF s recs) :
    WF (refreshC s s.front) recs ∧ (refreshC s s.front).cap = s.cap ∧
    (refreshC s s.front).front = s.front ∧ (refreshC s s.front).back = s.back ∧
    (refreshC s s.front).mem = s.mem ∧
    ((refreshC s s.front).cback - s.front < 8 → s.front = s.back) ∧
    (¬ (refreshC s s.front).cback - s.front < 8 → s.front + 8 ≤ (refreshC s s.front).cback) := by
  have hb := h.bounds
  unfold refreshC
  split
  · rename_i hlt
    have hl := h.layout
    refine ⟨?_, rfl, rfl, rfl, rfl, ?_, ?_⟩
    · obtain ⟨a1, a2, a3, a4, a5, a6, -⟩ := h
      exact ⟨a1, a2, a3, a4, a5, a6, recs, [], by simp, hl, Layout.nil _⟩
    · intro h8
      dsimp only at h8
      apply Classical.byContradiction
      intro hne
      have := hl.lt_of_ne h.cap8 h.cap_pos hne
      omega
    · intro h8; dsimp only at h8 ⊢; omega
  · rename_i hlt
    exact ⟨h, rfl, rfl, rfl, rfl, fun h8 => absurd h8 hlt, fun _ => by omega⟩

theorem refreshC_id (s : VSt) (f : Nat) (h : ¬ s.cback - f < 8) : refreshC s f = s := by
  unfold refreshC; rw [if_neg h]

/-- Every record in a layout fits into the buffer. -/
theorem Layout.mem_len {cap : Nat} {mem : Nat → Byte} {f b : Nat} {recs : List (List Byte)}
    (l : Layout cap mem f b recs) : ∀ d ∈ recs, realSize d.length ≤ cap := by
  induction l with
  | nil => intro d hd; simp at hd
  | record p b data rest a1 a2 a3 a4 hl ih =>
    intro d hd
    rcases List.mem_cons.mp hd with rfl | hd
    · omega
    · exact ih d hd
  | marker p b recs a1 a2 a3 hl ih => exact ih

theorem WF.empty_of_eq {s : VSt} {recs : List (List Byte)} (h : WF s recs) (he : s.front = s.back) :
    recs = [] := by
  have hl := h.layout
  rw [he] at hl
  exact Layout.nil_of_eq h.cap_pos hl

/-- With at least a header's worth of published data in the consumer's view and no tail mark at `front_`,
    the first record starts at `front_`. -/
theorem WF.head_at_record {t : VSt} {recs : List (List Byte)} (h : WF t recs) (h8 : t.front + 8 ≤ t.cback)
    (hnm : t.front % t.cap = 0 ∨ is_tail (read64 t.mem (t.front % t.cap)) = false) :
    ∃ data rest, recs = data :: rest ∧ read64 t.mem (t.front % t.cap) = BitVec.ofNat 64 data.length ∧
      readBytes t.mem (t.front % t.cap + 8) data.length = data ∧
      t.front % t.cap + realSize data.length ≤ t.cap := by
  obtain ⟨r1, r2, e, l1, l2⟩ := h.split
  obtain ⟨data, r1', e1, hdr, hb, fits, -⟩ := l1.head_record (by omega) hnm
  exact ⟨data, r1' ++ r2, by rw [e, e1]; rfl, hdr, hb, fits⟩

theorem vpop_eq (s : VSt) : vpop s =
    if (refreshC s s.front).cback - s.front < 8 then (refreshC s s.front, false)
    else ({ refreshC s s.front with front := s.front +
      (calc_real_size (untail (read64 (refreshC s s.front).mem (s.front % s.cap)))).toNat }, true) := by
  unfold vpop; rfl

/-- `pop_front()` on a buffer whose first record starts at `front_` removes exactly that record. -/
theorem vpop_record (s : VSt) (data : List Byte) (rest : List (List Byte)) (h : WF s (data :: rest))
    (hdr : read64 s.mem (s.front % s.cap) = BitVec.ofNat 64 data.length) :
    ∃ s', vpop s = (s', true) ∧ WF s' rest ∧ s'.back = s.back ∧ s'.cap = s.cap ∧ s'.mem = s.mem := by
  have hlen : data.length < 2 ^ 63 := by
    have := h.layout.mem_len data (by simp)
    have := realSize_facts data.length
    have := h.cap_lt
    omega
  have hne : s.front ≠ s.back := fun he => by simpa using h.empty_of_eq he
  obtain ⟨hwf1, c1, c2, c3, c4, c5, c6⟩ := refreshC_spec s _ h
  rw [vpop_eq, c4, hdr, untail_of_lt _ (by rw [size_toNat _ hlen]; exact hlen), real_of _ hlen]
  generalize refreshC s s.front = s1 at *
  have h8 : ¬ s1.cback - s.front < 8 := fun hh => hne (c5 hh)
  rw [if_neg h8]
  have hcb := c6 h8
  refine ⟨_, rfl, ?_, c3, c1, c4⟩
  have hnt : is_tail (read64 s1.mem (s1.front % s1.cap)) = false := by
    rw [c4, c2, c1, hdr]; exact is_tail_of_lt _ (by rw [size_toNat _ hlen]; exact hlen)
  obtain ⟨a1, a2, a3, a4, a5, a6, r1, r2, e, l1, l2⟩ := hwf1
  obtain ⟨data', r1', e1, hdr', -, fits, l1'⟩ := l1.head_record (by omega) (.inr hnt)
  have hd : data' = data ∧ rest = r1' ++ r2 := by
    rw [e1] at e
    simp only [List.cons_append, List.cons.injEq] at e
    exact ⟨e.1.symm, e.2⟩
  obtain ⟨rfl, rfl⟩ := hd
  have hrs := realSize_facts data'.length
  refine ⟨a1, a2, a3, ?_, ?_, a6, r1', r2, rfl, ?_, l2⟩
  · dsimp only; omega
  · dsimp only; omega
  · dsimp only; rw [← c2]; exact l1'

theorem real_of_tail {tail : Nat} (h8 : tail % 8 = 0) (hge : 8 ≤ tail) (hlt : tail < 2 ^ 63) :
    (calc_real_size (untail (make_tail (BitVec.ofNat 64 (tail - 8))))).toNat = tail := by
  have h1 : tail - 8 < 2 ^ 63 := by omega
  rw [untail_make_tail _ (by rw [size_toNat _ h1]; exact h1), real_of _ h1]
  unfold realSize; omega

theorem vfront_eq (s : VSt) : vfront s =
    if (refreshC s s.front).cback - s.front < 8 then (refreshC s s.front, none)
    else if is_tail (read64 (refreshC s s.front).mem (s.front % s.cap)) = true then
      if (refreshC (vpop (refreshC s s.front)).1 (vpop (refreshC s s.front)).1.front).cback
          - (vpop (refreshC s s.front)).1.front < 8 then
        (refreshC (vpop (refreshC s s.front)).1 (vpop (refreshC s s.front)).1.front, none)
      else (refreshC (vpop (refreshC s s.front)).1 (vpop (refreshC s s.front)).1.front,
        some ((vpop (refreshC s s.front)).1.front % s.cap + 8,
          read64 (refreshC (vpop (refreshC s s.front)).1 (vpop (refreshC s s.front)).1.front).mem
            ((vpop (refreshC s s.front)).1.front % s.cap)))
    else (refreshC s s.front, some (s.front % s.cap + 8, read64 (refreshC s s.front).mem (s.front % s.cap))) := by
  unfold vfront; rfl

/-- What `front()` promises about its result `r` in the state `s'` it leaves behind. -/
def FrontOk (s' : VSt) (recs : List (List Byte)) (r : Option (Nat × BitVec 64)) : Prop :=
  match recs with
  | [] => r = none
  | data :: _ => ∃ p, r = some (p, BitVec.ofNat 64 data.length) ∧
      readBytes s'.mem p data.length = data ∧ p + data.length ≤ s'.cap ∧
      read64 s'.mem (s'.front % s'.cap) = BitVec.ofNat 64 data.length

theorem front_none_ok (t : VSt) (recs : List (List Byte)) (h : WF t recs)
    (h8 : t.cback - t.front < 8) (hcb : t.cback = t.back) : FrontOk t recs none := by
  have hb := h.bounds
  have : t.front = t.back := by
    apply Classical.byContradiction
    intro hne
    have := h.layout.lt_of_ne h.cap8 h.cap_pos hne
    omega
  rw [h.empty_of_eq this]; rfl

/-- The common end of both paths of `front()`: no tail mark at `front_`. -/
theorem front_some_ok (t : VSt) (recs : List (List Byte)) (h : WF t recs)
    (hnm : t.front % t.cap = 0 ∨ is_tail (read64 t.mem (t.front % t.cap)) = false)
    (h8 : ¬ t.cback - t.front < 8) :
    FrontOk t recs (some (t.front % t.cap + 8, read64 t.mem (t.front % t.cap))) := by
  have hb := h.bounds
  obtain ⟨data, rest, rfl, hdr, hbytes, fits⟩ := h.head_at_record (by omega) hnm
  have := realSize_facts data.length
  exact ⟨_, by rw [hdr], hbytes, by omega, hdr⟩

theorem refreshC_cback (s : VSt) (f : Nat) (h : (refreshC s f).cback - f < 8) :
    (refreshC s f).cback = (refreshC s f).back := by
  unfold refreshC at h ⊢
  split
  · rfl
  · rename_i hn; rw [if_neg hn] at h; exact absurd h hn

/-- `front()`: on an empty buffer nullptr (possibly after skipping an unused tail); otherwise the
    payload address and exact size of the oldest record, whose bytes are intact and contiguous. -/
theorem vfront_spec (s : VSt) (recs : List (List Byte)) (h : WF s recs) :
    ∃ s' r, vfront s = (s', r) ∧ WF s' recs ∧ s'.back = s.back ∧ s'.cap = s.cap ∧ s'.mem = s.mem ∧
      FrontOk s' recs r := by
  obtain ⟨hwf1, c1, c2, c3, c4, c5, c6⟩ := refreshC_spec s _ h
  rw [vfront_eq]
  have hcb1 := refreshC_cback s s.front
  generalize refreshC s s.front = s1 at *
  by_cases h8 : s1.cback - s.front < 8
  · rw [if_pos h8]
    exact ⟨_, _, rfl, hwf1, c3, c1, c4, front_none_ok s1 recs hwf1 (by rw [c2]; exact h8) (hcb1 h8)⟩
  · rw [if_neg h8]
    have hcb := c6 h8
    by_cases ht : is_tail (read64 s1.mem (s.front % s.cap)) = true
    · -- unused tail at front_: skip it
      rw [if_pos ht]
      have hc8 := hwf1.cap8
      have hcp := hwf1.cap_pos
      have hclt := hwf1.cap_lt
      have hf8 := hwf1.front8
      have hpl := hwf1.pfront_le
      have hofflt := Nat.mod_lt s1.front hcp
      have hoff8 := mod_mod8 (p := s1.front) hc8
      obtain ⟨r1, r2, e, l1, l2⟩ := hwf1.split
      obtain ⟨a2, a3, l1'⟩ := l1.head_marker hclt (by omega) (by rw [c2, c1]; exact ht)
      have hpop : vpop s1 = ({ s1 with front := s1.front + (s1.cap - s1.front % s1.cap) }, true) := by
        rw [vpop_eq, refreshC_id s1 s1.front (by rw [c2]; exact h8), if_neg (by rw [c2]; exact h8), a3,
          real_of_tail (by omega) (by omega) (by omega)]
      have hwf2 : WF { s1 with front := s1.front + (s1.cap - s1.front % s1.cap) } recs := by
        have := l1'.le
        refine ⟨hc8, hcp, hclt, ?_, ?_, hwf1.back_le, r1, r2, e, l1', l2⟩
        · dsimp only; omega
        · dsimp only; omega
      have h0 : (s1.front + (s1.cap - s1.front % s1.cap)) % s1.cap = 0 := mod_add_tail hcp
      rw [hpop]
      dsimp only
      obtain ⟨hwf3, d1, d2, d3, d4, d5, d6⟩ := refreshC_spec _ _ hwf2
      have hcb3 := refreshC_cback { s1 with front := s1.front + (s1.cap - s1.front % s1.cap) }
        (s1.front + (s1.cap - s1.front % s1.cap))
      dsimp only at d1 d2 d3 d4 d5 d6 hwf3 hcb3
      generalize refreshC { s1 with front := s1.front + (s1.cap - s1.front % s1.cap) }
        (s1.front + (s1.cap - s1.front % s1.cap)) = s3 at *
      by_cases h8' : s3.cback - (s1.front + (s1.cap - s1.front % s1.cap)) < 8
      · rw [if_pos h8']
        exact ⟨_, _, rfl, hwf3, by omega, by omega, by rw [d4, c4],
          front_none_ok s3 recs hwf3 (by rw [d2]; exact h8') (hcb3 h8')⟩
      · rw [if_neg h8']
        refine ⟨_, _, rfl, hwf3, by omega, by omega, by rw [d4, c4], ?_⟩
        have := front_some_ok s3 recs hwf3 (.inl (by rw [d2, d1]; exact h0)) (by rw [d2]; exact h8')
        rw [d2, d1, c1] at this
        rw [c1]
        exact this
    · rw [if_neg ht]
      refine ⟨_, _, rfl, hwf1, c3, c1, c4, ?_⟩
      have := front_some_ok s1 recs hwf1 (.inr (by rw [c2, c1]; simpa using ht)) (by rw [c2]; exact h8)
      rw [c2, c1] at this
      exact this

/-! ### Whole operations and runs -/

/-- The consumer's work-loop body: `front()`, read the record through the returned pointer and size,
    `pop_front()`. -/
def vconsume (s : VSt) : VSt × Option (List Byte) :=
  match vfront s with
  | (s1, none) => (s1, none)
  | (s1, some (p, sz)) => ((vpop s1).1, some (readBytes s1.mem p sz.toNat))

theorem vconsume_spec (s : VSt) (recs : List (List Byte)) (h : WF s recs) :
    ∃ s' r, vconsume s = (s', r) ∧ s'.cap = s.cap ∧
      match recs with
      | [] => r = none ∧ WF s' []
      | data :: rest => r = some data ∧ WF s' rest := by
  obtain ⟨s1, r1, hvf, hwf1, -, hc1, -, hok⟩ := vfront_spec s recs h
  unfold vconsume
  rw [hvf]
  cases recs with
  | nil =>
    simp only [FrontOk] at hok
    subst hok
    exact ⟨_, _, rfl, hc1, rfl, hwf1⟩
  | cons data rest =>
    obtain ⟨p, rfl, hbytes, -, hdr⟩ := hok
    obtain ⟨s2, hpop, hwf2, -, hc2, -⟩ := vpop_record s1 data rest hwf1 hdr
    have hlen : data.length < 2 ^ 63 := by
      have := hwf1.layout.mem_len data (by simp)
      have := realSize_facts data.length
      have := hwf1.cap_lt
      omega
    refine ⟨_, _, rfl, ?_, ?_, ?_⟩
    · rw [hpop]; exact hc2.trans hc1
    · rw [size_toNat _ hlen, hbytes]
    · rw [hpop]; exact hwf2

/-- A client program: pushes of byte records and consumptions, in any order. -/
inductive VOp
  | push (data : List Byte)
  | consume

/-- Run a program; returns the final state, the records whose push succeeded and the records
    consumed, both in program order. -/
def vrun : VSt → List VOp → VSt × List (List Byte) × List (List Byte)
  | s, [] => (s, [], [])
  | s, .push d :: ops =>
    let r := vrun (vpushData s d).1 ops
    (r.1, if (vpushData s d).2 then d :: r.2.1 else r.2.1, r.2.2)
  | s, .consume :: ops =>
    let r := vrun (vconsume s).1 ops
    (r.1, r.2.1, match (vconsume s).2 with | some d => d :: r.2.2 | none => r.2.2)

/-- Every run is an exact FIFO of byte records: what was in the buffer followed by what was pushed
    successfully equals what was consumed followed by what is still in the buffer. -/
theorem vrun_fifo (ops : List VOp) (s : VSt) (q : List (List Byte)) (h : WF s q)
    (hlen : ∀ d, VOp.push d ∈ ops → d.length < 2 ^ 63) :
    ∃ q', WF (vrun s ops).1 q' ∧ q ++ (vrun s ops).2.1 = (vrun s ops).2.2 ++ q' := by
  induction ops generalizing s q with
  | nil => exact ⟨q, h, by simp [vrun]⟩
  | cons op ops ih =>
    cases op with
    | push d =>
      have hd := hlen d (by simp)
      have hrest : ∀ d', VOp.push d' ∈ ops → d'.length < 2 ^ 63 := fun d' hm => hlen d' (by simp [hm])
      obtain ⟨-, -, hok, hfail⟩ := vpushData_spec s q d h hd (vpushData s d).1 (vpushData s d).2 rfl
      simp only [vrun]
      cases hres : (vpushData s d).2 with
      | true =>
        obtain ⟨q', hwf', he⟩ := ih _ _ (hok hres).1 hrest
        exact ⟨q', hwf', by simpa using he⟩
      | false =>
        obtain ⟨q', hwf', he⟩ := ih _ _ (hfail hres).1 hrest
        exact ⟨q', hwf', by simpa using he⟩
    | consume =>
      have hrest : ∀ d', VOp.push d' ∈ ops → d'.length < 2 ^ 63 := fun d' hm => hlen d' (by simp [hm])
      obtain ⟨s1, r, hc, -, hm⟩ := vconsume_spec s q h
      simp only [vrun, hc]
      cases q with
      | nil =>
        obtain ⟨rfl, hwf1⟩ := hm
        obtain ⟨q', hwf', he⟩ := ih _ _ hwf1 hrest
        exact ⟨q', hwf', by simpa using he⟩
      | cons d rest =>
        obtain ⟨rfl, hwf1⟩ := hm
        obtain ⟨q', hwf', he⟩ := ih _ _ hwf1 hrest
        exact ⟨q', hwf', by simp [he]⟩

end CdsVerif.Algo.Ring.Void

/-
  C06 — MoirQueue (cds::intrusive::MoirQueue: MSQueue's `enqueue`, its own `do_dequeue`) is a linearizable FIFO
  queue: every concurrent history of the atomic-step model `Algo/Moir/Model.lean` is linearizable to `Spec.fifo`;
  `dequeue` reports "empty" only if the queue was empty at some instant during the call.
  Property theorems only; the model, the invariant and the proof live in `Algo/Moir/{Model,Inv,Lin}.lean` and in the
  generic ghost-log construction `Algo/QueueLin/{Chain,History,Ghost}.lean`.

  What is different from MSQueue (and is proved here): the dequeuer reads and helps `m_pTail` only AFTER its
  successful CAS on `m_pHead`, and does not re-validate `m_pHead`.  `m_pHead` and `m_pTail` can therefore cross:
  `m_pTail` may be the node just dequeued, one node BEHIND `m_pHead` (`C06_moir_tail_position`, example `crossSched`);
  the queue is then empty and stays so until `m_pTail` is repaired.  The empty dequeue needs no hindsight: its
  result is definitive at its linearization point (the validating null load of `h->m_pNext`), because a node behind
  `m_pHead` never has a null link.

  Assumption of the model (not proved here): a node is not reused while any thread may still hold a pointer to it
  (garbage-collected heap).  This is what the hazard pointers taken by `guards.protect` provide.
-/
import CdsVerif.Algo.Moir.Lin
namespace CdsVerif.Props.C06Moir
open CdsVerif.Machine CdsVerif.Lin CdsVerif.Spec CdsVerif.Algo CdsVerif.Algo.QueueLin

/-- Linearizability, general form (Herlihy–Wing with completion of pending operations).  For EVERY schedule
    (any number of threads, any client program of `enq v` / `deq`, any interleaving of the atomic steps), the
    history of the completed operations of the run — extended by response records for the pending operations that
    have already passed their linearization point (at most one per thread; each is an operation pending in `os`,
    completed with the result fixed at its linearization point and the response time "end of run"), all other
    pending operations being dropped — is linearizable to the sequential FIFO queue.

    The literal statement "`historyOf os` is linearizable" is FALSE for runs that stop between the successful CAS
    of an `enq` and its return while another thread has already dequeued the value (`pendSched` below). -/
theorem C06_moir_linearizable (sched : List (Tid × Act)) (s : Moir.St) (os : List (Tid × Obs))
    (h : Moir.model.run Moir.init sched = some (s, os)) :
    ∃ extra : List (OpRec GOp GRet),
      (∀ e ∈ extra, pendingOf os e.tid = some (e.op, e.inv) ∧ e.res = os.length ∧
          Moir.postRet (s.pc e.tid) = some e.ret) ∧
      extra.Pairwise (fun a b => a.tid ≠ b.tid) ∧
      Linearizable fifo (historyOf os ++ extra) :=
  Moir.moir_linearizable sched s os h

/-- Runs in which every invoked operation has returned: the history is linearizable as it is. -/
theorem C06_moir_linearizable_complete_runs (sched : List (Tid × Act)) (s : Moir.St) (os : List (Tid × Obs))
    (h : Moir.model.run Moir.init sched = some (s, os)) (hq : ∀ t, s.pc t = .idle) :
    Linearizable fifo (historyOf os) :=
  Moir.moir_linearizable_complete_runs sched s os h hq

/-- More generally: runs at whose end no thread is between its linearization point and its return (threads may be
    in the middle of operations that have not taken effect; these are dropped). -/
theorem C06_moir_linearizable_no_effect_pending (sched : List (Tid × Act)) (s : Moir.St)
    (os : List (Tid × Obs)) (h : Moir.model.run Moir.init sched = some (s, os))
    (hq : ∀ t, Moir.postRet (s.pc t) = none) :
    Linearizable fifo (historyOf os) :=
  Moir.moir_linearizable_no_effect_pending sched s os h hq

/-- `historyOf` is faithful: a record's `inv` / `res` are the positions of its call and return observations;
    `pendingOf` likewise. -/
theorem C06_moir_history_sound (os : List (Tid × Obs)) :
    (∀ r ∈ historyOf os,
      os[r.inv]? = some (r.tid, .call r.op) ∧ os[r.res]? = some (r.tid, .ret r.ret) ∧ r.inv < r.res) ∧
    (∀ t op k, pendingOf os t = some (op, k) → os[k]? = some (t, .call op)) :=
  ⟨fun r h => historyOf_sound os r h, fun t op k h => pendingOf_sound os t op k h⟩

/-- No invention: every value returned by a `deq` is the argument of an `enq` that was invoked before the `deq`
    returned. -/
theorem C06_moir_no_invention (sched : List (Tid × Act)) (s : Moir.St) (os : List (Tid × Obs))
    (h : Moir.model.run Moir.init sched = some (s, os)) (r : OpRec GOp GRet)
    (hr : r ∈ historyOf os) (hop : r.op = ⟨"deq", []⟩) (v : Int) (hret : r.ret = [1, v]) :
    ∃ i t', i < r.res ∧ os[i]? = some (t', .call ⟨"enq", [v]⟩) :=
  Moir.moir_no_invention sched s os h r hr hop v hret

/-- No duplication.  With `extra` as in `C06_moir_linearizable`, for every value `v` the completed dequeues that
    returned `v` are at most as many as the `enq v` operations of the run (the completed ones plus the pending ones
    in `extra`): a value enqueued once is dequeued at most once. -/
theorem C06_moir_no_duplication (sched : List (Tid × Act)) (s : Moir.St) (os : List (Tid × Obs))
    (h : Moir.model.run Moir.init sched = some (s, os)) :
    ∃ extra : List (OpRec GOp GRet),
      (∀ e ∈ extra, pendingOf os e.tid = some (e.op, e.inv) ∧ e.res = os.length ∧
          Moir.postRet (s.pc e.tid) = some e.ret) ∧
      extra.Pairwise (fun a b => a.tid ≠ b.tid) ∧
      ∀ v, (historyOf os).countP (isDeqOf v) ≤ (historyOf os ++ extra).countP (isEnq v) :=
  Moir.moir_no_duplication sched s os h

/-- `deq` answers "empty" only if the queue was empty at some instant during the call.  For EVERY run: if a
    completed `deq` returned `[0]`, there is an instant `j` strictly between its call (observation `r.inv`) and its
    return (observation `r.res`) such that in the state `s1` reached by the first `j` actions of the run the
    abstract queue is empty; more precisely (`EmptyAt`) the calling thread is about to perform the validating load
    of `h->m_pNext` that reads null, `h` is `m_pHead` and the chain from `head` consists of `h` alone. -/
theorem C06_moir_empty_means_empty (sched : List (Tid × Act)) (s : Moir.St) (os : List (Tid × Obs))
    (h : Moir.model.run Moir.init sched = some (s, os)) (r : OpRec GOp GRet)
    (hr : r ∈ historyOf os) (hret : r.ret = [0]) :
    ∃ j s1, r.inv < j ∧ j < r.res ∧ Moir.model.run Moir.init (sched.take j) = some (s1, os.take j) ∧
      Moir.EmptyAt s1 r.tid ∧ Moir.absQueue s1 = [] :=
  Moir.moir_empty_hindsight sched s os h r hr hret

/-- The same, step by step: in a reachable state, the step at which a thread linearizes with result `[0]` is the
    validating load of `h->m_pNext` inside `guards.protect( 1, h->m_pNext )` reading null; at that instant `h` is
    `m_pHead`, the chain from `head` consists of `h` alone and the abstract queue is empty; the thread has nothing
    left to do but return `[0]` (no re-validation of `m_pHead` as in MSQueue: the result is definitive). -/
theorem C06_moir_empty_lp_step (s s' : Moir.St) (t : Tid) (ev : Ev)
    (hreach : Moir.model.Reachable Moir.init s) (hs : Moir.step s t = some (s', ev))
    (hpre : Moir.postRet (s.pc t) = none) (hpost : Moir.postRet (s'.pc t) = some [0]) :
    Moir.EmptyAt s t ∧ s'.pc t = .done [0] ∧ Moir.absQueue s' = [] :=
  Moir.deq_empty_step (Moir.sinv_reachable s hreach) hs hpre hpost

/-- Head and tail may cross, but by one node at most.  In every reachable state `m_pTail` is the last or the
    second-to-last node of the chain from `m_pHead` — or it is not on that chain at all: then it is the node
    immediately behind `m_pHead` (`tail.next = head`) and the chain is `[head]`, i.e. the queue is empty. -/
theorem C06_moir_tail_position (s : Moir.St) (hreach : Moir.model.Reachable Moir.init s) :
    (∃ l0, Moir.absNodes s = l0 ++ [s.tail] ∨ ∃ x, Moir.absNodes s = l0 ++ [s.tail, x]) ∨
    (s.tail ∉ Moir.absNodes s ∧ s.next s.tail = some s.head ∧ Moir.absNodes s = [s.head]) :=
  Moir.reachable_tail_lag s hreach

/-- Refinement: in a reachable state, the step at which thread `t` fixes its result `r` (successful CAS on
    `t->m_pNext` of `enq`, successful CAS on `m_pHead` of `deq`, validating null load of `h->m_pNext` of `deq`) is
    exactly the `fifo` transition of `t`'s operation with result `r` on the abstract queue; every other step —
    in particular every access to `m_pTail` — leaves the abstract queue unchanged. -/
theorem C06_moir_lp_refines (s s' : Moir.St) (t : Tid) (ev : Ev)
    (hreach : Moir.model.Reachable Moir.init s) (hs : Moir.step s t = some (s', ev)) :
    (Moir.postRet (s.pc t) = none → ∀ r, Moir.postRet (s'.pc t) = some r →
      ∃ op, Moir.opOf s.val (s.pc t) = some op ∧
        fifo.next (Moir.absQueue s) op r = some (Moir.absQueue s')) ∧
    ((Moir.postRet (s.pc t) ≠ none ∨ Moir.postRet (s'.pc t) = none) →
      Moir.absQueue s' = Moir.absQueue s) :=
  Moir.step_refines (Moir.sinv_reachable s hreach) hs

/-- Structure of the reachable states: the chain from `head` starts with `head`, is finite, duplicate-free, ends in
    a node with a null link and is made of published nodes. -/
theorem C06_moir_chain (s : Moir.St) (hreach : Moir.model.Reachable Moir.init s) :
    Chain s.next (some s.head) (Moir.absNodes s) ∧ (Moir.absNodes s).Nodup ∧
      (∀ a ∈ Moir.absNodes s, Moir.Pub s a) ∧ (∃ r, Moir.absNodes s = s.head :: r) :=
  Moir.reachable_chain s hreach

/-- A node that has left the chain (a dequeued dummy — possibly still `m_pTail`!) is never linked in again, in
    particular `head` never returns to it. -/
theorem C06_moir_never_relinked (s s' : Moir.St) (t : Tid) (a : Act) (o : Obs)
    (hreach : Moir.model.Reachable Moir.init s) (hap : Moir.model.apply s t a = some (s', o))
    (x : Nat) (hx : Moir.Pub s x) (hout : x ∉ Moir.absNodes s) :
    Moir.Pub s' x ∧ x ∉ Moir.absNodes s' :=
  Moir.never_relinked (Moir.sinv_reachable s hreach) hap x hx hout

/-! ### Non-vacuity -/

def steps (t : Tid) (n : Nat) : List (Tid × Act) := List.replicate n (t, .step)

/-- Head and tail cross.  Thread 0 links its node `n1` behind the dummy `n0` and is delayed before swinging the
    tail; thread 1 dequeues: it never looks at `tail` before its `cas+ head n0 n1`. -/
def crossSched : List (Tid × Act) :=
  [(0, .invoke ⟨"enq", [7]⟩)] ++ steps 0 4 ++ [(1, .invoke ⟨"deq", []⟩)] ++ steps 1 5

example : (Moir.model.run Moir.init crossSched).map (·.2) = some
    [(0, .call ⟨"enq", [7]⟩),                -- T 0 C enq [7]
     (0, .ev ⟨"ld", "tail", "n0", ""⟩),      -- T 0 A ld tail n0
     (0, .ev ⟨"ld", "tail", "n0", ""⟩),      -- T 0 A ld tail n0
     (0, .ev ⟨"ld", "n0", "null", ""⟩),      -- T 0 A ld n0 null
     (0, .ev ⟨"cas+", "n0", "null", "n1"⟩),  -- T 0 A cas+ n0 null n1        (linearization point of enq 7)
     (1, .call ⟨"deq", []⟩),                 -- T 1 C deq []
     (1, .ev ⟨"ld", "head", "n0", ""⟩),      -- T 1 A ld head n0             (protect: load)
     (1, .ev ⟨"ld", "head", "n0", ""⟩),      -- T 1 A ld head n0             (protect: validating load)
     (1, .ev ⟨"ld", "n0", "n1", ""⟩),        -- T 1 A ld n0 n1
     (1, .ev ⟨"ld", "n0", "n1", ""⟩),        -- T 1 A ld n0 n1
     (1, .ev ⟨"cas+", "head", "n0", "n1"⟩)]  -- T 1 A cas+ head n0 n1        (linearization point of deq)
    := by decide

/-- The crossed state: `head = n1`, `tail = n0` is BEHIND head (`n0.next = n1`), the chain is `[n1]`, the queue is
    empty (third alternative of `C06_moir_tail_position`). -/
example : (Moir.model.run Moir.init crossSched).map
    (fun r => (r.1.head, r.1.tail, r.1.next r.1.tail, Moir.absNodes r.1, Moir.absQueue r.1)) =
    some (1, 0, some 1, [1], []) := by decide

/-- In the crossed state a third thread dequeues "empty" (correctly: the 7 is gone); then thread 1 reads
    `tail == h` and repairs it (`cas+ tail n0 n1`); thread 0's own swing then fails. -/
def crossRest : List (Tid × Act) :=
  [(2, .invoke ⟨"deq", []⟩)] ++ steps 2 4 ++ [(2, .ret)] ++ steps 1 2 ++ [(1, .ret)] ++ steps 0 1 ++ [(0, .ret)]

example : (Moir.model.run Moir.init (crossSched ++ crossRest)).map (fun r => r.2.drop 11) = some
    [(2, .call ⟨"deq", []⟩),
     (2, .ev ⟨"ld", "head", "n1", ""⟩),
     (2, .ev ⟨"ld", "head", "n1", ""⟩),
     (2, .ev ⟨"ld", "n1", "null", ""⟩),
     (2, .ev ⟨"ld", "n1", "null", ""⟩),      -- linearization point of the empty deq: returns at once
     (2, .ret [0]),
     (1, .ev ⟨"ld", "tail", "n0", ""⟩),      -- T 1 A ld tail n0             (h == t: tail is behind head)
     (1, .ev ⟨"cas+", "tail", "n0", "n1"⟩),  -- T 1 A cas+ tail n0 n1        (repair)
     (1, .ret [1, 7]),
     (0, .ev ⟨"cas-", "tail", "n1", "n0"⟩),  -- T 0 A cas- tail n1 n0        (seen n1, expected n0; result ignored)
     (0, .ret [1])] := by decide

example : (Moir.model.run Moir.init (crossSched ++ crossRest)).map (fun r => historyOf r.2) = some
    [⟨2, ⟨"deq", []⟩, [0], 11, 16⟩, ⟨1, ⟨"deq", []⟩, [1, 7], 5, 19⟩, ⟨0, ⟨"enq", [7]⟩, [1], 0, 21⟩] := by decide

example : linCheck fifo
    [⟨2, ⟨"deq", []⟩, [0], 11, 16⟩, ⟨1, ⟨"deq", []⟩, [1, 7], 5, 19⟩, ⟨0, ⟨"enq", [7]⟩, [1], 0, 21⟩] = true := by decide

/-- In the crossed state an ENQUEUER repairs the tail: thread 2 reads `tail = n0` (a node that is no longer in the
    queue), finds `n0.next = n1 ≠ null`, helps (`cas+ tail n0 n1`), restarts and links `n2` behind `n1`.  Thread 1
    then reads `tail = n2 ≠ h` and does not CAS. -/
def enqRepairSched : List (Tid × Act) :=
  crossSched ++ [(2, .invoke ⟨"enq", [8]⟩)] ++ steps 2 9 ++ [(2, .ret)] ++ steps 1 1 ++ [(1, .ret)] ++
  steps 0 1 ++ [(0, .ret)]

example : (Moir.model.run Moir.init enqRepairSched).map (fun r => r.2.drop 11) = some
    [(2, .call ⟨"enq", [8]⟩),
     (2, .ev ⟨"ld", "tail", "n0", ""⟩),
     (2, .ev ⟨"ld", "tail", "n0", ""⟩),
     (2, .ev ⟨"ld", "n0", "n1", ""⟩),        -- tail is lagging (behind head)
     (2, .ev ⟨"cas+", "tail", "n0", "n1"⟩),  -- help
     (2, .ev ⟨"ld", "tail", "n1", ""⟩),
     (2, .ev ⟨"ld", "tail", "n1", ""⟩),
     (2, .ev ⟨"ld", "n1", "null", ""⟩),
     (2, .ev ⟨"cas+", "n1", "null", "n2"⟩),  -- linearization point of enq 8
     (2, .ev ⟨"cas+", "tail", "n1", "n2"⟩),
     (2, .ret [1]),
     (1, .ev ⟨"ld", "tail", "n2", ""⟩),      -- h != t: no CAS
     (1, .ret [1, 7]),
     (0, .ev ⟨"cas-", "tail", "n2", "n0"⟩),
     (0, .ret [1])] := by decide

example : (Moir.model.run Moir.init enqRepairSched).map
    (fun r => (linCheck fifo (historyOf r.2), Moir.absQueue r.1, Moir.absNodes r.1, r.1.head, r.1.tail)) =
    some (true, [8], [1, 2], 1, 2) := by decide

/-- Why pending operations must be completed: the run stops with thread 0's `enq 7` still pending (past its
    linearization point) while thread 1 has dequeued the 7 and returned.  The history of completed operations alone
    is not linearizable ... -/
def pendSched : List (Tid × Act) := crossSched ++ steps 1 2 ++ [(1, .ret)]

example : (Moir.model.run Moir.init pendSched).map (fun r => (historyOf r.2, r.2.length, r.1.pc 0)) =
    some ([⟨1, ⟨"deq", []⟩, [1, 7], 5, 13⟩], 14, .enqSwing 1 0) := by decide

example : ¬ Linearizable fifo [⟨1, ⟨"deq", []⟩, [1, 7], 5, 13⟩] := by
  intro hlin
  have := (linCheck_iff fifo _ (by decide)).mpr hlin
  revert this
  decide

/-- ... and `extra` of `C06_moir_linearizable` repairs it: with the pending enq completed, it is. -/
example : Linearizable fifo ([⟨1, ⟨"deq", []⟩, [1, 7], 5, 13⟩] ++ [⟨0, ⟨"enq", [7]⟩, [1], 0, 14⟩]) :=
  linCheck_sound fifo _ (by decide)

/-- A dequeue CAS fails.  Two values are enqueued; threads 0 and 1 both prepare `CAS( head, n0, n1 )`; thread 1
    wins, thread 0 fails (`cas- head n1 n0`), restarts and dequeues the second value. -/
def raceSched : List (Tid × Act) :=
  [(0, .invoke ⟨"enq", [5]⟩)] ++ steps 0 5 ++ [(0, .ret), (0, .invoke ⟨"enq", [6]⟩)] ++ steps 0 5 ++
  [(0, .ret), (0, .invoke ⟨"deq", []⟩), (1, .invoke ⟨"deq", []⟩)] ++ steps 0 4 ++ steps 1 6 ++ steps 0 7 ++
  [(1, .ret), (0, .ret)]

example : (Moir.model.run Moir.init raceSched).map (fun r => (r.2.drop 20)) =
    some [(1, .ev ⟨"ld", "head", "n0", ""⟩),
          (1, .ev ⟨"ld", "head", "n0", ""⟩),
          (1, .ev ⟨"ld", "n0", "n1", ""⟩),
          (1, .ev ⟨"ld", "n0", "n1", ""⟩),
          (1, .ev ⟨"cas+", "head", "n0", "n1"⟩),   -- thread 1 wins
          (1, .ev ⟨"ld", "tail", "n2", ""⟩),
          (0, .ev ⟨"cas-", "head", "n1", "n0"⟩),   -- T 0 A cas- head n1 n0   (seen n1, expected n0): restart
          (0, .ev ⟨"ld", "head", "n1", ""⟩),
          (0, .ev ⟨"ld", "head", "n1", ""⟩),
          (0, .ev ⟨"ld", "n1", "n2", ""⟩),
          (0, .ev ⟨"ld", "n1", "n2", ""⟩),
          (0, .ev ⟨"cas+", "head", "n1", "n2"⟩),
          (0, .ev ⟨"ld", "tail", "n2", ""⟩),
          (1, .ret [1, 5]),
          (0, .ret [1, 6])] := by decide

example : (Moir.model.run Moir.init raceSched).map (fun r => historyOf r.2) =
    some [⟨0, ⟨"enq", [5]⟩, [1], 0, 6⟩, ⟨0, ⟨"enq", [6]⟩, [1], 7, 13⟩,
          ⟨1, ⟨"deq", []⟩, [1, 5], 15, 33⟩, ⟨0, ⟨"deq", []⟩, [1, 6], 14, 34⟩] := by decide

example : linCheck fifo [⟨0, ⟨"enq", [5]⟩, [1], 0, 6⟩, ⟨0, ⟨"enq", [6]⟩, [1], 7, 13⟩,
    ⟨1, ⟨"deq", []⟩, [1, 5], 15, 33⟩, ⟨0, ⟨"deq", []⟩, [1, 6], 14, 34⟩] = true := by decide

/-- The empty dequeue is decided at the validating null load: no further step (contrast: MSQueue re-validates
    `m_pHead` and may have to withdraw). -/
example : (Moir.model.run Moir.init ([(0, .invoke ⟨"deq", []⟩)] ++ steps 0 4)).map (fun r => (r.2.drop 3, r.1.pc 0)) =
    some ([(0, .ev ⟨"ld", "n0", "null", ""⟩), (0, .ev ⟨"ld", "n0", "null", ""⟩)], .done [0]) := by decide

end CdsVerif.Props.C06Moir

/-
  Atomic-step model of `cds::container::VyukovMPMCCycleQueue` (cds/container/vyukov_mpmc_cycle_queue.h), functions
  `enqueue_with` and `dequeue_with` (Dmitry Vyukov's bounded MPMC queue; the intrusive flavour is the same queue over
  pointers).

    VyukovMPMCCycleQueue( capacity ): m_nBufferMask = capacity - 1 (capacity is a power of two);
        m_buffer[i].sequence = i  for every i < capacity;  m_posEnqueue = m_posDequeue = 0

    enqueue_with( f ):
        pos = m_posEnqueue.load()                                              -- enqPos
        for (;;) {
            cell = &m_buffer[pos & m_nBufferMask]
            seq = cell->sequence.load()                                        -- enqSeq
            dif = (intptr_t) seq - (intptr_t) pos
            if ( dif == 0 ) {
                if ( m_posEnqueue.compare_exchange_weak( pos, pos + 1 ))       -- enqCas   (failure: `pos` := value seen,
                    break;                                                     --           next iteration, NO reload)
            }
            else if ( dif < 0 ) {
                if ( pos - m_posDequeue.load() == capacity())                  -- enqFull
                    return false;
                bkoff();                                                       --   (not a step)
                pos = m_posEnqueue.load()                                      -- enqPos
            }
            else
                pos = m_posEnqueue.load()                                      -- enqPos
        }
        f( cell->data )                                                        --   (payload write: thread-private)
        cell->sequence.store( pos + 1 )                                        -- enqSt
        return true

    dequeue_with( f ):
        pos = m_posDequeue.load()                                              -- deqPos
        for (;;) {
            cell = &m_buffer[pos & m_nBufferMask]
            seq = cell->sequence.load()                                        -- deqSeq
            dif = (intptr_t) seq - (intptr_t)( pos + 1 )
            if ( dif == 0 ) {
                if ( m_posDequeue.compare_exchange_weak( pos, pos + 1 ))       -- deqCas   (failure: `pos` := value seen)
                    break;
            }
            else if ( dif < 0 ) {
                if ( pos - m_posEnqueue.load() == 0 )                          -- deqEmpty
                    return false;
                bkoff();
                pos = m_posDequeue.load()                                      -- deqPos
            }
            else
                pos = m_posDequeue.load()                                      -- deqPos
        }
        f( cell->data ); value_cleaner()( cell->data )                         --   (payload read: thread-private)
        cell->sequence.store( pos + m_nBufferMask + 1 )                        -- deqSt
        return true

  One `step` = one atomic operation on shared memory, in the order of the source.  The program counter names the
  NEXT atomic operation of the thread.

  Modelling decisions.
  * Positions and sequence numbers are natural numbers: the 2^64 wrap of `size_t` is NOT modelled (ASSUMPTION: fewer
    than 2^63 operations).  `dif` is computed over the integers (signed comparison, as `intptr_t` in the source).
    The tests `pos - m_posDequeue.load() == capacity()` and `pos - m_posEnqueue.load() == 0` are unsigned
    (modular) subtractions in the source; without wrap they mean `pos = posDeq + capacity` and `pos = posEnq`, and
    that is how the model writes them (a truncated natural subtraction would make the second test `pos ≤ posEnq`,
    which is always true).
  * The capacity is `2^k` (parameter `k` of `init`, kept in the state and never changed); the cell of position `pos`
    is `pos &&& mask` exactly as in the source (`Inv.lean` rewrites it to `pos % 2^k`).  The theorems need `1 ≤ k`:
    with capacity 1 the sequence values "filled at `p`" (`p + 1`) and "free for `p + capacity`" coincide and the
    queue is broken (known finding).
  * The payload accesses are not atomic operations and are not in the trace.  The payload WRITE of `enqueue_with` is
    performed inside the step that precedes the sequence store, i.e. together with the successful CAS on
    `m_posEnqueue`; the payload READ of `dequeue_with` is performed together with the successful CAS on
    `m_posDequeue` (the value is carried in the program counter `deqSt pos v` to the return).  Both are the EARLIEST
    instants at which the real code can perform them.  `Inv.lean` proves that the placement is immaterial: from its
    position CAS to its sequence store the thread owns the cell exclusively (`VInv.eown`, `VInv.down`: no other
    thread reads or writes the payload of that cell, the payload seen by the dequeuer stays `v` until its store,
    and at an enqueuer's write the previous occupant of the cell has been dequeued AND its dequeuer has already
    executed its sequence store — `no_overwrite`).
  * `compare_exchange_weak` never fails spuriously in the model; a failed CAS loads the value seen into `pos` and the
    loop continues WITHOUT reloading the position (as in the source).  Back-off is not a step: a producer that finds
    `dif < 0` on a queue that is not full (a consumer is still emptying the cell) simply retries.
  * The item counter is not modelled.

  Event rendering (the `A` lines of the harness trace; locations as registered by harness/clients/vyukov.cpp, all
  values in decimal):
      ld   posEnq <n>               load of m_posEnqueue, value read      (ld posDeq <n> likewise)
      ld   seq<i> <n>               load of m_buffer[i].sequence
      st   seq<i> <n>               store to m_buffer[i].sequence
      cas+ posEnq <old> <new>       successful CAS on m_posEnqueue        (cas+ posDeq ... likewise)
      cas- posEnq <seen> <expected> failed CAS on m_posEnqueue            (cas- posDeq ... likewise)
-/
import CdsVerif.Base.Machine
namespace CdsVerif.Algo.Vyukov
open CdsVerif.Machine CdsVerif.Spec

inductive PC
  | idle
  | enqPos (v : Int)                 -- next: pos = m_posEnqueue.load()
  | enqSeq (v : Int) (pos : Nat)     -- next: seq = cell->sequence.load(); branch on dif = seq - pos
  | enqCas (v : Int) (pos : Nat)     -- next: CAS( m_posEnqueue, pos, pos + 1 ); success: payload write
  | enqFull (v : Int) (pos : Nat)    -- next: m_posDequeue.load(); pos - that == capacity ? return [0] : reload
  | enqSt (pos : Nat)                -- next: cell->sequence.store( pos + 1 ); then return [1]
  | deqPos                           -- next: pos = m_posDequeue.load()
  | deqSeq (pos : Nat)               -- next: seq = cell->sequence.load(); branch on dif = seq - (pos + 1)
  | deqCas (pos : Nat)               -- next: CAS( m_posDequeue, pos, pos + 1 ); success: payload read
  | deqEmpty (pos : Nat)             -- next: m_posEnqueue.load(); pos - that == 0 ? return [0] : reload
  | deqSt (pos : Nat) (v : Int)      -- next: cell->sequence.store( pos + mask + 1 ); then return [1, v]
  | done (r : GRet)
deriving DecidableEq, Repr

structure St where
  k : Nat                        -- capacity = 2^k (constant)
  seq : Nat → Nat                -- m_buffer[i].sequence
  data : Nat → Int               -- m_buffer[i].data
  posEnq : Nat                   -- m_posEnqueue
  posDeq : Nat                   -- m_posDequeue
  pc : Tid → PC

/-- `capacity()`. -/
def capOf (k : Nat) : Nat := 2 ^ k
/-- `m_nBufferMask`. -/
def maskOf (k : Nat) : Nat := capOf k - 1
/-- `pos & m_nBufferMask`: the cell of position `pos`. -/
def idxOf (k : Nat) (pos : Nat) : Nat := pos &&& maskOf k

def St.cap (s : St) : Nat := capOf s.k

def init (k : Nat) : St := ⟨k, fun i => i, fun _ => 0, 0, 0, fun _ => .idle⟩

/-! ### Event rendering (the only place where events are built) -/

def num (n : Nat) : String := toString n
def posEnqLoc : String := "posEnq"
def posDeqLoc : String := "posDeq"
def seqLoc (i : Nat) : String := s!"seq{i}"

def evLd (loc : String) (v : Nat) : Ev := ⟨"ld", loc, num v, ""⟩
def evSt (loc : String) (v : Nat) : Ev := ⟨"st", loc, num v, ""⟩
def evCasOk (loc : String) (old new : Nat) : Ev := ⟨"cas+", loc, num old, num new⟩
def evCasFail (loc : String) (seen expected : Nat) : Ev := ⟨"cas-", loc, num seen, num expected⟩

/-! ### Transitions -/

/-- `enq [v]`, `deq []`. -/
def invoke (s : St) (t : Tid) (op : GOp) : Option St :=
  match s.pc t, op.name, op.args with
  | .idle, "enq", [v] => some { s with pc := upd s.pc t (.enqPos v) }
  | .idle, "deq", [] => some { s with pc := upd s.pc t .deqPos }
  | _, _, _ => none

def step (s : St) (t : Tid) : Option (St × Ev) :=
  match s.pc t with
  | .enqPos v => some ({ s with pc := upd s.pc t (.enqSeq v s.posEnq) }, evLd posEnqLoc s.posEnq)
  | .enqSeq v pos =>
    if (s.seq (idxOf s.k pos) : Int) - (pos : Int) = 0 then
      some ({ s with pc := upd s.pc t (.enqCas v pos) }, evLd (seqLoc (idxOf s.k pos)) (s.seq (idxOf s.k pos)))
    else if (s.seq (idxOf s.k pos) : Int) - (pos : Int) < 0 then
      some ({ s with pc := upd s.pc t (.enqFull v pos) }, evLd (seqLoc (idxOf s.k pos)) (s.seq (idxOf s.k pos)))
    else
      some ({ s with pc := upd s.pc t (.enqPos v) }, evLd (seqLoc (idxOf s.k pos)) (s.seq (idxOf s.k pos)))
  | .enqCas v pos =>
    if s.posEnq = pos then
      some ({ s with posEnq := pos + 1, data := upd s.data (idxOf s.k pos) v, pc := upd s.pc t (.enqSt pos) },
            evCasOk posEnqLoc pos (pos + 1))
    else
      some ({ s with pc := upd s.pc t (.enqSeq v s.posEnq) }, evCasFail posEnqLoc s.posEnq pos)
  | .enqFull v pos =>
    if pos = s.posDeq + capOf s.k then
      some ({ s with pc := upd s.pc t (.done [0]) }, evLd posDeqLoc s.posDeq)
    else
      some ({ s with pc := upd s.pc t (.enqPos v) }, evLd posDeqLoc s.posDeq)
  | .enqSt pos =>
    some ({ s with seq := upd s.seq (idxOf s.k pos) (pos + 1), pc := upd s.pc t (.done [1]) },
          evSt (seqLoc (idxOf s.k pos)) (pos + 1))
  | .deqPos => some ({ s with pc := upd s.pc t (.deqSeq s.posDeq) }, evLd posDeqLoc s.posDeq)
  | .deqSeq pos =>
    if (s.seq (idxOf s.k pos) : Int) - ((pos : Int) + 1) = 0 then
      some ({ s with pc := upd s.pc t (.deqCas pos) }, evLd (seqLoc (idxOf s.k pos)) (s.seq (idxOf s.k pos)))
    else if (s.seq (idxOf s.k pos) : Int) - ((pos : Int) + 1) < 0 then
      some ({ s with pc := upd s.pc t (.deqEmpty pos) }, evLd (seqLoc (idxOf s.k pos)) (s.seq (idxOf s.k pos)))
    else
      some ({ s with pc := upd s.pc t .deqPos }, evLd (seqLoc (idxOf s.k pos)) (s.seq (idxOf s.k pos)))
  | .deqCas pos =>
    if s.posDeq = pos then
      some ({ s with posDeq := pos + 1, pc := upd s.pc t (.deqSt pos (s.data (idxOf s.k pos))) },
            evCasOk posDeqLoc pos (pos + 1))
    else
      some ({ s with pc := upd s.pc t (.deqSeq s.posDeq) }, evCasFail posDeqLoc s.posDeq pos)
  | .deqEmpty pos =>
    if pos = s.posEnq then
      some ({ s with pc := upd s.pc t (.done [0]) }, evLd posEnqLoc s.posEnq)
    else
      some ({ s with pc := upd s.pc t .deqPos }, evLd posEnqLoc s.posEnq)
  | .deqSt pos v =>
    some ({ s with seq := upd s.seq (idxOf s.k pos) (pos + maskOf s.k + 1), pc := upd s.pc t (.done [1, v]) },
          evSt (seqLoc (idxOf s.k pos)) (pos + maskOf s.k + 1))
  | _ => none

def result (s : St) (t : Tid) : Option (St × GRet) :=
  match s.pc t with
  | .done r => some ({ s with pc := upd s.pc t .idle }, r)
  | _ => none

def model : Model St := ⟨invoke, step, result⟩

/-- The trace lines of a run, as the harness prints them (`T <tid> A <event>` for atomic events). -/
def render (os : List (Tid × Obs)) : List String :=
  os.map fun (t, o) => match o with
    | .call op => s!"T {t} C {op.name} {op.args}"
    | .ev e => s!"T {t} A {e}"
    | .ret r => s!"T {t} R {r}"

/-! ### Initial state for trace replay

The header comment of a case carries `cap=<capacity()>` and `rot=<r>`: the harness client passes `r` items
through the queue (untraced `enq(-i-1)` / `deq()` pairs) before the scheduled program starts.  The same
warm-up is executed here by the machine itself, so the start state of the replay is a state of a run of the
machine from `init k` (reachable by construction). -/

def cfgNat (key : String) (cfg : List String) : Option Nat :=
  cfg.findSome? (fun w => if w.startsWith (key ++ "=") then (w.drop (key.length + 1)).toNat? else none)

def runOp (s : St) (t : Tid) (op : GOp) : St :=
  match invoke s t op with
  | none => s
  | some s1 =>
    let rec go (fuel : Nat) (s : St) : St :=
      match fuel with
      | 0 => s
      | fuel + 1 => match step s t with
        | some (s', _) => go fuel s'
        | none => s
    match result (go 8 s1) t with
    | some (s2, _) => s2
    | none => s1

def warmup (k rot : Nat) : St :=
  (List.range rot).foldl (fun s (i : Nat) => runOp (runOp s 0 ⟨"enq", [-(i : Int) - 1]⟩) 0 ⟨"deq", []⟩) (init k)

def initCfg (cfg : List String) : St :=
  warmup (Nat.log2 ((cfgNat "cap" cfg).getD 2)) ((cfgNat "rot" cfg).getD 0)

end CdsVerif.Algo.Vyukov

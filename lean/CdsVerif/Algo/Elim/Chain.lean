/-
  Structural invariant of the Treiber stack with elimination back-off and the effect of every atomic step on the
  abstract stack.

  * `SInvL s l` : following `next` from `top` visits exactly the nodes `l` (duplicate-free, all published); nodes still
    private to a pusher, nodes already popped and nodes handed over by elimination are outside the chain and stay
    outside.  Ghost bookkeeping: a node in the chain or private to a pusher has been taken by nobody and has not been
    eliminated.
  * `Shape` : a step is silent (abstract stack, fixed results and pending operations unchanged), or it is the
    linearization point of the stepping thread (one `lifo` transition), or it is a collision: the linearization point
    of a `push v` and of a `pop` returning `v`, in this order, the abstract stack being unchanged.
-/
import CdsVerif.Algo.Elim.Inv
import CdsVerif.Algo.Treiber.Inv
namespace CdsVerif.Algo.Elim
open CdsVerif.Machine CdsVerif.Spec CdsVerif.Lin
open CdsVerif.Algo.Treiber (Chain walk walk_of_chain walk_none length_le_of_nodup_lt lifo_push lifo_pop_some lifo_pop_none)

def isUnlC : PC → Bool
  | .bkUnlC _ _ => true
  | .bkWait _ _ _ => false
  | .bkLock2 _ _ => false
  | .bkSpin2 _ _ => false
  | .bkIn2 _ _ => false
  | .bkChk _ => false
  | .idle => false
  | .pushLd _ => false
  | .pushSt _ _ => false
  | .pushCas _ _ => false
  | .popLd1 => false
  | .popLd2 _ => false
  | .popNext _ => false
  | .popCas _ _ => false
  | .popClr _ _ => false
  | .bkSt _ _ _ => false
  | .bkLock _ _ _ => false
  | .bkSpin _ _ _ => false
  | .bkIn _ _ _ => false
  | .done _ => false

/-- The operation has been eliminated (its result is fixed): active side after the collision, passive side once its
    status is op_collided. -/
def elimd (pc : PC) (st : Nat) : Bool := isUnlC pc || (passive pc && decide (st = 2))

def pushNodeC (pc : PC) (st : Nat) : Option Nat := if elimd pc st = true then none else pushNodePc pc

/-- The node a pusher still owns privately (before its successful CAS / before its elimination). -/
def pushNode (s : St) (t : Tid) : Option Nat := pushNodeC (s.pc t) (s.status t)

/-- The result fixed by the program point alone. -/
def postPc : PC → Option GRet
  | .popClr _ r => some r
  | .done r => some r
  | .bkUnlC _ _ => none
  | .bkWait _ _ _ => none
  | .bkLock2 _ _ => none
  | .bkSpin2 _ _ => none
  | .bkIn2 _ _ => none
  | .bkChk _ => none
  | .idle => none
  | .pushLd _ => none
  | .pushSt _ _ => none
  | .pushCas _ _ => none
  | .popLd1 => none
  | .popLd2 _ => none
  | .popNext _ => none
  | .popCas _ _ => none
  | .bkSt _ _ _ => none
  | .bkLock _ _ _ => none
  | .bkSpin _ _ _ => none
  | .bkIn _ _ _ => none

def elimRet (val : Nat → Int) (pv : Option Nat) : Option Ctx → Option GRet
  | some c => some (retOf val pv c)
  | none => none

def postRetC (pc : PC) (st : Nat) (val : Nat → Int) (pv : Option Nat) : Option GRet :=
  if elimd pc st = true then elimRet val pv (ctxOf pc) else postPc pc

/-- The result of thread `t`'s operation, once it is fixed (the thread has passed its linearization point). -/
def postRet (s : St) (t : Tid) : Option GRet := postRetC (s.pc t) (s.status t) s.val (s.pval t)

def opOfPc (val : Nat → Int) (pc : PC) : Option GOp :=
  match pushNodePc pc with
  | some n => some ⟨"push", [val n]⟩
  | none => if isPopPc pc = true then some ⟨"pop", []⟩ else none

def opOfC (pc : PC) (st : Nat) (val : Nat → Int) : Option GOp := if elimd pc st = true then none else opOfPc val pc

/-- The operation a thread is executing, while it has not passed its linearization point. -/
def opOf (s : St) (t : Tid) : Option GOp := opOfC (s.pc t) (s.status t) s.val

/-- The nodes reachable from `top` (fuel: the number of nodes ever allocated). -/
def absNodes (s : St) : List Nat := walk s.next s.cnt s.top
/-- The abstract stack: the values along the chain, top first. -/
def absStack (s : St) : List Int := (absNodes s).map s.val

/-- `a` has been allocated and is no longer private to a pusher: it is or was in the stack, or it was eliminated. -/
def Pub (s : St) (a : Nat) : Prop := a < s.cnt ∧ ∀ t, pushNodeC (s.pc t) (s.status t) ≠ some a

structure SInvL (s : St) (l : List Nat) : Prop where
  chain : Chain s.next s.top l
  nodup : l.Nodup
  pub : ∀ a, a ∈ l → Pub s a
  fresh : ∀ t n, pushNodePc (s.pc t) = some n → n < s.cnt
  own : ∀ t1 t2 n, pushNodePc (s.pc t1) = some n → pushNodePc (s.pc t2) = some n → t1 = t2
  linked : ∀ t n tv, s.pc t = .pushCas n tv → s.next n = tv
  casx : ∀ t a nx, s.pc t = .popCas a nx → Pub s a ∧ (a ∈ l → s.next a = nx)
  nxt : ∀ t a, s.pc t = .popNext a → Pub s a
  clr : ∀ t a r, s.pc t = .popClr a r → Pub s a ∧ a ∉ l
  tk : ∀ a, a ∈ l → s.taken a = none ∧ s.elim a = false
  priv : ∀ t n, pushNodeC (s.pc t) (s.status t) = some n → s.taken n = none ∧ s.elim n = false

def SInv (s : St) : Prop := ∃ l, SInvL s l

theorem SInvL.absNodes_eq {s : St} {l : List Nat} (h : SInvL s l) : absNodes s = l :=
  walk_of_chain h.chain (length_le_of_nodup_lt h.nodup (fun a ha => (h.pub a ha).1))

theorem SInvL.absStack_eq {s : St} {l : List Nat} (h : SInvL s l) : absStack s = l.map s.val := by
  simp [absStack, h.absNodes_eq]

theorem SInvL.unique {s : St} {l1 l2 : List Nat} (h1 : SInvL s l1) (h2 : SInvL s l2) : l1 = l2 :=
  Chain.functional h1.chain h2.chain

theorem sinv_init : SInvL init [] := by
  constructor <;> simp [init, Chain, pushNodeC, pushNodePc, elimd, isUnlC, passive]

/-- How a step acts on the abstract stack, the fixed results and the pending operations. -/
inductive Shape (s s' : St) (t : Tid) (l l' : List Nat) : Prop
  | silent (hl : l' = l) (hp : ∀ u, postRet s' u = postRet s u) (ho : ∀ u, opOf s' u = opOf s u)
  | single (op : GOp) (r : GRet) (h0 : postRet s t = none) (h1 : opOf s t = some op)
      (hn : lifo.next (l.map s.val) op r = some (l'.map s.val))
      (hp : ∀ u, postRet s' u = if u = t then some r else postRet s u)
      (ho : ∀ u, opOf s' u = if u = t then none else opOf s u)
  | pair (a b : Tid) (v : Int) (hab : a ≠ b) (hl : l' = l) (ha : postRet s a = none) (hb : postRet s b = none)
      (hoa : opOf s a = some ⟨"push", [v]⟩) (hob : opOf s b = some ⟨"pop", []⟩)
      (hp : ∀ u, postRet s' u = if u = a then some [1] else if u = b then some [1, v] else postRet s u)
      (ho : ∀ u, opOf s' u = if u = a then none else if u = b then none else opOf s u)
      (ht : t = a ∨ t = b)

structure StepEff (s : St) (t : Tid) (s' : St) (l l' : List Nat) : Prop where
  val : s'.val = s.val
  cnt : s'.cnt = s.cnt
  idle : ∀ u, s'.pc u = .idle ↔ s.pc u = .idle
  busy : s.pc t ≠ .idle
  sub : ∀ a, a ∈ l' → a ∈ l ∨ pushNodeC (s.pc t) (s.status t) = some a
  pubmono : ∀ a, Pub s a → Pub s' a
  tkmono : ∀ a u, s.taken a = some u → s'.taken a = some u
  elmono : ∀ a, s.elim a = true → s'.elim a = true

set_option maxHeartbeats 4000000 in
theorem sinvl_step_pushLd {s s' : St} {t : Tid} {ev : Ev} {l : List Nat} {n : Nat}
    (h : SInvL s l) (he : EInv s) (hpc : s.pc t = .pushLd n) (hs : step s t = some (s', ev)) :
    ∃ l', SInvL s' l' ∧ StepEff s t s' l l' ∧ Shape s s' t l l' := by
  obtain ⟨hch, hnd, hpub, hfr, hown, hlk, hcx, hnx, hcl, htk, hpv⟩ := h
  obtain ⟨e1, e2, e3, e4, e5, e6, e7, e8⟩ := he
  simp only [step, hpc] at hs
  simp at hs; obtain ⟨rfl, -⟩ := hs
  refine ⟨l, ?_, ?_, .silent rfl ?_ ?_⟩
  · constructor <;> intros <;> (try dsimp only at *) <;> grind [upd, Pub, pushNodeC, elimd, isUnlC, passive, pushNodePc, ctxNode, retry, Chain, Chain.upd, pub_facts]
  · constructor <;> intros <;> (try dsimp only at *) <;> grind [upd, Pub, pushNodeC, elimd, isUnlC, passive, pushNodePc, ctxNode, retry, pub_facts]
  · (intros; (try dsimp only at *); grind [upd, postRet, opOf, postRetC, opOfC, opOfPc, postPc, elimRet, retOf, ctxOf, isPopPc, ctxPop, elimd, isUnlC, passive, pushNodePc, ctxNode, retry, pub_facts, lifo_push, lifo_pop_some, lifo_pop_none])
  · (intros; (try dsimp only at *); grind [upd, postRet, opOf, postRetC, opOfC, opOfPc, postPc, elimRet, retOf, ctxOf, isPopPc, ctxPop, elimd, isUnlC, passive, pushNodePc, ctxNode, retry, pub_facts, lifo_push, lifo_pop_some, lifo_pop_none])

set_option maxHeartbeats 4000000 in
theorem sinvl_step_pushSt {s s' : St} {t : Tid} {ev : Ev} {l : List Nat} {n : Nat} {tv : Option Nat}
    (h : SInvL s l) (he : EInv s) (hpc : s.pc t = .pushSt n tv) (hs : step s t = some (s', ev)) :
    ∃ l', SInvL s' l' ∧ StepEff s t s' l l' ∧ Shape s s' t l l' := by
  obtain ⟨hch, hnd, hpub, hfr, hown, hlk, hcx, hnx, hcl, htk, hpv⟩ := h
  obtain ⟨e1, e2, e3, e4, e5, e6, e7, e8⟩ := he
  simp only [step, hpc] at hs
  simp at hs; obtain ⟨rfl, -⟩ := hs
  have hn : n ∉ l := fun hm => (hpub n hm).2 t (by simp [hpc, pushNodeC, elimd, isUnlC, passive, pushNodePc, ctxNode])
  have hch' := Chain.upd (v := tv) hn hch
  refine ⟨l, ?_, ?_, .silent rfl ?_ ?_⟩
  · constructor <;> intros <;> (try dsimp only at *) <;> grind [upd, Pub, pushNodeC, elimd, isUnlC, passive, pushNodePc, ctxNode, retry, Chain, Chain.upd, pub_facts]
  · constructor <;> intros <;> (try dsimp only at *) <;> grind [upd, Pub, pushNodeC, elimd, isUnlC, passive, pushNodePc, ctxNode, retry, pub_facts]
  · (intros; (try dsimp only at *); grind [upd, postRet, opOf, postRetC, opOfC, opOfPc, postPc, elimRet, retOf, ctxOf, isPopPc, ctxPop, elimd, isUnlC, passive, pushNodePc, ctxNode, retry, pub_facts, lifo_push, lifo_pop_some, lifo_pop_none])
  · (intros; (try dsimp only at *); grind [upd, postRet, opOf, postRetC, opOfC, opOfPc, postPc, elimRet, retOf, ctxOf, isPopPc, ctxPop, elimd, isUnlC, passive, pushNodePc, ctxNode, retry, pub_facts, lifo_push, lifo_pop_some, lifo_pop_none])

set_option maxHeartbeats 4000000 in
theorem sinvl_step_pushCas {s s' : St} {t : Tid} {ev : Ev} {l : List Nat} {n : Nat} {tv : Option Nat}
    (h : SInvL s l) (he : EInv s) (hpc : s.pc t = .pushCas n tv) (hs : step s t = some (s', ev)) :
    ∃ l', SInvL s' l' ∧ StepEff s t s' l l' ∧ Shape s s' t l l' := by
  obtain ⟨hch, hnd, hpub, hfr, hown, hlk, hcx, hnx, hcl, htk, hpv⟩ := h
  obtain ⟨e1, e2, e3, e4, e5, e6, e7, e8⟩ := he
  simp only [step, hpc] at hs
  split at hs
  next heq =>
    simp at hs; obtain ⟨rfl, -⟩ := hs
    have hn : n ∉ l := fun hm => (hpub n hm).2 t (by simp [hpc, pushNodeC, elimd, isUnlC, passive, pushNodePc, ctxNode])
    have hnn := hlk t n tv hpc
    have hpn : pushNodeC (s.pc t) (s.status t) = some n := by simp [hpc, pushNodeC, elimd, isUnlC, passive, pushNodePc, ctxNode]
    have hlp : lifo.next (l.map s.val) ⟨"push", [s.val n]⟩ [1] = some ((n :: l).map s.val) := by
      simp [lifo_push]
    refine ⟨n :: l, ?_, ?_, .single ⟨"push", [s.val n]⟩ [1] ?_ ?_ hlp ?_ ?_⟩
    · constructor <;> intros <;> (try dsimp only at *) <;> grind [upd, Pub, pushNodeC, elimd, isUnlC, passive, pushNodePc, ctxNode, retry, Chain, Chain.upd, pub_facts]
    · constructor <;> intros <;> (try dsimp only at *) <;> grind [upd, Pub, pushNodeC, elimd, isUnlC, passive, pushNodePc, ctxNode, retry, pub_facts]
    · (intros; (try dsimp only at *); grind [upd, postRet, opOf, postRetC, opOfC, opOfPc, postPc, elimRet, retOf, ctxOf, isPopPc, ctxPop, elimd, isUnlC, passive, pushNodePc, ctxNode, retry, pub_facts, lifo_push, lifo_pop_some, lifo_pop_none])
    · (intros; (try dsimp only at *); grind [upd, postRet, opOf, postRetC, opOfC, opOfPc, postPc, elimRet, retOf, ctxOf, isPopPc, ctxPop, elimd, isUnlC, passive, pushNodePc, ctxNode, retry, pub_facts, lifo_push, lifo_pop_some, lifo_pop_none])
    · (intros; (try dsimp only at *); grind [upd, postRet, opOf, postRetC, opOfC, opOfPc, postPc, elimRet, retOf, ctxOf, isPopPc, ctxPop, elimd, isUnlC, passive, pushNodePc, ctxNode, retry, pub_facts, lifo_push, lifo_pop_some, lifo_pop_none])
    · (intros; (try dsimp only at *); grind [upd, postRet, opOf, postRetC, opOfC, opOfPc, postPc, elimRet, retOf, ctxOf, isPopPc, ctxPop, elimd, isUnlC, passive, pushNodePc, ctxNode, retry, pub_facts, lifo_push, lifo_pop_some, lifo_pop_none])
  next hne =>
    simp at hs; obtain ⟨rfl, -⟩ := hs
    refine ⟨l, ?_, ?_, .silent rfl ?_ ?_⟩
    · constructor <;> intros <;> (try dsimp only at *) <;> grind [upd, Pub, pushNodeC, elimd, isUnlC, passive, pushNodePc, ctxNode, retry, Chain, Chain.upd, pub_facts]
    · constructor <;> intros <;> (try dsimp only at *) <;> grind [upd, Pub, pushNodeC, elimd, isUnlC, passive, pushNodePc, ctxNode, retry, pub_facts]
    · (intros; (try dsimp only at *); grind [upd, postRet, opOf, postRetC, opOfC, opOfPc, postPc, elimRet, retOf, ctxOf, isPopPc, ctxPop, elimd, isUnlC, passive, pushNodePc, ctxNode, retry, pub_facts, lifo_push, lifo_pop_some, lifo_pop_none])
    · (intros; (try dsimp only at *); grind [upd, postRet, opOf, postRetC, opOfC, opOfPc, postPc, elimRet, retOf, ctxOf, isPopPc, ctxPop, elimd, isUnlC, passive, pushNodePc, ctxNode, retry, pub_facts, lifo_push, lifo_pop_some, lifo_pop_none])

set_option maxHeartbeats 4000000 in
theorem sinvl_step_popLd1 {s s' : St} {t : Tid} {ev : Ev} {l : List Nat} 
    (h : SInvL s l) (he : EInv s) (hpc : s.pc t = .popLd1 ) (hs : step s t = some (s', ev)) :
    ∃ l', SInvL s' l' ∧ StepEff s t s' l l' ∧ Shape s s' t l l' := by
  obtain ⟨hch, hnd, hpub, hfr, hown, hlk, hcx, hnx, hcl, htk, hpv⟩ := h
  obtain ⟨e1, e2, e3, e4, e5, e6, e7, e8⟩ := he
  simp only [step, hpc] at hs
  simp at hs; obtain ⟨rfl, -⟩ := hs
  refine ⟨l, ?_, ?_, .silent rfl ?_ ?_⟩
  · constructor <;> intros <;> (try dsimp only at *) <;> grind [upd, Pub, pushNodeC, elimd, isUnlC, passive, pushNodePc, ctxNode, retry, Chain, Chain.upd, pub_facts]
  · constructor <;> intros <;> (try dsimp only at *) <;> grind [upd, Pub, pushNodeC, elimd, isUnlC, passive, pushNodePc, ctxNode, retry, pub_facts]
  · (intros; (try dsimp only at *); grind [upd, postRet, opOf, postRetC, opOfC, opOfPc, postPc, elimRet, retOf, ctxOf, isPopPc, ctxPop, elimd, isUnlC, passive, pushNodePc, ctxNode, retry, pub_facts, lifo_push, lifo_pop_some, lifo_pop_none])
  · (intros; (try dsimp only at *); grind [upd, postRet, opOf, postRetC, opOfC, opOfPc, postPc, elimRet, retOf, ctxOf, isPopPc, ctxPop, elimd, isUnlC, passive, pushNodePc, ctxNode, retry, pub_facts, lifo_push, lifo_pop_some, lifo_pop_none])

set_option maxHeartbeats 4000000 in
theorem sinvl_step_popLd2 {s s' : St} {t : Tid} {ev : Ev} {l : List Nat} {p : Option Nat}
    (h : SInvL s l) (he : EInv s) (hpc : s.pc t = .popLd2 p) (hs : step s t = some (s', ev)) :
    ∃ l', SInvL s' l' ∧ StepEff s t s' l l' ∧ Shape s s' t l l' := by
  obtain ⟨hch, hnd, hpub, hfr, hown, hlk, hcx, hnx, hcl, htk, hpv⟩ := h
  obtain ⟨e1, e2, e3, e4, e5, e6, e7, e8⟩ := he
  simp only [step, hpc] at hs
  split at hs
  next heq =>
    split at hs
    next =>
      simp at hs; obtain ⟨rfl, -⟩ := hs
      have hl : l = [] := by cases l <;> simp_all [Chain]
      subst hl
      refine ⟨[], ?_, ?_, .single ⟨"pop", []⟩ [0] ?_ ?_ (by simp [lifo_pop_none]) ?_ ?_⟩
      · constructor <;> intros <;> (try dsimp only at *) <;> grind [upd, Pub, pushNodeC, elimd, isUnlC, passive, pushNodePc, ctxNode, retry, Chain, Chain.upd, pub_facts]
      · constructor <;> intros <;> (try dsimp only at *) <;> grind [upd, Pub, pushNodeC, elimd, isUnlC, passive, pushNodePc, ctxNode, retry, pub_facts]
      · (intros; (try dsimp only at *); grind [upd, postRet, opOf, postRetC, opOfC, opOfPc, postPc, elimRet, retOf, ctxOf, isPopPc, ctxPop, elimd, isUnlC, passive, pushNodePc, ctxNode, retry, pub_facts, lifo_push, lifo_pop_some, lifo_pop_none])
      · (intros; (try dsimp only at *); grind [upd, postRet, opOf, postRetC, opOfC, opOfPc, postPc, elimRet, retOf, ctxOf, isPopPc, ctxPop, elimd, isUnlC, passive, pushNodePc, ctxNode, retry, pub_facts, lifo_push, lifo_pop_some, lifo_pop_none])
      · (intros; (try dsimp only at *); grind [upd, postRet, opOf, postRetC, opOfC, opOfPc, postPc, elimRet, retOf, ctxOf, isPopPc, ctxPop, elimd, isUnlC, passive, pushNodePc, ctxNode, retry, pub_facts, lifo_push, lifo_pop_some, lifo_pop_none])
      · (intros; (try dsimp only at *); grind [upd, postRet, opOf, postRetC, opOfC, opOfPc, postPc, elimRet, retOf, ctxOf, isPopPc, ctxPop, elimd, isUnlC, passive, pushNodePc, ctxNode, retry, pub_facts, lifo_push, lifo_pop_some, lifo_pop_none])
    next a =>
      simp at hs; obtain ⟨rfl, -⟩ := hs
      have ha : a ∈ l := by cases l <;> simp_all [Chain]
      refine ⟨l, ?_, ?_, .silent rfl ?_ ?_⟩
      · constructor <;> intros <;> (try dsimp only at *) <;> grind [upd, Pub, pushNodeC, elimd, isUnlC, passive, pushNodePc, ctxNode, retry, Chain, Chain.upd, pub_facts]
      · constructor <;> intros <;> (try dsimp only at *) <;> grind [upd, Pub, pushNodeC, elimd, isUnlC, passive, pushNodePc, ctxNode, retry, pub_facts]
      · (intros; (try dsimp only at *); grind [upd, postRet, opOf, postRetC, opOfC, opOfPc, postPc, elimRet, retOf, ctxOf, isPopPc, ctxPop, elimd, isUnlC, passive, pushNodePc, ctxNode, retry, pub_facts, lifo_push, lifo_pop_some, lifo_pop_none])
      · (intros; (try dsimp only at *); grind [upd, postRet, opOf, postRetC, opOfC, opOfPc, postPc, elimRet, retOf, ctxOf, isPopPc, ctxPop, elimd, isUnlC, passive, pushNodePc, ctxNode, retry, pub_facts, lifo_push, lifo_pop_some, lifo_pop_none])
  next hne =>
    simp at hs; obtain ⟨rfl, -⟩ := hs
    refine ⟨l, ?_, ?_, .silent rfl ?_ ?_⟩
    · constructor <;> intros <;> (try dsimp only at *) <;> grind [upd, Pub, pushNodeC, elimd, isUnlC, passive, pushNodePc, ctxNode, retry, Chain, Chain.upd, pub_facts]
    · constructor <;> intros <;> (try dsimp only at *) <;> grind [upd, Pub, pushNodeC, elimd, isUnlC, passive, pushNodePc, ctxNode, retry, pub_facts]
    · (intros; (try dsimp only at *); grind [upd, postRet, opOf, postRetC, opOfC, opOfPc, postPc, elimRet, retOf, ctxOf, isPopPc, ctxPop, elimd, isUnlC, passive, pushNodePc, ctxNode, retry, pub_facts, lifo_push, lifo_pop_some, lifo_pop_none])
    · (intros; (try dsimp only at *); grind [upd, postRet, opOf, postRetC, opOfC, opOfPc, postPc, elimRet, retOf, ctxOf, isPopPc, ctxPop, elimd, isUnlC, passive, pushNodePc, ctxNode, retry, pub_facts, lifo_push, lifo_pop_some, lifo_pop_none])

set_option maxHeartbeats 4000000 in
theorem sinvl_step_popNext {s s' : St} {t : Tid} {ev : Ev} {l : List Nat} {a : Nat}
    (h : SInvL s l) (he : EInv s) (hpc : s.pc t = .popNext a) (hs : step s t = some (s', ev)) :
    ∃ l', SInvL s' l' ∧ StepEff s t s' l l' ∧ Shape s s' t l l' := by
  obtain ⟨hch, hnd, hpub, hfr, hown, hlk, hcx, hnx, hcl, htk, hpv⟩ := h
  obtain ⟨e1, e2, e3, e4, e5, e6, e7, e8⟩ := he
  simp only [step, hpc] at hs
  simp at hs; obtain ⟨rfl, -⟩ := hs
  refine ⟨l, ?_, ?_, .silent rfl ?_ ?_⟩
  · constructor <;> intros <;> (try dsimp only at *) <;> grind [upd, Pub, pushNodeC, elimd, isUnlC, passive, pushNodePc, ctxNode, retry, Chain, Chain.upd, pub_facts]
  · constructor <;> intros <;> (try dsimp only at *) <;> grind [upd, Pub, pushNodeC, elimd, isUnlC, passive, pushNodePc, ctxNode, retry, pub_facts]
  · (intros; (try dsimp only at *); grind [upd, postRet, opOf, postRetC, opOfC, opOfPc, postPc, elimRet, retOf, ctxOf, isPopPc, ctxPop, elimd, isUnlC, passive, pushNodePc, ctxNode, retry, pub_facts, lifo_push, lifo_pop_some, lifo_pop_none])
  · (intros; (try dsimp only at *); grind [upd, postRet, opOf, postRetC, opOfC, opOfPc, postPc, elimRet, retOf, ctxOf, isPopPc, ctxPop, elimd, isUnlC, passive, pushNodePc, ctxNode, retry, pub_facts, lifo_push, lifo_pop_some, lifo_pop_none])

set_option maxHeartbeats 4000000 in
theorem sinvl_step_popCas {s s' : St} {t : Tid} {ev : Ev} {l : List Nat} {a : Nat} {nx : Option Nat}
    (h : SInvL s l) (he : EInv s) (hpc : s.pc t = .popCas a nx) (hs : step s t = some (s', ev)) :
    ∃ l', SInvL s' l' ∧ StepEff s t s' l l' ∧ Shape s s' t l l' := by
  obtain ⟨hch, hnd, hpub, hfr, hown, hlk, hcx, hnx, hcl, htk, hpv⟩ := h
  obtain ⟨e1, e2, e3, e4, e5, e6, e7, e8⟩ := he
  simp only [step, hpc] at hs
  split at hs
  next heq =>
    simp at hs; obtain ⟨rfl, -⟩ := hs
    obtain ⟨hpa, hnxa⟩ := hcx t a nx hpc
    cases l with
    | nil => simp_all [Chain]
    | cons b l0 =>
      have hb : b = a := by simp_all [Chain]
      subst hb
      have hnx' := hnxa (by simp)
      have hlp : lifo.next ((b :: l0).map s.val) ⟨"pop", []⟩ [1, s.val b] = some (l0.map s.val) := by
        simp [lifo_pop_some]
      refine ⟨l0, ?_, ?_, .single ⟨"pop", []⟩ [1, s.val b] ?_ ?_ hlp ?_ ?_⟩
      · constructor <;> intros <;> (try dsimp only at *) <;> grind [upd, Pub, pushNodeC, elimd, isUnlC, passive, pushNodePc, ctxNode, retry, Chain, Chain.upd, pub_facts]
      · constructor <;> intros <;> (try dsimp only at *) <;> grind [upd, Pub, pushNodeC, elimd, isUnlC, passive, pushNodePc, ctxNode, retry, pub_facts]
      · (intros; (try dsimp only at *); grind [upd, postRet, opOf, postRetC, opOfC, opOfPc, postPc, elimRet, retOf, ctxOf, isPopPc, ctxPop, elimd, isUnlC, passive, pushNodePc, ctxNode, retry, pub_facts, lifo_push, lifo_pop_some, lifo_pop_none])
      · (intros; (try dsimp only at *); grind [upd, postRet, opOf, postRetC, opOfC, opOfPc, postPc, elimRet, retOf, ctxOf, isPopPc, ctxPop, elimd, isUnlC, passive, pushNodePc, ctxNode, retry, pub_facts, lifo_push, lifo_pop_some, lifo_pop_none])
      · (intros; (try dsimp only at *); grind [upd, postRet, opOf, postRetC, opOfC, opOfPc, postPc, elimRet, retOf, ctxOf, isPopPc, ctxPop, elimd, isUnlC, passive, pushNodePc, ctxNode, retry, pub_facts, lifo_push, lifo_pop_some, lifo_pop_none])
      · (intros; (try dsimp only at *); grind [upd, postRet, opOf, postRetC, opOfC, opOfPc, postPc, elimRet, retOf, ctxOf, isPopPc, ctxPop, elimd, isUnlC, passive, pushNodePc, ctxNode, retry, pub_facts, lifo_push, lifo_pop_some, lifo_pop_none])
  next hne =>
    simp at hs; obtain ⟨rfl, -⟩ := hs
    refine ⟨l, ?_, ?_, .silent rfl ?_ ?_⟩
    · constructor <;> intros <;> (try dsimp only at *) <;> grind [upd, Pub, pushNodeC, elimd, isUnlC, passive, pushNodePc, ctxNode, retry, Chain, Chain.upd, pub_facts]
    · constructor <;> intros <;> (try dsimp only at *) <;> grind [upd, Pub, pushNodeC, elimd, isUnlC, passive, pushNodePc, ctxNode, retry, pub_facts]
    · (intros; (try dsimp only at *); grind [upd, postRet, opOf, postRetC, opOfC, opOfPc, postPc, elimRet, retOf, ctxOf, isPopPc, ctxPop, elimd, isUnlC, passive, pushNodePc, ctxNode, retry, pub_facts, lifo_push, lifo_pop_some, lifo_pop_none])
    · (intros; (try dsimp only at *); grind [upd, postRet, opOf, postRetC, opOfC, opOfPc, postPc, elimRet, retOf, ctxOf, isPopPc, ctxPop, elimd, isUnlC, passive, pushNodePc, ctxNode, retry, pub_facts, lifo_push, lifo_pop_some, lifo_pop_none])

set_option maxHeartbeats 4000000 in
theorem sinvl_step_popClr {s s' : St} {t : Tid} {ev : Ev} {l : List Nat} {a : Nat} {r : GRet}
    (h : SInvL s l) (he : EInv s) (hpc : s.pc t = .popClr a r) (hs : step s t = some (s', ev)) :
    ∃ l', SInvL s' l' ∧ StepEff s t s' l l' ∧ Shape s s' t l l' := by
  obtain ⟨hch, hnd, hpub, hfr, hown, hlk, hcx, hnx, hcl, htk, hpv⟩ := h
  obtain ⟨e1, e2, e3, e4, e5, e6, e7, e8⟩ := he
  simp only [step, hpc] at hs
  simp at hs; obtain ⟨rfl, -⟩ := hs
  have hn : a ∉ l := (hcl t a r hpc).2
  have hch' := Chain.upd (v := none) hn hch
  refine ⟨l, ?_, ?_, .silent rfl ?_ ?_⟩
  · constructor <;> intros <;> (try dsimp only at *) <;> grind [upd, Pub, pushNodeC, elimd, isUnlC, passive, pushNodePc, ctxNode, retry, Chain, Chain.upd, pub_facts]
  · constructor <;> intros <;> (try dsimp only at *) <;> grind [upd, Pub, pushNodeC, elimd, isUnlC, passive, pushNodePc, ctxNode, retry, pub_facts]
  · (intros; (try dsimp only at *); grind [upd, postRet, opOf, postRetC, opOfC, opOfPc, postPc, elimRet, retOf, ctxOf, isPopPc, ctxPop, elimd, isUnlC, passive, pushNodePc, ctxNode, retry, pub_facts, lifo_push, lifo_pop_some, lifo_pop_none])
  · (intros; (try dsimp only at *); grind [upd, postRet, opOf, postRetC, opOfC, opOfPc, postPc, elimRet, retOf, ctxOf, isPopPc, ctxPop, elimd, isUnlC, passive, pushNodePc, ctxNode, retry, pub_facts, lifo_push, lifo_pop_some, lifo_pop_none])

set_option maxHeartbeats 4000000 in
theorem sinvl_step_bkSt {s s' : St} {t : Tid} {ev : Ev} {l : List Nat} {c : Ctx} {sl : Nat} {k : Nat}
    (h : SInvL s l) (he : EInv s) (hpc : s.pc t = .bkSt c sl k) (hs : step s t = some (s', ev)) :
    ∃ l', SInvL s' l' ∧ StepEff s t s' l l' ∧ Shape s s' t l l' := by
  obtain ⟨hch, hnd, hpub, hfr, hown, hlk, hcx, hnx, hcl, htk, hpv⟩ := h
  obtain ⟨e1, e2, e3, e4, e5, e6, e7, e8⟩ := he
  simp only [step, hpc] at hs
  simp at hs; obtain ⟨rfl, -⟩ := hs
  refine ⟨l, ?_, ?_, .silent rfl ?_ ?_⟩
  · constructor <;> intros <;> (try dsimp only at *) <;> grind [upd, Pub, pushNodeC, elimd, isUnlC, passive, pushNodePc, ctxNode, retry, Chain, Chain.upd, pub_facts]
  · constructor <;> intros <;> (try dsimp only at *) <;> grind [upd, Pub, pushNodeC, elimd, isUnlC, passive, pushNodePc, ctxNode, retry, pub_facts]
  · (intros; (try dsimp only at *); grind [upd, postRet, opOf, postRetC, opOfC, opOfPc, postPc, elimRet, retOf, ctxOf, isPopPc, ctxPop, elimd, isUnlC, passive, pushNodePc, ctxNode, retry, pub_facts, lifo_push, lifo_pop_some, lifo_pop_none])
  · (intros; (try dsimp only at *); grind [upd, postRet, opOf, postRetC, opOfC, opOfPc, postPc, elimRet, retOf, ctxOf, isPopPc, ctxPop, elimd, isUnlC, passive, pushNodePc, ctxNode, retry, pub_facts, lifo_push, lifo_pop_some, lifo_pop_none])

set_option maxHeartbeats 4000000 in
theorem sinvl_step_bkLock {s s' : St} {t : Tid} {ev : Ev} {l : List Nat} {c : Ctx} {sl : Nat} {k : Nat}
    (h : SInvL s l) (he : EInv s) (hpc : s.pc t = .bkLock c sl k) (hs : step s t = some (s', ev)) :
    ∃ l', SInvL s' l' ∧ StepEff s t s' l l' ∧ Shape s s' t l l' := by
  obtain ⟨hch, hnd, hpub, hfr, hown, hlk, hcx, hnx, hcl, htk, hpv⟩ := h
  obtain ⟨e1, e2, e3, e4, e5, e6, e7, e8⟩ := he
  simp only [step, hpc] at hs
  split at hs
  next hlk1 =>
    simp at hs; obtain ⟨rfl, -⟩ := hs
    refine ⟨l, ?_, ?_, .silent rfl ?_ ?_⟩
    · constructor <;> intros <;> (try dsimp only at *) <;> grind [upd, Pub, pushNodeC, elimd, isUnlC, passive, pushNodePc, ctxNode, retry, Chain, Chain.upd, pub_facts]
    · constructor <;> intros <;> (try dsimp only at *) <;> grind [upd, Pub, pushNodeC, elimd, isUnlC, passive, pushNodePc, ctxNode, retry, pub_facts]
    · (intros; (try dsimp only at *); grind [upd, postRet, opOf, postRetC, opOfC, opOfPc, postPc, elimRet, retOf, ctxOf, isPopPc, ctxPop, elimd, isUnlC, passive, pushNodePc, ctxNode, retry, pub_facts, lifo_push, lifo_pop_some, lifo_pop_none])
    · (intros; (try dsimp only at *); grind [upd, postRet, opOf, postRetC, opOfC, opOfPc, postPc, elimRet, retOf, ctxOf, isPopPc, ctxPop, elimd, isUnlC, passive, pushNodePc, ctxNode, retry, pub_facts, lifo_push, lifo_pop_some, lifo_pop_none])
  next hlk0 =>
    simp at hs; obtain ⟨rfl, -⟩ := hs
    refine ⟨l, ?_, ?_, .silent rfl ?_ ?_⟩
    · constructor <;> intros <;> (try dsimp only at *) <;> grind [upd, Pub, pushNodeC, elimd, isUnlC, passive, pushNodePc, ctxNode, retry, Chain, Chain.upd, pub_facts]
    · constructor <;> intros <;> (try dsimp only at *) <;> grind [upd, Pub, pushNodeC, elimd, isUnlC, passive, pushNodePc, ctxNode, retry, pub_facts]
    · (intros; (try dsimp only at *); grind [upd, postRet, opOf, postRetC, opOfC, opOfPc, postPc, elimRet, retOf, ctxOf, isPopPc, ctxPop, elimd, isUnlC, passive, pushNodePc, ctxNode, retry, pub_facts, lifo_push, lifo_pop_some, lifo_pop_none])
    · (intros; (try dsimp only at *); grind [upd, postRet, opOf, postRetC, opOfC, opOfPc, postPc, elimRet, retOf, ctxOf, isPopPc, ctxPop, elimd, isUnlC, passive, pushNodePc, ctxNode, retry, pub_facts, lifo_push, lifo_pop_some, lifo_pop_none])

set_option maxHeartbeats 4000000 in
theorem sinvl_step_bkSpin {s s' : St} {t : Tid} {ev : Ev} {l : List Nat} {c : Ctx} {sl : Nat} {k : Nat}
    (h : SInvL s l) (he : EInv s) (hpc : s.pc t = .bkSpin c sl k) (hs : step s t = some (s', ev)) :
    ∃ l', SInvL s' l' ∧ StepEff s t s' l l' ∧ Shape s s' t l l' := by
  obtain ⟨hch, hnd, hpub, hfr, hown, hlk, hcx, hnx, hcl, htk, hpv⟩ := h
  obtain ⟨e1, e2, e3, e4, e5, e6, e7, e8⟩ := he
  simp only [step, hpc] at hs
  split at hs
  next hlk1 =>
    simp at hs; obtain ⟨rfl, -⟩ := hs
    refine ⟨l, ?_, ?_, .silent rfl (fun _ => rfl) (fun _ => rfl)⟩
    · constructor <;> intros <;> (try dsimp only at *) <;> grind [upd, Pub, pushNodeC, elimd, isUnlC, passive, pushNodePc, ctxNode, retry, Chain, Chain.upd, pub_facts]
    · constructor <;> intros <;> (try dsimp only at *) <;> grind [upd, Pub, pushNodeC, elimd, isUnlC, passive, pushNodePc, ctxNode, retry, pub_facts]
  next hlk0 =>
    simp at hs; obtain ⟨rfl, -⟩ := hs
    refine ⟨l, ?_, ?_, .silent rfl ?_ ?_⟩
    · constructor <;> intros <;> (try dsimp only at *) <;> grind [upd, Pub, pushNodeC, elimd, isUnlC, passive, pushNodePc, ctxNode, retry, Chain, Chain.upd, pub_facts]
    · constructor <;> intros <;> (try dsimp only at *) <;> grind [upd, Pub, pushNodeC, elimd, isUnlC, passive, pushNodePc, ctxNode, retry, pub_facts]
    · (intros; (try dsimp only at *); grind [upd, postRet, opOf, postRetC, opOfC, opOfPc, postPc, elimRet, retOf, ctxOf, isPopPc, ctxPop, elimd, isUnlC, passive, pushNodePc, ctxNode, retry, pub_facts, lifo_push, lifo_pop_some, lifo_pop_none])
    · (intros; (try dsimp only at *); grind [upd, postRet, opOf, postRetC, opOfC, opOfPc, postPc, elimRet, retOf, ctxOf, isPopPc, ctxPop, elimd, isUnlC, passive, pushNodePc, ctxNode, retry, pub_facts, lifo_push, lifo_pop_some, lifo_pop_none])

set_option maxHeartbeats 4000000 in
theorem sinvl_step_bkLock2 {s s' : St} {t : Tid} {ev : Ev} {l : List Nat} {c : Ctx} {sl : Nat}
    (h : SInvL s l) (he : EInv s) (hpc : s.pc t = .bkLock2 c sl) (hs : step s t = some (s', ev)) :
    ∃ l', SInvL s' l' ∧ StepEff s t s' l l' ∧ Shape s s' t l l' := by
  obtain ⟨hch, hnd, hpub, hfr, hown, hlk, hcx, hnx, hcl, htk, hpv⟩ := h
  obtain ⟨e1, e2, e3, e4, e5, e6, e7, e8⟩ := he
  simp only [step, hpc] at hs
  split at hs
  next hlk1 =>
    simp at hs; obtain ⟨rfl, -⟩ := hs
    refine ⟨l, ?_, ?_, .silent rfl ?_ ?_⟩
    · constructor <;> intros <;> (try dsimp only at *) <;> grind [upd, Pub, pushNodeC, elimd, isUnlC, passive, pushNodePc, ctxNode, retry, Chain, Chain.upd, pub_facts]
    · constructor <;> intros <;> (try dsimp only at *) <;> grind [upd, Pub, pushNodeC, elimd, isUnlC, passive, pushNodePc, ctxNode, retry, pub_facts]
    · (intros; (try dsimp only at *); grind [upd, postRet, opOf, postRetC, opOfC, opOfPc, postPc, elimRet, retOf, ctxOf, isPopPc, ctxPop, elimd, isUnlC, passive, pushNodePc, ctxNode, retry, pub_facts, lifo_push, lifo_pop_some, lifo_pop_none])
    · (intros; (try dsimp only at *); grind [upd, postRet, opOf, postRetC, opOfC, opOfPc, postPc, elimRet, retOf, ctxOf, isPopPc, ctxPop, elimd, isUnlC, passive, pushNodePc, ctxNode, retry, pub_facts, lifo_push, lifo_pop_some, lifo_pop_none])
  next hlk0 =>
    simp at hs; obtain ⟨rfl, -⟩ := hs
    refine ⟨l, ?_, ?_, .silent rfl ?_ ?_⟩
    · constructor <;> intros <;> (try dsimp only at *) <;> grind [upd, Pub, pushNodeC, elimd, isUnlC, passive, pushNodePc, ctxNode, retry, Chain, Chain.upd, pub_facts]
    · constructor <;> intros <;> (try dsimp only at *) <;> grind [upd, Pub, pushNodeC, elimd, isUnlC, passive, pushNodePc, ctxNode, retry, pub_facts]
    · (intros; (try dsimp only at *); grind [upd, postRet, opOf, postRetC, opOfC, opOfPc, postPc, elimRet, retOf, ctxOf, isPopPc, ctxPop, elimd, isUnlC, passive, pushNodePc, ctxNode, retry, pub_facts, lifo_push, lifo_pop_some, lifo_pop_none])
    · (intros; (try dsimp only at *); grind [upd, postRet, opOf, postRetC, opOfC, opOfPc, postPc, elimRet, retOf, ctxOf, isPopPc, ctxPop, elimd, isUnlC, passive, pushNodePc, ctxNode, retry, pub_facts, lifo_push, lifo_pop_some, lifo_pop_none])

set_option maxHeartbeats 4000000 in
theorem sinvl_step_bkSpin2 {s s' : St} {t : Tid} {ev : Ev} {l : List Nat} {c : Ctx} {sl : Nat}
    (h : SInvL s l) (he : EInv s) (hpc : s.pc t = .bkSpin2 c sl) (hs : step s t = some (s', ev)) :
    ∃ l', SInvL s' l' ∧ StepEff s t s' l l' ∧ Shape s s' t l l' := by
  obtain ⟨hch, hnd, hpub, hfr, hown, hlk, hcx, hnx, hcl, htk, hpv⟩ := h
  obtain ⟨e1, e2, e3, e4, e5, e6, e7, e8⟩ := he
  simp only [step, hpc] at hs
  split at hs
  next hlk1 =>
    simp at hs; obtain ⟨rfl, -⟩ := hs
    refine ⟨l, ?_, ?_, .silent rfl (fun _ => rfl) (fun _ => rfl)⟩
    · constructor <;> intros <;> (try dsimp only at *) <;> grind [upd, Pub, pushNodeC, elimd, isUnlC, passive, pushNodePc, ctxNode, retry, Chain, Chain.upd, pub_facts]
    · constructor <;> intros <;> (try dsimp only at *) <;> grind [upd, Pub, pushNodeC, elimd, isUnlC, passive, pushNodePc, ctxNode, retry, pub_facts]
  next hlk0 =>
    simp at hs; obtain ⟨rfl, -⟩ := hs
    refine ⟨l, ?_, ?_, .silent rfl ?_ ?_⟩
    · constructor <;> intros <;> (try dsimp only at *) <;> grind [upd, Pub, pushNodeC, elimd, isUnlC, passive, pushNodePc, ctxNode, retry, Chain, Chain.upd, pub_facts]
    · constructor <;> intros <;> (try dsimp only at *) <;> grind [upd, Pub, pushNodeC, elimd, isUnlC, passive, pushNodePc, ctxNode, retry, pub_facts]
    · (intros; (try dsimp only at *); grind [upd, postRet, opOf, postRetC, opOfC, opOfPc, postPc, elimRet, retOf, ctxOf, isPopPc, ctxPop, elimd, isUnlC, passive, pushNodePc, ctxNode, retry, pub_facts, lifo_push, lifo_pop_some, lifo_pop_none])
    · (intros; (try dsimp only at *); grind [upd, postRet, opOf, postRetC, opOfC, opOfPc, postPc, elimRet, retOf, ctxOf, isPopPc, ctxPop, elimd, isUnlC, passive, pushNodePc, ctxNode, retry, pub_facts, lifo_push, lifo_pop_some, lifo_pop_none])

set_option maxHeartbeats 4000000 in
theorem sinvl_step_bkUnlC {s s' : St} {t : Tid} {ev : Ev} {l : List Nat} {c : Ctx} {sl : Nat}
    (h : SInvL s l) (he : EInv s) (hpc : s.pc t = .bkUnlC c sl) (hs : step s t = some (s', ev)) :
    ∃ l', SInvL s' l' ∧ StepEff s t s' l l' ∧ Shape s s' t l l' := by
  obtain ⟨hch, hnd, hpub, hfr, hown, hlk, hcx, hnx, hcl, htk, hpv⟩ := h
  obtain ⟨e1, e2, e3, e4, e5, e6, e7, e8⟩ := he
  simp only [step, hpc] at hs
  simp at hs; obtain ⟨rfl, -⟩ := hs
  refine ⟨l, ?_, ?_, .silent rfl ?_ ?_⟩
  · constructor <;> intros <;> (try dsimp only at *) <;> grind [upd, Pub, pushNodeC, elimd, isUnlC, passive, pushNodePc, ctxNode, retry, Chain, Chain.upd, pub_facts]
  · constructor <;> intros <;> (try dsimp only at *) <;> grind [upd, Pub, pushNodeC, elimd, isUnlC, passive, pushNodePc, ctxNode, retry, pub_facts]
  · (intros; (try dsimp only at *); grind [upd, postRet, opOf, postRetC, opOfC, opOfPc, postPc, elimRet, retOf, ctxOf, isPopPc, ctxPop, elimd, isUnlC, passive, pushNodePc, ctxNode, retry, pub_facts, lifo_push, lifo_pop_some, lifo_pop_none])
  · (intros; (try dsimp only at *); grind [upd, postRet, opOf, postRetC, opOfC, opOfPc, postPc, elimRet, retOf, ctxOf, isPopPc, ctxPop, elimd, isUnlC, passive, pushNodePc, ctxNode, retry, pub_facts, lifo_push, lifo_pop_some, lifo_pop_none])

set_option maxHeartbeats 4000000 in
theorem sinvl_step_bkWait {s s' : St} {t : Tid} {ev : Ev} {l : List Nat} {c : Ctx} {sl : Nat} {k : Nat}
    (h : SInvL s l) (he : EInv s) (hpc : s.pc t = .bkWait c sl k) (hs : step s t = some (s', ev)) :
    ∃ l', SInvL s' l' ∧ StepEff s t s' l l' ∧ Shape s s' t l l' := by
  obtain ⟨hch, hnd, hpub, hfr, hown, hlk, hcx, hnx, hcl, htk, hpv⟩ := h
  obtain ⟨e1, e2, e3, e4, e5, e6, e7, e8⟩ := he
  simp only [step, hpc] at hs
  split at hs
  next hst =>
    simp at hs; obtain ⟨rfl, -⟩ := hs
    refine ⟨l, ?_, ?_, .silent rfl ?_ ?_⟩
    · constructor <;> intros <;> (try dsimp only at *) <;> grind [upd, Pub, pushNodeC, elimd, isUnlC, passive, pushNodePc, ctxNode, retry, Chain, Chain.upd, pub_facts]
    · constructor <;> intros <;> (try dsimp only at *) <;> grind [upd, Pub, pushNodeC, elimd, isUnlC, passive, pushNodePc, ctxNode, retry, pub_facts]
    · (intros; (try dsimp only at *); grind [upd, postRet, opOf, postRetC, opOfC, opOfPc, postPc, elimRet, retOf, ctxOf, isPopPc, ctxPop, elimd, isUnlC, passive, pushNodePc, ctxNode, retry, pub_facts, lifo_push, lifo_pop_some, lifo_pop_none])
    · (intros; (try dsimp only at *); grind [upd, postRet, opOf, postRetC, opOfC, opOfPc, postPc, elimRet, retOf, ctxOf, isPopPc, ctxPop, elimd, isUnlC, passive, pushNodePc, ctxNode, retry, pub_facts, lifo_push, lifo_pop_some, lifo_pop_none])
  next hst =>
    split at hs
    next =>
      simp at hs; obtain ⟨rfl, -⟩ := hs
      refine ⟨l, ?_, ?_, .silent rfl ?_ ?_⟩
      · constructor <;> intros <;> (try dsimp only at *) <;> grind [upd, Pub, pushNodeC, elimd, isUnlC, passive, pushNodePc, ctxNode, retry, Chain, Chain.upd, pub_facts]
      · constructor <;> intros <;> (try dsimp only at *) <;> grind [upd, Pub, pushNodeC, elimd, isUnlC, passive, pushNodePc, ctxNode, retry, pub_facts]
      · (intros; (try dsimp only at *); grind [upd, postRet, opOf, postRetC, opOfC, opOfPc, postPc, elimRet, retOf, ctxOf, isPopPc, ctxPop, elimd, isUnlC, passive, pushNodePc, ctxNode, retry, pub_facts, lifo_push, lifo_pop_some, lifo_pop_none])
      · (intros; (try dsimp only at *); grind [upd, postRet, opOf, postRetC, opOfC, opOfPc, postPc, elimRet, retOf, ctxOf, isPopPc, ctxPop, elimd, isUnlC, passive, pushNodePc, ctxNode, retry, pub_facts, lifo_push, lifo_pop_some, lifo_pop_none])
    next k' =>
      simp at hs; obtain ⟨rfl, -⟩ := hs
      refine ⟨l, ?_, ?_, .silent rfl ?_ ?_⟩
      · constructor <;> intros <;> (try dsimp only at *) <;> grind [upd, Pub, pushNodeC, elimd, isUnlC, passive, pushNodePc, ctxNode, retry, Chain, Chain.upd, pub_facts]
      · constructor <;> intros <;> (try dsimp only at *) <;> grind [upd, Pub, pushNodeC, elimd, isUnlC, passive, pushNodePc, ctxNode, retry, pub_facts]
      · (intros; (try dsimp only at *); grind [upd, postRet, opOf, postRetC, opOfC, opOfPc, postPc, elimRet, retOf, ctxOf, isPopPc, ctxPop, elimd, isUnlC, passive, pushNodePc, ctxNode, retry, pub_facts, lifo_push, lifo_pop_some, lifo_pop_none])
      · (intros; (try dsimp only at *); grind [upd, postRet, opOf, postRetC, opOfC, opOfPc, postPc, elimRet, retOf, ctxOf, isPopPc, ctxPop, elimd, isUnlC, passive, pushNodePc, ctxNode, retry, pub_facts, lifo_push, lifo_pop_some, lifo_pop_none])

set_option maxHeartbeats 4000000 in
theorem sinvl_step_bkIn2 {s s' : St} {t : Tid} {ev : Ev} {l : List Nat} {c : Ctx} {sl : Nat}
    (h : SInvL s l) (he : EInv s) (hpc : s.pc t = .bkIn2 c sl) (hs : step s t = some (s', ev)) :
    ∃ l', SInvL s' l' ∧ StepEff s t s' l l' ∧ Shape s s' t l l' := by
  obtain ⟨hch, hnd, hpub, hfr, hown, hlk, hcx, hnx, hcl, htk, hpv⟩ := h
  obtain ⟨e1, e2, e3, e4, e5, e6, e7, e8⟩ := he
  simp only [step, hpc] at hs
  simp at hs; obtain ⟨rfl, -⟩ := hs
  refine ⟨l, ?_, ?_, .silent rfl ?_ ?_⟩
  · constructor <;> intros <;> (try dsimp only at *) <;> grind [upd, Pub, pushNodeC, elimd, isUnlC, passive, pushNodePc, ctxNode, retry, Chain, Chain.upd, pub_facts]
  · constructor <;> intros <;> (try dsimp only at *) <;> grind [upd, Pub, pushNodeC, elimd, isUnlC, passive, pushNodePc, ctxNode, retry, pub_facts]
  · (intros; (try dsimp only at *); grind [upd, postRet, opOf, postRetC, opOfC, opOfPc, postPc, elimRet, retOf, ctxOf, isPopPc, ctxPop, elimd, isUnlC, passive, pushNodePc, ctxNode, retry, pub_facts, lifo_push, lifo_pop_some, lifo_pop_none])
  · (intros; (try dsimp only at *); grind [upd, postRet, opOf, postRetC, opOfC, opOfPc, postPc, elimRet, retOf, ctxOf, isPopPc, ctxPop, elimd, isUnlC, passive, pushNodePc, ctxNode, retry, pub_facts, lifo_push, lifo_pop_some, lifo_pop_none])

set_option maxHeartbeats 4000000 in
theorem sinvl_step_bkChk {s s' : St} {t : Tid} {ev : Ev} {l : List Nat} {c : Ctx}
    (h : SInvL s l) (he : EInv s) (hpc : s.pc t = .bkChk c) (hs : step s t = some (s', ev)) :
    ∃ l', SInvL s' l' ∧ StepEff s t s' l l' ∧ Shape s s' t l l' := by
  obtain ⟨hch, hnd, hpub, hfr, hown, hlk, hcx, hnx, hcl, htk, hpv⟩ := h
  obtain ⟨e1, e2, e3, e4, e5, e6, e7, e8⟩ := he
  simp only [step, hpc] at hs
  cases c
  all_goals split at hs
  all_goals simp at hs
  all_goals obtain ⟨rfl, -⟩ := hs
  all_goals refine ⟨l, ?_, ?_, .silent rfl ?_ ?_⟩
  all_goals first
    | (constructor <;> intros <;> (try dsimp only at *) <;> grind [upd, Pub, pushNodeC, elimd, isUnlC, passive, pushNodePc, ctxNode, retry, Chain, Chain.upd, pub_facts]; done)
    | ((intros; (try dsimp only at *); grind [upd, postRet, opOf, postRetC, opOfC, opOfPc, postPc, elimRet, retOf, ctxOf, isPopPc, ctxPop, elimd, isUnlC, passive, pushNodePc, ctxNode, retry, pub_facts, lifo_push, lifo_pop_some, lifo_pop_none]))

end CdsVerif.Algo.Elim

/-
  C06 — the Michael–Scott queue (cds::intrusive::MSQueue, enqueue / dequeue) is a linearizable FIFO queue:
  every concurrent history of the atomic-step model `Algo/MSQueue/Model.lean` is linearizable to `Spec.fifo`;
  `dequeue` reports "empty" only if the queue was empty at some instant during the call.
  Property theorems only; the model, the invariants and the proof live in `Algo/MSQueue/{Model,Inv,Lin}.lean`.

  Route completed: FULL linearizability, including the empty dequeue with its hindsight linearization point (the
  validating null load of `h->m_pNext`, confirmed later by `m_pHead.load() == h`), by a ghost log with tentative
  entries that are withdrawn when the re-validation fails.  The fallback pair was not needed.

  Assumption of the model (not proved here): a node is not reused while any thread may still hold a pointer to it
  (garbage-collected heap).  This is what the hazard pointers taken by `guard.protect` provide.
-/
import CdsVerif.Algo.MSQueue.Lin
namespace CdsVerif.Props.C06MSQueue
open CdsVerif.Machine CdsVerif.Lin CdsVerif.Spec CdsVerif.Algo

/-- Linearizability, general form (Herlihy–Wing with completion of pending operations).  For EVERY schedule
    (any number of threads, any client program of `enq v` / `deq`, any interleaving of the atomic steps), the
    history of the completed operations of the run — extended by response records for pending operations that
    have already passed their linearization point definitively (at most one per thread; each is an operation
    pending in `os`, completed with the result fixed at its linearization point and the response time "end of
    run"), all other pending operations being dropped — is linearizable to the sequential FIFO queue.

    The literal statement "`historyOf os` is linearizable" is FALSE for runs that stop between the successful CAS
    of an `enq` and its return while another thread has already dequeued the value (see the `example`s below):
    such an `enq` has to be completed, which is what `extra` does. -/
theorem C06_msqueue_linearizable (sched : List (Tid × Act)) (s : MSQueue.St) (os : List (Tid × Obs))
    (h : MSQueue.model.run MSQueue.init sched = some (s, os)) :
    ∃ extra : List (OpRec GOp GRet),
      (∀ e ∈ extra, MSQueue.pendingOf os e.tid = some (e.op, e.inv) ∧ e.res = os.length ∧
          MSQueue.postRet (s.pc e.tid) = some e.ret) ∧
      extra.Pairwise (fun a b => a.tid ≠ b.tid) ∧
      Linearizable fifo (MSQueue.historyOf os ++ extra) :=
  MSQueue.msqueue_linearizable sched s os h

/-- Runs in which every invoked operation has returned: the history is linearizable as it is. -/
theorem C06_msqueue_linearizable_complete_runs (sched : List (Tid × Act)) (s : MSQueue.St) (os : List (Tid × Obs))
    (h : MSQueue.model.run MSQueue.init sched = some (s, os)) (hq : ∀ t, s.pc t = .idle) :
    Linearizable fifo (MSQueue.historyOf os) :=
  MSQueue.msqueue_linearizable_complete_runs sched s os h hq

/-- More generally: runs at whose end no thread is between its definitive linearization point and its return
    (threads may be in the middle of operations that have not taken effect; these are dropped). -/
theorem C06_msqueue_linearizable_no_effect_pending (sched : List (Tid × Act)) (s : MSQueue.St)
    (os : List (Tid × Obs)) (h : MSQueue.model.run MSQueue.init sched = some (s, os))
    (hq : ∀ t, MSQueue.postRet (s.pc t) = none) :
    Linearizable fifo (MSQueue.historyOf os) :=
  MSQueue.msqueue_linearizable_no_effect_pending sched s os h hq

/-- `historyOf` is faithful: a record's `inv` / `res` are the positions of its call and return observations. -/
theorem C06_msqueue_history_sound (os : List (Tid × Obs)) (r : OpRec GOp GRet) (h : r ∈ MSQueue.historyOf os) :
    os[r.inv]? = some (r.tid, .call r.op) ∧ os[r.res]? = some (r.tid, .ret r.ret) ∧ r.inv < r.res :=
  MSQueue.historyOf_sound os r h

/-- No invention: every value returned by a `deq` is the argument of an `enq` that was invoked before the `deq`
    returned. -/
theorem C06_msqueue_no_invention (sched : List (Tid × Act)) (s : MSQueue.St) (os : List (Tid × Obs))
    (h : MSQueue.model.run MSQueue.init sched = some (s, os)) (r : OpRec GOp GRet)
    (hr : r ∈ MSQueue.historyOf os) (hop : r.op = ⟨"deq", []⟩) (v : Int) (hret : r.ret = [1, v]) :
    ∃ i t', i < r.res ∧ os[i]? = some (t', .call ⟨"enq", [v]⟩) :=
  MSQueue.msqueue_no_invention sched s os h r hr hop v hret

/-- No duplication.  With `extra` as in `C06_msqueue_linearizable` (genuine pending operations of the run, at most
    one per thread), for every value `v` the completed dequeues that returned `v` are at most as many as the
    `enq v` operations of the run (the completed ones plus the pending ones in `extra`):
    a value enqueued once is dequeued at most once, a value enqueued `n` times at most `n` times. -/
theorem C06_msqueue_no_duplication (sched : List (Tid × Act)) (s : MSQueue.St) (os : List (Tid × Obs))
    (h : MSQueue.model.run MSQueue.init sched = some (s, os)) :
    ∃ extra : List (OpRec GOp GRet),
      (∀ e ∈ extra, MSQueue.pendingOf os e.tid = some (e.op, e.inv) ∧ e.res = os.length ∧
          MSQueue.postRet (s.pc e.tid) = some e.ret) ∧
      extra.Pairwise (fun a b => a.tid ≠ b.tid) ∧
      ∀ v, (MSQueue.historyOf os).countP (MSQueue.isDeqOf v) ≤
           (MSQueue.historyOf os ++ extra).countP (MSQueue.isEnq v) :=
  MSQueue.msqueue_no_duplication sched s os h

/-- The sequential core of no-duplication, for any history linearizable to the FIFO queue. -/
theorem C06_fifo_linearizable_no_duplication (ops : List (OpRec GOp GRet)) (h : Linearizable fifo ops) (v : Int) :
    ops.countP (MSQueue.isDeqOf v) ≤ ops.countP (MSQueue.isEnq v) :=
  MSQueue.linearizable_no_dup h v

/-- `deq` answers "empty" only if the queue was empty at some instant during the call.  For EVERY run: if a
    completed `deq` returned `[0]`, there is an instant `j` strictly between its call (observation `r.inv`) and its
    return (observation `r.res`) such that in the state `s1` reached by the first `j` actions of the run the
    abstract queue is empty; more precisely (`EmptyAt`) the calling thread is about to perform the validating load
    of `h->m_pNext` that reads null, `h` is `m_pHead` and the chain from `head` consists of `h` alone. -/
theorem C06_msqueue_empty_means_empty (sched : List (Tid × Act)) (s : MSQueue.St) (os : List (Tid × Obs))
    (h : MSQueue.model.run MSQueue.init sched = some (s, os)) (r : OpRec GOp GRet)
    (hr : r ∈ MSQueue.historyOf os) (hret : r.ret = [0]) :
    ∃ j s1, r.inv < j ∧ j < r.res ∧ MSQueue.model.run MSQueue.init (sched.take j) = some (s1, os.take j) ∧
      MSQueue.EmptyAt s1 r.tid ∧ MSQueue.absQueue s1 = [] :=
  MSQueue.msqueue_empty_hindsight sched s os h r hr hret

/-- The same, step by step.
    (1) In a reachable state, the step at which a thread linearizes (tentatively) with result `[0]` is the
        validating load of `h->m_pNext` inside `guards.protect( 1, h->m_pNext )` reading null; at that instant `h`
        is `m_pHead`, the chain from `head` consists of `h` alone and the abstract queue is empty.
    (2) The result `[0]` becomes definitive only at the re-validation `m_pHead.load() == h` of a thread whose
        tentative linearization (1) is still standing; at THAT instant the queue need not be empty any more (see
        the `hindsight` example) — which is why the linearization point is the earlier load.
    `C06_msqueue_linearizable` places the empty dequeue at instant (1) in the linearization order. -/
theorem C06_msqueue_empty_lp_steps (s s' : MSQueue.St) (t : Tid) (ev : Ev)
    (hreach : MSQueue.model.Reachable MSQueue.init s) (hs : MSQueue.step s t = some (s', ev)) :
    (MSQueue.lpRet (s.pc t) = none → MSQueue.lpRet (s'.pc t) = some [0] →
      ∃ a, s.pc t = .deqNx2 a none ∧ s'.pc t = .deqChk a none ∧ s.head = a ∧ s.next a = none ∧
        MSQueue.absNodes s = [a] ∧ MSQueue.absQueue s = [] ∧ MSQueue.absQueue s' = [] ∧
        ev = ⟨"ld", MSQueue.nloc a, "null", ""⟩) ∧
    (MSQueue.postRet (s.pc t) = none → MSQueue.postRet (s'.pc t) = some [0] →
      ∃ a, s.pc t = .deqChk a none ∧ s.head = a ∧ MSQueue.lpRet (s.pc t) = some [0] ∧
        ev = MSQueue.evLd MSQueue.headLoc (some a)) :=
  ⟨MSQueue.msqueue_deq_empty_means_empty s s' t ev hreach hs, MSQueue.msqueue_deq_empty_decided s s' t ev hs⟩

/-- "Tail lags by at most one": in every reachable state `m_pTail` is the last or the second-to-last node of the
    chain from `m_pHead`. -/
theorem C06_msqueue_tail_lag (s : MSQueue.St) (hreach : MSQueue.model.Reachable MSQueue.init s) :
    ∃ l0, MSQueue.absNodes s = l0 ++ [s.tail] ∨ ∃ x, MSQueue.absNodes s = l0 ++ [s.tail, x] :=
  MSQueue.reachable_tail_lag s hreach

/-- Refinement: in a reachable state, the step at which thread `t` fixes its result `r` — tentatively for the
    empty dequeue — (successful CAS on `t->m_pNext` of `enq`, successful CAS on `m_pHead` of `deq`, validating
    null load of `h->m_pNext` of `deq`) is exactly the `fifo` transition of `t`'s operation with result `r` on the
    abstract queue; every other step leaves the abstract queue unchanged. -/
theorem C06_msqueue_lp_refines (s s' : MSQueue.St) (t : Tid) (ev : Ev)
    (hreach : MSQueue.model.Reachable MSQueue.init s) (hs : MSQueue.step s t = some (s', ev)) :
    (MSQueue.lpRet (s.pc t) = none → ∀ r, MSQueue.lpRet (s'.pc t) = some r →
      ∃ op, MSQueue.opOf s.val (s.pc t) = some op ∧
        fifo.next (MSQueue.absQueue s) op r = some (MSQueue.absQueue s')) ∧
    ((MSQueue.lpRet (s.pc t) ≠ none ∨ MSQueue.lpRet (s'.pc t) = none) →
      MSQueue.absQueue s' = MSQueue.absQueue s) :=
  MSQueue.step_refines (MSQueue.sinv_reachable s hreach) hs

/-- Structure of the reachable states: the chain from `head` starts with `head`, is finite, duplicate-free, ends in
    a node with a null link and is made of published nodes; a node that has left the chain (a dequeued dummy) is
    never linked in again, in particular `head` never returns to it. -/
theorem C06_msqueue_chain (s : MSQueue.St) (hreach : MSQueue.model.Reachable MSQueue.init s) :
    MSQueue.Chain s.next (some s.head) (MSQueue.absNodes s) ∧ (MSQueue.absNodes s).Nodup ∧
      (∀ a ∈ MSQueue.absNodes s, MSQueue.Pub s a) ∧ (∃ r, MSQueue.absNodes s = s.head :: r) :=
  MSQueue.reachable_chain s hreach

theorem C06_msqueue_never_relinked (s s' : MSQueue.St) (t : Tid) (a : Act) (o : Obs)
    (hreach : MSQueue.model.Reachable MSQueue.init s) (hap : MSQueue.model.apply s t a = some (s', o))
    (x : Nat) (hx : MSQueue.Pub s x) (hout : x ∉ MSQueue.absNodes s) :
    MSQueue.Pub s' x ∧ x ∉ MSQueue.absNodes s' :=
  MSQueue.never_relinked (MSQueue.sinv_reachable s hreach) hap x hx hout

/-! ### Non-vacuity -/

def steps (t : Tid) (n : Nat) : List (Tid × Act) := List.replicate n (t, .step)

/-- An enqueuer helps advance the tail.  Thread 0 links its node `n1` behind the dummy `n0` and is then delayed
    before swinging the tail; thread 1 finds `n0.next ≠ null`, helps (`cas+ tail n0 n1`), restarts and enqueues
    `n2`; thread 0's own swing then fails (`cas- tail n2 n0`).  Rendered as harness trace lines in the comments. -/
def helpSched : List (Tid × Act) :=
  [(0, .invoke ⟨"enq", [7]⟩)] ++ steps 0 4 ++ [(1, .invoke ⟨"enq", [8]⟩)] ++ steps 1 9 ++ [(1, .ret)] ++
  steps 0 1 ++ [(0, .ret), (0, .invoke ⟨"deq", []⟩)] ++ steps 0 7 ++ [(0, .ret)]

def helpObs : List (Tid × Obs) :=
  [(0, .call ⟨"enq", [7]⟩),                -- T 0 C enq [7]
   (0, .ev ⟨"ld", "tail", "n0", ""⟩),      -- T 0 A ld tail n0             (protect: first load)
   (0, .ev ⟨"ld", "tail", "n0", ""⟩),      -- T 0 A ld tail n0             (protect: validating load)
   (0, .ev ⟨"ld", "n0", "null", ""⟩),      -- T 0 A ld n0 null
   (0, .ev ⟨"cas+", "n0", "null", "n1"⟩),  -- T 0 A cas+ n0 null n1        (linearization point of enq 7)
   (1, .call ⟨"enq", [8]⟩),                -- T 1 C enq [8]
   (1, .ev ⟨"ld", "tail", "n0", ""⟩),      -- T 1 A ld tail n0
   (1, .ev ⟨"ld", "tail", "n0", ""⟩),      -- T 1 A ld tail n0
   (1, .ev ⟨"ld", "n0", "n1", ""⟩),        -- T 1 A ld n0 n1               (tail is lagging)
   (1, .ev ⟨"cas+", "tail", "n0", "n1"⟩),  -- T 1 A cas+ tail n0 n1        (help)
   (1, .ev ⟨"ld", "tail", "n1", ""⟩),      -- T 1 A ld tail n1
   (1, .ev ⟨"ld", "tail", "n1", ""⟩),      -- T 1 A ld tail n1
   (1, .ev ⟨"ld", "n1", "null", ""⟩),      -- T 1 A ld n1 null
   (1, .ev ⟨"cas+", "n1", "null", "n2"⟩),  -- T 1 A cas+ n1 null n2        (linearization point of enq 8)
   (1, .ev ⟨"cas+", "tail", "n1", "n2"⟩),  -- T 1 A cas+ tail n1 n2
   (1, .ret [1]),                          -- T 1 R [1]
   (0, .ev ⟨"cas-", "tail", "n2", "n0"⟩),  -- T 0 A cas- tail n2 n0        (seen n2, expected n0; result ignored)
   (0, .ret [1]),                          -- T 0 R [1]
   (0, .call ⟨"deq", []⟩),                 -- T 0 C deq []
   (0, .ev ⟨"ld", "head", "n0", ""⟩),      -- T 0 A ld head n0             (protect: load)
   (0, .ev ⟨"ld", "head", "n0", ""⟩),      -- T 0 A ld head n0             (protect: validating load)
   (0, .ev ⟨"ld", "n0", "n1", ""⟩),        -- T 0 A ld n0 n1               (protect h->next: load)
   (0, .ev ⟨"ld", "n0", "n1", ""⟩),        -- T 0 A ld n0 n1               (protect h->next: validating load)
   (0, .ev ⟨"ld", "head", "n0", ""⟩),      -- T 0 A ld head n0             (re-validation of head)
   (0, .ev ⟨"ld", "tail", "n2", ""⟩),      -- T 0 A ld tail n2
   (0, .ev ⟨"cas+", "head", "n0", "n1"⟩),  -- T 0 A cas+ head n0 n1        (linearization point of deq)
   (0, .ret [1, 7])]                       -- T 0 R [1, 7]

example : (MSQueue.model.run MSQueue.init helpSched).map (·.2) = some helpObs := by decide

example : MSQueue.historyOf helpObs =
    [⟨1, ⟨"enq", [8]⟩, [1], 5, 15⟩, ⟨0, ⟨"enq", [7]⟩, [1], 0, 17⟩, ⟨0, ⟨"deq", []⟩, [1, 7], 18, 26⟩] := by decide

example : linCheck fifo (MSQueue.historyOf helpObs) = true := by decide

/-- The abstract queue, the chain from `head`, `head` and `tail` at the end of that run. -/
example : (MSQueue.model.run MSQueue.init helpSched).map
    (fun r => (MSQueue.absQueue r.1, MSQueue.absNodes r.1, r.1.head, r.1.tail)) = some ([8], [1, 2], 1, 2) := by
  decide

/-- A dequeue CAS fails.  Two values are enqueued; threads 0 and 1 both prepare `CAS( head, n0, n1 )`; thread 1
    wins, thread 0 fails (`cas- head n1 n0`), restarts and dequeues the second value. -/
def raceSched : List (Tid × Act) :=
  [(0, .invoke ⟨"enq", [5]⟩)] ++ steps 0 5 ++ [(0, .ret), (0, .invoke ⟨"enq", [6]⟩)] ++ steps 0 5 ++
  [(0, .ret), (0, .invoke ⟨"deq", []⟩), (1, .invoke ⟨"deq", []⟩)] ++ steps 0 6 ++ steps 1 7 ++ steps 0 8 ++
  [(1, .ret), (0, .ret)]

example : (MSQueue.model.run MSQueue.init raceSched).map (fun r => (r.2.drop 22)) =
    some [(1, .ev ⟨"ld", "head", "n0", ""⟩),
          (1, .ev ⟨"ld", "head", "n0", ""⟩),
          (1, .ev ⟨"ld", "n0", "n1", ""⟩),
          (1, .ev ⟨"ld", "n0", "n1", ""⟩),
          (1, .ev ⟨"ld", "head", "n0", ""⟩),
          (1, .ev ⟨"ld", "tail", "n2", ""⟩),
          (1, .ev ⟨"cas+", "head", "n0", "n1"⟩),   -- thread 1 wins
          (0, .ev ⟨"cas-", "head", "n1", "n0"⟩),   -- T 0 A cas- head n1 n0   (seen n1, expected n0): restart
          (0, .ev ⟨"ld", "head", "n1", ""⟩),
          (0, .ev ⟨"ld", "head", "n1", ""⟩),
          (0, .ev ⟨"ld", "n1", "n2", ""⟩),
          (0, .ev ⟨"ld", "n1", "n2", ""⟩),
          (0, .ev ⟨"ld", "head", "n1", ""⟩),
          (0, .ev ⟨"ld", "tail", "n2", ""⟩),
          (0, .ev ⟨"cas+", "head", "n1", "n2"⟩),
          (1, .ret [1, 5]),
          (0, .ret [1, 6])] := by decide

example : (MSQueue.model.run MSQueue.init raceSched).map (fun r => MSQueue.historyOf r.2) =
    some [⟨0, ⟨"enq", [5]⟩, [1], 0, 6⟩, ⟨0, ⟨"enq", [6]⟩, [1], 7, 13⟩,
          ⟨1, ⟨"deq", []⟩, [1, 5], 15, 37⟩, ⟨0, ⟨"deq", []⟩, [1, 6], 14, 38⟩] := by decide

example : linCheck fifo [⟨0, ⟨"enq", [5]⟩, [1], 0, 6⟩, ⟨0, ⟨"enq", [6]⟩, [1], 7, 13⟩,
    ⟨1, ⟨"deq", []⟩, [1, 5], 15, 37⟩, ⟨0, ⟨"deq", []⟩, [1, 6], 14, 38⟩] = true := by decide

/-- A dequeuer helps advance the tail: thread 0 has linked `n1` but not yet swung the tail; thread 1 sees
    `head == tail` with a non-null `next`, helps (`cas+ tail n0 n1`), restarts and dequeues.  The run stops with
    thread 0's `enq` still pending (past its linearization point). -/
def deqHelpSched : List (Tid × Act) :=
  [(0, .invoke ⟨"enq", [7]⟩)] ++ steps 0 4 ++ [(1, .invoke ⟨"deq", []⟩)] ++ steps 1 14 ++ [(1, .ret)]

example : (MSQueue.model.run MSQueue.init deqHelpSched).map (fun r => (r.2.drop 10)) =
    some [(1, .ev ⟨"ld", "head", "n0", ""⟩),
          (1, .ev ⟨"ld", "tail", "n0", ""⟩),       -- h == t
          (1, .ev ⟨"cas+", "tail", "n0", "n1"⟩),   -- help
          (1, .ev ⟨"ld", "head", "n0", ""⟩),
          (1, .ev ⟨"ld", "head", "n0", ""⟩),
          (1, .ev ⟨"ld", "n0", "n1", ""⟩),
          (1, .ev ⟨"ld", "n0", "n1", ""⟩),
          (1, .ev ⟨"ld", "head", "n0", ""⟩),
          (1, .ev ⟨"ld", "tail", "n1", ""⟩),
          (1, .ev ⟨"cas+", "head", "n0", "n1"⟩),
          (1, .ret [1, 7])] := by decide

/-- Why pending operations must be completed: the history of completed operations of that run alone
    (`deq → 7` on a queue nobody has enqueued to) is not linearizable ... -/
example : (MSQueue.model.run MSQueue.init deqHelpSched).map (fun r => MSQueue.historyOf r.2) =
    some [⟨1, ⟨"deq", []⟩, [1, 7], 5, 20⟩] := by decide

example : ¬ Linearizable fifo [⟨1, ⟨"deq", []⟩, [1, 7], 5, 20⟩] := by
  intro hlin
  have := (linCheck_iff fifo _ (by decide)).mpr hlin
  revert this
  decide

/-- ... and `extra` of `C06_msqueue_linearizable` repairs it: with the pending enq completed, it is. -/
example : Linearizable fifo ([⟨1, ⟨"deq", []⟩, [1, 7], 5, 20⟩] ++ [⟨0, ⟨"enq", [7]⟩, [1], 0, 21⟩]) :=
  linCheck_sound fifo _ (by decide)

/-- Hindsight.  Thread 0's `deq` reads `n0.next == null` twice (its tentative linearization point: the queue IS
    empty); then thread 1 enqueues 3 and returns; then thread 0 re-validates `head == n0` successfully and answers
    "empty" — at that step the abstract queue is `[3]`.  The history is linearizable only because the empty
    dequeue is placed at the earlier load. -/
def hindsightSched : List (Tid × Act) :=
  [(0, .invoke ⟨"deq", []⟩)] ++ steps 0 4 ++ [(1, .invoke ⟨"enq", [3]⟩)] ++ steps 1 5 ++ [(1, .ret)]

example : (MSQueue.model.run MSQueue.init hindsightSched).map
    (fun r => (MSQueue.absQueue r.1, r.1.pc 0, MSQueue.step r.1 0 |>.map (fun q => (q.1.pc 0, q.2)))) =
    some ([3], .deqChk 0 none, some (.done [0], ⟨"ld", "head", "n0", ""⟩)) := by decide

example : (MSQueue.model.run MSQueue.init (hindsightSched ++ [(0, .step), (0, .ret)])).map
    (fun r => MSQueue.historyOf r.2) =
    some [⟨1, ⟨"enq", [3]⟩, [1], 5, 11⟩, ⟨0, ⟨"deq", []⟩, [0], 0, 13⟩] := by decide

example : linCheck fifo [⟨1, ⟨"enq", [3]⟩, [1], 5, 11⟩, ⟨0, ⟨"deq", []⟩, [0], 0, 13⟩] = true := by decide

/-- A tentative linearization that is withdrawn.  As above, but thread 2 also dequeues the 3 before thread 0
    re-validates: `head` has moved to `n1`, the re-validation fails (`ld head n1`), thread 0 restarts, finds
    `n1.next == null` and answers "empty" with a new linearization point. -/
def withdrawSched : List (Tid × Act) :=
  hindsightSched ++ [(2, .invoke ⟨"deq", []⟩)] ++ steps 2 7 ++ [(2, .ret)] ++ steps 0 6 ++ [(0, .ret)]

example : (MSQueue.model.run MSQueue.init withdrawSched).map (fun r => r.2.filter (fun x => x.1 == 0)) =
    some [(0, .call ⟨"deq", []⟩),
          (0, .ev ⟨"ld", "head", "n0", ""⟩),
          (0, .ev ⟨"ld", "head", "n0", ""⟩),
          (0, .ev ⟨"ld", "n0", "null", ""⟩),
          (0, .ev ⟨"ld", "n0", "null", ""⟩),       -- tentative linearization point (queue empty)
          (0, .ev ⟨"ld", "head", "n1", ""⟩),       -- re-validation fails: withdrawn, restart
          (0, .ev ⟨"ld", "head", "n1", ""⟩),
          (0, .ev ⟨"ld", "head", "n1", ""⟩),
          (0, .ev ⟨"ld", "n1", "null", ""⟩),
          (0, .ev ⟨"ld", "n1", "null", ""⟩),       -- linearization point of the empty deq
          (0, .ev ⟨"ld", "head", "n1", ""⟩),       -- re-validation succeeds
          (0, .ret [0])] := by decide

example : (MSQueue.model.run MSQueue.init withdrawSched).map (fun r => linCheck fifo (MSQueue.historyOf r.2)) =
    some true := by decide

end CdsVerif.Props.C06MSQueue

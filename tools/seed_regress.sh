#!/bin/bash
# Re-apply every saved seeded change, run the quick check of its property against the changed tree, restore.
# Expected: every line says CAUGHT.  Never commits anything in /repo.
#   tools/seed_regress.sh [prefix]            changed tree = scratch worktree of /repo (checks run with VERIF_REPO=<worktree>)
#   INPLACE=1 tools/seed_regress.sh [prefix]  changed tree = /repo itself (git apply ... ; check ; git checkout -- .)
cd /verif || exit 2
out=seeded/REGRESSION.txt
: > $out.tmp
if [ -n "$INPLACE" ]; then
  W=/repo
  if [ -n "$(git -C /repo status --porcelain -- cds src)" ]; then echo "refusing: /repo has local changes"; exit 2; fi
else
  W=/tmp/seedreg.$$
  git -C /repo worktree add --detach $W HEAD >/dev/null 2>&1 || exit 2
  export VERIF_REPO=$W
fi
for d in seeded/*/; do
  name=$(basename $d)
  [ -n "$1" ] && [[ "$name" != $1* ]] && continue
  prop=$(python3 -c "import json;print(json.load(open('$d/meta.json'))['property'])")
  if ! git -C $W apply /verif/$d/patch.diff 2>/dev/null; then echo "$name $prop PATCH-DOES-NOT-APPLY" | tee -a $out.tmp; continue; fi
  res=$(./check $prop --tier quick 2>&1 | tail -1)
  git -C $W checkout -- .
  case "$res" in FAIL*) echo "$name $prop CAUGHT :: $res" | tee -a $out.tmp;; *) echo "$name $prop MISSED :: $res" | tee -a $out.tmp;; esac
done
if [ -z "$INPLACE" ]; then
  # leave the generated Lean modules in the state of the unchanged tree
  unset VERIF_REPO
  python3 -c "import sys; sys.path.insert(0,'tools'); import vlib, cxx2lean; cxx2lean.generate(vlib.REPO, vlib.LEAN)" >/dev/null 2>&1
  git -C /repo worktree remove --force $W
fi
[ -z "$1" ] && mv $out.tmp $out || cat $out.tmp

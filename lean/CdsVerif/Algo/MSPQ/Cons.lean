/-
  MSPriorityQueue machine, layer 3 of the invariant: CONSERVATION of items.

  For every value `x`:   (number of array slots holding `x`) + (number of pops carrying `x`) + (number of times `x` has
  been returned by a pop)  =  (number of times `x` has been stored by a push).
  Multiset form, no assumption that the values are distinct.
-/
import CdsVerif.Algo.MSPQ.ShapeStep
namespace CdsVerif.Algo.MSPQ
open CdsVerif.Machine CdsVerif.Spec

/-- 1 if the option holds `x`. -/
def ind (o : Option Int) (x : Int) : Nat := if o = some x then 1 else 0

@[simp] theorem ind_none (x : Int) : ind none x = 0 := by simp [ind]

/-- Number of indices below `n` at which `f` holds `x`. -/
def cntF (f : Nat → Option Int) : Nat → Int → Nat
  | 0, _ => 0
  | n + 1, x => cntF f n x + ind (f n) x

theorem cntF_congr (f g : Nat → Option Int) (n : Nat) (x : Int) (h : ∀ j, j < n → f j = g j) :
    cntF f n x = cntF g n x := by
  induction n with
  | zero => rfl
  | succ n ih => simp only [cntF]; rw [ih (fun j hj => h j (by omega)), h n (by omega)]

theorem cntF_upd_ge (f : Nat → Option Int) (i : Nat) (v : Option Int) (n : Nat) (x : Int) (h : n ≤ i) :
    cntF (upd f i v) n x = cntF f n x :=
  cntF_congr _ _ n x (fun j hj => by simp [upd]; intro h2; omega)

theorem cntF_upd (f : Nat → Option Int) (i : Nat) (v : Option Int) (n : Nat) (x : Int) (h : i < n) :
    cntF (upd f i v) n x + ind (f i) x = cntF f n x + ind v x := by
  induction n with
  | zero => omega
  | succ n ih =>
    simp only [cntF]
    by_cases hi : i = n
    · subst hi
      rw [cntF_upd_ge f i v i x (Nat.le_refl _)]
      simp [upd]; omega
    · have := ih (by omega)
      have h2 : upd f i v n = f n := by simp [upd]; intro h3; omega
      rw [h2]; omega

theorem count_snoc (l : List Int) (v x : Int) : (l ++ [v]).count x = l.count x + ind (some v) x := by
  by_cases h : v = x <;> simp [List.count_append, ind, List.count_singleton, h]

/-- The items carried by the threads. -/
def held (pc : Tid → PC) : Nat → Option Int := fun t => heldOf (pc t)

theorem held_upd (pc : Tid → PC) (t : Tid) (p : PC) : held (upd pc t p) = upd (held pc) t (heldOf p) := by
  funext t'; simp only [held, upd]; split <;> rfl

/-- Occurrences of `x`: in the array, carried by pops, already returned. -/
def total (c : Cfg) (s : St) (x : Int) : Nat :=
  cntF s.val (c.cap + 1) x + cntF (held s.pc) c.nthr x + s.outs.count x

def CInv (c : Cfg) (s : St) : Prop := ∀ x, total c s x = s.ins.count x

theorem cinv_init (c : Cfg) : CInv c init := by
  intro x
  have h1 : ∀ n, cntF (fun _ => none) n x = 0 := by
    intro n; induction n with
    | zero => rfl
    | succ n ih => simp [cntF, ih]
  have h2 : held (fun _ => PC.idle) = fun _ => none := by funext t; rfl
  simp [total, init, h1, h2]

@[simp] theorem heldOf_pushLoop (i : Nat) : heldOf (pushLoop i) = none := by
  unfold pushLoop; split
  · rfl
  · split <;> rfl

@[simp] theorem heldOf_popLoop (c : Cfg) (par : Nat) (pv : Option Int) : heldOf (popLoop c par pv) = pv := by
  unfold popLoop; split <;> rfl

/-- An action that changes the array at most at slots `a` and `b`, the carried item of thread `t` only, and appends
    to the ghost lists: bookkeeping equation. -/
theorem total_step (c : Cfg) (s : St) (t : Tid) (p : PC) (val' : Nat → Option Int) (x : Int) (ht : t < c.nthr) :
    total c { s with val := val', pc := upd s.pc t p } x + ind (heldOf (s.pc t)) x + cntF s.val (c.cap + 1) x =
      total c s x + ind (heldOf p) x + cntF val' (c.cap + 1) x := by
  have := cntF_upd (held s.pc) t (heldOf p) c.nthr x ht
  simp only [total, held_upd]
  simp only [held] at this ⊢
  omega

theorem upd_upd_same {α : Type} (f : Nat → α) (i : Nat) (u v : α) : upd (upd f i u) i v = upd f i v := by
  funext j; simp only [upd]; split <;> rfl

/-- Bookkeeping for an action of thread `t` that moves it to `p`. -/
theorem cinv_gen {c : Cfg} {s s' : St} {t : Tid} {p : PC} (h : CInv c s) (ht : t < c.nthr)
    (hpc' : s'.pc = upd s.pc t p)
    (hbal : ∀ x, cntF s'.val (c.cap + 1) x + ind (heldOf p) x + s'.outs.count x + s.ins.count x =
      cntF s.val (c.cap + 1) x + ind (heldOf (s.pc t)) x + s.outs.count x + s'.ins.count x) : CInv c s' := by
  intro x
  have h1 := h x
  have h2 := hbal x
  have h3 := cntF_upd (held s.pc) t (heldOf p) c.nthr x ht
  simp only [total, hpc', held_upd] at h1 ⊢
  simp only [held] at h1 h3 ⊢
  omega

macro "cbal" hpc:ident : tactic =>
  `(tactic| ((try simp only [$hpc:ident, heldOf_pushLoop, heldOf_popLoop, ↓reduceIte, if_true, if_false]); (try simp only [heldOf, kHeld, ind_none])))

/-- An action that only moves `t` to a program counter carrying the same item. -/
macro "csame" h:ident ht:ident hpc:ident : tactic =>
  `(tactic| ((try dsimp only [rel, St.setPc]); refine cinv_gen $h $ht rfl ?_; intro x; cbal $hpc))

theorem cinv_invoke {c : Cfg} {s s' : St} {t : Tid} {op : GOp} (h : CInv c s) (hs : invoke c s t op = some s') :
    CInv c s' := by
  unfold invoke at hs
  split at hs
  next ht =>
    split at hs
    · rename_i hpc _ _; simp at hs; subst hs; csame h ht hpc
    · rename_i hpc _ _; simp at hs; subst hs; csame h ht hpc
    · simp at hs
  · simp at hs

theorem cinv_result {c : Cfg} {s s' : St} {t : Tid} {r : GRet} (hl : LInv c s) (h : CInv c s)
    (hs : result c s t = some (s', r)) : CInv c s' := by
  have ht := hl.thr t
  unfold result at hs
  split at hs <;> simp at hs <;> obtain ⟨rfl, -⟩ := hs <;> rename_i hpc <;> simp only [hpc] at ht <;>
    specialize ht (by simp)
  · csame h ht hpc
  · csame h ht hpc
  · csame h ht hpc
  · csame h ht hpc
  · (try dsimp only); refine cinv_gen h ht rfl ?_; intro x; cbal hpc
    (try dsimp only); rw [count_snoc]; omega

set_option maxHeartbeats 1000000 in
theorem cinv_after {c : Cfg} {rank : Nat → Nat} (hc : SlotOK c rank) {s s' : St} {t : Tid} {k : K}
    (hl : LInv c s) (hsi : SInv c rank s) (h : CInv c s) (hpc : s.pc t = .acq k)
    (hs : after c { s with lk := upd s.lk k.lock true, own := upd s.own k.lock (some t) } t k = some s') :
    CInv c s' := by
  have ht := hl.thr t (by simp [hpc])
  have hwf := hl.wfp t
  simp only [hpc, wf] at hwf
  cases k with
  | pSz v =>
    simp only [after] at hs
    split at hs <;> simp at hs <;> subst hs <;> csame h ht hpc
  | pNode v i => simp only [after] at hs; simp at hs; subst hs; csame h ht hpc
  | hPar i => simp only [after] at hs; simp at hs; subst hs; csame h ht hpc
  | hItem i =>
    simp only [after] at hs
    simp only [kWf] at hwf
    split at hs
    · split at hs
      · rename_i vi vp hvi hvp
        split at hs <;> simp at hs <;> subst hs
        · (try dsimp only); refine cinv_gen h ht rfl ?_; intro x; cbal hpc
          try dsimp only
          have e1 := cntF_upd (upd s.val i (some vp)) (i / 2) (some vi) (c.cap + 1) x (by omega)
          have e2 := cntF_upd s.val i (some vp) (c.cap + 1) x (by omega)
          have e3 : upd s.val i (some vp) (i / 2) = s.val (i / 2) := by simp [upd]; intro h3; omega
          rw [e3, hvp] at e1; rw [hvi] at e2
          omega
        · csame h ht hpc
      · simp at hs
    · split at hs
      · simp at hs; subst hs; csame h ht hpc
      · split at hs <;> simp at hs <;> subst hs <;> csame h ht hpc
  | hRoot =>
    simp only [after] at hs
    split at hs <;> simp at hs <;> subst hs <;> csame h ht hpc
  | oSz =>
    simp only [after] at hs
    split at hs <;> simp at hs <;> subst hs <;> csame h ht hpc
  | oTop b =>
    simp only [after] at hs
    split at hs <;> simp at hs <;> subst hs
    · (try dsimp only); refine cinv_gen h ht rfl ?_; intro x; cbal hpc
      try dsimp only
      have e1 := cntF_upd s.val 1 none (c.cap + 1) x (by have := hc.cap_pos; omega)
      simp only [ind_none] at e1
      omega
    · csame h ht hpc
  | oBot b => simp only [after] at hs; simp at hs; subst hs; csame h ht hpc
  | dChild par ch pv =>
    simp only [after] at hs
    simp only [kWf] at hwf
    split at hs
    · simp at hs; subst hs; csame h ht hpc
    · split at hs
      · simp at hs; subst hs; csame h ht hpc
      · unfold dCompare at hs
        split at hs
        · rename_i vc vp hvc hvp
          split at hs <;> simp at hs <;> subst hs
          · (try dsimp only); refine cinv_gen h ht rfl ?_; intro x; cbal hpc
            try dsimp only
            have e1 := cntF_upd (upd s.val par (some vc)) ch (some vp) (c.cap + 1) x (by omega)
            have e2 := cntF_upd s.val par (some vc) (c.cap + 1) x (by omega)
            have e3 : upd s.val par (some vc) ch = s.val ch := by simp [upd]; intro h3; omega
            rw [e3, hvc] at e1; rw [hvp] at e2
            omega
          · csame h ht hpc
        · simp at hs
  | dRight par ch pv =>
    simp only [after] at hs
    split at hs
    · simp at hs; subst hs; csame h ht hpc
    · split at hs
      · split at hs <;> simp at hs <;> subst hs <;> csame h ht hpc
      · simp at hs

set_option maxHeartbeats 1000000 in
theorem cinv_dcompare {c : Cfg} {s s1 s' : St} {t : Tid} {par ch : Nat} {pv : Option Int} (h : CInv c s)
    (ht : t < c.nthr) (hheld : heldOf (s.pc t) = pv) (hpar : par < c.cap + 1) (hch : ch < c.cap + 1) (hne : ch ≠ par)
    (h1v : s1.val = s.val) (h1p : s1.pc = upd s.pc t .idle) (h1o : s1.outs = s.outs) (h1i : s1.ins = s.ins)
    (hs : dCompare s1 t par ch pv = some s') : CInv c s' := by
  unfold dCompare at hs
  split at hs
  · rename_i vc vp hvc hvp
    rw [h1v] at hvc hvp
    split at hs <;> simp at hs <;> subst hs
    · refine cinv_gen (p := .dUnlSwap par ch pv) h ht (by simp [h1p, upd_upd_same]) ?_
      intro x
      rw [hheld]; simp only [heldOf, h1v, h1o, h1i]
      have e1 := cntF_upd (upd s.val par (some vc)) ch (some vp) (c.cap + 1) x hch
      have e2 := cntF_upd s.val par (some vc) (c.cap + 1) x hpar
      have e3 : upd s.val par (some vc) ch = s.val ch := by simp [upd, hne]
      rw [e3, hvc] at e1; rw [hvp] at e2
      omega
    · refine cinv_gen (p := .dUnlBreak par ch pv) h ht (by simp [St.setPc, h1p, upd_upd_same]) ?_
      intro x
      rw [hheld]; simp only [St.setPc, heldOf, h1v, h1o, h1i]
  · simp at hs

set_option maxHeartbeats 1000000 in
theorem cinv_step {c : Cfg} {rank : Nat → Nat} (hc : SlotOK c rank) {s s' : St} {t : Tid} {ev : Ev}
    (hl : LInv c s) (hsi : SInv c rank s) (h : CInv c s) (hs : step c s t = some (s', ev)) : CInv c s' := by
  have ht := hl.thr t
  have hwf := hl.wfp t
  cases hpc : s.pc t with
  | acq k =>
    rcases step_acq hpc hs with ⟨-, rfl⟩ | ⟨-, ha⟩
    · specialize ht (by simp [hpc]); csame h ht hpc
    · exact cinv_after hc hl hsi h hpc ha
  | spin k =>
    simp only [step, hpc] at hs
    simp at hs; obtain ⟨rfl, -⟩ := hs
    specialize ht (by simp [hpc])
    cases hlk : s.lk k.lock <;> simp only [Bool.false_eq_true, ↓reduceIte] <;> csame h ht hpc
  | pUnlSz v i =>
    have hempty := fresh_slot_empty hc hl hsi hpc
    simp only [step, hpc] at hs
    simp at hs; obtain ⟨rfl, -⟩ := hs
    specialize ht (by simp [hpc]); simp only [hpc, wf] at hwf
    (try dsimp only [rel]); refine cinv_gen h ht rfl ?_; intro x; cbal hpc
    try dsimp only
    have e1 := cntF_upd s.val i (some v) (c.cap + 1) x (by omega)
    rw [hempty, ind_none] at e1
    rw [count_snoc]; omega
  | oUnlSz b =>
    simp only [step, hpc] at hs
    simp at hs; obtain ⟨rfl, -⟩ := hs
    specialize ht (by simp [hpc]); simp only [hpc, wf] at hwf
    (try dsimp only [rel]); refine cinv_gen h ht rfl ?_; intro x; cbal hpc
    try dsimp only
    have e1 := cntF_upd s.val b none (c.cap + 1) x (by omega)
    rw [ind_none] at e1
    omega
  | oUnlBot b pv =>
    simp only [step, hpc] at hs
    specialize ht (by simp [hpc]); simp only [hpc, wf] at hwf
    split at hs <;> simp at hs <;> obtain ⟨rfl, -⟩ := hs
    · csame h ht hpc
    · (try dsimp only [rel]); refine cinv_gen h ht rfl ?_; intro x; cbal hpc
      try dsimp only
      have e1 := cntF_upd s.val 1 pv (c.cap + 1) x (by omega)
      omega
  | dUnlLeft par ch pv =>
    simp only [step, hpc, Option.map_eq_some_iff, Prod.mk.injEq] at hs
    obtain ⟨s1, h1, rfl, -⟩ := hs
    specialize ht (by simp [hpc]); simp only [hpc, wf] at hwf
    exact cinv_dcompare (s1 := rel s t ch .idle) h ht (by simp [hpc, heldOf]) (by omega) (by omega) (by omega) rfl rfl rfl rfl h1
  | dUnlRight par ch pv =>
    simp only [step, hpc, Option.map_eq_some_iff, Prod.mk.injEq] at hs
    obtain ⟨s1, h1, rfl, -⟩ := hs
    specialize ht (by simp [hpc]); simp only [hpc, wf] at hwf
    exact cinv_dcompare (s1 := rel s t (ch + 1) .idle) h ht (by simp [hpc, heldOf]) (by omega) (by omega) (by omega) rfl rfl rfl rfl h1
  | idle => simp [step, hpc] at hs
  | pFail => simp [step, hpc] at hs
  | pOk => simp [step, hpc] at hs
  | oFail => simp [step, hpc] at hs
  | oDone pv => simp [step, hpc] at hs
  | _ =>
    simp only [step, hpc] at hs
    simp at hs; obtain ⟨rfl, -⟩ := hs
    specialize ht (by simp [hpc])
    csame h ht hpc

end CdsVerif.Algo.MSPQ

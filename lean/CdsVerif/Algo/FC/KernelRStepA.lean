/-
  Preservation of the invariant `KInvR` (FC/KernelRInv.lean) by the atomic steps of the refined flat-combining kernel
  machine, part A: program counters acqLd, pubCnt, pubAge, pubAct, pubHd, pubNx, pubCas, reqSt, tryLock, lkRepub, cmbCnt.
  (Generated once by a script, one lemma per program counter; ordinary Lean.)
-/
import CdsVerif.Algo.FC.KernelRInv
namespace CdsVerif.Algo.FC.KernelR
open CdsVerif.Machine CdsVerif.Spec
open CdsVerif.Algo.FC.Kernel (Cfg RV RS Cont CS)

set_option maxHeartbeats 8000000 in
theorem step_acqLd {cfg : Cfg} {s s' : St} {t : Tid} {ev : Ev} 
    (h : KInvR cfg s) (hpc : s.pc t = .acqLd) (hs : step cfg s t = some (s', ev)) : KInvR cfg s' := by
  obtain ⟨h_bound, h_lockFree, h_hold, h_noReq, h_someReq, h_respExec, h_opExec, h_atDone, h_atApply, h_rel, h_wtUnl, h_fin, h_le1, h_nodup, h_notIn, h_inact, h_preInact, h_linkAct, h_unlinked, h_inactOut, h_ccAct, h_cmb, h_curIn, h_curInN, h_pass, h_passN, h_post⟩ := h
  have s_pass := h_pass t; have s_passN := h_passN t; have s_post := h_post t; have s_hold := h_hold t
  have s_noReq := h_noReq t; have s_someReq := h_someReq t; have s_bound := h_bound t
  have s_curIn := h_curIn t; have s_curInN := h_curInN t; have s_notIn := h_notIn t; have s_linkAct := h_linkAct t
  have s_preInact := h_preInact t; have s_ccAct := h_ccAct t; have s_inactOut := h_inactOut t; have s_atApply := h_atApply t; have s_atDone := h_atDone t
  simp only [hpc] at s_pass s_passN s_post s_hold s_noReq s_someReq s_bound s_curIn s_curInN s_notIn s_linkAct s_preInact s_ccAct s_inactOut s_atApply s_atDone
  simp only [step, hpc] at hs
  simp only [Option.some.injEq, Prod.mk.injEq] at hs; obtain ⟨rfl, -⟩ := hs
  kinv_close

set_option maxHeartbeats 8000000 in
theorem step_pubCnt {cfg : Cfg} {s s' : St} {t : Tid} {ev : Ev} {c : Cont}
    (h : KInvR cfg s) (hpc : s.pc t = .pubCnt c) (hs : step cfg s t = some (s', ev)) : KInvR cfg s' := by
  obtain ⟨h_bound, h_lockFree, h_hold, h_noReq, h_someReq, h_respExec, h_opExec, h_atDone, h_atApply, h_rel, h_wtUnl, h_fin, h_le1, h_nodup, h_notIn, h_inact, h_preInact, h_linkAct, h_unlinked, h_inactOut, h_ccAct, h_cmb, h_curIn, h_curInN, h_pass, h_passN, h_post⟩ := h
  have s_pass := h_pass t; have s_passN := h_passN t; have s_post := h_post t; have s_hold := h_hold t
  have s_noReq := h_noReq t; have s_someReq := h_someReq t; have s_bound := h_bound t
  have s_curIn := h_curIn t; have s_curInN := h_curInN t; have s_notIn := h_notIn t; have s_linkAct := h_linkAct t
  have s_preInact := h_preInact t; have s_ccAct := h_ccAct t; have s_inactOut := h_inactOut t; have s_atApply := h_atApply t; have s_atDone := h_atDone t
  simp only [hpc] at s_pass s_passN s_post s_hold s_noReq s_someReq s_bound s_curIn s_curInN s_notIn s_linkAct s_preInact s_ccAct s_inactOut s_atApply s_atDone
  simp only [step, hpc] at hs
  simp only [Option.some.injEq, Prod.mk.injEq] at hs; obtain ⟨rfl, -⟩ := hs
  cases c <;> kinv_close

set_option maxHeartbeats 8000000 in
theorem step_pubAge {cfg : Cfg} {s s' : St} {t : Tid} {ev : Ev} {c : Cont} {a : Nat}
    (h : KInvR cfg s) (hpc : s.pc t = .pubAge c a) (hs : step cfg s t = some (s', ev)) : KInvR cfg s' := by
  obtain ⟨h_bound, h_lockFree, h_hold, h_noReq, h_someReq, h_respExec, h_opExec, h_atDone, h_atApply, h_rel, h_wtUnl, h_fin, h_le1, h_nodup, h_notIn, h_inact, h_preInact, h_linkAct, h_unlinked, h_inactOut, h_ccAct, h_cmb, h_curIn, h_curInN, h_pass, h_passN, h_post⟩ := h
  have s_pass := h_pass t; have s_passN := h_passN t; have s_post := h_post t; have s_hold := h_hold t
  have s_noReq := h_noReq t; have s_someReq := h_someReq t; have s_bound := h_bound t
  have s_curIn := h_curIn t; have s_curInN := h_curInN t; have s_notIn := h_notIn t; have s_linkAct := h_linkAct t
  have s_preInact := h_preInact t; have s_ccAct := h_ccAct t; have s_inactOut := h_inactOut t; have s_atApply := h_atApply t; have s_atDone := h_atDone t
  simp only [hpc] at s_pass s_passN s_post s_hold s_noReq s_someReq s_bound s_curIn s_curInN s_notIn s_linkAct s_preInact s_ccAct s_inactOut s_atApply s_atDone
  simp only [step, hpc] at hs
  simp only [Option.some.injEq, Prod.mk.injEq] at hs; obtain ⟨rfl, -⟩ := hs
  cases c <;> kinv_close

set_option maxHeartbeats 8000000 in
theorem step_pubAct {cfg : Cfg} {s s' : St} {t : Tid} {ev : Ev} {c : Cont}
    (h : KInvR cfg s) (hpc : s.pc t = .pubAct c) (hs : step cfg s t = some (s', ev)) : KInvR cfg s' := by
  obtain ⟨h_bound, h_lockFree, h_hold, h_noReq, h_someReq, h_respExec, h_opExec, h_atDone, h_atApply, h_rel, h_wtUnl, h_fin, h_le1, h_nodup, h_notIn, h_inact, h_preInact, h_linkAct, h_unlinked, h_inactOut, h_ccAct, h_cmb, h_curIn, h_curInN, h_pass, h_passN, h_post⟩ := h
  have s_pass := h_pass t; have s_passN := h_passN t; have s_post := h_post t; have s_hold := h_hold t
  have s_noReq := h_noReq t; have s_someReq := h_someReq t; have s_bound := h_bound t
  have s_curIn := h_curIn t; have s_curInN := h_curInN t; have s_notIn := h_notIn t; have s_linkAct := h_linkAct t
  have s_preInact := h_preInact t; have s_ccAct := h_ccAct t; have s_inactOut := h_inactOut t; have s_atApply := h_atApply t; have s_atDone := h_atDone t
  simp only [hpc] at s_pass s_passN s_post s_hold s_noReq s_someReq s_bound s_curIn s_curInN s_notIn s_linkAct s_preInact s_ccAct s_inactOut s_atApply s_atDone
  simp only [step, hpc] at hs
  simp only [Option.some.injEq, Prod.mk.injEq] at hs; obtain ⟨rfl, -⟩ := hs
  cases c <;> kinv_close

set_option maxHeartbeats 8000000 in
theorem step_pubHd {cfg : Cfg} {s s' : St} {t : Tid} {ev : Ev} {c : Cont}
    (h : KInvR cfg s) (hpc : s.pc t = .pubHd c) (hs : step cfg s t = some (s', ev)) : KInvR cfg s' := by
  obtain ⟨h_bound, h_lockFree, h_hold, h_noReq, h_someReq, h_respExec, h_opExec, h_atDone, h_atApply, h_rel, h_wtUnl, h_fin, h_le1, h_nodup, h_notIn, h_inact, h_preInact, h_linkAct, h_unlinked, h_inactOut, h_ccAct, h_cmb, h_curIn, h_curInN, h_pass, h_passN, h_post⟩ := h
  have s_pass := h_pass t; have s_passN := h_passN t; have s_post := h_post t; have s_hold := h_hold t
  have s_noReq := h_noReq t; have s_someReq := h_someReq t; have s_bound := h_bound t
  have s_curIn := h_curIn t; have s_curInN := h_curInN t; have s_notIn := h_notIn t; have s_linkAct := h_linkAct t
  have s_preInact := h_preInact t; have s_ccAct := h_ccAct t; have s_inactOut := h_inactOut t; have s_atApply := h_atApply t; have s_atDone := h_atDone t
  simp only [hpc] at s_pass s_passN s_post s_hold s_noReq s_someReq s_bound s_curIn s_curInN s_notIn s_linkAct s_preInact s_ccAct s_inactOut s_atApply s_atDone
  simp only [step, hpc] at hs
  simp only [Option.some.injEq, Prod.mk.injEq] at hs; obtain ⟨rfl, -⟩ := hs
  have lf1 := @head?_mem s.list
  cases c <;> kinv_close

set_option maxHeartbeats 8000000 in
theorem step_pubNx {cfg : Cfg} {s s' : St} {t : Tid} {ev : Ev} {c : Cont} {v : Cur}
    (h : KInvR cfg s) (hpc : s.pc t = .pubNx c v) (hs : step cfg s t = some (s', ev)) : KInvR cfg s' := by
  obtain ⟨h_bound, h_lockFree, h_hold, h_noReq, h_someReq, h_respExec, h_opExec, h_atDone, h_atApply, h_rel, h_wtUnl, h_fin, h_le1, h_nodup, h_notIn, h_inact, h_preInact, h_linkAct, h_unlinked, h_inactOut, h_ccAct, h_cmb, h_curIn, h_curInN, h_pass, h_passN, h_post⟩ := h
  have s_pass := h_pass t; have s_passN := h_passN t; have s_post := h_post t; have s_hold := h_hold t
  have s_noReq := h_noReq t; have s_someReq := h_someReq t; have s_bound := h_bound t
  have s_curIn := h_curIn t; have s_curInN := h_curInN t; have s_notIn := h_notIn t; have s_linkAct := h_linkAct t
  have s_preInact := h_preInact t; have s_ccAct := h_ccAct t; have s_inactOut := h_inactOut t; have s_atApply := h_atApply t; have s_atDone := h_atDone t
  simp only [hpc] at s_pass s_passN s_post s_hold s_noReq s_someReq s_bound s_curIn s_curInN s_notIn s_linkAct s_preInact s_ccAct s_inactOut s_atApply s_atDone
  simp only [step, hpc] at hs
  simp only [Option.some.injEq, Prod.mk.injEq] at hs; obtain ⟨rfl, -⟩ := hs
  cases c <;> kinv_close

set_option maxHeartbeats 8000000 in
theorem step_pubCas {cfg : Cfg} {s s' : St} {t : Tid} {ev : Ev} {c : Cont} {v : Cur}
    (h : KInvR cfg s) (hpc : s.pc t = .pubCas c v) (hs : step cfg s t = some (s', ev)) : KInvR cfg s' := by
  obtain ⟨h_bound, h_lockFree, h_hold, h_noReq, h_someReq, h_respExec, h_opExec, h_atDone, h_atApply, h_rel, h_wtUnl, h_fin, h_le1, h_nodup, h_notIn, h_inact, h_preInact, h_linkAct, h_unlinked, h_inactOut, h_ccAct, h_cmb, h_curIn, h_curInN, h_pass, h_passN, h_post⟩ := h
  have s_pass := h_pass t; have s_passN := h_passN t; have s_post := h_post t; have s_hold := h_hold t
  have s_noReq := h_noReq t; have s_someReq := h_someReq t; have s_bound := h_bound t
  have s_curIn := h_curIn t; have s_curInN := h_curInN t; have s_notIn := h_notIn t; have s_linkAct := h_linkAct t
  have s_preInact := h_preInact t; have s_ccAct := h_ccAct t; have s_inactOut := h_inactOut t; have s_atApply := h_atApply t; have s_atDone := h_atDone t
  simp only [hpc] at s_pass s_passN s_post s_hold s_noReq s_someReq s_bound s_curIn s_curInN s_notIn s_linkAct s_preInact s_ccAct s_inactOut s_atApply s_atDone
  simp only [step, hpc] at hs
  split at hs
  · simp only [Option.some.injEq, Prod.mk.injEq] at hs; obtain ⟨rfl, -⟩ := hs
    have hnd : (t :: s.list).Nodup := List.nodup_cons.mpr ⟨s_notIn (by cases c <;> rfl), h_nodup⟩
    have hah : ∀ (p : Cur) (x : Nat), (∀ k, p = some k → k ∈ s.list) →
        (aheadIncl s.list p x → aheadIncl (t :: s.list) p x) ∧ (aheadStrict s.list p x → aheadStrict (t :: s.list) p x) :=
      fun p x hp => ahead_cons (s_notIn (by cases c <;> rfl)) hp
    cases c <;> (constructor <;> intros <;> (try dsimp only at *) <;>
      grind [upd, holds, hasReq, cpIdx, cpNextIdx, postPass, afterPublish, doneIdx, applyIdx, inactIdx, ccIdx, isLink, inPub, prePub])
  · simp only [Option.some.injEq, Prod.mk.injEq] at hs; obtain ⟨rfl, -⟩ := hs
    cases c <;> kinv_close

set_option maxHeartbeats 8000000 in
theorem step_reqSt {cfg : Cfg} {s s' : St} {t : Tid} {ev : Ev} 
    (h : KInvR cfg s) (hpc : s.pc t = .reqSt) (hs : step cfg s t = some (s', ev)) : KInvR cfg s' := by
  obtain ⟨h_bound, h_lockFree, h_hold, h_noReq, h_someReq, h_respExec, h_opExec, h_atDone, h_atApply, h_rel, h_wtUnl, h_fin, h_le1, h_nodup, h_notIn, h_inact, h_preInact, h_linkAct, h_unlinked, h_inactOut, h_ccAct, h_cmb, h_curIn, h_curInN, h_pass, h_passN, h_post⟩ := h
  have s_pass := h_pass t; have s_passN := h_passN t; have s_post := h_post t; have s_hold := h_hold t
  have s_noReq := h_noReq t; have s_someReq := h_someReq t; have s_bound := h_bound t
  have s_curIn := h_curIn t; have s_curInN := h_curInN t; have s_notIn := h_notIn t; have s_linkAct := h_linkAct t
  have s_preInact := h_preInact t; have s_ccAct := h_ccAct t; have s_inactOut := h_inactOut t; have s_atApply := h_atApply t; have s_atDone := h_atDone t
  simp only [hpc] at s_pass s_passN s_post s_hold s_noReq s_someReq s_bound s_curIn s_curInN s_notIn s_linkAct s_preInact s_ccAct s_inactOut s_atApply s_atDone
  simp only [step, hpc] at hs
  simp only [Option.some.injEq, Prod.mk.injEq] at hs; obtain ⟨rfl, -⟩ := hs
  kinv_close

set_option maxHeartbeats 8000000 in
theorem step_tryLock {cfg : Cfg} {s s' : St} {t : Tid} {ev : Ev} 
    (h : KInvR cfg s) (hpc : s.pc t = .tryLock) (hs : step cfg s t = some (s', ev)) : KInvR cfg s' := by
  obtain ⟨h_bound, h_lockFree, h_hold, h_noReq, h_someReq, h_respExec, h_opExec, h_atDone, h_atApply, h_rel, h_wtUnl, h_fin, h_le1, h_nodup, h_notIn, h_inact, h_preInact, h_linkAct, h_unlinked, h_inactOut, h_ccAct, h_cmb, h_curIn, h_curInN, h_pass, h_passN, h_post⟩ := h
  have s_pass := h_pass t; have s_passN := h_passN t; have s_post := h_post t; have s_hold := h_hold t
  have s_noReq := h_noReq t; have s_someReq := h_someReq t; have s_bound := h_bound t
  have s_curIn := h_curIn t; have s_curInN := h_curInN t; have s_notIn := h_notIn t; have s_linkAct := h_linkAct t
  have s_preInact := h_preInact t; have s_ccAct := h_ccAct t; have s_inactOut := h_inactOut t; have s_atApply := h_atApply t; have s_atDone := h_atDone t
  simp only [hpc] at s_pass s_passN s_post s_hold s_noReq s_someReq s_bound s_curIn s_curInN s_notIn s_linkAct s_preInact s_ccAct s_inactOut s_atApply s_atDone
  simp only [step, hpc] at hs
  simp only [Option.some.injEq, Prod.mk.injEq] at hs; obtain ⟨rfl, -⟩ := hs
  kinv_close

set_option maxHeartbeats 8000000 in
theorem step_lkRepub {cfg : Cfg} {s s' : St} {t : Tid} {ev : Ev} 
    (h : KInvR cfg s) (hpc : s.pc t = .lkRepub) (hs : step cfg s t = some (s', ev)) : KInvR cfg s' := by
  obtain ⟨h_bound, h_lockFree, h_hold, h_noReq, h_someReq, h_respExec, h_opExec, h_atDone, h_atApply, h_rel, h_wtUnl, h_fin, h_le1, h_nodup, h_notIn, h_inact, h_preInact, h_linkAct, h_unlinked, h_inactOut, h_ccAct, h_cmb, h_curIn, h_curInN, h_pass, h_passN, h_post⟩ := h
  have s_pass := h_pass t; have s_passN := h_passN t; have s_post := h_post t; have s_hold := h_hold t
  have s_noReq := h_noReq t; have s_someReq := h_someReq t; have s_bound := h_bound t
  have s_curIn := h_curIn t; have s_curInN := h_curInN t; have s_notIn := h_notIn t; have s_linkAct := h_linkAct t
  have s_preInact := h_preInact t; have s_ccAct := h_ccAct t; have s_inactOut := h_inactOut t; have s_atApply := h_atApply t; have s_atDone := h_atDone t
  simp only [hpc] at s_pass s_passN s_post s_hold s_noReq s_someReq s_bound s_curIn s_curInN s_notIn s_linkAct s_preInact s_ccAct s_inactOut s_atApply s_atDone
  simp only [step, hpc] at hs
  simp only [Option.some.injEq, Prod.mk.injEq] at hs; obtain ⟨rfl, -⟩ := hs
  kinv_close

set_option maxHeartbeats 8000000 in
theorem step_cmbCnt {cfg : Cfg} {s s' : St} {t : Tid} {ev : Ev} 
    (h : KInvR cfg s) (hpc : s.pc t = .cmbCnt) (hs : step cfg s t = some (s', ev)) : KInvR cfg s' := by
  obtain ⟨h_bound, h_lockFree, h_hold, h_noReq, h_someReq, h_respExec, h_opExec, h_atDone, h_atApply, h_rel, h_wtUnl, h_fin, h_le1, h_nodup, h_notIn, h_inact, h_preInact, h_linkAct, h_unlinked, h_inactOut, h_ccAct, h_cmb, h_curIn, h_curInN, h_pass, h_passN, h_post⟩ := h
  have s_pass := h_pass t; have s_passN := h_passN t; have s_post := h_post t; have s_hold := h_hold t
  have s_noReq := h_noReq t; have s_someReq := h_someReq t; have s_bound := h_bound t
  have s_curIn := h_curIn t; have s_curInN := h_curInN t; have s_notIn := h_notIn t; have s_linkAct := h_linkAct t
  have s_preInact := h_preInact t; have s_ccAct := h_ccAct t; have s_inactOut := h_inactOut t; have s_atApply := h_atApply t; have s_atDone := h_atDone t
  simp only [hpc] at s_pass s_passN s_post s_hold s_noReq s_someReq s_bound s_curIn s_curInN s_notIn s_linkAct s_preInact s_ccAct s_inactOut s_atApply s_atDone
  simp only [step, hpc] at hs
  simp only [Option.some.injEq, Prod.mk.injEq] at hs; obtain ⟨rfl, -⟩ := hs
  kinv_close

end CdsVerif.Algo.FC.KernelR

/-
  C24 — exactness of the history checker used by tie H for the bag specification.
  The algorithm-level theorems (pool machine over an abstract atomic bounded FIFO, every schedule) are in Props/C24Pool.lean.
-/
import CdsVerif.Base.Spec
namespace CdsVerif.Props.C24
open CdsVerif.Lin CdsVerif.Spec

/-- The history checker used by the harness is exact for the specification it judges against. -/
theorem C24_history_oracle_exact (ops : List (OpRec GOp GRet)) (hwf : ∀ o ∈ ops, o.inv ≤ o.res) :
    linCheck (bag []) ops = true ↔ Linearizable (bag []) ops :=
  linCheck_iff _ ops hwf

end CdsVerif.Props.C24

/-
  REFINED atomic-step machine of the flat-combining kernel (cds/algo/flat_combining/kernel.h), the one that is tied
  to the real code by atomic-trace conformance (`cdsdriver replay fckernel`, harness/clients/fckernel.cpp,
  tools/fckernel_pre.py).

  `Algo/FC/Kernel.lean` abstracts the publication list to a set (flag `inList`, atomic link / unlink) that the combiner
  walks in index order.  Here the machine CARRIES THE LIST: `list` = the records linked after the head record, in
  list order.  Every atomic operation of the real code on the list is a step of this machine, with its value:
      publish        : ld head.next ; do { st r.next p } while ( !CAS( head.next, p, r ) )     (failed CAS: retry with the value seen)
      combining_pass : p = head; loop { ld p.state ; [ ld p.req ; [ st p.age ; exec ; st p.req 1 ]] ; ld p.next }
      compact_list   : pPrev = head; ld head.next; loop { ld p.state ; [ ld p.age ; [ ld p.next ; CAS( pPrev.next, p, pNext ) ;
                                                          [ st p.state 0 ; p = pNext ; continue ]]] ; pPrev = p ; ld p.next }
                       (a FAILED unlink CAS overwrites `p` with the value seen, so the walk goes on from that record)
                       second loop (allocated list): ld head.nexta ; loop { ld p.state ; ld p.nexta }
  The value of a `pNext` load is computed from `list` (the successor of the record in the list), a CAS on a `pNext`
  succeeds iff the list says so, the link puts the record at the front, the unlink removes it.  That the real pointers
  agree with this list at every single load / CAS is what the trace replay checks.
  The walk order is the real one: the order of the list.

  Everything else is as in `Kernel.lean` (same request / state / age / lock protocol, same `combining` loop with the
  useful / empty pass logic, same wait loop), with two more differences:
    * `fc_apply` is its own step (`cpExec`, pseudo-event `exec r<k> <n>`), between the store of nAge and the store of
      req_Response; the modelled container is a fetch-and-increment counter: `exec` gives the record the current
      value of `ctr` and increments it; the operation returns that value;
    * the second loop of `compact_list` is there (it only loads: no thread exits, nothing is `removed`, nothing freed).

  CONFIGURATION of the tie (= initial state `init cfg`): `N` threads; each has acquired its publication record before
  the first step (harness prologue: `acquire_record()` allocates, links into the allocated list and publishes), in the
  order 0 … N-1, so list and allocated list are both [N-1, …, 0], every record active with age 0.  The head record
  belongs to the thread that constructed the kernel (main), which issues no operation: it is never published, its
  state stays `inactive` (the machine has no state for it: `ld head.state` always reads 0) and it is never unlinked.

  STILL SIMPLIFIED (as in Kernel.lean): one record per thread, no thread exit (`removed`, tls_cleanup, freeing),
  no batch_combine / invoke_exclusive, backoff wait strategy, unbounded naturals, sequentially consistent atomics.
  `compare_exchange_weak` never fails spuriously (it does not under the harness either).

  Theorems: `KernelRInv.lean` (inductive invariant), `Props/C23KernelR.lean` (the C23 theorems for THIS machine).
-/
import CdsVerif.Algo.FC.Kernel
namespace CdsVerif.Algo.FC.KernelR
open CdsVerif.Machine CdsVerif.Spec
open CdsVerif.Algo.FC.Kernel (Cfg RV RS Cont CS rvS rsS b2s evLd evSt evX)

/-- A position in the publication list: the head record or the record of thread `k`. -/
abbrev Cur := Option Nat

inductive PC
  | idle
  | acqLd
  | pubCnt (c : Cont)
  | pubAge (c : Cont) (a : Nat)
  | pubAct (c : Cont)
  | pubHd (c : Cont)                          -- p = m_pHead->pNext.load()
  | pubNx (c : Cont) (v : Cur)                -- pRec->pNext.store( p )
  | pubCas (c : Cont) (v : Cur)               -- m_pHead->pNext.CAS( p, pRec )
  | reqSt
  | tryLock
  | lkRepub
  | cmbCnt
  | cpState (c : CS) (p : Cur)                -- p->nState.load()
  | cpReq (c : CS) (k : Nat)                  -- p->nRequest.load()
  | cpAge (c : CS) (k : Nat)                  -- p->nAge.store( nCurAge )
  | cpExec (c : CS) (k : Nat)                 -- owner.fc_apply( p )
  | cpDone (c : CS) (k : Nat)                 -- p->nRequest.store( req_Response )
  | cpNext (c : CS) (p : Cur)                 -- p = p->pNext.load()
  | ccHd (a : Nat)                            -- p = m_pHead->pNext.load()
  | ccState (a : Nat) (pp : Cur) (k : Nat)    -- p->nState.load()
  | ccAge (a : Nat) (pp : Cur) (k : Nat)      -- p->nAge.load()
  | ccNx (a : Nat) (pp : Cur) (k : Nat)       -- pNext = p->pNext.load()
  | ccCas (a : Nat) (pp : Cur) (k : Nat) (nx : Cur)     -- pPrev->pNext.CAS( p, pNext )
  | ccInact (a : Nat) (pp : Cur) (k : Nat) (nx : Cur)   -- p->nState.store( inactive ); p = pNext
  | ccAdv (a : Nat) (k : Nat)                 -- pPrev = p; p = p->pNext.load()
  | c2Hd                                      -- p = m_pAllocatedHead->pNextAllocated.load()
  | c2State (rest : List Nat)                 -- p->nState.load()          (p = head of `rest`)
  | c2Nx (rest : List Nat)                    -- p = p->pNextAllocated.load()
  | unlock
  | wtReq
  | wtState
  | wtLock
  | wtReq2
  | wtUnlock
  | relSt
  | done
deriving DecidableEq, Repr

structure St where
  lock : Bool
  count : Nat
  req : Nat → RV
  state : Nat → RS
  list : List Nat          -- the publication list after the head record, in order
  age : Nat → Nat
  ctr : Nat                -- the container: a counter
  res : Nat → Nat          -- result slot of every record
  execs : Nat → Nat        -- ghost
  holder : Tid             -- ghost
  pc : Tid → PC

/-- The allocated-records list after its head: records were allocated in the order 0 … N-1, each inserted at the front. -/
def allocList (cfg : Cfg) : List Nat := (List.range cfg.N).reverse

def init (cfg : Cfg) : St :=
  { lock := false, count := 0, req := fun _ => .empty,
    state := fun r => if r < cfg.N then .active else .inactive,
    list := allocList cfg, age := fun _ => 0, ctr := 0, res := fun _ => 0, execs := fun _ => 0, holder := 0,
    pc := fun _ => .idle }

/-! ### The list -/

/-- The records strictly after (the first occurrence of) `k`. -/
def after : List Nat → Nat → List Nat
  | [], _ => []
  | x :: l, k => if x = k then l else after l k

/-- `p->pNext` as the list gives it. -/
def succOf (l : List Nat) : Cur → Cur
  | none => l.head?
  | some k => (after l k).head?

/-! ### Event rendering -/

def nloc : Cur → String
  | none => "head"
  | some k => s!"r{k}"
def ptr : Cur → String
  | none => "null"
  | some k => s!"r{k}"
def fReq (p : Cur) : String := nloc p ++ ".req"
def fState (p : Cur) : String := nloc p ++ ".state"
def fAge (p : Cur) : String := nloc p ++ ".age"
def fNext (p : Cur) : String := nloc p ++ ".next"
def fNexta (p : Cur) : String := nloc p ++ ".nexta"
def evCasOk (loc old new : String) : Ev := ⟨"cas+", loc, old, new⟩
def evCasFail (loc seen expected : String) : Ev := ⟨"cas-", loc, seen, expected⟩

/-! ### Transitions -/

def afterPublish : Cont → PC
  | .acq => .reqSt
  | .lock => .cmbCnt
  | .wait => .wtLock

/-- End of one `combining_pass`: rest of the `for` loop of `combining`, then the compaction test. -/
def passEnd (cfg : Cfg) (c : CS) : PC :=
  let use' := if c.done then c.use + 1 else c.use
  let emp' := if c.done then c.emp else c.emp + 1
  if (c.done = true ∨ emp' ≤ use') ∧ c.pass + 1 < cfg.P then .cpState ⟨c.age, c.pass + 1, emp', use', false⟩ none
  else if c.age &&& cfg.cf = 0 then .ccHd c.age
  else .unlock

/-- Continue `compact_list` at record `nx`, or go to its second loop at the end of the list. -/
def ccGo (a : Nat) (pp : Cur) : Cur → PC
  | some k => .ccState a pp k
  | none => .c2Hd

def c2Go : List Nat → PC
  | [] => .unlock
  | k :: rest => .c2State (k :: rest)

def invoke (cfg : Cfg) (s : St) (t : Tid) (_op : GOp) : Option St :=
  match s.pc t with
  | .idle => if t < cfg.N then some { s with pc := upd s.pc t .acqLd } else none
  | _ => none

def step (cfg : Cfg) (s : St) (t : Tid) : Option (St × Ev) :=
  match s.pc t with
  | .acqLd =>
    some ({ s with pc := upd s.pc t (if s.state t = .active then .reqSt else .pubCnt .acq) },
          evLd (fState (some t)) (rsS (s.state t)))
  | .pubCnt c => some ({ s with pc := upd s.pc t (.pubAge c s.count) }, evLd "m_nCount" (toString s.count))
  | .pubAge c a => some ({ s with age := upd s.age t a, pc := upd s.pc t (.pubAct c) }, evSt (fAge (some t)) (toString a))
  | .pubAct c => some ({ s with state := upd s.state t .active, pc := upd s.pc t (.pubHd c) }, evSt (fState (some t)) "1")
  | .pubHd c =>
    some ({ s with pc := upd s.pc t (if s.list.head? = some t then afterPublish c else .pubNx c s.list.head?) },
          evLd (fNext none) (ptr s.list.head?))
  | .pubNx c v => some ({ s with pc := upd s.pc t (.pubCas c v) }, evSt (fNext (some t)) (ptr v))
  | .pubCas c v =>
    if s.list.head? = v then
      some ({ s with list := t :: s.list, pc := upd s.pc t (afterPublish c) }, evCasOk (fNext none) (ptr v) (ptr (some t)))
    else
      some ({ s with pc := upd s.pc t (.pubNx c s.list.head?) }, evCasFail (fNext none) (ptr s.list.head?) (ptr v))
  | .reqSt =>
    some ({ s with req := upd s.req t .op, execs := upd s.execs t 0, pc := upd s.pc t .tryLock }, evSt (fReq (some t)) "2")
  | .tryLock =>
    some ({ s with lock := true, holder := if s.lock then s.holder else t,
                   pc := upd s.pc t (if s.lock then .wtReq else .lkRepub) }, evX "lock" (b2s s.lock) "1")
  | .lkRepub =>
    some ({ s with pc := upd s.pc t (if s.state t = .active then .cmbCnt else .pubCnt .lock) },
          evLd (fState (some t)) (rsS (s.state t)))
  | .cmbCnt =>
    some ({ s with count := s.count + 1, pc := upd s.pc t (.cpState ⟨s.count + 1, 0, 0, 0, false⟩ none) },
          ⟨"add", "m_nCount", toString s.count, "1"⟩)
  | .cpState c none => some ({ s with pc := upd s.pc t (.cpNext c none) }, evLd (fState none) "0")
  | .cpState c (some k) =>
    some ({ s with pc := upd s.pc t (if s.state k = .active then .cpReq c k else .cpNext c (some k)) },
          evLd (fState (some k)) (rsS (s.state k)))
  | .cpReq c k =>
    some ({ s with pc := upd s.pc t (if s.req k = .op then .cpAge c k else .cpNext c (some k)) },
          evLd (fReq (some k)) (rvS (s.req k)))
  | .cpAge c k => some ({ s with age := upd s.age k c.age, pc := upd s.pc t (.cpExec c k) }, evSt (fAge (some k)) (toString c.age))
  | .cpExec c k =>
    some ({ s with res := upd s.res k s.ctr, ctr := s.ctr + 1, execs := upd s.execs k (s.execs k + 1),
                   pc := upd s.pc t (.cpDone c k) }, ⟨"exec", nloc (some k), toString s.ctr, ""⟩)
  | .cpDone c k =>
    some ({ s with req := upd s.req k .resp, pc := upd s.pc t (.cpNext { c with done := true } (some k)) },
          evSt (fReq (some k)) "1")
  | .cpNext c p =>
    some ({ s with pc := upd s.pc t (match succOf s.list p with
                                       | some k' => .cpState c (some k')
                                       | none => passEnd cfg c) },
          evLd (fNext p) (ptr (succOf s.list p)))
  | .ccHd a => some ({ s with pc := upd s.pc t (ccGo a none s.list.head?) }, evLd (fNext none) (ptr s.list.head?))
  | .ccState a pp k =>
    some ({ s with pc := upd s.pc t (if s.state k = .active then .ccAge a pp k else .ccAdv a k) },
          evLd (fState (some k)) (rsS (s.state k)))
  | .ccAge a pp k =>
    some ({ s with pc := upd s.pc t (if s.age k + cfg.cf < a then .ccNx a pp k else .ccAdv a k) },
          evLd (fAge (some k)) (toString (s.age k)))
  | .ccNx a pp k =>
    some ({ s with pc := upd s.pc t (.ccCas a pp k (succOf s.list (some k))) },
          evLd (fNext (some k)) (ptr (succOf s.list (some k))))
  | .ccCas a pp k nx =>
    if succOf s.list pp = some k then
      some ({ s with list := s.list.filter (· ≠ k), pc := upd s.pc t (.ccInact a pp k nx) },
            evCasOk (fNext pp) (ptr (some k)) (ptr nx))
    else
      -- compare_exchange_strong( p, pNext ) has OVERWRITTEN the loop variable `p` with the value it saw (a record linked
      -- at the front meanwhile); `break; pPrev = p; p = p->pNext.load()` then continues from that record
      some ({ s with pc := upd s.pc t (match succOf s.list pp with
                                         | some j => .ccAdv a j
                                         | none => .c2Hd) },          -- (null seen: cannot happen; the code would crash)
            evCasFail (fNext pp) (ptr (succOf s.list pp)) (ptr (some k)))
  | .ccInact a pp k nx =>
    some ({ s with state := upd s.state k .inactive, pc := upd s.pc t (ccGo a pp nx) }, evSt (fState (some k)) "0")
  | .ccAdv a k =>
    some ({ s with pc := upd s.pc t (ccGo a (some k) (succOf s.list (some k))) },
          evLd (fNext (some k)) (ptr (succOf s.list (some k))))
  | .c2Hd => some ({ s with pc := upd s.pc t (c2Go (allocList cfg)) }, evLd (fNexta none) (ptr (allocList cfg).head?))
  | .c2State [] => some ({ s with pc := upd s.pc t .unlock }, evLd "none" "")       -- unreachable (c2Go never yields it)
  | .c2State (k :: rest) =>
    some ({ s with pc := upd s.pc t (.c2Nx (k :: rest)) }, evLd (fState (some k)) (rsS (s.state k)))
  | .c2Nx [] => some ({ s with pc := upd s.pc t .unlock }, evLd "none" "")          -- unreachable
  | .c2Nx (k :: rest) => some ({ s with pc := upd s.pc t (c2Go rest) }, evLd (fNexta (some k)) (ptr rest.head?))
  | .unlock => some ({ s with lock := false, pc := upd s.pc t .relSt }, evSt "lock" "0")
  | .wtReq =>
    some ({ s with pc := upd s.pc t (if s.req t = .resp then .relSt else .wtState) }, evLd (fReq (some t)) (rvS (s.req t)))
  | .wtState =>
    some ({ s with pc := upd s.pc t (if s.state t = .active then .wtLock else .pubCnt .wait) },
          evLd (fState (some t)) (rsS (s.state t)))
  | .wtLock =>
    some ({ s with lock := true, holder := if s.lock then s.holder else t,
                   pc := upd s.pc t (if s.lock then .wtReq else .wtReq2) }, evX "lock" (b2s s.lock) "1")
  | .wtReq2 =>
    some ({ s with pc := upd s.pc t (if s.req t = .resp then .wtUnlock else .lkRepub) }, evLd (fReq (some t)) (rvS (s.req t)))
  | .wtUnlock => some ({ s with lock := false, pc := upd s.pc t .relSt }, evSt "lock" "0")
  | .relSt => some ({ s with req := upd s.req t .empty, pc := upd s.pc t .done }, evSt (fReq (some t)) "0")
  | .idle => none
  | .done => none

/-- The operation returns the value `fc_apply` wrote into the record. -/
def result (s : St) (t : Tid) : Option (St × GRet) :=
  match s.pc t with
  | .done => some ({ s with pc := upd s.pc t .idle }, [Int.ofNat (s.res t)])
  | _ => none

def model (cfg : Cfg) : Model St := ⟨invoke cfg, step cfg, result⟩

/-! ### Driver side -/

def cfgNat (key : String) (ws : List String) (dflt : Nat) : Nat :=
  match ws.find? (·.startsWith (key ++ "=")) with
  | some w => ((w.drop (key.length + 1)).toString.toNat?).getD dflt
  | none => dflt

/-- Configuration from the case header: `threads=<N> cf=<m_nCompactFactor, the mask> pass=<m_nCombinePassCount>`. -/
def cfgOf (ws : List String) : Cfg := ⟨cfgNat "threads" ws 2, cfgNat "cf" ws 0, cfgNat "pass" ws 1⟩

/-- The model and its initial state are chosen per case; the driver's `replayLoop` wants one model, so the
    configuration travels in the state. -/
structure RSt where
  cfg : Cfg
  st : St

def rmodel : Model RSt where
  invoke r t op := (invoke r.cfg r.st t op).map (fun s => { r with st := s })
  step r t := (step r.cfg r.st t).map (fun p => ({ r with st := p.1 }, p.2))
  result r t := (result r.st t).map (fun p => ({ r with st := p.1 }, p.2))

def rinit (ws : List String) : RSt := ⟨cfgOf ws, init (cfgOf ws)⟩

def isRecLoc (loc : String) : Bool :=
  loc == "lock" || loc == "m_nCount" || loc.startsWith "head." || (loc.startsWith "r" && (loc.drop 1).any (· == '.'))
    || (loc.startsWith "r" && loc.length > 1 && (loc.drop 1).all Char.isDigit)

/-- Run-time check after every replayed step: no request was executed twice (a theorem, `C23R_exactly_once`; the check
    costs nothing and guards the replay against a slip between the file that is proved and the one that is run). -/
def okB (r : RSt) : Bool := (List.range r.cfg.N).all (fun k => r.st.execs k ≤ 1)

end CdsVerif.Algo.FC.KernelR

/-
  MSPriorityQueue machine: helpers for writing concrete runs (examples of `Props/C11MSPQ.lean`).
-/
import CdsVerif.Algo.MSPQ.Model
namespace CdsVerif.Algo.MSPQ
open CdsVerif.Machine CdsVerif.Spec

def push (v : Int) : Act := .invoke ⟨"push", [v]⟩
def pop : Act := .invoke ⟨"pop", []⟩

/-- `n` consecutive steps of thread `t`. -/
def steps (t : Tid) (n : Nat) : List (Tid × Act) := List.replicate n (t, .step)

/-- A whole operation of thread `t` that takes `n` steps. -/
def whole (t : Tid) (a : Act) (n : Nat) : List (Tid × Act) := (t, a) :: steps t n ++ [(t, .ret)]

/-- The results of a run, in order. -/
def rets (c : Cfg) (sched : List (Tid × Act)) : Option (List (Tid × GRet)) :=
  ((model c).run init sched).map fun r => r.2.filterMap fun (t, o) => match o with
    | .ret x => some (t, x)
    | _ => none

/-- The atomic events of a run (thread, kind, location, values: the words of the harness line `T <tid> A …`). -/
def trace (c : Cfg) (sched : List (Tid × Act)) : Option (List (Tid × Ev)) :=
  ((model c).run init sched).map fun r => r.2.filterMap fun (t, o) => match o with
    | .ev e => some (t, e)
    | _ => none

/-- Value and tag of the slots `1 .. cap` after a run. -/
def heapAfter (c : Cfg) (sched : List (Tid × Act)) : Option (List (Option Int × Tag)) :=
  ((model c).run init sched).map fun r => (List.range c.cap).map fun i => (r.1.val (i + 1), r.1.tag (i + 1))

/-- Program counters of threads `0 .. nthr-1` after a run. -/
def pcsAfter (c : Cfg) (sched : List (Tid × Act)) : Option (List PC) :=
  ((model c).run init sched).map fun r => (List.range c.nthr).map r.1.pc

/-- Number of steps thread `t` needs to finish its operation when it runs alone from the state reached by `sched`. -/
def soloLen (c : Cfg) (sched : List (Tid × Act)) (t : Tid) : Option Nat :=
  ((model c).run init sched).map fun r =>
    let rec go (fuel n : Nat) (s : St) : Nat :=
      match fuel with
      | 0 => n
      | fuel + 1 => match step c s t with
        | some (s', _) => go fuel (n + 1) s'
        | none => n
    go 400 0 r.1

end CdsVerif.Algo.MSPQ

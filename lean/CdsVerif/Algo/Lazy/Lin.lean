/-
  Linearizability of the LazyList model (property C13, `cds::intrusive::LazyList<HP>`: insert, update, erase, extract,
  find, contains) with respect to the sequential map `Spec.map`.

  Linearization points.
    * successful `insert`, inserting `update`  : the store `pPred->m_pNext = pNode` of `link_node`, under the locks;
    * successful `erase` / `extract`           : the marking store `pCur->m_pNext = ( pHead, 1 )` of `unlink_node`;
    * failing `insert`, `update` of an existing key, refused `update`, failing `erase` / `extract` : the last load of
      `validate` (`pPred->m_pNext == pCur`): under the two locks `pPred` and `pCur` are unmarked, hence linked, and
      adjacent, so the key is present in `pCur` resp. absent (it lies between the keys of `pPred` and `pCur`);
    * `find` / `contains`, key not found by `search` (`pCur` is the tail or has a greater key) : the validating load of
      `protect( pPrev->m_pNext )` that ends `search`: it reads an unmarked pointer, so `pPrev` is linked, `pCur` is its
      successor, and the key lies in the gap.  (Hindsight: the answer is computed later.)
    * `find` / `contains`, `search` has stopped at a node `c` WITH the key:
        - answer "found": the load `pCur->is_marked()` that reads an unmarked word — `c` is linked and unmarked;
        - answer "not found" (the load reads a marked word): the instant at which `c` was marked, if that happened
          after `search` stopped — i.e. ANOTHER thread's marking store linearizes the reader, directly behind its own
          erase — or the end of `search`, if `c` was marked already (a marked node that is still linked shadows no other
          node with the key: the chain is sorted).  This is the classic LazyList argument for the unlocked `contains`.

  The proof instruments a run with a ghost log.  At every step the entries of all operations whose result becomes fixed
  by that step are appended: the stepping thread's own entry first, then the entries of the readers it helps (`help`;
  these are read-only on the abstract map after the step).  The step lemmas (`StepEff`) show that the abstract map
  evolves by exactly the `Spec.map` transitions of the logged operations, so the log is a legal sequential execution;
  an entry is appended between the invocation and the response of its operation, so the log order respects real time;
  and the entries whose operation has returned are, up to permutation, the complete history of the run.  Results are
  never withdrawn.
-/
import CdsVerif.Algo.Lazy.Reach
import CdsVerif.Algo.Lazy.Hist
namespace CdsVerif.Algo.Lazy
open CdsVerif.Machine CdsVerif.Spec CdsVerif.Lin
open CdsVerif.Algo.Michael (LPok)

/-! ### Instrumented runs -/

structure GSt where
  s : St
  clock : Nat                          -- number of actions so far = index of the next observation
  pend : Pend
  hist : List (OpRec GOp GRet)         -- records of the operations that have returned, in order of return
  log : List LE                        -- operations that have passed their linearization point, in that order
  active : List Tid                    -- the threads that have invoked an operation so far (no duplicates)
  trace : List St                      -- the model states before each action so far (`trace[j]` = state before action `j`)

def ginit : GSt := ⟨init, 0, fun _ => none, [], [], [], []⟩

/-- The log entry of thread `t2`, if the step to `s'` fixes the result of its operation. -/
def entryOf (g : GSt) (s' : St) (t2 : Tid) : Option LE :=
  match lpRet g.s.mark g.s.key (g.s.pc t2), lpRet s'.mark s'.key (s'.pc t2), g.pend t2 with
  | none, some r, some (op, k) => some ⟨t2, op, r, k, none⟩
  | _, _, _ => none

/-- The stepping thread first, then all other threads that have an operation in progress. -/
def stepThreads (g : GSt) (t : Tid) : List Tid := t :: g.active.filter (fun t2 => decide (t2 ≠ t))

/-- Ghost update for the action of thread `t` that leads to model state `s'` with observation `o`. -/
def gnext (g : GSt) (t : Tid) (s' : St) : Obs → GSt
  | .call op =>
    { g with s := s', clock := g.clock + 1, pend := upd g.pend t (some (op, g.clock)),
             active := if t ∈ g.active then g.active else t :: g.active, trace := g.trace ++ [g.s] }
  | .ev _ =>
    { g with s := s', clock := g.clock + 1, log := g.log ++ (stepThreads g t).filterMap (entryOf g s'),
             trace := g.trace ++ [g.s] }
  | .ret r =>
    match g.pend t with
    | some (op, k) =>
      { g with s := s', clock := g.clock + 1, pend := upd g.pend t none,
               hist := g.hist ++ [⟨t, op, r, k, g.clock⟩], log := g.log.map (LE.close t g.clock),
               trace := g.trace ++ [g.s] }
    | none => { g with s := s', clock := g.clock + 1, trace := g.trace ++ [g.s] }

structure GI (g : GSt) (L : List Nat) : Prop where
  spec : ∃ m, runSpec [] g.log = some m ∧ ∀ k v, mfind m k = some v ↔ Has g.s.mark g.s.key g.s.val L k v
  invlt : ∀ e, e ∈ g.log → e.inv < g.clock
  rt : g.log.Pairwise (fun a b => ∀ r, b.res = some r → a.inv ≤ r)
  comp : (completed g.log).Perm g.hist
  pendlt : ∀ t op k, g.pend t = some (op, k) → k < g.clock
  pre : ∀ t op, opOf (g.s.pc t) = some op → ∃ k, g.pend t = some (op, k)
  preopen : ∀ t, lpRet g.s.mark g.s.key (g.s.pc t) = none → openOf t g.log = []
  post : ∀ t r, lpRet g.s.mark g.s.key (g.s.pc t) = some r →
    ∃ op k, g.pend t = some (op, k) ∧ openOf t g.log = [⟨t, op, r, k, none⟩]
  idle : ∀ t, g.s.pc t = .idle → g.pend t = none
  act : ∀ t op k, g.pend t = some (op, k) → t ∈ g.active
  actnd : g.active.Nodup

def GInv (g : GSt) : Prop := ∃ L, SInvL g.s L ∧ GI g L

theorem ginv_init : GInv ginit := by
  refine ⟨[0, 1], sinv_init, ?_⟩
  constructor <;> simp [ginit, init, runSpec, completed, opOf, lpRet, openOf, Has, mfind]

/-! ### List lemmas for the entries appended by one step -/

theorem openOf_filterMap (f : Tid → Option LE) (hf : ∀ t e, f t = some e → e.tid = t ∧ e.res = none) (t2 : Tid) :
    ∀ (ts : List Tid), ts.Nodup →
      openOf t2 (ts.filterMap f) = if t2 ∈ ts then (f t2).toList else []
  | [], _ => by simp [openOf]
  | a :: ts, hnd => by
    have hnd' := List.nodup_cons.mp hnd
    have ih := openOf_filterMap f hf t2 ts hnd'.2
    simp only [List.filterMap_cons]
    cases hfa : f a with
    | none =>
      simp only [ih, List.mem_cons]
      by_cases e : t2 = a
      · subst e; simp [hfa, hnd'.1]
      · simp [e]
    | some b =>
      obtain ⟨hb1, hb2⟩ := hf a b hfa
      simp only [openOf, List.filter_cons] at ih ⊢
      by_cases e : t2 = a
      · subst e
        simp only [hb1, hb2, and_self, decide_true, if_true, List.mem_cons, true_or, hfa, Option.toList_some]
        rw [ih]; simp [hnd'.1]
      · have : ¬ (b.tid = t2 ∧ b.res = none) := fun h => e (h.1.symm.trans hb1)
        simp only [this, decide_false, Bool.false_eq_true, if_false, ih, List.mem_cons, e, false_or]

theorem completed_append (l1 l2 : List LE) : completed (l1 ++ l2) = completed l1 ++ completed l2 := by
  simp [completed]

theorem completed_open (l : List LE) (h : ∀ e ∈ l, e.res = none) : completed l = [] := by
  induction l with
  | nil => rfl
  | cons e l ih =>
    have := h e (by simp)
    simp only [completed, List.filterMap_cons, LE.done?, this, Option.map_none]
    exact ih (fun e' he' => h e' (List.mem_cons_of_mem _ he'))

/-- Entries that are read-only on the abstract map `H` keep a representation of `H`. -/
theorem runSpec_stable {H : Int → Int → Prop} : ∀ (l : List LE), (∀ e ∈ l, LPok H e.op e.ret H) →
    ∀ m, (∀ k v, mfind m k = some v ↔ H k v) → ∃ m', runSpec m l = some m' ∧ ∀ k v, mfind m' k = some v ↔ H k v
  | [], _, m, hm => ⟨m, rfl, hm⟩
  | e :: l, hl, m, hm => by
    obtain ⟨m1, h1, h2⟩ := hl e (by simp) m hm
    obtain ⟨m2, h3, h4⟩ := runSpec_stable l (fun e' he' => hl e' (List.mem_cons_of_mem _ he')) m1 h2
    exact ⟨m2, by simp [runSpec, h1, h3], h4⟩

theorem entryOf_some {g : GSt} {s' : St} {t2 : Tid} {e : LE} (h : entryOf g s' t2 = some e) :
    ∃ op k r, lpRet g.s.mark g.s.key (g.s.pc t2) = none ∧ lpRet s'.mark s'.key (s'.pc t2) = some r ∧
      g.pend t2 = some (op, k) ∧ e = ⟨t2, op, r, k, none⟩ := by
  unfold entryOf at h
  split at h
  next r op k h1 h2 h3 => simp at h; exact ⟨op, k, r, h1, h2, h3, h.symm⟩
  next => simp at h

theorem entryOf_mk {g : GSt} {s' : St} {t2 : Tid} {op : GOp} {k : Nat} {r : GRet}
    (h1 : lpRet g.s.mark g.s.key (g.s.pc t2) = none) (h2 : lpRet s'.mark s'.key (s'.pc t2) = some r)
    (h3 : g.pend t2 = some (op, k)) : entryOf g s' t2 = some ⟨t2, op, r, k, none⟩ := by
  simp [entryOf, h1, h2, h3]

theorem entryOf_none_of_fixed {g : GSt} {s' : St} {t2 : Tid} {r : GRet}
    (h1 : lpRet g.s.mark g.s.key (g.s.pc t2) = some r) : entryOf g s' t2 = none := by
  simp [entryOf, h1]

theorem entryOf_none_of_open {g : GSt} {s' : St} {t2 : Tid}
    (h2 : lpRet s'.mark s'.key (s'.pc t2) = none) : entryOf g s' t2 = none := by
  unfold entryOf
  split
  next r op k _ h _ => rw [h2] at h; simp at h
  next => rfl

theorem stepThreads_nodup {g : GSt} (t : Tid) (h : g.active.Nodup) : (stepThreads g t).Nodup := by
  unfold stepThreads
  refine List.nodup_cons.mpr ⟨?_, h.filter _⟩
  intro hm
  have := (List.mem_filter.mp hm).2
  simp at this

theorem mem_stepThreads {g : GSt} {t t2 : Tid} : t2 ∈ stepThreads g t ↔ (t2 = t ∨ (t2 ∈ g.active ∧ t2 ≠ t)) := by
  simp [stepThreads]

/-! ### The ghost invariant is preserved -/

theorem ginv_invoke {g : GSt} {t : Tid} {op : GOp} {s' : St} (h : GInv g) (hs : invoke g.s t op = some s') :
    GInv (gnext g t s' (.call op)) := by
  obtain ⟨L, hl, hg⟩ := h
  obtain ⟨hl', he⟩ := sinvl_invoke hl hs
  refine ⟨L, hl', ?_⟩
  obtain ⟨hspec, hinvlt, hrt, hcomp, hpendlt, hpre, hpreopen, hpost, hidle, hact, hactnd⟩ := hg
  obtain ⟨hframe, hlps, hwas, hnow, habs, -, -, -, -, -⟩ := he
  have hpw : lpRet g.s.mark g.s.key (g.s.pc t) = none := by simp [hwas, lpRet]
  constructor
  · obtain ⟨m, hm1, hm2⟩ := hspec
    exact ⟨m, hm1, fun k v => (hm2 k v).trans (habs k v).symm⟩
  · intro e he; have := hinvlt e he; simp only [gnext]; omega
  · exact hrt
  · exact hcomp
  · intro t2 op2 k; simp only [gnext, upd]; intro h
    split at h
    · simp at h; omega
    · have := hpendlt t2 op2 k h; omega
  · intro t2 op2; simp only [gnext]
    by_cases ht : t2 = t
    · subst ht; rw [hnow.1]; intro h; simp at h; subst h; exact ⟨g.clock, by simp [upd]⟩
    · rw [hframe t2 ht]; intro h
      obtain ⟨k, hk⟩ := hpre t2 op2 h
      exact ⟨k, by simp [upd, ht, hk]⟩
  · intro t2; simp only [gnext]
    by_cases ht : t2 = t
    · subst ht; intro _; exact hpreopen t2 hpw
    · rw [hframe t2 ht, hlps t2 ht]; exact hpreopen t2
  · intro t2 r; simp only [gnext]
    by_cases ht : t2 = t
    · subst ht; rw [hnow.2]; intro h; simp at h
    · rw [hframe t2 ht, hlps t2 ht]; intro h
      obtain ⟨op2, k, h1, h2⟩ := hpost t2 r h
      exact ⟨op2, k, by simp [upd, ht, h1], h2⟩
  · intro t2; simp only [gnext]
    by_cases ht : t2 = t
    · subst ht; intro h; rw [h] at hnow; simp [opOf] at hnow
    · rw [hframe t2 ht]; intro h; simp [upd, ht, hidle t2 h]
  · intro t2 op2 k; simp only [gnext, upd]; intro h
    by_cases ht : t2 = t
    · subst ht; split <;> simp_all
    · simp only [ht, if_false] at h
      have := hact t2 op2 k h
      split <;> simp_all
  · simp only [gnext]
    split
    · exact hactnd
    · next hn => exact List.nodup_cons.mpr ⟨hn, hactnd⟩

theorem ginv_result {g : GSt} {t : Tid} {r : GRet} {s' : St} (h : GInv g) (hs : result g.s t = some (s', r)) :
    GInv (gnext g t s' (.ret r)) := by
  obtain ⟨L, hl, hg⟩ := h
  obtain ⟨hl', hdone, hidl, hframe, hkey, hval, hmark, -, -, -⟩ := sinvl_result hl hs
  obtain ⟨hspec, hinvlt, hrt, hcomp, hpendlt, hpre, hpreopen, hpost, hidle, hact, hactnd⟩ := hg
  obtain ⟨op, k, hp, hopen⟩ := hpost t r (by simp [hdone, lpRet])
  have hcl : ∀ e, (LE.close t g.clock e).inv = e.inv := by intro e; unfold LE.close; split <;> rfl
  simp only [gnext, hp]
  refine ⟨L, hl', ?_⟩
  constructor <;> dsimp only
  · obtain ⟨m, hm1, hm2⟩ := hspec
    refine ⟨m, by rw [runSpec_close]; exact hm1, ?_⟩
    rw [hkey, hval, hmark]; exact hm2
  · intro e he
    obtain ⟨e0, he0, rfl⟩ := List.mem_map.mp he
    have := hinvlt e0 he0; rw [hcl]; omega
  · rw [List.pairwise_map]
    refine List.Pairwise.imp_of_mem ?_ hrt
    intro a b ha hb hab r' hr'
    rw [hcl]
    unfold LE.close at hr'
    split at hr'
    · simp at hr'; have := hinvlt a ha; omega
    · exact hab r' hr'
  · refine (completed_close t g.clock g.log).trans ?_
    rw [hopen]
    exact List.Perm.append_right _ hcomp
  · intro t2 op2 k2 h
    simp only [upd] at h
    split at h
    · simp at h
    · have := hpendlt t2 op2 k2 h; omega
  · intro t2 op2
    by_cases ht : t2 = t
    · subst ht; rw [hidl]; simp [opOf]
    · rw [hframe t2 ht]; intro h
      obtain ⟨k2, hk⟩ := hpre t2 op2 h
      exact ⟨k2, by simp [upd, ht, hk]⟩
  · intro t2
    by_cases ht : t2 = t
    · subst ht; intro _; exact openOf_close_same _ _ _
    · rw [hframe t2 ht, hkey, hmark, openOf_close_other _ _ _ ht]; exact hpreopen t2
  · intro t2 r2
    by_cases ht : t2 = t
    · subst ht; rw [hidl]; simp [lpRet]
    · rw [hframe t2 ht, hkey, hmark, openOf_close_other _ _ _ ht]; intro h
      obtain ⟨op2, k2, h1, h2⟩ := hpost t2 r2 h
      exact ⟨op2, k2, by simp [upd, ht, h1], h2⟩
  · intro t2
    by_cases ht : t2 = t
    · subst ht; intro _; simp [upd]
    · rw [hframe t2 ht]; intro h; simp [upd, ht, hidle t2 h]
  · intro t2 op2 k2 h
    simp only [upd] at h
    split at h
    · simp at h
    · exact hact t2 op2 k2 h
  · exact hactnd

theorem ginv_step {g : GSt} {t : Tid} {ev : Ev} {s' : St} (h : GInv g) (hs : step g.s t = some (s', ev)) :
    GInv (gnext g t s' (.ev ev)) := by
  obtain ⟨L, hl, hg⟩ := h
  obtain ⟨L', hl', he⟩ := sinvl_step hl hs
  refine ⟨L', hl', ?_⟩
  obtain ⟨hspec, hinvlt, hrt, hcomp, hpendlt, hpre, hpreopen, hpost, hidle, hact, hactnd⟩ := hg
  obtain ⟨m, hm1, hm2⟩ := hspec
  have hframe := he.frame
  -- the result of every thread after the step, seen through its program counter before the step
  have hlp' : ∀ t2, t2 ≠ t → lpRet s'.mark s'.key (s'.pc t2) = lpRet s'.mark s'.key (g.s.pc t2) := by
    intro t2 ht; rw [hframe t2 ht]
  -- fixed results are kept
  have hkeep : ∀ t2 r, lpRet g.s.mark g.s.key (g.s.pc t2) = some r → lpRet s'.mark s'.key (s'.pc t2) = some r := by
    intro t2 r h1
    by_cases ht : t2 = t
    · subst ht; exact he.keep r h1
    · rw [hlp' t2 ht]; exact he.keepo t2 ht r h1
  -- a result that becomes fixed is the specification's answer
  have hfix : ∀ t2 r, lpRet g.s.mark g.s.key (g.s.pc t2) = none → lpRet s'.mark s'.key (s'.pc t2) = some r →
      ∃ op k, g.pend t2 = some (op, k) ∧
        (t2 = t → LPok (Has g.s.mark g.s.key g.s.val L) op r (Has s'.mark s'.key s'.val L')) ∧
        (t2 ≠ t → LPok (Has s'.mark s'.key s'.val L') op r (Has s'.mark s'.key s'.val L')) := by
    intro t2 r h1 h2
    by_cases ht : t2 = t
    · subst ht
      obtain ⟨op, ho, hok⟩ := he.lp h1 r h2
      obtain ⟨k, hk⟩ := hpre t2 op ho
      exact ⟨op, k, hk, fun _ => hok, fun hn => absurd rfl hn⟩
    · rw [hlp' t2 ht] at h2
      obtain ⟨op, ho, hok⟩ := he.help t2 ht h1 r h2
      obtain ⟨k, hk⟩ := hpre t2 op ho
      exact ⟨op, k, hk, fun e => absurd e ht, fun _ => hok⟩
  let ents := (stepThreads g t).filterMap (entryOf g s')
  have hlog : (gnext g t s' (.ev ev)).log = g.log ++ ents := rfl
  have hents : ∀ e ∈ ents, ∃ t2 op k r, t2 ∈ stepThreads g t ∧ lpRet g.s.mark g.s.key (g.s.pc t2) = none ∧
      lpRet s'.mark s'.key (s'.pc t2) = some r ∧ g.pend t2 = some (op, k) ∧ e = ⟨t2, op, r, k, none⟩ := by
    intro e he'
    obtain ⟨t2, ht2, hft⟩ := List.mem_filterMap.mp he'
    obtain ⟨op, k, r, h1, h2, h3, h4⟩ := entryOf_some hft
    exact ⟨t2, op, k, r, ht2, h1, h2, h3, h4⟩
  have hopen_ents : ∀ t2, openOf t2 ents = if t2 ∈ stepThreads g t then (entryOf g s' t2).toList else [] := by
    intro t2
    refine openOf_filterMap (entryOf g s') ?_ t2 _ (stepThreads_nodup t hactnd)
    intro t3 e h3
    obtain ⟨op, k, r, -, -, -, rfl⟩ := entryOf_some h3
    exact ⟨rfl, rfl⟩
  constructor
  · -- the log stays a legal sequential execution that ends in (a representation of) the abstract map
    show ∃ m', runSpec [] (g.log ++ ents) = some m' ∧ _
    rw [runSpec_append, hm1]
    simp only [Option.bind_some]
    show ∃ m', runSpec m ((stepThreads g t).filterMap (entryOf g s')) = some m' ∧ _
    simp only [stepThreads, List.filterMap_cons]
    -- the helped entries are read-only on the abstract map after the step
    have hhelped : ∀ e ∈ (g.active.filter (fun t2 => decide (t2 ≠ t))).filterMap (entryOf g s'),
        LPok (Has s'.mark s'.key s'.val L') e.op e.ret (Has s'.mark s'.key s'.val L') := by
      intro e he'
      obtain ⟨t2, ht2, hft⟩ := List.mem_filterMap.mp he'
      have hne : t2 ≠ t := by simpa using (List.mem_filter.mp ht2).2
      obtain ⟨op, k, r, h1, h2, h3, rfl⟩ := entryOf_some hft
      obtain ⟨op', k', hk', -, hok⟩ := hfix t2 r h1 h2
      rw [h3] at hk'; simp at hk'
      simp only; rw [hk'.1]; exact hok hne
    cases hown : entryOf g s' t with
    | none =>
      have hsame : ∀ k v, Has s'.mark s'.key s'.val L' k v ↔ Has g.s.mark g.s.key g.s.val L k v := by
        apply he.nolp
        cases h1 : lpRet g.s.mark g.s.key (g.s.pc t) with
        | some r => left; simp
        | none =>
          right
          cases h2 : lpRet s'.mark s'.key (s'.pc t) with
          | none => rfl
          | some r =>
            obtain ⟨op, k, hk, -, -⟩ := hfix t r h1 h2
            rw [entryOf_mk h1 h2 hk] at hown; simp at hown
      obtain ⟨m', hr, hm'⟩ := runSpec_stable _ hhelped m (fun k v => (hm2 k v).trans (hsame k v).symm)
      exact ⟨m', hr, by simpa only [gnext] using hm'⟩
    | some e =>
      obtain ⟨op, k, r, h1, h2, h3, rfl⟩ := entryOf_some hown
      obtain ⟨op', k', hk', hok, -⟩ := hfix t r h1 h2
      rw [h3] at hk'; simp at hk'
      obtain ⟨m1, hn1, hm1'⟩ := (hk'.1 ▸ hok rfl) m hm2
      obtain ⟨m', hr, hm'⟩ := runSpec_stable _ hhelped m1 hm1'
      refine ⟨m', ?_, by simpa only [gnext] using hm'⟩
      simp only [runSpec, hn1, Option.bind_some, hr]
  · rw [hlog]; intro e he'
    simp only [gnext]
    rcases List.mem_append.mp he' with h | h
    · have := hinvlt e h; omega
    · obtain ⟨t2, op, k, r, -, -, -, h3, rfl⟩ := hents e h
      have := hpendlt t2 op k h3; simp only; omega
  · rw [hlog, List.pairwise_append]
    refine ⟨hrt, ?_, ?_⟩
    · refine List.Pairwise.imp_of_mem (R := fun _ _ => True) ?_ (List.pairwise_of_forall (fun _ _ => trivial))
      intro a b _ hb _ r' hr'
      obtain ⟨t2, op, k, r, -, -, -, -, rfl⟩ := hents b hb
      simp at hr'
    · intro a _ b hb r' hr'
      obtain ⟨t2, op, k, r, -, -, -, -, rfl⟩ := hents b hb
      simp at hr'
  · rw [hlog, completed_append, completed_open ents, List.append_nil]
    · exact hcomp
    · intro e he'
      obtain ⟨t2, op, k, r, -, -, -, -, rfl⟩ := hents e he'
      rfl
  · intro t2 op2 k2 h
    simp only [gnext] at h ⊢
    have := hpendlt t2 op2 k2 h; omega
  · intro t2 op2
    simp only [gnext]
    by_cases ht : t2 = t
    · subst ht; intro h; exact hpre t2 op2 (he.op op2 h)
    · rw [hframe t2 ht]; exact hpre t2 op2
  · intro t2
    rw [hlog]; simp only [gnext]
    intro h2
    have h1 : lpRet g.s.mark g.s.key (g.s.pc t2) = none := by
      cases h1 : lpRet g.s.mark g.s.key (g.s.pc t2) with
      | none => rfl
      | some r => rw [hkeep t2 r h1] at h2; simp at h2
    rw [openOf_append, hpreopen t2 h1, hopen_ents, entryOf_none_of_open h2]
    simp
  · intro t2 r
    rw [hlog]; simp only [gnext]
    intro h2
    cases h1 : lpRet g.s.mark g.s.key (g.s.pc t2) with
    | some r0 =>
      have := hkeep t2 r0 h1
      rw [h2] at this; simp at this; subst this
      obtain ⟨op, k, h3, h4⟩ := hpost t2 r h1
      refine ⟨op, k, h3, ?_⟩
      rw [openOf_append, h4, hopen_ents, entryOf_none_of_fixed h1]
      simp
    | none =>
      obtain ⟨op, k, hk, -, -⟩ := hfix t2 r h1 h2
      refine ⟨op, k, hk, ?_⟩
      have hmem : t2 ∈ stepThreads g t := by
        rw [mem_stepThreads]
        by_cases ht : t2 = t
        · exact Or.inl ht
        · exact Or.inr ⟨hact t2 op k hk, ht⟩
      rw [openOf_append, hpreopen t2 h1, hopen_ents, entryOf_mk h1 h2 hk]
      simp [hmem]
  · intro t2
    simp only [gnext]
    by_cases ht : t2 = t
    · subst ht; intro h; exact absurd h he.busy.2
    · rw [hframe t2 ht]; exact hidle t2
  · exact hact
  · exact hactnd

theorem gnext_s (g : GSt) (t : Tid) (s' : St) (o : Obs) : (gnext g t s' o).s = s' := by
  cases o <;> simp only [gnext]
  split <;> rfl

theorem gnext_clock (g : GSt) (t : Tid) (s' : St) (o : Obs) : (gnext g t s' o).clock = g.clock + 1 := by
  cases o <;> simp only [gnext]
  split <;> rfl

theorem gnext_hist (g : GSt) (t : Tid) (s' : St) (o : Obs) (os : List (Tid × Obs)) :
    (gnext g t s' o).hist ++ histAux (g.clock + 1) (gnext g t s' o).pend os
      = g.hist ++ histAux g.clock g.pend ((t, o) :: os) := by
  cases o with
  | call op => simp only [gnext, histAux]
  | ev e => simp only [gnext, histAux]
  | ret r =>
    simp only [gnext, histAux]
    cases hp : g.pend t with
    | none => simp only
    | some p => obtain ⟨op, k⟩ := p; simp only [List.append_assoc, List.singleton_append]

theorem gnext_pend (g : GSt) (t : Tid) (s' : St) (o : Obs) (os : List (Tid × Obs)) :
    pendAux (g.clock + 1) (gnext g t s' o).pend os = pendAux g.clock g.pend ((t, o) :: os) := by
  cases o with
  | call op => simp only [gnext, pendAux]
  | ev e => simp only [gnext, pendAux]
  | ret r =>
    simp only [gnext, pendAux]
    cases hp : g.pend t with
    | none => simp only
    | some p => obtain ⟨op, k⟩ := p; simp only

theorem ginv_apply {g : GSt} {t : Tid} {a : Act} {s' : St} {o : Obs} (h : GInv g)
    (hap : model.apply g.s t a = some (s', o)) : GInv (gnext g t s' o) := by
  cases a with
  | invoke op =>
    simp only [Model.apply, model, Option.map_eq_some_iff] at hap
    obtain ⟨s1, hs1, heq⟩ := hap
    simp only [Prod.mk.injEq] at heq
    obtain ⟨rfl, rfl⟩ := heq
    exact ginv_invoke h hs1
  | step =>
    simp only [Model.apply, model, Option.map_eq_some_iff] at hap
    obtain ⟨⟨s1, e⟩, hs1, heq⟩ := hap
    simp only [Prod.mk.injEq] at heq
    obtain ⟨rfl, rfl⟩ := heq
    exact ginv_step h hs1
  | ret =>
    simp only [Model.apply, model, Option.map_eq_some_iff] at hap
    obtain ⟨⟨s1, r⟩, hs1, heq⟩ := hap
    simp only [Prod.mk.injEq] at heq
    obtain ⟨rfl, rfl⟩ := heq
    exact ginv_result h hs1

theorem gnext_trace (g : GSt) (t : Tid) (s' : St) (o : Obs) : (gnext g t s' o).trace = g.trace ++ [g.s] := by
  cases o <;> simp only [gnext]
  split <;> rfl

/-! ### Every operation takes effect at an instant inside its interval -/

/-- In state `s1` the abstract map answers `op` with `r` (the sequential specification on `absMap s1`). -/
def Answers (s1 : St) (op : GOp) (r : GRet) : Prop := ∃ m', Spec.map.next (absMap s1) op r = some m'

/-- Second ghost invariant: every operation that has fixed its result `r`, and every operation that has returned, has
    an instant `j` after its call (and not after its return) at which the abstract map answered the operation with
    `r`.  `(g.trace ++ [g.s])[j]` is the state before action `j` (the current state for `j = g.clock`). -/
structure GE (g : GSt) : Prop where
  tlen : g.trace.length = g.clock
  histw : ∀ r, r ∈ g.hist → ∃ j s1, r.inv < j ∧ j ≤ r.res ∧ (g.trace ++ [g.s])[j]? = some s1 ∧ Answers s1 r.op r.ret
  pendw : ∀ t r, lpRet g.s.mark g.s.key (g.s.pc t) = some r →
    ∃ j s1 op k, g.pend t = some (op, k) ∧ k < j ∧ j ≤ g.clock ∧ (g.trace ++ [g.s])[j]? = some s1 ∧ Answers s1 op r

theorem ge_init : GE ginit := by
  constructor <;> simp [ginit, init, lpRet]

theorem snoc_get_last {α : Type} (l : List α) (x : α) (n : Nat) (h : l.length = n) : (l ++ [x])[n]? = some x := by
  subst h; simp

theorem ge_invoke {g : GSt} {t : Tid} {op : GOp} {s' : St} (h : GInv g) (he : GE g)
    (hs : invoke g.s t op = some s') : GE (gnext g t s' (.call op)) := by
  obtain ⟨L, hl, hg⟩ := h
  obtain ⟨-, hie⟩ := sinvl_invoke hl hs
  obtain ⟨htlen, hhist, hpend⟩ := he
  constructor
  · simp only [gnext, List.length_append, List.length_singleton, htlen]
  · intro r hr
    obtain ⟨j, s1, h1, h2, h3, h4⟩ := hhist r hr
    exact ⟨j, s1, h1, h2, getElem?_snoc_of_some h3, h4⟩
  · intro t2 r
    simp only [gnext]
    by_cases ht : t2 = t
    · subst ht; rw [hie.now.2]; intro h; simp at h
    · rw [hie.frame t2 ht, hie.lps t2 ht]; intro h
      obtain ⟨j, s1, op2, k, h1, h2, h3, h4, h5⟩ := hpend t2 r h
      exact ⟨j, s1, op2, k, by simp [upd, ht, h1], h2, by omega, getElem?_snoc_of_some h4, h5⟩

theorem ge_result {g : GSt} {t : Tid} {r : GRet} {s' : St} (h : GInv g) (he : GE g)
    (hs : result g.s t = some (s', r)) : GE (gnext g t s' (.ret r)) := by
  obtain ⟨L, hl, hg⟩ := h
  obtain ⟨-, hdone, hidl, hframe, hkey, -, hmark, -, -, -⟩ := sinvl_result hl hs
  obtain ⟨htlen, hhist, hpend⟩ := he
  obtain ⟨op, k, hp, -⟩ := hg.post t r (by simp [hdone, lpRet])
  simp only [gnext, hp]
  constructor <;> dsimp only
  · simp only [List.length_append, List.length_singleton, htlen]
  · intro r0 hr
    rcases List.mem_append.mp hr with hr | hr
    · obtain ⟨j, s1, h1, h2, h3, h4⟩ := hhist r0 hr
      exact ⟨j, s1, h1, h2, getElem?_snoc_of_some h3, h4⟩
    · simp at hr; subst hr
      obtain ⟨j, s1, op2, k2, h1, h2, h3, h4, h5⟩ := hpend t r (by rw [hdone]; simp [lpRet])
      rw [hp] at h1; simp at h1
      obtain ⟨rfl, rfl⟩ := h1
      exact ⟨j, s1, h2, h3, getElem?_snoc_of_some h4, h5⟩
  · intro t2 r2
    by_cases ht : t2 = t
    · subst ht; rw [hidl]; intro h; simp [lpRet] at h
    · rw [hframe t2 ht, hkey, hmark]; intro h
      obtain ⟨j, s1, op2, k2, h1, h2, h3, h4, h5⟩ := hpend t2 r2 h
      exact ⟨j, s1, op2, k2, by simp [upd, ht, h1], h2, by omega, getElem?_snoc_of_some h4, h5⟩

theorem ge_step {g : GSt} {t : Tid} {ev : Ev} {s' : St} (h : GInv g) (he : GE g)
    (hs : step g.s t = some (s', ev)) : GE (gnext g t s' (.ev ev)) := by
  obtain ⟨L, hl, hg⟩ := h
  obtain ⟨L', hl', hse⟩ := sinvl_step hl hs
  obtain ⟨htlen, hhist, hpend⟩ := he
  constructor
  · simp only [gnext, List.length_append, List.length_singleton, htlen]
  · intro r hr
    obtain ⟨j, s1, h1, h2, h3, h4⟩ := hhist r hr
    exact ⟨j, s1, h1, h2, getElem?_snoc_of_some h3, h4⟩
  · intro t2 r
    simp only [gnext]
    intro h2
    cases h1 : lpRet g.s.mark g.s.key (g.s.pc t2) with
    | some r0 =>
      have hr : r0 = r := by
        by_cases ht : t2 = t
        · subst ht
          have := hse.keep r0 h1
          rw [h2] at this; simp at this; exact this.symm
        · rw [hse.frame t2 ht] at h2
          have := hse.keepo t2 ht r0 h1
          rw [h2] at this; simp at this; exact this.symm
      subst hr
      obtain ⟨j, s1, op2, k, e1, e2, e3, e4, e5⟩ := hpend t2 r0 h1
      exact ⟨j, s1, op2, k, e1, e2, by omega, getElem?_snoc_of_some e4, e5⟩
    | none =>
      by_cases ht : t2 = t
      · -- the thread's own linearization point: the state before this very step
        subst ht
        obtain ⟨op, ho, hok⟩ := hse.lp h1 r h2
        obtain ⟨m', hm1, -⟩ := hok (absMap g.s) hl.mfind_absMap
        obtain ⟨k, hk⟩ := hg.pre t2 op ho
        refine ⟨g.clock, g.s, op, k, hk, hg.pendlt _ _ _ hk, by omega, ?_, m', hm1⟩
        exact getElem?_snoc_of_some (snoc_get_last _ _ _ htlen)
      · -- helped by the stepping thread: the state after this step
        rw [hse.frame t2 ht] at h2
        obtain ⟨op, ho, hok⟩ := hse.help t2 ht h1 r h2
        obtain ⟨m', hm1, -⟩ := hok (absMap s') hl'.mfind_absMap
        obtain ⟨k, hk⟩ := hg.pre t2 op ho
        have := hg.pendlt _ _ _ hk
        refine ⟨g.clock + 1, s', op, k, hk, by omega, by omega, ?_, m', hm1⟩
        exact snoc_get_last _ _ _ (by simp [htlen])

theorem ge_apply {g : GSt} {t : Tid} {a : Act} {s' : St} {o : Obs} (h : GInv g) (he : GE g)
    (hap : model.apply g.s t a = some (s', o)) : GE (gnext g t s' o) := by
  cases a with
  | invoke op =>
    simp only [Model.apply, model, Option.map_eq_some_iff] at hap
    obtain ⟨s1, hs1, heq⟩ := hap
    simp only [Prod.mk.injEq] at heq
    obtain ⟨rfl, rfl⟩ := heq
    exact ge_invoke h he hs1
  | step =>
    simp only [Model.apply, model, Option.map_eq_some_iff] at hap
    obtain ⟨⟨s1, e⟩, hs1, heq⟩ := hap
    simp only [Prod.mk.injEq] at heq
    obtain ⟨rfl, rfl⟩ := heq
    exact ge_step h he hs1
  | ret =>
    simp only [Model.apply, model, Option.map_eq_some_iff] at hap
    obtain ⟨⟨s1, r⟩, hs1, heq⟩ := hap
    simp only [Prod.mk.injEq] at heq
    obtain ⟨rfl, rfl⟩ := heq
    exact ge_result h he hs1

/-- The states a run passes through: `(statesOf s sched)[j]` is the state before action `j`. -/
def statesOf : St → List (Tid × Act) → List St
  | _, [] => []
  | s, (t, a) :: rest =>
    s :: (match model.apply s t a with
      | some (s', _) => statesOf s' rest
      | none => [])

/-- `(statesOf s sched)[j]` is the state reached by the first `j` actions of the run, which produce the first `j`
    observations. -/
theorem statesOf_prefix : ∀ (sched : List (Tid × Act)) (s s' : St) (os : List (Tid × Obs)) (j : Nat) (s1 : St),
    model.run s sched = some (s', os) → (statesOf s sched)[j]? = some s1 →
    model.run s (sched.take j) = some (s1, os.take j) := by
  intro sched
  induction sched with
  | nil => intro s s' os j s1 _ h; simp [statesOf] at h
  | cons x rest ih =>
    intro s s' os j s1 hr h
    obtain ⟨t, a⟩ := x
    simp only [Model.run] at hr
    cases hap : model.apply s t a with
    | none => simp [hap] at hr
    | some p =>
      obtain ⟨s2, o⟩ := p
      simp only [hap] at hr
      cases hrr : model.run s2 rest with
      | none => simp [hrr] at hr
      | some q =>
        obtain ⟨s3, os2⟩ := q
        simp only [hrr, Option.some.injEq, Prod.mk.injEq] at hr
        obtain ⟨rfl, rfl⟩ := hr
        cases j with
        | zero =>
          simp [statesOf] at h
          subst h
          simp [Model.run]
        | succ j =>
          simp only [statesOf, hap, List.getElem?_cons_succ] at h
          have := ih s2 s3 os2 j s1 hrr h
          simp only [List.take_succ_cons, Model.run, hap, this]

/-- Every run of the model lifts to an instrumented run: the ghost state at the end satisfies the invariants, and
    its `hist` / `pend` / `trace` are the history / pending table / state sequence of the run. -/
theorem run_ghost : ∀ (sched : List (Tid × Act)) (g : GSt) (s' : St) (os : List (Tid × Obs)),
    GInv g → GE g → model.run g.s sched = some (s', os) →
    ∃ g', GInv g' ∧ GE g' ∧ g'.s = s' ∧ g'.hist = g.hist ++ histAux g.clock g.pend os ∧
      g'.pend = pendAux g.clock g.pend os ∧ g'.clock = g.clock + os.length ∧
      g'.trace = g.trace ++ statesOf g.s sched := by
  intro sched
  induction sched with
  | nil =>
    intro g s' os hg he hr
    simp [Model.run] at hr
    obtain ⟨rfl, rfl⟩ := hr
    exact ⟨g, hg, he, rfl, by simp [histAux], by simp [pendAux], by simp, by simp [statesOf]⟩
  | cons x rest ih =>
    intro g s' os hg he hr
    obtain ⟨t, a⟩ := x
    simp only [Model.run] at hr
    cases hap : model.apply g.s t a with
    | none => simp [hap] at hr
    | some p =>
      obtain ⟨s1, o⟩ := p
      simp only [hap] at hr
      cases hrr : model.run s1 rest with
      | none => simp [hrr] at hr
      | some q =>
        obtain ⟨s2, os2⟩ := q
        simp only [hrr, Option.some.injEq, Prod.mk.injEq] at hr
        obtain ⟨rfl, rfl⟩ := hr
        have hg1 := ginv_apply hg hap
        have he1 := ge_apply hg he hap
        have hrr' : model.run (gnext g t s1 o).s rest = some (s2, os2) := by rw [gnext_s]; exact hrr
        obtain ⟨g', hg', he', hs', hh, hp, hc, htr⟩ := ih (gnext g t s1 o) s2 os2 hg1 he1 hrr'
        refine ⟨g', hg', he', hs', ?_, ?_, ?_, ?_⟩
        · rw [hh, gnext_clock, gnext_hist]
        · rw [hp, gnext_clock, gnext_pend]
        · rw [hc, gnext_clock]; simp; omega
        · rw [htr, gnext_trace, gnext_s]; simp [statesOf, hap]

/-! ### From the ghost invariant to linearizability -/

/-- The linearization extracted from the ghost log. -/
theorem ginv_linearizable {g : GSt} (h : GInv g) :
    Linearizable Spec.map (g.hist ++ (openAll g.log).map (LE.fin g.clock)) ∧
    (∀ e ∈ (openAll g.log).map (LE.fin g.clock),
        g.pend e.tid = some (e.op, e.inv) ∧ e.res = g.clock ∧
          lpRet g.s.mark g.s.key (g.s.pc e.tid) = some e.ret) ∧
    ((openAll g.log).map (LE.fin g.clock)).Pairwise (fun a b => a.tid ≠ b.tid) := by
  obtain ⟨L, hl, hg⟩ := h
  obtain ⟨hspec, hinvlt, hrt, hcomp, hpendlt, hpre, hpreopen, hpost, hidle, hact, hactnd⟩ := hg
  obtain ⟨m, hm1, -⟩ := hspec
  refine ⟨⟨g.log.map (LE.fin g.clock), ?_, ?_, ?_⟩, ?_, ?_⟩
  · exact (completed_openAll_perm g.clock g.log).symm.trans (List.Perm.append_right _ hcomp)
  · unfold RespectsRT
    rw [List.pairwise_map]
    refine List.Pairwise.imp_of_mem ?_ hrt
    intro a b ha _ hab
    simp only [LE.fin]
    cases hr : b.res with
    | none => have := hinvlt a ha; simp; omega
    | some r => have := hab r hr; simp; omega
  · exact legal_of_runSpec g.clock g.log [] _ hm1
  · intro e' he'
    obtain ⟨e, he, rfl⟩ := List.mem_map.mp he'
    have he2 := List.mem_filter.mp he
    have hr : e.res = none := by cases h : e.res <;> simp_all
    have hmem : e ∈ openOf e.tid g.log := by
      simp only [openOf, List.mem_filter]; exact ⟨he2.1, by simp [hr]⟩
    cases hp : lpRet g.s.mark g.s.key (g.s.pc e.tid) with
    | none => rw [hpreopen e.tid hp] at hmem; simp at hmem
    | some r =>
      obtain ⟨op, k, h1, h2⟩ := hpost e.tid r hp
      rw [h2] at hmem
      simp at hmem
      have e1 : e.op = op := by rw [hmem]
      have e2 : e.inv = k := by rw [hmem]
      have e3 : e.ret = r := by rw [hmem]
      simp [LE.fin, hr, h1, e1, e2, e3, hp]
  · rw [List.pairwise_map]
    refine openAll_pairwise g.log ?_
    intro t
    cases hp : lpRet g.s.mark g.s.key (g.s.pc t) with
    | none => rw [hpreopen t hp]; simp
    | some r => obtain ⟨op, k, -, h2⟩ := hpost t r hp; rw [h2]; simp

/-! ### Main theorems -/

theorem run_ghost_init {sched : List (Tid × Act)} {s : St} {os : List (Tid × Obs)}
    (h : model.run init sched = some (s, os)) :
    ∃ g, GInv g ∧ GE g ∧ g.s = s ∧ g.hist = historyOf os ∧ g.pend = pendingOf os ∧ g.clock = os.length ∧
      g.trace = statesOf init sched := by
  obtain ⟨g, hg, he, h1, h2, h3, h4, h5⟩ := run_ghost sched ginit s os ginv_init ge_init h
  exact ⟨g, hg, he, h1, by simpa [ginit, historyOf] using h2, by simpa [ginit, pendingOf] using h3,
    by simpa [ginit] using h4, by simpa [ginit] using h5⟩

/-- **Linearizability of LazyList** (Herlihy–Wing, with completion of pending operations).
    For every run of the model, the history of the completed operations, extended by response records `extra` for the
    operations still pending at the end whose result is already fixed (`lpRet`: they have passed their linearization
    point; they get that result and the response time "end of the run"; at most one per thread), is linearizable to
    the sequential map.  All other pending operations are dropped. -/
theorem lazy_linearizable (sched : List (Tid × Act)) (s : St) (os : List (Tid × Obs))
    (h : model.run init sched = some (s, os)) :
    ∃ extra : List (OpRec GOp GRet),
      (∀ e ∈ extra, pendingOf os e.tid = some (e.op, e.inv) ∧ e.res = os.length ∧
          lpRet s.mark s.key (s.pc e.tid) = some e.ret) ∧
      extra.Pairwise (fun a b => a.tid ≠ b.tid) ∧
      Linearizable Spec.map (historyOf os ++ extra) := by
  obtain ⟨g, hg, -, rfl, h2, h3, h4, -⟩ := run_ghost_init h
  obtain ⟨hlin, hex, hpw⟩ := ginv_linearizable hg
  rw [h2, h3, h4] at *
  exact ⟨_, hex, hpw, hlin⟩

/-- If no operation pending at the end of the run has its result fixed (threads may be idle or in the middle of an
    operation that has not taken effect), the history of the completed operations is linearizable as it is. -/
theorem lazy_linearizable_no_effect_pending (sched : List (Tid × Act)) (s : St) (os : List (Tid × Obs))
    (h : model.run init sched = some (s, os)) (hq : ∀ t, lpRet s.mark s.key (s.pc t) = none) :
    Linearizable Spec.map (historyOf os) := by
  obtain ⟨extra, hex, -, hlin⟩ := lazy_linearizable sched s os h
  have : extra = [] := by
    apply List.eq_nil_iff_forall_not_mem.mpr
    intro e he
    have := (hex e he).2.2
    rw [hq] at this; simp at this
  simpa [this] using hlin

/-- Runs in which every invoked operation has returned. -/
theorem lazy_linearizable_complete_runs (sched : List (Tid × Act)) (s : St) (os : List (Tid × Obs))
    (h : model.run init sched = some (s, os)) (hq : ∀ t, s.pc t = .idle) :
    Linearizable Spec.map (historyOf os) :=
  lazy_linearizable_no_effect_pending sched s os h (fun t => by simp [hq t, lpRet])

/-- Every history record of a run is well formed (`inv < res`): the executable checker `linCheck` decides
    linearizability of such histories (`Lin.linCheck_iff`). -/
theorem historyOf_wf (os : List (Tid × Obs)) : ∀ r ∈ historyOf os, r.inv ≤ r.res :=
  fun r hr => Nat.le_of_lt (historyOf_sound os r hr).2.2

/-- **Every completed operation takes effect inside its interval.**  For every run and every completed operation
    `r` of its history there is an instant `j` after the call (observation `r.inv`) and not after the return
    (observation `r.res`) such that in the state `s1` reached by the first `j` actions of the run the abstract map
    `absMap s1` answers `r.op` with `r.ret` according to the sequential specification.  For the unlocked `contains` /
    `find` this is the classic LazyList statement: a key reported absent was absent at some instant during the call, a
    key reported present was present. -/
theorem lazy_effect_instant (sched : List (Tid × Act)) (s : St) (os : List (Tid × Obs))
    (h : model.run init sched = some (s, os)) (r : OpRec GOp GRet) (hr : r ∈ historyOf os) :
    ∃ j s1, r.inv < j ∧ j ≤ r.res ∧ model.run init (sched.take j) = some (s1, os.take j) ∧ Answers s1 r.op r.ret := by
  obtain ⟨g, -, he, -, h2, -, h4, h5⟩ := run_ghost_init h
  obtain ⟨j, s1, e1, e2, e3, e4⟩ := he.histw r (h2 ▸ hr)
  have hres : r.res < os.length := by
    have := (historyOf_sound os r hr).2.1
    cases hlt : decide (r.res < os.length) with
    | true => simpa using hlt
    | false => simp at hlt; rw [List.getElem?_eq_none hlt] at this; simp at this
  have hj : j < g.trace.length := by rw [he.tlen, h4]; omega
  rw [List.getElem?_append_left hj, h5] at e3
  exact ⟨j, s1, e1, e2, statesOf_prefix sched init s os j s1 h e3, e4⟩

theorem answers_absent {s1 : St} {op : GOp} {k : Int} (h : Answers s1 op [0])
    (hop : op = ⟨"erase", [k]⟩ ∨ op = ⟨"extract", [k]⟩ ∨ op = ⟨"find", [k]⟩ ∨ op = ⟨"contains", [k]⟩) :
    mfind (absMap s1) k = none := by
  obtain ⟨m', hm⟩ := h
  cases hf : mfind (absMap s1) k with
  | none => rfl
  | some v => rcases hop with rfl | rfl | rfl | rfl <;> simp [Spec.map, detSpec, mapStep, hf] at hm

theorem answers_present {s1 : St} {op : GOp} {r : GRet} {k : Int} (h : Answers s1 op r)
    (hop : (∃ v, op = ⟨"insert", [k, v]⟩ ∧ r = [0]) ∨ (∃ v, op = ⟨"find", [k]⟩ ∧ r = [1, v]) ∨
      (op = ⟨"contains", [k]⟩ ∧ r = [1]) ∨ (∃ v, op = ⟨"erase", [k]⟩ ∧ r = [1, v]) ∨
      (∃ v, op = ⟨"extract", [k]⟩ ∧ r = [1, v])) :
    ∃ v, mfind (absMap s1) k = some v ∧ ∀ w, r = [1, w] → w = v := by
  obtain ⟨m', hm⟩ := h
  cases hf : mfind (absMap s1) k with
  | none => rcases hop with ⟨v, rfl, rfl⟩ | ⟨v, rfl, rfl⟩ | ⟨rfl, rfl⟩ | ⟨v, rfl, rfl⟩ | ⟨v, rfl, rfl⟩ <;>
      simp [Spec.map, detSpec, mapStep, hf] at hm
  | some v =>
    refine ⟨v, rfl, ?_⟩
    rcases hop with ⟨v', rfl, rfl⟩ | ⟨v', rfl, rfl⟩ | ⟨rfl, rfl⟩ | ⟨v', rfl, rfl⟩ | ⟨v', rfl, rfl⟩ <;>
      simp [Spec.map, detSpec, mapStep, hf] at hm ⊢
    · exact hm.1
    · exact hm.1
    · exact hm.1

/-- Hindsight for "key absent": a completed `erase k` / `extract k` / `find k` / `contains k` that answered `[0]` has an
    instant inside its interval at which no unmarked linked item carried the key `k`. -/
theorem lazy_absent_hindsight (sched : List (Tid × Act)) (s : St) (os : List (Tid × Obs))
    (h : model.run init sched = some (s, os)) (r : OpRec GOp GRet) (hr : r ∈ historyOf os) (k : Int)
    (hop : r.op = ⟨"erase", [k]⟩ ∨ r.op = ⟨"extract", [k]⟩ ∨ r.op = ⟨"find", [k]⟩ ∨ r.op = ⟨"contains", [k]⟩)
    (hret : r.ret = [0]) :
    ∃ j s1, r.inv < j ∧ j ≤ r.res ∧ model.run init (sched.take j) = some (s1, os.take j) ∧
      ∀ v, (k, v) ∉ absMap s1 := by
  obtain ⟨j, s1, h1, h2, h3, h4⟩ := lazy_effect_instant sched s os h r hr
  refine ⟨j, s1, h1, h2, h3, ?_⟩
  obtain ⟨L, hl⟩ := sinv_reachable s1 ⟨_, _, h3⟩
  intro v hv
  have := (hl.mfind_absMap k v).mpr ((hl.has_iff k v).mpr hv)
  rw [answers_absent (hret ▸ h4) hop] at this
  simp at this

/-- Hindsight for "key present": a completed failing `insert k _`, a successful `find k` (→ `[1, v]`), a successful
    `contains k` or a successful `erase k` / `extract k` (→ `[1, v]`) has an instant inside its interval at which an
    unmarked linked item carried the key `k` (with the payload `v` reported, if one is reported). -/
theorem lazy_present_hindsight (sched : List (Tid × Act)) (s : St) (os : List (Tid × Obs))
    (h : model.run init sched = some (s, os)) (r : OpRec GOp GRet) (hr : r ∈ historyOf os) (k : Int)
    (hop : (∃ v, r.op = ⟨"insert", [k, v]⟩ ∧ r.ret = [0]) ∨ (∃ v, r.op = ⟨"find", [k]⟩ ∧ r.ret = [1, v]) ∨
      (r.op = ⟨"contains", [k]⟩ ∧ r.ret = [1]) ∨ (∃ v, r.op = ⟨"erase", [k]⟩ ∧ r.ret = [1, v]) ∨
      (∃ v, r.op = ⟨"extract", [k]⟩ ∧ r.ret = [1, v])) :
    ∃ j s1 v, r.inv < j ∧ j ≤ r.res ∧ model.run init (sched.take j) = some (s1, os.take j) ∧
      (k, v) ∈ absMap s1 ∧ ∀ w, r.ret = [1, w] → w = v := by
  obtain ⟨j, s1, h1, h2, h3, h4⟩ := lazy_effect_instant sched s os h r hr
  obtain ⟨v, hv1, hv2⟩ := answers_present h4 hop
  obtain ⟨L, hl⟩ := sinv_reachable s1 ⟨_, _, h3⟩
  exact ⟨j, s1, v, h1, h2, h3, (hl.has_iff k v).mp ((hl.mfind_absMap k v).mp hv1), hv2⟩

end CdsVerif.Algo.Lazy

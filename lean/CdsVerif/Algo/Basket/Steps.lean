/-
  BasketQueue model: every atomic step preserves the structural invariant `SInvL` and has the effect `StepEff` on the
  abstract queue (one lemma per program point).
-/
import CdsVerif.Algo.Basket.Inv
namespace CdsVerif.Algo.Basket
open CdsVerif.Machine CdsVerif.Spec CdsVerif.Lin CdsVerif.Algo.QueueLin

/-- Facts derived from the invariant, in the form the automation uses. -/
structure Facts (s : St) (G M Q : List Nat) : Prop where
  mW : ∀ c, c ∈ G ++ (M ++ Q) ↔ (c ∈ G ∨ c ∈ M ∨ c ∈ Q)
  dGM : ∀ c, c ∈ G → c ∉ M
  dGQ : ∀ c, c ∈ G → c ∉ Q
  dMQ : ∀ c, c ∈ M → c ∉ Q
  ws : ∀ a x, a ∈ G ++ (M ++ Q) → s.nptr a = some x → x ∈ G ++ (M ++ Q)
  ls : ∀ a x, (a ∈ G ∨ a ∈ M) → s.nptr a = some x → Low G M Q x
  hm : Mid M Q s.head
  ms : ∀ a x, a ∈ M → s.nptr a = some x → Mid M Q x
  qh : ∀ x, Q.head? = some x → x ∈ Q

theorem SInvL.facts {s : St} {G M Q : List Nat} (h : SInvL s G M Q) : Facts s G M Q where
  mW := fun c => by simp
  dGM := fun c hc hm => h.gdis c hc (List.mem_append_left _ hm)
  dGQ := fun c hc hq => h.gdis c hc (List.mem_append_right _ hq)
  dMQ := fun c hm hq => (List.nodup_append.mp h.nodup).2.2 c hm c hq rfl
  ws := fun a x ha hx => h.wsucc ha hx
  ls := fun a x ha hx => h.low_succ ha hx
  hm := h.head_mid
  ms := fun a x ha hx => chain_mid_succ h.chain ha hx
  qh := fun x hx => List.mem_of_mem_head? hx

macro "sinv_close" : tactic =>
  `(tactic| (constructor <;> intros <;> (try dsimp only at *) <;>
      grind [upd, Pub, pub_mk, enqNode, wnodes, lows, deqH, midOf, linkOf, pcFact, Low, Mid, St.next, skNext, fcEnd,
        Chain.upd]))
macro "eff_close" : tactic =>
  `(tactic| (constructor <;> intros <;> (try dsimp only at *) <;>
      grind [upd, postRet, lpRet, opOf, enqNode, skNext, fcEnd, St.next]))

set_option hygiene false in
macro "inv_open" h:ident : tactic =>
  `(tactic| (
    have hF := SInvL.facts $h
    obtain ⟨fmW, fdGM, fdGQ, fdMQ, fws, fls, fhm, fms, fqh⟩ := hF
    obtain ⟨hch, hnd, hgd, hqne, hbG, hbM, hbQ, hgs, hpub, hpriv, hown, htw, hinw, hlow, hdh, hdhw, hmid, hdck, hlk, hpcf⟩ := $h))

set_option hygiene false in
macro "auto_step" : tactic =>
  `(tactic| (
    simp only [step, hpc, skNext, fcEnd] at hs
    repeat' (split at hs)
    all_goals first
      | (simp at hs; done)
      | (simp at hs; obtain ⟨rfl, -⟩ := hs; refine ⟨G, M, Q, ?_, ?_⟩; sinv_close; eff_close)))

/-- The source of an observed link is the thread's own private node or a published node it holds. -/
theorem link_src {pc : PC} {a : Nat} {v : MP} (h : linkOf pc = some (a, v)) :
    enqNode pc = some a ∨ a ∈ wnodes pc := by
  cases pc <;> simp_all [linkOf, enqNode, wnodes]
  all_goals (rename_i p; obtain ⟨p1, p2⟩ := p; cases p1 <;> cases p2 <;> simp_all [linkOf, wnodes])

set_option maxHeartbeats 1000000 in
/-- An observed link of a published node is marked (and so immutable). -/
theorem link_marked {pc : PC} {a : Nat} {v : MP} (h : linkOf pc = some (a, v)) (hf : pcFact pc) :
    enqNode pc = some a ∨ (v.2 = true ∧ v.1 ≠ none) := by
  cases pc with
  | enqCas n a' b => simp_all [linkOf, enqNode]
  | bkCas n a' p => simp_all [linkOf, enqNode]
  | skHead h' a' it p hops =>
    simp only [linkOf, Option.some.injEq, Prod.mk.injEq] at h
    obtain ⟨rfl, rfl⟩ := h
    right; simpa [pcFact] using hf
  | dChk h' a' p =>
    obtain ⟨p1, p2⟩ := p
    cases p1 <;> cases p2 <;> simp [linkOf] at h
    obtain ⟨rfl, rfl⟩ := h
    right; simp
  | _ => simp [linkOf] at h

theorem sinvl_step_enqLd1 {s s' : St} {t : Tid} {ev : Ev} {G M Q : List Nat} {n : Nat}
    (h : SInvL s G M Q) (hpc : s.pc t = .enqLd1 n) (hs : step s t = some (s', ev)) :
    ∃ G' M' Q', SInvL s' G' M' Q' ∧ StepEff s t s' Q Q' := by
  inv_open h
  auto_step

set_option maxHeartbeats 1000000 in
theorem sinvl_step_enqLd2 {s s' : St} {t : Tid} {ev : Ev} {G M Q : List Nat} {n p : Nat}
    (h : SInvL s G M Q) (hpc : s.pc t = .enqLd2 n p) (hs : step s t = some (s', ev)) :
    ∃ G' M' Q', SInvL s' G' M' Q' ∧ StepEff s t s' Q Q' := by
  inv_open h
  auto_step

set_option maxHeartbeats 1000000 in
theorem sinvl_step_enqNext {s s' : St} {t : Tid} {ev : Ev} {G M Q : List Nat} {n a : Nat}
    (h : SInvL s G M Q) (hpc : s.pc t = .enqNext n a) (hs : step s t = some (s', ev)) :
    ∃ G' M' Q', SInvL s' G' M' Q' ∧ StepEff s t s' Q Q' := by
  inv_open h
  auto_step

set_option maxHeartbeats 1000000 in
theorem sinvl_step_enqInit {s s' : St} {t : Tid} {ev : Ev} {G M Q : List Nat} {n a : Nat} {b : Bool}
    (h : SInvL s G M Q) (hpc : s.pc t = .enqInit n a b) (hs : step s t = some (s', ev)) :
    ∃ G' M' Q', SInvL s' G' M' Q' ∧ StepEff s t s' Q Q' := by
  inv_open h
  have hnW : n ∉ G ++ (M ++ Q) := fun hm => (hpub n hm).2 t (by simp [hpc, enqNode])
  have hnL : n ∉ M ++ Q := fun hm => hnW (List.mem_append_right _ hm)
  have hsrc : ∀ t2 b v, linkOf (s.pc t2) = some (b, v) → b = n → t2 = t := by
    intro t2 b v hl hb
    rcases link_src hl with h1 | h1
    · exact hown t2 t n (hb ▸ h1) (by simp [hpc, enqNode])
    · exact absurd (hb ▸ hinw t2 b h1) hnW
  auto_step

set_option maxHeartbeats 1000000 in
theorem sinvl_step_enqSwing {s s' : St} {t : Tid} {ev : Ev} {G M Q : List Nat} {n a : Nat}
    (h : SInvL s G M Q) (hpc : s.pc t = .enqSwing n a) (hs : step s t = some (s', ev)) :
    ∃ G' M' Q', SInvL s' G' M' Q' ∧ StepEff s t s' Q Q' := by
  inv_open h
  auto_step

set_option maxHeartbeats 1000000 in
theorem sinvl_step_bkLd1 {s s' : St} {t : Tid} {ev : Ev} {G M Q : List Nat} {n a : Nat}
    (h : SInvL s G M Q) (hpc : s.pc t = .bkLd1 n a) (hs : step s t = some (s', ev)) :
    ∃ G' M' Q', SInvL s' G' M' Q' ∧ StepEff s t s' Q Q' := by
  inv_open h
  auto_step

set_option maxHeartbeats 1000000 in
theorem sinvl_step_bkLd2 {s s' : St} {t : Tid} {ev : Ev} {G M Q : List Nat} {n a : Nat} {p : MP}
    (h : SInvL s G M Q) (hpc : s.pc t = .bkLd2 n a p) (hs : step s t = some (s', ev)) :
    ∃ G' M' Q', SInvL s' G' M' Q' ∧ StepEff s t s' Q Q' := by
  inv_open h
  auto_step

set_option maxHeartbeats 1000000 in
theorem sinvl_step_bkTail {s s' : St} {t : Tid} {ev : Ev} {G M Q : List Nat} {n a : Nat} {p : MP}
    (h : SInvL s G M Q) (hpc : s.pc t = .bkTail n a p) (hs : step s t = some (s', ev)) :
    ∃ G' M' Q', SInvL s' G' M' Q' ∧ StepEff s t s' Q Q' := by
  inv_open h
  auto_step

set_option maxHeartbeats 1000000 in
theorem sinvl_step_bkChk {s s' : St} {t : Tid} {ev : Ev} {G M Q : List Nat} {n a : Nat} {p : MP}
    (h : SInvL s G M Q) (hpc : s.pc t = .bkChk n a p) (hs : step s t = some (s', ev)) :
    ∃ G' M' Q', SInvL s' G' M' Q' ∧ StepEff s t s' Q Q' := by
  inv_open h
  auto_step

set_option maxHeartbeats 1000000 in
theorem sinvl_step_bkSet {s s' : St} {t : Tid} {ev : Ev} {G M Q : List Nat} {n a : Nat} {p : MP}
    (h : SInvL s G M Q) (hpc : s.pc t = .bkSet n a p) (hs : step s t = some (s', ev)) :
    ∃ G' M' Q', SInvL s' G' M' Q' ∧ StepEff s t s' Q Q' := by
  inv_open h
  have hnW : n ∉ G ++ (M ++ Q) := fun hm => (hpub n hm).2 t (by simp [hpc, enqNode])
  have hnL : n ∉ M ++ Q := fun hm => hnW (List.mem_append_right _ hm)
  have hsrc : ∀ t2 b v, linkOf (s.pc t2) = some (b, v) → b = n → t2 = t := by
    intro t2 b v hl hb
    rcases link_src hl with h1 | h1
    · exact hown t2 t n (hb ▸ h1) (by simp [hpc, enqNode])
    · exact absurd (hb ▸ hinw t2 b h1) hnW
  auto_step

set_option maxHeartbeats 1000000 in
theorem sinvl_step_fxTail {s s' : St} {t : Tid} {ev : Ev} {G M Q : List Nat} {n a : Nat} {p : MP}
    (h : SInvL s G M Q) (hpc : s.pc t = .fxTail n a p) (hs : step s t = some (s', ev)) :
    ∃ G' M' Q', SInvL s' G' M' Q' ∧ StepEff s t s' Q Q' := by
  inv_open h
  auto_step

set_option maxHeartbeats 1000000 in
theorem sinvl_step_fxChk {s s' : St} {t : Tid} {ev : Ev} {G M Q : List Nat} {n a : Nat} {p : MP}
    (h : SInvL s G M Q) (hpc : s.pc t = .fxChk n a p) (hs : step s t = some (s', ev)) :
    ∃ G' M' Q', SInvL s' G' M' Q' ∧ StepEff s t s' Q Q' := by
  inv_open h
  auto_step

set_option maxHeartbeats 1000000 in
theorem sinvl_step_fxWalk {s s' : St} {t : Tid} {ev : Ev} {G M Q : List Nat} {n a c : Nat}
    (h : SInvL s G M Q) (hpc : s.pc t = .fxWalk n a c) (hs : step s t = some (s', ev)) :
    ∃ G' M' Q', SInvL s' G' M' Q' ∧ StepEff s t s' Q Q' := by
  inv_open h
  auto_step

set_option maxHeartbeats 1000000 in
theorem sinvl_step_fxWTail {s s' : St} {t : Tid} {ev : Ev} {G M Q : List Nat} {n a c : Nat} {p : MP}
    (h : SInvL s G M Q) (hpc : s.pc t = .fxWTail n a c p) (hs : step s t = some (s', ev)) :
    ∃ G' M' Q', SInvL s' G' M' Q' ∧ StepEff s t s' Q Q' := by
  inv_open h
  auto_step

set_option maxHeartbeats 1000000 in
theorem sinvl_step_fxWChk {s s' : St} {t : Tid} {ev : Ev} {G M Q : List Nat} {n a c : Nat} {p : MP}
    (h : SInvL s G M Q) (hpc : s.pc t = .fxWChk n a c p) (hs : step s t = some (s', ev)) :
    ∃ G' M' Q', SInvL s' G' M' Q' ∧ StepEff s t s' Q Q' := by
  inv_open h
  auto_step

set_option maxHeartbeats 1000000 in
theorem sinvl_step_fxCas {s s' : St} {t : Tid} {ev : Ev} {G M Q : List Nat} {n a c : Nat}
    (h : SInvL s G M Q) (hpc : s.pc t = .fxCas n a c) (hs : step s t = some (s', ev)) :
    ∃ G' M' Q', SInvL s' G' M' Q' ∧ StepEff s t s' Q Q' := by
  inv_open h
  auto_step

set_option maxHeartbeats 1000000 in
theorem sinvl_step_dLdH1 {s s' : St} {t : Tid} {ev : Ev} {G M Q : List Nat} 
    (h : SInvL s G M Q) (hpc : s.pc t = .dLdH1 ) (hs : step s t = some (s', ev)) :
    ∃ G' M' Q', SInvL s' G' M' Q' ∧ StepEff s t s' Q Q' := by
  inv_open h
  auto_step

set_option maxHeartbeats 1000000 in
theorem sinvl_step_dLdH2 {s s' : St} {t : Tid} {ev : Ev} {G M Q : List Nat} {p : Nat}
    (h : SInvL s G M Q) (hpc : s.pc t = .dLdH2 p) (hs : step s t = some (s', ev)) :
    ∃ G' M' Q', SInvL s' G' M' Q' ∧ StepEff s t s' Q Q' := by
  inv_open h
  auto_step

set_option maxHeartbeats 1000000 in
theorem sinvl_step_dLdT1 {s s' : St} {t : Tid} {ev : Ev} {G M Q : List Nat} {h' : Nat}
    (h : SInvL s G M Q) (hpc : s.pc t = .dLdT1 h') (hs : step s t = some (s', ev)) :
    ∃ G' M' Q', SInvL s' G' M' Q' ∧ StepEff s t s' Q Q' := by
  inv_open h
  auto_step

set_option maxHeartbeats 1000000 in
theorem sinvl_step_dLdT2 {s s' : St} {t : Tid} {ev : Ev} {G M Q : List Nat} {h' p : Nat}
    (h : SInvL s G M Q) (hpc : s.pc t = .dLdT2 h' p) (hs : step s t = some (s', ev)) :
    ∃ G' M' Q', SInvL s' G' M' Q' ∧ StepEff s t s' Q Q' := by
  inv_open h
  auto_step

set_option maxHeartbeats 1000000 in
theorem sinvl_step_dNx1 {s s' : St} {t : Tid} {ev : Ev} {G M Q : List Nat} {h' a : Nat}
    (h : SInvL s G M Q) (hpc : s.pc t = .dNx1 h' a) (hs : step s t = some (s', ev)) :
    ∃ G' M' Q', SInvL s' G' M' Q' ∧ StepEff s t s' Q Q' := by
  inv_open h
  auto_step

set_option maxHeartbeats 4000000 in
theorem sinvl_step_dChk {s s' : St} {t : Tid} {ev : Ev} {G M Q : List Nat} {h' a : Nat} {p : MP}
    (h : SInvL s G M Q) (hpc : s.pc t = .dChk h' a p) (hs : step s t = some (s', ev)) :
    ∃ G' M' Q', SInvL s' G' M' Q' ∧ StepEff s t s' Q Q' := by
  inv_open h
  obtain ⟨p1, p2⟩ := p
  cases p1 <;> cases p2 <;> auto_step

set_option maxHeartbeats 1000000 in
theorem sinvl_step_hpWalk {s s' : St} {t : Tid} {ev : Ev} {G M Q : List Nat} {h' a c : Nat}
    (h : SInvL s G M Q) (hpc : s.pc t = .hpWalk h' a c) (hs : step s t = some (s', ev)) :
    ∃ G' M' Q', SInvL s' G' M' Q' ∧ StepEff s t s' Q Q' := by
  inv_open h
  auto_step

set_option maxHeartbeats 1000000 in
theorem sinvl_step_hpTail {s s' : St} {t : Tid} {ev : Ev} {G M Q : List Nat} {h' a c : Nat}
    (h : SInvL s G M Q) (hpc : s.pc t = .hpTail h' a c) (hs : step s t = some (s', ev)) :
    ∃ G' M' Q', SInvL s' G' M' Q' ∧ StepEff s t s' Q Q' := by
  inv_open h
  auto_step

set_option maxHeartbeats 1000000 in
theorem sinvl_step_hpP1 {s s' : St} {t : Tid} {ev : Ev} {G M Q : List Nat} {h' a c : Nat}
    (h : SInvL s G M Q) (hpc : s.pc t = .hpP1 h' a c) (hs : step s t = some (s', ev)) :
    ∃ G' M' Q', SInvL s' G' M' Q' ∧ StepEff s t s' Q Q' := by
  inv_open h
  auto_step

set_option maxHeartbeats 1000000 in
theorem sinvl_step_hpP2 {s s' : St} {t : Tid} {ev : Ev} {G M Q : List Nat} {h' a c : Nat} {p : MP}
    (h : SInvL s G M Q) (hpc : s.pc t = .hpP2 h' a c p) (hs : step s t = some (s', ev)) :
    ∃ G' M' Q', SInvL s' G' M' Q' ∧ StepEff s t s' Q Q' := by
  inv_open h
  auto_step

set_option maxHeartbeats 1000000 in
theorem sinvl_step_hpCas {s s' : St} {t : Tid} {ev : Ev} {G M Q : List Nat} {h' a c : Nat}
    (h : SInvL s G M Q) (hpc : s.pc t = .hpCas h' a c) (hs : step s t = some (s', ev)) :
    ∃ G' M' Q', SInvL s' G' M' Q' ∧ StepEff s t s' Q Q' := by
  inv_open h
  auto_step

set_option maxHeartbeats 4000000 in
theorem sinvl_step_skHead {s s' : St} {t : Tid} {ev : Ev} {G M Q : List Nat} {h' a it : Nat} {p : MP} {hops : Nat}
    (h : SInvL s G M Q) (hpc : s.pc t = .skHead h' a it p hops) (hs : step s t = some (s', ev)) :
    ∃ G' M' Q', SInvL s' G' M' Q' ∧ StepEff s t s' Q Q' := by
  inv_open h
  have hnx : s.nptr it = p.1 ∧ s.nbit it = p.2 := by
    have := hlk t it p (by simp [hpc, linkOf]); simpa [St.next, Prod.ext_iff] using this
  have hp2 : p.2 = true := by have := hpcf t; simp [hpc, pcFact] at this; exact this.1
  have hitW := hinw t it (by simp [hpc, wnodes])
  have hgm : ∀ x, p.1 = some x → it ∈ G ∨ it ∈ M := by
    intro x hx
    rcases (fmW it).mp hitW with h1 | h1 | h1
    · exact Or.inl h1
    · exact Or.inr h1
    · have := hbQ it h1 (by rw [hnx.1, hx]; simp); rw [hnx.2, hp2] at this; simp at this
  have hlowx : ∀ x, p.1 = some x → Low G M Q x := fun x hx => fls it x (hgm x hx) (by rw [hnx.1, hx])
  have hxW : ∀ x, p.1 = some x → x ∈ G ++ (M ++ Q) := fun x hx => fws it x hitW (by rw [hnx.1, hx])
  have hmidx : ∀ x, p.1 = some x → s.head = h' → Mid M Q x := by
    intro x hx hh
    have hmi := hmid t h' it (by simp [hpc, midOf]) hh
    have hiM : it ∈ M := by
      rcases hmi with h1 | h1
      · exact h1
      · have := hbQ it (fqh it h1) (by rw [hnx.1, hx]; simp); rw [hnx.2, hp2] at this; simp at this
    exact fms it x hiM (by rw [hnx.1, hx])
  obtain ⟨p1, p2⟩ := p
  cases p1 <;> cases p2 <;> auto_step

set_option maxHeartbeats 1000000 in
theorem sinvl_step_skP1 {s s' : St} {t : Tid} {ev : Ev} {G M Q : List Nat} {h' a it : Nat} {hops : Nat}
    (h : SInvL s G M Q) (hpc : s.pc t = .skP1 h' a it hops) (hs : step s t = some (s', ev)) :
    ∃ G' M' Q', SInvL s' G' M' Q' ∧ StepEff s t s' Q Q' := by
  inv_open h
  auto_step

set_option maxHeartbeats 4000000 in
theorem sinvl_step_skP2 {s s' : St} {t : Tid} {ev : Ev} {G M Q : List Nat} {h' a it : Nat} {p : MP} {hops : Nat}
    (h : SInvL s G M Q) (hpc : s.pc t = .skP2 h' a it p hops) (hs : step s t = some (s', ev)) :
    ∃ G' M' Q', SInvL s' G' M' Q' ∧ StepEff s t s' Q Q' := by
  inv_open h
  obtain ⟨p1, p2⟩ := p
  cases p1 <;> cases p2 <;> auto_step

set_option maxHeartbeats 4000000 in
theorem sinvl_step_dChk2 {s s' : St} {t : Tid} {ev : Ev} {G M Q : List Nat} {h' a it : Nat} {p : MP} {hops : Nat}
    (h : SInvL s G M Q) (hpc : s.pc t = .dChk2 h' a it p hops) (hs : step s t = some (s', ev)) :
    ∃ G' M' Q', SInvL s' G' M' Q' ∧ StepEff s t s' Q Q' := by
  inv_open h
  obtain ⟨p1, p2⟩ := p
  cases p1 <;> cases p2 <;> auto_step

set_option maxHeartbeats 4000000 in
theorem sinvl_step_fcP1 {s s' : St} {t : Tid} {ev : Ev} {G M Q : List Nat} {c nw : Nat} {fin : Option Int}
    (h : SInvL s G M Q) (hpc : s.pc t = .fcP1 c nw fin) (hs : step s t = some (s', ev)) :
    ∃ G' M' Q', SInvL s' G' M' Q' ∧ StepEff s t s' Q Q' := by
  inv_open h
  cases fin <;> auto_step

set_option maxHeartbeats 4000000 in
theorem sinvl_step_fcP2 {s s' : St} {t : Tid} {ev : Ev} {G M Q : List Nat} {c nw : Nat} {p : MP} {fin : Option Int}
    (h : SInvL s G M Q) (hpc : s.pc t = .fcP2 c nw p fin) (hs : step s t = some (s', ev)) :
    ∃ G' M' Q', SInvL s' G' M' Q' ∧ StepEff s t s' Q Q' := by
  inv_open h
  obtain ⟨p1, p2⟩ := p
  cases fin <;> cases p1 <;> cases p2 <;> auto_step

/-! ### The steps that change the lists -/

/-- A published node whose link is null or not marked is in `Q`. -/
theorem SInvL.unmarked_in_Q {s : St} {G M Q : List Nat} (h : SInvL s G M Q) {a : Nat}
    (ha : a ∈ G ++ (M ++ Q)) (hu : s.nptr a = none ∨ s.nbit a = false) : a ∈ Q := by
  rcases List.mem_append.mp ha with h1 | h1
  · have := h.bG a h1; rcases hu with hu | hu <;> simp_all
  · rcases List.mem_append.mp h1 with h2 | h2
    · have := h.bM a h2; rcases hu with hu | hu <;> simp_all
    · exact h2

theorem tail_insert {α β : Type} (f : α → β) (a n : α) : ∀ (X Y : List α),
    ∃ Xq Yq, (X ++ a :: Y).tail.map f = Xq ++ Yq ∧ (X ++ a :: n :: Y).tail.map f = Xq ++ f n :: Yq
  | [], Y => ⟨[], Y.map f, by simp, by simp⟩
  | x :: X, Y => ⟨(X ++ [a]).map f, Y.map f, by simp, by simp⟩

/-- Linking the private node `n` right behind the published node `a` whose link is null or not marked (`enqueue`'s
    first CAS: `a` is the last node; the basket CAS: anywhere in `Q`). -/
theorem SInvL.link_behind {s : St} {G M Q : List Nat} (h : SInvL s G M Q) {a n : Nat}
    (ha : a ∈ G ++ (M ++ Q)) (hu : s.nptr a = none ∨ s.nbit a = false) (hn : n ∉ G ++ (M ++ Q))
    (hnn : s.nptr n = s.nptr a) :
    ∃ Q', Chain (upd s.nptr a (some n)) (some s.head) (M ++ Q') ∧ (M ++ Q').Nodup ∧
      (∀ c, c ∈ Q' ↔ (c = n ∨ c ∈ Q)) ∧ Q'.head? = Q.head? ∧ a ∈ Q ∧
      (∃ Xq Yq, Q.tail.map s.val = Xq ++ Yq ∧ Q'.tail.map s.val = Xq ++ s.val n :: Yq) := by
  have haQ := h.unmarked_in_Q ha hu
  obtain ⟨X, Y, hXY⟩ := List.append_of_mem haQ
  have hnL : n ∉ M ++ Q := fun hm => hn (List.mem_append_right _ hm)
  have hch := h.chain
  have hnd := h.nodup
  rw [hXY, ← List.append_assoc] at hch hnd hnL
  have hch' := Chain.insertAfter hch hnd hnL hnn
  refine ⟨X ++ a :: n :: Y, by rw [← List.append_assoc]; exact hch', ?_, ?_, ?_, haQ, ?_⟩
  · rw [← List.append_assoc]
    have e : (M ++ X) ++ a :: n :: Y = ((M ++ X) ++ [a]) ++ n :: Y := by simp
    have e0 : (M ++ X) ++ a :: Y = ((M ++ X) ++ [a]) ++ Y := by simp
    rw [e]; rw [e0] at hnd hnL
    rw [List.nodup_append] at hnd ⊢
    refine ⟨hnd.1, ?_, ?_⟩
    · rw [List.nodup_cons]; exact ⟨fun hm => hnL (List.mem_append_right _ hm), hnd.2.1⟩
    · intro x hx y hy
      rcases List.mem_cons.mp hy with e1 | e1
      · subst e1; intro e2; subst e2; exact hnL (List.mem_append_left _ hx)
      · exact hnd.2.2 x hx y e1
  · intro c; rw [hXY]; simp only [List.mem_append, List.mem_cons]; grind
  · rw [hXY]; cases X <;> simp
  · rw [hXY]; exact tail_insert s.val a n X Y

set_option maxHeartbeats 4000000 in
theorem sinvl_step_enqCas {s s' : St} {t : Tid} {ev : Ev} {G M Q : List Nat} {n a : Nat} {b : Bool}
    (h : SInvL s G M Q) (hpc : s.pc t = .enqCas n a b) (hs : step s t = some (s', ev)) :
    ∃ G' M' Q', SInvL s' G' M' Q' ∧ StepEff s t s' Q Q' := by
  have hlb := fun ha hu hn hnn => h.link_behind (a := a) (n := n) ha hu hn hnn
  inv_open h
  have hnW : n ∉ G ++ (M ++ Q) := fun hm => (hpub n hm).2 t (by simp [hpc, enqNode])
  have hnx : s.nptr n = none ∧ s.nbit n = false := by
    have := hlk t n (none, false) (by simp [hpc, linkOf]); simpa [St.next, Prod.ext_iff] using this
  have haW := hinw t a (by simp [hpc, wnodes])
  have hnc := hpriv t n (by simp [hpc, enqNode])
  simp only [step, hpc] at hs
  split at hs
  next heq =>
    simp at hs; obtain ⟨rfl, -⟩ := hs
    have hax : s.nptr a = none ∧ s.nbit a = b := by simpa [St.next, Prod.ext_iff] using heq
    obtain ⟨Q', hch', hnd', hmemQ, hhead, haQ, Xq, Yq, hq1, hq2⟩ := hlb haW (Or.inl hax.1) hnW (by rw [hnx.1, hax.1])
    have hnolink : ∀ t2 v, linkOf (s.pc t2) = some (a, v) → False := by
      intro t2 v hl
      rcases link_marked hl (hpcf t2) with h1 | h1
      · exact (hpub a haW).2 t2 h1
      · have := hlk t2 a v hl
        simp only [St.next, Prod.ext_iff] at this
        exact h1.2 (by rw [← this.1, hax.1])
    have hna : n ≠ a := fun e => hnW (e ▸ haW)
    have hlp : BEff (Q.tail.map s.val) ⟨"enq", [s.val n]⟩ [1] (Q'.tail.map s.val) :=
      Or.inl ⟨s.val n, Xq, Yq, rfl, rfl, hq1, hq2⟩
    have hQ'ne : Q' ≠ [] := by intro e; rw [e] at hmemQ; have := (hmemQ n).mpr (Or.inl rfl); simp at this
    have hmemW : ∀ c, c ∈ G ++ (M ++ Q') ↔ (c = n ∨ c ∈ G ++ (M ++ Q)) := by
      intro c; simp only [List.mem_append, hmemQ]; grind
    have hmemL : ∀ c, c ∈ M ++ Q' ↔ (c = n ∨ c ∈ M ++ Q) := by
      intro c; simp only [List.mem_append, hmemQ]; grind
    clear hlb hq1 hq2
    refine ⟨G, M, Q', ?_, ?_⟩
    · sinv_close
    · eff_close
  next hne =>
    simp at hs; obtain ⟨rfl, -⟩ := hs
    refine ⟨G, M, Q, ?_, ?_⟩
    · sinv_close
    · eff_close

set_option maxHeartbeats 4000000 in
theorem sinvl_step_bkCas {s s' : St} {t : Tid} {ev : Ev} {G M Q : List Nat} {n a : Nat} {p : MP}
    (h : SInvL s G M Q) (hpc : s.pc t = .bkCas n a p) (hs : step s t = some (s', ev)) :
    ∃ G' M' Q', SInvL s' G' M' Q' ∧ StepEff s t s' Q Q' := by
  have hlb := fun ha hu hn hnn => h.link_behind (a := a) (n := n) ha hu hn hnn
  inv_open h
  have hnW : n ∉ G ++ (M ++ Q) := fun hm => (hpub n hm).2 t (by simp [hpc, enqNode])
  have hnx : s.nptr n = p.1 ∧ s.nbit n = p.2 := by
    have := hlk t n p (by simp [hpc, linkOf]); simpa [St.next, Prod.ext_iff] using this
  have hp2 : p.2 = false := by have := hpcf t; simpa [hpc, pcFact] using this
  have haW := hinw t a (by simp [hpc, wnodes])
  have hnc := hpriv t n (by simp [hpc, enqNode])
  simp only [step, hpc] at hs
  split at hs
  next heq =>
    simp at hs; obtain ⟨rfl, -⟩ := hs
    have hax : s.nptr a = p.1 ∧ s.nbit a = p.2 := by simpa [St.next, Prod.ext_iff] using heq
    obtain ⟨Q', hch', hnd', hmemQ, hhead, haQ, Xq, Yq, hq1, hq2⟩ :=
      hlb haW (Or.inr (by rw [hax.2, hp2])) hnW (by rw [hnx.1, hax.1])
    have hnolink : ∀ t2 v, linkOf (s.pc t2) = some (a, v) → False := by
      intro t2 v hl
      rcases link_marked hl (hpcf t2) with h1 | h1
      · exact (hpub a haW).2 t2 h1
      · have := hlk t2 a v hl
        simp only [St.next, Prod.ext_iff] at this
        have e := this.2; rw [hax.2, hp2, h1.1] at e; simp at e
    have hna : n ≠ a := fun e => hnW (e ▸ haW)
    have hnb : s.nbit n = false := by rw [hnx.2, hp2]
    have hlp : BEff (Q.tail.map s.val) ⟨"enq", [s.val n]⟩ [1] (Q'.tail.map s.val) :=
      Or.inl ⟨s.val n, Xq, Yq, rfl, rfl, hq1, hq2⟩
    have hQ'ne : Q' ≠ [] := by intro e; rw [e] at hmemQ; have := (hmemQ n).mpr (Or.inl rfl); simp at this
    have hmemW : ∀ c, c ∈ G ++ (M ++ Q') ↔ (c = n ∨ c ∈ G ++ (M ++ Q)) := by
      intro c; simp only [List.mem_append, hmemQ]; grind
    have hmemL : ∀ c, c ∈ M ++ Q' ↔ (c = n ∨ c ∈ M ++ Q) := by
      intro c; simp only [List.mem_append, hmemQ]; grind
    clear hlb hq1 hq2
    refine ⟨G, M, Q', ?_, ?_⟩
    · sinv_close
    · eff_close
  next hne =>
    simp at hs; obtain ⟨rfl, -⟩ := hs
    refine ⟨G, M, Q, ?_, ?_⟩
    · sinv_close
    · eff_close

set_option maxHeartbeats 4000000 in
theorem sinvl_step_dNx2 {s s' : St} {t : Tid} {ev : Ev} {G M Q : List Nat} {h' a : Nat} {p : MP}
    (h : SInvL s G M Q) (hpc : s.pc t = .dNx2 h' a p) (hs : step s t = some (s', ev)) :
    ∃ G' M' Q', SInvL s' G' M' Q' ∧ StepEff s t s' Q Q' := by
  have hff := h.head_first
  inv_open h
  have hhW := hinw t h' (by simp [hpc, wnodes])
  -- a null link: `h'` is `head` and the only node of `Q`
  have hemp : s.nptr h' = none → s.head = h' ∧ Q = [h'] := by
    intro hn
    have hQ : h' ∈ Q := by
      rcases (fmW h').mp hhW with h1 | h1 | h1
      · exact absurd hn (hbG h' h1).2
      · exact absurd hn (hbM h' h1).2
      · exact h1
    have hhd := hdh t h' (by simp [hpc, deqH]) (List.mem_append_right _ hQ)
    have hM : M = [] := by
      cases M with
      | nil => rfl
      | cons m r =>
        simp at hff
        exact absurd (hhd ▸ hQ) (fdMQ s.head (by rw [← hff]; simp))
    subst hM
    simp only [List.nil_append] at hch hff
    cases Q with
    | nil => simp at hff
    | cons q r =>
      simp at hff; subst hff
      simp only [Chain, true_and] at hch
      rw [hhd, hn] at hch
      exact ⟨hhd, by rw [Chain.none_nil hch, hhd]⟩
  have hlp : Q = [h'] → BEff (Q.tail.map s.val) ⟨"deq", []⟩ [0] (Q.tail.map s.val) := by
    intro e; rw [e]; exact Or.inr ⟨rfl, fifo_deq_none⟩
  obtain ⟨p1, p2⟩ := p
  by_cases hha : h' = a
  · subst hha
    cases p1 <;> cases p2 <;> auto_step
  · cases p1 <;> cases p2 <;> auto_step

set_option maxHeartbeats 4000000 in
theorem sinvl_step_dMark {s s' : St} {t : Tid} {ev : Ev} {G M Q : List Nat} {h' it : Nat} {p : MP} {hops : Nat}
    (h : SInvL s G M Q) (hpc : s.pc t = .dMark h' it p hops) (hs : step s t = some (s', ev)) :
    ∃ G' M' Q', SInvL s' G' M' Q' ∧ StepEff s t s' Q Q' := by
  have huq := fun ha hu => h.unmarked_in_Q (a := it) ha hu
  inv_open h
  have hitW := hinw t it (by simp [hpc, wnodes])
  have hpf : p.1 = none ∨ p.2 = false := by have := hpcf t; simpa [hpc, pcFact] using this
  have hlowit := hlow t it (by simp [hpc, lows])
  simp only [step, hpc] at hs
  split at hs
  next heq =>
    have hax : s.nptr it = p.1 ∧ s.nbit it = p.2 := by simpa [St.next, Prod.ext_iff] using heq
    have hnolink : ∀ t2 v, linkOf (s.pc t2) = some (it, v) → False := by
      intro t2 v hl
      rcases link_marked hl (hpcf t2) with h1 | h1
      · exact (hpub it hitW).2 t2 h1
      · have := hlk t2 it v hl
        simp only [St.next, Prod.ext_iff] at this
        rcases hpf with e | e
        · exact h1.2 (by rw [← this.1, hax.1, e])
        · have e2 := this.2; rw [hax.2, e, h1.1] at e2; simp at e2
    split at hs
    next x hx =>
      simp at hs; obtain ⟨rfl, -⟩ := hs
      have hp2 : p.2 = false := by rcases hpf with e | e; · rw [hx] at e; simp at e
                                   · exact e
      have hitQ : it ∈ Q := huq hitW (Or.inr (by rw [hax.2, hp2]))
      have hqh : Q.head? = some it := by
        rcases hlowit with e | e | e
        · exact absurd hitQ (fdGQ it e)
        · exact absurd hitQ (fdMQ it e)
        · exact e
      -- `Q = it :: x :: r`
      obtain ⟨r, hQ⟩ : ∃ r, Q = it :: x :: r := by
        cases Q with
        | nil => simp at hqh
        | cons q r0 =>
          simp at hqh; subst hqh
          have hc2 := Chain.drop_prefix (A := M) hch
          simp only [Chain, true_and] at hc2
          rw [hax.1, hx] at hc2
          cases r0 with
          | nil => simp [Chain] at hc2
          | cons y r => simp only [Chain, Option.some.injEq] at hc2; exact ⟨r, by rw [hc2.1]⟩
      obtain ⟨M', Q', hML, hmemM, hmemQ, hhead', hQne, hlp⟩ : ∃ M' Q' : List Nat, M' ++ Q' = M ++ Q ∧
          (∀ c, c ∈ M' ↔ (c ∈ M ∨ c = it)) ∧ (∀ c, c ∈ Q' ↔ (c ∈ Q ∧ c ≠ it)) ∧ Q'.head? = some x ∧ Q' ≠ [] ∧
          BEff (Q.tail.map s.val) ⟨"deq", []⟩ [1, s.val x] (Q'.tail.map s.val) := by
        refine ⟨M ++ [it], x :: r, by rw [hQ]; simp, by intro c; simp, ?_, rfl, by simp, ?_⟩
        · intro c
          have hndQ : (it :: x :: r).Nodup := hQ ▸ (List.nodup_append.mp hnd).2.1
          have hni : it ∉ x :: r := (List.nodup_cons.mp hndQ).1
          rw [hQ]; simp only [List.mem_cons]
          constructor
          · intro hc; exact ⟨Or.inr hc, fun e => hni (e ▸ (List.mem_cons.mpr hc))⟩
          · rintro ⟨h1 | h1, h2⟩
            · exact absurd h1 h2
            · exact h1
        · rw [hQ]; exact Or.inr ⟨rfl, by simp [fifo_deq_some]⟩
      have hch' : Chain s.nptr (some s.head) (M' ++ Q') := hML ▸ hch
      have hnd' : (M' ++ Q').Nodup := hML ▸ hnd
      have hLm : ∀ c, c ∈ M' ++ Q' ↔ c ∈ M ++ Q := fun c => by rw [hML]
      have hWm : ∀ c, c ∈ G ++ (M' ++ Q') ↔ c ∈ G ++ (M ++ Q) := fun c => by rw [hML]
      have hxQ : x ∈ Q := by rw [hQ]; simp
      have hxW : x ∈ G ++ (M ++ Q) := (fmW x).mpr (Or.inr (Or.inr hxQ))
      have hxit : x ≠ it := by
        intro e
        have hndQ : (it :: x :: r).Nodup := hQ ▸ (List.nodup_append.mp hnd).2.1
        exact (List.nodup_cons.mp hndQ).1 (by simp [e])
      clear huq hQ r
      refine ⟨G, M', Q', ?_, ?_⟩
      · constructor <;> intros <;> (try dsimp only at *) <;> (try simp only [hML] at *) <;>
          grind [upd, Pub, pub_mk, enqNode, wnodes, lows, deqH, midOf, linkOf, pcFact, Low, Mid, St.next, fcEnd]
      · eff_close
    next hx =>
      simp at hs; obtain ⟨rfl, -⟩ := hs
      refine ⟨G, M, Q, ?_, ?_⟩
      · sinv_close
      · eff_close
  next hne =>
    simp at hs; obtain ⟨rfl, -⟩ := hs
    refine ⟨G, M, Q, ?_, ?_⟩
    · sinv_close
    · eff_close

theorem mid_deqH {pc : PC} {h x : Nat} (hm : midOf pc = some (h, x)) : deqH pc = some h := by
  cases pc <;> simp_all [midOf, deqH]

/-- Moving `head` forward to a marked node of the chain or to the current dummy: the nodes passed become "gone". -/
theorem SInvL.head_move {s : St} {G M Q : List Nat} (h : SInvL s G M Q) {nw : Nat} (hm : Mid M Q nw) :
    ∃ G' M' : List Nat, Chain s.nptr (some nw) (M' ++ Q) ∧ (M' ++ Q).Nodup ∧
      (∀ c, c ∈ G' ↔ (c ∈ G ∨ (c ∈ M ∧ c ∉ M'))) ∧ (∀ c, c ∈ M' → c ∈ M) ∧
      (s.head = nw → ∀ c, c ∈ M → c ∈ M') ∧ (s.head ≠ nw → s.head ∈ G') := by
  have hff := h.head_first
  have hndM : M.Nodup := (List.nodup_append.mp h.nodup).1
  by_cases hnM : nw ∈ M
  · obtain ⟨M1, M2, hM⟩ := List.append_of_mem hnM
    have hch := h.chain
    have hnd := h.nodup
    rw [hM, List.append_assoc] at hch hnd
    have hch2 : Chain s.nptr (some nw) ((nw :: M2) ++ Q) := Chain.drop_prefix hch
    have hnd2 : ((nw :: M2) ++ Q).Nodup := (List.nodup_append.mp hnd).2.1
    rw [hM] at hndM
    have hdis := (List.nodup_append.mp hndM).2.2
    refine ⟨G ++ M1, nw :: M2, hch2, hnd2, ?_, ?_, ?_, ?_⟩
    · intro c
      simp only [List.mem_append, hM, List.mem_cons]
      constructor
      · rintro (h1 | h1)
        · exact Or.inl h1
        · exact Or.inr ⟨Or.inl h1, fun e => by
            rcases e with e | e
            · exact hdis c h1 nw (by simp) e
            · exact hdis c h1 c (by simp [e]) rfl⟩
      · rintro (h1 | ⟨h1 | h1, h2⟩)
        · exact Or.inl h1
        · exact Or.inr h1
        · exact absurd h1 h2
    · intro c hc; rw [hM]; exact List.mem_append_right _ hc
    · intro e c hc
      cases M1 with
      | nil => simpa [hM] using hc
      | cons m r =>
        rw [hM] at hff; simp at hff
        exact absurd (hdis m (by simp) nw (by simp)) (by rw [hff, e]; simp)
    · intro e
      cases M1 with
      | nil => rw [hM] at hff; simp at hff; exact absurd hff.symm e
      | cons m r => rw [hM] at hff; simp at hff; rw [← hff]; simp
  · have hq : Q.head? = some nw := by
      rcases hm with e | e
      · exact absurd e hnM
      · exact e
    have hch2 : Chain s.nptr (some nw) ([] ++ Q) := by
      cases Q with
      | nil => simp at hq
      | cons q r => simp at hq; subst hq; simpa using Chain.drop_prefix (A := M) h.chain
    refine ⟨G ++ M, [], hch2, by simpa using (List.nodup_append.mp h.nodup).2.1, by intro c; simp, by simp, ?_, ?_⟩
    · intro e c hc
      cases M with
      | nil => simp at hc
      | cons m r => simp at hff; exact absurd (by rw [← e, ← hff]; simp) hnM
    · intro e
      cases M with
      | nil => simp at hff; rw [hq] at hff; simp at hff; exact absurd hff.symm e
      | cons m r => simp at hff; rw [← hff]; simp

set_option maxHeartbeats 4000000 in
theorem sinvl_step_fcCas {s s' : St} {t : Tid} {ev : Ev} {G M Q : List Nat} {h' nw : Nat} {fin : Option Int}
    (h : SInvL s G M Q) (hpc : s.pc t = .fcCas h' nw fin) (hs : step s t = some (s', ev)) :
    ∃ G' M' Q', SInvL s' G' M' Q' ∧ StepEff s t s' Q Q' := by
  have hmv := fun hm => h.head_move (nw := nw) hm
  inv_open h
  have hmd : ∀ t2 h2 x, midOf (s.pc t2) = some (h2, x) → deqH (s.pc t2) = some h2 := fun t2 h2 x hm => mid_deqH hm
  simp only [step, hpc] at hs
  split at hs
  next heq =>
    simp at hs; obtain ⟨rfl, -⟩ := hs
    obtain ⟨G', M', hch', hnd', hmG, hM1, hsame, hmove⟩ := hmv (hmid t h' nw (by simp [hpc, midOf]) heq)
    have hWm : ∀ c, c ∈ G' ++ (M' ++ Q) ↔ c ∈ G ++ (M ++ Q) := by
      intro c; simp only [List.mem_append, hmG]
      constructor
      · rintro ((h1 | h1) | h1 | h1)
        · exact Or.inl h1
        · exact Or.inr (Or.inl h1.1)
        · exact Or.inr (Or.inl (hM1 c h1))
        · exact Or.inr (Or.inr h1)
      · rintro (h1 | h1 | h1)
        · exact Or.inl (Or.inl h1)
        · by_cases e : c ∈ M'
          · exact Or.inr (Or.inl e)
          · exact Or.inl (Or.inr ⟨h1, e⟩)
        · exact Or.inr (Or.inr h1)
    have hLm : ∀ c, c ∈ M' ++ Q ↔ (c ∈ M' ∨ c ∈ Q) := fun c => List.mem_append
    have hLo : ∀ c, c ∈ M ++ Q ↔ (c ∈ M ∨ c ∈ Q) := fun c => List.mem_append
    have hnwL : nw ∈ M ∨ nw ∈ Q := by
      rcases hmid t h' nw (by simp [hpc, midOf]) heq with e | e
      · exact Or.inl e
      · exact Or.inr (fqh nw e)
    clear hmv
    refine ⟨G', M', Q, ?_, ?_⟩
    · cases fin <;>
        (constructor <;> intros <;> (try dsimp only at *) <;> (try simp only [hWm] at *) <;>
          grind [upd, Pub, pub_mk, enqNode, wnodes, lows, deqH, midOf, linkOf, pcFact, Low, Mid, St.next, fcEnd])
    · cases fin <;> eff_close
  next hne =>
    simp at hs; obtain ⟨rfl, -⟩ := hs
    refine ⟨G, M, Q, ?_, ?_⟩
    · cases fin <;> sinv_close
    · cases fin <;> eff_close

theorem sinvl_step {s s' : St} {t : Tid} {ev : Ev} {G M Q : List Nat}
    (h : SInvL s G M Q) (hs : step s t = some (s', ev)) : ∃ G' M' Q', SInvL s' G' M' Q' ∧ StepEff s t s' Q Q' := by
  cases hpc : s.pc t with
  | idle => simp [step, hpc] at hs
  | done r => simp [step, hpc] at hs
  | crash n fin => simp [step, hpc] at hs
  | enqLd1 n => exact sinvl_step_enqLd1 h hpc hs
  | enqLd2 n p => exact sinvl_step_enqLd2 h hpc hs
  | enqNext n a => exact sinvl_step_enqNext h hpc hs
  | enqInit n a b => exact sinvl_step_enqInit h hpc hs
  | enqCas n a b => exact sinvl_step_enqCas h hpc hs
  | enqSwing n a => exact sinvl_step_enqSwing h hpc hs
  | bkLd1 n a => exact sinvl_step_bkLd1 h hpc hs
  | bkLd2 n a p => exact sinvl_step_bkLd2 h hpc hs
  | bkTail n a p => exact sinvl_step_bkTail h hpc hs
  | bkChk n a p => exact sinvl_step_bkChk h hpc hs
  | bkSet n a p => exact sinvl_step_bkSet h hpc hs
  | bkCas n a p => exact sinvl_step_bkCas h hpc hs
  | fxTail n a p => exact sinvl_step_fxTail h hpc hs
  | fxChk n a p => exact sinvl_step_fxChk h hpc hs
  | fxWalk n a c => exact sinvl_step_fxWalk h hpc hs
  | fxWTail n a c p => exact sinvl_step_fxWTail h hpc hs
  | fxWChk n a c p => exact sinvl_step_fxWChk h hpc hs
  | fxCas n a c => exact sinvl_step_fxCas h hpc hs
  | dLdH1 => exact sinvl_step_dLdH1 h hpc hs
  | dLdH2 p => exact sinvl_step_dLdH2 h hpc hs
  | dLdT1 h' => exact sinvl_step_dLdT1 h hpc hs
  | dLdT2 h' p => exact sinvl_step_dLdT2 h hpc hs
  | dNx1 h' a => exact sinvl_step_dNx1 h hpc hs
  | dNx2 h' a p => exact sinvl_step_dNx2 h hpc hs
  | dChk h' a p => exact sinvl_step_dChk h hpc hs
  | hpWalk h' a c => exact sinvl_step_hpWalk h hpc hs
  | hpTail h' a c => exact sinvl_step_hpTail h hpc hs
  | hpP1 h' a c => exact sinvl_step_hpP1 h hpc hs
  | hpP2 h' a c p => exact sinvl_step_hpP2 h hpc hs
  | hpCas h' a c => exact sinvl_step_hpCas h hpc hs
  | skHead h' a it p hops => exact sinvl_step_skHead h hpc hs
  | skP1 h' a it hops => exact sinvl_step_skP1 h hpc hs
  | skP2 h' a it p hops => exact sinvl_step_skP2 h hpc hs
  | dChk2 h' a it p hops => exact sinvl_step_dChk2 h hpc hs
  | dMark h' it p hops => exact sinvl_step_dMark h hpc hs
  | fcCas h' nw fin => exact sinvl_step_fcCas h hpc hs
  | fcP1 c nw fin => exact sinvl_step_fcP1 h hpc hs
  | fcP2 c nw p fin => exact sinvl_step_fcP2 h hpc hs

/-! ### Preservation: invocation and return -/

structure InvokeEff (s : St) (t : Tid) (op : GOp) (s' : St) (Q : List Nat) : Prop where
  frame : ∀ t2, t2 ≠ t → s'.pc t2 = s.pc t2
  ops : ∀ t2, t2 ≠ t → opOf s'.val (s.pc t2) = opOf s.val (s.pc t2)
  was : s.pc t = .idle
  now : opOf s'.val (s'.pc t) = some op ∧ lpRet (s'.pc t) = none
  abs : Q.tail.map s'.val = Q.tail.map s.val

theorem sinvl_invoke {s s' : St} {t : Tid} {op : GOp} {G M Q : List Nat}
    (h : SInvL s G M Q) (hs : invoke s t op = some s') : SInvL s' G M Q ∧ InvokeEff s t op s' Q := by
  inv_open h
  obtain ⟨name, args⟩ := op
  unfold invoke at hs
  split at hs
  next v hpc hname hargs =>
    simp at hs; subst hs
    dsimp only at hname hargs; subst hname hargs
    have hfr' : ∀ t2 n, enqNode (s.pc t2) = some n → n ≠ s.cnt := fun t2 n h => Nat.ne_of_lt (hpriv t2 n h)
    have hcW : s.cnt ∉ G ++ (M ++ Q) := fun hm => Nat.lt_irrefl _ (hpub _ hm).1
    refine ⟨?_, ?_⟩
    · sinv_close
    · constructor <;> intros <;> (try dsimp only at *)
      · grind [upd]
      · rename_i t2 ht2
        unfold opOf
        cases hq : enqNode (s.pc t2) with
        | none => rfl
        | some n => simp [upd, hfr' t2 n hq]
      · exact hpc
      · simp [upd, opOf, lpRet, enqNode]
      · apply List.map_congr_left
        intro a ha
        have := (hpub a ((fmW a).mpr (Or.inr (Or.inr (List.mem_of_mem_tail ha))))).1
        simp [upd]; omega
  next hpc hname hargs =>
    simp at hs; subst hs
    dsimp only at hname hargs; subst hname hargs
    refine ⟨?_, ?_⟩
    · sinv_close
    · constructor <;> intros <;> (try dsimp only at *) <;> grind [upd, opOf, lpRet, enqNode]
  next => simp at hs

theorem sinvl_result {s s' : St} {t : Tid} {r : GRet} {G M Q : List Nat}
    (h : SInvL s G M Q) (hs : result s t = some (s', r)) :
    SInvL s' G M Q ∧ s.pc t = .done r ∧ s'.pc t = .idle ∧ (∀ t2, t2 ≠ t → s'.pc t2 = s.pc t2) ∧ s'.val = s.val := by
  inv_open h
  unfold result at hs
  split at hs
  next r' hpc =>
    simp at hs; obtain ⟨rfl, rfl⟩ := hs
    refine ⟨?_, hpc, by simp [upd], fun t2 h2 => by simp [upd, h2], rfl⟩
    sinv_close
  next => simp at hs

end CdsVerif.Algo.Basket

// C23, tie A: the flat-combining KERNEL (cds/algo/flat_combining/kernel.h) instantiated directly, the way its own
// documentation shows, over a trivial container - a fetch-and-increment counter - so that the atomic trace of the
// real kernel can be replayed step by step by the Lean machine CdsVerif/Algo/FC/KernelR.lean
// (`cdsdriver replay fckernel`, pre-pass tools/fckernel_pre.py).
//
//   * lock type cds::sync::spin, wait strategy backoff (the defaults), compact factor 1 / 2 / 4 and combine pass count
//     1 / 2 / 3 from the case index (or --compact / --pass); header words: cf=<m_nCompactFactor, the mask the
//     constructor stores> pass=<m_nCombinePassCount>.
//   * every thread acquires its publication record in the prologue of run_case (on its own OS thread, unscheduled and
//     untraced, thread 0 first): the record is allocated, linked into the allocated-records list and published.  The
//     records are therefore static during the scheduled run, as in the machine: publication list and allocated list
//     are both  head -> r<n-1> -> ... -> r0.  The head record belongs to the main thread (it constructed the kernel)
//     and is never published.  In the epilogue the thread-local slot is release()d, so that no `removed` store ever
//     happens (the machine has no thread exit); the kernel's destructor frees the records.
//   * names: lock (m_Mutex), m_nCount, and for every record r<i> / head the words .req (nRequest) .state (nState)
//     .age (nAge) .next (pNext) .nexta (pNextAllocated).
//   * fc_apply is ONE pseudo-event `exec r<i> <value>` (value = the counter before the increment = the operation's
//     result): it is the only step of the machine that is not an atomic operation of the kernel.
//   * operation `inc`: acquire_record(); combine( op_inc, pRec, *this ); result = pRec->nResult; release_record( pRec ).
//
// Second container kind, `--container deque` (tie of the GENERIC machine CdsVerif/Algo/FC/KernelG.lean with the deque object,
// `cdsdriver replay fckernelg`): a std::deque<long> with the FCDeque operation codes WITHOUT elimination
// (op_push_front = 2, op_push_back = 4, op_pop_front = 6, op_pop_back = 7; always `combine`, never `batch_combine`);
// operations and values come from the program; fc_apply is the pseudo-event `exec r<i> <result>` with the result as the
// member function returns it, comma-separated (push: `1`; pop: `0` when empty, `1,<value>` otherwise).  Header word
// `container=deque`.  Oracle: every popped value was pushed, none twice, popped + remaining = pushed.
//
// Client-side oracle (independent of the machine): after the run the results of all operations are exactly the
// numbers 0 .. n-1, each once (every request executed exactly once), and the counter equals n.
// (Counts of the situations exercised - record deactivated with a pending request, republish under the lock, passive
// thread becomes the combiner, empty pass, failed link / unlink CAS - are computed from the traces by
// tools/fckernel_pre.py `situations`.)
#include <cds/init.h>
#include <cds/algo/flat_combining/kernel.h>
#include <cds/sync/spinlock.h>
#include <cstddef>
#include <deque>
#include <set>
#include <memory>
#include "../client.h"

using namespace khizmax_libcds_verif;
namespace fc = cds::algo::flat_combining;

static const int MAXT = 8;

struct Counter : fc::container {
    enum { op_inc = fc::req_Operation };
    // FCDeque's codes (cds/container/fcdeque.h), the `_move` variants and op_clear are not used
    enum { op_push_front = fc::req_Operation, op_push_front_move, op_push_back, op_push_back_move, op_pop_front, op_pop_back };
    struct rec : fc::publication_record { long nArg; long nResult; bool bEmpty; };
    struct traits : fc::traits {
        typedef cds::sync::spin lock_type;
        typedef fc::wait_strategy::backoff<> wait_strategy;
    };
    typedef fc::kernel<rec, traits> kernel_t;
    typedef kernel_t::publication_record_type record_t;

    kernel_t k;
    bool isDeque;
    long value = 0;
    std::deque<long> dq;
    unsigned long applied = 0;

    Counter( unsigned compact, unsigned pass, bool deque ) : k( compact, pass ), isDeque( deque ) {}

    long inc()
    {
        record_t* p = k.acquire_record();
        k.combine( op_inc, p, *this );
        long r = p->nResult;
        k.release_record( p );
        return r;
    }
    // the four FCDeque member functions, without elimination
    std::vector<long> dop( unsigned code, long arg )
    {
        record_t* p = k.acquire_record();
        p->nArg = arg;
        k.combine( code, p, *this );
        std::vector<long> r;
        if ( code == op_push_front || code == op_push_back ) r = { 1 };
        else if ( p->bEmpty ) r = { 0 };
        else r = { 1, p->nResult };
        k.release_record( p );
        return r;
    }
    void fc_apply( record_t* p )
    {
        pseudo_begin();
        std::string res;
        if ( !isDeque ) {
            p->nResult = value++;
            res = std::to_string( p->nResult );
        }
        else {
            set_quiet( true );      // FCDeque::fc_apply switches on pRec->op(): part of the one `exec` step
            unsigned code = p->op();
            set_quiet( false );
            switch ( code ) {
            case op_push_front: dq.push_front( p->nArg ); res = "1"; break;
            case op_push_back: dq.push_back( p->nArg ); res = "1"; break;
            case op_pop_front:
                p->bEmpty = dq.empty();
                if ( !p->bEmpty ) { p->nResult = dq.front(); dq.pop_front(); res = "1," + std::to_string( p->nResult ); } else res = "0";
                break;
            case op_pop_back:
                p->bEmpty = dq.empty();
                if ( !p->bEmpty ) { p->nResult = dq.back(); dq.pop_back(); res = "1," + std::to_string( p->nResult ); } else res = "0";
                break;
            default: res = "?"; break;
            }
        }
        ++applied;
        pseudo_end( "exec", name_of( static_cast<fc::publication_record*>( p )), res );
    }
};

static void name_record( fc::publication_record* r, std::string const& nm )
{
    reg_name( &r->nRequest, sizeof r->nRequest, nm + ".req" );
    reg_name( &r->nState, sizeof r->nState, nm + ".state" );
    reg_name( &r->nAge, sizeof r->nAge, nm + ".age" );
    reg_name( &r->pNext, sizeof r->pNext, nm + ".next" );
    reg_name( &r->pNextAllocated, sizeof r->pNextAllocated, nm + ".nexta" );
}

struct Fixture {
    static char const* family() { return "fckernel"; }
    static std::vector<std::string> variants() { return { "counter" }; }
    std::unique_ptr<Counter> c;
    unsigned compact = 1, pass = 1;
    bool deque = false;
    std::vector<long> pushed, popped;
    int nthreads = 0;
    std::vector<long> results;
    fc::publication_record* recs[MAXT];
    bool failed = false;
    std::string failure;

    explicit Fixture( Case const& cs )
    {
        static unsigned const compacts[] = { 1, 2, 4 };
        compact = unsigned( cs.optl( "compact", long( compacts[cs.index % 3] )));
        pass = unsigned( cs.optl( "pass", long( 1 + ( cs.index / 3 ) % 3 )));
        nthreads = cs.threads;
        deque = cs.opt.count( "container" ) && cs.opt.at( "container" ) == "deque";
        c.reset( new Counter( compact, pass, deque ));
        for ( int i = 0; i < MAXT; ++i ) recs[i] = nullptr;
        reg_name( &c->k.m_Mutex, sizeof c->k.m_Mutex, "lock" );
        reg_name( &c->k.m_nCount, sizeof c->k.m_nCount, "m_nCount" );
        name_record( c->k.m_pHead, "head" );
    }
    ~Fixture() { c.reset(); }
    std::string spec() const { return "none"; }
    std::string header_extra() const
    {
        return "cf=" + std::to_string( c->k.m_nCompactFactor ) + " pass=" + std::to_string( c->k.m_nCombinePassCount )
             + " compact=" + std::to_string( compact ) + " container=" + ( deque ? "deque" : "counter" );
    }
    std::vector<std::vector<Op>> program( Rng& r, int nthreads, int nops )
    {
        std::vector<std::vector<Op>> p( nthreads );
        for ( int t = 0; t < nthreads; ++t ) {
            int n = 1 + int( r.below( nops ));
            for ( int i = 0; i < n; ++i ) {
                if ( !deque ) { p[t].push_back( Op( "inc" )); continue; }
                unsigned k = unsigned( r.below( 100 ));
                long v = 100 * ( t + 1 ) + i;
                if ( k < 28 ) p[t].push_back( Op( "push_front", v ));
                else if ( k < 56 ) p[t].push_back( Op( "push_back", v ));
                else if ( k < 78 ) p[t].push_back( Op( "pop_front" ));
                else p[t].push_back( Op( "pop_back" ));
            }
        }
        return p;
    }
    // prologue / epilogue of run_case: own OS thread, unscheduled, untraced, increasing tid
    void thread_attach( int t )
    {
        Counter::record_t* p = c->k.acquire_record();        // allocates, links into both lists, publishes
        recs[t] = p;
        name_record( p, "r" + std::to_string( t ));
    }
    void thread_detach( int ) { c->k.m_pThreadRec.release(); }   // no tls_cleanup: the record never becomes `removed`
    void thread_begin( int ) {}
    void thread_end( int ) {}
    std::vector<long> exec( int, Op const& op )
    {
        if ( !deque ) {
            long r = c->inc();
            results.push_back( r );
            return { r };
        }
        unsigned code = op.name == "push_front" ? Counter::op_push_front : op.name == "push_back" ? Counter::op_push_back
                      : op.name == "pop_front" ? Counter::op_pop_front : Counter::op_pop_back;
        std::vector<long> r = c->dop( code, op.args.empty() ? 0 : op.args[0] );
        if ( !op.args.empty()) pushed.push_back( op.args[0] );
        else if ( r.size() == 2 ) popped.push_back( r[1] );
        results.push_back( 0 );
        return r;
    }
    void finish( std::ostream& out )
    {
        size_t n = results.size();
        if ( deque ) {
            std::multiset<long> pu( pushed.begin(), pushed.end()), po( popped.begin(), popped.end());
            for ( long v : c->dq ) po.insert( v );
            if ( pu != po ) fail( "deque-conservation: popped + remaining != pushed" );
            if ( c->applied != n ) fail( "fc_apply-count " + std::to_string( c->applied ) + " for " + std::to_string( n ) + " requests" );
            out << "# ops=" << n << " applied=" << c->applied << " left=" << c->dq.size() << '\n';
            return;
        }
        std::vector<int> seen( n, 0 );
        for ( long r : results ) {
            if ( r < 0 || size_t( r ) >= n ) { fail( "result-out-of-range " + std::to_string( r )); continue; }
            if ( seen[size_t( r )]++ ) fail( "request-executed-twice-or-result-duplicated " + std::to_string( r ));
        }
        if ( size_t( c->value ) != n || c->applied != n )
            fail( "fc_apply-count " + std::to_string( c->applied ) + " for " + std::to_string( n ) + " requests" );
        out << "# ops=" << n << " applied=" << c->applied << " count=" << c->k.m_nCount.load( atomics::memory_order_relaxed ) << '\n';
    }
    void fail( std::string const& s ) { if ( !failed ) { failed = true; failure = s; } }
};

int main( int argc, char** argv )
{
    cds::Initialize();
    int rc = client_main<Fixture>( argc, argv );
    cds::Terminate();
    return rc;
}

/-
  Structural invariant of the reference-counted free list model, proved for every interleaving.

  The invariant is stated with two witnesses that are NOT part of the model's state:
  * `K : Nat → Kind` says where every node is: on the chain; owned by a client thread; argument of a `put` that has
    not yet executed its `fetch_add`; in the hands of a thread running `add_knowing_refcount_is_zero` before
    (`zero`) resp. after (`one`) its `store( 1 )`; just unlinked by a getter that has not yet executed its
    `fetch_sub( 2 )` (`taken`); or `waiting`: flagged SHOULD_BE_ON_FREELIST, referenced by at least one getter, in
    nobody's hands - the last getter that drops its reference will link it.
  * `H : Nat → List Tid` lists, for every node, the getters that hold a counted reference to it (between the
    successful CAS on `m_freeListRefs` and the `fetch_sub`).  Such a node may be anywhere (nodes are reused).
  `FInvL s l K H` ties them to the state: the word `m_freeListRefs` of node `a` is exactly
      count = (1 if K a is onList / one / taken, else 0) + (H a).length,   bit = (K a is zero / waiting).
-/
import CdsVerif.Algo.FreeList.Model
namespace CdsVerif.Algo.FreeList
open CdsVerif.Machine CdsVerif.Spec

/-! ### Chains -/

def Chain (nx : Nat → Option Nat) : Option Nat → List Nat → Prop
  | p, [] => p = none
  | p, a :: l => p = some a ∧ Chain nx (nx a) l

theorem Chain.functional {nx : Nat → Option Nat} : ∀ {p : Option Nat} {l1 l2 : List Nat},
    Chain nx p l1 → Chain nx p l2 → l1 = l2
  | _, [], [], _, _ => rfl
  | _, [], _ :: _, h1, h2 => by simp [Chain] at h1 h2; simp [h1] at h2
  | _, _ :: _, [], h1, h2 => by simp [Chain] at h1 h2; simp [h2] at h1
  | _, a :: l1, b :: l2, h1, h2 => by
    simp only [Chain] at h1 h2
    have hab : a = b := by have := h1.1.symm.trans h2.1; simpa using this
    subst hab
    rw [Chain.functional h1.2 h2.2]

theorem Chain.upd {nx : Nat → Option Nat} {x : Nat} {v : Option Nat} :
    ∀ {p : Option Nat} {l : List Nat}, x ∉ l → Chain nx p l → Chain (upd nx x v) p l
  | _, [], _, h => h
  | _, a :: l, hx, h => by
    simp only [Chain] at h ⊢
    have hax : a ≠ x := fun e => hx (by simp [e])
    refine ⟨h.1, ?_⟩
    rw [upd_other _ _ _ _ hax]
    exact Chain.upd (fun hm => hx (List.mem_cons_of_mem _ hm)) h.2

/-- Executable chain walk with fuel (for the evaluated examples). -/
def walk (nx : Nat → Option Nat) : Nat → Option Nat → List Nat
  | 0, _ => []
  | _ + 1, none => []
  | f + 1, some a => a :: walk nx f (nx a)

/-! ### Word arithmetic without borrow -/

theorem wAddBit_eq (c : Nat) (f : Bool) : wAddBit c f = (c, !f) := rfl
theorem wAddBitM1_of_pos {c : Nat} (f : Bool) (h : 1 ≤ c) : wAddBitM1 c f = (c - 1, !f) := by
  unfold wAddBitM1; split
  · omega
  · rfl
theorem wSub1_of_pos {c : Nat} (f : Bool) (h : 1 ≤ c) : wSub1 c f = (c - 1, f) := by
  unfold wSub1; split
  · omega
  · rfl
theorem wSub2_of_ge {c : Nat} (f : Bool) (h : 2 ≤ c) : wSub2 c f = (c - 2, f) := by
  unfold wSub2; split
  · omega
  · rfl

/-! ### The structural invariant -/

inductive Kind
  | onList
  | owned (t : Tid)
  | putting (t : Tid)
  | zero (t : Tid)
  | one (t : Tid)
  | taken (t : Tid)
  | waiting
deriving DecidableEq, Repr

/-- The list's own reference. -/
def Kind.base : Kind → Nat
  | .onList => 1
  | .one _ => 1
  | .taken _ => 1
  | _ => 0

/-- The SHOULD_BE_ON_FREELIST bit. -/
def Kind.flag : Kind → Bool
  | .zero _ => true
  | .waiting => true
  | _ => false

def putNode : PC → Option Nat
  | .putAdd n => some n
  | _ => none
def zeroNode : PC → Option Nat
  | .addLd n _ => some n
  | .addStNext n _ _ => some n
  | .addStRefs n _ _ => some n
  | _ => none
def oneNode : PC → Option Nat
  | .addCas n _ _ => some n
  | .addFix n _ _ => some n
  | _ => none
def takenNode : PC → Option Nat
  | .getSub2 h => some h
  | _ => none
/-- The node on which a getter holds a counted reference. -/
def holdNode : PC → Option Nat
  | .getNext h => some h
  | .getCas h _ => some h
  | .getSub2 h => some h
  | .getDec h _ => some h
  | _ => none

structure FInvL (s : St) (l : List Nat) (K : Nat → Kind) (H : Nat → List Tid) : Prop where
  chain : Chain s.next s.head l
  nodup : l.Nodup
  kList : ∀ a, K a = .onList ↔ a ∈ l
  kOwn : ∀ a t, K a = .owned t ↔ s.owns t a = true
  kPut : ∀ a t, K a = .putting t ↔ putNode (s.pc t) = some a
  kZero : ∀ a t, K a = .zero t ↔ zeroNode (s.pc t) = some a
  kOne : ∀ a t, K a = .one t ↔ oneNode (s.pc t) = some a
  kTaken : ∀ a t, K a = .taken t ↔ takenNode (s.pc t) = some a
  hMem : ∀ a t, t ∈ H a ↔ holdNode (s.pc t) = some a
  hNodup : ∀ a, (H a).Nodup
  cntEq : ∀ a, s.refs a = (K a).base + (H a).length
  flagEq : ∀ a, s.shouldBeOn a = (K a).flag
  zeroH : ∀ a t, K a = .zero t → H a = []
  waitH : ∀ a, K a = .waiting → H a ≠ []
  linked0 : ∀ t n hd k, s.pc t = .addStRefs n hd k → s.next n = hd
  linked : ∀ t n hd k, s.pc t = .addCas n hd k → s.next n = hd
  key : ∀ t h nx, s.pc t = .getCas h nx → s.next h = nx
  incPos : ∀ t h c f, s.pc t = .getInc h c f → 1 ≤ c

def FInv (s : St) : Prop := ∃ l K H, FInvL s l K H

theorem FInvL.unique {s : St} {l1 l2 : List Nat} {K1 K2 : Nat → Kind} {H1 H2 : Nat → List Tid}
    (h1 : FInvL s l1 K1 H1) (h2 : FInvL s l2 K2 H2) : l1 = l2 :=
  Chain.functional h1.chain h2.chain

theorem finv_init (own0 : Nat → Tid) : FInvL (init own0) [] (fun n => .owned (own0 n)) (fun _ => []) := by
  constructor <;> simp [init, Chain, putNode, zeroNode, oneNode, takenNode, holdNode, Kind.base, Kind.flag]

/-- The same facts indexed by program counter (forward form, convenient for `grind`). -/
structure Fwd (s : St) (K : Nat → Kind) (H : Nat → List Tid) : Prop where
  putAdd : ∀ t n, s.pc t = .putAdd n → K n = .putting t
  addLd : ∀ t n k, s.pc t = .addLd n k → K n = .zero t
  addStNext : ∀ t n hd k, s.pc t = .addStNext n hd k → K n = .zero t
  addStRefs : ∀ t n hd k, s.pc t = .addStRefs n hd k → K n = .zero t
  addCas : ∀ t n hd k, s.pc t = .addCas n hd k → K n = .one t
  addFix : ∀ t n hd k, s.pc t = .addFix n hd k → K n = .one t
  getSub2 : ∀ t h, s.pc t = .getSub2 h → K h = .taken t
  hNext : ∀ t h, s.pc t = .getNext h → t ∈ H h
  hCas : ∀ t h nx, s.pc t = .getCas h nx → t ∈ H h
  hSub2 : ∀ t h, s.pc t = .getSub2 h → t ∈ H h
  hDec : ∀ t h hd, s.pc t = .getDec h hd → t ∈ H h

theorem FInvL.fwd {s : St} {l : List Nat} {K : Nat → Kind} {H : Nat → List Tid} (h : FInvL s l K H) : Fwd s K H := by
  constructor
  · intro t n hpc; exact (h.kPut n t).2 (by simp [hpc, putNode])
  · intro t n k hpc; exact (h.kZero n t).2 (by simp [hpc, zeroNode])
  · intro t n hd k hpc; exact (h.kZero n t).2 (by simp [hpc, zeroNode])
  · intro t n hd k hpc; exact (h.kZero n t).2 (by simp [hpc, zeroNode])
  · intro t n hd k hpc; exact (h.kOne n t).2 (by simp [hpc, oneNode])
  · intro t n hd k hpc; exact (h.kOne n t).2 (by simp [hpc, oneNode])
  · intro t n hpc; exact (h.kTaken n t).2 (by simp [hpc, takenNode])
  · intro t n hpc; exact (h.hMem n t).2 (by simp [hpc, holdNode])
  · intro t n nx hpc; exact (h.hMem n t).2 (by simp [hpc, holdNode])
  · intro t n hpc; exact (h.hMem n t).2 (by simp [hpc, holdNode])
  · intro t n hd hpc; exact (h.hMem n t).2 (by simp [hpc, holdNode])

/-! ### Preservation: atomic steps -/

theorem getLoop_cases (hd : Option Nat) : getLoop hd = .done [0] ∨ ∃ a, hd = some a ∧ getLoop hd = .getRefs a := by
  cases hd <;> simp [getLoop]

/-- The program counter after `add_knowing_refcount_is_zero` holds no node. -/
theorem contPC_cases (k : Cont) : (∃ r, contPC k = .done r) ∨ ∃ a, contPC k = .getRefs a := by
  cases k with
  | put => exact Or.inl ⟨_, rfl⟩
  | get hd =>
    rcases getLoop_cases hd with h | ⟨a, -, h⟩
    · exact Or.inl ⟨_, h⟩
    · exact Or.inr ⟨a, h⟩

macro "finv_close" : tactic =>
  `(tactic| (constructor <;> intros <;> (try dsimp only at *) <;>
      grind [upd, upd2, putNode, zeroNode, oneNode, takenNode, holdNode, Kind.base, Kind.flag, Chain, Chain.upd]))


theorem finvl_step_addLd {s s' : St} {t : Tid} {ev : Ev} {l : List Nat} {K : Nat → Kind} {H : Nat → List Tid}
    {n : Nat} {k : Cont}
    (h : FInvL s l K H) (hpc : s.pc t = .addLd n k) (hs : step s t = some (s', ev)) :
    ∃ l' K' H', FInvL s' l' K' H' := by
  obtain ⟨f1, f2, f3, f4, f5, f6, f7, f8, f9, f10, f11⟩ := h.fwd
  obtain ⟨hch, hnd, hkl, hko, hkp, hkz, hk1, hkt, hhm, hhn, hcnt, hfl, hzh, hwh, hlk0, hlk, hkey, hinc⟩ := h
  simp only [step, hpc] at hs
  simp at hs; obtain ⟨rfl, -⟩ := hs
  refine ⟨l, K, H, ?_⟩
  finv_close

theorem finvl_step_getLd {s s' : St} {t : Tid} {ev : Ev} {l : List Nat} {K : Nat → Kind} {H : Nat → List Tid}
    (h : FInvL s l K H) (hpc : s.pc t = .getLd) (hs : step s t = some (s', ev)) :
    ∃ l' K' H', FInvL s' l' K' H' := by
  obtain ⟨f1, f2, f3, f4, f5, f6, f7, f8, f9, f10, f11⟩ := h.fwd
  obtain ⟨hch, hnd, hkl, hko, hkp, hkz, hk1, hkt, hhm, hhn, hcnt, hfl, hzh, hwh, hlk0, hlk, hkey, hinc⟩ := h
  simp only [step, hpc] at hs
  simp at hs; obtain ⟨rfl, -⟩ := hs
  refine ⟨l, K, H, ?_⟩
  have hgl := getLoop_cases s.head
  generalize getLoop s.head = q at *
  rcases hgl with rfl | ⟨a, ha, rfl⟩ <;> finv_close

theorem finvl_step_getNext {s s' : St} {t : Tid} {ev : Ev} {l : List Nat} {K : Nat → Kind} {H : Nat → List Tid}
    {h0 : Nat}
    (h : FInvL s l K H) (hpc : s.pc t = .getNext h0) (hs : step s t = some (s', ev)) :
    ∃ l' K' H', FInvL s' l' K' H' := by
  obtain ⟨f1, f2, f3, f4, f5, f6, f7, f8, f9, f10, f11⟩ := h.fwd
  obtain ⟨hch, hnd, hkl, hko, hkp, hkz, hk1, hkt, hhm, hhn, hcnt, hfl, hzh, hwh, hlk0, hlk, hkey, hinc⟩ := h
  simp only [step, hpc] at hs
  simp at hs; obtain ⟨rfl, -⟩ := hs
  refine ⟨l, K, H, ?_⟩
  finv_close

theorem finvl_step_getRefs {s s' : St} {t : Tid} {ev : Ev} {l : List Nat} {K : Nat → Kind} {H : Nat → List Tid}
    {h0 : Nat}
    (h : FInvL s l K H) (hpc : s.pc t = .getRefs h0) (hs : step s t = some (s', ev)) :
    ∃ l' K' H', FInvL s' l' K' H' := by
  obtain ⟨f1, f2, f3, f4, f5, f6, f7, f8, f9, f10, f11⟩ := h.fwd
  obtain ⟨hch, hnd, hkl, hko, hkp, hkz, hk1, hkt, hhm, hhn, hcnt, hfl, hzh, hwh, hlk0, hlk, hkey, hinc⟩ := h
  simp only [step, hpc] at hs
  simp at hs; obtain ⟨rfl, -⟩ := hs
  refine ⟨l, K, H, ?_⟩
  by_cases hc : s.refs h0 = 0
  · simp only [hc, if_true]; finv_close
  · simp only [hc, if_false]; finv_close



theorem finvl_step_putAdd {s s' : St} {t : Tid} {ev : Ev} {l : List Nat} {K : Nat → Kind} {H : Nat → List Tid}
    {n : Nat}
    (h : FInvL s l K H) (hpc : s.pc t = .putAdd n) (hs : step s t = some (s', ev)) :
    ∃ l' K' H', FInvL s' l' K' H' := by
  obtain ⟨f1, f2, f3, f4, f5, f6, f7, f8, f9, f10, f11⟩ := h.fwd
  obtain ⟨hch, hnd, hkl, hko, hkp, hkz, hk1, hkt, hhm, hhn, hcnt, hfl, hzh, hwh, hlk0, hlk, hkey, hinc⟩ := h
  simp only [step, hpc] at hs
  simp only [wAddBit_eq] at hs
  simp at hs; obtain ⟨rfl, -⟩ := hs
  have hk : K n = .putting t := (hkp n t).2 (by simp [hpc, putNode])
  have hf : s.shouldBeOn n = false := by rw [hfl, hk]; rfl
  have hc : s.refs n = (H n).length := by rw [hcnt, hk]; simp [Kind.base]
  by_cases hz : s.refs n = 0
  · have hH : H n = [] := by cases hh : H n <;> simp_all
    simp only [hz, hf, and_self, if_true]
    refine ⟨l, upd K n (.zero t), H, ?_⟩
    finv_close
  · have hH : H n ≠ [] := by intro e; rw [e] at hc; exact hz hc
    simp only [hz, false_and, if_false]
    refine ⟨l, upd K n .waiting, H, ?_⟩
    finv_close

theorem finvl_step_addStNext {s s' : St} {t : Tid} {ev : Ev} {l : List Nat} {K : Nat → Kind} {H : Nat → List Tid}
    {n : Nat} {hd : Option Nat} {k : Cont}
    (h : FInvL s l K H) (hpc : s.pc t = .addStNext n hd k) (hs : step s t = some (s', ev)) :
    ∃ l' K' H', FInvL s' l' K' H' := by
  obtain ⟨f1, f2, f3, f4, f5, f6, f7, f8, f9, f10, f11⟩ := h.fwd
  obtain ⟨hch, hnd, hkl, hko, hkp, hkz, hk1, hkt, hhm, hhn, hcnt, hfl, hzh, hwh, hlk0, hlk, hkey, hinc⟩ := h
  simp only [step, hpc] at hs
  simp at hs; obtain ⟨rfl, -⟩ := hs
  have hk : K n = .zero t := (hkz n t).2 (by simp [hpc, zeroNode])
  have hn : n ∉ l := fun hm => by have := (hkl n).2 hm; rw [hk] at this; cases this
  have hch' := Chain.upd (v := hd) hn hch
  have hH : H n = [] := hzh n t hk
  have hnohold : ∀ t2, holdNode (s.pc t2) ≠ some n := fun t2 h2 => by
    have := (hhm n t2).2 h2; rw [hH] at this; cases this
  refine ⟨l, K, H, ?_⟩
  finv_close

theorem finvl_step_addStRefs {s s' : St} {t : Tid} {ev : Ev} {l : List Nat} {K : Nat → Kind} {H : Nat → List Tid}
    {n : Nat} {hd : Option Nat} {k : Cont}
    (h : FInvL s l K H) (hpc : s.pc t = .addStRefs n hd k) (hs : step s t = some (s', ev)) :
    ∃ l' K' H', FInvL s' l' K' H' := by
  obtain ⟨f1, f2, f3, f4, f5, f6, f7, f8, f9, f10, f11⟩ := h.fwd
  obtain ⟨hch, hnd, hkl, hko, hkp, hkz, hk1, hkt, hhm, hhn, hcnt, hfl, hzh, hwh, hlk0, hlk, hkey, hinc⟩ := h
  simp only [step, hpc] at hs
  simp at hs; obtain ⟨rfl, -⟩ := hs
  have hk : K n = .zero t := (hkz n t).2 (by simp [hpc, zeroNode])
  have hH : H n = [] := hzh n t hk
  refine ⟨l, upd K n (.one t), H, ?_⟩
  finv_close



theorem finvl_step_addCas {s s' : St} {t : Tid} {ev : Ev} {l : List Nat} {K : Nat → Kind} {H : Nat → List Tid}
    {n : Nat} {hd : Option Nat} {k : Cont}
    (h : FInvL s l K H) (hpc : s.pc t = .addCas n hd k) (hs : step s t = some (s', ev)) :
    ∃ l' K' H', FInvL s' l' K' H' := by
  obtain ⟨f1, f2, f3, f4, f5, f6, f7, f8, f9, f10, f11⟩ := h.fwd
  obtain ⟨hch, hnd, hkl, hko, hkp, hkz, hk1, hkt, hhm, hhn, hcnt, hfl, hzh, hwh, hlk0, hlk, hkey, hinc⟩ := h
  simp only [step, hpc] at hs
  have hk : K n = .one t := f5 t n hd k hpc
  have hn : n ∉ l := fun hm => by have := (hkl n).2 hm; rw [hk] at this; cases this
  split at hs
  next heq =>
    simp at hs; obtain ⟨rfl, -⟩ := hs
    have hnn := hlk t n hd k hpc
    refine ⟨n :: l, upd K n .onList, H, ?_⟩
    rcases contPC_cases k with ⟨r, hq⟩ | ⟨a, hq⟩ <;> rw [hq] <;> finv_close
  next hne =>
    simp at hs; obtain ⟨rfl, -⟩ := hs
    refine ⟨l, K, H, ?_⟩
    finv_close

theorem finvl_step_addFix {s s' : St} {t : Tid} {ev : Ev} {l : List Nat} {K : Nat → Kind} {H : Nat → List Tid}
    {n : Nat} {hd : Option Nat} {k : Cont}
    (h : FInvL s l K H) (hpc : s.pc t = .addFix n hd k) (hs : step s t = some (s', ev)) :
    ∃ l' K' H', FInvL s' l' K' H' := by
  obtain ⟨f1, f2, f3, f4, f5, f6, f7, f8, f9, f10, f11⟩ := h.fwd
  obtain ⟨hch, hnd, hkl, hko, hkp, hkz, hk1, hkt, hhm, hhn, hcnt, hfl, hzh, hwh, hlk0, hlk, hkey, hinc⟩ := h
  simp only [step, hpc] at hs
  have hk : K n = .one t := f6 t n hd k hpc
  have hf : s.shouldBeOn n = false := by rw [hfl, hk]; rfl
  have hc : s.refs n = 1 + (H n).length := by rw [hcnt, hk]; simp [Kind.base]
  rw [wAddBitM1_of_pos _ (by omega)] at hs
  simp at hs; obtain ⟨rfl, -⟩ := hs
  by_cases hz : s.refs n = 1
  · have hH : H n = [] := by cases hh : H n <;> simp_all
    simp only [hz, hf, and_self, if_true]
    refine ⟨l, upd K n (.zero t), H, ?_⟩
    finv_close
  · have hH : H n ≠ [] := by intro e; rw [e] at hc; exact hz hc
    have hlen : s.refs n - 1 = (H n).length := by omega
    simp only [hz, false_and, if_false]
    refine ⟨l, upd K n .waiting, H, ?_⟩
    rcases contPC_cases k with ⟨r, hq⟩ | ⟨a, hq⟩ <;> rw [hq] <;> finv_close



theorem finvl_step_getInc {s s' : St} {t : Tid} {ev : Ev} {l : List Nat} {K : Nat → Kind} {H : Nat → List Tid}
    {h0 c : Nat} {f : Bool}
    (h : FInvL s l K H) (hpc : s.pc t = .getInc h0 c f) (hs : step s t = some (s', ev)) :
    ∃ l' K' H', FInvL s' l' K' H' := by
  obtain ⟨f1, f2, f3, f4, f5, f6, f7, f8, f9, f10, f11⟩ := h.fwd
  obtain ⟨hch, hnd, hkl, hko, hkp, hkz, hk1, hkt, hhm, hhn, hcnt, hfl, hzh, hwh, hlk0, hlk, hkey, hinc⟩ := h
  simp only [step, hpc] at hs
  split at hs
  next heq =>
    simp at hs; obtain ⟨rfl, -⟩ := hs
    have hpos := hinc t h0 c f hpc
    have hnot : t ∉ H h0 := fun hm => by have := (hhm h0 t).1 hm; simp [hpc, holdNode] at this
    have hnz : ∀ t2, K h0 ≠ .zero t2 := fun t2 e => by
      have h1 := hcnt h0; have h2 := hzh h0 t2 e
      rw [e, h2] at h1; simp [Kind.base] at h1; omega
    refine ⟨l, K, upd H h0 (t :: H h0), ?_⟩
    finv_close
  next hne =>
    simp at hs; obtain ⟨rfl, -⟩ := hs
    refine ⟨l, K, H, ?_⟩
    finv_close

theorem finvl_step_getCas {s s' : St} {t : Tid} {ev : Ev} {l : List Nat} {K : Nat → Kind} {H : Nat → List Tid}
    {h0 : Nat} {nx : Option Nat}
    (h : FInvL s l K H) (hpc : s.pc t = .getCas h0 nx) (hs : step s t = some (s', ev)) :
    ∃ l' K' H', FInvL s' l' K' H' := by
  obtain ⟨f1, f2, f3, f4, f5, f6, f7, f8, f9, f10, f11⟩ := h.fwd
  obtain ⟨hch, hnd, hkl, hko, hkp, hkz, hk1, hkt, hhm, hhn, hcnt, hfl, hzh, hwh, hlk0, hlk, hkey, hinc⟩ := h
  simp only [step, hpc] at hs
  split at hs
  next heq =>
    simp at hs; obtain ⟨rfl, -⟩ := hs
    have hnx := hkey t h0 nx hpc
    cases l with
    | nil => simp_all [Chain]
    | cons b l0 =>
      have hb : b = h0 := by simp_all [Chain]
      subst hb
      have hk : K b = .onList := (hkl b).2 (by simp)
      refine ⟨l0, upd K b (.taken t), H, ?_⟩
      finv_close
  next hne =>
    simp at hs; obtain ⟨rfl, -⟩ := hs
    refine ⟨l, K, H, ?_⟩
    finv_close



theorem erase_facts {L : List Tid} {t : Tid} (hnd : L.Nodup) (hm : t ∈ L) :
    (L.erase t).Nodup ∧ (L.erase t).length + 1 = L.length ∧ ∀ x, x ∈ L.erase t ↔ (x ≠ t ∧ x ∈ L) := by
  refine ⟨hnd.erase t, ?_, fun x => hnd.mem_erase_iff⟩
  have := List.length_erase_of_mem hm
  have : 0 < L.length := List.length_pos_of_mem hm
  omega

theorem finvl_step_getSub2 {s s' : St} {t : Tid} {ev : Ev} {l : List Nat} {K : Nat → Kind} {H : Nat → List Tid}
    {h0 : Nat}
    (h : FInvL s l K H) (hpc : s.pc t = .getSub2 h0) (hs : step s t = some (s', ev)) :
    ∃ l' K' H', FInvL s' l' K' H' := by
  obtain ⟨f1, f2, f3, f4, f5, f6, f7, f8, f9, f10, f11⟩ := h.fwd
  obtain ⟨hch, hnd, hkl, hko, hkp, hkz, hk1, hkt, hhm, hhn, hcnt, hfl, hzh, hwh, hlk0, hlk, hkey, hinc⟩ := h
  simp only [step, hpc] at hs
  have hk : K h0 = .taken t := f7 t h0 hpc
  have hm : t ∈ H h0 := f10 t h0 hpc
  obtain ⟨e1, e2, e3⟩ := erase_facts (hhn h0) hm
  have hf : s.shouldBeOn h0 = false := by rw [hfl, hk]; rfl
  have hc : s.refs h0 = 1 + (H h0).length := by rw [hcnt, hk]; simp [Kind.base]
  rw [wSub2_of_ge _ (by omega)] at hs
  simp at hs; obtain ⟨rfl, -⟩ := hs
  have hlen : s.refs h0 - 2 = ((H h0).erase t).length := by omega
  refine ⟨l, upd K h0 (.owned t), upd H h0 ((H h0).erase t), ?_⟩
  generalize (H h0).erase t = E at *
  finv_close

theorem finvl_step_getDec {s s' : St} {t : Tid} {ev : Ev} {l : List Nat} {K : Nat → Kind} {H : Nat → List Tid}
    {h0 : Nat} {hd : Option Nat}
    (h : FInvL s l K H) (hpc : s.pc t = .getDec h0 hd) (hs : step s t = some (s', ev)) :
    ∃ l' K' H', FInvL s' l' K' H' := by
  obtain ⟨f1, f2, f3, f4, f5, f6, f7, f8, f9, f10, f11⟩ := h.fwd
  obtain ⟨hch, hnd, hkl, hko, hkp, hkz, hk1, hkt, hhm, hhn, hcnt, hfl, hzh, hwh, hlk0, hlk, hkey, hinc⟩ := h
  simp only [step, hpc] at hs
  have hm : t ∈ H h0 := f11 t h0 hd hpc
  obtain ⟨e1, e2, e3⟩ := erase_facts (hhn h0) hm
  have hc := hcnt h0
  have hfl0 := hfl h0
  rw [wSub1_of_pos _ (by omega)] at hs
  simp at hs; obtain ⟨rfl, -⟩ := hs
  have hnz : ∀ t2, K h0 ≠ .zero t2 := fun t2 e => by
    have h2 := hzh h0 t2 e; rw [h2] at hm; cases hm
  by_cases hz : s.refs h0 = 1 ∧ s.shouldBeOn h0 = true
  · have hk : K h0 = .waiting := by
      have := hz.2; rw [hfl0] at this
      cases hkk : K h0 <;> simp_all [Kind.flag]
    have hE : (H h0).erase t = [] := by
      have : ((H h0).erase t).length = 0 := by rw [hk] at hc; simp [Kind.base] at hc; omega
      simpa using this
    simp only [hz, and_self, if_true]
    refine ⟨l, upd K h0 (.zero t), upd H h0 [], ?_⟩
    rw [hE] at e1 e2 e3
    finv_close
  · have hlen : s.refs h0 - 1 = (K h0).base + ((H h0).erase t).length := by omega
    have hw : K h0 = .waiting → (H h0).erase t ≠ [] := by
      intro hk e
      rw [hk] at hc hfl0
      rw [e] at e2
      simp [Kind.base, Kind.flag] at hc hfl0 e2
      exact hz ⟨by omega, hfl0⟩
    simp only [hz, if_false]
    refine ⟨l, K, upd H h0 ((H h0).erase t), ?_⟩
    generalize (H h0).erase t = E at *
    have hgl := getLoop_cases hd
    generalize getLoop hd = q at *
    rcases hgl with rfl | ⟨a, ha, rfl⟩ <;> finv_close


theorem finvl_step {s s' : St} {t : Tid} {ev : Ev} {l : List Nat} {K : Nat → Kind} {H : Nat → List Tid}
    (h : FInvL s l K H) (hs : step s t = some (s', ev)) : ∃ l' K' H', FInvL s' l' K' H' := by
  cases hpc : s.pc t with
  | idle => simp [step, hpc] at hs
  | done r => simp [step, hpc] at hs
  | putAdd n => exact finvl_step_putAdd h hpc hs
  | addLd n k => exact finvl_step_addLd h hpc hs
  | addStNext n hd k => exact finvl_step_addStNext h hpc hs
  | addStRefs n hd k => exact finvl_step_addStRefs h hpc hs
  | addCas n hd k => exact finvl_step_addCas h hpc hs
  | addFix n hd k => exact finvl_step_addFix h hpc hs
  | getLd => exact finvl_step_getLd h hpc hs
  | getRefs h0 => exact finvl_step_getRefs h hpc hs
  | getInc h0 c f => exact finvl_step_getInc h hpc hs
  | getNext h0 => exact finvl_step_getNext h hpc hs
  | getCas h0 nx => exact finvl_step_getCas h hpc hs
  | getSub2 h0 => exact finvl_step_getSub2 h hpc hs
  | getDec h0 hd => exact finvl_step_getDec h hpc hs

/-! ### Preservation: invocation and return -/

theorem finvl_invoke {s s' : St} {t : Tid} {op : GOp} {l : List Nat} {K : Nat → Kind} {H : Nat → List Tid}
    (h : FInvL s l K H) (hs : invoke s t op = some s') : ∃ K', FInvL s' l K' H := by
  obtain ⟨f1, f2, f3, f4, f5, f6, f7, f8, f9, f10, f11⟩ := h.fwd
  obtain ⟨hch, hnd, hkl, hko, hkp, hkz, hk1, hkt, hhm, hhn, hcnt, hfl, hzh, hwh, hlk0, hlk, hkey, hinc⟩ := h
  obtain ⟨name, args⟩ := op
  unfold invoke at hs
  split at hs
  next x n hpc hname hargs =>
    split at hs
    next hc =>
      simp at hs; subst hs
      obtain ⟨-, hc⟩ := hc
      generalize n.toNat = m at *
      have hk : K m = .owned t := (hko m t).2 hc
      refine ⟨upd K m (.putting t), ?_⟩
      finv_close
    next => simp at hs
  next hpc hname hargs =>
    simp at hs; subst hs
    refine ⟨K, ?_⟩
    finv_close
  next => simp at hs

theorem finvl_result {s s' : St} {t : Tid} {r : GRet} {l : List Nat} {K : Nat → Kind} {H : Nat → List Tid}
    (h : FInvL s l K H) (hs : result s t = some (s', r)) : FInvL s' l K H := by
  obtain ⟨f1, f2, f3, f4, f5, f6, f7, f8, f9, f10, f11⟩ := h.fwd
  obtain ⟨hch, hnd, hkl, hko, hkp, hkz, hk1, hkt, hhm, hhn, hcnt, hfl, hzh, hwh, hlk0, hlk, hkey, hinc⟩ := h
  unfold result at hs
  split at hs
  next r' hpc =>
    simp at hs; obtain ⟨rfl, rfl⟩ := hs
    finv_close
  next => simp at hs

/-! ### Reachable states -/

theorem finv_apply {s s' : St} {t : Tid} {a : Act} {o : Obs} (h : FInv s)
    (hap : model.apply s t a = some (s', o)) : FInv s' := by
  obtain ⟨l, K, H, hl⟩ := h
  cases a with
  | invoke op =>
    simp only [Model.apply, model, Option.map_eq_some_iff] at hap
    obtain ⟨s1, hs1, heq⟩ := hap
    simp only [Prod.mk.injEq] at heq
    obtain ⟨rfl, -⟩ := heq
    obtain ⟨K', hK'⟩ := finvl_invoke hl hs1
    exact ⟨l, K', H, hK'⟩
  | step =>
    simp only [Model.apply, model, Option.map_eq_some_iff] at hap
    obtain ⟨⟨s1, e⟩, hs1, heq⟩ := hap
    simp only [Prod.mk.injEq] at heq
    obtain ⟨rfl, -⟩ := heq
    exact finvl_step hl hs1
  | ret =>
    simp only [Model.apply, model, Option.map_eq_some_iff] at hap
    obtain ⟨⟨s1, r⟩, hs1, heq⟩ := hap
    simp only [Prod.mk.injEq] at heq
    obtain ⟨rfl, -⟩ := heq
    exact ⟨l, K, H, finvl_result hl hs1⟩

theorem finv_reachable (own0 : Nat → Tid) (s : St) (h : model.Reachable (init own0) s) : FInv s :=
  model.inv_reachable FInv (init own0) ⟨[], _, _, finv_init own0⟩ (fun _ _ _ _ _ hi hap => finv_apply hi hap) s h

/-! ### Consequences of the invariant -/

/-- The node a thread's operation has "in its hands": the argument of `put` before its `fetch_add`, the node
    `add_knowing_refcount_is_zero` is linking, the node a `get` has unlinked and not yet handed out. -/
def handNode : PC → Option Nat
  | .putAdd n => some n
  | .addLd n _ => some n
  | .addStNext n _ _ => some n
  | .addStRefs n _ _ => some n
  | .addCas n _ _ => some n
  | .addFix n _ _ => some n
  | .getSub2 h => some h
  | _ => none

theorem handNode_iff (q : PC) (a : Nat) : handNode q = some a ↔
    (putNode q = some a ∨ zeroNode q = some a ∨ oneNode q = some a ∨ takenNode q = some a) := by
  cases q <;> simp [handNode, putNode, zeroNode, oneNode, takenNode]

section
variable {s : St} {l : List Nat} {K : Nat → Kind} {H : Nat → List Tid}

theorem FInvL.own1 (h : FInvL s l K H) {t1 t2 : Tid} {a : Nat} (h1 : s.owns t1 a = true)
    (h2 : s.owns t2 a = true) : t1 = t2 := by
  have e1 := (h.kOwn a t1).2 h1
  have e2 := (h.kOwn a t2).2 h2
  rw [e1] at e2
  cases e2; rfl

theorem FInvL.kind_of_hand (h : FInvL s l K H) {t : Tid} {a : Nat} (hh : handNode (s.pc t) = some a) :
    K a = .putting t ∨ K a = .zero t ∨ K a = .one t ∨ K a = .taken t := by
  rw [handNode_iff] at hh
  rcases hh with h1 | h1 | h1 | h1
  · exact Or.inl ((h.kPut a t).2 h1)
  · exact Or.inr (Or.inl ((h.kZero a t).2 h1))
  · exact Or.inr (Or.inr (Or.inl ((h.kOne a t).2 h1)))
  · exact Or.inr (Or.inr (Or.inr ((h.kTaken a t).2 h1)))

/-- The operation in whose hands a node is, is unique. -/
theorem FInvL.hand1 (h : FInvL s l K H) {t1 t2 : Tid} {a : Nat} (h1 : handNode (s.pc t1) = some a)
    (h2 : handNode (s.pc t2) = some a) : t1 = t2 := by
  rcases h.kind_of_hand h1 with e1 | e1 | e1 | e1 <;> rcases h.kind_of_hand h2 with e2 | e2 | e2 | e2 <;>
    rw [e1] at e2 <;> cases e2 <;> rfl

theorem FInvL.notin_of_kind (h : FInvL s l K H) {a : Nat} (hk : K a ≠ .onList) : a ∉ l :=
  fun hm => hk ((h.kList a).2 hm)

theorem FInvL.unowned_of_kind (h : FInvL s l K H) {a : Nat} (hk : ∀ t, K a ≠ .owned t) (t : Tid) :
    s.owns t a = false := by
  cases ho : s.owns t a with
  | false => rfl
  | true => exact absurd ((h.kOwn a t).2 ho) (hk t)

theorem FInvL.nohand_of_kind (h : FInvL s l K H) {a : Nat}
    (hk : ∀ t, K a ≠ .putting t ∧ K a ≠ .zero t ∧ K a ≠ .one t ∧ K a ≠ .taken t) (t : Tid) :
    handNode (s.pc t) ≠ some a := by
  intro hh
  obtain ⟨h1, h2, h3, h4⟩ := hk t
  rcases h.kind_of_hand hh with e | e | e | e
  · exact h1 e
  · exact h2 e
  · exact h3 e
  · exact h4 e

/-- Where a node is, in terms of the state alone: on the chain; owned by a thread; in the hands of an operation;
    or waiting (flagged, referenced by a getter that will link it). -/
theorem FInvL.place (h : FInvL s l K H) (a : Nat) :
    (a ∈ l ∧ (∀ t, s.owns t a = false) ∧ (∀ t, handNode (s.pc t) ≠ some a) ∧ s.shouldBeOn a = false ∧ 1 ≤ s.refs a) ∨
    (a ∉ l ∧ (∃ t, s.owns t a = true) ∧ (∀ t, handNode (s.pc t) ≠ some a) ∧ s.shouldBeOn a = false) ∨
    (a ∉ l ∧ (∀ t, s.owns t a = false) ∧ (∃ t, handNode (s.pc t) = some a) ∧ (s.shouldBeOn a = true → s.refs a = 0)) ∨
    (a ∉ l ∧ (∀ t, s.owns t a = false) ∧ (∀ t, handNode (s.pc t) ≠ some a) ∧ s.shouldBeOn a = true ∧ 1 ≤ s.refs a ∧
      ∃ t, holdNode (s.pc t) = some a) := by
  have hc := h.cntEq a
  have hf := h.flagEq a
  cases hk : K a with
  | onList =>
    rw [hk] at hc hf
    exact Or.inl ⟨(h.kList a).1 hk, h.unowned_of_kind (by simp [hk]), h.nohand_of_kind (by simp [hk]), hf,
      by simp [Kind.base] at hc; omega⟩
  | owned t0 =>
    rw [hk] at hc hf
    exact Or.inr (Or.inl ⟨h.notin_of_kind (by simp [hk]), ⟨t0, (h.kOwn a t0).1 hk⟩, h.nohand_of_kind (by simp [hk]), hf⟩)
  | putting t0 =>
    rw [hk] at hc hf
    exact Or.inr (Or.inr (Or.inl ⟨h.notin_of_kind (by simp [hk]), h.unowned_of_kind (by simp [hk]),
      ⟨t0, (handNode_iff _ _).2 (Or.inl ((h.kPut a t0).1 hk))⟩, by simp [hf, Kind.flag]⟩))
  | zero t0 =>
    rw [hk] at hc hf
    exact Or.inr (Or.inr (Or.inl ⟨h.notin_of_kind (by simp [hk]), h.unowned_of_kind (by simp [hk]),
      ⟨t0, (handNode_iff _ _).2 (Or.inr (Or.inl ((h.kZero a t0).1 hk)))⟩,
      fun _ => by rw [hc, h.zeroH a t0 hk]; simp [Kind.base]⟩))
  | one t0 =>
    rw [hk] at hc hf
    exact Or.inr (Or.inr (Or.inl ⟨h.notin_of_kind (by simp [hk]), h.unowned_of_kind (by simp [hk]),
      ⟨t0, (handNode_iff _ _).2 (Or.inr (Or.inr (Or.inl ((h.kOne a t0).1 hk))))⟩, by simp [hf, Kind.flag]⟩))
  | taken t0 =>
    rw [hk] at hc hf
    exact Or.inr (Or.inr (Or.inl ⟨h.notin_of_kind (by simp [hk]), h.unowned_of_kind (by simp [hk]),
      ⟨t0, (handNode_iff _ _).2 (Or.inr (Or.inr (Or.inr ((h.kTaken a t0).1 hk))))⟩, by simp [hf, Kind.flag]⟩))
  | waiting =>
    rw [hk] at hc hf
    have hne := h.waitH a hk
    obtain ⟨t0, ht0⟩ := List.exists_mem_of_ne_nil _ hne
    have hpos : 0 < (H a).length := List.length_pos_of_mem ht0
    exact Or.inr (Or.inr (Or.inr ⟨h.notin_of_kind (by simp [hk]), h.unowned_of_kind (by simp [hk]),
      h.nohand_of_kind (by simp [hk]), hf, by omega, ⟨t0, (h.hMem a t0).1 ht0⟩⟩))

/-- No borrow, no carry into the wrong bit: the four read-modify-write operations on `m_freeListRefs` always find
    the word in the shape the algorithm expects (in particular the `assert` after the successful CAS of `get`). -/
theorem FInvL.no_borrow (h : FInvL s l K H) :
    (∀ t n, s.pc t = .putAdd n → s.shouldBeOn n = false) ∧
    (∀ t n hd k, s.pc t = .addFix n hd k → s.shouldBeOn n = false ∧ 1 ≤ s.refs n) ∧
    (∀ t h0, s.pc t = .getSub2 h0 → s.shouldBeOn h0 = false ∧ 2 ≤ s.refs h0) ∧
    (∀ t h0 hd, s.pc t = .getDec h0 hd → 1 ≤ s.refs h0) := by
  have hf := h.fwd
  refine ⟨?_, ?_, ?_, ?_⟩
  · intro t n hpc
    rw [h.flagEq, hf.putAdd t n hpc]; rfl
  · intro t n hd k hpc
    rw [h.flagEq, h.cntEq, hf.addFix t n hd k hpc]
    exact ⟨rfl, by simp [Kind.base]⟩
  · intro t h0 hpc
    have hm := hf.hSub2 t h0 hpc
    have : 0 < (H h0).length := List.length_pos_of_mem hm
    rw [h.flagEq, h.cntEq, hf.getSub2 t h0 hpc]
    exact ⟨rfl, by simp [Kind.base]; omega⟩
  · intro t h0 hd hpc
    have hm := hf.hDec t h0 hd hpc
    have : 0 < (H h0).length := List.length_pos_of_mem hm
    rw [h.cntEq]; omega

end

theorem getLoop_ne_getSub2 (hd : Option Nat) (h : Nat) : getLoop hd ≠ .getSub2 h := by
  cases hd <;> simp [getLoop]
theorem contPC_ne_getSub2 (k : Cont) (h : Nat) : contPC k ≠ .getSub2 h := by
  cases k <;> simp [contPC, getLoop_ne_getSub2]
theorem getLoop_ne_done1 (hd : Option Nat) (v : Int) : getLoop hd ≠ .done [1, v] := by
  cases hd <;> simp [getLoop]
theorem contPC_ne_done1 (k : Cont) (v : Int) : contPC k ≠ .done [1, v] := by
  cases k <;> simp [contPC, getLoop_ne_done1]

theorem step_to_getSub2 {s s' : St} {t : Tid} {ev : Ev} {h0 : Nat}
    (hs : step s t = some (s', ev)) (hpost : s'.pc t = .getSub2 h0) :
    ∃ nx, s.pc t = .getCas h0 nx ∧ s.head = some h0 := by
  cases hpc : s.pc t <;> simp only [step, hpc] at hs
  all_goals (try split at hs)
  all_goals (try (simp at hs))
  all_goals (try (obtain ⟨rfl, -⟩ := hs))
  all_goals (simp [upd, getLoop_ne_getSub2, contPC_ne_getSub2] at hpost)
  all_goals (try (split at hpost <;> simp [getLoop_ne_getSub2, contPC_ne_getSub2] at hpost))
  next h1 nx hc => exact ⟨nx, by rw [hpost], by rw [hc, hpost]⟩

theorem step_to_done1 {s s' : St} {t : Tid} {ev : Ev} {v : Int}
    (hs : step s t = some (s', ev)) (hpost : s'.pc t = .done [1, v]) :
    ∃ h0 : Nat, v = (h0 : Int) ∧ s.pc t = .getSub2 h0 := by
  cases hpc : s.pc t <;> simp only [step, hpc] at hs
  all_goals (try split at hs)
  all_goals (try (simp at hs))
  all_goals (try (obtain ⟨rfl, -⟩ := hs))
  all_goals (simp [upd, getLoop_ne_done1, contPC_ne_done1] at hpost)
  all_goals (try (split at hpost <;> simp [getLoop_ne_done1, contPC_ne_done1] at hpost))
  next h1 => exact ⟨h1, hpost.symm, rfl⟩

/-- THE REFERENCE-COUNT LEMMA.  While a getter holds a counted reference on node `h` and has read `nx` from its
    `m_freeListNext`: the count is at least 1, no thread is inside `add_knowing_refcount_is_zero( h )` before the
    `store( 1 )` (the only place where `h`'s `m_freeListNext` is written), and `nx` IS `h`'s current successor.
    `h` itself may be anywhere: on the list, owned by a client, being put back. -/
theorem FInvL.ref_protects {s : St} {l : List Nat} {K : Nat → Kind} {H : Nat → List Tid} (h : FInvL s l K H)
    {t : Tid} {h0 : Nat} {nx : Option Nat} (hpc : s.pc t = .getCas h0 nx) :
    s.next h0 = nx ∧ 1 ≤ s.refs h0 ∧ (∀ t2, zeroNode (s.pc t2) ≠ some h0) ∧
    (s.head = some h0 → ∃ l0, l = h0 :: l0) := by
  have hm := h.fwd.hCas t h0 nx hpc
  have hpos : 0 < (H h0).length := List.length_pos_of_mem hm
  refine ⟨h.key t h0 nx hpc, by rw [h.cntEq]; omega, fun t2 hz => ?_, fun hh => ?_⟩
  · have := h.zeroH h0 t2 ((h.kZero h0 t2).2 hz)
    rw [this] at hm; cases hm
  · have hch := h.chain
    cases l with
    | nil => simp_all [Chain]
    | cons b l0 =>
      simp only [Chain] at hch
      have : b = h0 := by have := hch.1.symm.trans hh; simpa using this
      exact ⟨l0, by rw [this]⟩

/-! ### The hand-out path of `get` -/

/-- A thread reaches `getSub2 h` only by a successful CAS on the head expecting `h`.  At that instant `h` is the
    FIRST node of the chain, nobody owns it, no operation has it in its hands, its bit is clear; the value written
    to the head is `h`'s current successor, so the new chain is the old one without `h`. -/
theorem get_cas_success {s s' : St} {t : Tid} {ev : Ev} {h0 : Nat} (h : FInv s)
    (hs : step s t = some (s', ev)) (hpost : s'.pc t = .getSub2 h0) :
    ∃ nx l, s.pc t = .getCas h0 nx ∧ ev = evCasPtrOk headLoc (some h0) nx ∧
      Chain s.next s.head (h0 :: l) ∧ s.next h0 = nx ∧ (∀ t2, s.owns t2 h0 = false) ∧
      (∀ t2, handNode (s.pc t2) ≠ some h0) ∧ s.shouldBeOn h0 = false ∧ Chain s'.next s'.head l := by
  obtain ⟨l, K, H, hl⟩ := h
  obtain ⟨nx, hpc, hhead⟩ := step_to_getSub2 hs hpost
  simp only [step, hpc, hhead, if_true] at hs
  simp at hs; obtain ⟨rfl, rfl⟩ := hs
  have hnx := hl.key t h0 nx hpc
  have hch := hl.chain
  cases l with
  | nil => simp_all [Chain]
  | cons b l0 =>
    have hb : b = h0 := by simp_all [Chain]
    subst hb
    have hk : K b = .onList := (hl.kList b).2 (by simp)
    refine ⟨nx, l0, hpc, rfl, hch, hnx, hl.unowned_of_kind (by simp [hk]), hl.nohand_of_kind (by simp [hk]), ?_, ?_⟩
    · rw [hl.flagEq, hk]; rfl
    · simp only [Chain] at hch
      dsimp only
      rw [← hnx]; exact hch.2

/-- `get` decides to return a node only at its `fetch_sub( 2 )`, i.e. after the successful CAS above, and returns
    the node it has unlinked; at that instant nobody owns the node, and afterwards the getter does. -/
theorem get_result_only_by_sub2 {s s' : St} {t : Tid} {ev : Ev} {v : Int} (h : FInv s)
    (hs : step s t = some (s', ev)) (hpost : s'.pc t = .done [1, v]) :
    ∃ h0 : Nat, v = (h0 : Int) ∧ s.pc t = .getSub2 h0 ∧ (∀ t2, s.owns t2 h0 = false) ∧
      s.shouldBeOn h0 = false ∧ 2 ≤ s.refs h0 ∧ s'.owns t h0 = true ∧
      ev = evRmw "sub" h0 (s.refs h0) false 2 := by
  obtain ⟨l, K, H, hl⟩ := h
  obtain ⟨h0, hv, hpc⟩ := step_to_done1 hs hpost
  have hk := hl.fwd.getSub2 t h0 hpc
  obtain ⟨-, -, hb, -⟩ := hl.no_borrow
  obtain ⟨hf, hc⟩ := hb t h0 hpc
  simp only [step, hpc] at hs
  simp at hs; obtain ⟨rfl, rfl⟩ := hs
  exact ⟨h0, hv, hpc, hl.unowned_of_kind (by simp [hk]), hf, hc, by simp [upd2], by rw [hf]⟩

/-! ### Quiescent states and sequential `get` -/

/-- When no operation is in progress: the chain consists exactly of the nodes owned by nobody, every node of the
    chain has `m_freeListRefs = 1`, and every other node has `m_freeListRefs = 0`. -/
theorem quiescent_chain {s : St} (h : FInv s) (hq : ∀ t, s.pc t = .idle) :
    ∃ l, Chain s.next s.head l ∧ l.Nodup ∧ (∀ a, a ∈ l ↔ ∀ t, s.owns t a = false) ∧
      (∀ a ∈ l, s.refs a = 1 ∧ s.shouldBeOn a = false) ∧ (∀ a, a ∉ l → s.refs a = 0 ∧ s.shouldBeOn a = false) := by
  obtain ⟨l, K, H, hl⟩ := h
  have hH : ∀ a, H a = [] := fun a => by
    apply List.eq_nil_iff_forall_not_mem.mpr
    intro t ht
    have := (hl.hMem a t).1 ht
    simp [hq t, holdNode] at this
  have hkind : ∀ a, K a = .onList ∨ ∃ t, K a = .owned t := fun a => by
    cases hk : K a with
    | onList => exact Or.inl rfl
    | owned t0 => exact Or.inr ⟨t0, rfl⟩
    | putting t0 => have := (hl.kPut a t0).1 hk; simp [hq t0, putNode] at this
    | zero t0 => have := (hl.kZero a t0).1 hk; simp [hq t0, zeroNode] at this
    | one t0 => have := (hl.kOne a t0).1 hk; simp [hq t0, oneNode] at this
    | taken t0 => have := (hl.kTaken a t0).1 hk; simp [hq t0, takenNode] at this
    | waiting => exact absurd (hH a) (hl.waitH a hk)
  refine ⟨l, hl.chain, hl.nodup, fun a => ?_, fun a ha => ?_, fun a ha => ?_⟩
  · constructor
    · intro ha
      exact hl.unowned_of_kind (by simp [(hl.kList a).2 ha])
    · intro ho
      rcases hkind a with hk | ⟨t0, hk⟩
      · exact (hl.kList a).1 hk
      · have := (hl.kOwn a t0).1 hk; rw [ho t0] at this; cases this
  · have hk := (hl.kList a).2 ha
    rw [hl.cntEq, hl.flagEq, hk, hH a]; exact ⟨rfl, rfl⟩
  · rcases hkind a with hk | ⟨t0, hk⟩
    · exact absurd ((hl.kList a).1 hk) ha
    · rw [hl.cntEq, hl.flagEq, hk, hH a]; exact ⟨rfl, rfl⟩

def getSched (t : Tid) : List (Tid × Act) :=
  [(t, .invoke ⟨"get", [(t : Int)]⟩), (t, .step), (t, .step), (t, .step), (t, .step), (t, .step), (t, .step), (t, .ret)]
def getEmptySched (t : Tid) : List (Tid × Act) :=
  [(t, .invoke ⟨"get", [(t : Int)]⟩), (t, .step), (t, .ret)]

/-- The results returned to the client, in order. -/
def retsOf (os : List (Tid × Obs)) : List GRet :=
  os.filterMap fun x => match x.2 with
    | .ret r => some r
    | _ => none

theorem upd_upd {α : Type} (f : Nat → α) (i : Nat) (v w : α) : upd (upd f i v) i w = upd f i w := by
  funext j; simp only [upd]; split <;> rfl

/-- The state after a `get` of thread `t` has run alone and taken the first node `a`. -/
def afterGet (s : St) (t : Tid) (a : Nat) : St :=
  { s with head := s.next a, refs := upd s.refs a 0, shouldBeOn := upd s.shouldBeOn a false,
           owns := upd2 s.owns t a true, pc := upd s.pc t .idle }

/-- A `get` that runs alone on a list whose first node `a` has `m_freeListRefs = 1`: the complete run, with its
    trace. -/
theorem get_seq_run (s : St) (t : Tid) (a : Nat) (hidle : s.pc t = .idle) (hh : s.head = some a)
    (hr : s.refs a = 1) (hf : s.shouldBeOn a = false) :
    model.run s (getSched t) = some
      (afterGet s t a,
       [(t, .call ⟨"get", [(t : Int)]⟩), (t, .ev (evLdPtr headLoc (some a))), (t, .ev (evLdWord a 1 false)),
        (t, .ev (evCasWordOk a 1 false 2 false)), (t, .ev (evLdPtr (nloc a) (s.next a))),
        (t, .ev (evCasPtrOk headLoc (some a) (s.next a))), (t, .ev (evRmw "sub" a 2 false 2)),
        (t, .ret [1, (a : Int)])]) := by
  simp [getSched, Model.run, Model.apply, model, invoke, step, result, hidle, hh, hr, hf, getLoop, upd_upd, wSub2,
    afterGet]

/-- A `get` that runs alone on an empty list: the complete run, with its trace. -/
theorem get_seq_empty_run (s : St) (t : Tid) (hidle : s.pc t = .idle) (hh : s.head = none) :
    model.run s (getEmptySched t) = some
      ({ s with pc := upd s.pc t .idle },
       [(t, .call ⟨"get", [(t : Int)]⟩), (t, .ev (evLdPtr headLoc none)), (t, .ret [0])]) := by
  simp [getEmptySched, Model.run, Model.apply, model, invoke, step, result, hidle, hh, getLoop, upd_upd]


theorem run_cons {s s' : St} {t : Tid} {a : Act} {rest : List (Tid × Act)} {os : List (Tid × Obs)}
    (h : model.run s ((t, a) :: rest) = some (s', os)) :
    ∃ s1 o os1, model.apply s t a = some (s1, o) ∧ model.run s1 rest = some (s', os1) ∧ os = (t, o) :: os1 := by
  simp only [Model.run] at h
  cases hap : model.apply s t a with
  | none => simp [hap] at h
  | some p =>
    obtain ⟨s1, o⟩ := p
    simp only [hap] at h
    cases hrr : model.run s1 rest with
    | none => simp [hrr] at h
    | some q =>
      obtain ⟨s2, os2⟩ := q
      simp only [hrr, Option.some.injEq, Prod.mk.injEq] at h
      exact ⟨s1, o, os2, rfl, by rw [← h.1]; exact hrr, h.2.symm⟩

theorem run_append : ∀ (s1 : List (Tid × Act)) (s2 : List (Tid × Act)) (s s' s'' : St) (o1 o2 : List (Tid × Obs)),
    model.run s s1 = some (s', o1) → model.run s' s2 = some (s'', o2) →
    model.run s (s1 ++ s2) = some (s'', o1 ++ o2) := by
  intro s1
  induction s1 with
  | nil =>
    intro s2 s s' s'' o1 o2 h1 h2
    simp [Model.run] at h1
    obtain ⟨rfl, rfl⟩ := h1
    simpa using h2
  | cons x rest ih =>
    intro s2 s s' s'' o1 o2 h1 h2
    obtain ⟨t, a⟩ := x
    obtain ⟨sa, o, os1, hap, hrun, rfl⟩ := run_cons h1
    have := ih s2 sa s' s'' os1 o2 hrun h2
    simp [Model.run, hap, this]

/-- The invariant holds along every run. -/
theorem finv_run {s s' : St} {sched : List (Tid × Act)} {os : List (Tid × Obs)} (h : FInv s)
    (hrun : model.run s sched = some (s', os)) : FInv s' :=
  model.inv_of_inductive FInv (fun _ _ _ _ _ hi hap => finv_apply hi hap) sched s s' os h hrun

/-- `k` times `get`, then one more. -/
def drainSched (t : Tid) : Nat → List (Tid × Act)
  | 0 => getEmptySched t
  | k + 1 => getSched t ++ drainSched t k

/-- Draining: from a quiescent state that satisfies the invariant and whose chain is `l`, `l.length` successive
    `get()` calls of a thread `t` return the nodes of `l`, every one of them, in chain order, and the next `get()`
    returns "empty"; `t` then owns all of them. -/
theorem drain (t : Tid) : ∀ (l : List Nat) (s : St), FInv s → (∀ t2, s.pc t2 = .idle) → Chain s.next s.head l →
    ∃ s' os, model.run s (drainSched t l.length) = some (s', os) ∧
      retsOf os = l.map (fun (a : Nat) => ([1, (a : Int)] : GRet)) ++ [[0]] ∧ s'.head = none ∧
      (∀ a ∈ l, s'.owns t a = true) ∧ (∀ t2 n, s.owns t2 n = true → s'.owns t2 n = true) := by
  intro l
  induction l with
  | nil =>
    intro s hinv hq hch
    simp only [Chain] at hch
    refine ⟨_, _, get_seq_empty_run s t (hq t) hch, by simp [retsOf], hch, by simp, fun t2 n h => h⟩
  | cons a l ih =>
    intro s hinv hq hch
    obtain ⟨l', hch', -, -, hrefs, -⟩ := quiescent_chain hinv hq
    have hl' : l' = a :: l := Chain.functional hch' hch
    subst hl'
    obtain ⟨hr, hf⟩ := hrefs a (by simp)
    simp only [Chain] at hch
    have hrun1 := get_seq_run s t a (hq t) hch.1 hr hf
    have hinv1 := finv_run hinv hrun1
    have hq1 : ∀ t2, (afterGet s t a).pc t2 = .idle := by
      intro t2; simp only [afterGet, upd]; split
      · rfl
      · exact hq t2
    obtain ⟨s2, os2, hrun2, hret2, hhead2, hown2, hmono2⟩ := ih (afterGet s t a) hinv1 hq1 hch.2
    have hmono1 : ∀ t2 n, s.owns t2 n = true → (afterGet s t a).owns t2 n = true := by
      intro t2 n h; simp only [afterGet, upd2]; split <;> simp_all
    refine ⟨s2, _, run_append _ _ _ _ _ _ _ hrun1 hrun2, ?_, hhead2, ?_, fun t2 n h => hmono2 _ _ (hmono1 _ _ h)⟩
    · simp only [retsOf, List.filterMap_append] at hret2 ⊢
      rw [hret2]; simp
    · intro b hb
      rcases List.mem_cons.mp hb with rfl | hb
      · exact hmono2 _ _ (by simp [afterGet, upd2])
      · exact hown2 b hb


end CdsVerif.Algo.FreeList

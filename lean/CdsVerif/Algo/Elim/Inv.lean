/-
  The collision protocol of the elimination back-off (invariant `EInv`, preserved by every action of the model):

  * `recpub`  : a record that sits in collision slot `i` belongs to a thread that has published itself in slot `i` and has
                not yet withdrawn (program points bkWait / bkLock2 / bkSpin2 / bkIn2 of that slot), and that thread's
                status is op_waiting.  Hence: a thread is in at most one slot; a collided (status 2) or withdrawn
                descriptor is in no slot, so it cannot be collided (again) — no late collision, at most one collision.
  * `lockheld`, `mutex` : the slot lock is a lock (the plain accesses to `slot.pRec`, `himOp->idOp`, `pVal` happen
                under it, which is what allows the model to attach them to the next atomic operation).
  * `waitst`  : between `nStatus.store( op_waiting )` and the publication the status is op_waiting.
  * `st2`     : status op_collided only occurs after the publication (or in a finished operation).
  * `pushk`, `popk`, `pvlt` : the descriptor's `idOp` / `pVal` agree with the operation in progress.
-/
import CdsVerif.Algo.Elim.Model
namespace CdsVerif.Algo.Elim
open CdsVerif.Machine CdsVerif.Spec

/-! ### Classification of program points -/

/-- The back-off context. -/
def ctxOf : PC → Option Ctx
  | .bkSt c _ _ => some c
  | .bkLock c _ _ => some c
  | .bkSpin c _ _ => some c
  | .bkIn c _ _ => some c
  | .bkUnlC c _ => some c
  | .bkWait c _ _ => some c
  | .bkLock2 c _ => some c
  | .bkSpin2 c _ => some c
  | .bkIn2 c _ => some c
  | .bkChk c => some c
  | .idle => none
  | .pushLd _ => none
  | .pushSt _ _ => none
  | .pushCas _ _ => none
  | .popLd1 => none
  | .popLd2 _ => none
  | .popNext _ => none
  | .popCas _ _ => none
  | .popClr _ _ => none
  | .done _ => none

/-- After the publication of the record (the thread may be collided by a partner). -/
def passive : PC → Bool
  | .bkWait _ _ _ => true
  | .bkLock2 _ _ => true
  | .bkSpin2 _ _ => true
  | .bkIn2 _ _ => true
  | .bkChk _ => true
  | .idle => false
  | .pushLd _ => false
  | .pushSt _ _ => false
  | .pushCas _ _ => false
  | .popLd1 => false
  | .popLd2 _ => false
  | .popNext _ => false
  | .popCas _ _ => false
  | .popClr _ _ => false
  | .bkSt _ _ _ => false
  | .bkLock _ _ _ => false
  | .bkSpin _ _ _ => false
  | .bkIn _ _ _ => false
  | .bkUnlC _ _ => false
  | .done _ => false

/-- The slot in which the thread's record may sit. -/
def pubSlot : PC → Option Nat
  | .bkWait _ sl _ => some sl
  | .bkLock2 _ sl => some sl
  | .bkSpin2 _ sl => some sl
  | .bkIn2 _ sl => some sl
  | .bkChk _ => none
  | .idle => none
  | .pushLd _ => none
  | .pushSt _ _ => none
  | .pushCas _ _ => none
  | .popLd1 => none
  | .popLd2 _ => none
  | .popNext _ => none
  | .popCas _ _ => none
  | .popClr _ _ => none
  | .bkSt _ _ _ => none
  | .bkLock _ _ _ => none
  | .bkSpin _ _ _ => none
  | .bkIn _ _ _ => none
  | .bkUnlC _ _ => none
  | .done _ => none

/-- The slot lock the thread holds. -/
def holds : PC → Option Nat
  | .bkIn _ sl _ => some sl
  | .bkUnlC _ sl => some sl
  | .bkIn2 _ sl => some sl
  | .bkWait _ _ _ => none
  | .bkLock2 _ _ => none
  | .bkSpin2 _ _ => none
  | .bkChk _ => none
  | .idle => none
  | .pushLd _ => none
  | .pushSt _ _ => none
  | .pushCas _ _ => none
  | .popLd1 => none
  | .popLd2 _ => none
  | .popNext _ => none
  | .popCas _ _ => none
  | .popClr _ _ => none
  | .bkSt _ _ _ => none
  | .bkLock _ _ _ => none
  | .bkSpin _ _ _ => none
  | .done _ => none

/-- Between `nStatus.store( op_waiting )` and the publication. -/
def preWait : PC → Bool
  | .bkLock _ _ _ => true
  | .bkSpin _ _ _ => true
  | .bkIn _ _ _ => true
  | .bkWait _ _ _ => false
  | .bkLock2 _ _ => false
  | .bkSpin2 _ _ => false
  | .bkIn2 _ _ => false
  | .bkChk _ => false
  | .idle => false
  | .pushLd _ => false
  | .pushSt _ _ => false
  | .pushCas _ _ => false
  | .popLd1 => false
  | .popLd2 _ => false
  | .popNext _ => false
  | .popCas _ _ => false
  | .popClr _ _ => false
  | .bkSt _ _ _ => false
  | .bkUnlC _ _ => false
  | .done _ => false

/-- Program points at which the status may be op_collided. -/
def st2ok : PC → Bool
  | .bkWait _ _ _ => true
  | .bkLock2 _ _ => true
  | .bkSpin2 _ _ => true
  | .bkIn2 _ _ => true
  | .bkChk _ => true
  | .idle => true
  | .done _ => true
  | .pushLd _ => false
  | .pushSt _ _ => false
  | .pushCas _ _ => false
  | .popLd1 => false
  | .popLd2 _ => false
  | .popNext _ => false
  | .popCas _ _ => false
  | .popClr _ _ => false
  | .bkSt _ _ _ => false
  | .bkLock _ _ _ => false
  | .bkSpin _ _ _ => false
  | .bkIn _ _ _ => false
  | .bkUnlC _ _ => false

def ctxNode : Ctx → Option Nat
  | .push n _ => some n
  | .pop => none

/-- The node of a `push` in progress (by program point only). -/
def pushNodePc : PC → Option Nat
  | .pushLd n => some n
  | .pushSt n _ => some n
  | .pushCas n _ => some n
  | .bkSt c _ _ => ctxNode c
  | .bkLock c _ _ => ctxNode c
  | .bkSpin c _ _ => ctxNode c
  | .bkIn c _ _ => ctxNode c
  | .bkUnlC c _ => ctxNode c
  | .bkWait c _ _ => ctxNode c
  | .bkLock2 c _ => ctxNode c
  | .bkSpin2 c _ => ctxNode c
  | .bkIn2 c _ => ctxNode c
  | .bkChk c => ctxNode c
  | .idle => none
  | .popLd1 => none
  | .popLd2 _ => none
  | .popNext _ => none
  | .popCas _ _ => none
  | .popClr _ _ => none
  | .done _ => none

def ctxPop : Ctx → Bool
  | .push _ _ => false
  | .pop => true

/-- A `pop` in progress whose result is not fixed by the program point. -/
def isPopPc : PC → Bool
  | .popLd1 => true
  | .popLd2 _ => true
  | .popNext _ => true
  | .popCas _ _ => true
  | .bkSt c _ _ => ctxPop c
  | .bkLock c _ _ => ctxPop c
  | .bkSpin c _ _ => ctxPop c
  | .bkIn c _ _ => ctxPop c
  | .bkUnlC c _ => ctxPop c
  | .bkWait c _ _ => ctxPop c
  | .bkLock2 c _ => ctxPop c
  | .bkSpin2 c _ => ctxPop c
  | .bkIn2 c _ => ctxPop c
  | .bkChk c => ctxPop c
  | .idle => false
  | .pushLd _ => false
  | .pushSt _ _ => false
  | .pushCas _ _ => false
  | .popClr _ _ => false
  | .done _ => false

/-! ### The protocol invariant -/

structure EInv (s : St) : Prop where
  recpub : ∀ sl h, s.srec sl = some h → pubSlot (s.pc h) = some sl ∧ s.status h = 1
  lockheld : ∀ t sl, holds (s.pc t) = some sl → s.lock sl = true
  mutex : ∀ t1 t2 sl, holds (s.pc t1) = some sl → holds (s.pc t2) = some sl → t1 = t2
  waitst : ∀ t, preWait (s.pc t) = true → s.status t = 1
  st2 : ∀ t, s.status t = 2 → st2ok (s.pc t) = true
  pushk : ∀ t n, pushNodePc (s.pc t) = some n → s.isPush t = true ∧ s.pval t = some n
  popk : ∀ t, isPopPc (s.pc t) = true → s.isPush t = false
  pvlt : ∀ t n, s.pval t = some n → n < s.cnt

theorem einv_init : EInv init := by
  constructor <;> simp [init, pubSlot, holds, preWait, st2ok, pushNodePc, isPopPc]

theorem pub_facts {pc : PC} {sl : Nat} (h : pubSlot pc = some sl) :
    st2ok pc = true ∧ preWait pc = false ∧ passive pc = true ∧ (∀ sl', holds pc = some sl' → sl' = sl) := by
  cases pc <;> simp_all [pubSlot, st2ok, preWait, passive, holds]

macro "einv_close" : tactic =>
  `(tactic| (constructor <;> intros <;> (try dsimp only at *) <;>
      grind [upd, pubSlot, holds, preWait, st2ok, pushNodePc, isPopPc, ctxNode, ctxPop, retry, pub_facts]))

macro "estep_tac" hpc:ident hs:ident : tactic =>
  `(tactic| (
    simp only [step, $hpc:ident] at $hs:ident
    (try split at $hs:ident)
    all_goals (try split at $hs:ident)
    all_goals (try split at $hs:ident)
    all_goals (try split at $hs:ident)
    all_goals simp at $hs:ident
    all_goals (obtain ⟨heq, -⟩ := $hs:ident; subst heq)
    all_goals einv_close))

theorem einv_step_pushLd {s s' : St} {t : Tid} {ev : Ev} {n : Nat}
    (h : EInv s) (hpc : s.pc t = .pushLd n) (hs : step s t = some (s', ev)) : EInv s' := by
  obtain ⟨h1, h2, h3, h4, h5, h6, h7, h8⟩ := h
  estep_tac hpc hs

theorem einv_step_pushSt {s s' : St} {t : Tid} {ev : Ev} {n : Nat} {tv : Option Nat}
    (h : EInv s) (hpc : s.pc t = .pushSt n tv) (hs : step s t = some (s', ev)) : EInv s' := by
  obtain ⟨h1, h2, h3, h4, h5, h6, h7, h8⟩ := h
  estep_tac hpc hs

theorem einv_step_pushCas {s s' : St} {t : Tid} {ev : Ev} {n : Nat} {tv : Option Nat}
    (h : EInv s) (hpc : s.pc t = .pushCas n tv) (hs : step s t = some (s', ev)) : EInv s' := by
  obtain ⟨h1, h2, h3, h4, h5, h6, h7, h8⟩ := h
  estep_tac hpc hs

theorem einv_step_popLd1 {s s' : St} {t : Tid} {ev : Ev} 
    (h : EInv s) (hpc : s.pc t = .popLd1 ) (hs : step s t = some (s', ev)) : EInv s' := by
  obtain ⟨h1, h2, h3, h4, h5, h6, h7, h8⟩ := h
  estep_tac hpc hs

theorem einv_step_popLd2 {s s' : St} {t : Tid} {ev : Ev} {p : Option Nat}
    (h : EInv s) (hpc : s.pc t = .popLd2 p) (hs : step s t = some (s', ev)) : EInv s' := by
  obtain ⟨h1, h2, h3, h4, h5, h6, h7, h8⟩ := h
  estep_tac hpc hs

theorem einv_step_popNext {s s' : St} {t : Tid} {ev : Ev} {a : Nat}
    (h : EInv s) (hpc : s.pc t = .popNext a) (hs : step s t = some (s', ev)) : EInv s' := by
  obtain ⟨h1, h2, h3, h4, h5, h6, h7, h8⟩ := h
  estep_tac hpc hs

theorem einv_step_popCas {s s' : St} {t : Tid} {ev : Ev} {a : Nat} {nx : Option Nat}
    (h : EInv s) (hpc : s.pc t = .popCas a nx) (hs : step s t = some (s', ev)) : EInv s' := by
  obtain ⟨h1, h2, h3, h4, h5, h6, h7, h8⟩ := h
  estep_tac hpc hs

theorem einv_step_popClr {s s' : St} {t : Tid} {ev : Ev} {a : Nat} {r : GRet}
    (h : EInv s) (hpc : s.pc t = .popClr a r) (hs : step s t = some (s', ev)) : EInv s' := by
  obtain ⟨h1, h2, h3, h4, h5, h6, h7, h8⟩ := h
  estep_tac hpc hs

theorem einv_step_bkSt {s s' : St} {t : Tid} {ev : Ev} {c : Ctx} {sl : Nat} {k : Nat}
    (h : EInv s) (hpc : s.pc t = .bkSt c sl k) (hs : step s t = some (s', ev)) : EInv s' := by
  obtain ⟨h1, h2, h3, h4, h5, h6, h7, h8⟩ := h
  estep_tac hpc hs

theorem einv_step_bkLock {s s' : St} {t : Tid} {ev : Ev} {c : Ctx} {sl : Nat} {k : Nat}
    (h : EInv s) (hpc : s.pc t = .bkLock c sl k) (hs : step s t = some (s', ev)) : EInv s' := by
  obtain ⟨h1, h2, h3, h4, h5, h6, h7, h8⟩ := h
  estep_tac hpc hs

theorem einv_step_bkSpin {s s' : St} {t : Tid} {ev : Ev} {c : Ctx} {sl : Nat} {k : Nat}
    (h : EInv s) (hpc : s.pc t = .bkSpin c sl k) (hs : step s t = some (s', ev)) : EInv s' := by
  obtain ⟨h1, h2, h3, h4, h5, h6, h7, h8⟩ := h
  estep_tac hpc hs

theorem einv_step_bkIn {s s' : St} {t : Tid} {ev : Ev} {c : Ctx} {sl : Nat} {k : Nat}
    (h : EInv s) (hpc : s.pc t = .bkIn c sl k) (hs : step s t = some (s', ev)) : EInv s' := by
  obtain ⟨h1, h2, h3, h4, h5, h6, h7, h8⟩ := h
  estep_tac hpc hs

theorem einv_step_bkUnlC {s s' : St} {t : Tid} {ev : Ev} {c : Ctx} {sl : Nat}
    (h : EInv s) (hpc : s.pc t = .bkUnlC c sl) (hs : step s t = some (s', ev)) : EInv s' := by
  obtain ⟨h1, h2, h3, h4, h5, h6, h7, h8⟩ := h
  estep_tac hpc hs

theorem einv_step_bkWait {s s' : St} {t : Tid} {ev : Ev} {c : Ctx} {sl : Nat} {k : Nat}
    (h : EInv s) (hpc : s.pc t = .bkWait c sl k) (hs : step s t = some (s', ev)) : EInv s' := by
  obtain ⟨h1, h2, h3, h4, h5, h6, h7, h8⟩ := h
  estep_tac hpc hs

theorem einv_step_bkLock2 {s s' : St} {t : Tid} {ev : Ev} {c : Ctx} {sl : Nat}
    (h : EInv s) (hpc : s.pc t = .bkLock2 c sl) (hs : step s t = some (s', ev)) : EInv s' := by
  obtain ⟨h1, h2, h3, h4, h5, h6, h7, h8⟩ := h
  estep_tac hpc hs

theorem einv_step_bkSpin2 {s s' : St} {t : Tid} {ev : Ev} {c : Ctx} {sl : Nat}
    (h : EInv s) (hpc : s.pc t = .bkSpin2 c sl) (hs : step s t = some (s', ev)) : EInv s' := by
  obtain ⟨h1, h2, h3, h4, h5, h6, h7, h8⟩ := h
  estep_tac hpc hs

theorem einv_step_bkIn2 {s s' : St} {t : Tid} {ev : Ev} {c : Ctx} {sl : Nat}
    (h : EInv s) (hpc : s.pc t = .bkIn2 c sl) (hs : step s t = some (s', ev)) : EInv s' := by
  obtain ⟨h1, h2, h3, h4, h5, h6, h7, h8⟩ := h
  estep_tac hpc hs

theorem einv_step_bkChk {s s' : St} {t : Tid} {ev : Ev} {c : Ctx}
    (h : EInv s) (hpc : s.pc t = .bkChk c) (hs : step s t = some (s', ev)) : EInv s' := by
  obtain ⟨h1, h2, h3, h4, h5, h6, h7, h8⟩ := h
  cases c
  all_goals estep_tac hpc hs

theorem einv_step {s s' : St} {t : Tid} {ev : Ev} (h : EInv s) (hs : step s t = some (s', ev)) : EInv s' := by
  cases hpc : s.pc t with
  | idle => simp [step, hpc] at hs
  | done r => simp [step, hpc] at hs
  | pushLd n => exact einv_step_pushLd h hpc hs
  | pushSt n tv => exact einv_step_pushSt h hpc hs
  | pushCas n tv => exact einv_step_pushCas h hpc hs
  | popLd1  => exact einv_step_popLd1 h hpc hs
  | popLd2 p => exact einv_step_popLd2 h hpc hs
  | popNext a => exact einv_step_popNext h hpc hs
  | popCas a nx => exact einv_step_popCas h hpc hs
  | popClr a r => exact einv_step_popClr h hpc hs
  | bkSt c sl k => exact einv_step_bkSt h hpc hs
  | bkLock c sl k => exact einv_step_bkLock h hpc hs
  | bkSpin c sl k => exact einv_step_bkSpin h hpc hs
  | bkIn c sl k => exact einv_step_bkIn h hpc hs
  | bkUnlC c sl => exact einv_step_bkUnlC h hpc hs
  | bkWait c sl k => exact einv_step_bkWait h hpc hs
  | bkLock2 c sl => exact einv_step_bkLock2 h hpc hs
  | bkSpin2 c sl => exact einv_step_bkSpin2 h hpc hs
  | bkIn2 c sl => exact einv_step_bkIn2 h hpc hs
  | bkChk c => exact einv_step_bkChk h hpc hs

theorem einv_invoke {s s' : St} {t : Tid} {op : GOp} (h : EInv s) (hs : invoke s t op = some s') : EInv s' := by
  obtain ⟨h1, h2, h3, h4, h5, h6, h7, h8⟩ := h
  unfold invoke at hs
  split at hs
  all_goals simp at hs
  all_goals subst hs
  all_goals einv_close

theorem einv_result {s s' : St} {t : Tid} {r : GRet} (h : EInv s) (hs : result s t = some (s', r)) : EInv s' := by
  obtain ⟨h1, h2, h3, h4, h5, h6, h7, h8⟩ := h
  unfold result at hs
  split at hs
  all_goals simp at hs
  all_goals obtain ⟨rfl, -⟩ := hs
  all_goals einv_close

end CdsVerif.Algo.Elim

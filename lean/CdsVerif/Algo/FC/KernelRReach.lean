/-
  `KInvR` is preserved by every action of the refined flat-combining kernel machine, hence holds in every reachable state.
-/
import CdsVerif.Algo.FC.KernelRStepA
import CdsVerif.Algo.FC.KernelRStepB
import CdsVerif.Algo.FC.KernelRStepC
namespace CdsVerif.Algo.FC.KernelR
open CdsVerif.Machine CdsVerif.Spec
open CdsVerif.Algo.FC.Kernel (Cfg RV RS Cont CS)

/-! ### Preservation by every action -/

theorem kinvr_invoke {cfg : Cfg} {s s' : St} {t : Tid} {op : GOp}
    (h : KInvR cfg s) (hs : invoke cfg s t op = some s') : KInvR cfg s' := by
  obtain ⟨h_bound, h_lockFree, h_hold, h_noReq, h_someReq, h_respExec, h_opExec, h_atDone, h_atApply, h_rel, h_wtUnl, h_fin, h_le1, h_nodup, h_notIn, h_inact, h_preInact, h_linkAct, h_unlinked, h_inactOut, h_ccAct, h_cmb, h_curIn, h_curInN, h_pass, h_passN, h_post⟩ := h
  unfold invoke at hs
  split at hs
  · split at hs
    · simp only [Option.some.injEq] at hs; subst hs
      kinv_close
    · simp at hs
  · simp at hs

theorem kinvr_result {s s' : St} {cfg : Cfg} {t : Tid} {r : GRet}
    (h : KInvR cfg s) (hs : result s t = some (s', r)) : KInvR cfg s' := by
  obtain ⟨h_bound, h_lockFree, h_hold, h_noReq, h_someReq, h_respExec, h_opExec, h_atDone, h_atApply, h_rel, h_wtUnl, h_fin, h_le1, h_nodup, h_notIn, h_inact, h_preInact, h_linkAct, h_unlinked, h_inactOut, h_ccAct, h_cmb, h_curIn, h_curInN, h_pass, h_passN, h_post⟩ := h
  unfold result at hs
  split at hs
  · simp only [Option.some.injEq, Prod.mk.injEq] at hs; obtain ⟨rfl, -⟩ := hs
    kinv_close
  · simp at hs

theorem kinvr_atomic {cfg : Cfg} {s s' : St} {t : Tid} {ev : Ev}
    (h : KInvR cfg s) (hs : step cfg s t = some (s', ev)) : KInvR cfg s' := by
  cases hpc : s.pc t with
  | idle => simp [step, hpc] at hs
  | done => simp [step, hpc] at hs
  | acqLd  => exact step_acqLd h hpc hs
  | pubCnt c => exact step_pubCnt h hpc hs
  | pubAge c a => exact step_pubAge h hpc hs
  | pubAct c => exact step_pubAct h hpc hs
  | pubNx c v => exact step_pubNx h hpc hs
  | reqSt  => exact step_reqSt h hpc hs
  | tryLock  => exact step_tryLock h hpc hs
  | lkRepub  => exact step_lkRepub h hpc hs
  | cmbCnt  => exact step_cmbCnt h hpc hs
  | cpReq c k => exact step_cpReq h hpc hs
  | cpAge c k => exact step_cpAge h hpc hs
  | cpExec c k => exact step_cpExec h hpc hs
  | cpDone c k => exact step_cpDone h hpc hs
  | ccState a pp k => exact step_ccState h hpc hs
  | ccAge a pp k => exact step_ccAge h hpc hs
  | ccNx a pp k => exact step_ccNx h hpc hs
  | c2Hd  => exact step_c2Hd h hpc hs
  | unlock  => exact step_unlock h hpc hs
  | wtReq  => exact step_wtReq h hpc hs
  | wtState  => exact step_wtState h hpc hs
  | wtLock  => exact step_wtLock h hpc hs
  | wtReq2  => exact step_wtReq2 h hpc hs
  | wtUnlock  => exact step_wtUnlock h hpc hs
  | relSt  => exact step_relSt h hpc hs
  | pubHd c => exact step_pubHd h hpc hs
  | pubCas c v => exact step_pubCas h hpc hs
  | cpState c p => exact step_cpState h hpc hs
  | cpNext c p => exact step_cpNext h hpc hs
  | ccHd a => exact step_ccHd h hpc hs
  | ccCas a pp k nx => exact step_ccCas h hpc hs
  | ccInact a pp k nx => exact step_ccInact h hpc hs
  | ccAdv a k => exact step_ccAdv h hpc hs
  | c2State rest => exact step_c2State h hpc hs
  | c2Nx rest => exact step_c2Nx h hpc hs

theorem kinvr_step (cfg : Cfg) (s : St) (t : Tid) (a : Act) (s' : St) (o : Obs)
    (h : KInvR cfg s) (hap : (model cfg).apply s t a = some (s', o)) : KInvR cfg s' := by
  cases a with
  | invoke op =>
    simp only [Model.apply, model, Option.map_eq_some_iff] at hap
    obtain ⟨s1, hs1, heq⟩ := hap
    simp only [Prod.mk.injEq] at heq
    obtain ⟨rfl, -⟩ := heq
    exact kinvr_invoke h hs1
  | step =>
    simp only [Model.apply, model, Option.map_eq_some_iff] at hap
    obtain ⟨r, hr, heq⟩ := hap
    simp only [Prod.mk.injEq] at heq
    obtain ⟨rfl, -⟩ := heq
    exact kinvr_atomic h hr
  | ret =>
    simp only [Model.apply, model, Option.map_eq_some_iff] at hap
    obtain ⟨r, hr, heq⟩ := hap
    simp only [Prod.mk.injEq] at heq
    obtain ⟨rfl, -⟩ := heq
    exact kinvr_result h hr

/-- The invariant holds in every reachable state, for every configuration. -/
theorem kinvr_reachable (cfg : Cfg) (s : St) (h : (model cfg).Reachable (init cfg) s) : KInvR cfg s :=
  (model cfg).inv_reachable (KInvR cfg) (init cfg) (kinvr_init cfg) (kinvr_step cfg) s h

end CdsVerif.Algo.FC.KernelR

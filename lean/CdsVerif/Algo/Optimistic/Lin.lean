/-
  Linearizability of the OptimisticQueue model (property C06).

  Linearization points: the successful CAS on `m_pTail` of `enqueue`; the successful CAS on `m_pHead` of a non-empty
  `dequeue`; for an empty `dequeue` the validating load of `m_pTail` that returns the node `h` read from `m_pHead`
  before.  The last one is a hindsight linearization point: the result `[0]` becomes definitive only at the later
  re-validation `pHead == m_pHead.load()`, which can fail and restart the loop; the tentative log entry is then
  withdrawn (`Algo/QueueLin/Ghost.lean`).  `Steps.lean` shows that each linearization point is exactly the `fifo`
  transition of the operation on the abstract queue and that every other step — all of `fix_list`, every store to
  `m_pPrev` — leaves the abstract queue unchanged.
-/
import CdsVerif.Algo.Optimistic.Steps
import CdsVerif.Algo.QueueLin.Ghost
namespace CdsVerif.Algo.Optimistic
open CdsVerif.Machine CdsVerif.Spec CdsVerif.Lin CdsVerif.Algo.QueueLin

/-! ### Preservation: invocation and return -/

structure InvokeEff (s : St) (t : Tid) (op : GOp) (s' : St) (R : List Nat) : Prop where
  frame : ∀ t2, t2 ≠ t → s'.pc t2 = s.pc t2
  ops : ∀ t2, t2 ≠ t → opOf s'.val (s.pc t2) = opOf s.val (s.pc t2)
  was : s.pc t = .idle
  now : opOf s'.val (s'.pc t) = some op ∧ lpRet (s'.pc t) = none
  abs : qOf s'.val R = qOf s.val R

theorem sinvl_invoke {s s' : St} {t : Tid} {op : GOp} {R G : List Nat}
    (h : SInvL s R G) (hs : invoke s t op = some s') : SInvL s' R G ∧ InvokeEff s t op s' R := by
  inv_open' h
  obtain ⟨name, args⟩ := op
  unfold invoke at hs
  split at hs
  next v hpc hname hargs =>
    simp at hs; subst hs
    dsimp only at hname hargs; subst hname hargs
    have hfr' : ∀ t2 n, enqNode (s.pc t2) = some n → n ≠ s.cnt := fun t2 n h => Nat.ne_of_lt (hpriv t2 n h)
    have hcW : s.cnt ∉ R ++ G := fun hm => Nat.lt_irrefl _ (hpub _ hm).1
    refine ⟨?_, ?_⟩
    · sinv_close
    · constructor <;> intros <;> (try dsimp only at *)
      · grind [upd]
      · rename_i t2 ht2
        cases hq : s.pc t2 <;> simp [opOf, upd]
        all_goals exact fun e => absurd e (hfr' t2 _ (by simp [hq, enqNode]))
      · exact hpc
      · simp [upd, opOf, lpRet]
      · unfold qOf
        apply List.map_congr_left
        intro a ha
        have haR : a ∈ R := (List.dropLast_sublist R).subset (List.mem_reverse.mp ha)
        have := (hpub a (List.mem_append_left _ haR)).1
        simp [upd]; omega
  next hpc hname hargs =>
    simp at hs; subst hs
    dsimp only at hname hargs; subst hname hargs
    refine ⟨?_, ?_⟩
    · sinv_close
    · constructor <;> intros <;> (try dsimp only at *) <;> grind [upd, opOf, lpRet]
  next => simp at hs

theorem sinvl_result {s s' : St} {t : Tid} {r : GRet} {R G : List Nat}
    (h : SInvL s R G) (hs : result s t = some (s', r)) :
    SInvL s' R G ∧ s.pc t = .done r ∧ s'.pc t = .idle ∧ (∀ t2, t2 ≠ t → s'.pc t2 = s.pc t2) ∧ s'.val = s.val := by
  inv_open' h
  unfold result at hs
  split at hs
  next r' hpc =>
    simp at hs; obtain ⟨rfl, rfl⟩ := hs
    refine ⟨?_, hpc, by simp [upd], fun t2 h2 => by simp [upd, h2], rfl⟩
    sinv_close
  next => simp at hs

/-! ### The instance of the generic construction -/

/-- In state `s1` thread `t` is about to perform the validating load of `m_pTail` that returns the node `h` it has
    read from `m_pHead`: `h` is both `head` and `tail`, the queue is empty. -/
def EmptyAt (s1 : St) (t : Tid) : Prop :=
  ∃ h, s1.pc t = .deqLdT2 h h ∧ s1.tail = h ∧ s1.head = h ∧ absNodes s1 = [h] ∧ absQueue s1 = []

def qsys : QSys St where
  model := model
  init := init
  Inv := SInv
  absQ := absQueue
  lpRet := fun s t => lpRet (s.pc t)
  postRet := fun s t => postRet (s.pc t)
  opOf := fun s t => opOf s.val (s.pc t)
  EmptyAt := EmptyAt

theorem opOf_none_of_post {val : Nat → Int} {pc : PC} {r : GRet} (h : postRet pc = some r) : opOf val pc = none := by
  cases pc <;> simp_all [postRet, opOf]

theorem lpRet_of_post {pc : PC} {r : GRet} (h : postRet pc = some r) : lpRet pc = some r := by
  cases pc <;> simp_all [postRet, lpRet]

theorem postRet_of_lp {pc : PC} {r : GRet} (h : lpRet pc = some r) (hr : r ≠ [0]) : postRet pc = some r := by
  cases pc <;> simp_all [postRet, lpRet] <;> (split at h <;> simp_all)

theorem SInvL.absQ {s : St} {R G : List Nat} (h : SInvL s R G) : absQueue s = qOf s.val R := h.absQueue_eq

theorem qsys_ok : qsys.OK where
  inv_init := ⟨[dummy], [], sinv_init⟩
  abs_init := by simp [qsys, absQueue, absNodes, init, segTo, dummy]
  lp_init := by intro t; simp [qsys, init, lpRet]
  op_init := by intro t; simp [qsys, init, opOf]
  post_lp := by intro s t r h; exact lpRet_of_post h
  post_op := by intro s t r h; exact opOf_none_of_post h
  lp_post := by intro s t r h hr; exact postRet_of_lp h hr
  empty_abs := by intro s t ⟨_, _, _, _, _, h⟩; exact h
  invoke := by
    intro s t op s' ⟨R, G, hl⟩ hs
    obtain ⟨hl', he⟩ := sinvl_invoke hl hs
    refine ⟨⟨R, G, hl'⟩, ⟨?_, ?_⟩, ?_, he.now.1, he.now.2, ?_⟩
    · intro t2 ht; simp only [qsys]; rw [he.frame t2 ht]
    · intro t2 ht; simp only [qsys]; rw [he.frame t2 ht, he.ops t2 ht]
    · simp [qsys, he.was, lpRet]
    · simp only [qsys]; rw [hl.absQ, hl'.absQ, he.abs]
  step := by
    intro s t s' ev ⟨R, G, hl⟩ hs
    obtain ⟨R', G', hl', he⟩ := sinvl_step hl hs
    refine ⟨⟨R', G', hl'⟩, ⟨?_, ?_⟩, ?_, ?_, he.keep, he.op, ?_⟩
    · intro t2 ht; simp only [qsys]; rw [he.frame t2 ht]
    · intro t2 ht; simp only [qsys]; rw [he.frame t2 ht, he.val]
    · simp only [qsys]; rw [hl.absQ, hl'.absQ, he.val]; exact he.lp
    · simp only [qsys]; rw [hl.absQ, hl'.absQ, he.val]; intro hc; rw [he.nolp hc]
    · intro h1 h2
      obtain ⟨h, e1, e2, e3, e4⟩ := he.emp h1 h2
      exact ⟨h, e1, e2, e3, by rw [hl.absNodes_eq, e4], by rw [hl.absQ, e4]; rfl⟩
  result := by
    intro s t s' r ⟨R, G, hl⟩ hs
    obtain ⟨hl', hdone, hidl, hframe, hval⟩ := sinvl_result hl hs
    refine ⟨⟨R, G, hl'⟩, ⟨?_, ?_⟩, ?_, ?_, ?_, ?_⟩
    · intro t2 ht; simp only [qsys]; rw [hframe t2 ht]
    · intro t2 ht; simp only [qsys]; rw [hframe t2 ht, hval]
    · simp [qsys, hdone, lpRet]
    · simp [qsys, hidl, lpRet]
    · simp [qsys, hidl, opOf]
    · simp only [qsys]; rw [hl.absQ, hl'.absQ, hval]

theorem sinv_reachable (s : St) (h : model.Reachable init s) : SInv s :=
  inv_reachable qsys_ok s h

/-! ### Main theorems (instances of `Algo/QueueLin/Ghost.lean`) -/

/-- **Linearizability of OptimisticQueue** (Herlihy–Wing, with completion of pending operations). -/
theorem optimistic_linearizable (sched : List (Tid × Act)) (s : St) (os : List (Tid × Obs))
    (h : model.run init sched = some (s, os)) :
    ∃ extra : List (OpRec GOp GRet),
      (∀ e ∈ extra, pendingOf os e.tid = some (e.op, e.inv) ∧ e.res = os.length ∧
          postRet (s.pc e.tid) = some e.ret) ∧
      extra.Pairwise (fun a b => a.tid ≠ b.tid) ∧
      Linearizable fifo (historyOf os ++ extra) :=
  linearizable qsys_ok sched s os h

theorem optimistic_linearizable_no_effect_pending (sched : List (Tid × Act)) (s : St) (os : List (Tid × Obs))
    (h : model.run init sched = some (s, os)) (hq : ∀ t, postRet (s.pc t) = none) :
    Linearizable fifo (historyOf os) :=
  linearizable_no_effect_pending qsys_ok sched s os h hq

theorem optimistic_linearizable_complete_runs (sched : List (Tid × Act)) (s : St) (os : List (Tid × Obs))
    (h : model.run init sched = some (s, os)) (hq : ∀ t, s.pc t = .idle) :
    Linearizable fifo (historyOf os) :=
  optimistic_linearizable_no_effect_pending sched s os h (fun t => by simp [hq t, postRet])

theorem optimistic_no_invention (sched : List (Tid × Act)) (s : St) (os : List (Tid × Obs))
    (h : model.run init sched = some (s, os)) (r : OpRec GOp GRet) (hr : r ∈ historyOf os)
    (hop : r.op = ⟨"deq", []⟩) (v : Int) (hret : r.ret = [1, v]) :
    ∃ i t', i < r.res ∧ os[i]? = some (t', .call ⟨"enq", [v]⟩) :=
  no_invention qsys_ok sched s os h r hr hop v hret

theorem optimistic_no_duplication (sched : List (Tid × Act)) (s : St) (os : List (Tid × Obs))
    (h : model.run init sched = some (s, os)) :
    ∃ extra : List (OpRec GOp GRet),
      (∀ e ∈ extra, pendingOf os e.tid = some (e.op, e.inv) ∧ e.res = os.length ∧
          postRet (s.pc e.tid) = some e.ret) ∧
      extra.Pairwise (fun a b => a.tid ≠ b.tid) ∧
      ∀ v, (historyOf os).countP (isDeqOf v) ≤ (historyOf os ++ extra).countP (isEnq v) :=
  no_duplication qsys_ok sched s os h

/-- **Hindsight for the empty dequeue, on runs.** -/
theorem optimistic_empty_hindsight (sched : List (Tid × Act)) (s : St) (os : List (Tid × Obs))
    (h : model.run init sched = some (s, os)) (r : OpRec GOp GRet) (hr : r ∈ historyOf os) (hret : r.ret = [0]) :
    ∃ j s1, r.inv < j ∧ j < r.res ∧ model.run init (sched.take j) = some (s1, os.take j) ∧
      EmptyAt s1 r.tid ∧ absQueue s1 = [] :=
  empty_hindsight qsys_ok sched s os h r hr hret

/-- Refinement, on `absQueue`. -/
theorem step_refines {s s' : St} {t : Tid} {ev : Ev} (h : SInv s) (hs : step s t = some (s', ev)) :
    (lpRet (s.pc t) = none → ∀ r, lpRet (s'.pc t) = some r →
      ∃ op, opOf s.val (s.pc t) = some op ∧ fifo.next (absQueue s) op r = some (absQueue s')) ∧
    ((lpRet (s.pc t) ≠ none ∨ lpRet (s'.pc t) = none) → absQueue s' = absQueue s) := by
  have := qsys_ok.step s t s' ev h hs
  exact ⟨this.lp, this.nolp⟩

/-- `fix_list` never dereferences a null pointer: no reachable state has a thread at the program point `crash`. -/
theorem no_crash (s : St) (h : model.Reachable init s) (t : Tid) : s.pc t ≠ .crash := by
  obtain ⟨sched, os, hr⟩ := h
  -- invariant: SInv ∧ nobody crashed
  have key : ∀ (sched : List (Tid × Act)) (s0 s1 : St) (os : List (Tid × Obs)),
      (SInv s0 ∧ ∀ t, s0.pc t ≠ .crash) → model.run s0 sched = some (s1, os) → (SInv s1 ∧ ∀ t, s1.pc t ≠ .crash) := by
    apply model.inv_of_inductive (fun s => SInv s ∧ ∀ t, s.pc t ≠ .crash)
    intro s0 t0 a s1 o ⟨⟨R, G, hl⟩, hnc⟩ hap
    cases a with
    | invoke op =>
      simp only [Model.apply, model, Option.map_eq_some_iff] at hap
      obtain ⟨s2, hs2, heq⟩ := hap
      simp only [Prod.mk.injEq] at heq
      obtain ⟨rfl, -⟩ := heq
      obtain ⟨hl', he⟩ := sinvl_invoke hl hs2
      refine ⟨⟨R, G, hl'⟩, fun t2 => ?_⟩
      by_cases ht : t2 = t0
      · subst ht; intro hc
        obtain ⟨name, args⟩ := op
        unfold invoke at hs2
        split at hs2 <;> simp at hs2
        all_goals (subst hs2; simp [upd] at hc)
      · rw [he.frame t2 ht]; exact hnc t2
    | step =>
      simp only [Model.apply, model, Option.map_eq_some_iff] at hap
      obtain ⟨⟨s2, e⟩, hs2, heq⟩ := hap
      simp only [Prod.mk.injEq] at heq
      obtain ⟨rfl, -⟩ := heq
      obtain ⟨R', G', hl', he⟩ := sinvl_step hl hs2
      refine ⟨⟨R', G', hl'⟩, fun t2 => ?_⟩
      by_cases ht : t2 = t0
      · subst ht; exact he.nocrash
      · rw [he.frame t2 ht]; exact hnc t2
    | ret =>
      simp only [Model.apply, model, Option.map_eq_some_iff] at hap
      obtain ⟨⟨s2, r⟩, hs2, heq⟩ := hap
      simp only [Prod.mk.injEq] at heq
      obtain ⟨rfl, -⟩ := heq
      obtain ⟨hl', -, hidl, hframe, -⟩ := sinvl_result hl hs2
      refine ⟨⟨R, G, hl'⟩, fun t2 => ?_⟩
      by_cases ht : t2 = t0
      · subst ht; rw [hidl]; simp
      · rw [hframe t2 ht]; exact hnc t2
  exact (key sched init s os ⟨⟨[dummy], [], sinv_init⟩, fun t => by simp [init]⟩ hr).2 t

/-- Structure of the reachable states: following `m_pNext` from `m_pTail` one reaches `m_pHead`; the nodes on the way
    (`absNodes`: `tail` first, `head` last) are distinct. -/
theorem reachable_segment (s : St) (h : model.Reachable init s) :
    (absNodes s).Nodup ∧ (∃ r, absNodes s = s.tail :: r) ∧ (absNodes s).getLast? = some s.head ∧
    (s.tail = s.head → absQueue s = []) := by
  obtain ⟨R, G, hl⟩ := sinv_reachable s h
  rw [hl.absQ, hl.absNodes_eq]
  refine ⟨(List.nodup_append.mp hl.nodup).1, hl.tail_cons, hl.rlast, fun e => ?_⟩
  rw [hl.tail_eq_head e]; rfl

end CdsVerif.Algo.Optimistic

/-
  BasketQueue model: every atomic step preserves the structural invariant `SInvL` and has the effect `StepEff` on the
  abstract queue (one lemma per program point).
-/
import CdsVerif.Algo.Basket.Inv
namespace CdsVerif.Algo.Basket
open CdsVerif.Machine CdsVerif.Spec CdsVerif.Lin CdsVerif.Algo.QueueLin

/-- Facts derived from the invariant, in the form the automation uses. -/
structure Facts (s : St) (G M Q : List Nat) : Prop where
  mW : ∀ c, c ∈ G ++ (M ++ Q) ↔ (c ∈ G ∨ c ∈ M ∨ c ∈ Q)
  dGM : ∀ c, c ∈ G → c ∉ M
  dGQ : ∀ c, c ∈ G → c ∉ Q
  dMQ : ∀ c, c ∈ M → c ∉ Q
  ws : ∀ a x, a ∈ G ++ (M ++ Q) → s.nptr a = some x → x ∈ G ++ (M ++ Q)
  ls : ∀ a x, (a ∈ G ∨ a ∈ M) → s.nptr a = some x → Low G M Q x
  hm : Mid M Q s.head
  ms : ∀ a x, a ∈ M → s.nptr a = some x → Mid M Q x
  qh : ∀ x, Q.head? = some x → x ∈ Q

theorem SInvL.facts {s : St} {G M Q : List Nat} (h : SInvL s G M Q) : Facts s G M Q where
  mW := fun c => by simp
  dGM := fun c hc hm => h.gdis c hc (List.mem_append_left _ hm)
  dGQ := fun c hc hq => h.gdis c hc (List.mem_append_right _ hq)
  dMQ := fun c hm hq => (List.nodup_append.mp h.nodup).2.2 c hm c hq rfl
  ws := fun a x ha hx => h.wsucc ha hx
  ls := fun a x ha hx => h.low_succ ha hx
  hm := h.head_mid
  ms := fun a x ha hx => chain_mid_succ h.chain ha hx
  qh := fun x hx => List.mem_of_mem_head? hx

macro "sinv_close" : tactic =>
  `(tactic| (constructor <;> intros <;> (try dsimp only at *) <;>
      grind [upd, Pub, pub_mk, enqNode, wnodes, lows, deqH, midOf, linkOf, pcFact, Low, Mid, St.next, skNext, fcEnd,
        Chain.upd]))
macro "eff_close" : tactic =>
  `(tactic| (constructor <;> intros <;> (try dsimp only at *) <;>
      grind [upd, postRet, lpRet, opOf, enqNode, skNext, fcEnd, St.next]))

set_option hygiene false in
macro "inv_open" h:ident : tactic =>
  `(tactic| (
    have hF := SInvL.facts $h
    obtain ⟨fmW, fdGM, fdGQ, fdMQ, fws, fls, fhm, fms, fqh⟩ := hF
    obtain ⟨hch, hnd, hgd, hqne, hbG, hbM, hbQ, hgs, hpub, hpriv, hown, htw, hinw, hlow, hdh, hmid, hdck, hlk, hpcf⟩ := $h))

set_option hygiene false in
macro "auto_step" : tactic =>
  `(tactic| (
    simp only [step, hpc, skNext, fcEnd] at hs
    repeat' (split at hs)
    all_goals first
      | (simp at hs; done)
      | (simp at hs; obtain ⟨rfl, -⟩ := hs; refine ⟨G, M, Q, ?_, ?_⟩; sinv_close; eff_close)))

/-- The source of an observed link is the thread's own private node or a published node it holds. -/
theorem link_src {pc : PC} {a : Nat} {v : MP} (h : linkOf pc = some (a, v)) :
    enqNode pc = some a ∨ a ∈ wnodes pc := by
  cases pc <;> simp_all [linkOf, enqNode, wnodes]
  all_goals (rename_i p; obtain ⟨p1, p2⟩ := p; cases p1 <;> cases p2 <;> simp_all [linkOf, wnodes])

set_option maxHeartbeats 1000000 in
theorem sinvl_step_enqLd1 {s s' : St} {t : Tid} {ev : Ev} {G M Q : List Nat} {n : Nat}
    (h : SInvL s G M Q) (hpc : s.pc t = .enqLd1 n) (hs : step s t = some (s', ev)) :
    ∃ G' M' Q', SInvL s' G' M' Q' ∧ StepEff s t s' Q Q' := by
  inv_open h
  auto_step

set_option maxHeartbeats 1000000 in
theorem sinvl_step_enqLd2 {s s' : St} {t : Tid} {ev : Ev} {G M Q : List Nat} {n p : Nat}
    (h : SInvL s G M Q) (hpc : s.pc t = .enqLd2 n p) (hs : step s t = some (s', ev)) :
    ∃ G' M' Q', SInvL s' G' M' Q' ∧ StepEff s t s' Q Q' := by
  inv_open h
  auto_step

set_option maxHeartbeats 1000000 in
theorem sinvl_step_enqNext {s s' : St} {t : Tid} {ev : Ev} {G M Q : List Nat} {n a : Nat}
    (h : SInvL s G M Q) (hpc : s.pc t = .enqNext n a) (hs : step s t = some (s', ev)) :
    ∃ G' M' Q', SInvL s' G' M' Q' ∧ StepEff s t s' Q Q' := by
  inv_open h
  auto_step

set_option maxHeartbeats 1000000 in
theorem sinvl_step_enqInit {s s' : St} {t : Tid} {ev : Ev} {G M Q : List Nat} {n a : Nat} {b : Bool}
    (h : SInvL s G M Q) (hpc : s.pc t = .enqInit n a b) (hs : step s t = some (s', ev)) :
    ∃ G' M' Q', SInvL s' G' M' Q' ∧ StepEff s t s' Q Q' := by
  inv_open h
  have hnW : n ∉ G ++ (M ++ Q) := fun hm => (hpub n hm).2 t (by simp [hpc, enqNode])
  have hnL : n ∉ M ++ Q := fun hm => hnW (List.mem_append_right _ hm)
  have hsrc : ∀ t2 b v, linkOf (s.pc t2) = some (b, v) → b = n → t2 = t := by
    intro t2 b v hl hb
    rcases link_src hl with h1 | h1
    · exact hown t2 t n (hb ▸ h1) (by simp [hpc, enqNode])
    · exact absurd (hb ▸ hinw t2 b h1) hnW
  auto_step

set_option maxHeartbeats 1000000 in
theorem sinvl_step_enqSwing {s s' : St} {t : Tid} {ev : Ev} {G M Q : List Nat} {n a : Nat}
    (h : SInvL s G M Q) (hpc : s.pc t = .enqSwing n a) (hs : step s t = some (s', ev)) :
    ∃ G' M' Q', SInvL s' G' M' Q' ∧ StepEff s t s' Q Q' := by
  inv_open h
  auto_step

set_option maxHeartbeats 1000000 in
theorem sinvl_step_bkLd1 {s s' : St} {t : Tid} {ev : Ev} {G M Q : List Nat} {n a : Nat}
    (h : SInvL s G M Q) (hpc : s.pc t = .bkLd1 n a) (hs : step s t = some (s', ev)) :
    ∃ G' M' Q', SInvL s' G' M' Q' ∧ StepEff s t s' Q Q' := by
  inv_open h
  auto_step

set_option maxHeartbeats 1000000 in
theorem sinvl_step_bkLd2 {s s' : St} {t : Tid} {ev : Ev} {G M Q : List Nat} {n a : Nat} {p : MP}
    (h : SInvL s G M Q) (hpc : s.pc t = .bkLd2 n a p) (hs : step s t = some (s', ev)) :
    ∃ G' M' Q', SInvL s' G' M' Q' ∧ StepEff s t s' Q Q' := by
  inv_open h
  auto_step

set_option maxHeartbeats 1000000 in
theorem sinvl_step_bkTail {s s' : St} {t : Tid} {ev : Ev} {G M Q : List Nat} {n a : Nat} {p : MP}
    (h : SInvL s G M Q) (hpc : s.pc t = .bkTail n a p) (hs : step s t = some (s', ev)) :
    ∃ G' M' Q', SInvL s' G' M' Q' ∧ StepEff s t s' Q Q' := by
  inv_open h
  auto_step

set_option maxHeartbeats 1000000 in
theorem sinvl_step_bkChk {s s' : St} {t : Tid} {ev : Ev} {G M Q : List Nat} {n a : Nat} {p : MP}
    (h : SInvL s G M Q) (hpc : s.pc t = .bkChk n a p) (hs : step s t = some (s', ev)) :
    ∃ G' M' Q', SInvL s' G' M' Q' ∧ StepEff s t s' Q Q' := by
  inv_open h
  auto_step

set_option maxHeartbeats 1000000 in
theorem sinvl_step_bkSet {s s' : St} {t : Tid} {ev : Ev} {G M Q : List Nat} {n a : Nat} {p : MP}
    (h : SInvL s G M Q) (hpc : s.pc t = .bkSet n a p) (hs : step s t = some (s', ev)) :
    ∃ G' M' Q', SInvL s' G' M' Q' ∧ StepEff s t s' Q Q' := by
  inv_open h
  have hnW : n ∉ G ++ (M ++ Q) := fun hm => (hpub n hm).2 t (by simp [hpc, enqNode])
  have hnL : n ∉ M ++ Q := fun hm => hnW (List.mem_append_right _ hm)
  have hsrc : ∀ t2 b v, linkOf (s.pc t2) = some (b, v) → b = n → t2 = t := by
    intro t2 b v hl hb
    rcases link_src hl with h1 | h1
    · exact hown t2 t n (hb ▸ h1) (by simp [hpc, enqNode])
    · exact absurd (hb ▸ hinw t2 b h1) hnW
  auto_step

set_option maxHeartbeats 1000000 in
theorem sinvl_step_fxTail {s s' : St} {t : Tid} {ev : Ev} {G M Q : List Nat} {n a : Nat} {p : MP}
    (h : SInvL s G M Q) (hpc : s.pc t = .fxTail n a p) (hs : step s t = some (s', ev)) :
    ∃ G' M' Q', SInvL s' G' M' Q' ∧ StepEff s t s' Q Q' := by
  inv_open h
  auto_step

set_option maxHeartbeats 1000000 in
theorem sinvl_step_fxChk {s s' : St} {t : Tid} {ev : Ev} {G M Q : List Nat} {n a : Nat} {p : MP}
    (h : SInvL s G M Q) (hpc : s.pc t = .fxChk n a p) (hs : step s t = some (s', ev)) :
    ∃ G' M' Q', SInvL s' G' M' Q' ∧ StepEff s t s' Q Q' := by
  inv_open h
  auto_step

set_option maxHeartbeats 1000000 in
theorem sinvl_step_fxWalk {s s' : St} {t : Tid} {ev : Ev} {G M Q : List Nat} {n a c : Nat}
    (h : SInvL s G M Q) (hpc : s.pc t = .fxWalk n a c) (hs : step s t = some (s', ev)) :
    ∃ G' M' Q', SInvL s' G' M' Q' ∧ StepEff s t s' Q Q' := by
  inv_open h
  auto_step

set_option maxHeartbeats 1000000 in
theorem sinvl_step_fxWTail {s s' : St} {t : Tid} {ev : Ev} {G M Q : List Nat} {n a c : Nat} {p : MP}
    (h : SInvL s G M Q) (hpc : s.pc t = .fxWTail n a c p) (hs : step s t = some (s', ev)) :
    ∃ G' M' Q', SInvL s' G' M' Q' ∧ StepEff s t s' Q Q' := by
  inv_open h
  auto_step

set_option maxHeartbeats 1000000 in
theorem sinvl_step_fxWChk {s s' : St} {t : Tid} {ev : Ev} {G M Q : List Nat} {n a c : Nat} {p : MP}
    (h : SInvL s G M Q) (hpc : s.pc t = .fxWChk n a c p) (hs : step s t = some (s', ev)) :
    ∃ G' M' Q', SInvL s' G' M' Q' ∧ StepEff s t s' Q Q' := by
  inv_open h
  auto_step

set_option maxHeartbeats 1000000 in
theorem sinvl_step_fxCas {s s' : St} {t : Tid} {ev : Ev} {G M Q : List Nat} {n a c : Nat}
    (h : SInvL s G M Q) (hpc : s.pc t = .fxCas n a c) (hs : step s t = some (s', ev)) :
    ∃ G' M' Q', SInvL s' G' M' Q' ∧ StepEff s t s' Q Q' := by
  inv_open h
  auto_step

set_option maxHeartbeats 1000000 in
theorem sinvl_step_dLdH1 {s s' : St} {t : Tid} {ev : Ev} {G M Q : List Nat} 
    (h : SInvL s G M Q) (hpc : s.pc t = .dLdH1 ) (hs : step s t = some (s', ev)) :
    ∃ G' M' Q', SInvL s' G' M' Q' ∧ StepEff s t s' Q Q' := by
  inv_open h
  auto_step

set_option maxHeartbeats 1000000 in
theorem sinvl_step_dLdH2 {s s' : St} {t : Tid} {ev : Ev} {G M Q : List Nat} {p : Nat}
    (h : SInvL s G M Q) (hpc : s.pc t = .dLdH2 p) (hs : step s t = some (s', ev)) :
    ∃ G' M' Q', SInvL s' G' M' Q' ∧ StepEff s t s' Q Q' := by
  inv_open h
  auto_step

set_option maxHeartbeats 1000000 in
theorem sinvl_step_dLdT1 {s s' : St} {t : Tid} {ev : Ev} {G M Q : List Nat} {h' : Nat}
    (h : SInvL s G M Q) (hpc : s.pc t = .dLdT1 h') (hs : step s t = some (s', ev)) :
    ∃ G' M' Q', SInvL s' G' M' Q' ∧ StepEff s t s' Q Q' := by
  inv_open h
  auto_step

set_option maxHeartbeats 1000000 in
theorem sinvl_step_dLdT2 {s s' : St} {t : Tid} {ev : Ev} {G M Q : List Nat} {h' p : Nat}
    (h : SInvL s G M Q) (hpc : s.pc t = .dLdT2 h' p) (hs : step s t = some (s', ev)) :
    ∃ G' M' Q', SInvL s' G' M' Q' ∧ StepEff s t s' Q Q' := by
  inv_open h
  auto_step

set_option maxHeartbeats 1000000 in
theorem sinvl_step_dNx1 {s s' : St} {t : Tid} {ev : Ev} {G M Q : List Nat} {h' a : Nat}
    (h : SInvL s G M Q) (hpc : s.pc t = .dNx1 h' a) (hs : step s t = some (s', ev)) :
    ∃ G' M' Q', SInvL s' G' M' Q' ∧ StepEff s t s' Q Q' := by
  inv_open h
  auto_step

set_option maxHeartbeats 1000000 in
theorem sinvl_step_dChk {s s' : St} {t : Tid} {ev : Ev} {G M Q : List Nat} {h' a : Nat} {p : MP}
    (h : SInvL s G M Q) (hpc : s.pc t = .dChk h' a p) (hs : step s t = some (s', ev)) :
    ∃ G' M' Q', SInvL s' G' M' Q' ∧ StepEff s t s' Q Q' := by
  inv_open h
  obtain ⟨p1, p2⟩ := p
  cases p1 <;> cases p2 <;> auto_step

set_option maxHeartbeats 1000000 in
theorem sinvl_step_hpWalk {s s' : St} {t : Tid} {ev : Ev} {G M Q : List Nat} {h' a c : Nat}
    (h : SInvL s G M Q) (hpc : s.pc t = .hpWalk h' a c) (hs : step s t = some (s', ev)) :
    ∃ G' M' Q', SInvL s' G' M' Q' ∧ StepEff s t s' Q Q' := by
  inv_open h
  auto_step

set_option maxHeartbeats 1000000 in
theorem sinvl_step_hpTail {s s' : St} {t : Tid} {ev : Ev} {G M Q : List Nat} {h' a c : Nat}
    (h : SInvL s G M Q) (hpc : s.pc t = .hpTail h' a c) (hs : step s t = some (s', ev)) :
    ∃ G' M' Q', SInvL s' G' M' Q' ∧ StepEff s t s' Q Q' := by
  inv_open h
  auto_step

set_option maxHeartbeats 1000000 in
theorem sinvl_step_hpP1 {s s' : St} {t : Tid} {ev : Ev} {G M Q : List Nat} {h' a c : Nat}
    (h : SInvL s G M Q) (hpc : s.pc t = .hpP1 h' a c) (hs : step s t = some (s', ev)) :
    ∃ G' M' Q', SInvL s' G' M' Q' ∧ StepEff s t s' Q Q' := by
  inv_open h
  auto_step

set_option maxHeartbeats 1000000 in
theorem sinvl_step_hpP2 {s s' : St} {t : Tid} {ev : Ev} {G M Q : List Nat} {h' a c : Nat} {p : MP}
    (h : SInvL s G M Q) (hpc : s.pc t = .hpP2 h' a c p) (hs : step s t = some (s', ev)) :
    ∃ G' M' Q', SInvL s' G' M' Q' ∧ StepEff s t s' Q Q' := by
  inv_open h
  auto_step

set_option maxHeartbeats 1000000 in
theorem sinvl_step_hpCas {s s' : St} {t : Tid} {ev : Ev} {G M Q : List Nat} {h' a c : Nat}
    (h : SInvL s G M Q) (hpc : s.pc t = .hpCas h' a c) (hs : step s t = some (s', ev)) :
    ∃ G' M' Q', SInvL s' G' M' Q' ∧ StepEff s t s' Q Q' := by
  inv_open h
  auto_step

set_option maxHeartbeats 1000000 in
theorem sinvl_step_skHead {s s' : St} {t : Tid} {ev : Ev} {G M Q : List Nat} {h' a it : Nat} {p : MP} {hops : Nat}
    (h : SInvL s G M Q) (hpc : s.pc t = .skHead h' a it p hops) (hs : step s t = some (s', ev)) :
    ∃ G' M' Q', SInvL s' G' M' Q' ∧ StepEff s t s' Q Q' := by
  inv_open h
  obtain ⟨p1, p2⟩ := p
  cases p1 <;> cases p2 <;> auto_step

set_option maxHeartbeats 1000000 in
theorem sinvl_step_skP1 {s s' : St} {t : Tid} {ev : Ev} {G M Q : List Nat} {h' a it : Nat} {hops : Nat}
    (h : SInvL s G M Q) (hpc : s.pc t = .skP1 h' a it hops) (hs : step s t = some (s', ev)) :
    ∃ G' M' Q', SInvL s' G' M' Q' ∧ StepEff s t s' Q Q' := by
  inv_open h
  auto_step

set_option maxHeartbeats 1000000 in
theorem sinvl_step_skP2 {s s' : St} {t : Tid} {ev : Ev} {G M Q : List Nat} {h' a it : Nat} {p : MP} {hops : Nat}
    (h : SInvL s G M Q) (hpc : s.pc t = .skP2 h' a it p hops) (hs : step s t = some (s', ev)) :
    ∃ G' M' Q', SInvL s' G' M' Q' ∧ StepEff s t s' Q Q' := by
  inv_open h
  obtain ⟨p1, p2⟩ := p
  cases p1 <;> cases p2 <;> auto_step

set_option maxHeartbeats 1000000 in
theorem sinvl_step_dChk2 {s s' : St} {t : Tid} {ev : Ev} {G M Q : List Nat} {h' a it : Nat} {p : MP} {hops : Nat}
    (h : SInvL s G M Q) (hpc : s.pc t = .dChk2 h' a it p hops) (hs : step s t = some (s', ev)) :
    ∃ G' M' Q', SInvL s' G' M' Q' ∧ StepEff s t s' Q Q' := by
  inv_open h
  obtain ⟨p1, p2⟩ := p
  cases p1 <;> cases p2 <;> auto_step

set_option maxHeartbeats 1000000 in
theorem sinvl_step_fcP1 {s s' : St} {t : Tid} {ev : Ev} {G M Q : List Nat} {c nw : Nat} {fin : Option Int}
    (h : SInvL s G M Q) (hpc : s.pc t = .fcP1 c nw fin) (hs : step s t = some (s', ev)) :
    ∃ G' M' Q', SInvL s' G' M' Q' ∧ StepEff s t s' Q Q' := by
  inv_open h
  cases fin <;> auto_step

set_option maxHeartbeats 1000000 in
theorem sinvl_step_fcP2 {s s' : St} {t : Tid} {ev : Ev} {G M Q : List Nat} {c nw : Nat} {p : MP} {fin : Option Int}
    (h : SInvL s G M Q) (hpc : s.pc t = .fcP2 c nw p fin) (hs : step s t = some (s', ev)) :
    ∃ G' M' Q', SInvL s' G' M' Q' ∧ StepEff s t s' Q Q' := by
  inv_open h
  obtain ⟨p1, p2⟩ := p
  cases fin <;> cases p1 <;> cases p2 <;> auto_step

end CdsVerif.Algo.Basket

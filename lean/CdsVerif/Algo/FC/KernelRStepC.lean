/-
  Preservation of the invariant `KInvR` (FC/KernelRInv.lean) by the atomic steps of the refined flat-combining kernel
  machine, part C: program counters ccInact, ccAdv, c2Hd, c2State, c2Nx, unlock, wtReq, wtState, wtLock, wtReq2, wtUnlock, relSt.
  (Generated once by a script, one lemma per program counter; ordinary Lean.)
-/
import CdsVerif.Algo.FC.KernelRInv
namespace CdsVerif.Algo.FC.KernelR
open CdsVerif.Machine CdsVerif.Spec
open CdsVerif.Algo.FC.Kernel (Cfg RV RS Cont CS)

set_option maxHeartbeats 8000000 in
theorem step_ccInact {cfg : Cfg} {s s' : St} {t : Tid} {ev : Ev} {a : Nat} {pp : Cur} {k : Nat} {nx : Cur}
    (h : KInvR cfg s) (hpc : s.pc t = .ccInact a pp k nx) (hs : step cfg s t = some (s', ev)) : KInvR cfg s' := by
  obtain ⟨h_bound, h_lockFree, h_hold, h_noReq, h_someReq, h_respExec, h_opExec, h_atDone, h_atApply, h_rel, h_wtUnl, h_fin, h_le1, h_nodup, h_notIn, h_inact, h_preInact, h_linkAct, h_unlinked, h_inactOut, h_ccAct, h_cmb, h_curIn, h_curInN, h_pass, h_passN, h_post⟩ := h
  have s_pass := h_pass t; have s_passN := h_passN t; have s_post := h_post t; have s_hold := h_hold t
  have s_noReq := h_noReq t; have s_someReq := h_someReq t; have s_bound := h_bound t
  have s_curIn := h_curIn t; have s_curInN := h_curInN t; have s_notIn := h_notIn t; have s_linkAct := h_linkAct t
  have s_preInact := h_preInact t; have s_ccAct := h_ccAct t; have s_inactOut := h_inactOut t; have s_atApply := h_atApply t; have s_atDone := h_atDone t
  simp only [hpc] at s_pass s_passN s_post s_hold s_noReq s_someReq s_bound s_curIn s_curInN s_notIn s_linkAct s_preInact s_ccAct s_inactOut s_atApply s_atDone
  simp only [step, hpc] at hs
  simp only [Option.some.injEq, Prod.mk.injEq] at hs; obtain ⟨rfl, -⟩ := hs
  cases nx <;> kinv_close

set_option maxHeartbeats 8000000 in
theorem step_ccAdv {cfg : Cfg} {s s' : St} {t : Tid} {ev : Ev} {a : Nat} {k : Nat}
    (h : KInvR cfg s) (hpc : s.pc t = .ccAdv a k) (hs : step cfg s t = some (s', ev)) : KInvR cfg s' := by
  obtain ⟨h_bound, h_lockFree, h_hold, h_noReq, h_someReq, h_respExec, h_opExec, h_atDone, h_atApply, h_rel, h_wtUnl, h_fin, h_le1, h_nodup, h_notIn, h_inact, h_preInact, h_linkAct, h_unlinked, h_inactOut, h_ccAct, h_cmb, h_curIn, h_curInN, h_pass, h_passN, h_post⟩ := h
  have s_pass := h_pass t; have s_passN := h_passN t; have s_post := h_post t; have s_hold := h_hold t
  have s_noReq := h_noReq t; have s_someReq := h_someReq t; have s_bound := h_bound t
  have s_curIn := h_curIn t; have s_curInN := h_curInN t; have s_notIn := h_notIn t; have s_linkAct := h_linkAct t
  have s_preInact := h_preInact t; have s_ccAct := h_ccAct t; have s_inactOut := h_inactOut t; have s_atApply := h_atApply t; have s_atDone := h_atDone t
  simp only [hpc] at s_pass s_passN s_post s_hold s_noReq s_someReq s_bound s_curIn s_curInN s_notIn s_linkAct s_preInact s_ccAct s_inactOut s_atApply s_atDone
  simp only [step, hpc] at hs
  simp only [Option.some.injEq, Prod.mk.injEq] at hs; obtain ⟨rfl, -⟩ := hs
  cases hsu : succOf s.list (some k) <;> kinv_close

set_option maxHeartbeats 8000000 in
theorem step_c2Hd {cfg : Cfg} {s s' : St} {t : Tid} {ev : Ev} 
    (h : KInvR cfg s) (hpc : s.pc t = .c2Hd) (hs : step cfg s t = some (s', ev)) : KInvR cfg s' := by
  obtain ⟨h_bound, h_lockFree, h_hold, h_noReq, h_someReq, h_respExec, h_opExec, h_atDone, h_atApply, h_rel, h_wtUnl, h_fin, h_le1, h_nodup, h_notIn, h_inact, h_preInact, h_linkAct, h_unlinked, h_inactOut, h_ccAct, h_cmb, h_curIn, h_curInN, h_pass, h_passN, h_post⟩ := h
  have s_pass := h_pass t; have s_passN := h_passN t; have s_post := h_post t; have s_hold := h_hold t
  have s_noReq := h_noReq t; have s_someReq := h_someReq t; have s_bound := h_bound t
  have s_curIn := h_curIn t; have s_curInN := h_curInN t; have s_notIn := h_notIn t; have s_linkAct := h_linkAct t
  have s_preInact := h_preInact t; have s_ccAct := h_ccAct t; have s_inactOut := h_inactOut t; have s_atApply := h_atApply t; have s_atDone := h_atDone t
  simp only [hpc] at s_pass s_passN s_post s_hold s_noReq s_someReq s_bound s_curIn s_curInN s_notIn s_linkAct s_preInact s_ccAct s_inactOut s_atApply s_atDone
  simp only [step, hpc] at hs
  simp only [Option.some.injEq, Prod.mk.injEq] at hs; obtain ⟨rfl, -⟩ := hs
  cases hal : allocList cfg <;> kinv_close

set_option maxHeartbeats 8000000 in
theorem step_c2State {cfg : Cfg} {s s' : St} {t : Tid} {ev : Ev} {rest : List Nat}
    (h : KInvR cfg s) (hpc : s.pc t = .c2State rest) (hs : step cfg s t = some (s', ev)) : KInvR cfg s' := by
  obtain ⟨h_bound, h_lockFree, h_hold, h_noReq, h_someReq, h_respExec, h_opExec, h_atDone, h_atApply, h_rel, h_wtUnl, h_fin, h_le1, h_nodup, h_notIn, h_inact, h_preInact, h_linkAct, h_unlinked, h_inactOut, h_ccAct, h_cmb, h_curIn, h_curInN, h_pass, h_passN, h_post⟩ := h
  have s_pass := h_pass t; have s_passN := h_passN t; have s_post := h_post t; have s_hold := h_hold t
  have s_noReq := h_noReq t; have s_someReq := h_someReq t; have s_bound := h_bound t
  have s_curIn := h_curIn t; have s_curInN := h_curInN t; have s_notIn := h_notIn t; have s_linkAct := h_linkAct t
  have s_preInact := h_preInact t; have s_ccAct := h_ccAct t; have s_inactOut := h_inactOut t; have s_atApply := h_atApply t; have s_atDone := h_atDone t
  simp only [hpc] at s_pass s_passN s_post s_hold s_noReq s_someReq s_bound s_curIn s_curInN s_notIn s_linkAct s_preInact s_ccAct s_inactOut s_atApply s_atDone
  simp only [step, hpc] at hs
  cases rest with
  | nil =>
    simp only [Option.some.injEq, Prod.mk.injEq] at hs; obtain ⟨rfl, -⟩ := hs
    kinv_close
  | cons k rest =>
    simp only [Option.some.injEq, Prod.mk.injEq] at hs; obtain ⟨rfl, -⟩ := hs
    kinv_close

set_option maxHeartbeats 8000000 in
theorem step_c2Nx {cfg : Cfg} {s s' : St} {t : Tid} {ev : Ev} {rest : List Nat}
    (h : KInvR cfg s) (hpc : s.pc t = .c2Nx rest) (hs : step cfg s t = some (s', ev)) : KInvR cfg s' := by
  obtain ⟨h_bound, h_lockFree, h_hold, h_noReq, h_someReq, h_respExec, h_opExec, h_atDone, h_atApply, h_rel, h_wtUnl, h_fin, h_le1, h_nodup, h_notIn, h_inact, h_preInact, h_linkAct, h_unlinked, h_inactOut, h_ccAct, h_cmb, h_curIn, h_curInN, h_pass, h_passN, h_post⟩ := h
  have s_pass := h_pass t; have s_passN := h_passN t; have s_post := h_post t; have s_hold := h_hold t
  have s_noReq := h_noReq t; have s_someReq := h_someReq t; have s_bound := h_bound t
  have s_curIn := h_curIn t; have s_curInN := h_curInN t; have s_notIn := h_notIn t; have s_linkAct := h_linkAct t
  have s_preInact := h_preInact t; have s_ccAct := h_ccAct t; have s_inactOut := h_inactOut t; have s_atApply := h_atApply t; have s_atDone := h_atDone t
  simp only [hpc] at s_pass s_passN s_post s_hold s_noReq s_someReq s_bound s_curIn s_curInN s_notIn s_linkAct s_preInact s_ccAct s_inactOut s_atApply s_atDone
  simp only [step, hpc] at hs
  cases rest with
  | nil =>
    simp only [Option.some.injEq, Prod.mk.injEq] at hs; obtain ⟨rfl, -⟩ := hs
    kinv_close
  | cons k rest =>
    simp only [Option.some.injEq, Prod.mk.injEq] at hs; obtain ⟨rfl, -⟩ := hs
    cases rest <;> kinv_close

set_option maxHeartbeats 8000000 in
theorem step_unlock {cfg : Cfg} {s s' : St} {t : Tid} {ev : Ev} 
    (h : KInvR cfg s) (hpc : s.pc t = .unlock) (hs : step cfg s t = some (s', ev)) : KInvR cfg s' := by
  obtain ⟨h_bound, h_lockFree, h_hold, h_noReq, h_someReq, h_respExec, h_opExec, h_atDone, h_atApply, h_rel, h_wtUnl, h_fin, h_le1, h_nodup, h_notIn, h_inact, h_preInact, h_linkAct, h_unlinked, h_inactOut, h_ccAct, h_cmb, h_curIn, h_curInN, h_pass, h_passN, h_post⟩ := h
  have s_pass := h_pass t; have s_passN := h_passN t; have s_post := h_post t; have s_hold := h_hold t
  have s_noReq := h_noReq t; have s_someReq := h_someReq t; have s_bound := h_bound t
  have s_curIn := h_curIn t; have s_curInN := h_curInN t; have s_notIn := h_notIn t; have s_linkAct := h_linkAct t
  have s_preInact := h_preInact t; have s_ccAct := h_ccAct t; have s_inactOut := h_inactOut t; have s_atApply := h_atApply t; have s_atDone := h_atDone t
  simp only [hpc] at s_pass s_passN s_post s_hold s_noReq s_someReq s_bound s_curIn s_curInN s_notIn s_linkAct s_preInact s_ccAct s_inactOut s_atApply s_atDone
  simp only [step, hpc] at hs
  simp only [Option.some.injEq, Prod.mk.injEq] at hs; obtain ⟨rfl, -⟩ := hs
  kinv_close

set_option maxHeartbeats 8000000 in
theorem step_wtReq {cfg : Cfg} {s s' : St} {t : Tid} {ev : Ev} 
    (h : KInvR cfg s) (hpc : s.pc t = .wtReq) (hs : step cfg s t = some (s', ev)) : KInvR cfg s' := by
  obtain ⟨h_bound, h_lockFree, h_hold, h_noReq, h_someReq, h_respExec, h_opExec, h_atDone, h_atApply, h_rel, h_wtUnl, h_fin, h_le1, h_nodup, h_notIn, h_inact, h_preInact, h_linkAct, h_unlinked, h_inactOut, h_ccAct, h_cmb, h_curIn, h_curInN, h_pass, h_passN, h_post⟩ := h
  have s_pass := h_pass t; have s_passN := h_passN t; have s_post := h_post t; have s_hold := h_hold t
  have s_noReq := h_noReq t; have s_someReq := h_someReq t; have s_bound := h_bound t
  have s_curIn := h_curIn t; have s_curInN := h_curInN t; have s_notIn := h_notIn t; have s_linkAct := h_linkAct t
  have s_preInact := h_preInact t; have s_ccAct := h_ccAct t; have s_inactOut := h_inactOut t; have s_atApply := h_atApply t; have s_atDone := h_atDone t
  simp only [hpc] at s_pass s_passN s_post s_hold s_noReq s_someReq s_bound s_curIn s_curInN s_notIn s_linkAct s_preInact s_ccAct s_inactOut s_atApply s_atDone
  simp only [step, hpc] at hs
  simp only [Option.some.injEq, Prod.mk.injEq] at hs; obtain ⟨rfl, -⟩ := hs
  kinv_close

set_option maxHeartbeats 8000000 in
theorem step_wtState {cfg : Cfg} {s s' : St} {t : Tid} {ev : Ev} 
    (h : KInvR cfg s) (hpc : s.pc t = .wtState) (hs : step cfg s t = some (s', ev)) : KInvR cfg s' := by
  obtain ⟨h_bound, h_lockFree, h_hold, h_noReq, h_someReq, h_respExec, h_opExec, h_atDone, h_atApply, h_rel, h_wtUnl, h_fin, h_le1, h_nodup, h_notIn, h_inact, h_preInact, h_linkAct, h_unlinked, h_inactOut, h_ccAct, h_cmb, h_curIn, h_curInN, h_pass, h_passN, h_post⟩ := h
  have s_pass := h_pass t; have s_passN := h_passN t; have s_post := h_post t; have s_hold := h_hold t
  have s_noReq := h_noReq t; have s_someReq := h_someReq t; have s_bound := h_bound t
  have s_curIn := h_curIn t; have s_curInN := h_curInN t; have s_notIn := h_notIn t; have s_linkAct := h_linkAct t
  have s_preInact := h_preInact t; have s_ccAct := h_ccAct t; have s_inactOut := h_inactOut t; have s_atApply := h_atApply t; have s_atDone := h_atDone t
  simp only [hpc] at s_pass s_passN s_post s_hold s_noReq s_someReq s_bound s_curIn s_curInN s_notIn s_linkAct s_preInact s_ccAct s_inactOut s_atApply s_atDone
  simp only [step, hpc] at hs
  simp only [Option.some.injEq, Prod.mk.injEq] at hs; obtain ⟨rfl, -⟩ := hs
  kinv_close

set_option maxHeartbeats 8000000 in
theorem step_wtLock {cfg : Cfg} {s s' : St} {t : Tid} {ev : Ev} 
    (h : KInvR cfg s) (hpc : s.pc t = .wtLock) (hs : step cfg s t = some (s', ev)) : KInvR cfg s' := by
  obtain ⟨h_bound, h_lockFree, h_hold, h_noReq, h_someReq, h_respExec, h_opExec, h_atDone, h_atApply, h_rel, h_wtUnl, h_fin, h_le1, h_nodup, h_notIn, h_inact, h_preInact, h_linkAct, h_unlinked, h_inactOut, h_ccAct, h_cmb, h_curIn, h_curInN, h_pass, h_passN, h_post⟩ := h
  have s_pass := h_pass t; have s_passN := h_passN t; have s_post := h_post t; have s_hold := h_hold t
  have s_noReq := h_noReq t; have s_someReq := h_someReq t; have s_bound := h_bound t
  have s_curIn := h_curIn t; have s_curInN := h_curInN t; have s_notIn := h_notIn t; have s_linkAct := h_linkAct t
  have s_preInact := h_preInact t; have s_ccAct := h_ccAct t; have s_inactOut := h_inactOut t; have s_atApply := h_atApply t; have s_atDone := h_atDone t
  simp only [hpc] at s_pass s_passN s_post s_hold s_noReq s_someReq s_bound s_curIn s_curInN s_notIn s_linkAct s_preInact s_ccAct s_inactOut s_atApply s_atDone
  simp only [step, hpc] at hs
  simp only [Option.some.injEq, Prod.mk.injEq] at hs; obtain ⟨rfl, -⟩ := hs
  kinv_close

set_option maxHeartbeats 8000000 in
theorem step_wtReq2 {cfg : Cfg} {s s' : St} {t : Tid} {ev : Ev} 
    (h : KInvR cfg s) (hpc : s.pc t = .wtReq2) (hs : step cfg s t = some (s', ev)) : KInvR cfg s' := by
  obtain ⟨h_bound, h_lockFree, h_hold, h_noReq, h_someReq, h_respExec, h_opExec, h_atDone, h_atApply, h_rel, h_wtUnl, h_fin, h_le1, h_nodup, h_notIn, h_inact, h_preInact, h_linkAct, h_unlinked, h_inactOut, h_ccAct, h_cmb, h_curIn, h_curInN, h_pass, h_passN, h_post⟩ := h
  have s_pass := h_pass t; have s_passN := h_passN t; have s_post := h_post t; have s_hold := h_hold t
  have s_noReq := h_noReq t; have s_someReq := h_someReq t; have s_bound := h_bound t
  have s_curIn := h_curIn t; have s_curInN := h_curInN t; have s_notIn := h_notIn t; have s_linkAct := h_linkAct t
  have s_preInact := h_preInact t; have s_ccAct := h_ccAct t; have s_inactOut := h_inactOut t; have s_atApply := h_atApply t; have s_atDone := h_atDone t
  simp only [hpc] at s_pass s_passN s_post s_hold s_noReq s_someReq s_bound s_curIn s_curInN s_notIn s_linkAct s_preInact s_ccAct s_inactOut s_atApply s_atDone
  simp only [step, hpc] at hs
  simp only [Option.some.injEq, Prod.mk.injEq] at hs; obtain ⟨rfl, -⟩ := hs
  kinv_close

set_option maxHeartbeats 8000000 in
theorem step_wtUnlock {cfg : Cfg} {s s' : St} {t : Tid} {ev : Ev} 
    (h : KInvR cfg s) (hpc : s.pc t = .wtUnlock) (hs : step cfg s t = some (s', ev)) : KInvR cfg s' := by
  obtain ⟨h_bound, h_lockFree, h_hold, h_noReq, h_someReq, h_respExec, h_opExec, h_atDone, h_atApply, h_rel, h_wtUnl, h_fin, h_le1, h_nodup, h_notIn, h_inact, h_preInact, h_linkAct, h_unlinked, h_inactOut, h_ccAct, h_cmb, h_curIn, h_curInN, h_pass, h_passN, h_post⟩ := h
  have s_pass := h_pass t; have s_passN := h_passN t; have s_post := h_post t; have s_hold := h_hold t
  have s_noReq := h_noReq t; have s_someReq := h_someReq t; have s_bound := h_bound t
  have s_curIn := h_curIn t; have s_curInN := h_curInN t; have s_notIn := h_notIn t; have s_linkAct := h_linkAct t
  have s_preInact := h_preInact t; have s_ccAct := h_ccAct t; have s_inactOut := h_inactOut t; have s_atApply := h_atApply t; have s_atDone := h_atDone t
  simp only [hpc] at s_pass s_passN s_post s_hold s_noReq s_someReq s_bound s_curIn s_curInN s_notIn s_linkAct s_preInact s_ccAct s_inactOut s_atApply s_atDone
  simp only [step, hpc] at hs
  simp only [Option.some.injEq, Prod.mk.injEq] at hs; obtain ⟨rfl, -⟩ := hs
  kinv_close

set_option maxHeartbeats 8000000 in
theorem step_relSt {cfg : Cfg} {s s' : St} {t : Tid} {ev : Ev} 
    (h : KInvR cfg s) (hpc : s.pc t = .relSt) (hs : step cfg s t = some (s', ev)) : KInvR cfg s' := by
  obtain ⟨h_bound, h_lockFree, h_hold, h_noReq, h_someReq, h_respExec, h_opExec, h_atDone, h_atApply, h_rel, h_wtUnl, h_fin, h_le1, h_nodup, h_notIn, h_inact, h_preInact, h_linkAct, h_unlinked, h_inactOut, h_ccAct, h_cmb, h_curIn, h_curInN, h_pass, h_passN, h_post⟩ := h
  have s_pass := h_pass t; have s_passN := h_passN t; have s_post := h_post t; have s_hold := h_hold t
  have s_noReq := h_noReq t; have s_someReq := h_someReq t; have s_bound := h_bound t
  have s_curIn := h_curIn t; have s_curInN := h_curInN t; have s_notIn := h_notIn t; have s_linkAct := h_linkAct t
  have s_preInact := h_preInact t; have s_ccAct := h_ccAct t; have s_inactOut := h_inactOut t; have s_atApply := h_atApply t; have s_atDone := h_atDone t
  simp only [hpc] at s_pass s_passN s_post s_hold s_noReq s_someReq s_bound s_curIn s_curInN s_notIn s_linkAct s_preInact s_ccAct s_inactOut s_atApply s_atDone
  simp only [step, hpc] at hs
  simp only [Option.some.injEq, Prod.mk.injEq] at hs; obtain ⟨rfl, -⟩ := hs
  kinv_close

end CdsVerif.Algo.FC.KernelR

/-
  Lemmas about the sequential CuckooSet model (Model.lean): what every primitive does to the multiset of linked keys
  (`cnt`), to well-formedness (`WF`) and to the placement of the keys (`Placed`: every key sits in the probe set its
  hash selects under the current bucket count).
-/
import CdsVerif.Algo.Cuckoo.Model
namespace CdsVerif.Algo.Cuckoo

/-! ### tables -/

theorem getD_set (t : Table) (i j : Nat) (b : Bucket) :
    (t.set i b).getD j [] = if i = j ∧ i < t.length then b else t.getD j [] := by
  simp only [List.getD_eq_getElem?_getD, List.getElem?_set]
  split <;> split <;> simp_all <;> omega

theorem count_flatten_set (t : Table) (i : Nat) (b : Bucket) (k : Int) (h : i < t.length) :
    ((t.set i b).flatten).count k + (t.getD i []).count k = t.flatten.count k + b.count k := by
  induction t generalizing i with
  | nil => simp at h
  | cons x xs ih =>
    cases i with
    | zero => simp [List.count_append]; omega
    | succ i =>
      simp only [List.length_cons, Nat.add_lt_add_iff_right] at h
      have := ih i h
      simp [List.count_append] at this ⊢; omega

theorem mem_flatten_getD (t : Table) (k : Int) : k ∈ t.flatten ↔ ∃ i, k ∈ t.getD i [] := by
  constructor
  · intro h
    obtain ⟨l, hl, hk⟩ := List.mem_flatten.mp h
    obtain ⟨i, hi, rfl⟩ := List.getElem_of_mem hl
    exact ⟨i, by simp [List.getD_eq_getElem?_getD, hi, hk]⟩
  · rintro ⟨i, hi⟩
    by_cases h : i < t.length
    · simp [List.getD_eq_getElem?_getD, h] at hi
      exact List.mem_flatten.mpr ⟨t[i], List.getElem_mem h, hi⟩
    · simp [List.getD_eq_getElem?_getD] at hi
      rw [List.getElem?_eq_none (by omega)] at hi; simp at hi

theorem getD_replicate_nil (n i : Nat) : (List.replicate n ([] : Bucket)).getD i [] = [] := by
  simp only [List.getD_eq_getElem?_getD, List.getElem?_replicate]
  split <;> rfl

theorem flatten_replicate_nil (n : Nat) : (List.replicate n ([] : Bucket)).flatten = [] := by
  induction n with
  | zero => rfl
  | succ n ih => simp [List.replicate_succ, ih]

/-! ### probe sets -/

theorem bInsert_perm (bk : Bucket) (k : Int) : (bInsert bk k).Perm (k :: bk) := by
  induction bk with
  | nil => simp [bInsert]
  | cons x xs ih =>
    unfold bInsert; split
    · exact List.Perm.refl _
    · exact (List.Perm.cons x ih).trans (List.Perm.swap k x xs)

/-- on a probe set that does not hold the key (the only case without duplicates) the node goes to the END -/
theorem bInsert_of_not_mem (bk : Bucket) (k : Int) (h : k ∉ bk) : bInsert bk k = bk ++ [k] := by
  induction bk with
  | nil => rfl
  | cons x xs ih =>
    unfold bInsert
    simp only [List.mem_cons, not_or] at h
    rw [if_neg (fun e => h.1 e.symm), ih h.2]; rfl

theorem count_bInsert (bk : Bucket) (k q : Int) : (bInsert bk k).count q = bk.count q + (if k = q then 1 else 0) := by
  rw [(bInsert_perm bk k).count_eq, List.count_cons]
  simp only [beq_iff_eq]

theorem mem_bInsert (bk : Bucket) (k q : Int) : q ∈ bInsert bk k ↔ q = k ∨ q ∈ bk := by
  rw [(bInsert_perm bk k).mem_iff, List.mem_cons]

theorem length_bInsert (bk : Bucket) (k : Int) : (bInsert bk k).length = bk.length + 1 := by
  rw [(bInsert_perm bk k).length_eq, List.length_cons]

/-! ### states -/

/-- both tables have `cap` probe sets and `cap` is positive -/
def WF (s : St) : Prop := s.t0.length = s.cap ∧ s.t1.length = s.cap ∧ 0 < s.cap

/-- every key sits in the probe set its hash selects under the current bucket count -/
def Placed (c : Cfg) (s : St) : Prop := ∀ b i k, k ∈ (s.tab b).getD i [] → idx s.cap (c.hash b k) = i

/-- multiplicity of `k` among the linked nodes -/
def cnt (s : St) (k : Int) : Nat := s.elems.count k

theorem cnt_eq (s : St) (k : Int) : cnt s k = (s.tab false).flatten.count k + (s.tab true).flatten.count k := by
  simp [cnt, St.elems, St.tab, List.count_append]

theorem idx_lt {cap : Nat} (h : 0 < cap) (x : Nat) : idx cap x < cap := by
  have := @Nat.and_le_right x (cap - 1)
  unfold idx; omega

theorem WF.tab_length {s : St} (h : WF s) (b : Bool) : (s.tab b).length = s.cap := by
  cases b <;> simp [St.tab, h.1, h.2.1]

theorem bidx_lt {s : St} (h : WF s) (c : Cfg) (b : Bool) (k : Int) : s.bidx c b k < s.cap := idx_lt h.2.2 _

@[simp] theorem cap_putBucket (s : St) (b : Bool) (i : Nat) (bk : Bucket) : (s.putBucket b i bk).cap = s.cap := by
  cases b <;> rfl

@[simp] theorem count_putBucket (s : St) (b : Bool) (i : Nat) (bk : Bucket) : (s.putBucket b i bk).count = s.count := by
  cases b <;> rfl

theorem tab_putBucket (s : St) (b b' : Bool) (i : Nat) (bk : Bucket) :
    (s.putBucket b i bk).tab b' = if b' = b then (s.tab b).set i bk else s.tab b' := by
  cases b <;> cases b' <;> simp [St.putBucket, St.setTab, St.tab]

theorem WF_putBucket {s : St} (h : WF s) (b : Bool) (i : Nat) (bk : Bucket) : WF (s.putBucket b i bk) := by
  obtain ⟨h0, h1, h2⟩ := h
  cases b <;> simp [WF, St.putBucket, St.setTab, St.tab, h0, h1, h2]

theorem getD_putBucket {s : St} (h : WF s) (b b' : Bool) (i j : Nat) (bk : Bucket) (hi : i < s.cap) :
    ((s.putBucket b i bk).tab b').getD j [] = if b' = b ∧ j = i then bk else (s.tab b').getD j [] := by
  rw [tab_putBucket]
  by_cases hb : b' = b
  · subst hb
    rw [if_pos rfl, getD_set, h.tab_length]
    by_cases hj : j = i
    · subst hj; simp [hi]
    · have : ¬ (i = j ∧ i < s.cap) := fun e => hj e.1.symm
      simp [hj, this]
  · simp [hb]

theorem cnt_putBucket {s : St} (h : WF s) (b : Bool) (i : Nat) (bk : Bucket) (hi : i < s.cap) (k : Int) :
    cnt (s.putBucket b i bk) k + ((s.tab b).getD i []).count k = cnt s k + bk.count k := by
  have hl : i < (s.tab b).length := by rw [h.tab_length]; exact hi
  have := count_flatten_set (s.tab b) i bk k hl
  rw [cnt_eq, cnt_eq, tab_putBucket, tab_putBucket]
  cases b <;> simp at this ⊢ <;> omega

theorem Placed_putBucket {c : Cfg} {s : St} (h : WF s) (hp : Placed c s) (b : Bool) (i : Nat) (bk : Bucket) (hi : i < s.cap)
    (hb : ∀ k ∈ bk, idx s.cap (c.hash b k) = i) : Placed c (s.putBucket b i bk) := by
  intro b' j k hk
  rw [getD_putBucket h b b' i j bk hi] at hk
  rw [cap_putBucket]
  split at hk
  · rename_i e; rw [e.1, e.2]; exact hb k hk
  · exact hp b' j k hk

/-- `s'` holds the nodes of `s`, plus `add`, minus `rem` -/
structure Ext (c : Cfg) (s s' : St) (add rem : List Int) : Prop where
  wf : WF s'
  cnt : ∀ k, cnt s' k + rem.count k = cnt s k + add.count k
  placed : Placed c s → Placed c s'

theorem Ext.refl {c : Cfg} {s : St} (h : WF s) : Ext c s s [] [] := ⟨h, fun _ => rfl, id⟩

theorem Ext.trans {c : Cfg} {s s' s'' : St} {a r a' r' : List Int} (h1 : Ext c s s' a r) (h2 : Ext c s' s'' a' r') :
    Ext c s s'' (a ++ a') (r ++ r') :=
  ⟨h2.wf, fun k => by have := h1.cnt k; have := h2.cnt k; simp only [List.count_append]; omega, fun p => h2.placed (h1.placed p)⟩

theorem Ext.count_irrel {c : Cfg} {s s' : St} {a r : List Int} (h : Ext c s s' a r) (n : Nat) :
    Ext c s { s' with count := n } a r := ⟨h.wf, h.cnt, h.placed⟩

theorem Ext.count_irrel_left {c : Cfg} {s s' : St} {a r : List Int} (h : Ext c s s' a r) (n : Nat) :
    Ext c { s with count := n } s' a r := ⟨h.wf, h.cnt, h.placed⟩

/-- linking `x` into its probe set of table `b` -/
theorem place_ext (c : Cfg) {s : St} (h : WF s) (b : Bool) (x : Int) : Ext c s (s.place c b x) [x] [] := by
  have hi := bidx_lt h c b x
  refine ⟨WF_putBucket h _ _ _, fun k => ?_, fun hp => ?_⟩
  · have := cnt_putBucket h b (s.bidx c b x) (bInsert (s.bucketOf c b x) x) hi k
    rw [count_bInsert] at this
    simp only [St.place, St.bucketOf, List.count_nil, List.count_cons, beq_iff_eq, List.count_nil] at this ⊢
    omega
  · refine Placed_putBucket h hp b _ _ hi (fun k hk => ?_)
    rcases (mem_bInsert _ _ _).mp hk with e | hk
    · subst e; rfl
    · exact hp b _ k hk

@[simp] theorem cap_place (c : Cfg) (s : St) (b : Bool) (x : Int) : (s.place c b x).cap = s.cap := cap_putBucket _ _ _ _
@[simp] theorem count_place (c : Cfg) (s : St) (b : Bool) (x : Int) : (s.place c b x).count = s.count := count_putBucket _ _ _ _

/-- unlinking the first node `v` of probe set `i` of table `b` -/
theorem dropHead_ext (c : Cfg) {s : St} (h : WF s) (b : Bool) (i : Nat) (hi : i < s.cap) (v : Int) (rest : Bucket)
    (e : (s.tab b).getD i [] = v :: rest) : Ext c s (s.putBucket b i rest) [] [v] := by
  refine ⟨WF_putBucket h _ _ _, fun k => ?_, fun hp => ?_⟩
  · have := cnt_putBucket h b i rest hi k
    rw [e] at this
    simp only [List.count_cons, beq_iff_eq, List.count_nil] at this ⊢
    omega
  · exact Placed_putBucket h hp b i rest hi (fun k hk => hp b i k (by rw [e]; exact List.mem_cons_of_mem _ hk))

/-- putting `v` back at the front of the probe set it was taken from -/
theorem putBack_ext (c : Cfg) {s : St} (h : WF s) (b : Bool) (i : Nat) (hi : i < s.cap) (v : Int) (rest : Bucket)
    (e : (s.tab b).getD i [] = v :: rest) : Ext c s ((s.putBucket b i rest).putBucket b i (v :: rest)) [] [] := by
  have h1 := WF_putBucket h b i rest
  refine ⟨WF_putBucket h1 _ _ _, fun k => ?_, fun hp => ?_⟩
  · have a := cnt_putBucket h b i rest hi k
    have a' := cnt_putBucket h1 b i (v :: rest) (by simpa using hi) k
    rw [getD_putBucket h b b i i rest hi] at a'
    rw [e] at a
    simp only [and_self, if_true, List.count_nil] at a' ⊢
    omega
  · refine Placed_putBucket h1 ((dropHead_ext c h b i hi v rest e).placed hp) b i _ (by simpa using hi) (fun k hk => ?_)
    rw [cap_putBucket]
    exact hp b i k (by rw [e]; exact hk)

/-! ### relocate -/

theorem relocateRounds_ext (c : Cfg) (n : Nat) : ∀ (s : St) (b : Bool) (gk : Int), WF s →
    Ext c s (relocateRounds c n s b gk).1 [] [] ∧ (relocateRounds c n s b gk).1.cap = s.cap
      ∧ (relocateRounds c n s b gk).1.count = s.count := by
  induction n with
  | zero => intro s b gk h; exact ⟨Ext.refl h, rfl, rfl⟩
  | succ n ih =>
    intro s b gk h
    unfold relocateRounds
    simp only
    split
    · exact ⟨Ext.refl h, rfl, rfl⟩
    · split
      · exact ⟨Ext.refl h, rfl, rfl⟩
      · rename_i v rest e
        have hi := bidx_lt h c b gk
        have d := dropHead_ext c h b _ hi v rest e
        have p := place_ext c d.wf (!b) v
        have dp : Ext c s ((s.putBucket b (s.bidx c b gk) rest).place c (!b) v) [] [] := by
          have t := d.trans p
          exact ⟨t.wf, fun k => by have := t.cnt k; simp at this ⊢; omega, t.placed⟩
        split
        · exact ⟨dp, by simp, by simp⟩
        · split
          · obtain ⟨r1, r2, r3⟩ := ih ((s.putBucket b (s.bidx c b gk) rest).place c (!b) v) (!b) v dp.wf
            refine ⟨?_, by rw [r2]; simp, by rw [r3]; simp⟩
            have t := dp.trans r1
            exact ⟨t.wf, fun k => by have := t.cnt k; simpa using this, t.placed⟩
          · exact ⟨putBack_ext c h b _ hi v rest e, by simp, by simp⟩

theorem relocateFrom_ext (c : Cfg) (s : St) (b : Bool) (i : Nat) (h : WF s) :
    Ext c s (relocateFrom c s b i).1 [] [] ∧ (relocateFrom c s b i).1.cap = s.cap ∧ (relocateFrom c s b i).1.count = s.count := by
  unfold relocateFrom
  split
  · exact relocateRounds_ext c _ s b _ h
  · exact ⟨Ext.refl h, rfl, rfl⟩

/-! ### resize -/

theorem reinsert_ext (c : Cfg) (s : St) (x : Int) (h : WF s) :
    Ext c s (reinsert c s x).1 [x] (reinsert c s x).2 ∧ (reinsert c s x).1.cap = s.cap ∧ (reinsert c s x).1.count = s.count := by
  unfold reinsert
  split
  · exact ⟨place_ext c h false x, by simp, by simp⟩
  · split
    · exact ⟨place_ext c h true x, by simp, by simp⟩
    · split
      · have p := place_ext c h false x
        obtain ⟨r1, r2, r3⟩ := relocateFrom_ext c (s.place c false x) false (s.bidx c false x) p.wf
        refine ⟨?_, by rw [r2]; simp, by rw [r3]; simp⟩
        have t := p.trans r1
        exact ⟨t.wf, fun k => by have := t.cnt k; simpa using this, t.placed⟩
      · split
        · have p := place_ext c h true x
          obtain ⟨r1, r2, r3⟩ := relocateFrom_ext c (s.place c true x) true (s.bidx c true x) p.wf
          refine ⟨?_, by rw [r2]; simp, by rw [r3]; simp⟩
          have t := p.trans r1
          exact ⟨t.wf, fun k => by have := t.cnt k; simpa using this, t.placed⟩
        · exact ⟨⟨h, fun _ => rfl, id⟩, rfl, rfl⟩

theorem reinsertAll_ext (c : Cfg) (xs : List Int) : ∀ (s : St), WF s →
    Ext c s (reinsertAll c s xs).1 xs (reinsertAll c s xs).2 ∧ (reinsertAll c s xs).1.cap = s.cap
      ∧ (reinsertAll c s xs).1.count = s.count := by
  induction xs with
  | nil => intro s h; exact ⟨Ext.refl h, rfl, rfl⟩
  | cons x xs ih =>
    intro s h
    obtain ⟨r1, r2, r3⟩ := reinsert_ext c s x h
    obtain ⟨q1, q2, q3⟩ := ih (reinsert c s x).1 r1.wf
    unfold reinsertAll
    exact ⟨r1.trans q1, by simp only; rw [q2, r2], by simp only; rw [q3, r3]⟩

/-- the doubled empty tables resize() starts from -/
def fresh (s : St) : St := { empty (2 * s.cap) with count := s.count }

theorem fresh_WF {s : St} (h : 0 < s.cap) : WF (fresh s) := by
  simp [WF, fresh, empty]; omega

theorem fresh_cnt (s : St) (k : Int) : cnt (fresh s) k = 0 := by
  simp [cnt, St.elems, fresh, empty]

theorem fresh_placed (c : Cfg) (s : St) : Placed c (fresh s) := by
  intro b i k hk
  have e : ((fresh s).tab b).getD i [] = [] := by cases b <;> exact getD_replicate_nil _ _
  rw [e] at hk; cases hk

theorem resizeG_eq (c : Cfg) (s : St) : resizeG c s = reinsertAll c (fresh s) s.order := rfl

/-- resize(), unconditionally: the new tables are well formed, every key sits in the probe set its hash selects, and
    the linked keys are the old ones minus exactly the lost ones -/
theorem resizeG_spec (c : Cfg) (s : St) (h : 0 < s.cap) :
    WF (resizeG c s).1 ∧ Placed c (resizeG c s).1 ∧ (resizeG c s).1.cap = 2 * s.cap ∧ (resizeG c s).1.count = s.count
      ∧ ∀ k, cnt (resizeG c s).1 k + (resizeG c s).2.count k = cnt s k := by
  obtain ⟨r1, r2, r3⟩ := reinsertAll_ext c s.order (fresh s) (fresh_WF h)
  rw [resizeG_eq]
  refine ⟨r1.wf, r1.placed (fresh_placed c s), r2, r3, fun k => ?_⟩
  have := r1.cnt k
  rw [fresh_cnt] at this
  simpa [cnt, St.elems, St.order] using this

/-! ### contains -/

theorem mem_elems (s : St) (k : Int) : k ∈ s.elems ↔ ∃ b i, k ∈ (s.tab b).getD i [] := by
  simp only [St.elems, List.mem_append, mem_flatten_getD]
  constructor
  · rintro (⟨i, h⟩ | ⟨i, h⟩)
    · exact ⟨false, i, h⟩
    · exact ⟨true, i, h⟩
  · rintro ⟨b, i, h⟩
    cases b
    · exact Or.inl ⟨i, h⟩
    · exact Or.inr ⟨i, h⟩

/-- on well-placed tables contains() is membership -/
theorem contains_iff {c : Cfg} {s : St} (hp : Placed c s) (k : Int) : contains c s k = true ↔ k ∈ s.elems := by
  rw [mem_elems]
  unfold contains findTable
  constructor
  · intro h
    split at h
    · rename_i h0; exact ⟨false, _, h0⟩
    · split at h
      · rename_i h1; exact ⟨true, _, h1⟩
      · simp at h
  · rintro ⟨b, i, h⟩
    have e := hp b i k h
    cases b
    · have : k ∈ s.bucketOf c false k := by unfold St.bucketOf St.bidx; rw [e]; exact h
      simp [this]
    · have : k ∈ s.bucketOf c true k := by unfold St.bucketOf St.bidx; rw [e]; exact h
      split <;> simp_all

theorem mem_elems_iff_cnt (s : St) (k : Int) : k ∈ s.elems ↔ 0 < cnt s k := by
  unfold cnt; exact List.count_pos_iff.symm

end CdsVerif.Algo.Cuckoo

/-
  Tie A for the dynamic-hazard-pointer machine (`Algo/DHP/Model`): what `cdsdriver replay dhp` runs.

  The machine `DHP.model cfg` is parameterised by the configuration `cfg = {init, B, T, RB}`; the driver's replay loop
  takes one model and an initial state built from the header line of each case, so the configuration travels in
  the state (`RSt`).  `modelR` is `DHP.model` on the `st` component, unchanged, except for the RENDERING of one
  event: the machine prints the list of disposed objects of a decision step with `toString` (`[1, 2]`), and a trace
  line is split on blanks, so the blanks are removed (`[1,2]`).  `modelR_run` states that every run of `modelR` is a
  run of `DHP.model` with the same schedule: every state the driver reaches while it accepts a real trace is a
  reachable state of the machine the theorems of `Inv` / `Facts` / `Props/C02DHP` speak about (`reachable_of_run`).

  Initial state.  The harness client (harness/clients/smr.cpp, option `--static 1`, variants dhp / dhp_many) fills
  cells `0 .. cells-1` with the objects `1 .. cells` before the threads start; no Guard object exists yet (the traced
  programs construct them with `galloc`).  `prefill` reaches that state BY RUNNING THE MACHINE: thread 0 performs
  `swap [c]` for `c = 0 .. cells-1` from `DHP.init cfg` (nothing is retired: the cells are empty), so the initial state
  of a replay is reachable from `init cfg` too (`initCfg_reachable`).

  Header words used: `init=<guards of an initial array>` `B=<guards of an extension block>` `T=<records = threads>`
  `RB=<entries of a retired block>` `cells=<n>`.

  `safeB` is the executable form of the safety theorem `C02_guarded_never_disposed`, evaluated by the driver after
  every accepted step over every slot of every linked block (it cannot fail on a state reached through `modelR`; it is
  the check that the driver's state is the one the theorem is about).
-/
import CdsVerif.Algo.DHP.Model
namespace CdsVerif.Algo.DHP.Replay
open CdsVerif.Machine CdsVerif.Spec CdsVerif.Algo.HP CdsVerif.Algo.DHP

structure RSt where
  cfg : Cfg
  st : St

/-- blanks removed from the list of a `free` event (trace lines are split on blanks); all other events unchanged -/
def fixEv (e : Ev) : Ev :=
  if e.kind = "free" then { e with a := String.ofList (e.a.toList.filter (· ≠ ' ')) } else e

def modelR : Model RSt :=
  ⟨fun s t op => (invoke s.cfg s.st t op).map (fun st' => { s with st := st' }),
   fun s t => (step s.cfg s.st t).map (fun r => ({ s with st := r.1 }, fixEv r.2)),
   fun s t => (result s.st t).map (fun r => ({ s with st := r.1 }, r.2))⟩

/-- The machine of the code before the repair of `retired_array::extend()` (`DHP.modelUnrepaired`), in the same wrapping:
    `cdsdriver replay dhp_unrepaired`.  Used to show that the finding is characterised exactly: traces of the unrepaired
    library in which a retired chain is extended replay on this machine and diverge on `modelR`.  No theorem is stated
    about it. -/
def modelRU : Model RSt :=
  ⟨fun s t op => (invoke s.cfg s.st t op).map (fun st' => { s with st := st' }),
   fun s t => (stepW s.cfg.B true s.cfg s.st t).map (fun r => ({ s with st := r.1 }, fixEv r.2)),
   fun s t => (result s.st t).map (fun r => ({ s with st := r.1 }, r.2))⟩

/-- Every run of the replay model is a run of the machine (same schedule, same states). -/
theorem modelR_run (sched : List (Tid × Act)) :
    ∀ (s s' : RSt) (os : List (Tid × Obs)), modelR.run s sched = some (s', os) →
      s'.cfg = s.cfg ∧ ∃ os', (model s.cfg).run s.st sched = some (s'.st, os') := by
  induction sched with
  | nil =>
    intro s s' os h
    simp only [Model.run, Option.some.injEq, Prod.mk.injEq] at h
    obtain ⟨rfl, _⟩ := h
    exact ⟨rfl, [], rfl⟩
  | cons x rest ih =>
    intro s s' os h
    obtain ⟨t, a⟩ := x
    simp only [Model.run] at h
    cases hap : modelR.apply s t a with
    | none => simp [hap] at h
    | some p =>
      obtain ⟨s1, o⟩ := p
      simp only [hap] at h
      cases hrr : modelR.run s1 rest with
      | none => simp [hrr] at h
      | some q =>
        obtain ⟨s2, os2⟩ := q
        simp only [hrr, Option.some.injEq, Prod.mk.injEq] at h
        obtain ⟨rfl, _⟩ := h
        -- one action of modelR is one action of the machine
        have h1 : s1.cfg = s.cfg ∧ ∃ o', (model s.cfg).apply s.st t a = some (s1.st, o') := by
          cases a with
          | invoke op =>
            simp only [Model.apply, modelR, Option.map_eq_some_iff, Prod.mk.injEq] at hap
            obtain ⟨x, ⟨st', hi, rfl⟩, rfl, _⟩ := hap
            exact ⟨rfl, .call op, by simp [Model.apply, model, hi]⟩
          | step =>
            simp only [Model.apply, modelR, Option.map_eq_some_iff, Prod.mk.injEq] at hap
            obtain ⟨x, ⟨r, hi, rfl⟩, rfl, _⟩ := hap
            exact ⟨rfl, .ev r.2, by simp [Model.apply, model, hi]⟩
          | ret =>
            simp only [Model.apply, modelR, Option.map_eq_some_iff, Prod.mk.injEq] at hap
            obtain ⟨x, ⟨r, hi, rfl⟩, rfl, _⟩ := hap
            exact ⟨rfl, .ret r.2, by simp [Model.apply, model, hi]⟩
        obtain ⟨hc, o', ho⟩ := h1
        obtain ⟨hc2, os', hr⟩ := ih s1 s2 os2 hrr
        refine ⟨hc2.trans hc, (t, o') :: os', ?_⟩
        rw [hc] at hr
        simp [Model.run, ho, hr]

/-! ### Initial state of a case -/

def cfgNat (key : String) (ws : List String) : Option Nat :=
  ws.findSome? (fun w => if w.startsWith (key ++ "=") then (w.drop (key.length + 1)).toNat? else none)

/-- thread 0 fills the cells `0 .. n-1` -/
def prefillSched (n : Nat) : List (Tid × Act) :=
  (List.range n).flatMap fun (c : Nat) => [(0, .invoke ⟨"swap", [(c : Int)]⟩), (0, .step), (0, .ret)]

def prefill (cfg : Cfg) (n : Nat) : St :=
  match (model cfg).run (init cfg) (prefillSched n) with
  | some (s, _) => s
  | none => init cfg

theorem prefill_reachable (cfg : Cfg) (n : Nat) : (model cfg).Reachable (init cfg) (prefill cfg n) := by
  unfold prefill
  split
  · next s os h => exact ⟨_, _, h⟩
  · exact ⟨[], [], rfl⟩

def initCfg (ws : List String) : RSt :=
  let cfg : Cfg := ⟨(cfgNat "init" ws).getD 16, (cfgNat "B" ws).getD 16, (cfgNat "T" ws).getD 1, (cfgNat "RB" ws).getD 256⟩
  ⟨cfg, prefill cfg ((cfgNat "cells" ws).getD 0)⟩

theorem initCfg_reachable (ws : List String) :
    (model (initCfg ws).cfg).Reachable (init (initCfg ws).cfg) (initCfg ws).st :=
  prefill_reachable _ _

/-- Whatever the driver reaches from the initial state of a case is a reachable state of the machine. -/
theorem reachable_of_run (ws : List String) (sched : List (Tid × Act)) (s' : RSt) (os : List (Tid × Obs))
    (h : modelR.run (initCfg ws) sched = some (s', os)) :
    (model (initCfg ws).cfg).Reachable (init (initCfg ws).cfg) s'.st := by
  obtain ⟨_, os', hr⟩ := modelR_run sched _ _ _ h
  obtain ⟨sched0, os0, h0⟩ := initCfg_reachable ws
  -- runs compose
  have comp : ∀ (l1 : List (Tid × Act)) (a b c : St) (o1 o2 : List (Tid × Obs)) (l2 : List (Tid × Act)),
      (model (initCfg ws).cfg).run a l1 = some (b, o1) → (model (initCfg ws).cfg).run b l2 = some (c, o2) →
      (model (initCfg ws).cfg).run a (l1 ++ l2) = some (c, o1 ++ o2) := by
    intro l1
    induction l1 with
    | nil =>
      intro a b c o1 o2 l2 h1 h2
      simp only [Model.run, Option.some.injEq, Prod.mk.injEq] at h1
      obtain ⟨rfl, rfl⟩ := h1
      simpa using h2
    | cons x rest ih =>
      intro a b c o1 o2 l2 h1 h2
      obtain ⟨t, act⟩ := x
      simp only [Model.run, List.cons_append] at h1 ⊢
      cases hap : (model (initCfg ws).cfg).apply a t act with
      | none => simp [hap] at h1
      | some p =>
        obtain ⟨a1, o⟩ := p
        simp only [hap] at h1 ⊢
        cases hrr : (model (initCfg ws).cfg).run a1 rest with
        | none => simp [hrr] at h1
        | some q =>
          obtain ⟨b1, ob⟩ := q
          simp only [hrr, Option.some.injEq, Prod.mk.injEq] at h1
          obtain ⟨rfl, rfl⟩ := h1
          rw [ih a1 b1 c ob o2 l2 hrr h2]
          rfl
  exact ⟨_, _, comp _ _ _ _ _ _ _ h0 hr⟩

/-- The locations of the machine's vocabulary: cells, hazard slots, `extended_list_` words, `T<t>` (galloc / retire /
    free), `o<id>` (use).  (`gb<t>.<k>`, the header of a guard block, is a VALUE of `ext<t>`; as a location it is the
    node of the allocator's free list, outside the machine.) -/
def relevant (loc : String) : Bool :=
  loc.startsWith "cell" || loc.startsWith "hp" || loc.startsWith "ext" || loc.startsWith "T" || loc.startsWith "o"

/-- executable form of `C02_guarded_never_disposed`: every slot of every linked block of every record -/
def safeB (s : RSt) : Bool :=
  (List.range s.cfg.T).all fun u => (List.range (s.st.nblk u + 1)).all fun b => (List.range (bsize s.cfg b)).all fun i =>
    match s.st.guard u b i with
    | some p => decide (s.st.obj p ≠ .disposed)
    | none => true

end CdsVerif.Algo.DHP.Replay

/-
  The sequential objects of the four flat-combining containers WITHOUT elimination, as containers of the generic kernel
  machine `KernelG`: `step` := the step function of the sequential specification in `Base/Spec.lean`, `valid` := the
  container's interface, `code` := the operation ids of cds/container/fc*.h (they only render events).
  Also the driver side of `cdsdriver replay fckernelg` (the deque instance).
-/
import CdsVerif.Algo.FC.KernelG
namespace CdsVerif.Algo.FC.Objects
open CdsVerif.Machine CdsVerif.Spec CdsVerif.Algo.FC.KernelG
open CdsVerif.Algo.FC.Kernel (Cfg)

def queueValid (op : GOp) : Bool :=
  match op.name, op.args with
  | "enq", [_] => true
  | "deq", [] => true
  | _, _ => false

/-- FCQueue: `fc_apply` = `Spec.fifoStep`; operation ids of `cds/container/fcqueue.h` (op_enq = 2, op_deq = 4). -/
def queueObj : Obj (List Int) where
  init := []
  step := fifoStep
  valid := queueValid
  total := by
    intro s op h
    obtain ⟨n, a⟩ := op
    unfold queueValid at h
    split at h <;> simp_all [fifoStep]
    cases s <;> simp
  code := fun op => if op.name = "enq" then 2 else 4

def stackValid (op : GOp) : Bool :=
  match op.name, op.args with
  | "push", [_] => true
  | "pop", [] => true
  | _, _ => false

/-- FCStack: `fc_apply` = `Spec.lifoStep` (op_push = 2, op_pop = 4). -/
def stackObj : Obj (List Int) where
  init := []
  step := lifoStep
  valid := stackValid
  total := by
    intro s op h
    obtain ⟨n, a⟩ := op
    unfold stackValid at h
    split at h <;> simp_all [lifoStep]
    cases s <;> simp
  code := fun op => if op.name = "push" then 2 else 4

def dequeValid (op : GOp) : Bool :=
  match op.name, op.args with
  | "push_front", [_] => true
  | "push_back", [_] => true
  | "pop_front", [] => true
  | "pop_back", [] => true
  | _, _ => false

/-- FCDeque: `fc_apply` = `Spec.dequeStep` (op_push_front = 2, op_push_back = 4, op_pop_front = 6, op_pop_back = 7). -/
def dequeObj : Obj (List Int) where
  init := []
  step := dequeStep
  valid := dequeValid
  total := by
    intro s op h
    obtain ⟨n, a⟩ := op
    unfold dequeValid at h
    split at h <;> simp_all [dequeStep]
    · cases s <;> simp
    · cases s.getLast? <;> simp
  code := fun op =>
    if op.name = "push_front" then 2 else if op.name = "push_back" then 4 else if op.name = "pop_front" then 6 else 7

/-- FCPriorityQueue over `std::priority_queue` (default `std::less`): push inserts, pop removes the greatest item. -/
def pqStepD (s : List Int) (op : GOp) : Option (List Int × GRet) :=
  match op.name, op.args with
  | "push", [v] => some (v :: s, [1])
  | "pop", [] =>
    match s.max? with
    | none => some (s, [0])
    | some m => some (s.erase m, [1, m])
  | _, _ => none

def pqObj : Obj (List Int) where
  init := []
  step := pqStepD
  valid := stackValid
  total := by
    intro s op h
    obtain ⟨n, a⟩ := op
    unfold stackValid at h
    split at h <;> simp_all [pqStepD]
    cases s.max? <;> simp
  code := fun op => if op.name = "push" then 2 else 4


/-! ### Driver side: `cdsdriver replay fckernelg` (harness client `fckernel --container deque`) -/

/-- The configuration travels in the state (the driver's `replayLoop` wants one model). -/
structure RSt where
  cfg : Cfg
  st : St (List Int)

def rmodel : Model RSt where
  invoke r t op := (invoke dequeObj r.cfg r.st t op).map (fun s => { r with st := s })
  step r t := (step dequeObj r.cfg r.st t).map (fun p => ({ r with st := p.1 }, p.2))
  result r t := (result r.st t).map (fun p => ({ r with st := p.1 }, p.2))

def rinit (ws : List String) : RSt := ⟨KernelR.cfgOf ws, init dequeObj (KernelR.cfgOf ws)⟩

/-- Checked after every replayed step: no request executed twice (a theorem; guards against a slip between the files). -/
def okB (r : RSt) : Bool := (List.range r.cfg.N).all (fun k => r.st.k.execs k ≤ 1)

end CdsVerif.Algo.FC.Objects

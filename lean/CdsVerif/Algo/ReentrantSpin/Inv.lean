/-
  Inductive invariant of the re-entrant spin lock model.

  `holder l` (ghost) is the thread between its successful CAS( m_spin, 0, 1 ) and its store m_spin := 0.
    free / busy : the lock word is zero exactly when there is no holder;
    hold / dep  : the holder is the only thread with `depth > 0`, and a holder with depth 0 is about to store
                  m_OwnerId (pc `lkTake`);
    cnt         : while the holder has depth > 0 the lock word equals its depth;
    own / ownd  : m_OwnerId names the holder exactly while its depth is positive, except between the two
                  stores of the last unlock (pc `unZero`);
    p*          : what each program counter knows.
-/
import CdsVerif.Algo.ReentrantSpin.Model
namespace CdsVerif.Algo.ReentrantSpin
open CdsVerif.Machine CdsVerif.Spec

/-- The lock whose m_OwnerId the thread is about to take (after its successful CAS). -/
def takeOf : PC → Option Nat
  | .lkTake l _ => some l
  | _ => none

/-- The lock whose word the thread is about to clear (after it cleared m_OwnerId). -/
def zeroOf : PC → Option Nat
  | .unZero l _ => some l
  | _ => none

structure RInv (s : St) : Prop where
  free : ∀ l, s.spin l = 0 → s.holder l = none
  busy : ∀ l, s.holder l = none → s.spin l = 0
  hold : ∀ l t, s.holder l = some t → s.depth t l > 0 ∨ takeOf (s.pc t) = some l
  dep : ∀ l t, s.depth t l > 0 → s.holder l = some t
  cnt : ∀ l t, s.holder l = some t → s.depth t l > 0 → s.spin l = s.depth t l
  own : ∀ l t, s.owner l = some t → s.holder l = some t ∧ s.depth t l > 0
  ownd : ∀ l t, s.depth t l > 0 → s.owner l = some t ∨ zeroOf (s.pc t) = some l
  ownn : ∀ l, s.holder l = none → s.owner l = none
  pAdd : ∀ t l r, s.pc t = .lkAdd l r → s.owner l = some t
  pTake : ∀ t l r, s.pc t = .lkTake l r → s.holder l = some t ∧ s.spin l = 1 ∧ s.depth t l = 0 ∧ s.owner l = none
  pLd : ∀ t l r, s.pc t = .unLd l r → s.depth t l > 0
  pDec : ∀ t l n r, s.pc t = .unDec l n r → n = s.spin l ∧ n > 1 ∧ s.depth t l > 0
  pFree : ∀ t l r, s.pc t = .unFree l r → s.depth t l = 1
  pZero : ∀ t l r, s.pc t = .unZero l r → s.depth t l = 1 ∧ s.owner l = none

theorem rinv_init : RInv init := by
  constructor <;> intros <;> simp_all [init] <;> rfl

macro "rinv_close" : tactic =>
  `(tactic| (constructor <;> (try dsimp only) <;>
      first | assumption | (intros; (try dsimp only at *); grind [upd, upd2, takeOf, zeroOf])))

theorem rinv_invoke {s s' : St} {t : Tid} {op : GOp} (h : RInv s) (hs : invoke s t op = some s') : RInv s' := by
  obtain ⟨h1, h2, h3, h4, h5, h6, h7, h7n, h8, h9, h10, h11, h12, h13⟩ := h
  unfold invoke at hs
  split at hs
  · simp at hs; subst hs; rinv_close
  · simp at hs; subst hs; rinv_close
  · split at hs
    · simp at hs; subst hs; rinv_close
    · simp at hs
  · split at hs <;> simp at hs <;> subst hs <;> rinv_close
  · simp at hs

theorem rinv_result {s s' : St} {t : Tid} {r : GRet} (h : RInv s) (hs : result s t = some (s', r)) : RInv s' := by
  obtain ⟨h1, h2, h3, h4, h5, h6, h7, h7n, h8, h9, h10, h11, h12, h13⟩ := h
  unfold result at hs
  split at hs
  · simp at hs; obtain ⟨rfl, -⟩ := hs; rinv_close
  · simp at hs

theorem rinv_step_lkOwner {s s' : St} {t : Tid} {ev : Ev} {l : Nat} {b : Bool}
    (h : RInv s) (hpc : s.pc t = .lkOwner l b) (hs : step s t = some (s', ev)) : RInv s' := by
  obtain ⟨h1, h2, h3, h4, h5, h6, h7, h7n, h8, h9, h10, h11, h12, h13⟩ := h
  simp only [step, hpc] at hs
  split at hs <;> simp at hs <;> obtain ⟨rfl, -⟩ := hs <;> rinv_close

theorem rinv_step_lkAdd {s s' : St} {t : Tid} {ev : Ev} {l : Nat} {r : GRet}
    (h : RInv s) (hpc : s.pc t = .lkAdd l r) (hs : step s t = some (s', ev)) : RInv s' := by
  obtain ⟨h1, h2, h3, h4, h5, h6, h7, h7n, h8, h9, h10, h11, h12, h13⟩ := h
  simp only [step, hpc] at hs
  simp at hs; obtain ⟨rfl, -⟩ := hs
  rinv_close

theorem rinv_step_lkCas {s s' : St} {t : Tid} {ev : Ev} {l : Nat} {b : Bool}
    (h : RInv s) (hpc : s.pc t = .lkCas l b) (hs : step s t = some (s', ev)) : RInv s' := by
  obtain ⟨h1, h2, h3, h4, h5, h6, h7, h7n, h8, h9, h10, h11, h12, h13⟩ := h
  simp only [step, hpc] at hs
  split at hs <;> simp at hs <;> obtain ⟨rfl, -⟩ := hs <;> rinv_close

theorem rinv_step_lkSpin {s s' : St} {t : Tid} {ev : Ev} {l : Nat}
    (h : RInv s) (hpc : s.pc t = .lkSpin l) (hs : step s t = some (s', ev)) : RInv s' := by
  obtain ⟨h1, h2, h3, h4, h5, h6, h7, h7n, h8, h9, h10, h11, h12, h13⟩ := h
  simp only [step, hpc] at hs
  simp at hs; obtain ⟨rfl, -⟩ := hs
  rinv_close

theorem rinv_step_lkTake {s s' : St} {t : Tid} {ev : Ev} {l : Nat} {r : GRet}
    (h : RInv s) (hpc : s.pc t = .lkTake l r) (hs : step s t = some (s', ev)) : RInv s' := by
  obtain ⟨h1, h2, h3, h4, h5, h6, h7, h7n, h8, h9, h10, h11, h12, h13⟩ := h
  simp only [step, hpc] at hs
  simp at hs; obtain ⟨rfl, -⟩ := hs
  rinv_close

theorem rinv_step_unLd {s s' : St} {t : Tid} {ev : Ev} {l : Nat} {r : GRet}
    (h : RInv s) (hpc : s.pc t = .unLd l r) (hs : step s t = some (s', ev)) : RInv s' := by
  obtain ⟨h1, h2, h3, h4, h5, h6, h7, h7n, h8, h9, h10, h11, h12, h13⟩ := h
  simp only [step, hpc] at hs
  simp at hs; obtain ⟨rfl, -⟩ := hs
  rinv_close

theorem rinv_step_unDec {s s' : St} {t : Tid} {ev : Ev} {l n : Nat} {r : GRet}
    (h : RInv s) (hpc : s.pc t = .unDec l n r) (hs : step s t = some (s', ev)) : RInv s' := by
  obtain ⟨h1, h2, h3, h4, h5, h6, h7, h7n, h8, h9, h10, h11, h12, h13⟩ := h
  simp only [step, hpc] at hs
  simp at hs; obtain ⟨rfl, -⟩ := hs
  rinv_close

theorem rinv_step_unFree {s s' : St} {t : Tid} {ev : Ev} {l : Nat} {r : GRet}
    (h : RInv s) (hpc : s.pc t = .unFree l r) (hs : step s t = some (s', ev)) : RInv s' := by
  obtain ⟨h1, h2, h3, h4, h5, h6, h7, h7n, h8, h9, h10, h11, h12, h13⟩ := h
  simp only [step, hpc] at hs
  simp at hs; obtain ⟨rfl, -⟩ := hs
  rinv_close

theorem rinv_step_unZero {s s' : St} {t : Tid} {ev : Ev} {l : Nat} {r : GRet}
    (h : RInv s) (hpc : s.pc t = .unZero l r) (hs : step s t = some (s', ev)) : RInv s' := by
  obtain ⟨h1, h2, h3, h4, h5, h6, h7, h7n, h8, h9, h10, h11, h12, h13⟩ := h
  simp only [step, hpc] at hs
  simp at hs; obtain ⟨rfl, -⟩ := hs
  rinv_close

theorem rinv_step {s s' : St} {t : Tid} {ev : Ev} (h : RInv s) (hs : step s t = some (s', ev)) : RInv s' := by
  cases hpc : s.pc t with
  | idle => simp [step, hpc] at hs
  | done r => simp [step, hpc] at hs
  | lkOwner l b => exact rinv_step_lkOwner h hpc hs
  | lkAdd l r => exact rinv_step_lkAdd h hpc hs
  | lkCas l b => exact rinv_step_lkCas h hpc hs
  | lkSpin l => exact rinv_step_lkSpin h hpc hs
  | lkTake l r => exact rinv_step_lkTake h hpc hs
  | unLd l r => exact rinv_step_unLd h hpc hs
  | unDec l n r => exact rinv_step_unDec h hpc hs
  | unFree l r => exact rinv_step_unFree h hpc hs
  | unZero l r => exact rinv_step_unZero h hpc hs

theorem rinv_apply (s : St) (t : Tid) (a : Act) (s' : St) (o : Obs) (h : RInv s)
    (hap : model.apply s t a = some (s', o)) : RInv s' := by
  cases a with
  | invoke op =>
    simp only [Model.apply, model, Option.map_eq_some_iff] at hap
    obtain ⟨s1, hs1, heq⟩ := hap
    simp only [Prod.mk.injEq] at heq
    obtain ⟨rfl, -⟩ := heq
    exact rinv_invoke h hs1
  | step =>
    simp only [Model.apply, model, Option.map_eq_some_iff] at hap
    obtain ⟨⟨s1, e⟩, hs1, heq⟩ := hap
    simp only [Prod.mk.injEq] at heq
    obtain ⟨rfl, -⟩ := heq
    exact rinv_step h hs1
  | ret =>
    simp only [Model.apply, model, Option.map_eq_some_iff] at hap
    obtain ⟨⟨s1, r⟩, hs1, heq⟩ := hap
    simp only [Prod.mk.injEq] at heq
    obtain ⟨rfl, -⟩ := heq
    exact rinv_result h hs1

theorem rinv_reachable (s : St) (h : model.Reachable init s) : RInv s :=
  model.inv_reachable RInv init rinv_init rinv_apply s h

/-! ### Step-level facts quoted by the property theorems -/

theorem apply_cases {s s' : St} {t : Tid} {a : Act} {o : Obs} (hap : model.apply s t a = some (s', o)) :
    (∃ op, a = .invoke op ∧ invoke s t op = some s') ∨
    (∃ ev, a = .step ∧ step s t = some (s', ev) ∧ o = .ev ev) ∨
    (∃ r, a = .ret ∧ result s t = some (s', r)) := by
  cases a with
  | invoke op =>
    simp only [Model.apply, model, Option.map_eq_some_iff] at hap
    obtain ⟨s1, hs1, heq⟩ := hap
    simp only [Prod.mk.injEq] at heq
    obtain ⟨rfl, -⟩ := heq
    exact Or.inl ⟨op, rfl, hs1⟩
  | step =>
    simp only [Model.apply, model, Option.map_eq_some_iff] at hap
    obtain ⟨⟨s1, e⟩, hs1, heq⟩ := hap
    simp only [Prod.mk.injEq] at heq
    obtain ⟨rfl, rfl⟩ := heq
    exact Or.inr (Or.inl ⟨e, rfl, hs1, rfl⟩)
  | ret =>
    simp only [Model.apply, model, Option.map_eq_some_iff] at hap
    obtain ⟨⟨s1, r⟩, hs1, heq⟩ := hap
    simp only [Prod.mk.injEq] at heq
    obtain ⟨rfl, -⟩ := heq
    exact Or.inr (Or.inr ⟨r, rfl, hs1⟩)

/-- Invocation and return touch only the program counter of the acting thread. -/
theorem invoke_frame {s s' : St} {t : Tid} {op : GOp} (hs : invoke s t op = some s') :
    s'.spin = s.spin ∧ s'.owner = s.owner ∧ s'.depth = s.depth ∧ s'.holder = s.holder ∧
    (∀ l, takeOf (s'.pc t) ≠ some l) ∧ ∀ t2, t2 ≠ t → s'.pc t2 = s.pc t2 := by
  unfold invoke at hs
  split at hs
  · simp at hs; subst hs; simp [upd, takeOf]; grind
  · simp at hs; subst hs; simp [upd, takeOf]; grind
  · split at hs
    · simp at hs; subst hs; simp [upd, takeOf]; grind
    · simp at hs
  · split at hs <;> simp at hs <;> subst hs <;> simp [upd, takeOf] <;> grind
  · simp at hs

theorem result_frame {s s' : St} {t : Tid} {r : GRet} (hs : result s t = some (s', r)) :
    s'.spin = s.spin ∧ s'.owner = s.owner ∧ s'.depth = s.depth ∧ s'.holder = s.holder ∧
    s.pc t = .done r ∧ s'.pc t = .idle ∧ ∀ t2, t2 ≠ t → s'.pc t2 = s.pc t2 := by
  unfold result at hs
  split at hs
  next r' hpc =>
    simp at hs; obtain ⟨rfl, rfl⟩ := hs
    simp [upd, hpc]; grind
  next => simp at hs

/-- The lock word of `l` goes from non-zero to zero only by the final store of an `unlock` of the holder,
    executed at depth 1 (the last unlock), and that step ends the holder's critical section. -/
theorem release_step {s s' : St} {t : Tid} {ev : Ev} {l : Nat} (h : RInv s) (hs : step s t = some (s', ev))
    (h0 : s.spin l ≠ 0) (h1 : s'.spin l = 0) :
    (∃ r, s.pc t = .unZero l r) ∧ s.holder l = some t ∧ s.depth t l = 1 ∧ s.owner l = none ∧
    s'.depth t l = 0 ∧ s'.holder l = none ∧ ev = evStSpin l 0 := by
  obtain ⟨i1, i2, i3, i4, i5, i6, i7, i7n, i8, i9, i10, i11, i12, i13⟩ := h
  cases hpc : s.pc t <;> simp only [step, hpc] at hs
  case idle => simp at hs
  case done => simp at hs
  case lkOwner l' b =>
    split at hs <;> simp at hs <;> obtain ⟨rfl, -⟩ := hs <;> exact absurd h1 h0
  case lkAdd l' r =>
    simp at hs; obtain ⟨rfl, -⟩ := hs; dsimp only at h1; grind [upd]
  case lkCas l' b =>
    split at hs <;> simp at hs <;> obtain ⟨rfl, -⟩ := hs <;> dsimp only at h1 <;> grind [upd]
  case lkSpin l' =>
    simp at hs; obtain ⟨rfl, -⟩ := hs; exact absurd h1 h0
  case lkTake l' r =>
    simp at hs; obtain ⟨rfl, -⟩ := hs; exact absurd h1 h0
  case unLd l' r =>
    simp at hs; obtain ⟨rfl, -⟩ := hs; exact absurd h1 h0
  case unDec l' n r =>
    simp at hs; obtain ⟨rfl, -⟩ := hs; dsimp only at h1; grind [upd]
  case unFree l' r =>
    simp at hs; obtain ⟨rfl, -⟩ := hs; exact absurd h1 h0
  case unZero l' r =>
    simp at hs; obtain ⟨rfl, rfl⟩ := hs
    dsimp only at h1 ⊢
    have hl : l' = l := by grind [upd]
    subst hl
    refine ⟨⟨r, rfl⟩, ?_, ?_, ?_, ?_, ?_, rfl⟩ <;> grind [upd, upd2]

/-- While thread `t` holds lock `l` (depth ≥ 1), no action of another thread `t2` changes the lock word, the
    owner field, the holder or `t`'s depth, `t2` does not acquire the lock (its depth stays 0 and it does not
    reach the `take` step), and a `try_lock` CAS of `t2` fails (the operation returns 0). -/
theorem others_excluded_step {s s' : St} {t t2 : Tid} {ev : Ev} {l : Nat} (h : RInv s)
    (hd : s.depth t l ≥ 1) (hne : t2 ≠ t) (hs : step s t2 = some (s', ev)) :
    s'.spin l = s.spin l ∧ s'.owner l = s.owner l ∧ s'.holder l = some t ∧ s'.depth t l = s.depth t l ∧
    s'.depth t2 l = 0 ∧ takeOf (s'.pc t2) ≠ some l ∧
    (s.pc t2 = .lkCas l true → s'.pc t2 = .done [0] ∧ ev = evCasFail l (s.spin l)) ∧
    (s.pc t2 = .lkCas l false → s'.pc t2 = .lkSpin l ∧ ev = evCasFail l (s.spin l)) := by
  obtain ⟨i1, i2, i3, i4, i5, i6, i7, i7n, i8, i9, i10, i11, i12, i13⟩ := h
  have hh : s.holder l = some t := i4 l t hd
  have hd2 : s.depth t2 l = 0 := by grind
  cases hpc : s.pc t2 <;> simp only [step, hpc] at hs
  case idle => simp at hs
  case done => simp at hs
  case lkOwner l' b =>
    split at hs <;> simp at hs <;> obtain ⟨rfl, -⟩ := hs <;> dsimp only <;> grind [upd, upd2, takeOf]
  case lkAdd l' r =>
    simp at hs; obtain ⟨rfl, -⟩ := hs; dsimp only; grind [upd, upd2, takeOf]
  case lkCas l' b =>
    split at hs <;> simp at hs <;> obtain ⟨rfl, rfl⟩ := hs <;> dsimp only <;> grind [upd, upd2, takeOf]
  case lkSpin l' =>
    simp at hs; obtain ⟨rfl, -⟩ := hs; dsimp only; grind [upd, upd2, takeOf]
  case lkTake l' r =>
    simp at hs; obtain ⟨rfl, -⟩ := hs; dsimp only; grind [upd, upd2, takeOf]
  case unLd l' r =>
    simp at hs; obtain ⟨rfl, -⟩ := hs; dsimp only; grind [upd, upd2, takeOf]
  case unDec l' n r =>
    simp at hs; obtain ⟨rfl, -⟩ := hs; dsimp only; grind [upd, upd2, takeOf]
  case unFree l' r =>
    simp at hs; obtain ⟨rfl, -⟩ := hs; dsimp only; grind [upd, upd2, takeOf]
  case unZero l' r =>
    simp at hs; obtain ⟨rfl, -⟩ := hs; dsimp only; grind [upd, upd2, takeOf]

end CdsVerif.Algo.ReentrantSpin

/-
  Structural invariant of the OptimisticQueue model and the refinement of the abstract queue.

  * `Chain s.next (some s.tail) (R ++ G)` : following `m_pNext` from `m_pTail` visits first the nodes `R` — the queue:
    `R` starts with `tail` and ENDS with `head` (the current dummy) — then the nodes `G` that have already been
    dequeued (old dummies), and then null.  The list is duplicate-free and consists of published nodes.
  * `absQueue s` : the values of the nodes of `R` without `head`, in reverse (oldest first).
  * The `m_pPrev` links are only HINTS: the invariant says nothing about them except that they point to published
    nodes (`prevw`).  Safety never relies on them: a dequeuer swings `head` from `h` to `f = h->m_pPrev` only after
    it has seen `f->m_pNext == h` itself (`dcas`), and there is exactly one published node whose `m_pNext` is `h`.
  * Linearization points.  `enqueue`: the successful CAS on `m_pTail`.  Non-empty `dequeue`: the successful CAS on
    `m_pHead`.  Empty `dequeue`: the validating load of `m_pTail` that returns the node `h` read from `m_pHead`
    before — at that instant `h` is still `head` (`tail` is never an old dummy), so the queue is empty; the result
    becomes definitive only at the later re-validation `pHead == m_pHead.load()`, which may fail: `lpRet`
    distinguishes the TENTATIVE linearization (program points `deqPv1`, `deqPv2`, `deqChk` with `t = h`) from the
    definitive one (`postRet`), as for the Michael–Scott queue.
-/
import CdsVerif.Algo.Optimistic.Model
import CdsVerif.Algo.QueueLin.Chain
import CdsVerif.Algo.QueueLin.History
namespace CdsVerif.Algo.Optimistic
open CdsVerif.Machine CdsVerif.Spec CdsVerif.Lin CdsVerif.Algo.QueueLin

/-! ### The segment of the `next` chain from `tail` to `head` -/

/-- Follow `nx` from `a` up to and including `stop` (fuel: number of nodes). -/
def segTo (nx : Nat → Option Nat) (stop : Nat) : Nat → Nat → List Nat
  | 0, a => [a]
  | f + 1, a => if a = stop then [a] else match nx a with
    | some b => a :: segTo nx stop f b
    | none => [a]

theorem segTo_eq {nx : Nat → Option Nat} {stop : Nat} : ∀ (R G : List Nat) (a fuel : Nat),
    Chain nx (some a) (R ++ G) → R.getLast? = some stop → stop ∉ R.dropLast → R.length ≤ fuel + 1 →
    segTo nx stop fuel a = R
  | [], _, _, _, _, h, _, _ => by simp at h
  | [x], G, a, fuel, hc, hl, _, _ => by
    simp only [List.cons_append, List.nil_append, Chain, Option.some.injEq] at hc
    simp at hl
    obtain ⟨rfl, -⟩ := hc
    subst hl
    cases fuel <;> simp [segTo]
  | x :: y :: r, G, a, fuel, hc, hl, hn, hf => by
    simp only [List.cons_append, Chain, Option.some.injEq] at hc
    obtain ⟨rfl, hxy, hc2⟩ := hc
    have hne : a ≠ stop := by
      intro e; apply hn; simp [List.dropLast, e]
    cases fuel with
    | zero => simp at hf
    | succ f =>
      simp only [segTo, hne, if_false, hxy]
      have := segTo_eq (y :: r) G y f (by simp only [List.cons_append, Chain]; exact ⟨trivial, hc2⟩)
        (by simpa [List.getLast?_cons_cons] using hl)
        (by intro hm; apply hn; simp only [List.dropLast_cons_cons]; exact List.mem_cons_of_mem _ hm)
        (by simp at hf ⊢; omega)
      rw [this]

/-- The nodes of the queue: `tail` first, `head` (the current dummy) last. -/
def absNodes (s : St) : List Nat := segTo s.next s.head s.cnt s.tail
/-- The abstract queue: the values of the nodes between `head` (excluded) and `tail` (included), oldest first. -/
def absQueue (s : St) : List Int := (absNodes s).dropLast.reverse.map s.val

/-! ### The structural invariant -/

/-- The node an enqueuer still owns privately (before its successful CAS on `m_pTail`). -/
def enqNode : PC → Option Nat
  | .enqLd1 n => some n
  | .enqLd2 n _ => some n
  | .enqSetNext n _ => some n
  | .enqCas n _ => some n
  | _ => none

/-- The head candidate `h` held by a dequeuer. -/
def deqH : PC → Option Nat
  | .deqLdT1 h => some h
  | .deqLdT2 h _ => some h
  | .deqPv1 h _ => some h
  | .deqPv2 h _ _ => some h
  | .deqChk h _ _ => some h
  | .deqFpNext h _ _ => some h
  | .deqCas h _ => some h
  | .fixNx1 h _ => some h
  | .fixNx2 h _ _ => some h
  | .fixChk h _ _ => some h
  | .fixSt h _ _ => some h
  | _ => none

/-- Node values held by a thread that it will dereference or store: they are published nodes. -/
def wnodes : PC → List Nat
  | .enqSetPrev n _ => [n]
  | .deqPv1 _ a => [a]
  | .deqPv2 _ a none => [a]
  | .deqPv2 _ a (some f) => [a, f]
  | .deqChk _ a none => [a]
  | .deqChk _ a (some f) => [a, f]
  | .deqFpNext _ a f => [a, f]
  | .deqCas _ f => [f]
  | .fixNx1 _ c => [c]
  | .fixNx2 _ c _ => [c]
  | .fixChk _ c _ => [c]
  | .fixSt _ c nx => [c, nx]
  | _ => []

/-- A link `a.next = v` that the thread has observed (or written into its own node) and relies on. -/
def linkOf : PC → Option (Nat × Option Nat)
  | .enqCas n a => some (n, some a)
  | .deqCas h f => some (f, some h)
  | .fixChk _ c v => some (c, v)
  | .fixSt _ c nx => some (c, some nx)
  | _ => none

/-- `(h, x)`: while `h` is still `head`, the node `x` (read from `m_pTail` after `h` was read from `m_pHead`, or reached
    by `fix_list` from there) is in the queue. -/
def segNode : PC → Option (Nat × Nat)
  | .deqPv1 h a => some (h, a)
  | .deqPv2 h a _ => some (h, a)
  | .deqChk h a _ => some (h, a)
  | .deqFpNext h a _ => some (h, a)
  | .fixNx1 h c => some (h, c)
  | .fixNx2 h c _ => some (h, c)
  | .fixChk h c _ => some (h, c)
  | .fixSt h c _ => some (h, c)
  | _ => none

/-- `(h, c)`: a node `c` that the thread knows to differ from `h` (the current node of `fix_list`: the loop
    condition; the tail value after the test `pTail != pHead`). -/
def fixCur : PC → Option (Nat × Nat)
  | .deqFpNext h a _ => some (h, a)
  | .fixNx1 h c => some (h, c)
  | .fixNx2 h c _ => some (h, c)
  | .fixChk h c _ => some (h, c)
  | .fixSt h c _ => some (h, c)
  | _ => none

def Pub (s : St) (a : Nat) : Prop := a < s.cnt ∧ ∀ t, enqNode (s.pc t) ≠ some a

structure SInvL (s : St) (R G : List Nat) : Prop where
  chain : Chain s.next (some s.tail) (R ++ G)
  nodup : (R ++ G).Nodup
  rlast : R.getLast? = some s.head
  pub : ∀ a, a ∈ R ++ G → Pub s a
  priv : ∀ t n, enqNode (s.pc t) = some n → n < s.cnt
  own : ∀ t1 t2 n, enqNode (s.pc t1) = some n → enqNode (s.pc t2) = some n → t1 = t2
  prevw : ∀ a x, s.prev a = some x → x ∈ R ++ G
  link : ∀ t a v, linkOf (s.pc t) = some (a, v) → s.next a = v
  deqh : ∀ t h, deqH (s.pc t) = some h → h ∈ R ++ G ∧ (h ∈ R → s.head = h)
  inw : ∀ t a, a ∈ wnodes (s.pc t) → a ∈ R ++ G
  seg : ∀ t h x, segNode (s.pc t) = some (h, x) → s.head = h → x ∈ R
  fixne : ∀ t h c, fixCur (s.pc t) = some (h, c) → c ≠ h

def SInv (s : St) : Prop := ∃ R G, SInvL s R G

/-- `R` is not empty and starts with `tail`. -/
theorem SInvL.tail_cons {s : St} {R G : List Nat} (h : SInvL s R G) : ∃ r, R = s.tail :: r := by
  have hc := h.chain
  have hl := h.rlast
  cases R with
  | nil => simp at hl
  | cons a r => simp only [List.cons_append, Chain, Option.some.injEq] at hc; exact ⟨r, by rw [hc.1]⟩

theorem getLast?_mem {l : List Nat} {a : Nat} (h : l.getLast? = some a) : a ∈ l :=
  List.mem_of_getLast? h

theorem SInvL.head_mem {s : St} {R G : List Nat} (h : SInvL s R G) : s.head ∈ R := getLast?_mem h.rlast

theorem SInvL.absNodes_eq {s : St} {R G : List Nat} (h : SInvL s R G) : absNodes s = R := by
  have hlen : (R ++ G).length ≤ s.cnt :=
    length_le_of_nodup_lt h.nodup (fun a ha => (h.pub a ha).1)
  have hnd : R.Nodup := (List.nodup_append.mp h.nodup).1
  apply segTo_eq R G _ _ h.chain h.rlast
  · intro hm
    obtain ⟨R0, rfl⟩ : ∃ R0, R = R0 ++ [s.head] := by
      have := h.rlast
      rcases List.eq_nil_or_concat R with e | ⟨R0, b, e⟩
      · simp [e] at this
      · subst e; simp at this; subst this; exact ⟨R0, by simp⟩
    simp at hm
    have := List.nodup_append.mp hnd
    exact this.2.2 _ hm _ (by simp) rfl
  · simp at hlen; omega

theorem SInvL.absQueue_eq {s : St} {R G : List Nat} (h : SInvL s R G) :
    absQueue s = R.dropLast.reverse.map s.val := by
  simp [absQueue, h.absNodes_eq]

theorem sinv_init : SInvL init [dummy] [] := by
  constructor <;> simp [init, Chain, enqNode, deqH, wnodes, linkOf, segNode, fixCur, Pub, dummy]

/-! ### List facts -/

/-- In a chain, the node after `f` is `f`'s `next`. -/
theorem Chain.after {nx : Nat → Option Nat} {f h : Nat} : ∀ {p : Option Nat} {X Y : List Nat},
    Chain nx p (X ++ f :: Y) → nx f = some h → ∃ Y', Y = h :: Y'
  | _, [], Y, hc, hf => by
    simp only [List.nil_append, Chain] at hc
    rw [hf] at hc
    cases Y with
    | nil => simp [Chain] at hc
    | cons y Y' => simp only [Chain, Option.some.injEq] at hc; exact ⟨Y', by rw [hc.2.1]⟩
  | _, x :: X, Y, hc, hf => by
    simp only [List.cons_append, Chain] at hc
    exact Chain.after hc.2 hf

theorem append_cons_unique {h : Nat} : ∀ {X1 X2 Y1 Y2 : List Nat}, h ∉ X1 → h ∉ X2 →
    X1 ++ h :: Y1 = X2 ++ h :: Y2 → X1 = X2 ∧ Y1 = Y2
  | [], [], _, _, _, _, e => by simpa using e
  | [], x :: X2, _, _, _, h2, e => by simp at e; exact absurd (by simp [e.1]) h2
  | x :: X1, [], _, _, h1, _, e => by simp at e; exact absurd (by simp [e.1]) h1
  | x :: X1, y :: X2, Y1, Y2, h1, h2, e => by
    simp only [List.cons_append, List.cons.injEq] at e
    obtain ⟨rfl, e2⟩ := e
    have := append_cons_unique (fun hm => h1 (List.mem_cons_of_mem _ hm)) (fun hm => h2 (List.mem_cons_of_mem _ hm)) e2
    exact ⟨by rw [this.1], this.2⟩

/-- The unique published node whose `next` is `head` is the second-to-last node of `R`. -/
theorem SInvL.first_node {s : St} {R G : List Nat} {f : Nat} (h : SInvL s R G)
    (hf : f ∈ R ++ G) (hn : s.next f = some s.head) : ∃ R0, R = R0 ++ [f, s.head] := by
  obtain ⟨X, Y, hXY⟩ := List.append_of_mem hf
  have hc := h.chain
  rw [hXY] at hc
  obtain ⟨Y', rfl⟩ := Chain.after hc hn
  obtain ⟨R0, hR0⟩ : ∃ R0, R = R0 ++ [s.head] := by
    have := h.rlast
    rcases List.eq_nil_or_concat R with e | ⟨R0, b, e⟩
    · simp [e] at this
    · subst e; simp at this; subst this; exact ⟨R0, by simp⟩
  have hnd := h.nodup
  have e1 : R0 ++ s.head :: G = (X ++ [f]) ++ s.head :: Y' := by
    rw [hR0] at hXY; simpa using hXY
  have hnd1 : (R0 ++ s.head :: G).Nodup := by rw [hR0] at hnd; simpa using hnd
  have hn1 : s.head ∉ R0 := by
    intro hm
    have := (List.nodup_append.mp hnd1).2.2 _ hm s.head (by simp)
    exact this rfl
  have hn2 : s.head ∉ X ++ [f] := by
    intro hm
    rw [e1] at hnd1
    have := (List.nodup_append.mp hnd1).2.2 _ hm s.head (by simp)
    exact this rfl
  obtain ⟨e2, -⟩ := append_cons_unique hn1 hn2 e1
  exact ⟨X, by rw [hR0, e2]; simp⟩

/-- `tail = head` means that the queue is empty. -/
theorem SInvL.tail_eq_head {s : St} {R G : List Nat} (h : SInvL s R G) (e : s.tail = s.head) : R = [s.head] := by
  obtain ⟨r, hr⟩ := h.tail_cons
  have hl := h.rlast
  have hnd : R.Nodup := (List.nodup_append.mp h.nodup).1
  rw [hr] at hl hnd
  cases r with
  | nil => rw [hr, e]
  | cons y r' =>
    exfalso
    rw [List.getLast?_cons_cons] at hl
    have hm := getLast?_mem hl
    rw [← e] at hm
    exact (List.nodup_cons.mp hnd).1 hm

/-- The successor of a chain node is on the chain. -/
theorem SInvL.next_mem {s : St} {R G : List Nat} {c x : Nat} (h : SInvL s R G)
    (hc : c ∈ R ++ G) (hx : s.next c = some x) : x ∈ R ++ G :=
  List.mem_of_mem_tail (Chain.succ_mem h.chain hc hx)

/-- A node of the segment other than its last node has its successor in the segment. -/
theorem seg_succ {nx : Nat → Option Nat} {hd c : Nat} : ∀ {p : Option Nat} {R G : List Nat},
    Chain nx p (R ++ G) → R.getLast? = some hd → c ∈ R → c ≠ hd → ∃ x, nx c = some x ∧ x ∈ R
  | _, [], _, _, _, hc, _ => by simp at hc
  | _, [a], _, _, hl, hc, hne => by simp at hl hc; exact absurd (hc.trans hl) hne
  | _, a :: b :: r, G, hch, hl, hc, hne => by
    simp only [List.cons_append, Chain] at hch
    obtain ⟨-, hab, hch2⟩ := hch
    by_cases e : c = a
    · subst e; exact ⟨b, hab, by simp⟩
    · have hc2 : c ∈ b :: r := by simpa [e] using hc
      have hch3 : Chain nx (some b) ((b :: r) ++ G) := by
        simp only [List.cons_append, Chain]; exact ⟨trivial, hch2⟩
      obtain ⟨x, h1, h2⟩ := seg_succ hch3 (by simpa [List.getLast?_cons_cons] using hl) hc2 hne
      exact ⟨x, h1, List.mem_cons_of_mem _ h2⟩

/-! ### Linearization-point bookkeeping on program counters -/

def postRet : PC → Option GRet
  | .enqSetPrev _ _ => some [1]
  | .done r => some r
  | _ => none

def lpRet : PC → Option GRet
  | .enqSetPrev _ _ => some [1]
  | .deqPv1 h a => if a = h then some [0] else none
  | .deqPv2 h a _ => if a = h then some [0] else none
  | .deqChk h a _ => if a = h then some [0] else none
  | .done r => some r
  | _ => none

def opOf (val : Nat → Int) : PC → Option GOp
  | .enqLd1 n => some ⟨"enq", [val n]⟩
  | .enqLd2 n _ => some ⟨"enq", [val n]⟩
  | .enqSetNext n _ => some ⟨"enq", [val n]⟩
  | .enqCas n _ => some ⟨"enq", [val n]⟩
  | .deqLdH1 => some ⟨"deq", []⟩
  | .deqLdH2 _ => some ⟨"deq", []⟩
  | .deqLdT1 _ => some ⟨"deq", []⟩
  | .deqLdT2 _ _ => some ⟨"deq", []⟩
  | .deqPv1 _ _ => some ⟨"deq", []⟩
  | .deqPv2 _ _ _ => some ⟨"deq", []⟩
  | .deqChk _ _ _ => some ⟨"deq", []⟩
  | .deqFpNext _ _ _ => some ⟨"deq", []⟩
  | .deqCas _ _ => some ⟨"deq", []⟩
  | .fixNx1 _ _ => some ⟨"deq", []⟩
  | .fixNx2 _ _ _ => some ⟨"deq", []⟩
  | .fixChk _ _ _ => some ⟨"deq", []⟩
  | .fixSt _ _ _ => some ⟨"deq", []⟩
  | .crash => some ⟨"deq", []⟩
  | _ => none

/-- The abstract queue of a segment `R` (tail first, head last). -/
def qOf (val : Nat → Int) (R : List Nat) : List Int := R.dropLast.reverse.map val

structure StepEff (s : St) (t : Tid) (s' : St) (R R' : List Nat) : Prop where
  frame : ∀ t2, t2 ≠ t → s'.pc t2 = s.pc t2
  val : s'.val = s.val
  cnt : s'.cnt = s.cnt
  lp : lpRet (s.pc t) = none → ∀ r, lpRet (s'.pc t) = some r →
        ∃ op, opOf s.val (s.pc t) = some op ∧ fifo.next (qOf s.val R) op r = some (qOf s.val R')
  nolp : (lpRet (s.pc t) ≠ none ∨ lpRet (s'.pc t) = none) → R' = R
  keep : ∀ r, lpRet (s.pc t) = some r → lpRet (s'.pc t) = some r ∨ (r = [0] ∧ lpRet (s'.pc t) = none)
  op : postRet (s'.pc t) = none → opOf s'.val (s'.pc t) = opOf s.val (s.pc t)
  emp : lpRet (s.pc t) = none → lpRet (s'.pc t) = some [0] →
        ∃ h, s.pc t = .deqLdT2 h h ∧ s.tail = h ∧ s.head = h ∧ R = [h]
  nocrash : s'.pc t ≠ .crash

theorem pub_mk (hd tl : Nat) (nx pv : Nat → Option Nat) (vl : Nat → Int) (cnt : Nat) (pc : Tid → PC) (t : Tid) (pc' : PC)
    (a : Nat) :
    Pub ⟨hd, tl, nx, pv, vl, cnt, upd pc t pc'⟩ a ↔ (a < cnt ∧ enqNode pc' ≠ some a ∧ ∀ t2, t2 ≠ t → enqNode (pc t2) ≠ some a) := by
  simp only [Pub, upd]
  constructor
  · intro ⟨h1, h2⟩
    refine ⟨h1, ?_, ?_⟩
    · have := h2 t; simpa using this
    · intro t2 ht; have := h2 t2; simpa [ht] using this
  · intro ⟨h1, h2, h3⟩
    refine ⟨h1, fun t2 => ?_⟩
    by_cases ht : t2 = t
    · simp [ht, h2]
    · simp [ht, h3 t2 ht]

macro "sinv_close" : tactic =>
  `(tactic| (constructor <;> intros <;> (try dsimp only at *) <;>
      grind [upd, Pub, pub_mk, enqNode, deqH, wnodes, linkOf, segNode, fixCur, Chain, Chain.upd]))
macro "eff_close" : tactic =>
  `(tactic| (constructor <;> intros <;> (try dsimp only at *) <;>
      grind [upd, postRet, lpRet, opOf, fifo_enq, fifo_deq_some, fifo_deq_none]))

end CdsVerif.Algo.Optimistic

/-
  Atomic-step model of `cds::intrusive::LazyList<HP>` (cds/intrusive/impl/lazy_list.h): the lazy list of Heller,
  Herlihy, Luchangco, Moir, Scherer and Shavit in the libcds variant — sorted list between two sentinels `m_Head` and
  `m_Tail`, one spin lock per node, logical deletion by the mark bit of `m_pNext`, optimistic unlocked traversal,
  validation under the two locks.

    LazyList(): m_Head.m_pNext = &m_Tail

    search( pHead, key, pos ):
        pCur = pPrev = pHead
        while ( pCur != &m_Tail ) {
            if ( pCur != pHead && cmp( *pCur, key ) >= 0 ) break;
            pPrev = pCur
            pCur = pos.guards.protect( guard_current_item, pPrev->m_pNext )    -- gc::GuardArray::protect:
                                                                               --   do { hp := ( pRet = load ) }     sLd1
                                                                               --   while ( pRet != load )           sLd2
            if ( pCur.bits()) pPrev = pCur = pHead;       -- a logically deleted node: START AGAIN FROM THE HEAD
        }
        pos = ( pPrev, pCur )

    position::lock():   pPred->m_Lock.lock(); pCur->m_Lock.lock()              -- lkP / spP, lkC / spC
    position::unlock(): pCur->m_Lock.unlock(); pPred->m_Lock.unlock()          -- unlC, unlP
        cds::sync::spin:  lock: while ( m_spin.exchange( true )) { while ( m_spin.load()) backoff(); }
                          unlock: m_spin.store( false )

    validate( pPred, pCur ):  !pPred->is_marked()                              -- v1   ( m_pNext.load().bits() )
                           && !pCur->is_marked()                               -- v2
                           && pPred->m_pNext.load() == pCur                    -- v3

    insert_at( val ):   while ( true ) { search; { lock pos; if ( validate ) {
                            if ( pCur != &m_Tail && cmp( *pCur, val ) == 0 ) return false;
                            link_node:  pNode->m_pNext.store( pCur )           -- iSt
                                        pPred->m_pNext.store( pNode )          -- iLk    (linearization point)
                            break; } } }   return true
    update_at( val, func, bAllowInsert ):  the same; key found: func( false, *pCur, val ); return ( true, false );
                            not found: bAllowInsert ? link_node, ( true, true ) : ( false, false )
    erase_at( key, f ): while ( true ) { search; { lock pos; if ( validate ) {
                            if ( pCur != &m_Tail && cmp( *pCur, key ) == 0 ) {
                                unlink_node:  pNext = pCur->m_pNext.load().ptr()            -- eLd
                                              pCur->m_pNext.store(( pHead, 1 ))            -- eMk   (linearization point)
                                              pPred->m_pNext.store( pNext )                -- eUn
                                f( *pCur ); nResult = 1 } else nResult = -1 } }
                            if ( nResult ) return nResult > 0 }
    extract_at( key ):  erase_at with an empty functor; the node is handed back through the guard
    find_at( key, f ):  search; if ( pCur != &m_Tail ) { lock pCur->m_Lock                  -- fLk / fSp
                            if ( !pCur->is_marked() && cmp( *pCur, key ) == 0 ) {           -- fChk
                                f( *pCur, key ); return true } }                           -- fUnl (unlock)
                        return false
    find_at( key ):     search; return pCur != &m_Tail && !pCur->is_marked()               -- cChk     (contains)
                                       && cmp( *pCur, key ) == 0

  THE LIBCDS VARIANT.  `unlink_node` does not keep the link of the deleted node: the marking store writes
  `( pHead, 1 )`, a MARKED BACK-LINK TO THE HEAD, and `search` restarts from the head when it reads a marked pointer.
  Consequences modelled here exactly: (1) between the marking store and the unlink store the words in memory form a
  cycle head → … → pPred → pCur → head through a marked pointer, and only the eraser (in its registers: `pNext`)
  knows the rest of the list; (2) `search` (hence `contains` and `find`) is not wait-free: it restarts while it runs
  into a marked node that its eraser has not unlinked yet.
  The ghost field `succ` is the logical successor: it is written together with every store to a `m_pNext` word except
  the marking store, so it keeps the link a marked node had when it was deleted (what the classic algorithm keeps in
  memory).  No transition reads it.

  Memory model of the model: garbage-collected heap.  A node is a natural number: 0 is `m_Head`, 1 is `m_Tail`, client
  nodes are fresh (`cnt`, starting at 2) and never reused: this is what the hazard pointers published by `protect`
  guarantee in the real code (properties C01/C02), and it is an ASSUMPTION here.  Hazard-pointer stores, `retire_node`,
  the item counter, the statistics and the back-off are not modelled; interleavings are sequentially consistent.
  Keys are immutable; the payload of a linked node is written only by `update` of the key-value forms (`repl`), inside
  the critical section of the node; the functor calls are part of the preceding atomic step of their critical section
  (nothing of another thread that touches the payload can lie in between: every reader and writer holds the node's lock).

  One `step` = one atomic operation on shared memory.  Event rendering (the `A` lines of the harness trace), with
  <node> = `h` | `t` | `n<i>` (the i-th item brought by an `insert` / `update`, in invocation order) and
  <val> = `null` | <node> | <node>`|1`:
      ld   <node> <val>              st   <node> <val>
      xchg <node>.lock <0|1> 1       ld   <node>.lock <0|1>       st <node>.lock 0
-/
import CdsVerif.Base.Machine
namespace CdsVerif.Algo.Lazy
open CdsVerif.Machine CdsVerif.Spec

/-- The operation a thread is executing. -/
inductive OpK
  | ins (n : Nat) (k v : Int)                                -- insert( node n ) carrying ( k, v )
  | upd (n : Nat) (k v allow : Int) (repl : Bool)            -- update( node n, func, allow ≠ 0 ); `repl`: func copies the payload
  | era (k : Int)                                            -- erase( k, f )
  | ext (k : Int)                                            -- extract( k )
  | fnd (k : Int)                                            -- find( k, f )
  | con (k : Int)                                            -- contains( k )
deriving DecidableEq, Repr

inductive PC
  | idle
  | sLd1 (o : OpK) (p : Nat)                                 -- next: first load of protect( pPrev->m_pNext ), pPrev = p
  | sLd2 (o : OpK) (p : Nat) (x : Option Nat) (mk : Bool)    -- next: validating load of protect( pPrev->m_pNext )
  | lkP (o : OpK) (p c : Nat)                                -- next: pPred->m_Lock: exchange( true )
  | spP (o : OpK) (p c : Nat)                                -- next: pPred->m_Lock: load in the wait loop
  | lkC (o : OpK) (p c : Nat)                                -- next: pCur->m_Lock: exchange( true )
  | spC (o : OpK) (p c : Nat)                                -- next: pCur->m_Lock: load in the wait loop
  | v1 (o : OpK) (p c : Nat)                                 -- next: pPred->is_marked()
  | v2 (o : OpK) (p c : Nat)                                 -- next: pCur->is_marked()
  | v3 (o : OpK) (p c : Nat)                                 -- next: pPred->m_pNext.load() == pCur
  | iSt (o : OpK) (n p c : Nat)                              -- next: pNode->m_pNext.store( pCur )
  | iLk (o : OpK) (n p c : Nat)                              -- next: pPred->m_pNext.store( pNode )
  | eLd (o : OpK) (p c : Nat)                                -- next: pNext = pCur->m_pNext.load()
  | eMk (o : OpK) (p c : Nat) (nx : Option Nat)              -- next: pCur->m_pNext.store(( pHead, 1 ))
  | eUn (o : OpK) (p c : Nat) (nx : Option Nat) (r : GRet)   -- next: pPred->m_pNext.store( pNext )
  | unlC (o : OpK) (p c : Nat) (r : Option GRet)             -- next: pCur->m_Lock.unlock(); `r = none`: validation failed
  | unlP (o : OpK) (p : Nat) (r : Option GRet)               -- next: pPred->m_Lock.unlock(); then return r / search again
  | fLk (k : Int) (c : Nat)                                  -- find: next: pCur->m_Lock: exchange( true )
  | fSp (k : Int) (c : Nat)                                  -- find: next: pCur->m_Lock: load in the wait loop
  | fChk (k : Int) (c : Nat)                                 -- find: next: pCur->is_marked()
  | fUnl (k : Int) (c : Nat) (r : GRet)                      -- find: next: pCur->m_Lock.unlock(); then return r
  | cChk (k : Int) (c : Nat)                                 -- contains: next: pCur->is_marked()
  | done (r : GRet)
deriving DecidableEq, Repr

structure St where
  next : Nat → Option Nat        -- pointer part of every m_pNext
  mark : Nat → Bool              -- mark bit of every m_pNext
  lock : Nat → Bool              -- m_Lock.m_spin of every node
  key : Nat → Int                -- key of every node
  val : Nat → Int                -- payload of every node
  cnt : Nat                      -- next fresh node
  pc : Tid → PC
  succ : Nat → Option Nat        -- GHOST: logical successor (never read by a transition)

/-- `m_Head` is node 0, `m_Tail` is node 1. -/
def init : St :=
  ⟨fun a => if a = 0 then some 1 else none, fun _ => false, fun _ => false, fun _ => 0, fun _ => 0, 2, fun _ => .idle,
   fun a => if a = 0 then some 1 else none⟩

/-! ### Event rendering (the only place where events are built) -/

def loc (a : Nat) : String := if a = 0 then "h" else if a = 1 then "t" else s!"n{a - 1}"
def lockLoc (a : Nat) : String := loc a ++ ".lock"
def ptr : Option Nat → String
  | none => "null"
  | some a => loc a
/-- A marked pointer as the harness prints it. -/
def mptr (p : Option Nat) (m : Bool) : String := if m then ptr p ++ "|1" else ptr p
def b2s (b : Bool) : String := if b then "1" else "0"

def evLd (a : Nat) (p : Option Nat) (m : Bool) : Ev := ⟨"ld", loc a, mptr p m, ""⟩
def evSt (a : Nat) (p : Option Nat) (m : Bool) : Ev := ⟨"st", loc a, mptr p m, ""⟩
def evXchg (a : Nat) (old : Bool) : Ev := ⟨"xchg", lockLoc a, b2s old, "1"⟩
def evLkLd (a : Nat) (v : Bool) : Ev := ⟨"ld", lockLoc a, b2s v, ""⟩
def evUnl (a : Nat) : Ev := ⟨"st", lockLoc a, "0", ""⟩

/-! ### Transitions -/

/-- The key the operation is about. -/
def okey : OpK → Int
  | .ins _ k _ => k
  | .upd _ k _ _ _ => k
  | .era k => k
  | .ext k => k
  | .fnd k => k
  | .con k => k

/-- `search` has returned `pos = ( p, c )`. -/
def afterSearch (o : OpK) (p c : Nat) : PC :=
  match o with
  | .fnd k => if c = 1 then .done [0] else .fLk k c
  | .con k => if c = 1 then .done [0] else .cChk k c
  | .ins _ _ _ => .lkP o p c
  | .upd _ _ _ _ _ => .lkP o p c
  | .era _ => .lkP o p c
  | .ext _ => .lkP o p c

/-- `protect( pPrev->m_pNext )` has returned `( x, mk )`: the rest of the loop body and the loop test of `search`. -/
def afterLoad (key : Nat → Int) (o : OpK) (p : Nat) (x : Option Nat) (mk : Bool) : PC :=
  match x with
  | none => .sLd1 o p                            -- assert( pCur.ptr() != nullptr ): does not happen
  | some c =>
    if mk then .sLd1 o 0                         -- marked: pPrev = pCur = pHead
    else if c = 1 then afterSearch o p 1
    else if c = 0 then .sLd1 o 0                 -- ( pCur == pHead: no comparison; does not happen )
    else if okey o ≤ key c then afterSearch o p c
    else .sLd1 o c

/-- `pCur != &m_Tail && cmp( *pCur, key ) == 0`. -/
def isEq (key : Nat → Int) (o : OpK) (c : Nat) : Bool := decide (c ≠ 1 ∧ key c = okey o)

/-- What the operation does inside the critical section once `validate` has succeeded. -/
def action (key : Nat → Int) (o : OpK) (p c : Nat) : PC :=
  match o with
  | .ins n _ _ => if isEq key o c then .unlC o p c (some [0]) else .iSt o n p c
  | .upd n _ _ allow _ =>
    if isEq key o c then .unlC o p c (some [1, 0])
    else if allow ≠ 0 then .iSt o n p c else .unlC o p c (some [0, 0])
  | .era _ => if isEq key o c then .eLd o p c else .unlC o p c (some [0])
  | .ext _ => if isEq key o c then .eLd o p c else .unlC o p c (some [0])
  | .fnd _ => .unlC o p c none
  | .con _ => .unlC o p c none

/-- The functor of `update` on an existing item: the key-value forms copy the payload. -/
def actionVal (key val : Nat → Int) (o : OpK) (c : Nat) : Nat → Int :=
  match o with
  | .upd _ _ v _ repl => if repl = true ∧ isEq key o c = true then upd val c v else val
  | .ins _ _ _ => val
  | .era _ => val
  | .ext _ => val
  | .fnd _ => val
  | .con _ => val

/-- Result of an operation that has linked its node. -/
def linkRet : OpK → GRet
  | .upd _ _ _ _ _ => [1, 1]
  | .ins _ _ _ => [1]
  | .era _ => [1]
  | .ext _ => [1]
  | .fnd _ => [1]
  | .con _ => [1]

/-- `insert [k, v]`, `update [k, v, allow]` (payload replaced), `upsert_keep [k, v, allow]` (intrusive form: the old
    item stays): the client supplies a fresh node carrying `(k, v)` (its `m_pNext` is null, its lock free);
    `erase [k]`, `extract [k]`, `find [k]`, `contains [k]`. -/
def invoke (s : St) (t : Tid) (op : GOp) : Option St :=
  match s.pc t, op.name, op.args with
  | .idle, "insert", [k, v] =>
    some { s with key := upd s.key s.cnt k, val := upd s.val s.cnt v, cnt := s.cnt + 1,
                  pc := upd s.pc t (.sLd1 (.ins s.cnt k v) 0) }
  | .idle, "update", [k, v, allow] =>
    some { s with key := upd s.key s.cnt k, val := upd s.val s.cnt v, cnt := s.cnt + 1,
                  pc := upd s.pc t (.sLd1 (.upd s.cnt k v allow true) 0) }
  | .idle, "upsert_keep", [k, v, allow] =>
    some { s with key := upd s.key s.cnt k, val := upd s.val s.cnt v, cnt := s.cnt + 1,
                  pc := upd s.pc t (.sLd1 (.upd s.cnt k v allow false) 0) }
  | .idle, "erase", [k] => some { s with pc := upd s.pc t (.sLd1 (.era k) 0) }
  | .idle, "extract", [k] => some { s with pc := upd s.pc t (.sLd1 (.ext k) 0) }
  | .idle, "find", [k] => some { s with pc := upd s.pc t (.sLd1 (.fnd k) 0) }
  | .idle, "contains", [k] => some { s with pc := upd s.pc t (.sLd1 (.con k) 0) }
  | _, _, _ => none

def step (s : St) (t : Tid) : Option (St × Ev) :=
  match s.pc t with
  | .sLd1 o p =>
    some ({ s with pc := upd s.pc t (.sLd2 o p (s.next p) (s.mark p)) }, evLd p (s.next p) (s.mark p))
  | .sLd2 o p x mk =>
    if s.next p = x ∧ s.mark p = mk then
      some ({ s with pc := upd s.pc t (afterLoad s.key o p x mk) }, evLd p (s.next p) (s.mark p))
    else
      some ({ s with pc := upd s.pc t (.sLd1 o p) }, evLd p (s.next p) (s.mark p))
  | .lkP o p c =>
    if s.lock p then some ({ s with pc := upd s.pc t (.spP o p c) }, evXchg p true)
    else some ({ s with lock := upd s.lock p true, pc := upd s.pc t (.lkC o p c) }, evXchg p false)
  | .spP o p c =>
    if s.lock p then some ({ s with pc := upd s.pc t (.spP o p c) }, evLkLd p true)
    else some ({ s with pc := upd s.pc t (.lkP o p c) }, evLkLd p false)
  | .lkC o p c =>
    if s.lock c then some ({ s with pc := upd s.pc t (.spC o p c) }, evXchg c true)
    else some ({ s with lock := upd s.lock c true, pc := upd s.pc t (.v1 o p c) }, evXchg c false)
  | .spC o p c =>
    if s.lock c then some ({ s with pc := upd s.pc t (.spC o p c) }, evLkLd c true)
    else some ({ s with pc := upd s.pc t (.lkC o p c) }, evLkLd c false)
  | .v1 o p c =>
    if s.mark p then some ({ s with pc := upd s.pc t (.unlC o p c none) }, evLd p (s.next p) (s.mark p))
    else some ({ s with pc := upd s.pc t (.v2 o p c) }, evLd p (s.next p) (s.mark p))
  | .v2 o p c =>
    if s.mark c then some ({ s with pc := upd s.pc t (.unlC o p c none) }, evLd c (s.next c) (s.mark c))
    else some ({ s with pc := upd s.pc t (.v3 o p c) }, evLd c (s.next c) (s.mark c))
  | .v3 o p c =>
    if s.next p = some c ∧ s.mark p = false then
      some ({ s with val := actionVal s.key s.val o c, pc := upd s.pc t (action s.key o p c) },
            evLd p (s.next p) (s.mark p))
    else some ({ s with pc := upd s.pc t (.unlC o p c none) }, evLd p (s.next p) (s.mark p))
  | .iSt o n p c =>
    some ({ s with next := upd s.next n (some c), mark := upd s.mark n false, succ := upd s.succ n (some c),
                   pc := upd s.pc t (.iLk o n p c) }, evSt n (some c) false)
  | .iLk o n p c =>
    some ({ s with next := upd s.next p (some n), mark := upd s.mark p false, succ := upd s.succ p (some n),
                   pc := upd s.pc t (.unlC o p c (some (linkRet o))) }, evSt p (some n) false)
  | .eLd o p c =>
    some ({ s with pc := upd s.pc t (.eMk o p c (s.next c)) }, evLd c (s.next c) (s.mark c))
  | .eMk o p c nx =>
    some ({ s with next := upd s.next c (some 0), mark := upd s.mark c true,
                   pc := upd s.pc t (.eUn o p c nx [1, s.val c]) }, evSt c (some 0) true)
  | .eUn o p c nx r =>
    some ({ s with next := upd s.next p nx, mark := upd s.mark p false, succ := upd s.succ p nx,
                   pc := upd s.pc t (.unlC o p c (some r)) }, evSt p nx false)
  | .unlC o p c r =>
    some ({ s with lock := upd s.lock c false, pc := upd s.pc t (.unlP o p r) }, evUnl c)
  | .unlP o p r =>
    some ({ s with lock := upd s.lock p false,
                   pc := upd s.pc t (match r with | some r => .done r | none => .sLd1 o 0) }, evUnl p)
  | .fLk k c =>
    if s.lock c then some ({ s with pc := upd s.pc t (.fSp k c) }, evXchg c true)
    else some ({ s with lock := upd s.lock c true, pc := upd s.pc t (.fChk k c) }, evXchg c false)
  | .fSp k c =>
    if s.lock c then some ({ s with pc := upd s.pc t (.fSp k c) }, evLkLd c true)
    else some ({ s with pc := upd s.pc t (.fLk k c) }, evLkLd c false)
  | .fChk k c =>
    some ({ s with pc := upd s.pc t (.fUnl k c (if s.mark c = false ∧ s.key c = k then [1, s.val c] else [0])) },
          evLd c (s.next c) (s.mark c))
  | .fUnl _ c r =>
    some ({ s with lock := upd s.lock c false, pc := upd s.pc t (.done r) }, evUnl c)
  | .cChk k c =>
    some ({ s with pc := upd s.pc t (.done (if s.mark c = false ∧ s.key c = k then [1] else [0])) },
          evLd c (s.next c) (s.mark c))
  | .idle => none
  | .done _ => none

def result (s : St) (t : Tid) : Option (St × GRet) :=
  match s.pc t with
  | .done r => some ({ s with pc := upd s.pc t .idle }, r)
  | _ => none

def model : Model St := ⟨invoke, step, result⟩

end CdsVerif.Algo.Lazy

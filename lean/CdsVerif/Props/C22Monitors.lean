/-
  C22 — re-entrant spin lock and pool monitor: mutual exclusion over all interleavings.
  Property theorems only.  Models: Algo/ReentrantSpin/Model.lean, Algo/PoolMonitor/Model.lean (one transition per atomic
  operation of cds/sync/spinlock.h `reentrant_spin_lock` and cds/sync/pool_monitor.h `pool_monitor`); invariants and
  step lemmas: the Inv.lean files next to them.  Every theorem quantifies over all schedules, all thread counts, all numbers
  of locks / nodes and all client programs that obey the stated discipline (`Reachable`).
-/
import CdsVerif.Algo.ReentrantSpin.Inv
import CdsVerif.Algo.PoolMonitor.Inv
namespace CdsVerif.Props.C22Monitors
open CdsVerif.Machine CdsVerif.Spec CdsVerif.Algo

/-! ### `cds::sync::reentrant_spin_lock` -/

/-- Mutual exclusion: at most one thread has returned from `lock` / successful `try_lock` of lock `l` without having
    completed the matching `unlock`s (`depth t l` counts them).  The same holds for the wider window that starts at the
    successful CAS on the lock word (pc `lkTake`: the thread has the word but has not yet stored its id). -/
theorem C22_reentrant_mutex (s : ReentrantSpin.St) (h : ReentrantSpin.model.Reachable ReentrantSpin.init s) :
    (∀ l t1 t2, s.depth t1 l > 0 → s.depth t2 l > 0 → t1 = t2) ∧
    (∀ l t1 t2, (s.depth t1 l > 0 ∨ ReentrantSpin.takeOf (s.pc t1) = some l) →
                (s.depth t2 l > 0 ∨ ReentrantSpin.takeOf (s.pc t2) = some l) → t1 = t2) := by
  have hi := ReentrantSpin.rinv_reachable s h
  have key : ∀ l t, (s.depth t l > 0 ∨ ReentrantSpin.takeOf (s.pc t) = some l) → s.holder l = some t := by
    intro l t ht
    rcases ht with hd | hk
    · exact hi.dep l t hd
    · cases hpc : s.pc t <;> simp [hpc, ReentrantSpin.takeOf] at hk
      subst hk
      exact (hi.pTake t _ _ hpc).1
  refine ⟨fun l t1 t2 h1 h2 => ?_, fun l t1 t2 h1 h2 => ?_⟩
  · have a := key l t1 (Or.inl h1); have b := key l t2 (Or.inl h2); rw [a] at b; injection b
  · have a := key l t1 h1; have b := key l t2 h2; rw [a] at b; injection b

/-- What the lock word and the owner field say.  The word is zero exactly when no thread holds the lock or is between its
    successful CAS and the store of its id; while a thread holds the lock the word equals its nesting depth; the owner field
    names a thread only while that thread holds the lock, and names the holder except between the two stores of its last
    unlock (`m_OwnerId := null; m_spin := 0`, pc `unZero`). -/
theorem C22_reentrant_lock_word (s : ReentrantSpin.St) (h : ReentrantSpin.model.Reachable ReentrantSpin.init s) (l : Nat) :
    (s.spin l = 0 ↔ ∀ t, s.depth t l = 0 ∧ ReentrantSpin.takeOf (s.pc t) ≠ some l) ∧
    (∀ t, s.depth t l > 0 → s.spin l = s.depth t l) ∧
    (∀ t, s.owner l = some t → s.depth t l > 0) ∧
    (∀ t, s.depth t l > 0 → s.owner l = some t ∨ ReentrantSpin.zeroOf (s.pc t) = some l) := by
  have hi := ReentrantSpin.rinv_reachable s h
  refine ⟨⟨fun h0 t => ?_, fun hall => ?_⟩, fun t hd => hi.cnt l t (hi.dep l t hd) hd,
          fun t ho => (hi.own l t ho).2, fun t hd => hi.ownd l t hd⟩
  · have hn := hi.free l h0
    refine ⟨?_, fun hk => ?_⟩
    · cases hd : s.depth t l with
      | zero => rfl
      | succ d => have := hi.dep l t (by omega); rw [hn] at this; cases this
    · cases hpc : s.pc t <;> simp [hpc, ReentrantSpin.takeOf] at hk
      subst hk
      have := (hi.pTake t _ _ hpc).1; rw [hn] at this; cases this
  · cases hh : s.holder l with
    | none => exact hi.busy l hh
    | some t =>
      rcases hi.hold l t hh with hd | hk
      · have := (hall t).1; omega
      · exact absurd hk (hall t).2

/-- A re-entrant lock is released only by its owner's last unlock: whatever action of whatever thread makes the lock word
    go from non-zero to zero is the final store `m_spin.store( 0 )` of an `unlock` executed by the thread that holds the lock,
    at nesting depth exactly 1; all other threads have depth 0, and the step ends the holder's critical section. -/
theorem C22_reentrant_release_by_last_unlock (s s' : ReentrantSpin.St) (t : Tid) (a : Act) (o : Obs) (l : Nat)
    (h : ReentrantSpin.model.Reachable ReentrantSpin.init s)
    (hap : ReentrantSpin.model.apply s t a = some (s', o)) (h0 : s.spin l ≠ 0) (h1 : s'.spin l = 0) :
    a = .step ∧ (∃ r, s.pc t = .unZero l r) ∧ s.depth t l = 1 ∧ s'.depth t l = 0 ∧
    (∀ t2, t2 ≠ t → s.depth t2 l = 0) ∧ o = .ev (ReentrantSpin.evStSpin l 0) := by
  have hi := ReentrantSpin.rinv_reachable s h
  rcases ReentrantSpin.apply_cases hap with ⟨op, rfl, hs⟩ | ⟨ev, rfl, hs, rfl⟩ | ⟨r, rfl, hs⟩
  · rw [(ReentrantSpin.invoke_frame hs).1] at h1; exact absurd h1 h0
  · obtain ⟨hpc, hh, hd, -, hd', -, hev⟩ := ReentrantSpin.release_step hi hs h0 h1
    refine ⟨rfl, hpc, hd, hd', fun t2 hne => ?_, by rw [hev]⟩
    cases hd2 : s.depth t2 l with
    | zero => rfl
    | succ d => have := hi.dep l t2 (by omega); rw [hh] at this; injection this with e; exact absurd e.symm hne
  · rw [(ReentrantSpin.result_frame hs).1] at h1; exact absurd h1 h0

/-- While thread `t` holds lock `l` (depth ≥ 1) no `lock` / `try_lock` of another thread succeeds: no action of a thread
    `t2 ≠ t` changes the lock word, the owner field or `t`'s depth; `t2`'s depth stays 0 and `t2` does not get past the CAS;
    the CAS of a `try_lock` by `t2` fails and that `try_lock` returns 0; the CAS of a `lock` by `t2` fails and `t2` goes on
    spinning. -/
theorem C22_reentrant_other_threads_excluded (s s' : ReentrantSpin.St) (t t2 : Tid) (a : Act) (o : Obs) (l : Nat)
    (h : ReentrantSpin.model.Reachable ReentrantSpin.init s) (hd : s.depth t l ≥ 1) (hne : t2 ≠ t)
    (hap : ReentrantSpin.model.apply s t2 a = some (s', o)) :
    s'.spin l = s.spin l ∧ s'.owner l = s.owner l ∧ s'.depth t l = s.depth t l ∧ s'.depth t2 l = 0 ∧
    ReentrantSpin.takeOf (s'.pc t2) ≠ some l ∧
    (a = .step → s.pc t2 = .lkCas l true → s'.pc t2 = .done [0]) ∧
    (a = .step → s.pc t2 = .lkCas l false → s'.pc t2 = .lkSpin l) := by
  have hi := ReentrantSpin.rinv_reachable s h
  have hh := hi.dep l t hd
  have hd2 : s.depth t2 l = 0 := by
    cases hq : s.depth t2 l with
    | zero => rfl
    | succ d => have := hi.dep l t2 (by omega); rw [hh] at this; injection this with e; exact absurd e.symm hne
  rcases ReentrantSpin.apply_cases hap with ⟨op, rfl, hs⟩ | ⟨ev, rfl, hs, -⟩ | ⟨r, rfl, hs⟩
  · obtain ⟨f1, f2, f3, -, f5, -⟩ := ReentrantSpin.invoke_frame hs
    rw [f1, f2, f3]
    refine ⟨rfl, rfl, rfl, hd2, f5 l, ?_, ?_⟩ <;> (intro e; cases e)
  · obtain ⟨g1, g2, -, g4, g5, g6, g7, g8⟩ := ReentrantSpin.others_excluded_step hi hd hne hs
    exact ⟨g1, g2, g4, g5, g6, fun _ hp => (g7 hp).1, fun _ hp => (g8 hp).1⟩
  · obtain ⟨f1, f2, f3, -, -, f6, -⟩ := ReentrantSpin.result_frame hs
    rw [f1, f2, f3, f6]
    refine ⟨rfl, rfl, rfl, hd2, by simp [ReentrantSpin.takeOf], ?_, ?_⟩ <;> (intro e; cases e)

/-! ### `cds::sync::pool_monitor` (over a pool of `cds::sync::spin`) -/

/-- (a) Mutual exclusion: at most one thread is inside the critical section of a node (between the successful exchange on
    the node's pool lock in `lock( n )` and the releasing store in `unlock( n )`), for any pool capacity. -/
theorem C22_pool_monitor_mutex (cap : Nat) (s : PoolMonitor.St)
    (h : PoolMonitor.model.Reachable (PoolMonitor.init cap) s) :
    ∀ n t1 t2, s.cs t1 n = true → s.cs t2 n = true → t1 = t2 :=
  fun n t1 t2 => PoolMonitor.cs_mutex (PoolMonitor.pinv_reachable cap s h) n t1 t2

/-- (b) A pool lock is attached to at most one node at a time; a lock in the free pool is attached to no node and held by
    nobody; the free pool has no duplicates; a thread inside the critical section of node `n` holds the lock attached to `n`. -/
theorem C22_pool_lock_unique (cap : Nat) (s : PoolMonitor.St)
    (h : PoolMonitor.model.Reachable (PoolMonitor.init cap) s) :
    (∀ n1 n2 k, s.plock n1 = some k → s.plock n2 = some k → n1 = n2) ∧
    (∀ k, k ∈ s.pool → (∀ n, s.plock n ≠ some k) ∧ s.lheld k = false ∧ s.lowner k = none) ∧
    s.pool.Nodup ∧
    (∀ t n, s.cs t n = true → ∃ k, s.plock n = some k ∧ s.lowner k = some t ∧ s.lheld k = true) := by
  have hi := PoolMonitor.pinv_reachable cap s h
  refine ⟨hi.att, fun k hk => ⟨fun n => hi.pfree k n hk, hi.lh1 k (hi.pown k hk), hi.pown k hk⟩, hi.pnd, ?_⟩
  intro t n hc
  cases hp : s.plock n with
  | none => exact absurd hp (hi.csa t n hc)
  | some k =>
    have ho := hi.cso t n k hc hp
    refine ⟨k, rfl, ho, ?_⟩
    cases hl : s.lheld k with
    | true => rfl
    | false => have := hi.lh0 k hl; rw [ho] at this; cases this

/-- (c) A node's lock is given back only when nobody holds or awaits it.
    Detach: whatever action takes lock `k` off node `n` is the final store of an `unlock( n )` whose CAS saw reference count
    exactly 1 (m_RefSpin = 3 with the spin bit); the acting thread is the only user of the node, no thread is inside the node's
    critical section, no thread is between its reference increment and its acquisition of `k`, and `k` is not held.
    Return: whatever action puts lock `k` into the free pool is the return of that `unlock`; `k` is then attached to no node,
    held by nobody, and no thread is about to exchange on it or waiting in its spin loop. -/
theorem C22_pool_lock_returned_only_when_unused (cap : Nat) (s s' : PoolMonitor.St) (t : Tid) (a : Act) (o : Obs)
    (h : PoolMonitor.model.Reachable (PoolMonitor.init cap) s)
    (hap : PoolMonitor.model.apply s t a = some (s', o)) :
    (∀ n k, s.plock n = some k → s'.plock n ≠ some k →
      a = .step ∧ s.pc t = .unSt n 2 ∧ s.refspin n = 3 ∧ s.users n = [t] ∧
      s'.plock n = none ∧ s'.users n = [] ∧ s'.refspin n = 0 ∧ s'.pc t = .fin (some k) ∧
      s.lheld k = false ∧ (∀ t', s.cs t' n = false) ∧ (∀ t', PoolMonitor.refNode (s.pc t') = some n → t' = t)) ∧
    (∀ k, k ∉ s.pool → k ∈ s'.pool →
      a = .ret ∧ s.pc t = .fin (some k) ∧ s.lheld k = false ∧ s.lowner k = none ∧ (∀ n, s.plock n ≠ some k) ∧
      (∀ t' n, s.pc t' ≠ .lkTas n k) ∧ (∀ t' n, s.pc t' ≠ .lkWait n k) ∧ (∀ t', s.pc t' = .fin (some k) → t' = t)) := by
  have hi := PoolMonitor.pinv_reachable cap s h
  exact ⟨fun n k h0 h1 => PoolMonitor.detach_only_last hi hap n k h0 h1,
         fun k h0 h1 => PoolMonitor.dealloc_only_unused hi hap k h0 h1⟩

/-- (c) The counting invariant: for every node there is a duplicate-free list of threads that consists of exactly the users
    of the node (threads inside its critical section, inside `lock` after the reference increment, or inside `unlock` before
    the reference decrement), and m_RefSpin = 2 * (number of users) + (1 iff some thread is inside a spin-bit section). -/
theorem C22_pool_refcount_counts_users (cap : Nat) (s : PoolMonitor.St)
    (h : PoolMonitor.model.Reachable (PoolMonitor.init cap) s) (n : Nat) :
    ∃ us : List Tid, us.Nodup ∧ (∀ t, t ∈ us ↔ PoolMonitor.User s t n) ∧
      ((∀ t, PoolMonitor.spinNode (s.pc t) ≠ some n) → s.refspin n = 2 * us.length) ∧
      (∀ t, PoolMonitor.spinNode (s.pc t) = some n → s.refspin n = 2 * us.length + 1) ∧
      s.refspin n / 2 = us.length :=
  PoolMonitor.refcount_counts (PoolMonitor.pinv_reachable cap s h) n

/-- (d) The spin bit is a lock: at most one thread is inside an attach (`lkSt`) or detach (`unSt`) section of a node. -/
theorem C22_pool_spinbit_mutex (cap : Nat) (s : PoolMonitor.St)
    (h : PoolMonitor.model.Reachable (PoolMonitor.init cap) s) :
    ∀ n t1 t2, PoolMonitor.spinNode (s.pc t1) = some n → PoolMonitor.spinNode (s.pc t2) = some n → t1 = t2 :=
  fun n t1 t2 => PoolMonitor.spinbit_mutex (PoolMonitor.pinv_reachable cap s h) n t1 t2

/-- The non-atomic field `m_pLock`: a thread about to write it (attach a lock to a node that has none, or detach the lock as
    the last user) is the only thread at a program point that reads or writes the field; and the read outside the spin bit
    (first step of `unlock`) finds the lock attached and held by the caller, so that step is enabled. -/
theorem C22_pool_plock_access_exclusive (cap : Nat) (s : PoolMonitor.St)
    (h : PoolMonitor.model.Reachable (PoolMonitor.init cap) s) :
    (∀ n t1 t2, ((∃ c, s.pc t1 = .lkSt n c ∧ s.plock n = none) ∨ s.pc t1 = .unSt n 2) →
                ((∃ c, s.pc t2 = .lkSt n c) ∨ (∃ c, s.pc t2 = .unSt n c) ∨ s.pc t2 = .unRel n) → t1 = t2) ∧
    (∀ t n, s.pc t = .unRel n →
      ∃ k, s.plock n = some k ∧ s.lowner k = some t ∧ s.lheld k = true ∧ (PoolMonitor.step s t).isSome) := by
  have hi := PoolMonitor.pinv_reachable cap s h
  exact ⟨fun n t1 t2 => PoolMonitor.plock_access_exclusive hi n t1 t2, fun t n hpc => PoolMonitor.unRel_enabled hi hpc⟩

/-! ### Examples (evaluated by `decide`; events are compared as the structures `⟨kind, loc, a, b⟩` the trace lines are
     printed from) -/

/-- Thread 0 locks lock 0 twice (the second time through the owner check and `fetch_add`); thread 1's `try_lock` fails. -/
def schedNested : List (Tid × Act) :=
  [(0, .invoke ⟨"lock", [0, 0]⟩), (0, .step), (0, .step), (0, .step), (0, .ret),
   (0, .invoke ⟨"lock", [0, 0]⟩), (0, .step), (0, .step), (0, .ret),
   (1, .invoke ⟨"try_lock", [1, 0]⟩), (1, .step), (1, .step), (1, .ret)]

/-- … then thread 0 unlocks once (`m_spin := 1`), thread 1's `try_lock` fails again, thread 0 unlocks for the last time
    (`m_OwnerId := null; m_spin := 0`) and thread 1's `try_lock` succeeds. -/
def schedNested2 : List (Tid × Act) := schedNested ++
  [(0, .invoke ⟨"unlock", [0, 0]⟩), (0, .step), (0, .step), (0, .ret),
   (1, .invoke ⟨"try_lock", [1, 0]⟩), (1, .step), (1, .step), (1, .ret),
   (0, .invoke ⟨"unlock", [0, 0]⟩), (0, .step), (0, .step), (0, .step), (0, .ret),
   (1, .invoke ⟨"try_lock", [1, 0]⟩), (1, .step), (1, .step), (1, .step), (1, .ret)]

example : (ReentrantSpin.model.run ReentrantSpin.init schedNested).map
    (fun p => (p.1.spin 0, p.1.owner 0, p.1.depth 0 0, p.1.depth 1 0, p.1.pc 1)) =
    some (2, some 0, 2, 0, .idle) := by decide +kernel

example : (ReentrantSpin.model.run ReentrantSpin.init schedNested).map (fun p => ReentrantSpin.events p.2) =
    some [(0, ⟨"ld", "L0.owner", "0", ""⟩), (0, ⟨"cas+", "L0.spin", "0", "1"⟩), (0, ⟨"st", "L0.owner", "T0", ""⟩),
          (0, ⟨"ld", "L0.owner", "T0", ""⟩), (0, ⟨"add", "L0.spin", "1", "1"⟩),
          (1, ⟨"ld", "L0.owner", "T0", ""⟩), (1, ⟨"cas-", "L0.spin", "2", "0"⟩)] := by decide +kernel

/-- The failed `try_lock` returned 0. -/
example : (ReentrantSpin.model.run ReentrantSpin.init schedNested).map (fun p => p.2.getLast?) =
    some (some (1, .ret [0])) := by decide +kernel

example : (ReentrantSpin.model.run ReentrantSpin.init schedNested2).map
    (fun p => (p.1.spin 0, p.1.owner 0, p.1.depth 0 0, p.1.depth 1 0)) = some (1, some 1, 0, 1) := by decide +kernel
example : (ReentrantSpin.model.run ReentrantSpin.init schedNested2).map (fun p => p.2.getLast?) =
    some (some (1, .ret [1])) := by decide +kernel

example : (ReentrantSpin.model.run ReentrantSpin.init schedNested2).map (fun p => (ReentrantSpin.events p.2).drop 7) =
    some [(0, ⟨"ld", "L0.spin", "2", ""⟩), (0, ⟨"st", "L0.spin", "1", ""⟩),
          (1, ⟨"ld", "L0.owner", "T0", ""⟩), (1, ⟨"cas-", "L0.spin", "1", "0"⟩),
          (0, ⟨"ld", "L0.spin", "1", ""⟩), (0, ⟨"st", "L0.owner", "0", ""⟩), (0, ⟨"st", "L0.spin", "0", ""⟩),
          (1, ⟨"ld", "L0.owner", "0", ""⟩), (1, ⟨"cas+", "L0.spin", "0", "1"⟩), (1, ⟨"st", "L0.owner", "T1", ""⟩)] := by
  decide +kernel

/-- The discipline is enforced: `unlock` by a thread that does not hold the lock is not a run. -/
example : (ReentrantSpin.model.run ReentrantSpin.init (schedNested ++ [(1, .invoke ⟨"unlock", [1, 0]⟩)])).isNone = true := by
  decide +kernel

/-- Two threads contend for node 0 (pool of capacity 1): thread 0's CAS adds the first reference, thread 1's CAS fails
    against the spin bit and is retried after `cur &= ~1`; thread 0 attaches pool lock 0 lazily; thread 1 finds it attached
    and spins on it until thread 0 unlocks; thread 0 is not the last user, so the lock stays attached. -/
def schedContend : List (Tid × Act) :=
  [(0, .invoke ⟨"lock", [0, 0]⟩), (1, .invoke ⟨"lock", [1, 0]⟩),
   (0, .step), (1, .step),            -- both load m_RefSpin = 0
   (0, .step),                        -- T0: cas+ 0 -> 3
   (1, .step),                        -- T1: cas- sees 3, cur := 2
   (0, .step),                        -- T0: attach lock 0, store 2
   (1, .step),                        -- T1: cas+ 2 -> 5
   (0, .step),                        -- T0: xchg P0 0 -> 1, inside
   (1, .step),                        -- T1: store 4
   (1, .step), (1, .step),            -- T1: xchg sees 1; wait-loop load sees 1
   (0, .ret),
   (0, .invoke ⟨"unlock", [0, 0]⟩), (0, .step), (0, .step), (0, .step), (0, .step), (0, .ret),
   (1, .step), (1, .step), (1, .ret)]

/-- While thread 0 is inside and thread 1 waits: two references, lock 0 attached and held by thread 0. -/
example : (PoolMonitor.model.run (PoolMonitor.init 1) (schedContend.take 13)).map
    (fun p => (p.1.refspin 0, p.1.plock 0, p.1.pool, p.1.users 0)) = some (4, some 0, [], [1, 0]) := by decide +kernel
example : (PoolMonitor.model.run (PoolMonitor.init 1) (schedContend.take 13)).map
    (fun p => (p.1.cs 0 0, p.1.cs 1 0, p.1.lowner 0, p.1.pc 1)) = some (true, false, some 0, .lkWait 0 0) := by decide +kernel

/-- At the end thread 1 is inside; thread 0 has left and dropped its reference; the lock is still attached. -/
example : (PoolMonitor.model.run (PoolMonitor.init 1) schedContend).map
    (fun p => (p.1.refspin 0, p.1.plock 0, p.1.pool, p.1.users 0)) = some (2, some 0, [], [1]) := by decide +kernel
example : (PoolMonitor.model.run (PoolMonitor.init 1) schedContend).map
    (fun p => (p.1.cs 0 0, p.1.cs 1 0, p.1.lowner 0)) = some (false, true, some 1) := by decide +kernel

example : (PoolMonitor.model.run (PoolMonitor.init 1) schedContend).map (fun p => PoolMonitor.events p.2) =
    some [(0, ⟨"ld", "N0.refspin", "0", ""⟩), (1, ⟨"ld", "N0.refspin", "0", ""⟩),
          (0, ⟨"cas+", "N0.refspin", "0", "3"⟩),
          (1, ⟨"cas-", "N0.refspin", "3", "0"⟩),
          (0, ⟨"st", "N0.refspin", "2", ""⟩),
          (1, ⟨"cas+", "N0.refspin", "2", "5"⟩),
          (0, ⟨"xchg", "P0.spin", "0", "1"⟩),
          (1, ⟨"st", "N0.refspin", "4", ""⟩),
          (1, ⟨"xchg", "P0.spin", "1", "1"⟩), (1, ⟨"ld", "P0.spin", "1", ""⟩),
          (0, ⟨"st", "P0.spin", "0", ""⟩), (0, ⟨"ld", "N0.refspin", "4", ""⟩), (0, ⟨"cas+", "N0.refspin", "4", "5"⟩),
          (0, ⟨"st", "N0.refspin", "2", ""⟩),
          (1, ⟨"ld", "P0.spin", "0", ""⟩), (1, ⟨"xchg", "P0.spin", "0", "1"⟩)] := by decide +kernel

/-- A lock id is reused: thread 0 locks and unlocks node 0 (lock 0 attached, detached by the last user, returned to the
    pool when `unlock` returns), then locks node 1, which gets the same pool lock 0. -/
def schedReuse : List (Tid × Act) :=
  [(0, .invoke ⟨"lock", [0, 0]⟩), (0, .step), (0, .step), (0, .step), (0, .step), (0, .ret),
   (0, .invoke ⟨"unlock", [0, 0]⟩), (0, .step), (0, .step), (0, .step), (0, .step), (0, .ret),
   (0, .invoke ⟨"lock", [0, 1]⟩), (0, .step), (0, .step), (0, .step), (0, .step), (0, .ret)]

example : (PoolMonitor.model.run (PoolMonitor.init 1) schedReuse).map
    (fun p => (p.1.plock 0, p.1.plock 1, p.1.refspin 0, p.1.refspin 1)) = some (none, some 0, 0, 2) := by decide +kernel
example : (PoolMonitor.model.run (PoolMonitor.init 1) schedReuse).map
    (fun p => (p.1.pool, p.1.cs 0 0, p.1.cs 0 1, p.1.lowner 0)) = some ([], false, true, some 0) := by decide +kernel

example : (PoolMonitor.model.run (PoolMonitor.init 1) schedReuse).map (fun p => (PoolMonitor.events p.2).drop 4) =
    some [(0, ⟨"st", "P0.spin", "0", ""⟩), (0, ⟨"ld", "N0.refspin", "2", ""⟩), (0, ⟨"cas+", "N0.refspin", "2", "3"⟩),
          (0, ⟨"st", "N0.refspin", "0", ""⟩),
          (0, ⟨"ld", "N1.refspin", "0", ""⟩), (0, ⟨"cas+", "N1.refspin", "0", "3"⟩), (0, ⟨"st", "N1.refspin", "2", ""⟩),
          (0, ⟨"xchg", "P0.spin", "0", "1"⟩)] := by decide +kernel

/-- Between the detaching store and the return of `unlock` the lock is in nobody's hands (not attached, not in the pool);
    the return puts it back. -/
example : (PoolMonitor.model.run (PoolMonitor.init 1) (schedReuse.take 11)).map
    (fun p => (p.1.plock 0, p.1.pool, p.1.pc 0)) = some (none, [], .fin (some 0)) := by decide +kernel
example : (PoolMonitor.model.run (PoolMonitor.init 1) (schedReuse.take 12)).map
    (fun p => (p.1.plock 0, p.1.pool, p.1.pc 0)) = some (none, [0], .idle) := by decide +kernel

/-- With an empty pool the lock comes from the heap (a fresh id). -/
example : (PoolMonitor.model.run (PoolMonitor.init 0) (schedReuse.take 6)).map
    (fun p => (p.1.plock 0, p.1.pool, p.1.fresh)) = some (some 0, [], 1) := by decide +kernel

/-- The discipline is enforced: a second `lock` of the same node by the thread inside it is not a run. -/
example : (PoolMonitor.model.run (PoolMonitor.init 1) (schedReuse.take 6 ++ [(0, .invoke ⟨"lock", [0, 0]⟩)])).isNone = true := by
  decide +kernel

end CdsVerif.Props.C22Monitors

/-
  C19 — thread-safe iterators: the judgement of the relational oracle of the harness client
  (harness/clients/iter.cpp), as decidable definitions over a logged iteration, so that the clauses checked by
  the client are fixed in one place and their mutual consistency (non-vacuity) is machine-checked.
  The algorithm-level theorems (IterableList machine with its iterator, for every schedule) are in
  Props/C19Iterable.lean; the Feldman iterators and the hash sets over IterableList have no machine and are
  decided by this oracle on explored schedules of the real code.
-/
import CdsVerif.Base.Spec
namespace CdsVerif.Props.C19

/-- One successful addition of an element (`id` identifies the object, not the key). -/
structure Add where
  id : Nat
  key : Int
  inv : Nat
  res : Nat
deriving DecidableEq, Repr

/-- One successful removal (erase / replacing update / erase_at / extract) of a key; `id?` is the element removed when known. -/
structure Rem where
  key : Int
  inv : Nat
  res : Nat
deriving DecidableEq, Repr

/-- One position of the iteration. -/
structure Visit where
  id : Nat
  key : Int
deriving DecidableEq, Repr

/-- The element was certainly present for the whole iteration `[tb, te]`: its addition had completed before the
    iteration began and no successful removal of its key that ended after the addition was invoked had been invoked
    before the iteration ended. -/
def presentThroughout (rems : List Rem) (tb te : Nat) (a : Add) : Bool :=
  decide (a.res < tb) && rems.all (fun r => !(r.key == a.key && decide (r.res > a.inv) && decide (r.inv < te)))

/-- at least once -/
def complete (adds : List Add) (rems : List Rem) (tb te : Nat) (vs : List Visit) : Bool :=
  adds.all fun a => !presentThroughout rems tb te a || vs.any (·.id == a.id)

/-- exactly once (lists and the hash sets over them) -/
def once (adds : List Add) (rems : List Rem) (tb te : Nat) (vs : List Visit) : Bool :=
  adds.all fun a => !presentThroughout rems tb te a || (vs.filter (·.id == a.id)).length == 1

/-- increasing key order among the elements present throughout (IterableList) -/
def ordered (adds : List Add) (rems : List Rem) (tb te : Nat) (vs : List Visit) : Bool :=
  let ks := (vs.filter fun v => adds.any fun a => a.id == v.id && presentThroughout rems tb te a).map (·.key)
  ks.zip ks.tail |>.all fun (a, b) => decide (a < b)

theorem once_implies_complete (adds : List Add) (rems : List Rem) (tb te : Nat) (vs : List Visit)
    (h : once adds rems tb te vs = true) : complete adds rems tb te vs = true := by
  unfold once at h
  unfold complete
  rw [List.all_eq_true] at h ⊢
  intro a ha
  have := h a ha
  cases hp : presentThroughout rems tb te a with
  | false => simp
  | true =>
    simp only [hp, Bool.not_true, Bool.false_or] at this ⊢
    have hl : (vs.filter (·.id == a.id)).length = 1 := by simpa using this
    rw [List.any_eq_true]
    have : (vs.filter (·.id == a.id)) ≠ [] := by intro h0; rw [h0] at hl; simp at hl
    obtain ⟨x, hx⟩ := List.exists_mem_of_ne_nil _ this
    rw [List.mem_filter] at hx
    exact ⟨x, hx.1, hx.2⟩

/-- A removal that overlaps the iteration takes the element out of the quantifier. -/
example : presentThroughout [⟨5, 20, 30⟩] 10 40 ⟨1, 5, 1, 2⟩ = false := by decide
/-- An element added before and never touched is covered. -/
example : presentThroughout [⟨6, 20, 30⟩] 10 40 ⟨1, 5, 1, 2⟩ = true := by decide
/-- A missed element is reported, a visited one is not. -/
example : complete [⟨1, 5, 1, 2⟩, ⟨2, 7, 3, 4⟩] [] 10 40 [⟨2, 7⟩] = false := by decide
example : once [⟨1, 5, 1, 2⟩, ⟨2, 7, 3, 4⟩] [] 10 40 [⟨1, 5⟩, ⟨2, 7⟩] = true := by decide
/-- An element inserted while the iteration runs may be yielded out of order without breaking the clause. -/
example : ordered [⟨1, 5, 1, 2⟩, ⟨3, 1, 15, 16⟩] [] 10 40 [⟨1, 5⟩, ⟨3, 1⟩] = true := by decide
example : ordered [⟨1, 5, 1, 2⟩, ⟨3, 1, 3, 4⟩] [] 10 40 [⟨1, 5⟩, ⟨3, 1⟩] = false := by decide

end CdsVerif.Props.C19

/-
  The steps that write a tower word: CAS (link, unlink, mark) and the plain stores into the private item of an insert.
-/
import CdsVerif.Algo.SkipList.StepMisc
namespace CdsVerif.Algo.SkipList
open CdsVerif.Machine CdsVerif.Spec CdsVerif.Lin
open CdsVerif.Algo.Michael (Chain Lt LPok isRO insAfter Has)

theorem LPok.congr_right {H H1 H2 : Int → Int → Prop} {op : GOp} {r : GRet} (he : ∀ k v, H2 k v ↔ H1 k v)
    (h : LPok H op r H1) : LPok H op r H2 := by
  intro m hm
  obtain ⟨m', h1, h2⟩ := h m hm
  exact ⟨m', h1, fun k v => (h2 k v).trans (he k v).symm⟩

/-- Assemble a step that writes tower words. -/
theorem mem_step {c : Cfg} {s : St} {L L' : List Nat} {t : Tid} {pc' : PC} {next' : Nat → Nat → Option Nat}
    {mark' : Nat → Nat → Bool} (unl' : Nat → Nat) (hgt' : Nat) (h : SInvL c s L) (own : Option Nat)
    (hg' : GOk ⟨next', mark', s.key, s.val, s.ht, s.cnt⟩ L')
    (hle : MemLe own (mem! s) L ⟨next', mark', s.key, s.val, s.ht, s.cnt⟩ L')
    (hown : ∀ n, own = some n → pnode (s.pc t) = some n)
    (htok : TOk c ⟨next', mark', s.key, s.val, s.ht, s.cnt⟩ L' pc')
    (hpn : ∀ n, pnode pc' = some n → pnode (s.pc t) = some n) :
    SInvL c ⟨next', mark', unl', hgt', s.key, s.val, s.ht, s.cnt, upd s.pc t pc'⟩ L' := by
  refine h.assemble (t := t) own hg' hle hown ?_ ?_ ?_
  · intro t2 ht; simp [upd, ht]
  · simp only [upd_same]; exact htok
  · simp only [upd_same]; exact hpn

/-- The effect of a step that writes tower words but is no linearization point of a successful insert / erase. -/
theorem eff_mem_step {s : St} {L L' : List Nat} {t : Tid} {pc' : PC} {next' : Nat → Nat → Option Nat}
    {mark' : Nat → Nat → Bool} (unl' : Nat → Nat) (hgt' : Nat) (hmk : mk0 mark' = mk0 s.mark)
    (hhas : ∀ k v, Has (mk0 mark') s.key s.val L' k v ↔ Has (mk0 s.mark) s.key s.val L k v)
    (heff : EffOk (mk0 s.mark) s.key s.val (Has (mk0 s.mark) s.key s.val L) (s.pc t) pc') :
    StepEff s t ⟨next', mark', unl', hgt', s.key, s.val, s.ht, s.cnt, upd s.pc t pc'⟩ L L' := by
  refine ⟨fun t2 ht => by simp [upd, ht], rfl, rfl, ?_, fun _ => hhas, ?_, ?_, ?_, ?_, Or.inl hmk⟩
  · simp only [upd_same, hmk]
    intro h0 r hr
    obtain ⟨op, h1, h2⟩ := heff.lp h0 r hr
    have hhas' := hhas; rw [hmk] at hhas'
    exact ⟨op, h1, LPok.congr_right hhas' h2⟩
  · simp only [upd_same, hmk]; exact heff.keep
  · simp only [upd_same]; exact heff.pkeep
  · simp only [upd_same]; exact heff.op
  · simp only [upd_same]; exact heff.busy

theorem tok_hSub_mono {c : Cfg} {own : Option Nat} {m m' : Mem} {L L' : List Nat} (hg : GOk m L)
    (hle : MemLe own m L m' L') {w : Why} {cur : Nat} {pp : List Nat} {ps : List (Option Nat)}
    (hn : ∀ n, wnode w = some n → some n ≠ own) (hw : WOk m L w) (hl : ListsOk c m L pp ps) :
    TOk c m' L' (.hSub w cur pp ps) := by
  simp only [TOk]; exact ⟨hw.mono hg hle hn, hl.mono hg hle⟩

section steps
variable {c : Cfg} {s s' : St} {t : Tid} {ev : Ev} {L : List Nat}

theorem sinvl_step_hCas {w : Why} {lvl pred cur : Nat} {pp : List Nat} {ps : List (Option Nat)} {x : Option Nat}
    (h : SInvL c s L) (hpc : s.pc t = .hCas w lvl pred cur pp ps x) (hs : step c s t = some (s', ev)) :
    ∃ L', SInvL c s' L' ∧ StepEff s t s' L L' := by
  have ht := h.thr t; rw [hpc] at ht; simp only [TOk] at ht
  obtain ⟨hw, hl, hp, hcu, hcm, hcx⟩ := ht
  simp only [step, hpc] at hs
  split at hs
  next hv =>
    simp only [Option.some.injEq, Prod.mk.injEq] at hs; obtain ⟨rfl, -⟩ := hs
    have heff : EffOk (mk0 s.mark) s.key s.val (Has (mk0 s.mark) s.key s.val L) (s.pc t) (.hSub w cur pp ps) := by
      rw [hpc]; exact eff_same rfl rfl rfl ⟨by simp, by simp⟩
    have hpn : ∀ n, pnode (.hSub w cur pp ps) = some n → pnode (s.pc t) = some n := by
      intro n hn; rw [hpc]; exact hn
    by_cases h0 : lvl = 0
    · subst h0
      have hpL := h.g.unm_mem hp.lk hv.2
      have hx : x = s.next cur 0 := hcx.symm
      subst hx
      obtain ⟨hg', hle⟩ := h.g.unlink0 hpL hv.2 hv.1 hcm
      refine ⟨L.erase cur, mem_step s.unl s.hgt h none hg' hle (by simp) (tok_hSub_mono h.g hle (by simp) hw hl) hpn,
        eff_mem_step s.unl s.hgt rfl ?_ heff⟩
      intro k v
      exact Michael.has_erase h.g.nodup (show mk0 s.mark cur = true from hcm) k v
    · have hxv : ∀ b, x = some b → CurOk (mem! s) L lvl b := by
        intro b hb; rw [← hcx] at hb; exact h.g.ptr cur lvl b hb
      obtain ⟨hg', hle⟩ := h.g.upper_next h0 hv.2 hxv
      exact ⟨L, mem_step s.unl s.hgt h none hg' hle (by simp) (tok_hSub_mono h.g hle (by simp) hw hl) hpn,
        eff_mem_step s.unl s.hgt rfl (fun _ _ => Iff.rfl) heff⟩
  next hv =>
    simp only [Option.some.injEq, Prod.mk.injEq] at hs; obtain ⟨rfl, -⟩ := hs
    refine ⟨L, pc_only s.unl s.hgt h (tok_retry hw hl) ?_ ?_⟩
    · intro n hn; rw [hpc]; exact hn
    · rw [hpc]; exact eff_same rfl rfl rfl ⟨by simp, by simp [retry]⟩

theorem sinvl_step_eH2 {k : Int} {d lvl : Nat} {x : Option Nat} {pp : List Nat} {ps : List (Option Nat)}
    (h : SInvL c s L) (hpc : s.pc t = .eH2 k d lvl x pp ps) (hs : step c s t = some (s', ev)) :
    ∃ L', SInvL c s' L' ∧ StepEff s t s' L L' := by
  have ht := h.thr t; rw [hpc] at ht; simp only [TOk] at ht
  obtain ⟨hl, hd0, hdm, hlt, hdx⟩ := ht
  simp only [step, hpc] at hs
  split at hs
  next hv =>
    simp only [Option.some.injEq, Prod.mk.injEq] at hs; obtain ⟨rfl, -⟩ := hs
    have heff : EffOk (mk0 s.mark) s.key s.val (Has (mk0 s.mark) s.key s.val L) (s.pc t) (.eHSub k d lvl pp ps) := by
      rw [hpc]; exact eff_post (r := [1, s.val d]) rfl rfl ⟨by simp, by simp⟩
    have hpn : ∀ n, pnode (.eHSub k d lvl pp ps) = some n → pnode (s.pc t) = some n := by
      intro n hn; simp [pnode] at hn
    by_cases h0 : lvl = 0
    · subst h0
      have hpL := h.g.unm_mem (hl.2.2.1 0) hv.2
      have hx : x = s.next d 0 := hdx.symm
      subst hx
      obtain ⟨hg', hle⟩ := h.g.unlink0 hpL hv.2 hv.1 hdm
      refine ⟨L.erase d, mem_step s.unl s.hgt h none hg' hle (by simp) ?_ hpn, eff_mem_step s.unl s.hgt rfl ?_ heff⟩
      · simp only [TOk]; exact ⟨hl.mono h.g hle, hd0, hdm, hlt⟩
      · intro k' v; exact Michael.has_erase h.g.nodup (show mk0 s.mark d = true from hdm) k' v
    · have hxv : ∀ b, x = some b → CurOk (mem! s) L lvl b := by
        intro b hb; rw [← hdx] at hb; exact h.g.ptr d lvl b hb
      obtain ⟨hg', hle⟩ := h.g.upper_next h0 hv.2 hxv
      refine ⟨L, mem_step s.unl s.hgt h none hg' hle (by simp) ?_ hpn,
        eff_mem_step s.unl s.hgt rfl (fun _ _ => Iff.rfl) heff⟩
      simp only [TOk]; exact ⟨hl.mono h.g hle, hd0, hdm, hlt⟩
  next hv =>
    simp only [Option.some.injEq, Prod.mk.injEq] at hs; obtain ⟨rfl, -⟩ := hs
    refine ⟨L, pc_only s.unl s.hgt h (tok_retry (w := .eraFix k (s.val d)) (by simp [WOk]) hl) ?_ ?_⟩
    · intro n hn; simp [retry, pnode, wnode] at hn
    · rw [hpc]; exact eff_post (r := [1, s.val d]) rfl rfl ⟨by simp, by simp [retry]⟩

theorem sinvl_step_iUpA {n lvl : Nat} {p : Option Nat} {pp : List Nat} {ps : List (Option Nat)}
    (h : SInvL c s L) (hpc : s.pc t = .iUpA n lvl p pp ps) (hs : step c s t = some (s', ev)) :
    ∃ L', SInvL c s' L' ∧ StepEff s t s' L L' := by
  have ht := h.thr t; rw [hpc] at ht; simp only [TOk] at ht
  obtain ⟨hn, hl, h1, h2⟩ := ht
  simp only [step, hpc] at hs
  split at hs
  next hv =>
    simp only [Option.some.injEq, Prod.mk.injEq] at hs; obtain ⟨rfl, -⟩ := hs
    obtain ⟨hg', hle⟩ := h.g.upper_next (a := n) (l := lvl) (v := ps.getD lvl none) (by omega) hv.2 (hl.2.2.2 lvl)
    refine ⟨L, mem_step s.unl s.hgt h none hg' hle (by simp) ?_ ?_, eff_mem_step s.unl s.hgt rfl (fun _ _ => Iff.rfl) ?_⟩
    · simp only [TOk]; exact ⟨hn.mono hle, hl.mono h.g hle, h1, h2⟩
    · intro n' hn'; simp [pnode] at hn'
    · rw [hpc]; exact eff_post (r := [1]) rfl rfl ⟨by simp, by simp⟩
  next hv =>
    simp only [Option.some.injEq, Prod.mk.injEq] at hs; obtain ⟨rfl, -⟩ := hs
    refine ⟨L, pc_only s.unl s.hgt h ?_ ?_ ?_⟩
    · simp only [TOk]; exact ⟨hn, hl⟩
    · intro n' hn'; simp [pnode] at hn'
    · rw [hpc]; exact eff_post (r := [1]) rfl rfl ⟨by simp, by simp⟩

theorem sinvl_step_iUpB {n lvl : Nat} {pp : List Nat} {ps : List (Option Nat)}
    (h : SInvL c s L) (hpc : s.pc t = .iUpB n lvl pp ps) (hs : step c s t = some (s', ev)) :
    ∃ L', SInvL c s' L' ∧ StepEff s t s' L L' := by
  have ht := h.thr t; rw [hpc] at ht; simp only [TOk] at ht
  obtain ⟨hn, hl, h1, h2⟩ := ht
  simp only [step, hpc] at hs
  split at hs
  next hv =>
    simp only [Option.some.injEq, Prod.mk.injEq] at hs; obtain ⟨rfl, -⟩ := hs
    obtain ⟨hg', hle⟩ := h.g.upper_next (a := pp.getD lvl 0) (l := lvl) (v := some n) (by omega) hv.2
      (by intro b hb; simp only [Option.some.injEq] at hb; subst hb; exact ⟨hn.1, hn.2, h2⟩)
    refine ⟨L, mem_step s.unl s.hgt h none hg' hle (by simp) ?_ ?_, eff_mem_step s.unl s.hgt rfl (fun _ _ => Iff.rfl) ?_⟩
    · unfold nextUp; split <;> simp only [TOk]
      exact ⟨hn.mono hle, hl.mono h.g hle, by omega, by assumption⟩
    · intro n' hn'; unfold nextUp at hn'; split at hn' <;> simp [pnode] at hn'
    · rw [hpc]; unfold nextUp; split <;> exact eff_post (r := [1]) rfl rfl ⟨by simp, by simp⟩
  next hv =>
    simp only [Option.some.injEq, Prod.mk.injEq] at hs; obtain ⟨rfl, -⟩ := hs
    refine ⟨L, pc_only s.unl s.hgt h (tok_retry (w := .renew n lvl (ps.getD lvl none)) ⟨hn, h1, h2⟩ hl) ?_ ?_⟩
    · intro n' hn'; simp [retry, pnode, wnode] at hn'
    · rw [hpc]; exact eff_post (r := [1]) rfl rfl ⟨by simp, by simp [retry]⟩

theorem sinvl_step_eMk {k : Int} {d lvl : Nat} {sx : Option Nat} {pp : List Nat} {ps : List (Option Nat)}
    (h : SInvL c s L) (hpc : s.pc t = .eMk k d lvl sx pp ps) (hs : step c s t = some (s', ev)) :
    ∃ L', SInvL c s' L' ∧ StepEff s t s' L L' := by
  have ht := h.thr t; rw [hpc] at ht
  have ht' : TOk c (mem! s) L (.eLd k d lvl pp ps) := by simp only [TOk] at ht ⊢; exact ht
  simp only [TOk] at ht
  simp only [step, hpc] at hs
  split at hs
  next hv =>
    simp only [Option.some.injEq, Prod.mk.injEq] at hs; obtain ⟨rfl, -⟩ := hs
    have hl0 : lvl ≠ 0 := by omega
    obtain ⟨hg', hle⟩ := h.g.upper_mark (d := d) (l := lvl) hl0
    have hmk : mk0 (upd2' s.mark d lvl true) = mk0 s.mark := mk0_upd_pos _ _ _ _ hl0
    refine ⟨L, mem_step s.unl s.hgt h none hg' hle (by simp) ?_ ?_,
      eff_mem_step s.unl s.hgt hmk (fun k' v => has_upper_mark hl0 k' v) ?_⟩
    · exact tok_nextMark (tok_mono h.g hle (by simp [pnode]) ht') (upd2'_same _ _ _ _)
    · intro n' hn'; unfold nextMark at hn'; split at hn' <;> simp [pnode] at hn'
    · rw [hpc]; exact eff_nextMark rfl rfl rfl (by simp)
  next hv =>
    simp only [Option.some.injEq, Prod.mk.injEq] at hs; obtain ⟨rfl, -⟩ := hs
    refine ⟨L, pc_only s.unl s.hgt h ?_ ?_ ?_⟩
    · split
      next hm => exact tok_nextMark ht' hm
      · simp only [TOk]; exact ht
    · intro n' hn'; split at hn'
      · unfold nextMark at hn'; split at hn' <;> simp [pnode] at hn'
      · simp [pnode] at hn'
    · rw [hpc]; split
      · exact eff_nextMark rfl rfl rfl (by simp)
      · exact eff_erasing rfl rfl rfl rfl rfl rfl ⟨by simp, by simp⟩

theorem sinvl_step_iClr {n lvl : Nat} {pp : List Nat} {ps : List (Option Nat)}
    (h : SInvL c s L) (hpc : s.pc t = .iClr n lvl pp ps) (hs : step c s t = some (s', ev)) :
    ∃ L', SInvL c s' L' ∧ StepEff s t s' L L' := by
  have ht := h.thr t; rw [hpc] at ht; simp only [TOk] at ht
  obtain ⟨hn, hl, hip, h1⟩ := ht
  simp only [step, hpc, Option.some.injEq, Prod.mk.injEq] at hs; obtain ⟨rfl, -⟩ := hs
  obtain ⟨hg', hle⟩ := h.g.priv_write (n := n) (l := lvl) (v := none) hn (by simp)
  have hmk : mk0 (upd2' s.mark n lvl false) = mk0 s.mark := mk0_priv_write hn.2.2.2
  refine ⟨L, mem_step s.unl s.hgt h (some n) hg' hle (by intro n' e; simp at e; subst e; rw [hpc]; rfl) ?_ ?_,
    eff_mem_step s.unl s.hgt hmk (fun k v => has_priv_write hn.2.2.2 k v) ?_⟩
  · split <;> simp only [TOk]
    · exact ⟨hn.write, hl.mono h.g hle, hip, by omega⟩
    · exact ⟨hn.write, hl.mono h.g hle, hip⟩
  · intro n' hn'; rw [hpc]; split at hn' <;> exact hn'
  · rw [hpc]; split <;> exact eff_pre rfl rfl rfl ⟨by simp, by simp⟩

theorem sinvl_step_iSt0 {n : Nat} {pp : List Nat} {ps : List (Option Nat)}
    (h : SInvL c s L) (hpc : s.pc t = .iSt0 n pp ps) (hs : step c s t = some (s', ev)) :
    ∃ L', SInvL c s' L' ∧ StepEff s t s' L L' := by
  have ht := h.thr t; rw [hpc] at ht; simp only [TOk] at ht
  obtain ⟨hn, hl, hip⟩ := ht
  simp only [step, hpc, Option.some.injEq, Prod.mk.injEq] at hs; obtain ⟨rfl, -⟩ := hs
  obtain ⟨hg', hle⟩ := h.g.priv_write (n := n) (l := 0) (v := ps.getD 0 none) hn (hl.2.2.2 0)
  have hmk : mk0 (upd2' s.mark n 0 false) = mk0 s.mark := mk0_priv_write hn.2.2.2
  refine ⟨L, mem_step s.unl s.hgt h (some n) hg' hle (by intro n' e; simp at e; subst e; rw [hpc]; rfl) ?_ ?_,
    eff_mem_step s.unl s.hgt hmk (fun k v => has_priv_write hn.2.2.2 k v) ?_⟩
  · simp only [TOk]; exact ⟨hn.write, hl.mono h.g hle, hip, upd2'_same _ _ _ _⟩
  · intro n' hn'; rw [hpc]; exact hn'
  · rw [hpc]; exact eff_pre rfl rfl rfl ⟨by simp, by simp⟩

/-- The level-0 CAS of `insert_at_position`: the linearization point of a successful insert. -/
theorem sinvl_step_iCas0 {n : Nat} {pp : List Nat} {ps : List (Option Nat)}
    (h : SInvL c s L) (hpc : s.pc t = .iCas0 n pp ps) (hs : step c s t = some (s', ev)) :
    ∃ L', SInvL c s' L' ∧ StepEff s t s' L L' := by
  have ht := h.thr t; rw [hpc] at ht; simp only [TOk] at ht
  obtain ⟨hn, hl, hip, hnx⟩ := ht
  simp only [step, hpc] at hs
  split at hs
  next hv =>
    simp only [Option.some.injEq, Prod.mk.injEq] at hs; obtain ⟨rfl, -⟩ := hs
    have hpL := h.g.unm_mem (hl.2.2.1 0) hv.2
    have hnx' : s.next n 0 = s.next (pp.getD 0 0) 0 := by
      have e1 : s.next n 0 = ps.getD 0 none := hnx
      rw [e1, hv.1]
    have hnc : ∀ c', s.next (pp.getD 0 0) 0 = some c' → s.key n < s.key c' := by
      intro c' hc'; rw [hv.1] at hc'; exact hip.2 c' hc'
    obtain ⟨hg', hle⟩ := h.g.link0 (p := pp.getD 0 0) (n := n) hpL hv.2 hn hnx' hip.1 hnc
    have hmemn : n ∈ insAfter (pp.getD 0 0) n L := (Michael.mem_insAfter hpL).mpr (Or.inr rfl)
    refine ⟨insAfter (pp.getD 0 0) n L,
      mem_step s.unl s.hgt h (some n) hg' hle (by intro n' e; simp at e; subst e; rw [hpc]; rfl) ?_ ?_, ?_⟩
    · unfold nextUp; split <;> simp only [TOk]
      exact ⟨⟨hn.1, Or.inl hmemn⟩, hl.mono h.g hle, Nat.le_refl _, by assumption⟩
    · intro n' hn'; unfold nextUp at hn'; split at hn' <;> simp [pnode] at hn'
    · have hlp : LPok (Has (mk0 s.mark) s.key s.val L) ⟨"insert", [s.key n, s.val n]⟩ [1]
          (Has (mk0 s.mark) s.key s.val (insAfter (pp.getD 0 0) n L)) :=
        LPok.ins_ok (h.g.absent hpL hip.1 hnc)
          (fun j w => Michael.has_insert hpL hn.1 (show mk0 s.mark n = false from hn.2.2.2) j w)
      have hnew : lpRet (mk0 s.mark) s.key s.val (nextUp s.ht n 0 pp ps) = some [1] := by
        unfold nextUp; split <;> rfl
      have hpost : postRet s.val (nextUp s.ht n 0 pp ps) = some [1] := by
        unfold nextUp; split <;> rfl
      refine ⟨fun t2 ht => by simp [upd, ht], rfl, rfl, ?_, ?_, ?_, ?_, ?_, ?_, Or.inl rfl⟩
      · simp only [upd_same, hnew, hpc]
        intro _ r hr; simp only [Option.some.injEq] at hr; subst hr
        exact ⟨_, rfl, hlp⟩
      · simp only [upd_same, hnew, hpc]
        intro hor; rcases hor with e | e
        · exact absurd rfl e
        · simp at e
      · simp only [upd_same, hpc]; intro r hr; simp [lpRet] at hr
      · simp only [upd_same, hpc]; intro r hr; simp [postRet] at hr
      · simp only [upd_same, hpost]; intro e; simp at e
      · simp only [upd_same, hpc]; refine ⟨by simp, ?_⟩
        unfold nextUp; split <;> simp
  next hv =>
    simp only [Option.some.injEq, Prod.mk.injEq] at hs; obtain ⟨rfl, -⟩ := hs
    refine ⟨L, pc_only s.unl s.hgt h (tok_retry (w := .insS n) hn hl) ?_ ?_⟩
    · intro n' hn'; rw [hpc]; exact hn'
    · rw [hpc]; exact eff_pre rfl rfl rfl ⟨by simp, by simp [retry]⟩

/-- The level-0 marking CAS of `try_remove_at`: the linearization point of a successful erase (and of the erases of
    the same item that lose against it). -/
theorem sinvl_step_e0Mk {k : Int} {d : Nat} {p : Option Nat} {pp : List Nat} {ps : List (Option Nat)}
    (h : SInvL c s L) (hpc : s.pc t = .e0Mk k d p pp ps) (hs : step c s t = some (s', ev)) :
    ∃ L', SInvL c s' L' ∧ StepEff s t s' L L' := by
  have ht := h.thr t; rw [hpc] at ht; simp only [TOk] at ht
  obtain ⟨hl, hd, hk, hup⟩ := ht
  simp only [step, hpc] at hs
  split at hs
  next hv =>
    simp only [Option.some.injEq, Prod.mk.injEq] at hs; obtain ⟨rfl, -⟩ := hs
    have hdL := h.g.unm_mem (Or.inr hd.2) hv.2
    obtain ⟨hg', hle⟩ := h.g.mark0 hdL hd.1 hup
    have hmk : mk0 (upd2' s.mark d 0 true) = upd (mk0 s.mark) d true := mk0_upd_zero _ _ _
    have hhm : ∀ j w, Has (mk0 (upd2' s.mark d 0 true)) s.key s.val L j w ↔
        (Has (mk0 s.mark) s.key s.val L j w ∧ j ≠ s.key d) := by
      intro j w; rw [hmk]; exact Michael.has_mark h.g.sorted hdL hd.1 j w
    refine ⟨L, mem_step s.unl s.hgt h none hg' hle (by simp) ?_ (by intro n' hn'; simp [pnode] at hn'), ?_⟩
    · simp only [TOk]
      exact ⟨hl.mono h.g hle, hd.1, upd2'_same _ _ _ _, by have hh : 1 ≤ s.ht d := h.g.hpos d; show s.ht d - 1 < s.ht d; omega⟩
    · have hold : lpRet (mk0 s.mark) s.key s.val (.e0Mk k d p pp ps) = none := by
        simp only [lpRet, mk0, hv.2]; simp
      have hlp : LPok (Has (mk0 s.mark) s.key s.val L) ⟨"erase", [k]⟩ [1, s.val d]
          (Has (mk0 (upd2' s.mark d 0 true)) s.key s.val L) := by
        refine LPok.era_ok (v := s.val d) ?_ (fun j w => by rw [hhm, hk])
        have := h.g.has_of_unmarked (a := d) hd hv.2
        rw [← hk]; exact this
      refine ⟨fun t2 ht => by simp [upd, ht], rfl, rfl, ?_, ?_, ?_, ?_, ?_, ?_, Or.inr ⟨d, hv.2, hmk, ?_, ?_, ?_⟩⟩
      · simp only [upd_same, hpc]
        intro _ r hr; simp only [lpRet, Option.some.injEq] at hr; subst hr
        exact ⟨_, rfl, hlp⟩
      · simp only [upd_same, hpc, hold]
        intro hor; rcases hor with e | e
        · exact absurd rfl e
        · simp [lpRet] at e
      · simp only [upd_same, hpc, hold]; intro r hr; simp at hr
      · simp only [upd_same, hpc]; intro r hr; simp [postRet] at hr
      · simp only [upd_same]; intro e; simp [postRet] at e
      · simp only [upd_same, hpc]; exact ⟨by simp, by simp⟩
      · rw [hpc]; exact hold
      · simp only [upd_same]; rfl
      · intro w hw
        exact ((hhm _ w).mp hw).2 rfl
  next hv =>
    simp only [Option.some.injEq, Prod.mk.injEq] at hs; obtain ⟨rfl, -⟩ := hs
    refine ⟨L, pc_only s.unl s.hgt h ?_ ?_ ?_⟩
    · split
      · simp [TOk]
      · simp only [TOk]; exact ⟨hl, hd, hk, hup⟩
    · intro n' hn'; split at hn' <;> simp [pnode] at hn'
    · rw [hpc]; split
      next hm =>
        have hold : lpRet (mk0 s.mark) s.key s.val (.e0Mk k d p pp ps) = some [0] := by
          simp only [lpRet, mk0, hm, if_true]
        refine ⟨?_, ?_, ?_, ?_, by simp, by simp⟩
        · intro e; rw [hold] at e; simp at e
        · intro r hr; rw [hold] at hr; left; simpa [lpRet] using hr
        · intro r hr; simp [postRet] at hr
        · intro e; simp [postRet] at e
      · exact eff_erasing rfl rfl rfl rfl rfl rfl ⟨by simp, by simp⟩

end steps

end CdsVerif.Algo.SkipList

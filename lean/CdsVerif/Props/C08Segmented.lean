/-
  C08 — SegmentedQueue (cds::intrusive::SegmentedQueue; Afek, Korland, Yanovsky) conserves items and bounds
  reordering by the quasi factor.  Theorems about the atomic-step machine `Algo/Segmented/Model.lean` for EVERY
  schedule, any number of threads, any quasi factor K, any permutation input (the scan order of every operation is
  an argument of the operation: the theorems hold for every permutation generator).
  Property theorems only; the machine, the invariant and its proof live in `Algo/Segmented/*.lean`.

  The machine is tied to the real code by trace conformance (harness client `segmented`, variant `i_hp_named`,
  tools/segq_pre.py, `cdsdriver replay segq`).

  Assumptions of the machine (not proved here): sequentially consistent interleavings; a segment is not reused while
  a thread may hold a pointer to it (what the hazard pointers provide: C01/C02); an item is handed to `enqueue` at most
  once (contract of an intrusive container); the generator delivers permutations of [0, K).

  Reading the ghost history.  `now` ticks at every action (invocation, atomic step, return).  `tInv x` = time of the
  invocation of `enqueue(x)`; `tCas x = some c` = time of the successful CAS null → x; `tMark x = some m` = time of
  the successful CAS x → x|1 (the dequeue that returns x); `tCall t` = time of the invocation of thread t's current
  operation; `enqCnt x` / `deqCnt x` count those CASes blindly.  Every ghost field is written in `Model.lean` next to
  the event it records.  In a run: "enqueue(y) responded before enqueue(x) was invoked" implies `tCas y < tInv x`;
  "the dequeue that returns y was invoked after the dequeue that returns x responded" implies that y is not yet marked
  at `tMark x`.  Hence the harness oracle's count (harness/clients/segmented.cpp, rule (b)) is bounded by the number
  of `Overtaken` items, and its rule (c) is `C08_empty_means_taken`.

  WHAT IS NOT TRUE, with evaluated counterexample below: "dequeue returns empty only if the queue was empty at some
  instant during the call".  A scan reads the cells one after the other; a cell seen null may be filled and another
  cell's item taken before the scan ends, so that the queue holds an item at every instant of the call.  The code
  (and the machine) answer EMPTY there.  What holds is the statement of C08 in properties.jsonl: every item stored
  before the call began has been taken when the call returns (`C08_empty_means_taken`), and the instant form for the
  two other ways to answer EMPTY (`C08_empty_list_instant`).
-/
import CdsVerif.Algo.Segmented.Final
namespace CdsVerif.Props.C08Segmented
open CdsVerif.Machine CdsVerif.Spec CdsVerif.Algo CdsVerif.Algo.Segmented

/-! ### A. Structure -/

/-- The segment list `m_List` is the interval `[lo, nseg)` of the allocation order.  `m_pTail`, when not null, is the
    last allocated segment; `m_pHead`, when not null, is an allocated segment not behind … not ahead of the front of
    the list (`h ≤ lo`: it may lag inside `remove_head`); `m_pHead` is null only when the list is empty, and then
    `m_pTail` is null too. -/
theorem C08_list_structure (K : Nat) (s : Segmented.St) (h : Segmented.model.Reachable (Segmented.init K) s) :
    s.lo ≤ s.nseg ∧
    (∀ hd, s.head = some hd → hd ≤ s.lo ∧ hd < s.nseg) ∧
    (s.head = none → s.lo = s.nseg) ∧
    (∀ p, s.tail = some p → p + 1 = s.nseg) ∧
    (s.lo = s.nseg → s.tail = none) :=
  let G := (Segmented.inv_reachable K s h).1
  ⟨G.lo_le, G.head_some, G.head_none, G.tail_some, G.tail_none⟩

/-- The published pointers are exact whenever the lock of the segment list is free (nobody inside `create_tail` /
    `remove_head`): `m_pHead` is the first and `m_pTail` the last segment of the list; both are null when the list
    is empty.  (The same holds at the first and at the last step of each critical section: `Loc.qcs`.) -/
theorem C08_pointers_exact (K : Nat) (s : Segmented.St) (h : Segmented.model.Reachable (Segmented.init K) s)
    (hfree : s.lock = false) :
    (s.lo < s.nseg → s.head = some s.lo ∧ s.tail = some (s.nseg - 1)) ∧
    (s.lo = s.nseg → s.head = none ∧ s.tail = none) := by
  have I := Segmented.inv_reachable K s h
  have Q := I.1.quiet (Segmented.holder_none_of_free I.1 hfree)
  exact ⟨Q.1, fun he => ⟨Q.2 he, I.1.tail_none he⟩⟩

/-- Cells: a segment not yet allocated and a cell index outside [0, K) are never written; a segment that has been
    UNLINKED (`g < lo`) has only deleted cells; every segment but the last one is full (no null cell): a new tail
    is created only when the current one is full. -/
theorem C08_segments (K : Nat) (s : Segmented.St) (h : Segmented.model.Reachable (Segmented.init K) s) :
    (∀ g i, s.nseg ≤ g → s.cell g i = .null) ∧
    (∀ g i, s.K ≤ i → s.cell g i = .null) ∧
    (∀ g i, g < s.lo → i < s.K → (s.cell g i).isDel = true) ∧
    (∀ g i, g + 1 < s.nseg → i < s.K → s.cell g i ≠ .null) :=
  let G := (Segmented.inv_reachable K s h).1
  ⟨G.fresh, G.wide, G.dead, G.full⟩

/-- Cells are write-once, delete-once: one transition leaves a cell as it is, or stores an item into a null cell,
    or sets the deleted bit of the item it holds (true of every transition, reachable or not). -/
theorem C08_cells_write_once (s s' : Segmented.St) (t : Tid) (a : Act) (o : Obs)
    (hap : Segmented.model.apply s t a = some (s', o)) (g i : Nat) :
    s'.cell g i = s.cell g i ∨ (s.cell g i = .null ∧ ∃ x, s'.cell g i = .item x) ∨
    (∃ x, s.cell g i = .item x ∧ s'.cell g i = .del x) :=
  Segmented.cell_step_of_apply hap g i

/-- The lock of the segment list is a lock: a thread inside a critical section of `create_tail` / `remove_head` is
    THE holder, and the lock word is set. -/
theorem C08_lock (K : Nat) (s : Segmented.St) (h : Segmented.model.Reachable (Segmented.init K) s) (t1 t2 : Tid)
    (h1 : (s.pc t1).inCS = true) (h2 : (s.pc t2).inCS = true) : t1 = t2 ∧ s.lock = true := by
  have I := Segmented.inv_reachable K s h
  have e1 := (I.2 t1).cs h1
  have e2 := (I.2 t2).cs h2
  rw [e1] at e2
  exact ⟨by injection e2, I.1.holder_lock t1 e1⟩

/-! ### B. Conservation -/

/-- Every item is stored at most once, in one cell; it is taken at most once, and only after it was stored; an
    item that was stored and not taken sits, unmarked, in a cell of a segment that is STILL IN THE LIST (no loss);
    an item that was taken sits, marked, in its cell. -/
theorem C08_conservation (K : Nat) (s : Segmented.St) (h : Segmented.model.Reachable (Segmented.init K) s) (x : Nat) :
    (s.enqCnt x = 0 ∨ s.enqCnt x = 1) ∧ s.deqCnt x ≤ s.enqCnt x ∧
    (∀ g i, (s.cell g i = .item x ∨ s.cell g i = .del x) → s.enqCnt x = 1 ∧ g = s.posS x ∧ i = s.posI x) ∧
    (s.enqCnt x = 1 → s.used x = true ∧
      ((s.deqCnt x = 0 ∧ s.cell (s.posS x) (s.posI x) = .item x ∧
          s.lo ≤ s.posS x ∧ s.posS x < s.nseg ∧ s.posI x < s.K) ∨
       (s.deqCnt x = 1 ∧ s.cell (s.posS x) (s.posI x) = .del x))) := by
  have G := (Segmented.inv_reachable K s h).1
  refine ⟨G.enq_le x, ?_, ?_, ?_⟩
  · rcases G.enq_le x with h0 | h1
    · have := G.enq_zero x h0; omega
    · rcases G.enq_cell x h1 with hc | hc
      · have := (G.item_pos _ _ x hc).2.2.2; omega
      · have := (G.del_pos _ _ x hc).2.2.2; omega
  · intro g i hc
    rcases hc with hc | hc
    · have := G.item_pos g i x hc; exact ⟨this.1, this.2.1.symm, this.2.2.1.symm⟩
    · have := G.del_pos g i x hc; exact ⟨this.1, this.2.1.symm, this.2.2.1.symm⟩
  · intro h1
    refine ⟨G.enq_used x h1, ?_⟩
    cases hcx : s.tCas x with
    | none => exact absurd hcx (G.cas_some x h1)
    | some c =>
      have hst := Segmented.stored_facts G hcx
      rcases hst.1 with hc | hc
      · left
        refine ⟨(G.item_pos _ _ x hc).2.2.2, hc, ?_, hst.2.1, hst.2.2⟩
        by_cases hlo : s.posS x < s.lo
        · have := G.dead _ _ hlo hst.2.2; rw [hc] at this; cases this
        · omega
      · right; exact ⟨(G.del_pos _ _ x hc).2.2.2, hc⟩

/-- The content of the queue, at every instant (in particular at quiescence): the items in unmarked cells of the
    segments of the list are exactly the items stored and not taken. -/
theorem C08_content (K : Nat) (s : Segmented.St) (h : Segmented.model.Reachable (Segmented.init K) s) (x : Nat) :
    (∃ g i, s.lo ≤ g ∧ g < s.nseg ∧ i < s.K ∧ s.cell g i = .item x) ↔ (s.enqCnt x = 1 ∧ s.deqCnt x = 0) := by
  have hc := C08_conservation K s h x
  have G := (Segmented.inv_reachable K s h).1
  constructor
  · rintro ⟨g, i, _, _, _, hcell⟩
    have := G.item_pos g i x hcell
    exact ⟨this.1, this.2.2.2⟩
  · rintro ⟨h1, h0⟩
    rcases (hc.2.2.2 h1).2 with hh | hh
    · exact ⟨_, _, hh.2.2.1, hh.2.2.2.1, hh.2.2.2.2, hh.2.1⟩
    · omega

/-- `enqueue` returns true only after its CAS has stored the item (which by `C08_conservation` is then in a segment
    of the list, or already taken); `dequeue` returns an item only after its CAS has marked it, and no other dequeue
    does (`deqCnt x ≤ 1` counts the dequeues that return x). -/
theorem C08_results (K : Nat) (s : Segmented.St) (h : Segmented.model.Reachable (Segmented.init K) s) (t : Tid) (x : Nat) :
    (s.pc t = .enqDone x → s.enqCnt x = 1) ∧
    (s.pc t = .deqDone (some x) → s.deqCnt x = 1 ∧ s.enqCnt x = 1 ∧ s.cell (s.posS x) (s.posI x) = .del x) := by
  have I := Segmented.inv_reachable K s h
  have hc := C08_conservation K s h x
  refine ⟨fun hp => (I.2 t).enqDone x hp, fun hp => ?_⟩
  have hd := (I.2 t).deqDone x hp
  have h1 : s.enqCnt x = 1 := by have := hc.1; have := hc.2.1; omega
  rcases (hc.2.2.2 h1).2 with hh | hh
  · omega
  · exact ⟨hd, h1, hh.2⟩

/-- The effect of an operation lies inside its call: the enqueue CAS of x happened after the invocation of the
    enqueue that is about to return, the marking CAS of x after the invocation of the dequeue that is about to
    return x (and both before now). -/
theorem C08_effect_inside_call (K : Nat) (s : Segmented.St) (h : Segmented.model.Reachable (Segmented.init K) s) (t : Tid)
    (x : Nat) :
    (s.pc t = .enqDone x → ∃ c, s.tCas x = some c ∧ s.tCall t < c ∧ c < s.now) ∧
    (s.pc t = .deqDone (some x) → ∃ m, s.tMark x = some m ∧ s.tCall t < m ∧ m < s.now) := by
  have I := Segmented.inv_reachable K s h
  constructor
  · intro hp
    obtain ⟨c, hc, hlt⟩ := (I.2 t).casIn x hp
    exact ⟨c, hc, hlt, (I.1.cas_t x c hc).2.1⟩
  · intro hp
    obtain ⟨m, hm, hlt⟩ := (I.2 t).markIn x hp
    exact ⟨m, hm, hlt, (I.1.mark_t x m hm).1⟩

/-- Causality of the ghost history: an item is stored after its enqueue was invoked and taken after it was stored. -/
theorem C08_history (K : Nat) (s : Segmented.St) (h : Segmented.model.Reachable (Segmented.init K) s) (x : Nat) :
    (∀ c, s.tCas x = some c → s.tInv x < c ∧ c < s.now ∧ s.enqCnt x = 1) ∧
    (s.enqCnt x = 1 → s.tCas x ≠ none) ∧
    (∀ m, s.tMark x = some m → m < s.now ∧ s.deqCnt x = 1 ∧ ∀ c, s.tCas x = some c → c < m) ∧
    (s.deqCnt x = 1 → s.tMark x ≠ none) :=
  let G := (Segmented.inv_reachable K s h).1
  ⟨G.cas_t x, G.cas_some x, fun m hm => ⟨(G.mark_t x m hm).1, (G.mark_t x m hm).2, fun c hc => G.mark_cas x m c hm hc⟩,
   G.mark_some x⟩

/-! ### C. The meaning of EMPTY -/

/-- A dequeue answers EMPTY only if every item stored before the dequeue was invoked has been taken by then
    (the statement of C08; rule (c) of the harness oracle). -/
theorem C08_empty_means_taken (K : Nat) (s : Segmented.St) (h : Segmented.model.Reachable (Segmented.init K) s) (t : Tid)
    (hp : s.pc t = .deqDone none) (y c : Nat) (hc : s.tCas y = some c) (hlt : c < s.tCall t) :
    s.cell (s.posS y) (s.posI y) = .del y ∧ ∃ m, s.tMark y = some m ∧ m < s.now := by
  have I := Segmented.inv_reachable K s h
  have hd := (I.2 t).e3 (by rw [hp]; rfl) y c hc hlt
  have hst := Segmented.stored_facts I.1 hc
  have hcell : s.cell (s.posS y) (s.posI y) = .del y := by
    rcases hst.1 with h1 | h1
    · rw [h1] at hd; cases hd
    · exact h1
  refine ⟨hcell, ?_⟩
  have h1 := (I.1.del_pos _ _ y hcell).2.2.2
  cases hm : s.tMark y with
  | none => exact absurd hm (I.1.mark_some y h1)
  | some m => exact ⟨m, rfl, (I.1.mark_t y m hm).1⟩

/-- Whenever the segment list is empty no item is present anywhere; `m_pHead` is null only then.  A dequeue that
    answers EMPTY because it read `m_pHead == null`, or because `remove_head` found or left the list empty, has
    therefore seen the queue empty AT AN INSTANT of its call (the load resp. the store inside the critical section). -/
theorem C08_empty_list_instant (K : Nat) (s : Segmented.St) (h : Segmented.model.Reachable (Segmented.init K) s)
    (he : s.lo = s.nseg ∨ s.head = none) (g i x : Nat) : s.cell g i ≠ .item x := by
  have G := (Segmented.inv_reachable K s h).1
  have hlo : s.lo = s.nseg := by
    rcases he with h1 | h1
    · exact h1
    · exact G.head_none h1
  intro hc
  by_cases hg : g < s.nseg
  · by_cases hi : i < s.K
    · have := G.dead g i (by omega) hi; rw [hc] at this; cases this
    · have := G.wide g i (by omega); rw [hc] at this; cases this
  · have := G.fresh g i (by omega); rw [hc] at this; cases this

/-- The third way: a dequeue that answers EMPTY at the end of a scan has seen a null cell in its segment, which was
    therefore the LAST segment at that instant, and every cell of that segment it visited was null or deleted when
    visited (`Loc.dRd`, `Loc.e1Rd`, `Loc.e2Rd` of the invariant); it has NOT seen the queue empty at one instant: see
    the evaluated run `emptySched` below. -/
theorem C08_null_cell_is_in_last_segment (K : Nat) (s : Segmented.St) (h : Segmented.model.Reachable (Segmented.init K) s)
    (g i : Nat) (hg : g < s.nseg) (hi : i < s.K) (hc : s.cell g i = .null) : g + 1 = s.nseg := by
  have G := (Segmented.inv_reachable K s h).1
  by_cases hh : g + 1 < s.nseg
  · exact absurd hc (G.full g i hh hi)
  · omega

/-! ### D. The reordering bound -/

/-- Segment form.  If y was stored before the enqueue of x was invoked, y is not in a later segment than x. -/
theorem C08_enqueue_order (K : Nat) (s : Segmented.St) (h : Segmented.model.Reachable (Segmented.init K) s) (x y c : Nat)
    (hx : s.enqCnt x = 1) (hy : s.tCas y = some c) (hlt : c < s.tInv x) : s.posS y ≤ s.posS x :=
  (Segmented.inv_reachable K s h).1.order x y c hx hy hlt

/-- Dequeues take items from the FIRST segment of the list only: a thread about to execute a marking CAS that will
    succeed works on a segment `g ≤ lo`, hence `g = lo`, and all cells of all older segments are deleted. -/
theorem C08_dequeue_from_first_segment (K : Nat) (s : Segmented.St) (h : Segmented.model.Reachable (Segmented.init K) s)
    (t : Tid) (ps : List Nat) (g i x : Nat) (rest : List Nat) (hn : Bool)
    (hp : s.pc t = .deqCas ps g i x rest hn) (hc : s.cell g i = .item x) :
    g = s.lo ∧ ∀ g' i', g' < g → i' < s.K → (s.cell g' i').isDel = true := by
  have I := Segmented.inv_reachable K s h
  have hd := (I.2 t).dptr g (by rw [hp]; rfl)
  have hi := ((I.2 t).dCas ps g i x rest hn hp).1
  have : s.lo ≤ g := by
    by_cases hlo : g < s.lo
    · have := I.1.dead g i hlo hi; rw [hc] at this; cases this
    · omega
  exact ⟨by omega, fun g' i' hg' hi' => I.1.dead g' i' (by omega) hi'⟩

/-- An item x overtakes only items of its own segment: if y was stored before the enqueue of x was invoked and y
    is still in the queue at the instant x is taken, then x and y are in the same segment. -/
theorem C08_quasi_segment (K : Nat) (s : Segmented.St) (h : Segmented.model.Reachable (Segmented.init K) s) (x y m c : Nat)
    (hx : s.tMark x = some m) (hy : s.tCas y = some c) (hlt : c < s.tInv x)
    (hstill : ∀ m', s.tMark y = some m' → m < m') : s.posS y = s.posS x :=
  (Segmented.inv_reachable K s h).1.quasi x y m c hx hy hlt hstill

/-- The bound of C08: when x is taken, FEWER THAN K (at most K − 1) items that were stored before the enqueue of x
    was invoked are still in the queue.  (`ys`: any duplicate-free list of such items.) -/
theorem C08_quasi_bound (K : Nat) (s : Segmented.St) (h : Segmented.model.Reachable (Segmented.init K) s) (x : Nat)
    (ys : List Nat) (hnd : ys.Nodup) (hys : ∀ y, y ∈ ys → Segmented.Overtaken s x y) : ys.length ≤ s.K - 1 :=
  Segmented.overtaken_count (Segmented.inv_reachable K s h).1 x ys hnd hys

/-- The quasi factor of a run is the one the queue was built with. -/
theorem C08_K_const (K : Nat) (s : Segmented.St) (h : Segmented.model.Reachable (Segmented.init K) s) : s.K = K := by
  obtain ⟨sched, os, hr⟩ := h
  refine Segmented.model.inv_of_inductive (fun s => s.K = K) ?_ sched (Segmented.init K) s os rfl hr
  intro s t a s' o hK hap
  cases a with
  | invoke op =>
    simp only [Model.apply, Segmented.model, Option.map_eq_some_iff] at hap
    obtain ⟨s1, hs1, heq⟩ := hap
    simp only [Prod.mk.injEq] at heq
    obtain ⟨rfl, -⟩ := heq
    unfold Segmented.invoke at hs1
    split at hs1
    · split at hs1
      · simp only [Option.some.injEq] at hs1; subst hs1; exact hK
      · simp at hs1
    · simp only [Option.some.injEq] at hs1; subst hs1; exact hK
    · simp at hs1
  | step =>
    simp only [Model.apply, Segmented.model, Option.map_eq_some_iff] at hap
    obtain ⟨r, hr, heq⟩ := hap
    simp only [Prod.mk.injEq] at heq
    obtain ⟨rfl, -⟩ := heq
    unfold Segmented.step at hr
    split at hr
    all_goals (try (split at hr))
    all_goals (try (split at hr))
    all_goals (try (split at hr))
    all_goals (try (simp at hr; done))
    all_goals (simp only [Option.some.injEq] at hr; subst hr; exact hK)
  | ret =>
    simp only [Model.apply, Segmented.model, Option.map_eq_some_iff] at hap
    obtain ⟨r, hr, heq⟩ := hap
    simp only [Prod.mk.injEq] at heq
    obtain ⟨rfl, -⟩ := heq
    unfold Segmented.result at hr
    split at hr
    all_goals (try (simp at hr; done))
    all_goals (simp only [Option.some.injEq] at hr; subst hr; exact hK)

/-! ### E. Evaluated runs (K = 2): the machine does what the theorems talk about, in the vocabulary of the harness trace -/

def enq (v : Int) (ps : List Int) : Act := .invoke ⟨"enq", v :: ps⟩
def deq (ps : List Int) : Act := .invoke ⟨"deq", ps⟩
def steps (t : Tid) (n : Nat) : List (Tid × Act) := List.replicate n (t, .step)
/-- One operation run alone: call, n atomic steps, return. -/
def runT (t : Tid) (a : Act) (n : Nat) : List (Tid × Act) := [(t, a)] ++ steps t n ++ [(t, .ret)]
def traceOf (K : Nat) (sched : List (Tid × Act)) : Option (List String) :=
  (Segmented.model.run (Segmented.init K) sched).map (fun r => Segmented.renderT r.2)

/-- Enqueue 1 creates the first segment (tail was null).  Then enqueues 2 and 3 race for the last free cell c1 of s0:
    3 loses the CAS, finds the segment full, creates the new tail s1 under the lock and stores there. -/
def raceSched : List (Tid × Act) :=
  runT 0 (enq 1 [0, 1]) 8 ++
  [(0, enq 2 [1, 0, 0, 1]), (1, enq 3 [1, 0, 0, 1])] ++ steps 0 3 ++ steps 1 3 ++ [(0, .step), (0, .ret)] ++
  steps 1 7 ++ [(1, .ret)]

example : traceOf 2 raceSched = some
    ["T 0 C enq [1, 0, 1]", "T 0 A ld segTail null", "T 0 A ld segTail null", "T 0 A xchg segLock 0 1",
     "T 0 A st segHead s0", "T 0 A st segTail s0", "T 0 A st segLock 0", "T 0 A ld s0.c0 null",
     "T 0 A cas+ s0.c0 null i1", "T 0 R [1]",
     "T 0 C enq [2, 1, 0, 0, 1]", "T 1 C enq [3, 1, 0, 0, 1]",
     "T 0 A ld segTail s0", "T 0 A ld segTail s0", "T 0 A ld s0.c1 null",
     "T 1 A ld segTail s0", "T 1 A ld segTail s0", "T 1 A ld s0.c1 null",
     "T 0 A cas+ s0.c1 null i2", "T 0 R [1]",
     "T 1 A cas- s0.c1 i2 null", "T 1 A ld s0.c0 i1", "T 1 A xchg segLock 0 1", "T 1 A st segTail s1",
     "T 1 A st segLock 0", "T 1 A ld s1.c0 null", "T 1 A cas+ s1.c0 null i3", "T 1 R [1]"] := by
  decide +kernel

/-- THE COUNTEREXAMPLE to "empty at some instant".  s0 = [null, 7].  Thread 0's dequeue reads c0 = null; thread 1
    enqueues 8 into c0; thread 2 dequeues 7 from c1; thread 0 reads c1 = 7|1 and answers EMPTY. -/
def emptySched : List (Tid × Act) :=
  runT 0 (enq 7 [1, 0]) 8 ++
  [(0, deq [0, 1])] ++ steps 0 3 ++ runT 1 (enq 8 [0, 1]) 4 ++ runT 2 (deq [1, 0]) 4 ++ steps 0 1 ++ [(0, .ret)]

example : (traceOf 2 emptySched).map (·.drop 10) = some
    ["T 0 C deq [0, 1]", "T 0 A ld segHead s0", "T 0 A ld segHead s0", "T 0 A ld s0.c0 null",
     "T 1 C enq [8, 0, 1]", "T 1 A ld segTail s0", "T 1 A ld segTail s0", "T 1 A ld s0.c0 null",
     "T 1 A cas+ s0.c0 null i8", "T 1 R [1]",
     "T 2 C deq [1, 0]", "T 2 A ld segHead s0", "T 2 A ld segHead s0", "T 2 A ld s0.c1 i7",
     "T 2 A cas+ s0.c1 i7 i7|1", "T 2 R [1, 7]",
     "T 0 A ld s0.c1 i7|1", "T 0 R [0]"] := by
  decide +kernel

/-- … and the number of items present after each action, from just before thread 0's call (index 10) to just after
    its return: never 0.  The queue was not empty at any instant of the call that answered EMPTY.  (The weak form
    holds: item 7, the only one stored before the call, has been taken.) -/
example : (Segmented.unmarkedTrace (Segmented.init 2) emptySched).drop 10 =
    [1, 1, 1, 1, 1, 1, 1, 1, 1, 2, 2, 2, 2, 2, 2, 1, 1, 1, 1] := by
  decide +kernel

/-- Two dequeues race for one item: one marking CAS succeeds, the other fails, goes on, sees a null cell and answers
    EMPTY. -/
def deqRaceSched : List (Tid × Act) :=
  runT 0 (enq 5 [0, 1]) 8 ++
  [(0, deq [0, 1]), (1, deq [0, 1])] ++ steps 0 3 ++ steps 1 3 ++ steps 0 1 ++ steps 1 2 ++ [(1, .ret), (0, .ret)]

example : (traceOf 2 deqRaceSched).map (·.drop 10) = some
    ["T 0 C deq [0, 1]", "T 1 C deq [0, 1]",
     "T 0 A ld segHead s0", "T 0 A ld segHead s0", "T 0 A ld s0.c0 i5",
     "T 1 A ld segHead s0", "T 1 A ld segHead s0", "T 1 A ld s0.c0 i5",
     "T 0 A cas+ s0.c0 i5 i5|1", "T 1 A cas- s0.c0 i5|1 i5", "T 1 A ld s0.c1 null",
     "T 1 R [0]", "T 0 R [1, 5]"] := by
  decide +kernel

/-- Head segment removal.  s0 = [1|1, 2|1] (exhausted), s1 = [3, null].  Threads 1 and 2 both scan s0 and find it
    exhausted.  Thread 1 removes it (head := s1) and takes 3 from s1; thread 2, whose pointer is stale, only
    re-publishes the front of the list, scans s1, finds 3 taken and a null cell: EMPTY. -/
def removeSched : List (Tid × Act) :=
  runT 0 (enq 1 [0, 1]) 8 ++ runT 0 (enq 2 [0, 1]) 5 ++ runT 0 (enq 3 [0, 1, 0, 1]) 9 ++
  runT 0 (deq [0, 1]) 4 ++ runT 0 (deq [0, 1]) 5 ++
  [(1, deq [0, 1, 0, 1]), (2, deq [0, 1, 0, 1])] ++ steps 1 4 ++ steps 2 4 ++ steps 1 5 ++ [(1, .ret)] ++
  steps 2 5 ++ [(2, .ret)]

example : (traceOf 2 removeSched).map (·.drop 41) = some
    ["T 1 C deq [0, 1, 0, 1]", "T 2 C deq [0, 1, 0, 1]",
     "T 1 A ld segHead s0", "T 1 A ld segHead s0", "T 1 A ld s0.c0 i1|1", "T 1 A ld s0.c1 i2|1",
     "T 2 A ld segHead s0", "T 2 A ld segHead s0", "T 2 A ld s0.c0 i1|1", "T 2 A ld s0.c1 i2|1",
     "T 1 A xchg segLock 0 1", "T 1 A st segHead s1", "T 1 A st segLock 0", "T 1 A ld s1.c0 i3",
     "T 1 A cas+ s1.c0 i3 i3|1", "T 1 R [1, 3]",
     "T 2 A xchg segLock 0 1", "T 2 A st segHead s1", "T 2 A st segLock 0", "T 2 A ld s1.c0 i3|1",
     "T 2 A ld s1.c1 null", "T 2 R [0]"] := by
  decide +kernel

/-- The last dequeue of a queue with one exhausted segment empties the list: tail := null, head := null, EMPTY;
    the next enqueue starts a new list. -/
def drainSched : List (Tid × Act) :=
  runT 0 (enq 1 [0, 1]) 8 ++ runT 0 (enq 2 [0, 1]) 5 ++ runT 0 (deq [0, 1]) 4 ++ runT 0 (deq [0, 1]) 5 ++
  runT 1 (deq [0, 1]) 8 ++ runT 1 (deq [0, 1]) 2 ++ runT 0 (enq 3 [1, 0]) 8

example : (traceOf 2 drainSched).map (·.drop 30) = some
    ["T 1 C deq [0, 1]", "T 1 A ld segHead s0", "T 1 A ld segHead s0", "T 1 A ld s0.c0 i1|1", "T 1 A ld s0.c1 i2|1",
     "T 1 A xchg segLock 0 1", "T 1 A st segTail null", "T 1 A st segHead null", "T 1 A st segLock 0", "T 1 R [0]",
     "T 1 C deq [0, 1]", "T 1 A ld segHead null", "T 1 A ld segHead null", "T 1 R [0]",
     "T 0 C enq [3, 1, 0]", "T 0 A ld segTail null", "T 0 A ld segTail null", "T 0 A xchg segLock 0 1",
     "T 0 A st segHead s1", "T 0 A st segTail s1", "T 0 A st segLock 0", "T 0 A ld s1.c1 null",
     "T 0 A cas+ s1.c1 null i3", "T 0 R [1]"] := by
  decide +kernel

end CdsVerif.Props.C08Segmented

/-
  Preservation of the LazyList invariant, and the effect on the abstract map: taking `pPred->m_Lock` (spin lock: exchange, and the load of the wait loop).
-/
import CdsVerif.Algo.Lazy.Inv
namespace CdsVerif.Algo.Lazy
open CdsVerif.Machine CdsVerif.Spec CdsVerif.Lin
open CdsVerif.Algo.Michael (Chain insAfter mem_insAfter pairwise_insAfter LPok)

set_option maxHeartbeats 4000000 in
theorem sinvl_step_lkP {s s' : St} {t : Tid} {ev : Ev} {L : List Nat} {o : OpK} {p c : Nat}
    (h : SInvL s L) (hpc : s.pc t = .lkP o p c) (hs : step s t = some (s', ev)) :
    ∃ L', SInvL s' L' ∧ StepEff s t s' L L' := by
  have hz := h.zero_mem
  have hplt : p < s.cnt := h.lt_cnt (h.lkPrev t p (by simp [hpc, pcPrev])).2
  have hclt : c < s.cnt := h.lt_cnt (h.lkCur t c (by simp [hpc, pcCur])).2
  pc_facts
  sinv_open h
  simp only [step, hpc] at hs
  split at hs
  next hl =>
    simp at hs; obtain ⟨rfl, -⟩ := hs
    step_close L
  next hl =>
    simp at hs; obtain ⟨rfl, -⟩ := hs
    step_close L

set_option maxHeartbeats 4000000 in
theorem sinvl_step_spP {s s' : St} {t : Tid} {ev : Ev} {L : List Nat} {o : OpK} {p c : Nat}
    (h : SInvL s L) (hpc : s.pc t = .spP o p c) (hs : step s t = some (s', ev)) :
    ∃ L', SInvL s' L' ∧ StepEff s t s' L L' := by
  pc_facts
  sinv_open h
  simp only [step, hpc] at hs
  split at hs
  next hl =>
    simp at hs; obtain ⟨rfl, -⟩ := hs
    step_close L
  next hl =>
    simp at hs; obtain ⟨rfl, -⟩ := hs
    step_close L

end CdsVerif.Algo.Lazy

// Tie D for C27: the split-order helpers of SplitListSet, called on the real code.
#include <cstdint>
#include <cstdio>
#include <cstdlib>
#include <cds/init.h>
#include <cds/gc/hp.h>
#include <cds/intrusive/michael_list_hp.h>
#include <cds/intrusive/split_list.h>

namespace ci = cds::intrusive;
namespace br = cds::algo::bit_reversal;
struct vitem : ci::split_list::node< ci::michael_list::node<cds::gc::HP> > { int k; };
struct vhash { size_t operator()( vitem const& i ) const { return size_t( i.k ); } size_t operator()( int k ) const { return size_t( k ); } };
struct vcmp { int operator()( vitem const& a, vitem const& b ) const { return a.k - b.k; } int operator()( vitem const& a, int b ) const { return a.k - b; } int operator()( int a, vitem const& b ) const { return a - b.k; } };
struct vlist_traits : ci::michael_list::traits { typedef ci::michael_list::base_hook< cds::opt::gc<cds::gc::HP> > hook; typedef vcmp compare; };
typedef ci::MichaelList< cds::gc::HP, vitem, vlist_traits > vlist;
struct vset_traits : ci::split_list::traits { typedef vhash hash; };
typedef ci::SplitListSet< cds::gc::HP, vlist, vset_traits > vset;

static uint64_t rng_s;
static uint64_t rnd()
{
    uint64_t z = ( rng_s += 0x9E3779B97F4A7C15ull );
    z = ( z ^ ( z >> 30 )) * 0xBF58476D1CE4E5B9ull;
    z = ( z ^ ( z >> 27 )) * 0x94D049BB133111EBull;
    return z ^ ( z >> 31 );
}

int main( int argc, char** argv )
{
    uint64_t seed = argc > 1 ? strtoull( argv[1], nullptr, 10 ) : 1;
    size_t nrandom = argc > 2 ? strtoull( argv[2], nullptr, 10 ) : 500;
    rng_s = seed * 0x2545F4914F6CDD1Dull + 3;
    cds::Initialize();
    {
        cds::gc::HP hp;
        cds::threading::Manager::attachThread();
        {
            vset s;
            for ( size_t i = 0; i < nrandom; ++i ) {
                uint64_t h = rnd();
                switch ( i % 5 ) { case 1: h >>= rnd() % 64; break; case 2: h = 1ull << ( rnd() % 64 ); break; case 3: h = ~0ull >> ( rnd() % 64 ); break; }
                printf( "regular_hash_swar %lu -> %lu\n", h, ci::split_list::regular_hash<br::swar>( h ));
                printf( "regular_hash_lookup %lu -> %lu\n", h, ci::split_list::regular_hash<br::lookup>( h ));
                printf( "regular_hash_muldiv %lu -> %lu\n", h, ci::split_list::regular_hash<br::muldiv>( h ));
                printf( "dummy_hash_swar %lu -> %lu\n", h, ci::split_list::dummy_hash<br::swar>( h ));
                printf( "dummy_hash_lookup %lu -> %lu\n", h, ci::split_list::dummy_hash<br::lookup>( h ));
                printf( "dummy_hash_muldiv %lu -> %lu\n", h, ci::split_list::dummy_hash<br::muldiv>( h ));
                if ( h )
                    printf( "parent_bucket %lu -> %lu\n", h, vset::parent_bucket( h ));
                for ( unsigned k : { unsigned( i % 64 ), 0u, 1u, 30u, 31u, 32u, 33u, 63u } ) {
                    s.m_nBucketCountLog2.store( k );
                    printf( "bucket_no %u %lu -> %lu\n", k, h, s.bucket_no( h ));
                }
            }
            s.m_nBucketCountLog2.store( 1 );
        }
        cds::threading::Manager::detachThread();
    }
    cds::Terminate();
    return 0;
}

/-
  Structural invariant of the Treiber stack model and the refinement of the abstract stack.

  * `Chain s.next s.top l` : following `next` from `top` visits exactly the nodes `l` and then null.
  * `SInvL s l` : the chain `l` is duplicate-free and consists of published nodes (pushed, not yet popped);
    nodes still private to a pusher and nodes already popped are outside the chain and stay outside
    (garbage-collected heap: fresh identities, no reuse).
  * `absStack s` : the values along the chain.
  * `step_refines` : a step that passes a linearization point (successful CAS of push / pop, validating load
    of null in pop) is exactly one `lifo` step on `absStack` with the result the operation will return;
    every other step leaves `absStack` unchanged.
-/
import CdsVerif.Algo.Treiber.Model
namespace CdsVerif.Algo.Treiber
open CdsVerif.Machine CdsVerif.Spec CdsVerif.Lin

/-! ### Chains -/

def Chain (nx : Nat → Option Nat) : Option Nat → List Nat → Prop
  | p, [] => p = none
  | p, a :: l => p = some a ∧ Chain nx (nx a) l

theorem Chain.functional {nx : Nat → Option Nat} : ∀ {p : Option Nat} {l1 l2 : List Nat},
    Chain nx p l1 → Chain nx p l2 → l1 = l2
  | _, [], [], _, _ => rfl
  | _, [], _ :: _, h1, h2 => by simp [Chain] at h1 h2; simp [h1] at h2
  | _, _ :: _, [], h1, h2 => by simp [Chain] at h1 h2; simp [h2] at h1
  | _, a :: l1, b :: l2, h1, h2 => by
    simp only [Chain] at h1 h2
    have hab : a = b := by have := h1.1.symm.trans h2.1; simpa using this
    subst hab
    rw [Chain.functional h1.2 h2.2]

theorem Chain.upd {nx : Nat → Option Nat} {x : Nat} {v : Option Nat} :
    ∀ {p : Option Nat} {l : List Nat}, x ∉ l → Chain nx p l → Chain (upd nx x v) p l
  | _, [], _, h => h
  | _, a :: l, hx, h => by
    simp only [Chain] at h ⊢
    have hax : a ≠ x := fun e => hx (by simp [e])
    refine ⟨h.1, ?_⟩
    rw [upd_other _ _ _ _ hax]
    exact Chain.upd (fun hm => hx (List.mem_cons_of_mem _ hm)) h.2

/-- Executable chain walk with fuel. -/
def walk (nx : Nat → Option Nat) : Nat → Option Nat → List Nat
  | 0, _ => []
  | _ + 1, none => []
  | f + 1, some a => a :: walk nx f (nx a)

theorem walk_none (nx : Nat → Option Nat) (f : Nat) : walk nx f none = [] := by cases f <;> rfl

theorem walk_of_chain {nx : Nat → Option Nat} : ∀ {fuel : Nat} {p : Option Nat} {l : List Nat},
    Chain nx p l → l.length ≤ fuel → walk nx fuel p = l
  | 0, _, [], _, _ => rfl
  | 0, _, _ :: _, _, hl => by simp at hl
  | f + 1, _, [], h, _ => by simp only [Chain] at h; subst h; rfl
  | f + 1, _, a :: l, h, hl => by
    simp only [Chain] at h
    obtain ⟨rfl, h2⟩ := h
    simp only [walk]
    rw [walk_of_chain h2 (by simpa using hl)]

theorem length_le_of_nodup_lt {l : List Nat} {n : Nat} (hn : l.Nodup) (hlt : ∀ a ∈ l, a < n) : l.length ≤ n := by
  have := List.Nodup.length_le_of_subset (l₂ := List.range n) hn (fun a ha => List.mem_range.mpr (hlt a ha))
  simpa using this

/-- The nodes reachable from `top` (fuel: the number of nodes ever allocated). -/
def absNodes (s : St) : List Nat := walk s.next s.cnt s.top
/-- The abstract stack: the values along the chain, top first. -/
def absStack (s : St) : List Int := (absNodes s).map s.val

/-! ### The structural invariant -/

/-- The node a pusher still owns privately (before its successful CAS). -/
def pushNode : PC → Option Nat
  | .pushLd n => some n
  | .pushSt n _ => some n
  | .pushCas n _ => some n
  | _ => none

/-- `a` has been allocated and is no longer private to a pusher: it is or was in the stack. -/
def Pub (s : St) (a : Nat) : Prop := a < s.cnt ∧ ∀ t, pushNode (s.pc t) ≠ some a

structure SInvL (s : St) (l : List Nat) : Prop where
  chain : Chain s.next s.top l
  nodup : l.Nodup
  pub : ∀ a, a ∈ l → Pub s a
  fresh : ∀ t n, pushNode (s.pc t) = some n → n < s.cnt
  own : ∀ t1 t2 n, pushNode (s.pc t1) = some n → pushNode (s.pc t2) = some n → t1 = t2
  linked : ∀ t n tv, s.pc t = .pushCas n tv → s.next n = tv
  casx : ∀ t a nx, s.pc t = .popCas a nx → Pub s a ∧ (a ∈ l → s.next a = nx)
  nxt : ∀ t a, s.pc t = .popNext a → Pub s a
  clr : ∀ t a r, s.pc t = .popClr a r → Pub s a ∧ a ∉ l

def SInv (s : St) : Prop := ∃ l, SInvL s l

theorem SInvL.absNodes_eq {s : St} {l : List Nat} (h : SInvL s l) : absNodes s = l :=
  walk_of_chain h.chain (length_le_of_nodup_lt h.nodup (fun a ha => (h.pub a ha).1))

theorem SInvL.absStack_eq {s : St} {l : List Nat} (h : SInvL s l) : absStack s = l.map s.val := by
  simp [absStack, h.absNodes_eq]

theorem SInvL.unique {s : St} {l1 l2 : List Nat} (h1 : SInvL s l1) (h2 : SInvL s l2) : l1 = l2 :=
  Chain.functional h1.chain h2.chain

theorem sinv_init : SInvL init [] := by
  constructor <;> simp [init, Chain, pushNode]

/-! ### Linearization-point bookkeeping on program counters -/

/-- The result fixed at the linearization point, for a thread that has passed it. -/
def postRet : PC → Option GRet
  | .popClr _ r => some r
  | .done r => some r
  | _ => none

/-- The operation a thread is executing, while it has not passed its linearization point. -/
def opOf (val : Nat → Int) : PC → Option GOp
  | .pushLd n => some ⟨"push", [val n]⟩
  | .pushSt n _ => some ⟨"push", [val n]⟩
  | .pushCas n _ => some ⟨"push", [val n]⟩
  | .popLd1 => some ⟨"pop", []⟩
  | .popLd2 _ => some ⟨"pop", []⟩
  | .popNext _ => some ⟨"pop", []⟩
  | .popCas _ _ => some ⟨"pop", []⟩
  | _ => none

theorem lifo_push (st : List Int) (v : Int) : lifo.next st ⟨"push", [v]⟩ [1] = some (v :: st) := by
  simp [lifo, detSpec, lifoStep]
theorem lifo_pop_some (st : List Int) (v : Int) : lifo.next (v :: st) ⟨"pop", []⟩ [1, v] = some st := by
  simp [lifo, detSpec, lifoStep]
theorem lifo_pop_none : lifo.next [] ⟨"pop", []⟩ [0] = some [] := by
  simp [lifo, detSpec, lifoStep]

/-! ### Preservation: atomic steps -/

/-- Effect of one atomic step of thread `t` on the chain `l ↦ l'`.
    `lp`: a step that passes the linearization point is one `lifo` step on the abstract stack, for the operation the
    thread is executing and with the result it is going to return.  `nolp`: every other step leaves the chain as it is. -/
structure StepEff (s : St) (t : Tid) (s' : St) (l l' : List Nat) : Prop where
  frame : ∀ t2, t2 ≠ t → s'.pc t2 = s.pc t2
  val : s'.val = s.val
  cnt : s'.cnt = s.cnt
  lp : postRet (s.pc t) = none → ∀ r, postRet (s'.pc t) = some r →
        ∃ op, opOf s.val (s.pc t) = some op ∧ lifo.next (l.map s.val) op r = some (l'.map s.val)
  nolp : (postRet (s.pc t) ≠ none ∨ postRet (s'.pc t) = none) → l' = l
  keep : ∀ r, postRet (s.pc t) = some r → postRet (s'.pc t) = some r
  op : postRet (s'.pc t) = none → opOf s'.val (s'.pc t) = opOf s.val (s.pc t)
  busy : s.pc t ≠ .idle ∧ s'.pc t ≠ .idle
  sub : ∀ a, a ∈ l' → a ∈ l ∨ pushNode (s.pc t) = some a
  pubmono : ∀ a, Pub s a → Pub s' a

macro "sinv_close" : tactic =>
  `(tactic| (constructor <;> intros <;> (try dsimp only at *) <;> grind [upd, Pub, pushNode, Chain, Chain.upd]))
macro "eff_close" : tactic =>
  `(tactic| (constructor <;> intros <;> (try dsimp only at *) <;>
      grind [upd, postRet, opOf, Pub, pushNode, lifo_push, lifo_pop_some, lifo_pop_none]))

theorem sinvl_step_pushLd {s s' : St} {t : Tid} {ev : Ev} {l : List Nat} {n : Nat}
    (h : SInvL s l) (hpc : s.pc t = .pushLd n) (hs : step s t = some (s', ev)) :
    ∃ l', SInvL s' l' ∧ StepEff s t s' l l' := by
  obtain ⟨hch, hnd, hpub, hfr, hown, hlk, hcx, hnx, hcl⟩ := h
  simp only [step, hpc] at hs
  simp at hs; obtain ⟨rfl, -⟩ := hs
  refine ⟨l, ?_, ?_⟩
  · sinv_close
  · eff_close

theorem sinvl_step_pushSt {s s' : St} {t : Tid} {ev : Ev} {l : List Nat} {n : Nat} {tv : Option Nat}
    (h : SInvL s l) (hpc : s.pc t = .pushSt n tv) (hs : step s t = some (s', ev)) :
    ∃ l', SInvL s' l' ∧ StepEff s t s' l l' := by
  obtain ⟨hch, hnd, hpub, hfr, hown, hlk, hcx, hnx, hcl⟩ := h
  simp only [step, hpc] at hs
  simp at hs; obtain ⟨rfl, -⟩ := hs
  have hn : n ∉ l := fun hm => (hpub n hm).2 t (by simp [hpc, pushNode])
  have hch' := Chain.upd (v := tv) hn hch
  refine ⟨l, ?_, ?_⟩
  · sinv_close
  · eff_close

theorem sinvl_step_pushCas {s s' : St} {t : Tid} {ev : Ev} {l : List Nat} {n : Nat} {tv : Option Nat}
    (h : SInvL s l) (hpc : s.pc t = .pushCas n tv) (hs : step s t = some (s', ev)) :
    ∃ l', SInvL s' l' ∧ StepEff s t s' l l' := by
  obtain ⟨hch, hnd, hpub, hfr, hown, hlk, hcx, hnx, hcl⟩ := h
  simp only [step, hpc] at hs
  split at hs
  next heq =>
    simp at hs; obtain ⟨rfl, -⟩ := hs
    have hn : n ∉ l := fun hm => (hpub n hm).2 t (by simp [hpc, pushNode])
    have hnn := hlk t n tv hpc
    refine ⟨n :: l, ?_, ?_⟩
    · sinv_close
    · have hlp : lifo.next (l.map s.val) ⟨"push", [s.val n]⟩ [1] = some ((n :: l).map s.val) := by
        simp [lifo_push]
      eff_close
  next hne =>
    simp at hs; obtain ⟨rfl, -⟩ := hs
    refine ⟨l, ?_, ?_⟩
    · sinv_close
    · eff_close

theorem sinvl_step_popLd1 {s s' : St} {t : Tid} {ev : Ev} {l : List Nat} 
    (h : SInvL s l) (hpc : s.pc t = .popLd1) (hs : step s t = some (s', ev)) :
    ∃ l', SInvL s' l' ∧ StepEff s t s' l l' := by
  obtain ⟨hch, hnd, hpub, hfr, hown, hlk, hcx, hnx, hcl⟩ := h
  simp only [step, hpc] at hs
  simp at hs; obtain ⟨rfl, -⟩ := hs
  refine ⟨l, ?_, ?_⟩
  · sinv_close
  · eff_close

theorem sinvl_step_popLd2 {s s' : St} {t : Tid} {ev : Ev} {l : List Nat} {p : Option Nat}
    (h : SInvL s l) (hpc : s.pc t = .popLd2 p) (hs : step s t = some (s', ev)) :
    ∃ l', SInvL s' l' ∧ StepEff s t s' l l' := by
  obtain ⟨hch, hnd, hpub, hfr, hown, hlk, hcx, hnx, hcl⟩ := h
  simp only [step, hpc] at hs
  split at hs
  next heq =>
    split at hs
    next =>
      simp at hs; obtain ⟨rfl, -⟩ := hs
      refine ⟨l, ?_, ?_⟩
      · sinv_close
      · have hl : l = [] := by cases l <;> simp_all [Chain]
        subst hl
        eff_close
    next a =>
      simp at hs; obtain ⟨rfl, -⟩ := hs
      have ha : a ∈ l := by cases l <;> simp_all [Chain]
      refine ⟨l, ?_, ?_⟩
      · sinv_close
      · eff_close
  next hne =>
    simp at hs; obtain ⟨rfl, -⟩ := hs
    refine ⟨l, ?_, ?_⟩
    · sinv_close
    · eff_close

theorem sinvl_step_popNext {s s' : St} {t : Tid} {ev : Ev} {l : List Nat} {a : Nat}
    (h : SInvL s l) (hpc : s.pc t = .popNext a) (hs : step s t = some (s', ev)) :
    ∃ l', SInvL s' l' ∧ StepEff s t s' l l' := by
  obtain ⟨hch, hnd, hpub, hfr, hown, hlk, hcx, hnx, hcl⟩ := h
  simp only [step, hpc] at hs
  simp at hs; obtain ⟨rfl, -⟩ := hs
  refine ⟨l, ?_, ?_⟩
  · sinv_close
  · eff_close

theorem sinvl_step_popCas {s s' : St} {t : Tid} {ev : Ev} {l : List Nat} {a : Nat} {nx : Option Nat}
    (h : SInvL s l) (hpc : s.pc t = .popCas a nx) (hs : step s t = some (s', ev)) :
    ∃ l', SInvL s' l' ∧ StepEff s t s' l l' := by
  obtain ⟨hch, hnd, hpub, hfr, hown, hlk, hcx, hnx, hcl⟩ := h
  simp only [step, hpc] at hs
  split at hs
  next heq =>
    simp at hs; obtain ⟨rfl, -⟩ := hs
    obtain ⟨hpa, hnxa⟩ := hcx t a nx hpc
    cases l with
    | nil => simp_all [Chain]
    | cons b l0 =>
      have hb : b = a := by simp_all [Chain]
      subst hb
      have hnx' := hnxa (by simp)
      refine ⟨l0, ?_, ?_⟩
      · sinv_close
      · eff_close
  next hne =>
    simp at hs; obtain ⟨rfl, -⟩ := hs
    refine ⟨l, ?_, ?_⟩
    · sinv_close
    · eff_close

theorem sinvl_step_popClr {s s' : St} {t : Tid} {ev : Ev} {l : List Nat} {a : Nat} {r : GRet}
    (h : SInvL s l) (hpc : s.pc t = .popClr a r) (hs : step s t = some (s', ev)) :
    ∃ l', SInvL s' l' ∧ StepEff s t s' l l' := by
  obtain ⟨hch, hnd, hpub, hfr, hown, hlk, hcx, hnx, hcl⟩ := h
  simp only [step, hpc] at hs
  simp at hs; obtain ⟨rfl, -⟩ := hs
  have hn : a ∉ l := (hcl t a r hpc).2
  have hch' := Chain.upd (v := none) hn hch
  refine ⟨l, ?_, ?_⟩
  · sinv_close
  · eff_close

theorem sinvl_step {s s' : St} {t : Tid} {ev : Ev} {l : List Nat}
    (h : SInvL s l) (hs : step s t = some (s', ev)) : ∃ l', SInvL s' l' ∧ StepEff s t s' l l' := by
  cases hpc : s.pc t with
  | idle => simp [step, hpc] at hs
  | done r => simp [step, hpc] at hs
  | pushLd n => exact sinvl_step_pushLd h hpc hs
  | pushSt n tv => exact sinvl_step_pushSt h hpc hs
  | pushCas n tv => exact sinvl_step_pushCas h hpc hs
  | popLd1 => exact sinvl_step_popLd1 h hpc hs
  | popLd2 p => exact sinvl_step_popLd2 h hpc hs
  | popNext a => exact sinvl_step_popNext h hpc hs
  | popCas a nx => exact sinvl_step_popCas h hpc hs
  | popClr a r => exact sinvl_step_popClr h hpc hs

/-! ### Preservation: invocation and return -/

structure InvokeEff (s : St) (t : Tid) (op : GOp) (s' : St) (l : List Nat) : Prop where
  frame : ∀ t2, t2 ≠ t → s'.pc t2 = s.pc t2
  ops : ∀ t2, t2 ≠ t → opOf s'.val (s.pc t2) = opOf s.val (s.pc t2)
  was : s.pc t = .idle
  now : opOf s'.val (s'.pc t) = some op ∧ postRet (s'.pc t) = none
  abs : l.map s'.val = l.map s.val
  pubmono : ∀ a, Pub s a → Pub s' a

theorem sinvl_invoke {s s' : St} {t : Tid} {op : GOp} {l : List Nat}
    (h : SInvL s l) (hs : invoke s t op = some s') : SInvL s' l ∧ InvokeEff s t op s' l := by
  obtain ⟨hch, hnd, hpub, hfr, hown, hlk, hcx, hnx, hcl⟩ := h
  obtain ⟨name, args⟩ := op
  unfold invoke at hs
  split at hs
  next v hpc hname hargs =>
    simp at hs; subst hs
    dsimp only at hname hargs; subst hname hargs
    have hfr' : ∀ t2 n, pushNode (s.pc t2) = some n → n ≠ s.cnt := fun t2 n h => Nat.ne_of_lt (hfr t2 n h)
    refine ⟨?_, ?_⟩
    · sinv_close
    · constructor <;> intros <;> (try dsimp only at *)
      · grind [upd]
      · rename_i t2 ht2
        cases hq : s.pc t2 <;> simp [opOf, upd]
        all_goals exact fun e => absurd e (hfr' t2 _ (by simp [hq, pushNode]))
      · exact hpc
      · simp [upd, opOf, postRet]
      · apply List.map_congr_left
        intro a ha
        have := (hpub a ha).1
        simp [upd]; omega
      · grind [upd, Pub, pushNode]
  next hpc hname hargs =>
    simp at hs; subst hs
    dsimp only at hname hargs; subst hname hargs
    refine ⟨?_, ?_⟩
    · sinv_close
    · constructor <;> intros <;> (try dsimp only at *) <;> grind [upd, opOf, postRet, Pub, pushNode]
  next => simp at hs

theorem sinvl_result {s s' : St} {t : Tid} {r : GRet} {l : List Nat}
    (h : SInvL s l) (hs : result s t = some (s', r)) :
    SInvL s' l ∧ s.pc t = .done r ∧ s'.pc t = .idle ∧ (∀ t2, t2 ≠ t → s'.pc t2 = s.pc t2) ∧ s'.val = s.val ∧
    (∀ a, Pub s a → Pub s' a) := by
  obtain ⟨hch, hnd, hpub, hfr, hown, hlk, hcx, hnx, hcl⟩ := h
  unfold result at hs
  split at hs
  next r' hpc =>
    simp at hs; obtain ⟨rfl, rfl⟩ := hs
    refine ⟨?_, hpc, by simp [upd], fun t2 h2 => by simp [upd, h2], rfl, ?_⟩
    · sinv_close
    · intros; grind [upd, Pub, pushNode]
  next => simp at hs

/-! ### Reachable states -/

theorem sinv_apply {s s' : St} {t : Tid} {a : Act} {o : Obs} (h : SInv s)
    (hap : model.apply s t a = some (s', o)) : SInv s' := by
  obtain ⟨l, hl⟩ := h
  cases a with
  | invoke op =>
    simp only [Model.apply, model, Option.map_eq_some_iff] at hap
    obtain ⟨s1, hs1, heq⟩ := hap
    simp only [Prod.mk.injEq] at heq
    obtain ⟨rfl, -⟩ := heq
    exact ⟨l, (sinvl_invoke hl hs1).1⟩
  | step =>
    simp only [Model.apply, model, Option.map_eq_some_iff] at hap
    obtain ⟨⟨s1, e⟩, hs1, heq⟩ := hap
    simp only [Prod.mk.injEq] at heq
    obtain ⟨rfl, -⟩ := heq
    obtain ⟨l', hl', -⟩ := sinvl_step hl hs1
    exact ⟨l', hl'⟩
  | ret =>
    simp only [Model.apply, model, Option.map_eq_some_iff] at hap
    obtain ⟨⟨s1, r⟩, hs1, heq⟩ := hap
    simp only [Prod.mk.injEq] at heq
    obtain ⟨rfl, -⟩ := heq
    exact ⟨l, (sinvl_result hl hs1).1⟩

theorem sinv_reachable (s : St) (h : model.Reachable init s) : SInv s :=
  model.inv_reachable SInv init ⟨[], sinv_init⟩ (fun _ _ _ _ _ hi hap => sinv_apply hi hap) s h

/-- In every reachable state the chain from `top` is finite, duplicate-free, and made of published nodes;
    `absNodes` computes it. -/
theorem reachable_chain (s : St) (h : model.Reachable init s) :
    Chain s.next s.top (absNodes s) ∧ (absNodes s).Nodup ∧ ∀ a ∈ absNodes s, Pub s a := by
  obtain ⟨l, hl⟩ := sinv_reachable s h
  rw [hl.absNodes_eq]
  exact ⟨hl.chain, hl.nodup, hl.pub⟩

/-- Garbage-collected heap: a node that has left the stack (published, not in the chain) is never linked in again. -/
theorem never_relinked {s s' : St} {t : Tid} {a : Act} {o : Obs} (h : SInv s)
    (hap : model.apply s t a = some (s', o)) (x : Nat) (hx : Pub s x) (hout : x ∉ absNodes s) :
    Pub s' x ∧ x ∉ absNodes s' := by
  obtain ⟨l, hl⟩ := h
  rw [hl.absNodes_eq] at hout
  cases a with
  | invoke op =>
    simp only [Model.apply, model, Option.map_eq_some_iff] at hap
    obtain ⟨s1, hs1, heq⟩ := hap
    simp only [Prod.mk.injEq] at heq
    obtain ⟨rfl, -⟩ := heq
    obtain ⟨hl', he⟩ := sinvl_invoke hl hs1
    rw [hl'.absNodes_eq]
    exact ⟨he.pubmono x hx, hout⟩
  | step =>
    simp only [Model.apply, model, Option.map_eq_some_iff] at hap
    obtain ⟨⟨s1, e⟩, hs1, heq⟩ := hap
    simp only [Prod.mk.injEq] at heq
    obtain ⟨rfl, -⟩ := heq
    obtain ⟨l', hl', he⟩ := sinvl_step hl hs1
    rw [hl'.absNodes_eq]
    refine ⟨he.pubmono x hx, fun hm => ?_⟩
    rcases he.sub x hm with h1 | h1
    · exact hout h1
    · exact hx.2 t h1
  | ret =>
    simp only [Model.apply, model, Option.map_eq_some_iff] at hap
    obtain ⟨⟨s1, r⟩, hs1, heq⟩ := hap
    simp only [Prod.mk.injEq] at heq
    obtain ⟨rfl, -⟩ := heq
    obtain ⟨hl', -, -, -, -, hp⟩ := sinvl_result hl hs1
    rw [hl'.absNodes_eq]
    exact ⟨hp x hx, hout⟩

/-- Refinement, on `absStack`: the step of `t` that fixes its result `r` (linearization point) is the `lifo`
    transition of `t`'s operation with result `r`; all other steps do not change the abstract stack. -/
theorem step_refines {s s' : St} {t : Tid} {ev : Ev} (h : SInv s) (hs : step s t = some (s', ev)) :
    (postRet (s.pc t) = none → ∀ r, postRet (s'.pc t) = some r →
      ∃ op, opOf s.val (s.pc t) = some op ∧ lifo.next (absStack s) op r = some (absStack s')) ∧
    ((postRet (s.pc t) ≠ none ∨ postRet (s'.pc t) = none) → absStack s' = absStack s) := by
  obtain ⟨l, hl⟩ := h
  obtain ⟨l', hl', he⟩ := sinvl_step hl hs
  rw [hl.absStack_eq, hl'.absStack_eq, he.val]
  refine ⟨he.lp, fun hc => by rw [he.nolp hc]⟩

/-- A pop decides to return "empty" only at a validating load of `top` that reads null, and at that instant the
    abstract stack is empty. -/
theorem pop_empty_step {s s' : St} {t : Tid} {ev : Ev} (h : SInv s) (hs : step s t = some (s', ev))
    (hpre : postRet (s.pc t) = none) (hpost : postRet (s'.pc t) = some [0]) :
    (∃ p, s.pc t = .popLd2 p) ∧ s.top = none ∧ absStack s = [] ∧ absStack s' = [] ∧ ev = evLd topLoc none := by
  obtain ⟨l, hl⟩ := h
  have hch := hl.chain
  unfold step at hs
  split at hs
  all_goals (try split at hs)
  all_goals (try split at hs)
  all_goals simp at hs
  all_goals obtain ⟨rfl, rfl⟩ := hs
  all_goals simp_all [upd, postRet]
  next heq =>
    have hl0 : l = [] := by cases l <;> simp_all [Chain]
    subst hl0
    simp [absStack, absNodes, walk_none, heq]

end CdsVerif.Algo.Treiber

/-
  The level-0 part of the executable predicate `invB` (`Abs.lean`) as a consequence of the invariant: the list
  `levelNodes s 0` computed by walking the level-0 pointers from the head IS the chain of the invariant.
-/
import CdsVerif.Algo.SkipList.Lin
import CdsVerif.Algo.SkipList.Abs
namespace CdsVerif.Algo.SkipList
open CdsVerif.Machine CdsVerif.Spec CdsVerif.Lin
open CdsVerif.Algo.Michael (Chain Lt)

theorem SInvL.levelNodes0 {c : Cfg} {s : St} {L : List Nat} (h : SInvL c s L) : L = 0 :: levelNodes s 0 := by
  obtain ⟨l, rfl⟩ := h.g.head_cons
  have hch := h.g.chain
  simp only [Chain] at hch
  have hnd := h.g.nodup
  have hlen : l.length ≤ s.cnt :=
    Michael.length_le_of_nodup_lt (List.nodup_cons.mp hnd).2 (fun a ha => h.g.alloc a (List.mem_cons_of_mem _ ha))
  have := Michael.walk_of_chain hch.2 hlen
  unfold levelNodes
  have e : (fun a => s.next a 0) = nx0 s.next := rfl
  rw [e]
  show 0 :: l = 0 :: Michael.walk (nx0 s.next) s.cnt (nx0 s.next 0)
  rw [this]

/-- Level 0, executable form: the items reached from the head along level 0 are allocated items with strictly
    increasing keys; an unmarked one carries a key of the abstract map, and no key occurs twice. -/
theorem SInvL.level0 {c : Cfg} {s : St} {L : List Nat} (h : SInvL c s L) :
    (levelNodes s 0).Pairwise (fun a b => s.key a < s.key b) ∧
    (∀ a, a ∈ levelNodes s 0 → 0 < a ∧ a < s.cnt ∧ 0 < s.ht a) ∧
    (∀ a, s.mark a 0 = true → ∀ l, l < s.ht a → s.mark a l = true) := by
  have hL := h.levelNodes0
  have hso := h.g.sorted
  rw [hL] at hso
  have hso' := List.pairwise_cons.mp hso
  refine ⟨?_, ?_, fun a ha l hl => h.g.mmono a l ha hl⟩
  · refine List.Pairwise.imp_of_mem ?_ hso'.2
    intro a b ha _ hab
    have ha0 : a ≠ 0 := (hso'.1 a ha).1
    rcases hab.2 with e | e
    · exact absurd e ha0
    · exact e
  · intro a ha
    have ha0 : a ≠ 0 := (hso'.1 a ha).1
    have haL : a ∈ L := by rw [hL]; exact List.mem_cons_of_mem _ ha
    exact ⟨Nat.pos_of_ne_zero ha0, h.g.alloc a haL, h.g.hpos a⟩

end CdsVerif.Algo.SkipList

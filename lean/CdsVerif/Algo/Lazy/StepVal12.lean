/-
  Preservation of the LazyList invariant, and the effect on the abstract map: the first two loads of `validate` (`pPred->is_marked()`, `pCur->is_marked()`).
-/
import CdsVerif.Algo.Lazy.Inv
namespace CdsVerif.Algo.Lazy
open CdsVerif.Machine CdsVerif.Spec CdsVerif.Lin
open CdsVerif.Algo.Michael (Chain insAfter mem_insAfter pairwise_insAfter LPok)

set_option maxHeartbeats 4000000 in
theorem sinvl_step_v1 {s s' : St} {t : Tid} {ev : Ev} {L : List Nat} {o : OpK} {p c : Nat}
    (h : SInvL s L) (hpc : s.pc t = .v1 o p c) (hs : step s t = some (s', ev)) :
    ∃ L', SInvL s' L' ∧ StepEff s t s' L L' := by
  pc_facts
  sinv_open h
  simp only [step, hpc] at hs
  split at hs
  next hl =>
    simp at hs; obtain ⟨rfl, -⟩ := hs
    step_close L
  next hl =>
    simp at hs; obtain ⟨rfl, -⟩ := hs
    step_close L

set_option maxHeartbeats 4000000 in
theorem sinvl_step_v2 {s s' : St} {t : Tid} {ev : Ev} {L : List Nat} {o : OpK} {p c : Nat}
    (h : SInvL s L) (hpc : s.pc t = .v2 o p c) (hs : step s t = some (s', ev)) :
    ∃ L', SInvL s' L' ∧ StepEff s t s' L L' := by
  pc_facts
  sinv_open h
  simp only [step, hpc] at hs
  split at hs
  next hl =>
    simp at hs; obtain ⟨rfl, -⟩ := hs
    step_close L
  next hl =>
    simp at hs; obtain ⟨rfl, -⟩ := hs
    step_close L

end CdsVerif.Algo.Lazy

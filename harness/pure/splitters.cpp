// Tie D for the splitters of cds/algo/split_bitstring.h and for bit_reverse_counter (C25, C26, C28).
// Prints `<model line> -> <observations>`; the model line is evaluated by `cdsdriver seqeval`.
#include <cstdint>
#include <cstdio>
#include <cstdlib>
#include <cstring>
#include <string>
#include <vector>
#include <cds/algo/split_bitstring.h>
#include <cds/details/bit_reverse_counter.h>

static uint64_t rng_s;
static uint64_t rnd()
{
    uint64_t z = ( rng_s += 0x9E3779B97F4A7C15ull );
    z = ( z ^ ( z >> 30 )) * 0xBF58476D1CE4E5B9ull;
    z = ( z ^ ( z >> 27 )) * 0x94D049BB133111EBull;
    return z ^ ( z >> 31 );
}

template <size_t N> struct blob { uint8_t b[N]; };
template <size_t N> struct padded { blob<N> src; uint8_t pad[16]; };   // reads past the end see zeros, like the model

struct CutOp { bool safe; unsigned count; };

static std::string ops_text( std::vector<CutOp> const& ops )
{
    std::string s;
    for ( auto const& o : ops ) { s += ' '; s += o.safe ? 's' : 'c'; s += std::to_string( o.count ); }
    return s;
}

template <size_t N>
static std::string hex( blob<N> const& b )
{
    char buf[3]; std::string s;
    for ( size_t i = 0; i < N; ++i ) { std::snprintf( buf, sizeof buf, "%02x", b.b[i] ); s += buf; }
    return s;
}

template <size_t N, class Splitter, bool Bytes>
static void run_bs( blob<N> const& src, size_t bitoff, std::vector<CutOp> const& ops )
{
    padded<N> p; std::memset( &p, 0, sizeof p ); p.src = src;
    Splitter sp( p.src, bitoff );
    std::printf( "%s 32 %s %zu%s ->", Bytes ? "bytes" : "bs", hex( src ).c_str(), bitoff, ops_text( ops ).c_str());
    for ( auto const& o : ops ) {
        unsigned r = o.safe ? sp.safe_cut( o.count ) : sp.cut( o.count );
        size_t off = sp.bit_offset();
        std::printf( " %u/%zu/%zu", r, off / 8, off % 8 );
    }
    std::printf( "\n" );
}

// operation sequences -------------------------------------------------------------------------
// (a) a random composition of `total` bits into cuts of at most `maxw` bits (multiples of `step`)
static std::vector<CutOp> partition( unsigned total, unsigned maxw, unsigned step, bool with_safe )
{
    std::vector<CutOp> ops;
    unsigned left = total;
    while ( left ) {
        unsigned w = step * unsigned( 1 + rnd() % ( maxw / step ));
        if ( w > left ) w = left;
        ops.push_back( CutOp{ with_safe && rnd() % 3 == 0, w } );
        left -= w;
    }
    return ops;
}
// (b) defined cuts while enough bits remain, then safe cuts around and past the end
static std::vector<CutOp> mixed( unsigned total, unsigned maxw, unsigned step )
{
    std::vector<CutOp> ops;
    unsigned pos = 0;
    while ( true ) {
        unsigned w = step * unsigned( 1 + rnd() % ( maxw / step ));
        if ( pos + w <= total && rnd() % 4 ) { ops.push_back( CutOp{ false, w } ); pos += w; }
        else { ops.push_back( CutOp{ true, w } ); pos = pos + w > total ? total : pos + w; if ( ops.size() > 12 || ( pos == total && rnd() % 2 )) break; }
    }
    ops.push_back( CutOp{ true, step * unsigned( 1 + rnd() % ( maxw / step )) } );   // one more at or past the end
    return ops;
}

template <size_t N>
static void family( size_t nrandom )
{
    typedef cds::algo::split_bitstring< blob<N>, N > bs_t;
    typedef cds::algo::byte_splitter< blob<N>, N > by_t;
    for ( size_t i = 0; i < nrandom; ++i ) {
        blob<N> b;
        for ( size_t k = 0; k < N; ++k ) b.b[k] = uint8_t( rnd());
        if ( i % 7 == 0 ) std::memset( &b, 0xff, N );
        run_bs<N, bs_t, false>( b, 0, partition( unsigned( N * 8 ), 32, 1, false ));
        run_bs<N, bs_t, false>( b, 0, partition( unsigned( N * 8 ), 32, 1, true ));
        run_bs<N, bs_t, false>( b, 0, mixed( unsigned( N * 8 ), 32, 1 ));
        size_t off = rnd() % ( N * 8 );
        run_bs<N, bs_t, false>( b, off, partition( unsigned( N * 8 - off ), 32, 1, true ));
        run_bs<N, bs_t, false>( b, off, mixed( unsigned( N * 8 - off ), 32, 1 ));        // a splitter started at an offset, walked up to and past the end
        run_bs<N, by_t, true>( b, 0, partition( unsigned( N * 8 ), 32, 8, false ));
        run_bs<N, by_t, true>( b, 0, partition( unsigned( N * 8 ), 32, 8, true ));
        run_bs<N, by_t, true>( b, 0, mixed( unsigned( N * 8 ), 32, 8 ));
        size_t boff = 8 * ( rnd() % N );
        run_bs<N, by_t, true>( b, boff, partition( unsigned( N * 8 - boff ), 32, 8, true ));
        run_bs<N, by_t, true>( b, boff, mixed( unsigned( N * 8 - boff ), 32, 8 ));
    }
}

// all compositions of `total` bits (exhaustive small scope): bit i of mask set = a cut ends after bit i
template <size_t N>
static void all_compositions( blob<N> const& b, bool safe )
{
    typedef cds::algo::split_bitstring< blob<N>, N > bs_t;
    unsigned total = unsigned( N * 8 );
    for ( uint32_t mask = 0; mask < ( 1u << ( total - 1 )); ++mask ) {
        std::vector<CutOp> ops;
        unsigned w = 0;
        for ( unsigned i = 0; i < total; ++i ) {
            ++w;
            if ( i == total - 1 || (( mask >> i ) & 1 )) { ops.push_back( CutOp{ safe, w } ); w = 0; }
        }
        run_bs<N, bs_t, false>( b, 0, ops );
    }
}

static void number_family( size_t nrandom )
{
    for ( size_t i = 0; i < nrandom; ++i ) {
        uint64_t n = rnd();
        if ( i % 5 == 0 ) n = ~0ull;
        unsigned off = i % 3 ? 0 : unsigned( rnd() % 64 );
        // widths below 32 keep the int mask defined; every third sequence uses the full admitted range 1..63
        std::vector<CutOp> ops = i % 3 == 1 ? partition( 64 - off, 63, 1, true ) : partition( 64 - off, 31, 1, true );
        if ( i % 2 ) { ops.push_back( CutOp{ true, unsigned( 1 + rnd() % 31 ) } ); }
        cds::algo::number_splitter<uint64_t> sp( n, off );
        std::printf( "ns %lu %u%s ->", (unsigned long) n, off, ops_text( ops ).c_str());
        for ( auto const& o : ops ) {
            uint64_t r = o.safe ? sp.safe_cut( o.count ) : sp.cut( o.count );
            std::printf( " %lu/%zu", (unsigned long) r, sp.bit_offset());
        }
        std::printf( "\n" );
    }
}

static void counter_run( std::vector<bool> const& ops )
{
    cds::bitop::bit_reverse_counter<> c;
    std::printf( "counter" );
    for ( bool i : ops ) std::printf( " %c", i ? 'i' : 'd' );
    std::printf( " ->" );
    for ( bool i : ops ) {
        size_t r = i ? c.inc() : c.dec();
        std::printf( " %zu/%zu/%zu/%d", r, c.value(), c.reversed_value(), c.high_bit());
    }
    std::printf( "\n" );
}

static void counter_family( size_t nrandom, unsigned exhaustive_len )
{
    // all Dyck-like prefixes (never more decrements than increments) of the given length
    for ( uint32_t m = 0; m < ( 1u << exhaustive_len ); ++m ) {
        std::vector<bool> ops; int depth = 0; bool ok = true;
        for ( unsigned i = 0; i < exhaustive_len; ++i ) {
            bool inc = ( m >> i ) & 1;
            depth += inc ? 1 : -1;
            if ( depth < 0 ) { ok = false; break; }
            ops.push_back( inc );
        }
        if ( ok ) counter_run( ops );
    }
    for ( size_t k = 0; k < nrandom; ++k ) {
        std::vector<bool> ops; size_t depth = 0;
        size_t len = 20 + rnd() % 400;
        unsigned up = 40 + unsigned( rnd() % 50 );
        for ( size_t i = 0; i < len; ++i ) {
            bool inc = depth == 0 || ( rnd() % 100 ) < up;
            depth += inc ? 1 : size_t( -1 );
            ops.push_back( inc );
        }
        counter_run( ops );
    }
    // a long climb and the way back
    { std::vector<bool> ops( 3000, true ); ops.insert( ops.end(), 3000, false ); counter_run( ops ); }
}

int main( int argc, char** argv )
{
    std::string what = argc > 1 ? argv[1] : "splitters";
    uint64_t seed = argc > 2 ? strtoull( argv[2], nullptr, 10 ) : 1;
    size_t nrandom = argc > 3 ? strtoull( argv[3], nullptr, 10 ) : 200;
    rng_s = seed * 0x2545F4914F6CDD1Dull + 7;
    if ( what == "splitters" ) {
        family<1>( nrandom ); family<2>( nrandom ); family<4>( nrandom ); family<8>( nrandom ); family<16>( nrandom / 2 + 1 );
        blob<1> b1{ { 0xa5 } }; all_compositions<1>( b1, false ); all_compositions<1>( b1, true );
        blob<2> b2{ { 0x3c, 0xe1 } }; all_compositions<2>( b2, false );
        if ( argc > 4 ) { blob<2> b3{ { 0xff, 0xff } }; all_compositions<2>( b3, true ); }
        number_family( nrandom * 4 );
    }
    else if ( what == "counter" )
        counter_family( nrandom, argc > 4 ? unsigned( atoi( argv[4] )) : 14 );
    return 0;
}

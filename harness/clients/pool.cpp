// Object pools: cds::memory::vyukov_queue_pool, lazy_vyukov_queue_pool, bounded_vyukov_queue_pool (capacity 2 and 4,
// dynamic and static buffer) and cds::memory::pool_allocator over them.
//
// Program operations (dynamic, like the free-list client):
//   alloc       allocate(1)
//   free_any    deallocate the object this thread allocated longest ago; if it holds none, behaves as alloc
//   free_last   deallocate the object this thread allocated most recently; if it holds none, behaves as alloc
// Results in the framework's O lines: `: 1 <label>` allocated, `: 2 <label>` deallocated, `: 0` std::bad_alloc,
// `: -1` skipped because an oracle had already failed
// (label = 1..capacity for the objects of the preallocated block, 100+k for the k-th other object).
// spec() is "none"; the client judges the run itself (object identity = address; the ownership map is updated
// with no scheduling point in between: right after allocate() returns / before deallocate() is called):
//
//   double-alloc           allocate() returned an object that is currently allocated to some holder
//   null-alloc             allocate() returned nullptr
//   corrupted              the marker written into the object by its holder is not intact at deallocation time
//   destroyed-while-allocated   the pool ran the destructor of an object that is currently allocated to a holder
//   foreign-object         bounded pool returned an object outside its preallocated block
//   heap-while-free        vyukov_queue_pool went to the heap although an object of the preallocated block was free
//                          during the whole call (deallocate() had returned before allocate() was invoked, nobody got it,
//                          and no concurrent allocate() still in progress can have taken it)
//   spurious-bad-alloc     bounded pool threw std::bad_alloc although (variants bounded2/bounded4/alloc_bounded4) the program
//                          keeps the number of outstanding objects <= capacity by construction, or (variants bounded2x /
//                          bounded4x, whose programs do exhaust the pool) an object was free during the whole call
//   unexpected-bad-alloc   an unbounded pool threw std::bad_alloc
//   at quiescence (finish(), main thread), after deallocating everything the threads still hold:
//   lost-pool-object       `capacity` consecutive allocations do not all come from the preallocated block
//   pool-overcommit        the capacity+1-th allocation comes from the preallocated block again (vyukov_queue_pool) /
//                          does not throw (bounded)
//   lazy-not-reused        lazy pool: after deallocating capacity+1 objects, the next `capacity` allocations are not
//                          the first `capacity` of them in FIFO order
//   leak                   an object is still registered as allocated after everything was deallocated
#include <cds/init.h>
#include <cds/memory/vyukov_queue_pool.h>
#include <cds/memory/pool_allocator.h>
#include <deque>
#include <map>
#include <memory>
#include <new>
#include "../client.h"

using namespace khizmax_libcds_verif;
namespace cm = cds::memory;

static const int MAXTH = 16;
static const size_t MAXCAP = 8;

// The pooled type has a constructor and a destructor with visible effects, and each of them is a scheduling point:
// the pools construct an object after taking it out of the free queue and destroy it before putting it back, and
// that order matters (an object destroyed after it is visible to other allocators is destroyed under its next holder).
static atomics::atomic<int> g_obj_point( 0 );
static void ( *g_on_destroy )( void* ) = nullptr;
struct Obj {
    long owner; long nonce; long check; long pad;
    Obj() : owner( 0 ), nonce( 0 ), check( 0 ), pad( 0 ) { (void) g_obj_point.load(); }
    ~Obj()
    {
        (void) g_obj_point.load();
        if ( g_on_destroy ) g_on_destroy( this );
        owner = -1; nonce = -1; check = 0; pad = -1;
    }
};

struct dyn_traits : cm::vyukov_queue_pool_traits {};
struct static4_traits : cm::vyukov_queue_pool_traits {
    typedef cds::opt::v::uninitialized_static_buffer<Obj, 4> buffer;
};

struct PoolDesc {
    size_t cap = 0;
    Obj* first = nullptr;       // preallocated block, if any
    Obj* last = nullptr;
    bool bounded = false, lazy = false;
};

template <class Q>
static void name_queue( Q& q )
{
    reg_name( &q.m_posEnqueue, sizeof( q.m_posEnqueue ), "posEnq" );
    reg_name( &q.m_posDequeue, sizeof( q.m_posDequeue ), "posDeq" );
    for ( size_t i = 0; i < q.capacity(); ++i ) {
        char nm[32];
        std::snprintf( nm, sizeof nm, "seq%zu", i );
        reg_name( &q.m_buffer[i].sequence, sizeof( q.m_buffer[i].sequence ), nm );
    }
}
static void name_block( PoolDesc const& d )
{
    for ( Obj* p = d.first; p < d.last; ++p ) {
        char nm[16]; std::snprintf( nm, sizeof nm, "o%d", int( p - d.first ) + 1 );
        reg_name( p, sizeof( Obj ), nm );
    }
}
template <class T, class Tr>
static void describe( cm::vyukov_queue_pool<T, Tr>& p, PoolDesc& d )
{
    d.cap = p.m_Queue.capacity(); d.first = p.m_pFirst; d.last = p.m_pLast;
    name_queue( p.m_Queue ); name_block( d );
}
template <class T, class Tr>
static void describe( cm::lazy_vyukov_queue_pool<T, Tr>& p, PoolDesc& d )
{
    d.cap = p.m_Queue.capacity(); d.lazy = true;
    name_queue( p.m_Queue );
}
template <class T, class Tr>
static void describe( cm::bounded_vyukov_queue_pool<T, Tr>& p, PoolDesc& d )
{
    d.cap = p.m_Queue.capacity(); d.first = p.m_pFirst; d.last = p.m_pLast; d.bounded = true;
    name_queue( p.m_Queue ); name_block( d );
    reg_name( &p.m_Queue.m_ItemCounter, sizeof( p.m_Queue.m_ItemCounter ), "count" );
}

// content of the free queue at a quiescent point, oldest first (reads the ring between the two positions)
template <class Q>
static std::vector<Obj*> ring_content( Q& q )
{
    std::vector<Obj*> v;
    set_quiet( true );
    size_t deq = q.m_posDequeue.load( atomics::memory_order_relaxed ), enq = q.m_posEnqueue.load( atomics::memory_order_relaxed );
    size_t mask = q.capacity() - 1;
    for ( size_t pos = deq; pos != enq; ++pos )
        v.push_back( q.m_buffer[pos & mask].data );
    set_quiet( false );
    return v;
}

struct IPool {
    PoolDesc d;
    virtual ~IPool() {}
    virtual Obj* alloc() = 0;           // may throw std::bad_alloc
    virtual void free( Obj* p ) = 0;
    virtual std::vector<Obj*> content() = 0;
};

template <class Pool>
struct PoolV : IPool {
    Pool pool;
    explicit PoolV( size_t cap ) : pool( cap ) { describe( pool, d ); }
    Obj* alloc() override { return pool.allocate( 1 ); }
    void free( Obj* p ) override { pool.deallocate( p, 1 ); }
    std::vector<Obj*> content() override { return ring_content( pool.m_Queue ); }
};

// pool_allocator reaches its pool through a default-constructed accessor functor
template <class Pool>
struct AllocV : IPool {
    static Pool* s_pool;
    struct accessor {
        typedef typename Pool::value_type value_type;
        Pool& operator()() const { return *s_pool; }
    };
    typedef cm::pool_allocator<Obj, accessor> alloc_t;
    Pool pool;
    explicit AllocV( size_t cap ) : pool( cap ) { s_pool = &pool; describe( pool, d ); }
    ~AllocV() { s_pool = nullptr; }
    Obj* alloc() override { return alloc_t().allocate( 1 ); }
    void free( Obj* p ) override { alloc_t().deallocate( p, 1 ); }
    std::vector<Obj*> content() override { return ring_content( pool.m_Queue ); }
};
template <class Pool> Pool* AllocV<Pool>::s_pool = nullptr;

struct Fixture {
    static char const* family() { return "pool"; }
    static std::vector<std::string> variants()
    {
        return { "vyukov2", "vyukov4", "vyukov4s", "lazy2", "lazy4", "bounded2", "bounded4", "bounded2x", "bounded4x",
                 "alloc_vyukov4", "alloc_lazy2", "alloc_bounded4" };
    }

    std::unique_ptr<IPool> P;
    std::string variant;
    bool failed = false;
    std::string failure;
    bool exhaust = false;       // bounded: programs may exhaust the pool (std::bad_alloc is a legal result)
    bool safe = false;          // bounded: programs keep outstanding <= capacity by construction
    size_t cap = 0;
    bool prealloc = false;

    struct Live { int holder; long nonce; long label; };
    std::map<Obj*, Live> live;
    std::deque<Obj*> held[MAXTH];
    long nonce_ctr = 0, foreign_ctr = 0;
    std::map<Obj*, long> heap_label;        // stable label of an object outside the preallocated block (by address)
    std::vector<long> initial_queue;        // labels of the free queue's content when the scheduled program starts
    long label_of( Obj* p )
    {
        int bi = block_index( p );
        if ( bi >= 0 ) return bi + 1;
        auto it = heap_label.find( p );
        if ( it == heap_label.end()) it = heap_label.insert( std::make_pair( p, 100 + ++foreign_ctr )).first;
        return it->second;
    }
    // objects of the preallocated block
    bool out[MAXCAP];           // allocated to somebody
    int freeing[MAXCAP];        // deallocate() calls in progress
    unsigned gen[MAXCAP];       // incremented at each hand-out
    int allocating = 0;         // allocate() calls in progress
    unsigned n_alloc = 0, n_pool = 0, n_other = 0, n_bad = 0, n_free = 0, max_out = 0;

    // After the first verdict the pool is not touched any more (e.g. deallocating an object that was handed out twice
    // overfills the queue and the second deallocate() spins; the framework's abort path would not print the verdict).
    void fail( std::string const& s ) { failed = true; if ( failure.empty()) failure = s; }
    int block_index( Obj* p ) const { return prealloc && P->d.first <= p && p < P->d.last ? int( p - P->d.first ) : -1; }

    static Fixture*& current() { static Fixture* f = nullptr; return f; }
    static void on_destroy( void* q )
    {
        Fixture* f = current();
        if ( !f ) return;
        auto it = f->live.find( static_cast<Obj*>( q ));
        if ( it != f->live.end())
            f->fail( "destroyed-while-allocated object " + std::to_string( it->second.label ) + " destroyed by the pool while allocated to " + std::to_string( it->second.holder ));
    }
    ~Fixture() { if ( current() == this ) { current() = nullptr; g_on_destroy = nullptr; } }

    explicit Fixture( Case const& c ) : variant( c.variant )
    {
        current() = this;
        g_on_destroy = &Fixture::on_destroy;
        std::string const& v = variant;
        if ( v == "vyukov2" ) P.reset( new PoolV< cm::vyukov_queue_pool<Obj, dyn_traits> >( 2 ));
        else if ( v == "vyukov4" ) P.reset( new PoolV< cm::vyukov_queue_pool<Obj, dyn_traits> >( 4 ));
        else if ( v == "vyukov4s" ) P.reset( new PoolV< cm::vyukov_queue_pool<Obj, static4_traits> >( 0 ));
        else if ( v == "lazy2" ) P.reset( new PoolV< cm::lazy_vyukov_queue_pool<Obj, dyn_traits> >( 2 ));
        else if ( v == "lazy4" ) P.reset( new PoolV< cm::lazy_vyukov_queue_pool<Obj, dyn_traits> >( 4 ));
        else if ( v == "bounded2" || v == "bounded2x" ) P.reset( new PoolV< cm::bounded_vyukov_queue_pool<Obj, dyn_traits> >( 2 ));
        else if ( v == "bounded4" || v == "bounded4x" ) P.reset( new PoolV< cm::bounded_vyukov_queue_pool<Obj, dyn_traits> >( 4 ));
        else if ( v == "alloc_vyukov4" ) P.reset( new AllocV< cm::vyukov_queue_pool<Obj, dyn_traits> >( 4 ));
        else if ( v == "alloc_lazy2" ) P.reset( new AllocV< cm::lazy_vyukov_queue_pool<Obj, dyn_traits> >( 2 ));
        else if ( v == "alloc_bounded4" ) P.reset( new AllocV< cm::bounded_vyukov_queue_pool<Obj, static4_traits> >( 0 ));
        else { std::fprintf( stderr, "unknown variant %s\n", v.c_str()); std::exit( 2 ); }
        cap = P->d.cap;
        prealloc = P->d.first != nullptr;
        exhaust = v == "bounded2x" || v == "bounded4x";
        safe = P->d.bounded && !exhaust;
        if ( cap > MAXCAP ) { std::fprintf( stderr, "capacity too large\n" ); std::exit( 2 ); }
        for ( size_t i = 0; i < MAXCAP; ++i ) { out[i] = false; freeing[i] = 0; gen[i] = 0; }

        // Warm-up on the main thread so that the ring positions (and, for the lazy pool, the number of objects the
        // queue holds at the start) vary from case to case.
        if ( P->d.lazy ) {
            size_t m = size_t( c.index % ( cap + 2 ));
            std::vector<Obj*> tmp;
            for ( size_t i = 0; i < m; ++i ) tmp.push_back( P->alloc());
            for ( Obj* p : tmp ) P->free( p );
        }
        else {
            size_t rot = size_t( c.index % ( 2 * cap + 1 ));
            for ( size_t i = 0; i < rot; ++i ) P->free( P->alloc());
        }
        for ( Obj* p : P->content()) initial_queue.push_back( label_of( p ));
    }
    // The history is judged against the sequential pool (Spec.pool: an allocation returns the oldest free object,
    // goes to the heap / fails only when the free queue is empty; a deallocated object is queued), started with the
    // free queue as the warm-up left it.  kind: 0 vyukov, 1 lazy, 2 bounded.
    std::string spec() const
    {
        std::ostringstream os;
        os << "pool " << ( P->d.lazy ? 1 : P->d.bounded ? 2 : 0 ) << ' ' << cap;
        for ( long l : initial_queue ) os << ' ' << l;
        return os.str();
    }

    std::vector<std::vector<Op>> program( Rng& r, int nth, int nops )
    {
        std::vector<std::vector<Op>> p( nth );
        if ( nops > 6 ) nops = 6;
        if ( nops < 1 ) nops = 1;
        if ( safe ) {
            // every thread gets a quota; the quotas add up to the capacity; a thread never holds more than its quota,
            // so allocate() never finds the pool exhausted.  Here what a thread holds is known statically.
            std::vector<int> quota( nth, 0 );
            for ( size_t i = 0; i < cap; ++i ) ++quota[r.below( uint64_t( nth ))];
            for ( int t = 0; t < nth; ++t ) {
                if ( quota[t] == 0 ) continue;
                int n = 1 + int( r.below( uint64_t( nops )));
                if ( n < 2 ) n = 2;
                unsigned alloc_pct = 40 + unsigned( r.below( 30 ));
                int cnt = 0;
                for ( int i = 0; i < n; ++i ) {
                    bool a = cnt == 0 ? true : cnt == quota[t] ? false : r.chance( alloc_pct );
                    if ( a ) { p[t].push_back( Op( "alloc" )); ++cnt; }
                    else { p[t].push_back( Op( r.chance( 50 ) ? "free_any" : "free_last" )); --cnt; }
                }
            }
            return p;
        }
        for ( int t = 0; t < nth; ++t ) {
            int n = 1 + int( r.below( uint64_t( nops )));
            unsigned style = unsigned( r.below( 4 ));
            if ( style == 0 ) {
                // alloc; free_last; alloc; free_last …
                for ( int i = 0; i < n; ++i ) p[t].push_back( Op( i % 2 == 0 ? "alloc" : "free_last" ));
            }
            else if ( style == 1 ) {
                // burst of allocations (past the capacity), then deallocations
                int na = ( n + 1 ) / 2 + int( r.below( uint64_t( n / 2 + 1 )));
                for ( int i = 0; i < n; ++i ) p[t].push_back( Op( i < na ? "alloc" : "free_any" ));
            }
            else {
                unsigned alloc_pct = 45 + unsigned( r.below( 35 ));
                for ( int i = 0; i < n; ++i ) {
                    if ( r.chance( alloc_pct )) p[t].push_back( Op( "alloc" ));
                    else p[t].push_back( Op( r.chance( 50 ) ? "free_any" : "free_last" ));
                }
            }
        }
        return p;
    }

    void thread_begin( int ) {}
    void thread_end( int ) {}

    // holder: thread id, or 99 for the main thread in finish()
    Obj* do_alloc( int holder, long& label )
    {
        unsigned snap[MAXCAP];
        bool stable[MAXCAP];
        size_t nb = prealloc ? cap : 0;
        for ( size_t i = 0; i < nb; ++i ) {
            stable[i] = !out[i] && freeing[i] == 0;
            snap[i] = gen[i];
        }
        // An object that was free when this call was invoked and has not been handed out when it returns was free
        // during the whole call -- unless an allocate() of another thread that is still in progress has already
        // taken it out of the queue.  Each such call takes at most one object, so the verdict is raised only when
        // the candidates outnumber the calls in progress (sound; exact when there is none).
        auto free_throughout = [&]() -> int {
            int cnt = 0, witness = -1;
            for ( size_t i = 0; i < nb; ++i )
                if ( stable[i] && !out[i] && gen[i] == snap[i] ) { ++cnt; witness = int( i ); }
            return cnt > allocating ? witness : -1;
        };
        ++n_alloc;
        Obj* p = nullptr;
        try {
            ++allocating;
            p = P->alloc();
            --allocating;
        }
        catch ( std::bad_alloc const& ) {
            --allocating;
            ++n_bad;
            label = 0;
            if ( !P->d.bounded )
                fail( "unexpected-bad-alloc holder " + std::to_string( holder ));
            else if ( safe && holder != 99 )
                fail( "spurious-bad-alloc thread " + std::to_string( holder ) + ": the program keeps outstanding objects <= capacity" );
            else {
                int i = free_throughout();
                if ( i >= 0 )
                    fail( "spurious-bad-alloc holder " + std::to_string( holder ) + ": object o" + std::to_string( i + 1 )
                          + " was free during the whole call" );
            }
            return nullptr;
        }
        if ( !p ) { fail( "null-alloc holder " + std::to_string( holder )); label = 0; return nullptr; }
        auto it = live.find( p );
        if ( it != live.end())
            fail( "double-alloc object " + std::to_string( it->second.label ) + " returned to " + std::to_string( holder )
                  + " while allocated to " + std::to_string( it->second.holder ));
        int bi = block_index( p );
        if ( bi >= 0 ) {
            ++n_pool;
            out[bi] = true;
            ++gen[bi];
            label = bi + 1;
        }
        else {
            ++n_other;
            label = label_of( p );
            if ( P->d.bounded )
                fail( "foreign-object bounded pool returned an object outside its block to " + std::to_string( holder ));
            else if ( prealloc ) {
                int i = free_throughout();
                if ( i >= 0 )
                    fail( "heap-while-free holder " + std::to_string( holder ) + " got a heap object while o" + std::to_string( i + 1 )
                          + " was free during the whole call" );
            }
        }
        long n = ++nonce_ctr;
        p->owner = holder + 1; p->nonce = n; p->check = ~n; p->pad = label;
        live[p] = Live{ holder, n, label };
        if ( live.size() > max_out ) max_out = unsigned( live.size());
        return p;
    }

    long do_free( int holder, Obj* p )
    {
        auto it = live.find( p );
        long label = -1;
        if ( it == live.end())
            fail( "client-error deallocating an unregistered object" );
        else {
            Live const& lv = it->second;
            label = lv.label;
            if ( p->owner != lv.holder + 1 || p->nonce != lv.nonce || p->check != ~lv.nonce || p->pad != lv.label )
                fail( "corrupted object " + std::to_string( lv.label ) + " held by " + std::to_string( lv.holder ));
            live.erase( it );
        }
        ++n_free;
        int bi = block_index( p );
        // from now on anybody may legitimately obtain p
        if ( bi >= 0 ) { out[bi] = false; ++freeing[bi]; }
        P->free( p );
        if ( bi >= 0 ) --freeing[bi];
        (void) holder;
        return label;
    }

    std::vector<long> exec( int t, Op const& op )
    {
        if ( failed ) return { -1 };
        if ( op.name != "alloc" && !held[t].empty()) {
            Obj* p;
            if ( op.name == "free_last" ) { p = held[t].back(); held[t].pop_back(); }
            else { p = held[t].front(); held[t].pop_front(); }
            return { 2, do_free( t, p ) };
        }
        long label = 0;
        Obj* p = do_alloc( t, label );
        if ( !p ) return { 0 };
        held[t].push_back( p );
        return { 1, label };
    }

    void finish( std::ostream& os )
    {
        unsigned run_alloc = n_alloc, run_pool = n_pool, run_other = n_other, run_bad = n_bad, run_free = n_free, run_max = max_out;
        for ( int t = 0; t < MAXTH && !failed; ++t ) {
            for ( Obj* p : held[t] ) do_free( t, p );
            held[t].clear();
        }
        if ( !failed && !live.empty()) fail( "leak " + std::to_string( live.size()) + " objects still registered after all deallocations" );

        if ( !failed ) {
            long label = 0;
            std::vector<Obj*> a;
            if ( prealloc ) {
                // everything has been returned: the next `cap` allocations are exactly the preallocated block
                for ( size_t i = 0; i < cap; ++i ) {
                    Obj* p = do_alloc( 99, label );
                    if ( !p ) { fail( "lost-pool-object allocation " + std::to_string( i + 1 ) + " of " + std::to_string( cap ) + " failed at quiescence" ); break; }
                    a.push_back( p );
                    if ( block_index( p ) < 0 )
                        fail( "lost-pool-object allocation " + std::to_string( i + 1 ) + " of " + std::to_string( cap )
                              + " at quiescence is not from the preallocated block" );
                }
                if ( !failed ) {
                    Obj* p = do_alloc( 99, label );
                    if ( P->d.bounded ) {
                        if ( p ) { fail( "pool-overcommit bounded pool handed out capacity+1 objects" ); a.push_back( p ); }
                    }
                    else if ( p ) {
                        a.push_back( p );
                        if ( block_index( p ) >= 0 ) fail( "pool-overcommit capacity+1-th allocation comes from the preallocated block" );
                    }
                }
                for ( Obj* p : a ) if ( !failed ) do_free( 99, p );
            }
            else {
                // lazy pool: cap+1 allocations empty the queue; deallocating them puts the first cap back (FIFO)
                for ( size_t i = 0; i < cap + 1; ++i ) {
                    Obj* p = do_alloc( 99, label );
                    if ( !p ) break;
                    a.push_back( p );
                }
                for ( Obj* p : a ) if ( !failed ) do_free( 99, p );
                std::vector<Obj*> b;
                for ( size_t i = 0; i < cap && !failed; ++i ) {
                    Obj* p = do_alloc( 99, label );
                    if ( !p ) break;
                    b.push_back( p );
                    if ( i >= a.size() || p != a[i] )
                        fail( "lazy-not-reused allocation " + std::to_string( i + 1 ) + " after refilling the queue is not the object deallocated "
                              + std::to_string( i + 1 ) + "-th" );
                }
                for ( Obj* p : b ) if ( !failed ) do_free( 99, p );
            }
            if ( !live.empty()) fail( "leak objects still registered after the quiescent check" );
        }
        os << "# cov cap=" << cap << " allocs=" << run_alloc << " block=" << run_pool << " other=" << run_other << " bad_alloc=" << run_bad
           << " frees=" << run_free << " max_outstanding=" << run_max << '\n';
    }
};

int main( int argc, char** argv )
{
    cds::Initialize();
    int rc = client_main<Fixture>( argc, argv );
    cds::Terminate();
    return rc;
}

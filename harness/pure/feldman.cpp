// Tie D for C28: feldman_hashset::details::metrics::make on every configuration of the property's quantifier,
// and insertion of hashes sharing long prefixes into a real FeldmanHashSet at minimal widths.
#include <cstdint>
#include <cstdio>
#include <cstdlib>
#include <vector>
#include <cds/init.h>
#include <cds/gc/hp.h>
#include <cds/intrusive/feldman_hashset_hp.h>

namespace fh = cds::intrusive::feldman_hashset;

template <typename H> struct alignas( 8 ) item { H hash; };      // node pointers carry flag bits in their two low bits: items must be at least 4-byte aligned
template <typename H> struct traits_t : fh::traits {
    struct hash_accessor { H const& operator()( item<H> const& i ) const { return i.hash; } };
    struct disposer { void operator()( item<H>* ) const {} };
};

static uint64_t rng_s;
static uint64_t rnd()
{
    uint64_t z = ( rng_s += 0x9E3779B97F4A7C15ull );
    z = ( z ^ ( z >> 30 )) * 0xBF58476D1CE4E5B9ull;
    z = ( z ^ ( z >> 27 )) * 0x94D049BB133111EBull;
    return z ^ ( z >> 31 );
}

// inserts `n` distinct hashes that share prefixes of every length; every insert must succeed, every
// hash must be found afterwards, a second insert of the same hash must fail
template <typename H>
static void prefix_family( unsigned head, unsigned arr, size_t n )
{
    typedef cds::intrusive::FeldmanHashSet< cds::gc::HP, item<H>, traits_t<H> > set_t;
    std::vector<item<H>> items;
    std::vector<H> hs;
    H base = H( rnd());
    unsigned bits = sizeof( H ) * 8;
    hs.push_back( base );
    for ( size_t i = 1; i < n; ++i ) {
        H h = hs[rnd() % hs.size()];
        unsigned k = unsigned( rnd() % bits );          // flip bit k and randomise the bits above: shares the k low bits
        H m = H( H( 1 ) << k );
        h = H( h ^ m );
        if ( k + 1 < bits ) h = H( h ^ ( H( rnd()) << ( k + 1 )));
        bool dup = false;
        for ( H x : hs ) if ( x == h ) dup = true;
        if ( !dup ) hs.push_back( h );
    }
    items.resize( hs.size());
    for ( size_t i = 0; i < hs.size(); ++i ) items[i].hash = hs[i];
    size_t ok = 0, found = 0, dup_rejected = 0;
    {
        set_t s( head, arr );
        for ( auto& it : items ) if ( s.insert( it )) ++ok;
        for ( auto& it : items ) if ( s.contains( it.hash )) ++found;
        item<H> extra; extra.hash = hs[0];
        if ( !s.insert( extra )) ++dup_rejected;
        s.clear();
    }
    cds::gc::HP::force_dispose();
    std::printf( "feldman_insert %zu %u %u %zu -> %zu %zu %zu\n", sizeof( H ), head, arr, hs.size(), ok, found, dup_rejected );
}

int main( int argc, char** argv )
{
    uint64_t seed = argc > 1 ? strtoull( argv[1], nullptr, 10 ) : 1;
    size_t nfam = argc > 2 ? strtoull( argv[2], nullptr, 10 ) : 20;
    rng_s = seed * 0x2545F4914F6CDD1Dull + 5;
    for ( size_t hs : { size_t( 1 ), size_t( 2 ), size_t( 4 ), size_t( 8 ) } )
        for ( size_t head = 0; head <= hs * 8; ++head )
            for ( size_t arr = 0; arr <= 16; ++arr ) {

                fh::details::metrics m = fh::details::metrics::make( head, arr, hs );
                std::printf( "metrics_make %zu %zu %zu -> %zu %zu %zu %zu\n", head, arr, hs,
                             m.head_node_size_log, m.head_node_size, m.array_node_size_log, m.array_node_size );
            }
    cds::Initialize();
    {
        cds::gc::HP hp;
        cds::threading::Manager::attachThread();
        for ( size_t i = 0; i < nfam; ++i ) {
            prefix_family<uint8_t>( unsigned( rnd() % 9 ), unsigned( rnd() % 5 ), 40 );
            prefix_family<uint16_t>( unsigned( rnd() % 12 ), unsigned( rnd() % 6 ), 120 );
            prefix_family<uint32_t>( unsigned( rnd() % 8 ), unsigned( rnd() % 5 ), 200 );
            prefix_family<uint64_t>( unsigned( rnd() % 8 ), unsigned( rnd() % 5 ), 200 );
        }
        cds::threading::Manager::detachThread();
    }
    cds::Terminate();
    return 0;
}

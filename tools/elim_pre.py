"""Pre-pass of the elimination-back-off trace tie (C09): harness client `stack`, hidden variants
`treiber_hp_elim_named` / `treiber_dhp_elim_named`, Lean machine lean/CdsVerif/Algo/Elim (cdsdriver replay elim).

The collision slot and the bound of the wait loop of every back-off round are INPUTS of the machine's operation
(`push v s1 k1 s2 k2 …`, `pop s1 k1 …`).  The client reports them as a note `T <tid> ELIM <slot> <extra waits>` when
`slot_index()` draws from the random engine; this pass folds the notes of an operation, in order, into its CALL line
and removes them.  Nothing else is changed: hazard-pointer traffic lives at locations the driver ignores (`@…`)."""
import sys


def elim_pre(text):
    out = []
    call_at = {}          # tid -> index in `out` of the open CALL line
    for l in text.split("\n"):
        w = l.split()
        if len(w) >= 3 and w[0] == "T":
            tid = w[1]
            if w[2] == "CALL":
                call_at[tid] = len(out)
            elif w[2] == "ELIM":
                if tid in call_at:
                    out[call_at[tid]] += " " + " ".join(w[3:])
                continue
            elif w[2] == "RET":
                call_at.pop(tid, None)
        elif w and w[0] in ("CASE", "END"):
            call_at = {}
        out.append(l)
    return "\n".join(out)


if __name__ == "__main__":
    sys.stdout.write(elim_pre(sys.stdin.read()))

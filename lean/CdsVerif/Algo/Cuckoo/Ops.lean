/-
  insert / erase / resize of the sequential CuckooSet model on states satisfying the invariant `CInv`
  (well-formed tables, every key in the probe set its hash selects, no key twice, item counter = number of nodes),
  the room predicate of resize (`ResizeRoom`) and decidable checkers for concrete states.
-/
import CdsVerif.Algo.Cuckoo.Lemmas
namespace CdsVerif.Algo.Cuckoo

/-- the invariant of the set (named `CInv`: `Inv` is taken by core) -/
structure CInv (c : Cfg) (s : St) : Prop where
  wf : WF s
  placed : Placed c s
  nodup : s.elems.Nodup
  count : s.count = s.elems.length

theorem Ext.perm {c : Cfg} {s s' : St} {a r : List Int} (h : Ext c s s' a r) : (s'.elems ++ r).Perm (s.elems ++ a) :=
  List.perm_iff_count.mpr (fun k => by have := h.cnt k; simp only [List.count_append]; unfold cnt at this; exact this)

theorem WF_count {s : St} (h : WF s) (n : Nat) : WF { s with count := n } := ⟨h.1, h.2.1, h.2.2⟩

theorem contains_true_iff_cnt {c : Cfg} {s : St} (hp : Placed c s) (k : Int) : contains c s k = true ↔ 0 < cnt s k := by
  rw [contains_iff hp, mem_elems_iff_cnt]

theorem contains_false_iff_cnt {c : Cfg} {s : St} (hp : Placed c s) (k : Int) : contains c s k = false ↔ cnt s k = 0 := by
  have := contains_true_iff_cnt hp k
  cases h : contains c s k <;> simp [h] at this ⊢ <;> omega

theorem cnt_le_one {c : Cfg} {s : St} (h : CInv c s) (k : Int) : cnt s k ≤ 1 := List.nodup_iff_count.mp h.nodup k

/-! ### the three ways a state changes -/

theorem CInv_add {c : Cfg} {s s' : St} {k : Int} (hi : CInv c s) (he : Ext c s s' [k] []) (hk : cnt s k = 0)
    (hc : s'.count = s.count + 1) : CInv c s' := by
  refine ⟨he.wf, he.placed hi.placed, List.nodup_iff_count.mpr (fun q => ?_), ?_⟩
  · have a := he.cnt q
    have b := cnt_le_one hi q
    simp only [List.count_nil, List.count_cons, beq_iff_eq] at a
    unfold cnt at a b hk
    split at a
    · rename_i e; subst e; omega
    · omega
  · have := he.perm.length_eq
    simp at this
    rw [hc, hi.count, this]

theorem CInv_remove {c : Cfg} {s s' : St} {k : Int} (hi : CInv c s) (he : Ext c s s' [] [k])
    (hc : s'.count = s.count - 1) : CInv c s' := by
  refine ⟨he.wf, he.placed hi.placed, List.nodup_iff_count.mpr (fun q => ?_), ?_⟩
  · have a := he.cnt q
    have b := cnt_le_one hi q
    simp only [List.count_nil] at a
    unfold cnt at a b
    omega
  · have := he.perm.length_eq
    simp at this
    rw [hc, hi.count]; omega

theorem CInv_same {c : Cfg} {s s' : St} (hi : CInv c s) (he : Ext c s s' [] []) (hc : s'.count = s.count) : CInv c s' := by
  refine ⟨he.wf, he.placed hi.placed, List.nodup_iff_count.mpr (fun q => ?_), ?_⟩
  · have a := he.cnt q
    have b := cnt_le_one hi q
    simp only [List.count_nil] at a
    unfold cnt at a b
    omega
  · have := he.perm.length_eq
    simp at this
    rw [hc, hi.count, this]

/-! ### erase -/

theorem findTable_some {c : Cfg} {s : St} {k : Int} {b : Bool} (h : findTable c s k = some b) : k ∈ s.bucketOf c b k := by
  unfold findTable at h
  split at h
  · cases h; assumption
  · split at h
    · cases h; assumption
    · cases h

theorem erase_absent (c : Cfg) (s : St) (k : Int) (h : contains c s k = false) : erase c s k = (s, false) := by
  unfold contains at h
  unfold erase
  cases hf : findTable c s k with
  | none => rfl
  | some b => rw [hf] at h; cases h

theorem erase_present (c : Cfg) (s : St) (k : Int) (hw : WF s) (h : contains c s k = true) :
    (erase c s k).2 = true ∧ Ext c s (erase c s k).1 [] [k] ∧ (erase c s k).1.count = s.count - 1
      ∧ (erase c s k).1.cap = s.cap := by
  unfold contains at h
  unfold erase
  cases hf : findTable c s k with
  | none => rw [hf] at h; cases h
  | some b =>
    have hm := findTable_some hf
    have hi := bidx_lt hw c b k
    refine ⟨rfl, Ext.count_irrel ?_ _, rfl, by simp⟩
    refine ⟨WF_putBucket hw _ _ _, fun q => ?_, fun hp => ?_⟩
    · have a := cnt_putBucket hw b (s.bidx c b k) ((s.bucketOf c b k).erase k) hi q
      have pos : 0 < (s.bucketOf c b k).count k := List.count_pos_iff.mpr hm
      have e : (s.tab b).getD (s.bidx c b k) [] = s.bucketOf c b k := rfl
      rw [e, List.count_erase] at a
      simp only [List.count_nil, List.count_cons, beq_iff_eq] at a ⊢
      by_cases hq : k = q
      · subst hq; simp only [if_true] at a ⊢; omega
      · simp only [hq, if_false] at a ⊢; omega
    · exact Placed_putBucket hw hp b _ _ hi (fun q hq => hp b _ q (List.mem_of_mem_erase hq))

/-! ### resize -/

theorem resizeG_ext (c : Cfg) (s : St) (h : WF s) : Ext c s (resizeG c s).1 [] (resizeG c s).2 := by
  obtain ⟨a, b, -, -, e⟩ := resizeG_spec c s h.2.2
  exact ⟨a, fun k => by simpa using e k, fun _ => b⟩

/-- no element finds both of its target probe sets full while `xs` are re-inserted into `s` -/
def roomAll (c : Cfg) : St → List Int → Bool
  | _, [] => true
  | s, x :: xs =>
    (decide ((s.bucketOf c false x).length < c.pset) || decide ((s.bucketOf c true x).length < c.pset))
      && roomAll c (reinsert c s x).1 xs

/-- the room hypothesis of resize(): during the re-insertion of the nodes of the old tables (in the order resize() walks
    them) into the doubled tables, no node finds both of its probe sets full -/
def ResizeRoom (c : Cfg) (s : St) : Prop := roomAll c (fresh s) s.order = true

instance (c : Cfg) (s : St) : Decidable (ResizeRoom c s) := by unfold ResizeRoom; infer_instance

theorem reinsert_room (c : Cfg) (s : St) (x : Int)
    (h : (s.bucketOf c false x).length < c.pset ∨ (s.bucketOf c true x).length < c.pset) : (reinsert c s x).2 = [] := by
  unfold reinsert
  split; · rfl
  split; · rfl
  split; · rfl
  split; · rfl
  omega

theorem reinsert_no_room (c : Cfg) (s : St) (x : Int) (ht : c.thr ≤ c.pset)
    (h : ¬ ((s.bucketOf c false x).length < c.pset ∨ (s.bucketOf c true x).length < c.pset)) : (reinsert c s x).2 = [x] := by
  unfold reinsert
  split; · omega
  split; · omega
  split; · omega
  split; · omega
  rfl

theorem roomAll_lost (c : Cfg) (xs : List Int) : ∀ s, roomAll c s xs = true → (reinsertAll c s xs).2 = [] := by
  induction xs with
  | nil => intro s _; rfl
  | cons x xs ih =>
    intro s h
    unfold roomAll at h
    simp only [Bool.and_eq_true, Bool.or_eq_true, decide_eq_true_eq] at h
    unfold reinsertAll
    simp only [reinsert_room c s x h.1, ih _ h.2, List.append_nil]

/-- the converse (threshold within the probe-set size): the room hypothesis is exactly "resize() loses nothing" -/
theorem lost_roomAll (c : Cfg) (ht : c.thr ≤ c.pset) (xs : List Int) : ∀ s, (reinsertAll c s xs).2 = [] → roomAll c s xs = true := by
  induction xs with
  | nil => intro s _; rfl
  | cons x xs ih =>
    intro s h
    unfold reinsertAll at h
    simp only [List.append_eq_nil_iff] at h
    unfold roomAll
    simp only [Bool.and_eq_true, Bool.or_eq_true, decide_eq_true_eq]
    refine ⟨?_, ih _ h.2⟩
    apply Classical.byContradiction
    intro hn
    rw [reinsert_no_room c s x ht hn] at h
    cases h.1

theorem resizeRoom_lost {c : Cfg} {s : St} (h : ResizeRoom c s) : (resizeG c s).2 = [] := roomAll_lost c _ _ h

theorem resizeRoom_iff {c : Cfg} {s : St} (ht : c.thr ≤ c.pset) : ResizeRoom c s ↔ (resizeG c s).2 = [] :=
  ⟨resizeRoom_lost, lost_roomAll c ht _ _⟩

/-! ### insert -/

theorem insertLoop_present (c : Cfg) (f : Nat) (s : St) (k : Int) (h : contains c s k = true) :
    insertLoop c (f + 1) s k = some (s, false, []) := by
  unfold insertLoop; rw [if_pos h]

theorem cnt_count_irrel (s : St) (n : Nat) (k : Int) : cnt { s with count := n } k = cnt s k := rfl

/-- insert() of an absent key, whatever path it takes (fuel permitting): result `true`, item counter + 1, and the linked
    keys are the old ones plus `k` minus the keys lost by the resizes on the way -/
theorem insertLoop_absent (c : Cfg) (f : Nat) : ∀ (s : St) (k : Int) (r : St × Bool × List Int), WF s → Placed c s →
    contains c s k = false → insertLoop c f s k = some r →
    r.2.1 = true ∧ Ext c s r.1 [k] r.2.2 ∧ r.1.count = s.count + 1 := by
  induction f with
  | zero => intro s k r _ _ _ h; cases h
  | succ f ih =>
    intro s k r hw hp hc h
    unfold insertLoop at h
    rw [if_neg (by simp [hc])] at h
    split at h
    · cases h
      exact ⟨rfl, (place_ext c hw false k).count_irrel _, rfl⟩
    split at h
    · cases h
      exact ⟨rfl, (place_ext c hw true k).count_irrel _, rfl⟩
    split at h
    · have p := (place_ext c hw false k).count_irrel (s.count + 1)
      obtain ⟨r1, -, r3⟩ := relocateFrom_ext c { s.place c false k with count := s.count + 1 } false (s.bidx c false k) p.wf
      have t : Ext c s (relocateFrom c { s.place c false k with count := s.count + 1 } false (s.bidx c false k)).1 [k] [] := by
        have t := p.trans r1
        exact ⟨t.wf, fun q => by simpa using t.cnt q, t.placed⟩
      simp only at h
      split at h
      · cases h; exact ⟨rfl, t, r3⟩
      · cases h
        have g := resizeG_ext c _ t.wf
        have g4 := (resizeG_spec c _ t.wf.2.2).2.2.2.1
        refine ⟨rfl, ?_, by rw [g4, r3]⟩
        have u := t.trans g
        exact ⟨u.wf, fun q => by simpa using u.cnt q, u.placed⟩
    split at h
    · have p := (place_ext c hw true k).count_irrel (s.count + 1)
      obtain ⟨r1, -, r3⟩ := relocateFrom_ext c { s.place c true k with count := s.count + 1 } true (s.bidx c true k) p.wf
      have t : Ext c s (relocateFrom c { s.place c true k with count := s.count + 1 } true (s.bidx c true k)).1 [k] [] := by
        have t := p.trans r1
        exact ⟨t.wf, fun q => by simpa using t.cnt q, t.placed⟩
      simp only at h
      split at h
      · cases h; exact ⟨rfl, t, r3⟩
      · cases h
        have g := resizeG_ext c _ t.wf
        have g4 := (resizeG_spec c _ t.wf.2.2).2.2.2.1
        refine ⟨rfl, ?_, by rw [g4, r3]⟩
        have u := t.trans g
        exact ⟨u.wf, fun q => by simpa using u.cnt q, u.placed⟩
    · have g := resizeG_ext c s hw
      obtain ⟨gw, gp, -, g4, ge⟩ := resizeG_spec c s hw.2.2
      have hc' : contains c (resizeG c s).1 k = false := by
        rw [contains_false_iff_cnt gp]
        have := ge k
        have := (contains_false_iff_cnt hp k).mp hc
        omega
      simp only at h
      split at h
      · rename_i s' r' d hr
        cases h
        obtain ⟨i1, i2, i3⟩ := ih (resizeG c s).1 k (s', r', d) gw gp hc' hr
        refine ⟨i1, ?_, by rw [i3, g4]⟩
        have u := g.trans i2
        exact ⟨u.wf, fun q => by simpa using u.cnt q, u.placed⟩
      · cases h

/-! ### decidable checkers for concrete states -/

def wfB (s : St) : Bool := s.t0.length == s.cap && s.t1.length == s.cap && decide (0 < s.cap)

def placedB (c : Cfg) (s : St) : Bool :=
  (List.range s.cap).all (fun i =>
    ((s.t0.getD i []).all fun k => idx s.cap (c.h1 k) == i) && ((s.t1.getD i []).all fun k => idx s.cap (c.h2 k) == i))

def cinvB (c : Cfg) (s : St) : Bool :=
  wfB s && placedB c s && decide s.elems.Nodup && s.count == s.elems.length

theorem WF_of_wfB {s : St} (h : wfB s = true) : WF s := by
  simpa [wfB, WF, and_assoc] using h

theorem Placed_of_placedB {c : Cfg} {s : St} (hw : WF s) (h : placedB c s = true) : Placed c s := by
  intro b i k hk
  by_cases hi : i < s.cap
  · unfold placedB at h
    rw [List.all_eq_true] at h
    have := h i (List.mem_range.mpr hi)
    simp only [Bool.and_eq_true, List.all_eq_true, beq_iff_eq] at this
    cases b
    · exact this.1 k hk
    · exact this.2 k hk
  · exfalso
    have : (s.tab b).getD i [] = [] := by
      rw [List.getD_eq_getElem?_getD, List.getElem?_eq_none (by rw [hw.tab_length]; omega)]; rfl
    rw [this] at hk; cases hk

theorem CInv_of_cinvB {c : Cfg} {s : St} (h : cinvB c s = true) : CInv c s := by
  unfold cinvB at h
  simp only [Bool.and_eq_true, decide_eq_true_eq, beq_iff_eq] at h
  obtain ⟨⟨⟨a, b⟩, n⟩, e⟩ := h
  exact ⟨WF_of_wfB a, Placed_of_placedB (WF_of_wfB a) b, n, e⟩

theorem CInv_empty (c : Cfg) {cap : Nat} (h : 0 < cap) : CInv c (empty cap) := by
  refine ⟨by simp [WF, empty, h], ?_, ?_, ?_⟩
  · intro b i k hk
    have e : ((empty cap).tab b).getD i [] = [] := by cases b <;> exact getD_replicate_nil _ _
    rw [e] at hk; cases hk
  · simp [St.elems, empty]
  · simp [St.elems, empty]

end CdsVerif.Algo.Cuckoo

/-
  Structural invariant of the LazyList model and the refinement of the abstract map: definitions and the lemmas shared
  by the step proofs (`Step*.lean`); reachability and its consequences are in `Reach.lean`.

  * `Chain s.succ (some 0) L` : following the LOGICAL successors from the head visits exactly `L = 0 :: nodes ++ [1]`.
    ALL linked nodes are on `L`, marked (logically deleted, not yet unlinked) or not.  For an unmarked node the word in
    memory IS the logical successor (`agree`); a marked node's word is the back-link `( head, 1 )` (`back`).
  * `SInvL s L` : `L` is strictly sorted by key (`LLt`: the head is below and the tail above every node), hence
    duplicate-free, and consists of allocated nodes; the sentinels are never marked; a node an inserter still owns
    (`insNode`) is outside `L`, unmarked, carries the key and payload of the operation and is owned by one thread;
    every node a thread refers to (`pcPrev`, `pcCur`) is on `L` or marked: a node that left `L` is marked;
    the key of `pPred` is smaller than the key searched for (`keyPrev`), the key of `pCur` is not (`keyCur`);
    LOCK DISCIPLINE: a lock is held by at most one thread (`mPP`, `mPC`, `mCC`), its word is then set (`lockedP`,
    `lockedC`); what a thread has established under its locks stays true: `pPred` / `pCur` unmarked (`unmP`, `unmC`),
    `pPred → pCur` (`link`), the saved successor of the node being erased (`enx`, `eun`).
  * The abstract map: `Has mark key val L k v` — some unmarked node on `L` carries `(k, v)`.
  * Linearization points: `lpRet` is the result an operation has fixed; for a `find` / `contains` whose `search` has
    stopped at a node `c` with the key it depends on the MEMORY: nothing is fixed while `c` is unmarked, `[0]` as soon
    as `c` is marked — by another thread's marking store, which linearizes these readers right behind its own erase
    (`StepEff.help`).  `StepEff` states what one step does: at a linearization point the abstract map makes exactly
    the `Spec.map` transition of the operation (`LPok`), otherwise it does not change; a fixed result is kept.
-/
import CdsVerif.Algo.Lazy.Model
import CdsVerif.Algo.Michael.Lemmas
namespace CdsVerif.Algo.Lazy
open CdsVerif.Machine CdsVerif.Spec CdsVerif.Lin
open CdsVerif.Algo.Michael (Chain insAfter mem_insAfter pairwise_insAfter LPok mfind_cons mfind_merase mfind_none_of)

/-! ### Key order on nodes: the head (0) is below, the tail (1) above every node -/

def LLt (key : Nat → Int) (a b : Nat) : Prop := a ≠ 1 ∧ b ≠ 0 ∧ (a = 0 ∨ b = 1 ∨ key a < key b)

theorem LLt.trans {key : Nat → Int} (a b c : Nat) (h1 : LLt key a b) (h2 : LLt key b c) : LLt key a c := by
  unfold LLt at *
  refine ⟨h1.1, h2.2.1, ?_⟩
  rcases h1.2.2 with h | h | h
  · exact Or.inl h
  · exact absurd h h2.1
  · rcases h2.2.2 with h' | h' | h'
    · exact absurd h' h1.2.1
    · exact Or.inr (Or.inl h')
    · exact Or.inr (Or.inr (Int.lt_trans h h'))

theorem LLt.irrefl {key : Nat → Int} (a : Nat) : ¬ LLt key a a := by
  unfold LLt
  rintro ⟨h1, h2, h3 | h3 | h3⟩
  · exact h2 h3
  · exact h1 h3
  · exact Int.lt_irrefl _ h3

theorem lsorted_nodup {key : Nat → Int} {L : List Nat} (h : L.Pairwise (LLt key)) : L.Nodup :=
  List.Pairwise.imp (S := fun a b => a ≠ b)
    (fun {a b} hab (e : a = b) => LLt.irrefl a (by rw [← e] at hab; exact hab)) h

/-- Two inner nodes of a sorted list with the same key are the same node. -/
theorem lsorted_inj {key : Nat → Int} : ∀ {L : List Nat}, L.Pairwise (LLt key) → ∀ a b, a ∈ L → b ∈ L →
    a ≠ 0 → a ≠ 1 → b ≠ 0 → b ≠ 1 → key a = key b → a = b
  | [], _, _, _, ha, _, _, _, _, _, _ => by simp at ha
  | c :: L, h, a, b, ha, hb, ha0, ha1, hb0, hb1, hk => by
    have h' := List.pairwise_cons.mp h
    rcases List.mem_cons.mp ha with e1 | m1 <;> rcases List.mem_cons.mp hb with e2 | m2
    · rw [e1, e2]
    · subst e1
      have := h'.1 b m2
      unfold LLt at this
      rcases this.2.2 with h0 | h0 | h0
      · exact absurd h0 ha0
      · exact absurd h0 hb1
      · omega
    · subst e2
      have := h'.1 a m1
      unfold LLt at this
      rcases this.2.2 with h0 | h0 | h0
      · exact absurd h0 hb0
      · exact absurd h0 ha1
      · omega
    · exact lsorted_inj h'.2 a b m1 m2 ha0 ha1 hb0 hb1 hk

/-! ### What a program counter refers to -/

def onode : OpK → Option Nat
  | .ins n _ _ => some n
  | .upd n _ _ _ _ => some n
  | .era _ => none
  | .ext _ => none
  | .fnd _ => none
  | .con _ => none

def oval : OpK → Int
  | .ins _ _ v => v
  | .upd _ _ v _ _ => v
  | .era _ => 0
  | .ext _ => 0
  | .fnd _ => 0
  | .con _ => 0

/-- The node an inserter still owns privately (before the store that links it). -/
def insNode : PC → Option Nat
  | .idle => none
  | .sLd1 o _ => onode o
  | .sLd2 o _ _ _ => onode o
  | .lkP o _ _ => onode o
  | .spP o _ _ => onode o
  | .lkC o _ _ => onode o
  | .spC o _ _ => onode o
  | .v1 o _ _ => onode o
  | .v2 o _ _ => onode o
  | .v3 o _ _ => onode o
  | .iSt _ n _ _ => some n
  | .iLk _ n _ _ => some n
  | .eLd _ _ _ => none
  | .eMk _ _ _ _ => none
  | .eUn _ _ _ _ _ => none
  | .unlC o _ _ r => match r with | none => onode o | some _ => none
  | .unlP o _ r => match r with | none => onode o | some _ => none
  | .fLk _ _ => none
  | .fSp _ _ => none
  | .fChk _ _ => none
  | .fUnl _ _ _ => none
  | .cChk _ _ => none
  | .done _ => none

/-- `pPred` (during `search`: `pPrev`). -/
def pcPrev : PC → Option Nat
  | .idle => none
  | .sLd1 _ p => some p
  | .sLd2 _ p _ _ => some p
  | .lkP _ p _ => some p
  | .spP _ p _ => some p
  | .lkC _ p _ => some p
  | .spC _ p _ => some p
  | .v1 _ p _ => some p
  | .v2 _ p _ => some p
  | .v3 _ p _ => some p
  | .iSt _ _ p _ => some p
  | .iLk _ _ p _ => some p
  | .eLd _ p _ => some p
  | .eMk _ p _ _ => some p
  | .eUn _ p _ _ _ => some p
  | .unlC _ p _ _ => some p
  | .unlP _ p _ => some p
  | .fLk _ _ => none
  | .fSp _ _ => none
  | .fChk _ _ => none
  | .fUnl _ _ _ => none
  | .cChk _ _ => none
  | .done _ => none

/-- `pCur`. -/
def pcCur : PC → Option Nat
  | .idle => none
  | .sLd1 _ _ => none
  | .sLd2 _ _ _ _ => none
  | .lkP _ _ c => some c
  | .spP _ _ c => some c
  | .lkC _ _ c => some c
  | .spC _ _ c => some c
  | .v1 _ _ c => some c
  | .v2 _ _ c => some c
  | .v3 _ _ c => some c
  | .iSt _ _ _ c => some c
  | .iLk _ _ _ c => some c
  | .eLd _ _ c => some c
  | .eMk _ _ c _ => some c
  | .eUn _ _ c _ _ => some c
  | .unlC _ _ c _ => some c
  | .unlP _ _ _ => none
  | .fLk _ c => some c
  | .fSp _ c => some c
  | .fChk _ c => some c
  | .fUnl _ c _ => some c
  | .cChk _ c => some c
  | .done _ => none

/-- The key the operation is about. -/
def skey : PC → Int
  | .idle => 0
  | .sLd1 o _ => okey o
  | .sLd2 o _ _ _ => okey o
  | .lkP o _ _ => okey o
  | .spP o _ _ => okey o
  | .lkC o _ _ => okey o
  | .spC o _ _ => okey o
  | .v1 o _ _ => okey o
  | .v2 o _ _ => okey o
  | .v3 o _ _ => okey o
  | .iSt o _ _ _ => okey o
  | .iLk o _ _ _ => okey o
  | .eLd o _ _ => okey o
  | .eMk o _ _ _ => okey o
  | .eUn o _ _ _ _ => okey o
  | .unlC o _ _ _ => okey o
  | .unlP o _ _ => okey o
  | .fLk k _ => k
  | .fSp k _ => k
  | .fChk k _ => k
  | .fUnl k _ _ => k
  | .cChk k _ => k
  | .done _ => 0

/-- The payload the operation brings. -/
def sval : PC → Int
  | .idle => 0
  | .sLd1 o _ => oval o
  | .sLd2 o _ _ _ => oval o
  | .lkP o _ _ => oval o
  | .spP o _ _ => oval o
  | .lkC o _ _ => oval o
  | .spC o _ _ => oval o
  | .v1 o _ _ => oval o
  | .v2 o _ _ => oval o
  | .v3 o _ _ => oval o
  | .iSt o _ _ _ => oval o
  | .iLk o _ _ _ => oval o
  | .eLd _ _ _ => 0
  | .eMk _ _ _ _ => 0
  | .eUn _ _ _ _ _ => 0
  | .unlC o _ _ _ => oval o
  | .unlP o _ _ => oval o
  | .fLk _ _ => 0
  | .fSp _ _ => 0
  | .fChk _ _ => 0
  | .fUnl _ _ _ => 0
  | .cChk _ _ => 0
  | .done _ => 0

/-- The node whose lock the thread holds as `pPred->m_Lock`. -/
def heldP : PC → Option Nat
  | .idle => none
  | .sLd1 _ _ => none
  | .sLd2 _ _ _ _ => none
  | .lkP _ _ _ => none
  | .spP _ _ _ => none
  | .lkC _ p _ => some p
  | .spC _ p _ => some p
  | .v1 _ p _ => some p
  | .v2 _ p _ => some p
  | .v3 _ p _ => some p
  | .iSt _ _ p _ => some p
  | .iLk _ _ p _ => some p
  | .eLd _ p _ => some p
  | .eMk _ p _ _ => some p
  | .eUn _ p _ _ _ => some p
  | .unlC _ p _ _ => some p
  | .unlP _ p _ => some p
  | .fLk _ _ => none
  | .fSp _ _ => none
  | .fChk _ _ => none
  | .fUnl _ _ _ => none
  | .cChk _ _ => none
  | .done _ => none

/-- The node whose lock the thread holds as `pCur->m_Lock`. -/
def heldC : PC → Option Nat
  | .idle => none
  | .sLd1 _ _ => none
  | .sLd2 _ _ _ _ => none
  | .lkP _ _ _ => none
  | .spP _ _ _ => none
  | .lkC _ _ _ => none
  | .spC _ _ _ => none
  | .v1 _ _ c => some c
  | .v2 _ _ c => some c
  | .v3 _ _ c => some c
  | .iSt _ _ _ c => some c
  | .iLk _ _ _ c => some c
  | .eLd _ _ c => some c
  | .eMk _ _ c _ => some c
  | .eUn _ _ c _ _ => some c
  | .unlC _ _ c _ => some c
  | .unlP _ _ _ => none
  | .fLk _ _ => none
  | .fSp _ _ => none
  | .fChk _ c => some c
  | .fUnl _ c _ => some c
  | .cChk _ _ => none
  | .done _ => none

/-- `pPred` has been seen unmarked under its lock. -/
def knowUnmP : PC → Option Nat
  | .idle => none
  | .sLd1 _ _ => none
  | .sLd2 _ _ _ _ => none
  | .lkP _ _ _ => none
  | .spP _ _ _ => none
  | .lkC _ _ _ => none
  | .spC _ _ _ => none
  | .v1 _ _ _ => none
  | .v2 _ p _ => some p
  | .v3 _ p _ => some p
  | .iSt _ _ p _ => some p
  | .iLk _ _ p _ => some p
  | .eLd _ p _ => some p
  | .eMk _ p _ _ => some p
  | .eUn _ p _ _ _ => some p
  | .unlC _ _ _ _ => none
  | .unlP _ _ _ => none
  | .fLk _ _ => none
  | .fSp _ _ => none
  | .fChk _ _ => none
  | .fUnl _ _ _ => none
  | .cChk _ _ => none
  | .done _ => none

/-- `pCur` has been seen unmarked under its lock (and the thread has not marked it). -/
def knowUnmC : PC → Option Nat
  | .idle => none
  | .sLd1 _ _ => none
  | .sLd2 _ _ _ _ => none
  | .lkP _ _ _ => none
  | .spP _ _ _ => none
  | .lkC _ _ _ => none
  | .spC _ _ _ => none
  | .v1 _ _ _ => none
  | .v2 _ _ _ => none
  | .v3 _ _ c => some c
  | .iSt _ _ _ c => some c
  | .iLk _ _ _ c => some c
  | .eLd _ _ c => some c
  | .eMk _ _ c _ => some c
  | .eUn _ _ _ _ _ => none
  | .unlC _ _ _ _ => none
  | .unlP _ _ _ => none
  | .fLk _ _ => none
  | .fSp _ _ => none
  | .fChk _ _ => none
  | .fUnl _ _ _ => none
  | .cChk _ _ => none
  | .done _ => none

/-- `pPred->m_pNext == pCur` has been seen under the locks. -/
def knowLink : PC → Option (Nat × Nat)
  | .idle => none
  | .sLd1 _ _ => none
  | .sLd2 _ _ _ _ => none
  | .lkP _ _ _ => none
  | .spP _ _ _ => none
  | .lkC _ _ _ => none
  | .spC _ _ _ => none
  | .v1 _ _ _ => none
  | .v2 _ _ _ => none
  | .v3 _ _ _ => none
  | .iSt _ _ p c => some (p, c)
  | .iLk _ _ p c => some (p, c)
  | .eLd _ p c => some (p, c)
  | .eMk _ p c _ => some (p, c)
  | .eUn _ p c _ _ => some (p, c)
  | .unlC _ _ _ _ => none
  | .unlP _ _ _ => none
  | .fLk _ _ => none
  | .fSp _ _ => none
  | .fChk _ _ => none
  | .fUnl _ _ _ => none
  | .cChk _ _ => none
  | .done _ => none

/-- `pCur` of an inserter that is going to link its node: its key is greater. -/
def pcGt : PC → Option Nat
  | .idle => none
  | .sLd1 _ _ => none
  | .sLd2 _ _ _ _ => none
  | .lkP _ _ _ => none
  | .spP _ _ _ => none
  | .lkC _ _ _ => none
  | .spC _ _ _ => none
  | .v1 _ _ _ => none
  | .v2 _ _ _ => none
  | .v3 _ _ _ => none
  | .iSt _ _ _ c => some c
  | .iLk _ _ _ c => some c
  | .eLd _ _ _ => none
  | .eMk _ _ _ _ => none
  | .eUn _ _ _ _ _ => none
  | .unlC _ _ _ _ => none
  | .unlP _ _ _ => none
  | .fLk _ _ => none
  | .fSp _ _ => none
  | .fChk _ _ => none
  | .fUnl _ _ _ => none
  | .cChk _ _ => none
  | .done _ => none

/-- `pCur` of an eraser that is going to mark it: an inner node with the key. -/
def pcEq : PC → Option Nat
  | .idle => none
  | .sLd1 _ _ => none
  | .sLd2 _ _ _ _ => none
  | .lkP _ _ _ => none
  | .spP _ _ _ => none
  | .lkC _ _ _ => none
  | .spC _ _ _ => none
  | .v1 _ _ _ => none
  | .v2 _ _ _ => none
  | .v3 _ _ _ => none
  | .iSt _ _ _ _ => none
  | .iLk _ _ _ _ => none
  | .eLd _ _ c => some c
  | .eMk _ _ c _ => some c
  | .eUn _ _ _ _ _ => none
  | .unlC _ _ _ _ => none
  | .unlP _ _ _ => none
  | .fLk _ _ => none
  | .fSp _ _ => none
  | .fChk _ _ => none
  | .fUnl _ _ _ => none
  | .cChk _ _ => none
  | .done _ => none

/-- `pCur` of a `find` / `contains` whose `search` has returned: not the tail. -/
def pcNT : PC → Option Nat
  | .idle => none
  | .sLd1 _ _ => none
  | .sLd2 _ _ _ _ => none
  | .lkP _ _ _ => none
  | .spP _ _ _ => none
  | .lkC _ _ _ => none
  | .spC _ _ _ => none
  | .v1 _ _ _ => none
  | .v2 _ _ _ => none
  | .v3 _ _ _ => none
  | .iSt _ _ _ _ => none
  | .iLk _ _ _ _ => none
  | .eLd _ _ _ => none
  | .eMk _ _ _ _ => none
  | .eUn _ _ _ _ _ => none
  | .unlC _ _ _ _ => none
  | .unlP _ _ _ => none
  | .fLk _ c => some c
  | .fSp _ c => some c
  | .fChk _ c => some c
  | .fUnl _ _ _ => none
  | .cChk _ c => some c
  | .done _ => none

/-- The operation of a thread that is going to link its node. -/
def pcLinkOp : PC → Option OpK
  | .idle => none
  | .sLd1 _ _ => none
  | .sLd2 _ _ _ _ => none
  | .lkP _ _ _ => none
  | .spP _ _ _ => none
  | .lkC _ _ _ => none
  | .spC _ _ _ => none
  | .v1 _ _ _ => none
  | .v2 _ _ _ => none
  | .v3 _ _ _ => none
  | .iSt o _ _ _ => some o
  | .iLk o _ _ _ => some o
  | .eLd _ _ _ => none
  | .eMk _ _ _ _ => none
  | .eUn _ _ _ _ _ => none
  | .unlC _ _ _ _ => none
  | .unlP _ _ _ => none
  | .fLk _ _ => none
  | .fSp _ _ => none
  | .fChk _ _ => none
  | .fUnl _ _ _ => none
  | .cChk _ _ => none
  | .done _ => none

/-- The operation of a thread that is going to mark `pCur`. -/
def pcEraOp : PC → Option OpK
  | .idle => none
  | .sLd1 _ _ => none
  | .sLd2 _ _ _ _ => none
  | .lkP _ _ _ => none
  | .spP _ _ _ => none
  | .lkC _ _ _ => none
  | .spC _ _ _ => none
  | .v1 _ _ _ => none
  | .v2 _ _ _ => none
  | .v3 _ _ _ => none
  | .iSt _ _ _ _ => none
  | .iLk _ _ _ _ => none
  | .eLd o _ _ => some o
  | .eMk o _ _ _ => some o
  | .eUn _ _ _ _ _ => none
  | .unlC _ _ _ _ => none
  | .unlP _ _ _ => none
  | .fLk _ _ => none
  | .fSp _ _ => none
  | .fChk _ _ => none
  | .fUnl _ _ _ => none
  | .cChk _ _ => none
  | .done _ => none

/-- The node a thread has marked and not yet unlinked (it is between the two stores of `unlink_node`). -/
def pcWin : PC → Option Nat
  | .idle => none
  | .sLd1 _ _ => none
  | .sLd2 _ _ _ _ => none
  | .lkP _ _ _ => none
  | .spP _ _ _ => none
  | .lkC _ _ _ => none
  | .spC _ _ _ => none
  | .v1 _ _ _ => none
  | .v2 _ _ _ => none
  | .v3 _ _ _ => none
  | .iSt _ _ _ _ => none
  | .iLk _ _ _ _ => none
  | .eLd _ _ _ => none
  | .eMk _ _ _ _ => none
  | .eUn _ _ c _ _ => some c
  | .unlC _ _ _ _ => none
  | .unlP _ _ _ => none
  | .fLk _ _ => none
  | .fSp _ _ => none
  | .fChk _ _ => none
  | .fUnl _ _ _ => none
  | .cChk _ _ => none
  | .done _ => none

/-- Operations that link a node: `insert`, and `update` with `bAllowInsert`. -/
def linkOk : OpK → Bool
  | .ins _ _ _ => true
  | .upd _ _ _ allow _ => decide (allow ≠ 0)
  | .era _ => false
  | .ext _ => false
  | .fnd _ => false
  | .con _ => false

/-- Operations that mark a node: `erase`, `extract`. -/
def eraOk : OpK → Bool
  | .ins _ _ _ => false
  | .upd _ _ _ _ _ => false
  | .era _ => true
  | .ext _ => true
  | .fnd _ => false
  | .con _ => false

theorem knowUnmP_held {pc : PC} {p : Nat} (h : knowUnmP pc = some p) : heldP pc = some p := by
  cases pc <;> simp_all [knowUnmP, heldP]
theorem knowUnmC_held {pc : PC} {c : Nat} (h : knowUnmC pc = some c) : heldC pc = some c := by
  cases pc <;> simp_all [knowUnmC, heldC]
theorem knowLink_held {pc : PC} {p c : Nat} (h : knowLink pc = some (p, c)) : heldP pc = some p := by
  cases pc <;> simp_all [knowLink, heldP]
theorem heldP_prev {pc : PC} {p : Nat} (h : heldP pc = some p) : pcPrev pc = some p := by
  cases pc <;> simp_all [pcPrev, heldP]
theorem heldC_cur {pc : PC} {c : Nat} (h : heldC pc = some c) : pcCur pc = some c := by
  cases pc <;> simp_all [pcCur, heldC]

/-! ### The structural invariant -/

structure SInvL (s : St) (L : List Nat) : Prop where
  chain : Chain s.succ (some 0) L
  sorted : L.Pairwise (LLt s.key)
  tailIn : 1 ∈ L
  cnt2 : 2 ≤ s.cnt
  alloc : ∀ a, a ∈ L → a < s.cnt
  unalloc : ∀ a, s.cnt ≤ a → s.next a = none ∧ s.succ a = none ∧ s.mark a = false ∧ s.lock a = false
  mark0 : s.mark 0 = false
  mark1 : s.mark 1 = false
  agree : ∀ a, s.mark a = false → s.next a = s.succ a
  back : ∀ a, s.mark a = true → s.next a = some 0
  priv : ∀ t n, insNode (s.pc t) = some n →
    n < s.cnt ∧ n ∉ L ∧ s.mark n = false ∧ s.key n = skey (s.pc t) ∧ s.val n = sval (s.pc t)
  own : ∀ t1 t2 n, insNode (s.pc t1) = some n → insNode (s.pc t2) = some n → t1 = t2
  lkPrev : ∀ t a, pcPrev (s.pc t) = some a → a ≠ 1 ∧ (a ∈ L ∨ s.mark a = true)
  lkCur : ∀ t a, pcCur (s.pc t) = some a → a ≠ 0 ∧ (a ∈ L ∨ s.mark a = true)
  keyPrev : ∀ t a, pcPrev (s.pc t) = some a → a = 0 ∨ s.key a < skey (s.pc t)
  keyCur : ∀ t a, pcCur (s.pc t) = some a → a = 1 ∨ skey (s.pc t) ≤ s.key a
  pneq : ∀ t p c, pcPrev (s.pc t) = some p → pcCur (s.pc t) = some c → p ≠ c
  nt : ∀ t c, pcNT (s.pc t) = some c → c ≠ 1
  mPP : ∀ t1 t2 a, heldP (s.pc t1) = some a → heldP (s.pc t2) = some a → t1 = t2
  mPC : ∀ t1 t2 a, heldP (s.pc t1) = some a → heldC (s.pc t2) = some a → t1 = t2
  mCC : ∀ t1 t2 a, heldC (s.pc t1) = some a → heldC (s.pc t2) = some a → t1 = t2
  lockedP : ∀ t a, heldP (s.pc t) = some a → s.lock a = true
  lockedC : ∀ t a, heldC (s.pc t) = some a → s.lock a = true
  unmP : ∀ t p, knowUnmP (s.pc t) = some p → s.mark p = false
  unmC : ∀ t c, knowUnmC (s.pc t) = some c → s.mark c = false
  link : ∀ t p c, knowLink (s.pc t) = some (p, c) → s.succ p = some c
  gt : ∀ t c, pcGt (s.pc t) = some c → c = 1 ∨ skey (s.pc t) < s.key c
  eqk : ∀ t c, pcEq (s.pc t) = some c → c ≠ 1 ∧ s.key c = skey (s.pc t)
  nlink : ∀ t o n p c, s.pc t = .iLk o n p c → s.next n = some c ∧ s.succ n = some c
  enx : ∀ t o p c nx, s.pc t = .eMk o p c nx → s.next c = nx
  eun : ∀ t o p c nx r, s.pc t = .eUn o p c nx r → s.succ c = nx ∧ s.mark c = true ∧ c ∈ L
  lop : ∀ t o, pcLinkOp (s.pc t) = some o → linkOk o = true
  eop : ∀ t o, pcEraOp (s.pc t) = some o → eraOk o = true

def SInv (s : St) : Prop := ∃ L, SInvL s L

theorem sinv_init : SInvL init [0, 1] := by
  constructor <;> simp [init, Chain, LLt, insNode, pcPrev, pcCur, pcNT, heldP, heldC, knowUnmP, knowUnmC, knowLink,
    pcGt, pcEq, pcLinkOp, pcEraOp]
  intro a ha
  have h0 : a ≠ 0 := by omega
  simp [h0]

theorem SInvL.unique {s : St} {L1 L2 : List Nat} (h1 : SInvL s L1) (h2 : SInvL s L2) : L1 = L2 :=
  Chain.functional h1.chain h2.chain

theorem SInvL.head_cons {s : St} {L : List Nat} (h : SInvL s L) : ∃ l, L = 0 :: l := by
  have hc := h.chain
  cases L with
  | nil => simp [Chain] at hc
  | cons a r => simp only [Chain, Option.some.injEq] at hc; exact ⟨r, by rw [hc.1]⟩

theorem SInvL.zero_mem {s : St} {L : List Nat} (h : SInvL s L) : 0 ∈ L := by
  obtain ⟨l, rfl⟩ := h.head_cons; simp

theorem SInvL.nodup {s : St} {L : List Nat} (h : SInvL s L) : L.Nodup := lsorted_nodup h.sorted

/-- The logical successor of a linked node is a linked node other than the head. -/
theorem SInvL.succ_mem {s : St} {L : List Nat} (h : SInvL s L) {a b : Nat} (ha : a ∈ L) (hb : s.succ a = some b) :
    b ≠ 0 ∧ b ∈ L := by
  have h1 := Chain.succ_mem h.chain ha hb
  obtain ⟨l, rfl⟩ := h.head_cons
  simp only [List.tail_cons] at h1
  have := (List.pairwise_cons.mp h.sorted).1 b h1
  exact ⟨this.2.1, List.mem_cons_of_mem _ h1⟩

/-- What an unmarked linked node's word in memory points to. -/
theorem SInvL.next_mem {s : St} {L : List Nat} (h : SInvL s L) {a b : Nat} (ha : a ∈ L) (hm : s.mark a = false)
    (hb : s.next a = some b) : b ≠ 0 ∧ b ∈ L ∧ s.succ a = some b := by
  have e := h.agree a hm
  rw [e] at hb
  exact ⟨(h.succ_mem ha hb).1, (h.succ_mem ha hb).2, hb⟩

theorem SInvL.lt_cnt {s : St} {L : List Nat} (h : SInvL s L) {a : Nat} (ha : a ∈ L ∨ s.mark a = true) : a < s.cnt := by
  rcases ha with ha | ha
  · exact h.alloc a ha
  · apply Classical.byContradiction
    intro hn
    have := (h.unalloc a (by omega)).2.2.1
    rw [this] at ha; simp at ha

/-! ### The abstract map -/

/-- Some unmarked inner node on the chain carries `(k, v)`. -/
def Has (mark : Nat → Bool) (key val : Nat → Int) (L : List Nat) (k v : Int) : Prop :=
  ∃ a, a ∈ L ∧ a ≠ 0 ∧ a ≠ 1 ∧ mark a = false ∧ key a = k ∧ val a = v

/-- No inner node on the chain has key `k`, when `k` lies strictly between the key of a chain node `p` and the key
    of the successor of `p`. -/
theorem SInvL.gap {s : St} {L : List Nat} (h : SInvL s L) {p c : Nat} {k : Int} (hp : p ∈ L) (hp1 : p ≠ 1)
    (hpk : p = 0 ∨ s.key p < k) (hpc : s.succ p = some c) (hck : c = 1 ∨ k < s.key c) :
    ∀ a, a ∈ L → a ≠ 0 → a ≠ 1 → s.key a ≠ k := by
  intro a ha ha0 ha1 hk
  rcases Chain.around h.chain h.sorted hp a ha with e | hlt | ⟨c', hc', e | hlt⟩
  · subst e
    rcases hpk with h0 | h0
    · exact ha0 h0
    · omega
  · unfold LLt at hlt
    rcases hlt.2.2 with h0 | h0 | h0
    · exact ha0 h0
    · exact hp1 h0
    · rcases hpk with h1 | h1
      · exact hlt.2.1 h1
      · omega
  · rw [hpc] at hc'; simp at hc'; subst hc'
    subst e
    rcases hck with h0 | h0
    · exact ha1 h0
    · omega
  · rw [hpc] at hc'; simp at hc'; subst hc'
    unfold LLt at hlt
    rcases hlt.2.2 with h0 | h0 | h0
    · exact (h.succ_mem hp hpc).1 h0
    · exact ha1 h0
    · rcases hck with h1 | h1
      · exact hlt.1 h1
      · omega

theorem SInvL.absent {s : St} {L : List Nat} (h : SInvL s L) {p c : Nat} {k : Int} (hp : p ∈ L) (hp1 : p ≠ 1)
    (hpk : p = 0 ∨ s.key p < k) (hpc : s.succ p = some c) (hck : c = 1 ∨ k < s.key c) :
    ∀ w, ¬ Has s.mark s.key s.val L k w := by
  rintro w ⟨a, ha, ha0, ha1, -, hk, -⟩
  exact h.gap hp hp1 hpk hpc hck a ha ha0 ha1 hk

/-- The key of a marked chain node is absent from the abstract map. -/
theorem SInvL.absent_marked {s : St} {L : List Nat} (h : SInvL s L) {c : Nat} (hc : c ∈ L) (hc0 : c ≠ 0) (hc1 : c ≠ 1)
    (hm : s.mark c = true) : ∀ w, ¬ Has s.mark s.key s.val L (s.key c) w := by
  rintro w ⟨a, ha, ha0, ha1, hma, hk, -⟩
  have := lsorted_inj h.sorted a c ha hc ha0 ha1 hc0 hc1 hk
  subst this
  rw [hm] at hma; simp at hma

/-- Unlinking a marked node does not change the abstract map. -/
theorem has_erase {mark : Nat → Bool} {key val : Nat → Int} {L : List Nat} {c : Nat} (hnd : L.Nodup)
    (hm : mark c = true) (k v : Int) : Has mark key val (L.erase c) k v ↔ Has mark key val L k v := by
  unfold Has
  constructor
  · rintro ⟨a, ha, h⟩
    exact ⟨a, (List.Nodup.mem_erase_iff hnd).mp ha |>.2, h⟩
  · rintro ⟨a, ha, h0, h1, h2, h3⟩
    refine ⟨a, (List.Nodup.mem_erase_iff hnd).mpr ⟨?_, ha⟩, h0, h1, h2, h3⟩
    intro e; rw [e, hm] at h2; simp at h2

/-- Linking an unmarked node adds its pair to the abstract map. -/
theorem has_insert {mark : Nat → Bool} {key val : Nat → Int} {L : List Nat} {p n : Nat} (hp : p ∈ L)
    (hn0 : n ≠ 0) (hn1 : n ≠ 1) (hnm : mark n = false) (j w : Int) :
    Has mark key val (insAfter p n L) j w ↔ (Has mark key val L j w ∨ (j = key n ∧ w = val n)) := by
  unfold Has
  constructor
  · rintro ⟨a, ha, h0, h1, h2, h3, h4⟩
    rcases (mem_insAfter hp).mp ha with hm | e
    · exact Or.inl ⟨a, hm, h0, h1, h2, h3, h4⟩
    · subst e; exact Or.inr ⟨h3.symm, h4.symm⟩
  · rintro (⟨a, ha, h⟩ | ⟨e1, e2⟩)
    · exact ⟨a, (mem_insAfter hp).mpr (Or.inl ha), h⟩
    · exact ⟨n, (mem_insAfter hp).mpr (Or.inr rfl), hn0, hn1, hnm, e1.symm, e2.symm⟩

/-- Marking a chain node removes its key from the abstract map. -/
theorem has_mark {mark : Nat → Bool} {key val : Nat → Int} {L : List Nat} {c : Nat} (hso : L.Pairwise (LLt key))
    (hc : c ∈ L) (hc0 : c ≠ 0) (hc1 : c ≠ 1) (j w : Int) :
    Has (upd mark c true) key val L j w ↔ (Has mark key val L j w ∧ j ≠ key c) := by
  unfold Has
  constructor
  · rintro ⟨a, ha, h0, h1, h2, h3, h4⟩
    have hac : a ≠ c := by intro e; rw [e] at h2; simp [upd] at h2
    rw [upd_other _ _ _ _ hac] at h2
    refine ⟨⟨a, ha, h0, h1, h2, h3, h4⟩, ?_⟩
    intro e
    exact hac (lsorted_inj hso a c ha hc h0 h1 hc0 hc1 (h3.trans e))
  · rintro ⟨⟨a, ha, h0, h1, h2, h3, h4⟩, hne⟩
    have hac : a ≠ c := by intro e; rw [e] at h3; exact hne h3.symm
    exact ⟨a, ha, h0, h1, by rw [upd_other _ _ _ _ hac]; exact h2, h3, h4⟩

/-- Writing the payload of an unmarked chain node replaces the payload of its key in the abstract map. -/
theorem has_setval {mark : Nat → Bool} {key val : Nat → Int} {L : List Nat} {c : Nat} {v : Int}
    (hso : L.Pairwise (LLt key)) (hc : c ∈ L) (hc0 : c ≠ 0) (hc1 : c ≠ 1) (hm : mark c = false) (j w : Int) :
    Has mark key (upd val c v) L j w ↔ ((j = key c ∧ w = v) ∨ (j ≠ key c ∧ Has mark key val L j w)) := by
  unfold Has
  constructor
  · rintro ⟨a, ha, h0, h1, h2, h3, h4⟩
    by_cases e : a = c
    · subst e; simp [upd] at h4; exact Or.inl ⟨h3.symm, h4.symm⟩
    · rw [upd_other _ _ _ _ e] at h4
      refine Or.inr ⟨?_, a, ha, h0, h1, h2, h3, h4⟩
      intro e'
      exact e (lsorted_inj hso a c ha hc h0 h1 hc0 hc1 (h3.trans e'))
  · rintro (⟨e1, e2⟩ | ⟨hne, a, ha, h0, h1, h2, h3, h4⟩)
    · exact ⟨c, hc, hc0, hc1, hm, e1.symm, by simp [upd, e2]⟩
    · have hac : a ≠ c := by intro e; rw [e] at h3; exact hne h3.symm
      exact ⟨a, ha, h0, h1, h2, h3, by rw [upd_other _ _ _ _ hac]; exact h4⟩

/-! ### The sequential specification: the operations of the model -/

def gop : OpK → GOp
  | .ins _ k v => ⟨"insert", [k, v]⟩
  | .upd _ k v allow repl => ⟨if repl then "update" else "upsert_keep", [k, v, allow]⟩
  | .era k => ⟨"erase", [k]⟩
  | .ext k => ⟨"extract", [k]⟩
  | .fnd k => ⟨"find", [k]⟩
  | .con k => ⟨"contains", [k]⟩

/-- Result of an operation that finds its key in the unmarked node `c` and does not change the map. -/
def foundRet (val : Nat → Int) (o : OpK) (c : Nat) : Option GRet :=
  match o with
  | .ins _ _ _ => some [0]
  | .upd _ _ _ _ false => some [1, 0]
  | .upd _ _ _ _ true => none
  | .era _ => none
  | .ext _ => none
  | .fnd _ => some [1, val c]
  | .con _ => some [1]

/-- Result of an operation that finds its key absent and does not change the map. -/
def absentRet (o : OpK) : Option GRet :=
  match o with
  | .ins _ _ _ => none
  | .upd _ _ _ allow _ => if allow = 0 then some [0, 0] else none
  | .era _ => some [0]
  | .ext _ => some [0]
  | .fnd _ => some [0]
  | .con _ => some [0]

theorem LPok.absent {H H' : Int → Int → Prop} {o : OpK} {r : GRet} (h0 : ∀ w, ¬ H (okey o) w)
    (h1 : ∀ j w, H' j w ↔ H j w) (hr : absentRet o = some r) : LPok H (gop o) r H' := by
  intro m hm
  have hn := mfind_none_of hm h0
  refine ⟨m, ?_, fun j w => by rw [h1, hm]⟩
  cases o with
  | ins n k v => simp [absentRet] at hr
  | upd n k v allow repl =>
    simp only [absentRet] at hr
    split at hr
    next ha =>
      simp at hr; subst hr
      cases repl <;> simp [gop, okey, Spec.map, detSpec, mapStep, ha] at hn ⊢ <;> simp [hn]
    next => simp at hr
  | era k => simp [absentRet] at hr; subst hr; simp [gop, okey, Spec.map, detSpec, mapStep] at hn ⊢; simp [hn]
  | ext k => simp [absentRet] at hr; subst hr; simp [gop, okey, Spec.map, detSpec, mapStep] at hn ⊢; simp [hn]
  | fnd k => simp [absentRet] at hr; subst hr; simp [gop, okey, Spec.map, detSpec, mapStep] at hn ⊢; simp [hn]
  | con k => simp [absentRet] at hr; subst hr; simp [gop, okey, Spec.map, detSpec, mapStep] at hn ⊢; simp [hn]

theorem LPok.present {H H' : Int → Int → Prop} {val : Nat → Int} {o : OpK} {c : Nat} {r : GRet}
    (h0 : H (okey o) (val c)) (h1 : ∀ j w, H' j w ↔ H j w) (hr : foundRet val o c = some r) :
    LPok H (gop o) r H' := by
  intro m hm
  have hs := (hm _ _).mpr h0
  refine ⟨m, ?_, fun j w => by rw [h1, hm]⟩
  cases o with
  | ins n k v => simp [foundRet] at hr; subst hr; simp [gop, okey, Spec.map, detSpec, mapStep] at hs ⊢; simp [hs]
  | upd n k v allow repl =>
    cases repl with
    | true => simp [foundRet] at hr
    | false => simp [foundRet] at hr; subst hr; simp [gop, okey, Spec.map, detSpec, mapStep] at hs ⊢; simp [hs]
  | era k => simp [foundRet] at hr
  | ext k => simp [foundRet] at hr
  | fnd k => simp [foundRet] at hr; subst hr; simp [gop, okey, Spec.map, detSpec, mapStep] at hs ⊢; simp [hs]
  | con k => simp [foundRet] at hr; subst hr; simp [gop, okey, Spec.map, detSpec, mapStep] at hs ⊢; simp [hs]

/-- The node of an `insert` / allowed `update` is linked: the pair joins the map. -/
theorem LPok.link {H H' : Int → Int → Prop} {o : OpK} (h0 : ∀ w, ¬ H (okey o) w)
    (h1 : ∀ j w, H' j w ↔ (H j w ∨ (j = okey o ∧ w = oval o)))
    (ho : linkOk o = true) :
    LPok H (gop o) (linkRet o) H' := by
  intro m hm
  have hn := mfind_none_of hm h0
  refine ⟨(okey o, oval o) :: m, ?_, ?_⟩
  · cases o with
    | ins n k v => simp [gop, okey, oval, linkRet, Spec.map, detSpec, mapStep] at hn ⊢; simp [hn]
    | upd n k v allow repl =>
      have ha : allow ≠ 0 := by simpa [linkOk] using ho
      cases repl <;> simp [gop, okey, oval, linkRet, Spec.map, detSpec, mapStep, ha] at hn ⊢ <;> simp [hn]
    | era k => simp [linkOk] at ho
    | ext k => simp [linkOk] at ho
    | fnd k => simp [linkOk] at ho
    | con k => simp [linkOk] at ho
  · intro j w
    rw [mfind_cons, h1, ← hm]
    by_cases e : j = okey o
    · subst e; simp [hn]; exact eq_comm
    · simp [e]

/-- The marking store of `erase` / `extract`. -/
theorem LPok.mark {H H' : Int → Int → Prop} {o : OpK} {v : Int} (h0 : H (okey o) v)
    (h1 : ∀ j w, H' j w ↔ (H j w ∧ j ≠ okey o)) (ho : eraOk o = true) :
    LPok H (gop o) [1, v] H' := by
  intro m hm
  have hs := (hm _ _).mpr h0
  refine ⟨merase m (okey o), ?_, ?_⟩
  · cases o with
    | ins n k v => simp [eraOk] at ho
    | upd n k v allow repl => simp [eraOk] at ho
    | era k => simp [gop, okey, Spec.map, detSpec, mapStep] at hs ⊢; simp [hs]
    | ext k => simp [gop, okey, Spec.map, detSpec, mapStep] at hs ⊢; simp [hs]
    | fnd k => simp [eraOk] at ho
    | con k => simp [eraOk] at ho
  · intro j w
    rw [mfind_merase, h1, ← hm]
    by_cases e : j = okey o
    · subst e; simp
    · simp [e]

/-- `update` of the key-value forms on an existing key: the payload is replaced. -/
theorem LPok.repl {H H' : Int → Int → Prop} {n : Nat} {k v allow v0 : Int} (h0 : H k v0)
    (h1 : ∀ j w, H' j w ↔ ((j = k ∧ w = v) ∨ (j ≠ k ∧ H j w))) :
    LPok H (gop (.upd n k v allow true)) [1, 0] H' := by
  intro m hm
  have hs := (hm _ _).mpr h0
  refine ⟨(k, v) :: merase m k, ?_, ?_⟩
  · simp [gop, Spec.map, detSpec, mapStep, hs]
  · intro j w
    rw [mfind_cons, mfind_merase, h1, ← hm]
    by_cases e : j = k
    · subst e; simp; exact eq_comm
    · simp [e]

theorem LPok.congr_left {H H1 H' : Int → Int → Prop} {op : GOp} {r : GRet} (he : ∀ k v, H k v ↔ H1 k v)
    (h : LPok H1 op r H') : LPok H op r H' := by
  intro m hm
  exact h m (fun k v => (hm k v).trans (he k v))

/-! ### Linearization-point bookkeeping on program counters -/

/-- `find` / `contains` after `search` has stopped at the inner node `c`: with another key the answer is `[0]`
    (fixed at the end of `search`); with the key, nothing is fixed while `c` is unmarked, and `[0]` once it is marked. -/
def wRet (mark : Nat → Bool) (key : Nat → Int) (k : Int) (c : Nat) : Option GRet :=
  if key c = k then (if mark c = true then some [0] else none) else some [0]

/-- The result the thread's operation has fixed. -/
def lpRet (mark : Nat → Bool) (key : Nat → Int) : PC → Option GRet
  | .idle => none
  | .sLd1 _ _ => none
  | .sLd2 _ _ _ _ => none
  | .lkP _ _ _ => none
  | .spP _ _ _ => none
  | .lkC _ _ _ => none
  | .spC _ _ _ => none
  | .v1 _ _ _ => none
  | .v2 _ _ _ => none
  | .v3 _ _ _ => none
  | .iSt _ _ _ _ => none
  | .iLk _ _ _ _ => none
  | .eLd _ _ _ => none
  | .eMk _ _ _ _ => none
  | .eUn _ _ _ _ r => some r
  | .unlC _ _ _ r => r
  | .unlP _ _ r => r
  | .fLk k c => wRet mark key k c
  | .fSp k c => wRet mark key k c
  | .fChk k c => wRet mark key k c
  | .fUnl _ _ r => some r
  | .cChk k c => wRet mark key k c
  | .done r => some r

/-- The operation a thread is executing (while the program counter still tells). -/
def opOf : PC → Option GOp
  | .idle => none
  | .sLd1 o _ => some (gop o)
  | .sLd2 o _ _ _ => some (gop o)
  | .lkP o _ _ => some (gop o)
  | .spP o _ _ => some (gop o)
  | .lkC o _ _ => some (gop o)
  | .spC o _ _ => some (gop o)
  | .v1 o _ _ => some (gop o)
  | .v2 o _ _ => some (gop o)
  | .v3 o _ _ => some (gop o)
  | .iSt o _ _ _ => some (gop o)
  | .iLk o _ _ _ => some (gop o)
  | .eLd o _ _ => some (gop o)
  | .eMk o _ _ _ => some (gop o)
  | .eUn o _ _ _ _ => some (gop o)
  | .unlC o _ _ _ => some (gop o)
  | .unlP o _ _ => some (gop o)
  | .fLk k _ => some (gop (.fnd k))
  | .fSp k _ => some (gop (.fnd k))
  | .fChk k _ => some (gop (.fnd k))
  | .fUnl k _ _ => some (gop (.fnd k))
  | .cChk k _ => some (gop (.con k))
  | .done _ => none

theorem lpRet_congr {mark mark' : Nat → Bool} {key key' : Nat → Int} {pc : PC}
    (hc : ∀ c, pcCur pc = some c → mark' c = mark c ∧ key' c = key c) : lpRet mark' key' pc = lpRet mark key pc := by
  cases pc <;> simp only [lpRet] <;> (have := hc _ (by simp [pcCur]; rfl)) <;> simp [wRet, this]

structure StepEff (s : St) (t : Tid) (s' : St) (L L' : List Nat) : Prop where
  frame : ∀ t2, t2 ≠ t → s'.pc t2 = s.pc t2
  key : s'.key = s.key
  cnt : s'.cnt = s.cnt
  lp : lpRet s.mark s.key (s.pc t) = none → ∀ r, lpRet s'.mark s'.key (s'.pc t) = some r →
        ∃ op, opOf (s.pc t) = some op ∧ LPok (Has s.mark s.key s.val L) op r (Has s'.mark s'.key s'.val L')
  nolp : (lpRet s.mark s.key (s.pc t) ≠ none ∨ lpRet s'.mark s'.key (s'.pc t) = none) →
        ∀ k v, Has s'.mark s'.key s'.val L' k v ↔ Has s.mark s.key s.val L k v
  keep : ∀ r, lpRet s.mark s.key (s.pc t) = some r → lpRet s'.mark s'.key (s'.pc t) = some r
  help : ∀ t2, t2 ≠ t → lpRet s.mark s.key (s.pc t2) = none → ∀ r, lpRet s'.mark s'.key (s.pc t2) = some r →
        ∃ op, opOf (s.pc t2) = some op ∧
          LPok (Has s'.mark s'.key s'.val L') op r (Has s'.mark s'.key s'.val L')
  keepo : ∀ t2, t2 ≠ t → ∀ r, lpRet s.mark s.key (s.pc t2) = some r → lpRet s'.mark s'.key (s.pc t2) = some r
  op : ∀ op, opOf (s'.pc t) = some op → opOf (s.pc t) = some op
  busy : s.pc t ≠ .idle ∧ s'.pc t ≠ .idle
  mono : ∀ a, (a ∈ L ∨ s.mark a = true) → (a ∈ L' ∨ s'.mark a = true)
  frz : ∀ a, s.mark a = true → s'.mark a = true ∧ s'.next a = s.next a
  disc : ∀ a, (s'.next a ≠ s.next a ∨ s'.mark a ≠ s.mark a ∨ s'.succ a ≠ s.succ a) →
    heldP (s.pc t) = some a ∨ heldC (s.pc t) = some a ∨ insNode (s.pc t) = some a
  vdisc : ∀ a, s'.val a ≠ s.val a → heldC (s.pc t) = some a ∧ s.mark a = false ∧ a ∈ L
  ldisc : ∀ a, s'.lock a ≠ s.lock a →
    (s.lock a = false ∧ (heldP (s'.pc t) = some a ∨ heldC (s'.pc t) = some a)) ∨
    (s.lock a = true ∧ (heldP (s.pc t) = some a ∨ heldC (s.pc t) = some a))
  linked : ∀ o n p c, s.pc t = .iLk o n p c → n ∈ L' ∧ s'.mark n = false
  marks : ∀ a, s.mark a = false → s'.mark a = true →
    ∃ o p nx, s.pc t = .eMk o p a nx ∧ s'.pc t = .eUn o p a nx [1, s.val a] ∧ s.key a = okey o ∧ a ∈ L
  unl : ∀ a, a ∈ L → a ∉ L' → s.mark a = true ∧ ∃ o p nx r, s.pc t = .eUn o p a nx r
  grow : ∀ a, a ∈ L' → a ∈ L ∨ s'.mark a = false
  wout : ∀ a, pcWin (s.pc t) = some a → a ∉ L'

/-- The key is absent (it lies in the gap behind the chain node `p`): the operation answers "not there" and the map
    does not change. -/
theorem SInvL.lp_absent {s : St} {L : List Nat} (h : SInvL s L) {p c : Nat} {o : OpK} {r : GRet} (hp : p ∈ L)
    (hp1 : p ≠ 1) (hpk : p = 0 ∨ s.key p < okey o) (hpc : s.succ p = some c) (hck : c = 1 ∨ okey o < s.key c)
    (hr : absentRet o = some r) :
    LPok (Has s.mark s.key s.val L) (gop o) r (Has s.mark s.key s.val L) :=
  LPok.absent (h.absent hp hp1 hpk hpc hck) (fun _ _ => Iff.rfl) hr

/-- The key is absent (the chain node that carries it is marked). -/
theorem SInvL.lp_absent_marked {s : St} {L : List Nat} (h : SInvL s L) {c : Nat} {o : OpK} {r : GRet} (hc : c ∈ L)
    (hc0 : c ≠ 0) (hc1 : c ≠ 1) (hm : s.mark c = true) (hk : s.key c = okey o) (hr : absentRet o = some r) :
    LPok (Has s.mark s.key s.val L) (gop o) r (Has s.mark s.key s.val L) :=
  LPok.absent (hk ▸ h.absent_marked hc hc0 hc1 hm) (fun _ _ => Iff.rfl) hr

/-- The key is present in the unmarked chain node `c`: a failing insert, an `update` that keeps the item, a find, a
    contains. -/
theorem SInvL.lp_present {s : St} {L : List Nat} (_h : SInvL s L) {c : Nat} {o : OpK} {r : GRet} (hc : c ∈ L)
    (hc0 : c ≠ 0) (hc1 : c ≠ 1) (hm : s.mark c = false) (hk : s.key c = okey o) (hr : foundRet s.val o c = some r) :
    LPok (Has s.mark s.key s.val L) (gop o) r (Has s.mark s.key s.val L) :=
  LPok.present (H := Has s.mark s.key s.val L) ⟨c, hc, hc0, hc1, hm, hk, rfl⟩ (fun _ _ => Iff.rfl) hr

/-- Only a marking store makes another thread's operation fix its result: a `find` / `contains` that waits at the
    node with its key. -/
theorem help_of_mark {mark : Nat → Bool} {key : Nat → Int} {pc : PC} {c : Nat} {r : GRet}
    (h1 : lpRet mark key pc = none) (h2 : lpRet (upd mark c true) key pc = some r) :
    pcNT pc = some c ∧ key c = skey pc ∧ r = [0] ∧
      (opOf pc = some (gop (.fnd (skey pc))) ∨ opOf pc = some (gop (.con (skey pc)))) := by
  cases pc <;> simp only [lpRet, wRet] at h1 h2 <;> (try (simp at h2; done)) <;> (try (rw [h1] at h2; simp at h2; done))
  all_goals
    simp only [pcNT, skey, opOf, Option.some.injEq]
    by_cases hk : key ‹Nat› = ‹Int›
    · simp only [hk, if_true] at h1 h2
      by_cases hc : ‹Nat› = c
      · subst hc
        simp [upd] at h2
        simp [hk, h2]
      · rw [upd_other _ _ _ _ hc] at h2
        split at h1 <;> simp_all
    · simp [hk] at h1

/-- A fixed result stays fixed when a node is marked. -/
theorem keep_of_mark {mark : Nat → Bool} {key : Nat → Int} {pc : PC} {c : Nat} {r : GRet}
    (h1 : lpRet mark key pc = some r) : lpRet (upd mark c true) key pc = some r := by
  cases pc <;> simp only [lpRet, wRet] at h1 ⊢ <;> (try exact h1)
  all_goals
    by_cases hk : key ‹Nat› = ‹Int›
    · simp only [hk, if_true] at h1 ⊢
      by_cases hc : ‹Nat› = c
      · subst hc; simp [upd]; split at h1 <;> simp_all
      · rw [upd_other _ _ _ _ hc]; exact h1
    · simpa [hk] using h1

set_option hygiene false in
macro "sinv_open " h:ident : tactic =>
  `(tactic| obtain ⟨hch, hso, htl, hc2, hal, hun, hm0, hm1, hag, hbk, hpriv, hown, hlp, hlc, hkp, hkc, hne, hnt, hpp,
      hpcm, hcc, hlkp, hlkc, hup, huc, hlnk, hgt, heq, hnl, henx, heun, hlop, heop⟩ := $h)

set_option hygiene false in
macro "pc_facts" : tactic =>
  `(tactic| (
      have hK1 : ∀ (pc : PC) (p : Nat), knowUnmP pc = some p → heldP pc = some p := fun _ _ h => knowUnmP_held h
      have hK2 : ∀ (pc : PC) (c : Nat), knowUnmC pc = some c → heldC pc = some c := fun _ _ h => knowUnmC_held h
      have hK3 : ∀ (pc : PC) (p c : Nat), knowLink pc = some (p, c) → heldP pc = some p := fun _ _ _ h => knowLink_held h
      have hK4 : ∀ (pc : PC) (p : Nat), heldP pc = some p → pcPrev pc = some p := fun _ _ h => heldP_prev h
      have hK5 : ∀ (pc : PC) (c : Nat), heldC pc = some c → pcCur pc = some c := fun _ _ h => heldC_cur h))

macro "sinv_close" : tactic =>
  `(tactic| (constructor <;> intros <;> (try dsimp only at *) <;>
      grind [upd, insNode, onode, oval, pcPrev, pcCur, skey, sval, okey, heldP, heldC, knowUnmP, knowUnmC, knowLink,
        pcGt, pcEq, pcNT, pcLinkOp, pcEraOp, linkOk, eraOk, afterSearch, afterLoad, action, actionVal, isEq]))

macro "eff_close" : tactic =>
  `(tactic| (constructor <;> intros <;> (try dsimp only at *) <;>
      grind [upd, lpRet, wRet, opOf, gop, okey, oval, foundRet, absentRet, linkRet, heldP, heldC, insNode, onode,
        pcWin, afterSearch, afterLoad, action, actionVal, isEq]))

macro "step_close " L:term : tactic =>
  `(tactic| (refine ⟨$L, ?h1, ?h2⟩; (case h1 => sinv_close); (case h2 => eff_close)))

end CdsVerif.Algo.Lazy

/-
  Lemmas for the MichaelList development that do not depend on the invariant: pointer chains (`Chain`), insertion
  into / removal from a chain, the key order on cells (`Lt`: the head cell is below every node), and the sequential
  map specification seen through lookup predicates (`LPok`, `isRO`).
-/
import CdsVerif.Algo.Michael.Model
namespace CdsVerif.Algo.Michael
open CdsVerif.Machine CdsVerif.Spec CdsVerif.Lin

/-! ### Chains -/

def Chain (nx : Nat → Option Nat) : Option Nat → List Nat → Prop
  | p, [] => p = none
  | p, a :: l => p = some a ∧ Chain nx (nx a) l

theorem Chain.functional {nx : Nat → Option Nat} : ∀ {p : Option Nat} {l1 l2 : List Nat},
    Chain nx p l1 → Chain nx p l2 → l1 = l2
  | _, [], [], _, _ => rfl
  | _, [], _ :: _, h1, h2 => by simp [Chain] at h1 h2; simp [h1] at h2
  | _, _ :: _, [], h1, h2 => by simp [Chain] at h1 h2; simp [h2] at h1
  | _, a :: l1, b :: l2, h1, h2 => by
    simp only [Chain] at h1 h2
    have hab : a = b := by have := h1.1.symm.trans h2.1; simpa using this
    subst hab
    rw [Chain.functional h1.2 h2.2]

theorem Chain.upd {nx : Nat → Option Nat} {x : Nat} {v : Option Nat} :
    ∀ {p : Option Nat} {l : List Nat}, x ∉ l → Chain nx p l → Chain (upd nx x v) p l
  | _, [], _, h => h
  | _, a :: l, hx, h => by
    simp only [Chain] at h ⊢
    have hax : a ≠ x := fun e => hx (by simp [e])
    refine ⟨h.1, ?_⟩
    rw [upd_other _ _ _ _ hax]
    exact Chain.upd (fun hm => hx (List.mem_cons_of_mem _ hm)) h.2

theorem Chain.none_nil {nx : Nat → Option Nat} {l : List Nat} (h : Chain nx none l) : l = [] := by
  cases l with
  | nil => rfl
  | cons a l => simp [Chain] at h

/-- The successor of a chain node is on the chain, and not at its front. -/
theorem Chain.succ_mem {nx : Nat → Option Nat} {a x : Nat} :
    ∀ {p : Option Nat} {l : List Nat}, Chain nx p l → a ∈ l → nx a = some x → x ∈ l.tail
  | _, [], _, ha, _ => by simp at ha
  | _, b :: l, h, ha, hx => by
    simp only [Chain] at h
    simp only [List.tail_cons]
    rcases List.mem_cons.mp ha with e | hm
    · subst e
      rw [hx] at h
      cases l with
      | nil => simp [Chain] at h
      | cons c l => simp only [Chain, Option.some.injEq] at h; simp [h.2.1]
    · exact List.mem_of_mem_tail (Chain.succ_mem h.2 hm hx)

/-- Every chain node is at or before `p`, or at or after the successor of `p`. -/
theorem Chain.around {nx : Nat → Option Nat} {R : Nat → Nat → Prop} {p : Nat} :
    ∀ {h : Option Nat} {L : List Nat}, Chain nx h L → L.Pairwise R → p ∈ L →
      ∀ a, a ∈ L → a = p ∨ R a p ∨ ∃ c, nx p = some c ∧ (a = c ∨ R c a)
  | _, [], _, _, hp, _, _ => by simp at hp
  | _, b :: L, hc, hpw, hp, a, ha => by
    simp only [Chain] at hc
    have hpw' := List.pairwise_cons.mp hpw
    by_cases e : b = p
    · subst e
      rcases List.mem_cons.mp ha with e | hm
      · exact Or.inl e
      · cases L with
        | nil => simp at hm
        | cons c L2 =>
          simp only [Chain] at hc
          have hpw2 := List.pairwise_cons.mp hpw'.2
          refine Or.inr (Or.inr ⟨c, hc.2.1, ?_⟩)
          rcases List.mem_cons.mp hm with e | hm2
          · exact Or.inl e
          · exact Or.inr (hpw2.1 a hm2)
    · have hpL : p ∈ L := by
        rcases List.mem_cons.mp hp with e' | h'
        · exact absurd e'.symm e
        · exact h'
      rcases List.mem_cons.mp ha with e' | hm
      · subst e'; exact Or.inr (Or.inl (hpw'.1 p hpL))
      · exact Chain.around hc.2 hpw'.2 hpL a hm

/-- Insert `n` behind `p`. -/
def insAfter (p n : Nat) : List Nat → List Nat
  | [] => []
  | a :: l => if a = p then a :: n :: l else a :: insAfter p n l

theorem mem_insAfter {p n x : Nat} : ∀ {L : List Nat}, p ∈ L → (x ∈ insAfter p n L ↔ x ∈ L ∨ x = n)
  | [], hp => by simp at hp
  | a :: L, hp => by
    simp only [insAfter]
    by_cases e : a = p
    · simp only [e, if_true, List.mem_cons]
      constructor
      · rintro (h | h | h)
        · exact Or.inl (Or.inl h)
        · exact Or.inr h
        · exact Or.inl (Or.inr h)
      · rintro ((h | h) | h)
        · exact Or.inl h
        · exact Or.inr (Or.inr h)
        · exact Or.inr (Or.inl h)
    · have hpL : p ∈ L := by
        rcases List.mem_cons.mp hp with e' | h'
        · exact absurd e'.symm e
        · exact h'
      simp only [e, if_false, List.mem_cons, mem_insAfter hpL]
      constructor
      · rintro (h | h | h)
        · exact Or.inl (Or.inl h)
        · exact Or.inl (Or.inr h)
        · exact Or.inr h
      · rintro ((h | h) | h)
        · exact Or.inl h
        · exact Or.inr (Or.inl h)
        · exact Or.inr (Or.inr h)

theorem Chain.insAfter {nx : Nat → Option Nat} {p n : Nat} (hn : nx n = nx p) :
    ∀ {h : Option Nat} {L : List Nat}, Chain nx h L → L.Nodup → p ∈ L → n ∉ L →
      Chain (Machine.upd nx p (some n)) h (insAfter p n L)
  | _, [], _, _, hp, _ => by simp at hp
  | _, a :: L, hc, hnd, hp, hnl => by
    simp only [Chain] at hc
    have hnd' := List.nodup_cons.mp hnd
    have hna : n ≠ a := fun e => hnl (by simp [e])
    have hnL : n ∉ L := fun hm => hnl (List.mem_cons_of_mem _ hm)
    simp only [Michael.insAfter]
    by_cases e : a = p
    · subst e
      simp only [if_true, Chain, upd_same, true_and]
      refine ⟨hc.1, ?_⟩
      rw [upd_other _ _ _ _ hna, hn]
      exact Chain.upd hnd'.1 hc.2
    · have hpL : p ∈ L := by
        rcases List.mem_cons.mp hp with e' | h'
        · exact absurd e'.symm e
        · exact h'
      simp only [e, if_false, Chain]
      refine ⟨hc.1, ?_⟩
      rw [upd_other _ _ _ _ e]
      exact Chain.insAfter hn hc.2 hnd'.2 hpL hnL

theorem pairwise_insAfter {nx : Nat → Option Nat} {R : Nat → Nat → Prop} {p n : Nat}
    (htr : ∀ a b c, R a b → R b c → R a c) (hpn : R p n) (hnc : ∀ c, nx p = some c → R n c) :
    ∀ {h : Option Nat} {L : List Nat}, Chain nx h L → L.Pairwise R → p ∈ L → (insAfter p n L).Pairwise R
  | _, [], _, _, hp => by simp at hp
  | _, a :: L, hc, hpw, hp => by
    simp only [Chain] at hc
    have hpw' := List.pairwise_cons.mp hpw
    simp only [insAfter]
    by_cases e : a = p
    · subst e
      simp only [if_true]
      refine List.pairwise_cons.mpr ⟨?_, List.pairwise_cons.mpr ⟨?_, hpw'.2⟩⟩
      · intro x hx
        rcases List.mem_cons.mp hx with e | hm
        · rw [e]; exact hpn
        · exact hpw'.1 x hm
      · intro x hx
        cases L with
        | nil => simp at hx
        | cons c L2 =>
          simp only [Chain] at hc
          have hpw2 := List.pairwise_cons.mp hpw'.2
          have h1 := hnc c hc.2.1
          rcases List.mem_cons.mp hx with e | hm
          · rw [e]; exact h1
          · exact htr _ _ _ h1 (hpw2.1 x hm)
    · have hpL : p ∈ L := by
        rcases List.mem_cons.mp hp with e' | h'
        · exact absurd e'.symm e
        · exact h'
      simp only [e, if_false]
      refine List.pairwise_cons.mpr ⟨?_, pairwise_insAfter htr hpn hnc hc.2 hpw'.2 hpL⟩
      intro x hx
      rcases (mem_insAfter hpL).mp hx with hm | e'
      · exact hpw'.1 x hm
      · rw [e']; exact htr _ _ _ (hpw'.1 p hpL) hpn

/-- Unlink the successor `c` of `p`. -/
theorem Chain.unlink {nx : Nat → Option Nat} {p c : Nat} (hpc : nx p = some c) :
    ∀ {h : Option Nat} {L : List Nat}, Chain nx h L → L.Nodup → p ∈ L →
      Chain (Machine.upd nx p (nx c)) h (L.erase c)
  | _, [], _, _, hp => by simp at hp
  | _, a :: L, hc, hnd, hp => by
    simp only [Chain] at hc
    have hnd' := List.nodup_cons.mp hnd
    by_cases e : a = p
    · subst e
      rw [hpc] at hc
      cases L with
      | nil => simp [Chain] at hc
      | cons c' L2 =>
        simp only [Chain, Option.some.injEq] at hc
        obtain ⟨h1, h2, h3⟩ := hc
        subst h2
        have hac : a ≠ c := fun e => hnd'.1 (by simp [e])
        have hnd2 := List.nodup_cons.mp hnd'.2
        have haL2 : a ∉ L2 := fun hm => hnd'.1 (List.mem_cons_of_mem _ hm)
        have : (a :: c :: L2).erase c = a :: L2 := by
          rw [List.erase_cons_tail (by simpa using hac), List.erase_cons_head]
        rw [this]
        simp only [Chain, upd_same]
        exact ⟨h1, Chain.upd haL2 h3⟩
    · have hpL : p ∈ L := by
        rcases List.mem_cons.mp hp with e' | h'
        · exact absurd e'.symm e
        · exact h'
      have hcL : c ∈ L := List.mem_of_mem_tail (Chain.succ_mem hc.2 hpL hpc)
      have hac : a ≠ c := fun e => hnd'.1 (e ▸ hcL)
      rw [List.erase_cons_tail (by simpa using hac)]
      simp only [Chain]
      refine ⟨hc.1, ?_⟩
      rw [upd_other _ _ _ _ e]
      exact Chain.unlink hpc hc.2 hnd'.2 hpL

/-- Executable chain walk with fuel. -/
def walk (nx : Nat → Option Nat) : Nat → Option Nat → List Nat
  | 0, _ => []
  | _ + 1, none => []
  | f + 1, some a => a :: walk nx f (nx a)

theorem walk_of_chain {nx : Nat → Option Nat} : ∀ {fuel : Nat} {p : Option Nat} {l : List Nat},
    Chain nx p l → l.length ≤ fuel → walk nx fuel p = l
  | 0, _, [], _, _ => rfl
  | 0, _, _ :: _, _, hl => by simp at hl
  | f + 1, _, [], h, _ => by simp only [Chain] at h; subst h; rfl
  | f + 1, _, a :: l, h, hl => by
    simp only [Chain] at h
    obtain ⟨rfl, h2⟩ := h
    simp only [walk]
    rw [walk_of_chain h2 (by simpa using hl)]

theorem length_le_of_nodup_lt {l : List Nat} {n : Nat} (hn : l.Nodup) (hlt : ∀ a ∈ l, a < n) : l.length ≤ n := by
  have := List.Nodup.length_le_of_subset (l₂ := List.range n) hn (fun a ha => List.mem_range.mpr (hlt a ha))
  simpa using this

/-! ### Key order on cells: cell 0 (the head) is below every node -/

def Lt (key : Nat → Int) (a b : Nat) : Prop := b ≠ 0 ∧ (a = 0 ∨ key a < key b)

theorem Lt.trans {key : Nat → Int} (a b c : Nat) (h1 : Lt key a b) (h2 : Lt key b c) : Lt key a c := by
  unfold Lt at *
  refine ⟨h2.1, ?_⟩
  rcases h1.2 with h | h
  · exact Or.inl h
  · rcases h2.2 with h' | h'
    · exact absurd h' h1.1
    · exact Or.inr (Int.lt_trans h h')

theorem Lt.irrefl {key : Nat → Int} (a : Nat) : ¬ Lt key a a := by
  unfold Lt
  rintro ⟨h1, h2 | h2⟩
  · exact h1 h2
  · exact Int.lt_irrefl _ h2

theorem sorted_nodup {key : Nat → Int} {L : List Nat} (h : L.Pairwise (Lt key)) : L.Nodup :=
  List.Pairwise.imp (S := fun a b => a ≠ b) (fun {a b} hab (e : a = b) => Lt.irrefl a (by rw [← e] at hab; exact hab)) h

/-- Two nodes of a sorted list with the same key are the same node. -/
theorem sorted_inj {key : Nat → Int} : ∀ {L : List Nat}, L.Pairwise (Lt key) → ∀ a b, a ∈ L → b ∈ L →
    a ≠ 0 → b ≠ 0 → key a = key b → a = b
  | [], _, _, _, ha, _, _, _, _ => by simp at ha
  | c :: L, h, a, b, ha, hb, ha0, hb0, hk => by
    have h' := List.pairwise_cons.mp h
    rcases List.mem_cons.mp ha with e1 | m1 <;> rcases List.mem_cons.mp hb with e2 | m2
    · rw [e1, e2]
    · subst e1
      have := h'.1 b m2
      unfold Lt at this
      rcases this.2 with h0 | h0
      · exact absurd h0 ha0
      · omega
    · subst e2
      have := h'.1 a m1
      unfold Lt at this
      rcases this.2 with h0 | h0
      · exact absurd h0 hb0
      · omega
    · exact sorted_inj h'.2 a b m1 m2 ha0 hb0 hk

/-! ### The sequential specification seen through lookup predicates -/

theorem mfind_cons (m : MapSt) (k v j : Int) : mfind ((k, v) :: m) j = if j = k then some v else mfind m j := by
  unfold mfind
  simp only [List.find?_cons]
  by_cases h : j = k
  · subst h; simp
  · have : ((k, v).1 == j) = false := by simpa using fun e => h e.symm
    simp [this, h]

theorem mfind_merase (m : MapSt) (k j : Int) : mfind (merase m k) j = if j = k then none else mfind m j := by
  induction m with
  | nil => simp [mfind, merase]
  | cons e m ih =>
    obtain ⟨k1, v1⟩ := e
    by_cases h1 : k1 = k
    · subst h1
      have : merase ((k1, v1) :: m) k1 = merase m k1 := by simp [merase]
      rw [this, ih, mfind_cons]
      by_cases h2 : j = k1 <;> simp [h2]
    · have : merase ((k1, v1) :: m) k = (k1, v1) :: merase m k := by simp [merase, h1]
      rw [this, mfind_cons, mfind_cons, ih]
      by_cases h2 : j = k1
      · subst h2; simp [h1]
      · simp [h2]

/-- The step of the operation `op` with result `r` takes the abstract map `H` to `H'` (for every representation of
    `H` as a state of the sequential map specification). -/
def LPok (H : Int → Int → Prop) (op : GOp) (r : GRet) (H' : Int → Int → Prop) : Prop :=
  ∀ m : MapSt, (∀ k v, mfind m k = some v ↔ H k v) →
    ∃ m', Spec.map.next m op r = some m' ∧ ∀ k v, mfind m' k = some v ↔ H' k v

theorem mfind_none_of {H : Int → Int → Prop} {m : MapSt} {k : Int} (hm : ∀ k v, mfind m k = some v ↔ H k v)
    (h0 : ∀ w, ¬ H k w) : mfind m k = none := by
  cases h : mfind m k with
  | none => rfl
  | some w => exact absurd ((hm k w).mp h) (h0 w)

theorem LPok.ins_ok {H H' : Int → Int → Prop} {k v : Int} (h0 : ∀ w, ¬ H k w)
    (h1 : ∀ j w, H' j w ↔ (H j w ∨ (j = k ∧ w = v))) : LPok H ⟨"insert", [k, v]⟩ [1] H' := by
  intro m hm
  have hn := mfind_none_of hm h0
  refine ⟨(k, v) :: m, by simp [Spec.map, detSpec, mapStep, hn], ?_⟩
  intro j w
  rw [mfind_cons, h1, ← hm]
  by_cases e : j = k
  · subst e; simp [hn]; exact eq_comm
  · simp [e]

theorem LPok.ro_some {H H' : Int → Int → Prop} {k v : Int} {op : GOp} {r : GRet} (h0 : H k v)
    (h1 : ∀ j w, H' j w ↔ H j w)
    (hop : (∃ v', op = ⟨"insert", [k, v']⟩ ∧ r = [0]) ∨ (op = ⟨"find", [k]⟩ ∧ r = [1, v]) ∨
           (op = ⟨"contains", [k]⟩ ∧ r = [1])) : LPok H op r H' := by
  intro m hm
  have hs := (hm k v).mpr h0
  refine ⟨m, ?_, fun j w => by rw [h1, hm]⟩
  rcases hop with ⟨v', rfl, rfl⟩ | ⟨rfl, rfl⟩ | ⟨rfl, rfl⟩ <;> simp [Spec.map, detSpec, mapStep, hs]

theorem LPok.ro_none {H H' : Int → Int → Prop} {k : Int} {op : GOp} (h0 : ∀ w, ¬ H k w)
    (h1 : ∀ j w, H' j w ↔ H j w)
    (hop : op = ⟨"erase", [k]⟩ ∨ op = ⟨"find", [k]⟩ ∨ op = ⟨"contains", [k]⟩) : LPok H op [0] H' := by
  intro m hm
  have hn := mfind_none_of hm h0
  refine ⟨m, ?_, fun j w => by rw [h1, hm]⟩
  rcases hop with rfl | rfl | rfl <;> simp [Spec.map, detSpec, mapStep, hn]

theorem LPok.era_ok {H H' : Int → Int → Prop} {k v : Int} (h0 : H k v)
    (h1 : ∀ j w, H' j w ↔ (H j w ∧ j ≠ k)) : LPok H ⟨"erase", [k]⟩ [1, v] H' := by
  intro m hm
  have hs := (hm k v).mpr h0
  refine ⟨merase m k, by simp [Spec.map, detSpec, mapStep, hs], ?_⟩
  intro j w
  rw [mfind_merase, h1, ← hm]
  by_cases e : j = k
  · subst e; simp
  · simp [e]

/-- Operations / results that do not change the sequential map. -/
def isRO (op : GOp) (r : GRet) : Bool :=
  op.name == "find" || op.name == "contains" || ((op.name == "insert" || op.name == "erase") && r == [0])

theorem map_ro {m m' : MapSt} {op : GOp} {r : GRet} (h : Spec.map.next m op r = some m') (hro : isRO op r = true) :
    m' = m := by
  obtain ⟨name, args⟩ := op
  simp only [Spec.map, detSpec] at h
  cases hs : mapStep m ⟨name, args⟩ with
  | none => simp [hs] at h
  | some p =>
    obtain ⟨m1, r1⟩ := p
    simp [hs] at h
    obtain ⟨hr, rfl⟩ := h
    subst hr
    unfold mapStep at hs
    simp only [isRO] at hro
    split at hs
    all_goals (try (dsimp only at *))
    all_goals (try (subst_vars))
    all_goals (try (simp at hro))
    all_goals (try (split at hs))
    all_goals (try (simp at hs))
    all_goals (try (obtain ⟨rfl, rfl⟩ := hs))
    all_goals (try rfl)
    all_goals (try (simp at hro))

end CdsVerif.Algo.Michael

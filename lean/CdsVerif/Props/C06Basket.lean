/-
  C06 — BasketQueue (cds::intrusive::BasketQueue; Hoffman, Shalev, Shavit).  The atomic-step model
  `Algo/Basket/Model.lean` is the code of `enqueue` (first CAS, basket retry loop, tail fixing), `do_dequeue` (logical
  deletion by the mark bit, skipping, tail helping) and `free_chain`, exactly as coded, with `m_nMaxHops` as a parameter.

  PROVED here, for every run (any `maxHops`, any number of threads, any client program, any interleaving):
    * `C06_basket_pool_linearizable` : the history is linearizable to the unordered POOL (`poolSpec`): every `deq`
      returns an item that was enqueued and not yet dequeued, "empty" only when nothing is present — i.e. conservation:
      no loss, no duplication (`C06_basket_no_duplication`), no invention;
    * `C06_basket_empty_means_empty` : `deq` answers "empty" only if the queue was empty at an instant inside the call;
    * `C06_basket_lp_refines` : every `deq` takes the FIRST item of the abstract queue (the list order), every `enq`
      inserts its item into the abstract queue — at the end (first CAS) or in the middle (basket CAS);
    * `C06_basket_items_reachable` : an item stays reachable from `m_pHead`, behind unmarked links, until it is dequeued.

  NOT PROVED — `C06_basket_linearizable_partial` is the honest statement: linearizability to the FIFO queue is proved for
  the pool only.  The gap is the ORDER of overlapping enqueues: a basket CAS puts its node in FRONT of nodes linked
  earlier (by enqueues that overlap it), so the enqueue must be linearized BEFORE its own linking CAS — a
  future-dependent linearization point.  The append-only ghost log of `Algo/QueueLin/GhostP.lean` cannot express it;
  needed: a log with insertion before the k-th last enqueue entry, the sequential fact that such an insertion keeps a
  FIFO log legal (no dequeue after the insertion point has consumed an overtaken item), and the real-time invariant
  "every entry behind the insertion point returned after the overtaking enqueue was invoked".  The histories of the
  real code are judged against `Spec.fifo` by the checker (`tie_H`), and the `example`s below do it for the model.

  The proof needs that `pNew->m_pNext` is re-stored before EVERY basket CAS: the invariant clause `link` for the
  program point `bkCas n t p` says `n.next = p`, the value the CAS expects in `t->m_pNext` — established by the store
  `bkSet` that precedes each `bkCas` (seeded bug C06-basket-stale-next-in-retry hoists that store out of the retry
  loop: example `threeSched` is its scenario).

  Assumption of the model (not proved here): garbage-collected heap (no node reuse: what the hazard pointers provide);
  `clear_links` / `dispose_node` are not modelled.
-/
import CdsVerif.Algo.Basket.Lin
namespace CdsVerif.Props.C06Basket
open CdsVerif.Machine CdsVerif.Lin CdsVerif.Spec CdsVerif.Algo CdsVerif.Algo.QueueLin

/-- Linearizability to the pool (conservation), general form.  For EVERY run of the BasketQueue machine — started
    after any warm-up, with any `maxHops` — the history of the completed operations, extended by response records for
    the pending operations that have passed their linearization point (at most one per thread), has a sequential
    order that respects real time and in which every `enq` answers `[1]`, every `deq → v` removes an item `v` that is
    present, and `deq → empty` happens only when nothing is present. -/
theorem C06_basket_pool_linearizable (mh warm : Nat) (sched : List (Tid × Act)) (s : Basket.St)
    (os : List (Tid × Obs)) (h : Basket.model.run (Basket.initW mh warm) sched = some (s, os)) :
    ∃ extra : List (OpRec GOp GRet),
      (∀ e ∈ extra, pendingOf os e.tid = some (e.op, e.inv) ∧ e.res = os.length ∧
          Basket.postRet (s.pc e.tid) = some e.ret) ∧
      extra.Pairwise (fun a b => a.tid ≠ b.tid) ∧
      Linearizable QueueLinP.poolSpec (historyOf os ++ extra) :=
  Basket.basket_pool_linearizable mh warm sched s os h

/-- What is proved of "BasketQueue is a linearizable FIFO queue", in one statement: (1) pool linearizability of every
    run; (2) in every reachable state, a step that passes a linearization point is a `fifo` dequeue (first item, or
    "empty" on the empty queue) or an insertion of the enqueued value into the abstract queue `X ++ Y ↦ X ++ v :: Y`
    (`Basket.BEff`; `Y = []`, the `fifo` enqueue, for the first CAS), and every other step leaves the abstract queue
    unchanged.  NOT proved: that the insertions with `Y ≠ []` can be re-ordered into a FIFO linearization. -/
theorem C06_basket_linearizable_partial (mh warm : Nat) :
    (∀ (sched : List (Tid × Act)) (s : Basket.St) (os : List (Tid × Obs)),
      Basket.model.run (Basket.initW mh warm) sched = some (s, os) →
      ∃ extra : List (OpRec GOp GRet),
        (∀ e ∈ extra, pendingOf os e.tid = some (e.op, e.inv) ∧ e.res = os.length ∧
            Basket.postRet (s.pc e.tid) = some e.ret) ∧
        extra.Pairwise (fun a b => a.tid ≠ b.tid) ∧
        Linearizable QueueLinP.poolSpec (historyOf os ++ extra)) ∧
    (∀ (s s' : Basket.St) (t : Tid) (ev : Ev), Basket.model.Reachable (Basket.initW mh warm) s →
      Basket.step s t = some (s', ev) →
      (Basket.lpRet (s.pc t) = none → ∀ r, Basket.lpRet (s'.pc t) = some r →
        ∃ op, Basket.opOf s.val (s.pc t) = some op ∧ Basket.BEff (Basket.absQueue s) op r (Basket.absQueue s')) ∧
      ((Basket.lpRet (s.pc t) ≠ none ∨ Basket.lpRet (s'.pc t) = none) → Basket.absQueue s' = Basket.absQueue s)) :=
  ⟨fun sched s os h => Basket.basket_pool_linearizable mh warm sched s os h,
   fun s _ _ _ hr hs => Basket.step_refines (Basket.sinv_reachable mh warm s hr) hs⟩

/-- Runs at whose end no thread is between its linearization point and its return. -/
theorem C06_basket_pool_linearizable_no_effect_pending (mh warm : Nat) (sched : List (Tid × Act)) (s : Basket.St)
    (os : List (Tid × Obs)) (h : Basket.model.run (Basket.initW mh warm) sched = some (s, os))
    (hq : ∀ t, Basket.postRet (s.pc t) = none) : Linearizable QueueLinP.poolSpec (historyOf os) :=
  Basket.basket_pool_linearizable_no_effect_pending mh warm sched s os h hq

/-- No duplication: for every value `v` the completed dequeues that returned `v` are at most as many as the `enq v`
    operations of the run (the completed ones plus the pending ones in `extra`). -/
theorem C06_basket_no_duplication (mh warm : Nat) (sched : List (Tid × Act)) (s : Basket.St) (os : List (Tid × Obs))
    (h : Basket.model.run (Basket.initW mh warm) sched = some (s, os)) :
    ∃ extra : List (OpRec GOp GRet),
      (∀ e ∈ extra, pendingOf os e.tid = some (e.op, e.inv) ∧ e.res = os.length ∧
          Basket.postRet (s.pc e.tid) = some e.ret) ∧
      extra.Pairwise (fun a b => a.tid ≠ b.tid) ∧
      ∀ v, (historyOf os).countP (QueueLinP.isDeqOf v) ≤ (historyOf os ++ extra).countP (QueueLinP.isEnq v) :=
  Basket.basket_no_duplication mh warm sched s os h

/-- `deq` answers "empty" only if the queue was empty at some instant during the call: the validating load of
    `h->m_pNext` that read null, with `h` still `m_pHead` and the only node of the live chain. -/
theorem C06_basket_empty_means_empty (mh warm : Nat) (sched : List (Tid × Act)) (s : Basket.St) (os : List (Tid × Obs))
    (h : Basket.model.run (Basket.initW mh warm) sched = some (s, os)) (r : OpRec GOp GRet)
    (hr : r ∈ historyOf os) (hret : r.ret = [0]) :
    ∃ j s1, r.inv < j ∧ j < r.res ∧ Basket.model.run (Basket.initW mh warm) (sched.take j) = some (s1, os.take j) ∧
      Basket.EmptyAt s1 r.tid ∧ Basket.absQueue s1 = [] :=
  Basket.basket_empty_hindsight mh warm sched s os h r hr hret

/-- Refinement of the abstract queue (the list order), step by step. -/
theorem C06_basket_lp_refines (mh warm : Nat) (s s' : Basket.St) (t : Tid) (ev : Ev)
    (hreach : Basket.model.Reachable (Basket.initW mh warm) s) (hs : Basket.step s t = some (s', ev)) :
    (Basket.lpRet (s.pc t) = none → ∀ r, Basket.lpRet (s'.pc t) = some r →
      ∃ op, Basket.opOf s.val (s.pc t) = some op ∧ Basket.BEff (Basket.absQueue s) op r (Basket.absQueue s')) ∧
    ((Basket.lpRet (s.pc t) ≠ none ∨ Basket.lpRet (s'.pc t) = none) → Basket.absQueue s' = Basket.absQueue s) :=
  Basket.step_refines (Basket.sinv_reachable mh warm s hreach) hs

/-- Every item is reachable until it is dequeued: in every reachable state the chain from `m_pHead` is finite and
    duplicate-free; its nodes with a marked link form a prefix `M`; the rest (`liveNodes`: the current dummy, then the
    items of the abstract queue) hangs behind it, and no link from the current dummy on is marked. -/
theorem C06_basket_items_reachable (mh warm : Nat) (s : Basket.St)
    (hreach : Basket.model.Reachable (Basket.initW mh warm) s) :
    ∃ M, Basket.absNodes s = M ++ Basket.liveNodes s ∧ (Basket.absNodes s).Nodup ∧ Basket.liveNodes s ≠ [] ∧
      (∀ a ∈ M, s.nbit a = true ∧ s.nptr a ≠ none) ∧
      (∀ a ∈ Basket.liveNodes s, s.nptr a ≠ none → s.nbit a = false) ∧
      Chain s.nptr (some s.head) (Basket.absNodes s) :=
  Basket.reachable_items mh warm s hreach

/-! ### Non-vacuity -/

def steps (t : Tid) (n : Nat) : List (Tid × Act) := List.replicate n (t, .step)

/-- Three enqueuers on one tail node (the scenario of the seeded bug C06-basket-stale-next-in-retry).  A (thread 0,
    `enq 10`), B (thread 1, `enq 20`) and C (thread 2, `enq 30`) all read `tail = n0`, `n0.next = null`.  A links
    `n1`; the first CAS of B and of C fails.  B re-reads `n0.next = n1` and passes the three tests; C does the same,
    stores `n3.next = n1` and enters the basket (`cas+ n0 n1 n3`) and returns; now B stores `n2.next = n1` — stale —
    and its CAS fails (`cas- n0 n3 n1`: seen `n3`, expected `n1`). -/
def threeSched : List (Tid × Act) :=
  [(0, .invoke ⟨"enq", [10]⟩), (1, .invoke ⟨"enq", [20]⟩), (2, .invoke ⟨"enq", [30]⟩)] ++
  steps 0 4 ++ steps 1 4 ++ steps 2 4 ++ steps 0 1 ++ steps 1 1 ++ steps 2 1 ++ steps 1 4 ++
  steps 2 6 ++ [(2, .ret)] ++ steps 1 2

example : (Basket.model.run Basket.init threeSched).map (fun r => r.2.drop 15) = some
    [(0, .ev ⟨"cas+", "n0", "null", "n1"⟩),   -- A links n1 behind n0           (linearization point of enq 10)
     (1, .ev ⟨"cas-", "n0", "n1", "null"⟩),   -- B's first CAS fails
     (2, .ev ⟨"cas-", "n0", "n1", "null"⟩),   -- C's first CAS fails
     (1, .ev ⟨"ld", "n0", "n1", ""⟩),         -- B: try_again: pNext = protect( t->next )
     (1, .ev ⟨"ld", "n0", "n1", ""⟩),
     (1, .ev ⟨"ld", "tail", "n0", ""⟩),       -- B: tail == t
     (1, .ev ⟨"ld", "n0", "n1", ""⟩),         -- B: t->next == pNext, not marked
     (2, .ev ⟨"ld", "n0", "n1", ""⟩),         -- C: the same
     (2, .ev ⟨"ld", "n0", "n1", ""⟩),
     (2, .ev ⟨"ld", "tail", "n0", ""⟩),
     (2, .ev ⟨"ld", "n0", "n1", ""⟩),
     (2, .ev ⟨"st", "n3", "n1", ""⟩),         -- C: pNew->next = pNext
     (2, .ev ⟨"cas+", "n0", "n1", "n3"⟩),     -- C enters the basket: n0 -> n3 -> n1   (enq 30 in FRONT of 10)
     (2, .ret [1]),
     (1, .ev ⟨"st", "n2", "n1", ""⟩),         -- B: pNew->next = pNext (stale by now)
     (1, .ev ⟨"cas-", "n0", "n3", "n1"⟩)]     -- B's basket CAS fails: goto try_again
    := by decide +kernel

/-- ... B goes round `try_again`: it re-reads `n0.next = n3`, RE-STORES `n2.next = n3` and only then links
    (`cas+ n0 n3 n2`).  With the stale `n2.next = n1` the node `n3` — C's `enq 30`, which has already returned — would
    be cut out of the list. -/
def threeRest : List (Tid × Act) := steps 1 6 ++ [(1, .ret)] ++ steps 0 1 ++ [(0, .ret)]

example : (Basket.model.run Basket.init (threeSched ++ threeRest)).map (fun r => r.2.drop 31) = some
    [(1, .ev ⟨"ld", "n0", "n3", ""⟩),
     (1, .ev ⟨"ld", "n0", "n3", ""⟩),
     (1, .ev ⟨"ld", "tail", "n0", ""⟩),
     (1, .ev ⟨"ld", "n0", "n3", ""⟩),
     (1, .ev ⟨"st", "n2", "n3", ""⟩),         -- the re-store
     (1, .ev ⟨"cas+", "n0", "n3", "n2"⟩),     -- n0 -> n2 -> n3 -> n1                  (enq 20 in FRONT of 30 and 10)
     (1, .ret [1]),
     (0, .ev ⟨"cas+", "tail", "n0", "n1"⟩),   -- A swings the tail at last
     (0, .ret [1])] := by decide +kernel

/-- The abstract queue (list order) before and after B's linking CAS: an insertion at the FRONT, not at the end. -/
example : (Basket.model.run Basket.init (threeSched ++ steps 1 5)).map (fun r => Basket.absQueue r.1) =
    some [30, 10] := by decide +kernel
example : (Basket.model.run Basket.init (threeSched ++ steps 1 6)).map (fun r => Basket.absQueue r.1) =
    some [20, 30, 10] := by decide +kernel

example : (Basket.model.run Basket.init (threeSched ++ threeRest)).map
    (fun r => (Basket.absQueue r.1, Basket.absNodes r.1, r.1.head, r.1.tail)) =
    some ([20, 30, 10], [0, 2, 3, 1], 0, 1) := by decide +kernel

/-- The three enqueues overlap, so the order 20, 30, 10 in which the items leave is a FIFO linearization. -/
def drain3 : List (Tid × Act) :=
  [(0, .invoke ⟨"deq", []⟩)] ++ steps 0 9 ++ [(0, .ret), (0, .invoke ⟨"deq", []⟩)] ++ steps 0 12 ++
  [(0, .ret), (0, .invoke ⟨"deq", []⟩)] ++ steps 0 15 ++ [(0, .ret)]

example : (Basket.model.run Basket.init (threeSched ++ threeRest ++ drain3)).map (fun r => historyOf r.2) = some
    [⟨2, ⟨"enq", [30]⟩, [1], 2, 28⟩, ⟨1, ⟨"enq", [20]⟩, [1], 1, 37⟩, ⟨0, ⟨"enq", [10]⟩, [1], 0, 39⟩,
     ⟨0, ⟨"deq", []⟩, [1, 20], 40, 50⟩, ⟨0, ⟨"deq", []⟩, [1, 30], 51, 64⟩, ⟨0, ⟨"deq", []⟩, [1, 10], 65, 81⟩] := by
  decide +kernel

example : linCheck fifo
    [⟨2, ⟨"enq", [30]⟩, [1], 2, 28⟩, ⟨1, ⟨"enq", [20]⟩, [1], 1, 37⟩, ⟨0, ⟨"enq", [10]⟩, [1], 0, 39⟩,
     ⟨0, ⟨"deq", []⟩, [1, 20], 40, 50⟩, ⟨0, ⟨"deq", []⟩, [1, 30], 51, 64⟩, ⟨0, ⟨"deq", []⟩, [1, 10], 65, 81⟩] = true := by
  decide +kernel

/-- Logical deletion, skipping and `free_chain`.  Four items are enqueued and dequeued by one thread.  The first three
    dequeues only mark links (`cas+ n0 n1 n1|1`, …): `head` stays at `n0`.  The fourth skips three marked links
    (`hops = 3 = m_nMaxHops`), marks `n3 -> n4` and then unlinks the chain: `cas+ head n0 n4`, followed by the walk of
    `free_chain` over the retired nodes. -/
def enq1 (v : Int) : List (Tid × Act) := [(0, .invoke ⟨"enq", [v]⟩)] ++ steps 0 6 ++ [(0, .ret)]
def fcSched : List (Tid × Act) :=
  enq1 1 ++ enq1 2 ++ enq1 3 ++ enq1 4 ++
  [(0, .invoke ⟨"deq", []⟩)] ++ steps 0 9 ++ [(0, .ret)] ++
  [(0, .invoke ⟨"deq", []⟩)] ++ steps 0 12 ++ [(0, .ret)] ++
  [(0, .invoke ⟨"deq", []⟩)] ++ steps 0 15 ++ [(0, .ret)]

example : (Basket.model.run Basket.init fcSched).map
    (fun r => (r.1.head, r.1.tail, Basket.absNodes r.1, Basket.liveNodes r.1, Basket.absQueue r.1)) =
    some (0, 4, [0, 1, 2, 3, 4], [3, 4], [4]) := by decide +kernel

example : (Basket.model.run Basket.init (fcSched ++ [(0, .invoke ⟨"deq", []⟩)] ++ steps 0 27 ++ [(0, .ret)])).map
    (fun r => (r.2.drop 75, r.1.head, r.1.tail, Basket.absQueue r.1)) = some
    ([(0, .ev ⟨"ld", "head", "n0", ""⟩),
      (0, .ev ⟨"ld", "head", "n0", ""⟩),
      (0, .ev ⟨"ld", "tail", "n4", ""⟩),
      (0, .ev ⟨"ld", "tail", "n4", ""⟩),
      (0, .ev ⟨"ld", "n0", "n1|1", ""⟩),
      (0, .ev ⟨"ld", "n0", "n1|1", ""⟩),
      (0, .ev ⟨"ld", "head", "n0", ""⟩),
      (0, .ev ⟨"ld", "head", "n0", ""⟩),      -- skip loop: head unchanged
      (0, .ev ⟨"ld", "n1", "n2|1", ""⟩),
      (0, .ev ⟨"ld", "n1", "n2|1", ""⟩),
      (0, .ev ⟨"ld", "head", "n0", ""⟩),
      (0, .ev ⟨"ld", "n2", "n3|1", ""⟩),
      (0, .ev ⟨"ld", "n2", "n3|1", ""⟩),
      (0, .ev ⟨"ld", "head", "n0", ""⟩),
      (0, .ev ⟨"ld", "n3", "n4", ""⟩),
      (0, .ev ⟨"ld", "n3", "n4", ""⟩),        -- not marked: stop, hops = 3
      (0, .ev ⟨"ld", "head", "n0", ""⟩),
      (0, .ev ⟨"cas+", "n3", "n4", "n4|1"⟩),  -- linearization point of deq -> 4
      (0, .ev ⟨"cas+", "head", "n0", "n4"⟩),  -- free_chain
      (0, .ev ⟨"ld", "n0", "n1|1", ""⟩),
      (0, .ev ⟨"ld", "n0", "n1|1", ""⟩),
      (0, .ev ⟨"ld", "n1", "n2|1", ""⟩),
      (0, .ev ⟨"ld", "n1", "n2|1", ""⟩),
      (0, .ev ⟨"ld", "n2", "n3|1", ""⟩),
      (0, .ev ⟨"ld", "n2", "n3|1", ""⟩),
      (0, .ev ⟨"ld", "n3", "n4|1", ""⟩),
      (0, .ev ⟨"ld", "n3", "n4|1", ""⟩),
      (0, .ret [1, 4])], 4, 4, []) := by decide +kernel

/-- The initial state of the trace replay after a warm-up of two enqueue / dequeue pairs: `0 -> 1 -> 2`, both links
    marked, `head = 0`, `tail = 2`, empty queue. -/
example : (Basket.absNodes (Basket.initW 3 2), Basket.liveNodes (Basket.initW 3 2), Basket.absQueue (Basket.initW 3 2),
    (Basket.initW 3 2).head, (Basket.initW 3 2).tail) = ([0, 1, 2], [2], [], 0, 2) := by decide +kernel

/-! ### `C06_basket_pool_linearizable` on the concrete runs above -/

/-- The constructor's queue is the warm-up state with no warm-up. -/
theorem init_eq_initW : Basket.init = Basket.initW 3 0 := by
  simp [Basket.init, Basket.initH, Basket.initW, Basket.dummy]

/-- The theorem applied to `threeSched` (three overlapping enqueues on one tail node; at its end thread 2 has returned,
    thread 0 is past its linearization point and has not returned, thread 1 has not linked its node yet): the run
    exists, so no hypothesis is left. -/
example : ∃ s os, Basket.model.run (Basket.initW 3 0) threeSched = some (s, os) ∧
    ∃ extra : List (OpRec GOp GRet),
      (∀ e ∈ extra, pendingOf os e.tid = some (e.op, e.inv) ∧ e.res = os.length ∧
          Basket.postRet (s.pc e.tid) = some e.ret) ∧
      extra.Pairwise (fun a b => a.tid ≠ b.tid) ∧
      Linearizable QueueLinP.poolSpec (historyOf os ++ extra) := by
  have h : (Basket.model.run (Basket.initW 3 0) threeSched).isSome = true := by decide +kernel
  obtain ⟨⟨s, os⟩, hr⟩ := Option.isSome_iff_exists.mp h
  exact ⟨s, os, hr, C06_basket_pool_linearizable 3 0 threeSched s os hr⟩

set_option synthInstance.maxSize 4000 in
/-- What the theorem talks about in that run: one completed operation (`enq 30`), and the pending `enq 10` of thread 0
    is past its linearization point (`postRet` = its future result), the pending `enq 20` of thread 1 is not. -/
example : (Basket.model.run (Basket.initW 3 0) threeSched).map
    (fun r => (historyOf r.2, Basket.postRet (r.1.pc 0), Basket.postRet (r.1.pc 1), pendingOf r.2 0, pendingOf r.2 1)) =
    some ([⟨2, ⟨"enq", [30]⟩, [1], 2, 28⟩], some [1], none, some (⟨"enq", [10]⟩, 0), some (⟨"enq", [20]⟩, 1)) := by
  decide +kernel

/-- The complete run (three enqueues, then the queue is drained): an instance of
    `C06_basket_pool_linearizable_no_effect_pending` … -/
example : ∃ s os, Basket.model.run (Basket.initW 3 0) (threeSched ++ threeRest ++ drain3) = some (s, os) ∧
    ∃ extra : List (OpRec GOp GRet),
      (∀ e ∈ extra, pendingOf os e.tid = some (e.op, e.inv) ∧ e.res = os.length ∧
          Basket.postRet (s.pc e.tid) = some e.ret) ∧
      extra.Pairwise (fun a b => a.tid ≠ b.tid) ∧
      Linearizable QueueLinP.poolSpec (historyOf os ++ extra) := by
  have h : (Basket.model.run (Basket.initW 3 0) (threeSched ++ threeRest ++ drain3)).isSome = true := by decide +kernel
  obtain ⟨⟨s, os⟩, hr⟩ := Option.isSome_iff_exists.mp h
  exact ⟨s, os, hr, C06_basket_pool_linearizable 3 0 _ s os hr⟩

/-- … and the verified checker accepts its history (the one evaluated above) against the POOL specification; a history
    in which 30 is dequeued twice is rejected (no duplication), and so is one that answers "empty" while 10 is present. -/
example : (Basket.model.run (Basket.initW 3 0) (threeSched ++ threeRest ++ drain3)).map
    (fun r => linCheck QueueLinP.poolSpec (historyOf r.2)) = some true ∧
    linCheck QueueLinP.poolSpec
      [⟨2, ⟨"enq", [30]⟩, [1], 2, 28⟩, ⟨1, ⟨"enq", [20]⟩, [1], 1, 37⟩, ⟨0, ⟨"enq", [10]⟩, [1], 0, 39⟩,
       ⟨0, ⟨"deq", []⟩, [1, 30], 40, 50⟩, ⟨0, ⟨"deq", []⟩, [1, 30], 51, 64⟩, ⟨0, ⟨"deq", []⟩, [1, 10], 65, 81⟩] = false ∧
    linCheck QueueLinP.poolSpec
      [⟨2, ⟨"enq", [30]⟩, [1], 2, 28⟩, ⟨1, ⟨"enq", [20]⟩, [1], 1, 37⟩, ⟨0, ⟨"enq", [10]⟩, [1], 0, 39⟩,
       ⟨0, ⟨"deq", []⟩, [1, 20], 40, 50⟩, ⟨0, ⟨"deq", []⟩, [1, 30], 51, 64⟩, ⟨0, ⟨"deq", []⟩, [0], 65, 81⟩] = false := by
  decide +kernel

end CdsVerif.Props.C06Basket

/-
  Preservation of `SInv`, part 2: steps that move elements into and out of nodes, and steps that build and link a
  new node.
-/
import CdsVerif.Algo.Iterable.Step
namespace CdsVerif.Algo.Iterable
open CdsVerif.Machine CdsVerif.Spec

/-! ### Elements entering and leaving nodes -/

/-- A pending element is stored into an empty node. -/
theorem elemP_store {data : Nat → DW} {home : Nat → Option Nat} {retired : Nat → Option Tid} {used disposed : Nat → Bool}
    {ncnt : Nat} (h : ElemP data home retired used disposed ncnt) (a e : Nat) (m : Bool)
    (_hemp : (data a).p = none) (hno : ∀ b, (data b).p ≠ some e) (hu : used e = true)
    (hr : retired e = none) (ha : 3 ≤ a ∧ a < ncnt) :
    ElemP (upd data a ⟨some e, m⟩) (upd home e (some a)) retired used disposed ncnt := by
  obtain ⟨e1, e2, e3, e4, e5, e6, e7⟩ := h
  constructor
  · intro b x hb; grind [upd]
  · intro b x hb; grind [upd]
  · grind [upd]
  · grind [upd]
  · intro x b hb; grind [upd]
  · exact e6
  · exact e7

/-- An element is removed from its node (and retired). -/
theorem elemP_remove {data : Nat → DW} {home : Nat → Option Nat} {retired : Nat → Option Tid} {used disposed : Nat → Bool}
    {ncnt : Nat} (h : ElemP data home retired used disposed ncnt) (a e : Nat) (t : Tid)
    (hin : (data a).p = some e) :
    ElemP (upd data a ⟨none, false⟩) home (upd retired e (some t)) used disposed ncnt := by
  obtain ⟨e1, e2, e3, e4, e5, e6, e7⟩ := h
  constructor
  · intro b x hb; grind [upd]
  · intro b x hb; grind [upd]
  · grind [upd]
  · grind [upd]
  · exact e5
  · intro x hx; grind [upd]
  · intro x hx; grind [upd]

/-- An element is replaced by a pending element (and retired). -/
theorem elemP_replace {data : Nat → DW} {home : Nat → Option Nat} {retired : Nat → Option Tid} {used disposed : Nat → Bool}
    {ncnt : Nat} (h : ElemP data home retired used disposed ncnt) (a e e2 : Nat) (t : Tid)
    (hin : (data a).p = some e) (hno : ∀ b, (data b).p ≠ some e2) (hu : used e2 = true)
    (hr : retired e2 = none) :
    ElemP (upd data a ⟨some e2, false⟩) (upd home e2 (some a)) (upd retired e (some t)) used disposed ncnt := by
  obtain ⟨e1, e2', e3, e4, e5, e6, e7⟩ := h
  have hne : e2 ≠ e := by intro hc; subst hc; exact hno a hin
  have ha := e5 e a (e1 a e hin)
  constructor
  · intro b x hb; grind [upd]
  · intro b x hb; grind [upd]
  · grind [upd]
  · grind [upd]
  · intro x b hb; grind [upd]
  · intro x hx; grind [upd]
  · intro x hx; grind [upd]

/-- The pending element of a thread has no home yet, unless the thread has a node under construction. -/
theorem SInv.pend_homeless {s : St} (h : SInv s) {t : Tid} {e : Nat} (hp : pend (s.pc t) = some e)
    (hn : priv (s.pc t) = none) : s.home e = none := by
  cases hh : s.home e with
  | none => rfl
  | some a => have h2 := (h.thr t).phome e a hp hh; rw [hn] at h2; cases h2

/-- The pending element of a thread is in no node, except the thread's node under construction. -/
theorem SInv.pend_absent {s : St} (h : SInv s) {t : Tid} {e : Nat} (hp : pend (s.pc t) = some e)
    (hn : priv (s.pc t) = none) : ∀ b, (s.data b).p ≠ some e := by
  intro b hb
  have h1 := h.elem.ehome b e hb
  have h2 := (h.thr t).phome e b hp h1
  rw [hn] at h2; cases h2

theorem lReuse_enabled {s : St} {t : Tid} {j : Job} {p : Pos} (h : SInv s) (hpc : s.pc t = .lReuse j p) :
    s.data p.prev = ⟨none, true⟩ := by
  unpack h hpc t
  projs
  rw [a8.2, (a6 j p rfl).2]

theorem step_lReuse {s : St} {t : Tid} {j : Job} {p : Pos} (h : SInv s) (hpc : s.pc t = .lReuse j p) :
    SInv { s with data := upd s.data p.prev ⟨some j.e, false⟩, mo := upd s.mo p.prev none,
                  home := upd s.home j.e (some p.prev), pc := upd s.pc t (.lRelCur j p true) } := by
  have hd := lReuse_enabled h hpc
  have hab := h.pend_absent (t := t) (e := j.e) (by rw [hpc]; rfl) (by rw [hpc]; rfl)
  have hhn := h.pend_homeless (t := t) (e := j.e) (by rw [hpc]; rfl) (by rw [hpc]; rfl)
  unpack h hpc t
  have hlk : s.lk p.prev = true := by projs; exact a4.1
  have hmo : s.mo p.prev = some t := by projs; exact a8.1
  have hcnt := o5 _ hlk
  have hne : p.prev ≠ 1 ∧ p.prev ≠ 2 ∧ p.prev ≠ 0 := by projs; grind
  apply sinv_build_keep h (t := t) (Y := .lRelCur j p true)
  · rfl
  · exact h.ord
  · exact freshP_data h.fresh _ _ _ hcnt
  · exact elemP_store h.elem _ _ _ (by rw [hd]) hab (by projs; exact a13.1) (by projs; exact a13.2) (by omega)
  · exact bit_upd h.bit _ _ _ (by simp)
  · intro a ha; dsimp only at ha; have := hown a; projs; grind [upd]
  · intro a t0 h0 ha; dsimp only at ha; grind [upd]
  · constructor <;> intros <;> projs <;> (try dsimp only) <;> (try tfin)
  · intro t0 h0
    have hq := h.thr t0
    have b7 := hq.mcur
    have b8 := hq.mprev
    have b9 := hq.pcnt
    have hu := h.upend t0 t
    rw [hpc] at hu
    apply hq.frame <;> first | rfl | exact Nat.le_refl _ | (intros; rfl) | (intros; assumption) | skip
    · intro q hp; have := b7 q hp; dsimp only; constructor <;> grind [upd]
    · intro q hp; have := b8 q hp; dsimp only; constructor <;> grind [upd]
    · intro n hn; have := b9 n hn; dsimp only; constructor <;> grind [upd]
    · intro e he
      have hne : e ≠ j.e := fun hc => h0 (hu e he (by rw [hc]; rfl))
      exact ⟨rfl, rfl, upd_other _ _ _ _ hne⟩
    · intro e a he; dsimp only
      have hne : e ≠ j.e := fun hc => by rw [hc, hhn] at he; cases he
      rw [upd_other _ _ _ _ hne]; exact he
  · keep hpc
  · keep hpc

theorem freshP_data' {ncnt : Nat} {next : Nat → Nat} {data : Nat → DW} {mo : Nat → Option Tid}
    (h : FreshP ncnt next data mo) (a : Nat) (w : DW) (ha : a < ncnt) :
    FreshP ncnt next (upd data a w) mo := by
  constructor
  intro b hb
  have := h.fresh b hb
  have hne : b ≠ a := by omega
  simp only [upd_other _ _ _ _ hne]
  exact this

theorem bit_upd_data {data : Nat → DW} {mo : Nat → Option Tid} (h : ∀ a, (data a).m = true ↔ mo a ≠ none)
    (a : Nat) (w : DW) (hw : w.m = (data a).m) :
    ∀ b, ((upd data a w) b).m = true ↔ mo b ≠ none := by
  intro b
  by_cases e : b = a
  · subst e; simp only [upd_same, hw]; exact h b
  · simp only [upd_other _ _ _ _ e]; exact h b

/-- Another thread keeps its facts when the stepping thread `t` replaces the unmarked content `e` of a linked
    node (by nothing, or by its own pending element `e2`, whose `home` is set). -/
theorem TInv.frame_remove {s : St} {t t' : Tid} (h : SInv s) (_hne : t' ≠ t) (a e : Nat) (w : DW)
    (pcf : Tid → PC) (cf : Tid → Nat → Bool) (hm' : Nat → Option Nat)
    (hlk : s.lk a = true) (hd : s.data a = ⟨some e, false⟩)
    (hh1 : ∀ x b, s.home x = some b → hm' x = some b)
    (hh2 : ∀ x, pend (s.pc t') = some x → hm' x = s.home x) :
    TInv { s with data := upd s.data a w, retired := upd s.retired e (some t), home := hm', cand := cf, pc := pcf }
      t' (s.pc t') := by
  have hq := h.thr t'
  have b7 := hq.mcur
  have b8 := hq.mprev
  have b9 := hq.pcnt
  have b14 := hq.phome
  have hhe := h.elem.ehome a e (by rw [hd])
  apply hq.frame <;> first | rfl | exact Nat.le_refl _ | (intros; rfl) | (intros; exact ⟨rfl, rfl⟩) | (intros; assumption) | skip
  · intro p hp; have := b7 p hp; dsimp only; refine ⟨?_, rfl⟩; grind [upd]
  · intro p hp; have := b8 p hp; dsimp only; refine ⟨?_, rfl⟩; grind [upd]
  · intro n hn; have := b9 n hn; dsimp only; refine ⟨?_, rfl⟩; grind [upd]
  · intro x hx
    have hxe : x ≠ e := by
      intro hc; subst hc
      have := b9 a (b14 x a hx hhe)
      rw [hlk] at this; exact absurd this.2.2.1 (by simp)
    exact ⟨rfl, upd_other _ _ _ _ hxe, hh2 x hx⟩
  · exact hh1

theorem step_eraseCas_ok {s : St} {t : Tid} {k : Int} {cur e : Nat} (h : SInv s) (hpc : s.pc t = .eraseCas k cur e)
    (hd : s.data cur = ⟨some e, false⟩) :
    SInv { (s.removed t e) with data := upd s.data cur ⟨none, false⟩, pc := upd s.pc t (.done [1, (e : Int)]) } := by
  unpack h hpc t
  have hlk : s.lk cur = true := by projs; exact a8'
  have hcnt := o5 _ hlk
  apply sinv_build_keep h (t := t) (Y := .done [1, (e : Int)])
  · rfl
  · exact h.ord
  · exact freshP_data' h.fresh _ _ hcnt
  · exact elemP_remove h.elem _ _ _ (by rw [hd])
  · exact bit_upd_data h.bit _ _ (by rw [hd])
  · intro a ha; have := hown a ha; projs
  · intro a t0 h0 ha; exact ha
  · constructor <;> intros <;> (try dsimp only [St.removed] at *) <;> projs <;> (try tfin)
  · intro t0 h0; exact TInv.frame_remove h h0 _ _ _ _ _ _ hlk hd (fun _ _ hx => hx) (fun _ _ => rfl)
  · keep hpc
  · keep hpc

theorem step_eraseCas_fail {s : St} {t : Tid} {k : Int} {cur e : Nat} (h : SInv s) (hpc : s.pc t = .eraseCas k cur e) :
    SInv { s with pc := upd s.pc t (.wNext .erase k hd none) } := by
  unpack h hpc t
  pconly h hpc

theorem step_updCas_ok {s : St} {t : Tid} {j : Job} {cur e : Nat} (h : SInv s) (hpc : s.pc t = .updCas j cur e)
    (hd : s.data cur = ⟨some e, false⟩) :
    SInv { (s.removed t e) with data := upd s.data cur ⟨some j.e, false⟩, home := upd s.home j.e (some cur),
                                pc := upd s.pc t (.done [1, 0, (e : Int)]) } := by
  have hab := h.pend_absent (t := t) (e := j.e) (by rw [hpc]; rfl) (by rw [hpc]; rfl)
  have hhn := h.pend_homeless (t := t) (e := j.e) (by rw [hpc]; rfl) (by rw [hpc]; rfl)
  unpack h hpc t
  have hlk : s.lk cur = true := by projs; exact a8'
  have hcnt := o5 _ hlk
  have hne : j.e ≠ e := by intro hc; exact hab cur (by rw [hd, hc])
  apply sinv_build_keep h (t := t) (Y := .done [1, 0, (e : Int)])
  · rfl
  · exact h.ord
  · exact freshP_data' h.fresh _ _ hcnt
  · exact elemP_replace h.elem _ _ _ _ (by rw [hd]) hab (by projs; exact a13.1) (by projs; exact a13.2)
  · exact bit_upd_data h.bit _ _ (by rw [hd])
  · intro a ha; have := hown a ha; projs
  · intro a t0 h0 ha; exact ha
  · constructor <;> intros <;> (try dsimp only [St.removed] at *) <;> projs <;> (try tfin)
  · intro t0 h0
    have hu := h.upend t0 t
    rw [hpc] at hu
    refine TInv.frame_remove h h0 _ _ _ _ _ _ hlk hd ?_ ?_
    · intro x b hx
      have hxe : x ≠ j.e := fun hc => by rw [hc, hhn] at hx; cases hx
      rw [upd_other _ _ _ _ hxe]; exact hx
    · intro x hx
      have hxe : x ≠ j.e := fun hc => h0 (hu x hx (by rw [hc]; rfl))
      exact upd_other _ _ _ _ hxe
  · keep hpc
  · keep hpc

theorem step_updCas_fail {s : St} {t : Tid} {j : Job} {cur e : Nat} (h : SInv s) (hpc : s.pc t = .updCas j cur e) :
    SInv { s with pc := upd s.pc t (.wHead j) } := by
  unpack h hpc t
  pconly h hpc

/-! ### Building and linking a node -/

/-- Writing the `next` word of a node that is not linked does not affect the chain. -/
theorem ordP_next_unlinked {lk : Nat → Bool} {lt : Nat → Nat → Bool} {next : Nat → Nat} {ncnt : Nat}
    (h : OrdP lk lt next ncnt) (n v : Nat) (hn : lk n = false) (ncnt' : Nat) (hc : ncnt ≤ ncnt') :
    OrdP lk lt (upd next n v) ncnt' := by
  obtain ⟨o1,o2,o3,o4,o5,o6,o7,o8,o9,o10,o11,o12,o13,o14⟩ := h
  constructor
  · exact o1
  · exact o2
  · exact o3
  · omega
  · intro a ha; have := o5 a ha; omega
  · exact o6
  · exact o7
  · exact o8
  · exact o9
  · exact o10
  · exact o11
  · intro a ha h2; have : a ≠ n := by grind
    rw [upd_other _ _ _ _ this]; exact o12 a ha h2
  · intro a b ha h2 h3; have : a ≠ n := by grind
    rw [upd_other _ _ _ _ this]; exact o13 a b ha h2 h3
  · have : (2 : Nat) ≠ n := by grind
    rw [upd_other _ _ _ _ this]; exact o14

theorem elemP_cnt {data : Nat → DW} {home : Nat → Option Nat} {retired : Nat → Option Tid} {used disposed : Nat → Bool}
    {ncnt : Nat} (h : ElemP data home retired used disposed ncnt) (ncnt' : Nat) (hc : ncnt ≤ ncnt') :
    ElemP data home retired used disposed ncnt' := by
  obtain ⟨e1, e2, e3, e4, e5, e6, e7⟩ := h
  exact ⟨e1, e2, e3, e4, fun e a ha => by have := e5 e a ha; exact ⟨this.1, this.2.1, by omega⟩, e6, e7⟩

/-- Linking the new node `x` between the adjacent nodes `p` and `c`. -/
theorem ordP_insert {lk : Nat → Bool} {lt : Nat → Nat → Bool} {next : Nat → Nat} {ncnt : Nat}
    (h : OrdP lk lt next ncnt) (p c x : Nat) (hp : lk p = true) (hc : lk c = true) (hpc : next p = c)
    (hp2 : p ≠ 2) (hx : lk x = false) (hxc : x < ncnt) (hx0 : x ≠ 0) (hxn : next x = c) :
    OrdP (upd lk x true) (ltIns lt p c x) (upd next p x) ncnt := by
  obtain ⟨o1,o2,o3,o4,o5,o6,o7,o8,o9,o10,o11,o12,o13,o14⟩ := h
  have hpcl : lt p c = true := by rw [← hpc]; exact o12 p hp hp2
  have hxp : x ≠ p := fun e => by rw [e, hp] at hx; cases hx
  have hxc' : x ≠ c := fun e => by rw [e, hc] at hx; cases hx
  have hx1 : x ≠ 1 := fun e => by rw [e, o1] at hx; cases hx
  have hx2 : x ≠ 2 := fun e => by rw [e, o2] at hx; cases hx
  have hltx : ∀ a, lt a x = false := by
    intro a; cases hh : lt a x with
    | false => rfl
    | true => have := (o6 a x hh).2; rw [hx] at this; cases this
  have L1 : ∀ a b, a ≠ x → b ≠ x → ltIns lt p c x a b = lt a b := by
    intro a b ha hb; simp [ltIns, ha, hb]
  have L2 : ∀ b, b ≠ x → ltIns lt p c x x b = (b == c || lt c b) := by
    intro b hb; simp [ltIns, hb]
  have L3 : ∀ a, a ≠ x → ltIns lt p c x a x = (a == p || lt a p) := by
    intro a ha; simp [ltIns, ha]
  have L4 : ltIns lt p c x x x = false := by simp [ltIns]
  have K1 : ∀ a, a ≠ x → upd lk x true a = lk a := fun a ha => upd_other _ _ _ _ ha
  have K2 : upd lk x true x = true := upd_same _ _ _
  have hlknx : ∀ a, lk a = true → a ≠ 2 → lk (next a) = true := fun a ha h2 => (o6 _ _ (o12 a ha h2)).2
  have hnex : ∀ a, lk a = true → a ≠ x := fun a ha e => by rw [e, hx] at ha; cases ha
  refine ⟨?_, ?_, ?_, o4, ?_, ?_, ?_, ?_, ?_, ?_, ?_, ?_, ?_, ?_⟩
  · rw [K1 1 (Ne.symm hx1)]; exact o1
  · rw [K1 2 (Ne.symm hx2)]; exact o2
  · rw [K1 0 (Ne.symm hx0)]; exact o3
  · intro a ha
    by_cases e : a = x
    · rw [e]; exact hxc
    · rw [K1 a e] at ha; exact o5 a ha
  · intro a b hab
    by_cases ea : a = x <;> by_cases eb : b = x
    · subst ea; subst eb; rw [L4] at hab; cases hab
    · subst ea; rw [L2 b eb] at hab; rw [K2, K1 b eb]
      refine ⟨rfl, ?_⟩
      simp only [Bool.or_eq_true, beq_iff_eq] at hab
      rcases hab with h | h
      · rw [h]; exact hc
      · exact (o6 _ _ h).2
    · subst eb; rw [L3 a ea] at hab; rw [K2, K1 a ea]
      refine ⟨?_, rfl⟩
      simp only [Bool.or_eq_true, beq_iff_eq] at hab
      rcases hab with h | h
      · rw [h]; exact hp
      · exact (o6 _ _ h).1
    · rw [L1 a b ea eb] at hab; rw [K1 a ea, K1 b eb]; exact o6 a b hab
  · intro a
    by_cases ea : a = x
    · subst ea; exact L4
    · rw [L1 a a ea ea]; exact o7 a
  · intro a b d hab hbd
    by_cases ea : a = x <;> by_cases eb : b = x <;> by_cases ed : d = x
    · subst ea; subst eb; rw [L4] at hab; cases hab
    · subst ea; subst eb; rw [L4] at hab; cases hab
    · subst ea; subst ed; rw [L2 b eb] at hab; rw [L3 b eb] at hbd
      simp only [Bool.or_eq_true, beq_iff_eq] at hab hbd
      exfalso; clear L1 L2 L3 L4 K1 K2 o9 o10 o11 o12 o13 o5 hlknx hnex hltx
      grind
    · subst ea; rw [L2 b eb] at hab; rw [L1 b d eb ed] at hbd; rw [L2 d ed]
      simp only [Bool.or_eq_true, beq_iff_eq] at hab ⊢
      clear L1 L2 L3 L4 K1 K2 o9 o10 o11 o12 o13 o5 hlknx hnex hltx
      grind
    · subst eb; subst ed; rw [L4] at hbd; cases hbd
    · subst eb; rw [L3 a ea] at hab; rw [L2 d ed] at hbd; rw [L1 a d ea ed]
      simp only [Bool.or_eq_true, beq_iff_eq] at hab hbd
      clear L1 L2 L3 L4 K1 K2 o9 o10 o11 o12 o13 o5 hlknx hnex hltx
      grind
    · subst ed; rw [L1 a b ea eb] at hab; rw [L3 b eb] at hbd; rw [L3 a ea]
      simp only [Bool.or_eq_true, beq_iff_eq] at hbd ⊢
      clear L1 L2 L3 L4 K1 K2 o9 o10 o11 o12 o13 o5 hlknx hnex hltx
      grind
    · rw [L1 a b ea eb] at hab; rw [L1 b d eb ed] at hbd; rw [L1 a d ea ed]; exact o8 a b d hab hbd
  · intro a b ha hb hab
    by_cases ea : a = x <;> by_cases eb : b = x
    · exact absurd (ea.trans eb.symm) hab
    · subst ea; rw [K1 b eb] at hb; rw [L2 b eb, L3 b eb]
      simp only [Bool.or_eq_true, beq_iff_eq]
      have t1 := o9 b p hb hp
      have t2 := o9 b c hb hc
      have t3 := o13 p b hp hp2
      rw [hpc] at t3
      clear L1 L2 L3 L4 K1 K2 o9 o10 o11 o12 o13 o5 o8 hlknx hnex hltx
      grind
    · subst eb; rw [K1 a ea] at ha; rw [L2 a ea, L3 a ea]
      simp only [Bool.or_eq_true, beq_iff_eq]
      have t1 := o9 a p ha hp
      have t2 := o9 a c ha hc
      have t3 := o13 p a hp hp2
      rw [hpc] at t3
      clear L1 L2 L3 L4 K1 K2 o9 o10 o11 o12 o13 o5 o8 hlknx hnex hltx
      grind
    · rw [K1 a ea] at ha; rw [K1 b eb] at hb; rw [L1 a b ea eb, L1 b a eb ea]; exact o9 a b ha hb hab
  · intro a ha h1
    by_cases ea : a = x
    · subst ea; rw [L3 1 (Ne.symm hx1)]
      simp only [Bool.or_eq_true, beq_iff_eq]
      by_cases ep : p = 1
      · left; exact ep.symm
      · right; exact o10 p hp ep
    · rw [K1 a ea] at ha; rw [L1 1 a (Ne.symm hx1) ea]; exact o10 a ha h1
  · intro a ha h2
    by_cases ea : a = x
    · subst ea; rw [L2 2 (Ne.symm hx2)]
      simp only [Bool.or_eq_true, beq_iff_eq]
      by_cases ec : c = 2
      · left; exact ec.symm
      · right; exact o11 c hc ec
    · rw [K1 a ea] at ha; rw [L1 a 2 ea (Ne.symm hx2)]; exact o11 a ha h2
  · intro a ha h2
    by_cases ea : a = x
    · subst ea; rw [upd_other _ _ _ _ hxp, hxn, L2 c (Ne.symm hxc')]; simp
    · rw [K1 a ea] at ha
      by_cases ep : a = p
      · subst ep; rw [upd_same, L3 a ea]; simp
      · rw [upd_other _ _ _ _ ep, L1 a (next a) ea (hnex _ (hlknx a ha h2))]; exact o12 a ha h2
  · intro a b ha h2 hab hbn
    by_cases ea : a = x
    · subst ea
      rw [upd_other _ _ _ _ hxp, hxn] at hbn
      by_cases eb : b = a
      · subst eb; rw [L4] at hab; cases hab
      · rw [L2 b eb] at hab; rw [L1 b c eb (Ne.symm hxc')] at hbn
        simp only [Bool.or_eq_true, beq_iff_eq] at hab
        clear L1 L2 L3 L4 K1 K2 o9 o10 o11 o12 o13 o5 hlknx hnex hltx
        grind
    · rw [K1 a ea] at ha
      by_cases ep : a = p
      · subst ep; rw [upd_same] at hbn
        by_cases eb : b = x
        · subst eb; rw [L4] at hbn; cases hbn
        · rw [L1 a b ea eb] at hab; rw [L3 b eb] at hbn
          simp only [Bool.or_eq_true, beq_iff_eq] at hbn
          clear L1 L2 L3 L4 K1 K2 o9 o10 o11 o12 o13 o5 hlknx hnex hltx
          grind
      · rw [upd_other _ _ _ _ ep] at hbn
        have hn := hlknx a ha h2
        have hnx := hnex _ hn
        by_cases eb : b = x
        · subst eb; rw [L3 a ea] at hab; rw [L2 (next a) hnx] at hbn
          simp only [Bool.or_eq_true, beq_iff_eq] at hab hbn
          have t1 := o9 (next a) p hn hp
          have t3 := o13 a p ha h2
          clear L1 L2 L3 L4 K1 K2 o9 o10 o11 o12 o13 o5 hlknx hnex hltx
          grind
        · rw [L1 a b ea eb] at hab; rw [L1 b (next a) eb hnx] at hbn; exact o13 a b ha h2 hab hbn
  · have : (2 : Nat) ≠ p := Ne.symm hp2
    rw [upd_other _ _ _ _ this]; exact o14

theorem adjOf_posOf {pc : PC} {q : Pos} (h : adjOf pc = some q) : posOf pc = some q := by
  cases pc <;> simp only [adjOf, reduceCtorEq] at h <;> simpa [posOf] using h

theorem adjOf_ppos {pc : PC} {q : Pos} (h : adjOf pc = some q) : ppos pc = some q := by
  cases pc <;> simp only [adjOf, reduceCtorEq] at h <;> simpa [ppos, posOf] using h

theorem lpos_posOf {pc : PC} {q : Pos} (h : lpos pc = some q) : posOf pc = some q := by
  cases pc <;> simp only [lpos, reduceCtorEq] at h <;> first | exact h | simpa [posOf] using h

theorem ppos_posOf {pc : PC} {q : Pos} (h : ppos pc = some q) : posOf pc = some q := by
  cases pc <;> simp only [ppos, reduceCtorEq] at h <;> first | exact h | simpa [posOf] using h

/-- Another thread keeps its facts when the stepping thread writes a word of ITS node under construction `n`
    (and, when it stores its pending element there, sets that element's `home`). -/
theorem TInv.frame_priv {s : St} {t t' : Tid} (h : SInv s) (hne : t' ≠ t) (n : Nat)
    (hn : priv (s.pc t) = some n) (nx : Nat → Nat) (dt : Nat → DW) (hm' : Nat → Option Nat) (pcf : Tid → PC)
    (hnx : ∀ b, b ≠ n → nx b = s.next b) (hdt : ∀ b, b ≠ n → dt b = s.data b)
    (hh1 : ∀ x b, s.home x = some b → hm' x = some b)
    (hh2 : ∀ x, pend (s.pc t') = some x → hm' x = s.home x) :
    TInv { s with next := nx, data := dt, home := hm', pc := pcf } t' (s.pc t') := by
  have hq := h.thr t'
  have hnl := ((h.thr t).pcnt n hn).2.2.1
  have lkne : ∀ b, s.lk b = true → b ≠ n := fun b hb e => by rw [e, hnl] at hb; cases hb
  apply hq.frame <;> first | rfl | exact Nat.le_refl _ | (intros; rfl) | (intros; exact ⟨rfl, rfl⟩) | (intros; assumption) | skip
  · intro q hp; exact hnx _ (lkne _ (hq.pos q (adjOf_posOf hp)).1)
  · intro m hm; exact hnx _ (fun e => hne (h.upriv t' t n (e ▸ hm) hn))
  · intro q hp; exact ⟨hdt _ (lkne _ (hq.pos q (lpos_posOf hp)).2.1), rfl⟩
  · intro q hp; exact ⟨hdt _ (lkne _ (hq.pos q (ppos_posOf hp)).1), rfl⟩
  · intro m hm; exact ⟨hdt _ (fun e => hne (h.upriv t' t n (e ▸ hm) hn)), rfl⟩
  · intro x hx; exact ⟨rfl, rfl, hh2 x hx⟩
  · exact hh1

theorem step_lCtor2 {s : St} {t : Tid} {j : Job} {p : Pos} {n : Nat} (h : SInv s) (hpc : s.pc t = .lCtor2 j p n) :
    SInv { s with data := upd s.data n ⟨some j.e, false⟩, home := upd s.home j.e (some n),
                  pc := upd s.pc t (.lStNext j p n) } := by
  have hpe : pend (s.pc t) = some j.e := by rw [hpc]; rfl
  have hpn : priv (s.pc t) = some n := by rw [hpc]; rfl
  have hab : ∀ b, (s.data b).p ≠ some j.e := by
    intro b hb
    have h2 := (h.thr t).phome j.e b hpe (h.elem.ehome b j.e hb)
    rw [hpn] at h2
    have hbn : n = b := by simpa using h2
    have := (h.thr t).pctor j p n hpc
    rw [← hbn, this] at hb; cases hb
  unpack h hpc t
  have hn : 3 ≤ n ∧ n < s.ncnt ∧ s.lk n = false ∧ s.mo n = none := by projs; exact a9
  have hm : (s.data n).m = false := by
    cases hh : (s.data n).m with
    | false => rfl
    | true => have := (h.bit n).1 hh; exact absurd hn.2.2.2 this
  apply sinv_build_keep h (t := t) (Y := .lStNext j p n)
  · rfl
  · exact h.ord
  · exact freshP_data' h.fresh _ _ hn.2.1
  · exact elemP_store h.elem _ _ _ (a10 j p n rfl) hab (by projs; exact a13.1) (by projs; exact a13.2) ⟨hn.1, hn.2.1⟩
  · exact bit_upd_data h.bit _ _ (by rw [hm])
  · intro a ha; have := hown a ha; projs; exact this
  · intro a t0 h0 ha; exact ha
  · constructor <;> intros <;> projs <;> (try dsimp only) <;> (try tfin)
  · intro t0 h0
    have hu := h.upend t0 t
    refine TInv.frame_priv h h0 n hpn _ _ _ _ (fun _ _ => rfl) (fun b hb => upd_other _ _ _ _ hb) ?_ ?_
    · intro x b hx
      by_cases e : x = j.e
      · subst e; rw [upd_same]
        have := (h.thr t).phome j.e b hpe hx
        rw [hpn] at this; exact this
      · rw [upd_other _ _ _ _ e]; exact hx
    · intro x hx
      have hxe : x ≠ j.e := fun hc => h0 (hu x hx (by rw [hc]; exact hpe))
      exact upd_other _ _ _ _ hxe
  · keep hpc
  · keep hpc

theorem step_lStNext {s : St} {t : Tid} {j : Job} {p : Pos} {n : Nat} (h : SInv s) (hpc : s.pc t = .lStNext j p n) :
    SInv { s with next := upd s.next n p.cur, pc := upd s.pc t (.lCasNext j p n) } := by
  have hpn : priv (s.pc t) = some n := by rw [hpc]; rfl
  unpack h hpc t
  have hn : 3 ≤ n ∧ n < s.ncnt ∧ s.lk n = false ∧ s.mo n = none := by projs; exact a9
  apply sinv_build_keep h (t := t) (Y := .lCasNext j p n)
  · rfl
  · exact ordP_next_unlinked h.ord _ _ hn.2.2.1 _ (Nat.le_refl _)
  · constructor; intro b hb; have := h.fresh.fresh b hb
    have hne : b ≠ n := by dsimp only at hb; omega
    dsimp only; rw [upd_other _ _ _ _ hne]; exact this
  · exact h.elem
  · exact h.bit
  · intro a ha; have := hown a ha; projs; exact this
  · intro a t0 h0 ha; exact ha
  · constructor <;> intros <;> projs <;> (try dsimp only) <;> (try tfin)
  · intro t0 h0
    exact TInv.frame_priv h h0 n hpn _ _ _ _ (fun b hb => upd_other _ _ _ _ hb) (fun _ _ => rfl)
      (fun _ _ hx => hx) (fun _ _ => rfl)
  · keep hpc
  · keep hpc

theorem step_lCtor1 {s : St} {t : Tid} {j : Job} {p : Pos} (h : SInv s) (hpc : s.pc t = .lCtor1 j p) :
    SInv { s with next := upd s.next s.ncnt 0, ncnt := s.ncnt + 1, pc := upd s.pc t (.lCtor2 j p s.ncnt) } := by
  unpack h hpc t
  have hf := h.fresh.fresh s.ncnt (Nat.le_refl _)
  have hnl : s.lk s.ncnt = false := by
    cases hh : s.lk s.ncnt with
    | false => rfl
    | true => have := o5 _ hh; omega
  apply sinv_build h (t := t) (Y := .lCtor2 j p s.ncnt)
  · rfl
  · exact ordP_next_unlinked h.ord _ _ hnl _ (Nat.le_succ _)
  · constructor; intro b hb; dsimp only at hb
    have := h.fresh.fresh b (by omega)
    have hne : b ≠ s.ncnt := by omega
    dsimp only; rw [upd_other _ _ _ _ hne]; exact this
  · exact elemP_cnt h.elem _ (Nat.le_succ _)
  · exact h.bit
  · intro a ha; have := hown a ha; projs; exact this
  · intro a t0 h0 ha; exact ha
  · constructor <;> intros <;> projs <;> (try dsimp only) <;> (try tfin)
  · intro t0 h0
    have hq := h.thr t0
    have b4 := hq.pos
    have b9 := hq.pcnt
    apply hq.frame <;> first | rfl | exact Nat.le_succ _ | (intros; rfl) | (intros; exact ⟨rfl, rfl⟩) | (intros; exact ⟨rfl, rfl, rfl⟩) | (intros; assumption) | skip
    · intro q hp; dsimp only
      have hl : s.lk q.prev = true := by
        have := hq.adj q hp
        cases hc : s.pc t0 <;> rw [hc] at hp <;> simp only [adjOf, reduceCtorEq] at hp <;>
          exact (b4 q (by rw [hc]; simpa [posOf] using hp)).1
      have hne : q.prev ≠ s.ncnt := fun e => by rw [e, hnl] at hl; cases hl
      exact upd_other _ _ _ _ hne
    · intro n hn; have := b9 n hn; dsimp only
      have hne : n ≠ s.ncnt := by omega
      exact upd_other _ _ _ _ hne
  · intro n hn t0 h0 hc
    have := ((h.thr t0).pcnt n hc).2.1
    simp only [priv, Option.some.injEq] at hn; omega
  · intro e he t0 h0 hc
    exact h0 (h.upend t0 t e hc (by rw [hpc]; exact he))

theorem ltIns_old {lt : Nat → Nat → Bool} {p c x a b : Nat} (ha : a ≠ x) (hb : b ≠ x) :
    ltIns lt p c x a b = lt a b := by simp [ltIns, ha, hb]

theorem lCasNext_enabled {s : St} {t : Tid} {j : Job} {p : Pos} {n : Nat} (h : SInv s)
    (hpc : s.pc t = .lCasNext j p n) : s.next p.prev = p.cur :=
  (h.thr t).adj p (by rw [hpc]; rfl)

/-- Another thread keeps its facts when the stepping thread links its node `n` between `pr` and `cu`, whose marks
    it holds. -/
theorem TInv.frame_link {s : St} {t t' : Tid} (h : SInv s) (hne : t' ≠ t) (n pr cu : Nat)
    (hn : priv (s.pc t) = some n) (hmo : s.mo pr = some t) (pcf : Tid → PC) :
    TInv { s with next := upd s.next pr n, lk := upd s.lk n true, lt := ltIns s.lt pr cu n, pc := pcf }
      t' (s.pc t') := by
  have hq := h.thr t'
  obtain ⟨a1,a2,a3,a4,a5,a6,a7,a8,a8',a9,a10,a11,a12,a13,a14,a15,a16,a17,a18,a19,a20,a21,a22,a23,a24,a25,a26,a27⟩ := hq
  have hnl := ((h.thr t).pcnt n hn).2.2.1
  have lkne : ∀ b, s.lk b = true → b ≠ n := fun b hb e => by rw [e, hnl] at hb; cases hb
  have lkmono : ∀ b, s.lk b = true → upd s.lk n true b = true := fun b hb => by
    rw [upd_other _ _ _ _ (lkne b hb)]; exact hb
  have ltmono : ∀ a b, s.lt a b = true → ltIns s.lt pr cu n a b = true := fun a b hab => by
    have := h.ord.ltlk a b hab
    rw [ltIns_old (lkne a this.1) (lkne b this.2)]; exact hab
  constructor
  · intro a ha; exact ⟨lkmono a (a1 a ha).1, (a1 a ha).2⟩
  · intro a b hab; exact ⟨lkmono b (a2 a b hab).1, ltmono a b (a2 a b hab).2⟩
  · exact a3
  · intro q hq; have := a4 q hq; exact ⟨lkmono _ this.1, lkmono _ this.2.1, ltmono _ _ this.2.2⟩
  · intro q hq; dsimp only
    have hne' : q.prev ≠ pr := fun e => by
      have := (a8 q (adjOf_ppos hq)).1
      rw [e, hmo] at this
      exact hne (Option.some.inj this).symm
    rw [upd_other _ _ _ _ hne']; exact a5 q hq
  · exact a6
  · exact a7
  · exact a8
  · intro a ha; exact lkmono a (a8' a ha)
  · intro m hm; have := a9 m hm
    have hmn : m ≠ n := fun e => hne (h.upriv t' t n (e ▸ hm) hn)
    exact ⟨this.1, this.2.1, by dsimp only; rw [upd_other _ _ _ _ hmn]; exact this.2.2.1, this.2.2.2⟩
  · exact a10
  · exact a11
  · intro j' q m hpc; dsimp only
    have hm : priv (s.pc t') = some m := by rw [hpc]; rfl
    have hl := (a9 m hm).2.2.1
    have hmp : m ≠ pr := fun e => by
      have := h.own pr t hmo
      have hlp : s.lk pr = true := by
        rcases this with h1 | h1
        · cases hl1 : lpos (s.pc t) with
          | none => rw [hl1] at h1; cases h1
          | some q1 =>
            rw [hl1] at h1; simp only [Option.map_some, Option.some.injEq] at h1
            have := ((h.thr t).pos q1 (lpos_posOf hl1)).2.1; rw [h1] at this; exact this
        · cases hl1 : ppos (s.pc t) with
          | none => rw [hl1] at h1; cases h1
          | some q1 =>
            rw [hl1] at h1; simp only [Option.map_some, Option.some.injEq] at h1
            have := ((h.thr t).pos q1 (ppos_posOf hl1)).1; rw [h1] at this; exact this
      rw [e, hlp] at hl; cases hl
    rw [upd_other _ _ _ _ hmp]; exact a12 j' q m hpc
  · exact a13
  · exact a14
  · exact a15
  · exact lkmono _ a16
  · exact a17
  · exact a18
  · exact a19
  · exact a20
  · exact a21
  · exact a22
  · exact a23
  · exact a24
  · exact a25
  · exact a26
  · exact a27

theorem step_lCasNext {s : St} {t : Tid} {j : Job} {p : Pos} {n : Nat} (h : SInv s) (hpc : s.pc t = .lCasNext j p n) :
    SInv { s with next := upd s.next p.prev n, lk := upd s.lk n true, lt := ltIns s.lt p.prev p.cur n,
                  pc := upd s.pc t (.lRelPrev j p true) } := by
  have hpn : priv (s.pc t) = some n := by rw [hpc]; rfl
  unpack h hpc t
  have hn : 3 ≤ n ∧ n < s.ncnt ∧ s.lk n = false ∧ s.mo n = none := by projs; exact a9
  have hpos : s.lk p.prev = true ∧ s.lk p.cur = true ∧ s.lt p.prev p.cur = true := by projs; exact a4
  have hadj : s.next p.prev = p.cur := by projs; exact a5
  have hmo : s.mo p.prev = some t := by projs; exact a8.1
  have hp2 : p.prev ≠ 2 := by
    intro e; have := o11 p.cur hpos.2.1
    have h3 := hpos.2.2; rw [e] at h3
    by_cases ec : p.cur = 2
    · rw [ec, o7] at h3; cases h3
    · have := o8 _ _ _ h3 (this ec); rw [o7] at this; cases this
  have lkne : ∀ b, s.lk b = true → b ≠ n := fun b hb e => by rw [e, hn.2.2.1] at hb; cases hb
  apply sinv_build_keep h (t := t) (Y := .lRelPrev j p true)
  · rfl
  · exact ordP_insert h.ord _ _ _ hpos.1 hpos.2.1 hadj hp2 hn.2.2.1 hn.2.1 (by omega) (a12 j p n rfl)
  · constructor; intro b hb; have := h.fresh.fresh b hb
    have hne : b ≠ p.prev := by have := o5 _ hpos.1; dsimp only at hb; omega
    dsimp only; rw [upd_other _ _ _ _ hne]; exact this
  · exact h.elem
  · exact h.bit
  · intro a ha; have := hown a ha; projs; exact this
  · intro a t0 h0 ha; exact ha
  · have e1 : upd s.lk n true p.prev = true := by rw [upd_other _ _ _ _ (lkne _ hpos.1)]; exact hpos.1
    have e2 : upd s.lk n true p.cur = true := by rw [upd_other _ _ _ _ (lkne _ hpos.2.1)]; exact hpos.2.1
    have e3 : ltIns s.lt p.prev p.cur n p.prev p.cur = true := by
      rw [ltIns_old (lkne _ hpos.1) (lkne _ hpos.2.1)]; exact hpos.2.2
    have e4 : upd s.lk n true (s.itn t) = true := by rw [upd_other _ _ _ _ (lkne _ a16)]; exact a16
    constructor <;> intros <;> projs <;> (try dsimp only) <;> (try tfin)
  · intro t0 h0; exact TInv.frame_link h h0 n _ _ hpn hmo _
  · keep hpc
  · keep hpc

end CdsVerif.Algo.Iterable

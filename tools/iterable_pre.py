"""Pre-pass for tie A of IterableList + iterator (C19): translate the iter client's trace of variant `ilist_hp` into the
operation vocabulary of the Lean machine Algo/Iterable (`cdsdriver replay iterable`).

The client's single operation of thread 0, `iterate [pos…]`, is a loop over the thread-safe iterator; the client marks
its parts with notes `T 0 I <what>` (begin / endctor / ready / visit <id> / erase_at / erase_at_ret <r> / next / done).
They become the machine's operations
    iter_begin  -> RET 1 <id> | RET 0          (begin(): the element the iterator stands on, or end)
    iter_end    -> RET                         (construction of the end() iterator)
    erase_at    -> RET 1 | RET 0
    iter_next   -> RET 1 <id> | RET 0          (operator++)
    iter_release-> RET                         (destructor of the iterator: the guard is cleared)
A note `T <tid> D <id>` (the disposer ran on element <id>, inside a forced scan or at thread detach) becomes the
operation `dispose <id>` of that thread, which the machine enables only for a retired, unguarded element.  A scan runs
after the library call has returned but before the client logs `RET`: the `RET` line of the open operation is moved in
front of the first `D` note (it has no effect on shared state).
Loads of the iterator's own hazard slot (`ld it.hp`: `iter->`, `iter.data()`) are thread-local reads and are dropped.
Node names are renumbered in the order of the first store into the node (see `_renumber`).
Everything else (updater operations, atomic events) is passed through unchanged.
"""
import re
import vlib


_NODE = re.compile(r"^n(\d+)(\.data)?(\|1)?$")


def _renumber(lines):
    """The node allocator numbers nodes when `operator new` runs; the machine allocates a node in the step of the
    first store into it (the constructor's `next.store( null )`).  Two threads can be between these two points in
    opposite orders, so nodes are renamed (a bijection on names) in the order of their first store."""
    mapping = {}
    nxt = None
    for l in lines:
        if l.startswith("# family="):
            m = re.search(r"prefill=([0-9,]*)", l)
            pre = len([x for x in m.group(1).split(",") if x]) if m else 0
            nxt = 3 + pre
            for k in range(3, nxt):
                mapping[str(k)] = str(k)
            break
    if nxt is None:
        return lines
    for l in lines:
        w = l.split()
        if len(w) == 6 and w[0] == "T" and w[2] == "A" and w[3] == "st" and w[5] == "null":
            m = _NODE.match(w[4])
            if m and not m.group(2) and m.group(1) not in mapping:
                mapping[m.group(1)] = str(nxt)
                nxt += 1
    if all(k == v for k, v in mapping.items()):
        return lines

    def ren(tok):
        m = _NODE.match(tok)
        if m and m.group(1) in mapping:
            return "n" + mapping[m.group(1)] + (m.group(2) or "") + (m.group(3) or "")
        return tok
    out = []
    for l in lines:
        w = l.split()
        if len(w) >= 5 and w[0] == "T" and w[2] == "A":
            out.append(" ".join(w[:4] + [ren(x) for x in w[4:]]))
        else:
            out.append(l)
    return out


def _pre_block(block):
    lines = _renumber(block.split("\n"))
    n = len(lines)
    words = [l.split() for l in lines]

    def is_t(w, kind):
        return len(w) >= 3 and w[0] == "T" and w[2] == kind

    # look-ahead helpers
    def next_iter_result(i):
        """result of the iterator step that ends at the next `I visit` / `I done` note of thread 0 after line i"""
        for j in range(i + 1, n):
            w = words[j]
            if is_t(w, "I") and w[1] == "0":
                if w[3] == "visit":
                    return "1 " + w[4]
                if w[3] == "done":
                    return "0"
        return None

    def next_ret(i, tid):
        for j in range(i + 1, n):
            w = words[j]
            if is_t(w, "RET") and w[1] == tid:
                return j
            if is_t(w, "CALL") and w[1] == tid:
                return None
        return None

    out = []
    consumed = set()
    open_op = {}          # tid -> True while a CALL without RET has been emitted
    pending_next = False  # thread 0: iter_next emitted, result not yet known
    in_iterate = False
    for i, l in enumerate(lines):
        w = words[i]
        if i in consumed:
            continue
        if is_t(w, "CALL"):
            if w[1] == "0" and w[3] == "iterate":
                in_iterate = True
                continue
            open_op[w[1]] = True
            out.append(l)
        elif is_t(w, "RET"):
            if w[1] == "0" and in_iterate:
                in_iterate = False
                if open_op.get("0"):
                    out.append("T 0 RET")           # iter_release (or whatever was left open by a runaway break)
                    open_op["0"] = False
                continue
            open_op[w[1]] = False
            out.append(l)
        elif is_t(w, "I") and w[1] == "0":
            what = w[3]
            if what == "begin":
                out.append("T 0 CALL iter_begin")
                open_op["0"] = True
            elif what == "endctor":
                r = next_iter_result(i)
                if r is None:
                    out.append(l)
                    continue
                out.append("T 0 RET " + r)
                out.append("T 0 CALL iter_end")
            elif what == "ready":
                out.append("T 0 RET")
                open_op["0"] = False
            elif what == "visit":
                if pending_next:
                    out.append("T 0 RET 1 " + w[4])
                    open_op["0"] = False
                    pending_next = False
            elif what == "erase_at":
                out.append("T 0 CALL erase_at")
                open_op["0"] = True
            elif what == "erase_at_ret":
                out.append("T 0 RET " + w[4])
                open_op["0"] = False
            elif what == "next":
                out.append("T 0 CALL iter_next")
                open_op["0"] = True
                pending_next = True
            elif what == "done":
                if pending_next:
                    out.append("T 0 RET 0")
                    pending_next = False
                out.append("T 0 CALL iter_release")
                open_op["0"] = True
        elif is_t(w, "D"):
            tid = w[1]
            if tid.startswith("-"):
                continue                            # main thread (teardown): outside the run
            if open_op.get(tid):
                j = next_ret(i, tid)
                if j is not None:
                    if tid == "0" and in_iterate:
                        out.append("T 0 RET")
                        in_iterate = False
                    else:
                        out.append(lines[j])
                    consumed.add(j)
                    open_op[tid] = False
            out.append("T %s CALL dispose %s" % (tid, w[3]))
            out.append("T %s RET" % tid)
        elif is_t(w, "A") and len(w) >= 5 and w[4] == "it.hp" and (w[3] == "ld" or w[1] != "0"):
            # thread 0's reads of its own slot; and: names are resolved when the trace is rendered, so a slot of a
            # thread record that an updater used BEFORE thread 0 attached to it carries the name as well
            continue
        else:
            out.append(l)
    return "\n".join(out)


def iterable_pre(text):
    out = []
    for cid, block in vlib.split_cases(text):
        if "variant=ilist_hp" in block:
            out.append(_pre_block(block))
        else:
            out.append(block)
    return "\n".join(out) + "\n"


if __name__ == "__main__":
    import sys
    sys.stdout.write(iterable_pre(sys.stdin.read()))

/-
  The steps of `find_position` / `renew_insert_position` / `help_remove` that only load.
-/
import CdsVerif.Algo.SkipList.StepBase
namespace CdsVerif.Algo.SkipList
open CdsVerif.Machine CdsVerif.Spec CdsVerif.Lin
open CdsVerif.Algo.Michael (Chain Lt LPok isRO insAfter Has)

theorem eff_same {mk : Nat → Bool} {key val : Nat → Int} {H : Int → Int → Prop} {pc pc' : PC}
    (h1 : opOf key val pc' = opOf key val pc) (h2 : postRet val pc' = postRet val pc)
    (h3 : lpRet mk key val pc' = lpRet mk key val pc) (hb : pc ≠ .idle ∧ pc' ≠ .idle) : EffOk mk key val H pc pc' := by
  refine ⟨?_, ?_, ?_, fun _ => h1, hb⟩
  · intro h r hr; rw [h3, h] at hr; simp at hr
  · intro r hr; rw [h3]; exact Or.inl hr
  · intro r hr; rw [h2]; exact hr

theorem tok_levelDone {c : Cfg} (hc : 0 < c.maxH) {m : Mem} {L : List Nat} (hg : GOk m L) {w : Why} {lvl pred : Nat}
    {cur : Option Nat} {nc : Bool} {pp : List Nat} {ps : List (Option Nat)}
    (hw : WOk m L w) (hl : ListsOk c m L pp ps) (hp : PredOk m L (wkey m.key w) pred)
    (hcur : ∀ x, cur = some x → CurOk m L lvl x)
    (hk : ∀ x, cur = some x → lvl = 0 → (nc = true → m.key x = wkey m.key w) ∧ (nc = false → wkey m.key w < m.key x)) :
    TOk c m L (levelDone m.val m.ht w lvl pred cur nc pp ps) := by
  have hl' := hl.set (lvl := lvl) hp.lk hcur
  unfold levelDone
  split
  next h0 =>
    subst h0
    have hpp : (pp.set 0 pred).getD 0 0 = pred := getD_set_same _ _ _ _ (by rw [hl.1]; exact hc)
    have hps : (ps.set 0 cur).getD 0 none = cur := getD_set_same _ _ _ _ (by rw [hl.2.1]; exact hc)
    have hpos := hg.hpos
    cases w <;> simp only [finish, WOk, wkey] at hw hp ⊢
    case insS n =>
      split
      · simp [TOk]
      next hn =>
        have hip : InsPos m n (pp.set 0 pred) (ps.set 0 cur) := by
          refine ⟨?_, ?_⟩
          · rw [hpp]
            rcases hp with e | e
            · exact Or.inl e
            · exact Or.inr e.2
          · intro x hx; rw [hps] at hx
            have := hk x hx rfl
            cases nc with
            | true => simp [hx] at hn
            | false => exact this.2 rfl
        unfold startLink; split <;> simp only [TOk]
        · exact ⟨hw, hl', hip, Nat.le_refl _⟩
        · exact ⟨hw, hl', hip⟩
    case eraS k =>
      cases cur with
      | none => simp [TOk]
      | some d =>
        dsimp only
        split
        next hn =>
          have hd := hcur d rfl
          have hkd := (hk d rfl rfl).1 hn
          unfold startRemove; split <;> simp only [TOk]
          · refine ⟨hl', ⟨hd.1, hd.2.1⟩, hkd, by omega, by have := hpos d; omega, ?_⟩
            intro l h1 h2; omega
          · refine ⟨hl', ⟨hd.1, hd.2.1⟩, hkd, ?_⟩
            intro l h1 h2; omega
        · simp [TOk]
    case fndS k => cases cur <;> dsimp only <;> (try split) <;> simp [TOk]
    case conS k => split <;> simp [TOk]
    case insFix n => simp [TOk]
    case eraFix k v => simp [TOk]
    case renew n l p => split <;> simp only [TOk] <;> first | exact ⟨hw.1, hl', hw.2.1, hw.2.2⟩ | exact ⟨hw.1, hl'⟩
  next h0 =>
    simp only [TOk]; exact ⟨hw, hl', hp⟩


section eff
variable {mk : Nat → Bool} {key val : Nat → Int} {H : Int → Int → Prop}

/-- The step is a definitive linearization point and the operation is over. -/
theorem eff_done {pc : PC} {op : GOp} {r : GRet} (hop : opOf key val pc = some op) (hl : lpRet mk key val pc = none)
    (hLP : LPok H op r H) : EffOk mk key val H pc (.done r) := by
  have hne : pc ≠ .idle := by intro e; rw [e] at hop; simp [opOf] at hop
  refine ⟨?_, ?_, ?_, ?_, hne, by simp⟩
  · intro _ r' hr'; simp only [lpRet, Option.some.injEq] at hr'; subst hr'; exact ⟨op, hop, hLP⟩
  · intro r' hr'; rw [hl] at hr'; simp at hr'
  · intro r' hr'; rw [postRet_none_of_lp hl] at hr'; simp at hr'
  · intro h; simp [postRet] at h

/-- Before and after the step the operation is past its definitive linearization point, with the same result. -/
theorem eff_post {pc pc' : PC} {r : GRet} (h2 : postRet val pc = some r) (h2' : postRet val pc' = some r)
    (hne : pc ≠ .idle ∧ pc' ≠ .idle) : EffOk mk key val H pc pc' := by
  refine ⟨?_, ?_, ?_, ?_, hne⟩
  · intro h; rw [lpRet_of_post h2] at h; simp at h
  · intro r' hr'; rw [lpRet_of_post h2] at hr'; simp at hr'; subst hr'; exact Or.inl (lpRet_of_post h2')
  · intro r' hr'; rw [h2] at hr'; simp at hr'; subst hr'; exact h2'
  · intro h; rw [h2'] at h; simp at h

/-- Nothing is fixed before or after the step. -/
theorem eff_pre {pc pc' : PC} (h1 : opOf key val pc' = opOf key val pc) (hl : lpRet mk key val pc = none)
    (hl' : lpRet mk key val pc' = none) (hne : pc ≠ .idle ∧ pc' ≠ .idle) : EffOk mk key val H pc pc' :=
  eff_same h1 (by rw [postRet_none_of_lp hl, postRet_none_of_lp hl']) (by rw [hl, hl']) hne

/-- Into `try_remove_at`: if the victim is marked already, the erase has lost. -/
theorem eff_remove {pc : PC} {ht : Nat → Nat} {k : Int} {d : Nat} {pp : List Nat} {ps : List (Option Nat)}
    (hop : opOf key val pc = some ⟨"erase", [k]⟩) (hl : lpRet mk key val pc = none)
    (hLP : mk d = true → LPok H ⟨"erase", [k]⟩ [0] H) : EffOk mk key val H pc (startRemove ht k d pp ps) := by
  have hne : pc ≠ .idle := by intro e; rw [e] at hop; simp [opOf] at hop
  unfold startRemove
  split
  · refine ⟨fun _ r hr => ?_, fun r hr => ?_, fun r hr => ?_, fun _ => by rw [hop]; rfl, hne, by simp⟩
    · have hr' : (if mk d = true then some [0] else none) = some r := hr
      split at hr' <;> simp at hr'; subst hr'; exact ⟨_, hop, hLP (by assumption)⟩
    · rw [hl] at hr; simp at hr
    · rw [postRet_none_of_lp hl] at hr; simp at hr
  · refine ⟨fun _ r hr => ?_, fun r hr => ?_, fun r hr => ?_, fun _ => by rw [hop]; rfl, hne, by simp⟩
    · have hr' : (if mk d = true then some [0] else none) = some r := hr
      split at hr' <;> simp at hr'; subst hr'; exact ⟨_, hop, hLP (by assumption)⟩
    · rw [hl] at hr; simp at hr
    · rw [postRet_none_of_lp hl] at hr; simp at hr

theorem eff_levelDone {pc : PC} {ht : Nat → Nat} {w : Why} {lvl pred : Nat} {cur : Option Nat} {nc : Bool} {pp : List Nat}
    {ps : List (Option Nat)}
    (h1 : opOf key val pc = wop key val w) (h2 : postRet val pc = wpost w) (h3 : lpRet mk key val pc = wpost w)
    (hne : pc ≠ .idle)
    (hstop : ∀ x, cur = some x → nc = true → wstop w = false)
    (habs : lvl = 0 → (cur = none ∨ nc = false) → (∀ n, w ≠ .insS n) → ∀ v, ¬ H (wkey key w) v)
    (hmk : ∀ x, cur = some x → lvl = 0 → nc = true → mk x = true → ∀ v, ¬ H (wkey key w) v) :
    EffOk mk key val H pc (levelDone val ht w lvl pred cur nc pp ps) := by
  unfold levelDone
  split
  next h0 =>
    cases w <;> simp only [finish, wop, wpost, wkey, wstop] at h1 h2 h3 hstop habs hmk ⊢
    case insS n =>
      split
      next hc =>
        cases cur with
        | none => simp at hc
        | some x => simp at hc; have := hstop x rfl hc; simp at this
      next =>
        unfold startLink
        split <;> exact eff_pre (by rw [h1]; rfl) h3 rfl ⟨hne, by simp⟩
    case eraS k =>
      cases cur with
      | none => exact eff_done h1 h3 (lp_absent_e (habs h0 (Or.inl rfl) (by simp)))
      | some d =>
        dsimp only
        split
        next hn => exact eff_remove h1 h3 (fun hm => lp_absent_e (hmk d rfl h0 hn hm))
        next hn => exact eff_done h1 h3 (lp_absent_e (habs h0 (Or.inr (by simpa using hn)) (by simp)))
    case fndS k =>
      have hl := fun h => LPok.ro_none (H := H) (H' := H) (op := ⟨"find", [k]⟩) (k := k) h (fun _ _ => Iff.rfl)
        (Or.inr (Or.inl rfl))
      cases cur with
      | none => exact eff_done h1 h3 (hl (habs h0 (Or.inl rfl) (by simp)))
      | some d =>
        dsimp only
        split
        next hn => have := hstop d rfl hn; simp at this
        next hn => exact eff_done h1 h3 (hl (habs h0 (Or.inr (by simpa using hn)) (by simp)))
    case conS k =>
      have hl := fun h => LPok.ro_none (H := H) (H' := H) (op := ⟨"contains", [k]⟩) (k := k) h (fun _ _ => Iff.rfl)
        (Or.inr (Or.inr rfl))
      split
      next hc =>
        cases cur with
        | none => simp at hc
        | some x => simp at hc; have := hstop x rfl hc; simp at this
      next hc =>
        refine eff_done h1 h3 (hl (habs h0 ?_ (by simp)))
        cases cur with
        | none => exact Or.inl rfl
        | some x => simp at hc; exact Or.inr hc
    case insFix n => exact eff_post h2 rfl ⟨hne, by simp⟩
    case eraFix k v => exact eff_post h2 rfl ⟨hne, by simp⟩
    case renew n l p => split <;> exact eff_post h2 rfl ⟨hne, by simp⟩
  next h0 =>
    exact eff_same (by rw [h1]; rfl) (by rw [h2]; rfl) (by rw [h3]; rfl) ⟨hne, by simp⟩

end eff

theorem lpRet_fChk_of_not {mk : Nat → Bool} {key val : Nat → Int} {w : Why} {lvl pred cur : Nat} {sx : Option Nat}
    {sm nc : Bool} {pp : List Nat} {ps : List (Option Nat)} (h : ¬ (sm = false ∧ key cur = wkey key w ∧ wstop w = true)) :
    lpRet mk key val (.fChk w lvl pred cur sx sm nc pp ps) = wpost w := by
  simp only [lpRet, h, if_false]

theorem wpost_none_of_stop {w : Why} (h : wstop w = true) : wpost w = none := by
  cases w <;> simp_all [wstop, wpost]

theorem pnode_levelDone {val : Nat → Int} {ht : Nat → Nat} {w : Why} {lvl pred : Nat} {cur : Option Nat} {nc : Bool}
    {pp : List Nat} {ps : List (Option Nat)} {n : Nat}
    (hn : pnode (levelDone val ht w lvl pred cur nc pp ps) = some n) : wnode w = some n := by
  unfold levelDone at hn
  split at hn
  · cases w <;> simp only [finish, startLink, startRemove] at hn <;> (repeat' split at hn) <;>
      simp_all [pnode, wnode]
  · exact hn

theorem pnode_finish_true {val : Nat → Int} {ht : Nat → Nat} {w : Why} {cur : Nat} {pp : List Nat} {ps : List (Option Nat)}
    {n : Nat} (hst : wstop w = true) (hn : pnode (finish val ht w true (some cur) pp ps) = some n) : wnode w = some n := by
  cases w <;> simp_all [finish, wstop, pnode]

section steps
variable {c : Cfg} {s s' : St} {t : Tid} {ev : Ev} {L : List Nat}

theorem sinvl_step_fLd1 {w : Why} {lvl pred : Nat} {nc : Bool} {pp : List Nat} {ps : List (Option Nat)}
    (h : SInvL c s L) (hpc : s.pc t = .fLd1 w lvl pred nc pp ps) (hs : step c s t = some (s', ev)) :
    ∃ L', SInvL c s' L' ∧ StepEff s t s' L L' := by
  have ht := h.thr t; rw [hpc] at ht; simp only [TOk] at ht
  simp only [step, hpc, Option.some.injEq, Prod.mk.injEq] at hs; obtain ⟨rfl, -⟩ := hs
  refine ⟨L, pc_only s.unl s.hgt h ?_ ?_ ?_⟩
  · simp only [TOk]; exact ht
  · intro n hn; rw [hpc]; exact hn
  · rw [hpc]; exact eff_same rfl rfl rfl ⟨by simp, by simp⟩

theorem sinvl_step_fLd2 (hc : 0 < c.maxH) {w : Why} {lvl pred : Nat} {nc : Bool} {pp : List Nat} {ps : List (Option Nat)}
    {x : Option Nat} {m : Bool}
    (h : SInvL c s L) (hpc : s.pc t = .fLd2 w lvl pred nc pp ps x m) (hs : step c s t = some (s', ev)) :
    ∃ L', SInvL c s' L' ∧ StepEff s t s' L L' := by
  have ht := h.thr t; rw [hpc] at ht; simp only [TOk] at ht
  obtain ⟨hw, hl, hp⟩ := ht
  simp only [step, hpc] at hs
  split at hs
  next hv =>
    simp only [Option.some.injEq, Prod.mk.injEq] at hs; obtain ⟨rfl, -⟩ := hs
    refine ⟨L, pc_only s.unl s.hgt h ?_ ?_ ?_⟩
    · unfold afterLd2
      split
      · exact tok_retry hw hl
      · split
        · exact tok_levelDone hc h.g hw hl hp (by simp) (by simp)
        next cur =>
          simp only [TOk]
          exact ⟨hw, hl, hp, h.g.ptr pred lvl cur hv.1⟩
    · intro n hn; rw [hpc]
      unfold afterLd2 at hn
      split at hn
      · exact hn
      · split at hn
        · exact pnode_levelDone hn
        · exact hn
    · rw [hpc]
      unfold afterLd2
      split
      · exact eff_same rfl rfl rfl ⟨by simp, by simp [retry]⟩
      next hm =>
        split
        · refine eff_levelDone rfl rfl rfl (by simp) (by simp) ?_ (by simp)
          intro h0 _ _
          subst h0
          have hm' : s.mark pred 0 = false := by rw [hv.2]; simpa using hm
          have hpL := h.g.unm_mem hp.lk hm'
          refine h.g.absent hpL ?_ ?_
          · rcases hp with e | e
            · exact Or.inl e
            · exact Or.inr e.2
          · intro c' hc'; have hc2 : s.next pred 0 = some c' := hc'; rw [hv.1] at hc2; simp at hc2
        · exact eff_same rfl rfl rfl ⟨by simp, by simp⟩
  next hv =>
    simp only [Option.some.injEq, Prod.mk.injEq] at hs; obtain ⟨rfl, -⟩ := hs
    refine ⟨L, pc_only s.unl s.hgt h ?_ ?_ ?_⟩
    · simp only [TOk]; exact ⟨hw, hl, hp⟩
    · intro n hn; rw [hpc]; exact hn
    · rw [hpc]; exact eff_same rfl rfl rfl ⟨by simp, by simp⟩

theorem sinvl_step_fSucc {w : Why} {lvl pred cur : Nat} {nc : Bool} {pp : List Nat} {ps : List (Option Nat)}
    (h : SInvL c s L) (hpc : s.pc t = .fSucc w lvl pred cur nc pp ps) (hs : step c s t = some (s', ev)) :
    ∃ L', SInvL c s' L' ∧ StepEff s t s' L L' := by
  have ht := h.thr t; rw [hpc] at ht; simp only [TOk] at ht
  obtain ⟨hw, hl, hp, hcu⟩ := ht
  simp only [step, hpc, Option.some.injEq, Prod.mk.injEq] at hs; obtain ⟨rfl, -⟩ := hs
  refine ⟨L, pc_only s.unl s.hgt h ?_ ?_ ?_⟩
  · simp only [TOk]; exact ⟨hw, hl, hp, hcu⟩
  · intro n hn; rw [hpc]; exact hn
  · rw [hpc]
    refine ⟨?_, ?_, fun r hr => hr, fun _ => rfl, by simp, by simp⟩
    · intro h0 r hr
      have h0' : wpost w = none := h0
      simp only [lpRet] at hr
      split at hr
      next hcond =>
        have hm0 : s.mark cur 0 = false := h.g.unmarked0 (a := cur) (l := lvl) hcu.2.2 hcond.1
        have hhas := h.g.has_of_unmarked (a := cur) ⟨hcu.1, hcu.2.1⟩ hm0
        have hk : s.key cur = wkey s.key w := hcond.2.1
        exact lp_present_w hr (by rw [← hk]; exact hhas)
      next => rw [h0'] at hr; simp at hr
    · intro r hr
      have hr' : wpost w = some r := hr
      left
      simp only [lpRet]
      split
      next hcond => rw [wpost_none_of_stop hcond.2.2] at hr'; simp at hr'
      next => exact hr'

theorem sinvl_step_fChk (hc : 0 < c.maxH) {w : Why} {lvl pred cur : Nat} {sx : Option Nat} {sm nc : Bool} {pp : List Nat}
    {ps : List (Option Nat)}
    (h : SInvL c s L) (hpc : s.pc t = .fChk w lvl pred cur sx sm nc pp ps) (hs : step c s t = some (s', ev)) :
    ∃ L', SInvL c s' L' ∧ StepEff s t s' L L' := by
  have ht := h.thr t; rw [hpc] at ht; simp only [TOk] at ht
  obtain ⟨hw, hl, hp, hcu⟩ := ht
  simp only [step, hpc] at hs
  split at hs
  next hv =>
    simp only [Option.some.injEq, Prod.mk.injEq] at hs; obtain ⟨rfl, -⟩ := hs
    refine ⟨L, pc_only s.unl s.hgt h ?_ ?_ ?_⟩
    · -- the per-thread invariant of the successor
      unfold afterChk
      split
      · cases w <;> dsimp only <;> (try split) <;> simp only [TOk] <;>
          first | exact ⟨hw, hl, hp, hcu⟩ | exact ⟨hw.1, hl⟩
      · split
        next hlt => simp only [TOk]; exact ⟨hw, hl, Or.inr ⟨hcu.2.1, hlt⟩⟩
        · split
          next heq => cases w <;> simp_all [finish, wstop, TOk]
          next hne =>
            refine tok_levelDone hc h.g hw hl hp (fun x hx => by simp at hx; subst hx; exact hcu) ?_
            intro x hx _
            simp only [Option.some.injEq] at hx; subst hx
            refine ⟨fun e => by simpa using e, fun e => ?_⟩
            have e' : ¬ s.key cur = wkey s.key w := by simpa using e
            have : ¬ s.key cur < wkey s.key w := by assumption
            show wkey s.key w < s.key cur
            omega
    · intro n hn; rw [hpc]; simp only [pnode]
      unfold afterChk at hn
      split at hn
      · cases w <;> dsimp only at hn <;> (try split at hn) <;> simp_all [pnode]
      · split at hn
        · exact hn
        · split at hn
          next heq => exact pnode_finish_true heq.2 hn
          · exact pnode_levelDone hn
    · rw [hpc]
      unfold afterChk
      split
      next hsm =>
        have hl0 : lpRet (mk0 s.mark) s.key s.val (.fChk w lvl pred cur sx sm nc pp ps) = wpost w :=
          lpRet_fChk_of_not (by simp [hsm])
        cases w <;> dsimp only <;> (try split) <;>
          first
          | exact eff_same rfl rfl (by rw [hl0]; rfl) ⟨by simp, by simp⟩
          | exact eff_post (r := [1]) rfl rfl ⟨by simp, by simp⟩
      next hsm =>
        split
        next hlt =>
          have hl0 : lpRet (mk0 s.mark) s.key s.val (.fChk w lvl pred cur sx sm nc pp ps) = wpost w :=
            lpRet_fChk_of_not (by intro hx; have := hx.2.1; omega)
          exact eff_same rfl rfl (by rw [hl0]; rfl) ⟨by simp, by simp⟩
        next hlt =>
          split
          next heq =>
            -- the tentative linearization is confirmed
            have hsm' : sm = false := by simpa using hsm
            have hl0 : lpRet (mk0 s.mark) s.key s.val (.fChk w lvl pred cur sx sm nc pp ps) = wfound s.val w cur := by
              simp only [lpRet, hsm', heq.1, heq.2, and_self, if_true]
            have hfin : ∃ r, finish s.val s.ht w true (some cur) pp ps = .done r ∧ wfound s.val w cur = some r := by
              cases w <;> simp_all [finish, wstop, wfound]
            obtain ⟨r, hf1, hf2⟩ := hfin
            rw [hf1]
            refine ⟨?_, ?_, ?_, by simp [postRet], by simp, by simp⟩
            · intro h0; rw [hl0, hf2] at h0; simp at h0
            · intro r' hr'; rw [hl0, hf2] at hr'; left; simpa [lpRet] using hr'
            · intro r' hr'
              have : wpost w = some r' := hr'
              rw [wpost_none_of_stop heq.2] at this; simp at this
          next hne =>
            have hl0 : lpRet (mk0 s.mark) s.key s.val (.fChk w lvl pred cur sx sm nc pp ps) = wpost w :=
              lpRet_fChk_of_not (by intro hx; exact hne ⟨hx.2.1, hx.2.2⟩)
            have hkgt : ¬ s.key cur = wkey s.key w → wkey s.key w < s.key cur := by intro e; omega
            refine eff_levelDone rfl rfl hl0 (by simp) ?_ ?_ ?_
            · intro x _ hnc
              have : s.key cur = wkey s.key w := by simpa using hnc
              cases hst : wstop w with
              | false => rfl
              | true => exact absurd ⟨this, hst⟩ hne
            · intro h0 hor hins
              subst h0
              have hnc : ¬ s.key cur = wkey s.key w := by
                rcases hor with e | e
                · simp at e
                · simpa using e
              have hpL := h.g.unm_mem hp.lk hv.2
              refine h.g.absent hpL ?_ ?_
              · rcases hp with e | e
                · exact Or.inl e
                · exact Or.inr e.2
              · intro c' hc'
                have hc2 : s.next pred 0 = some c' := hc'
                rw [hv.1] at hc2; simp only [Option.some.injEq] at hc2; subst hc2
                exact hkgt hnc
            · intro x hx h0 hnc hmk v
              simp only [Option.some.injEq] at hx; subst hx; subst h0
              have hk : s.key cur = wkey s.key w := by simpa using hnc
              have hpL := h.g.unm_mem hp.lk hv.2
              have hcL := (h.g.next_mem hpL hv.1).2
              rw [← hk]
              exact h.g.absent_marked hcL hcu.1 hmk v
  next hv =>
    simp only [Option.some.injEq, Prod.mk.injEq] at hs; obtain ⟨rfl, -⟩ := hs
    refine ⟨L, pc_only s.unl s.hgt h (tok_retry hw hl) ?_ ?_⟩
    · intro n hn; rw [hpc]; exact hn
    · rw [hpc]
      refine ⟨?_, ?_, fun r hr => hr, fun _ => rfl, by simp, by simp [retry]⟩
      · intro h0 r hr
        have hr' : wpost w = some r := hr
        have := postRet_none_of_lp h0
        have h2 : wpost w = none := this
        rw [h2] at hr'; simp at hr'
      · intro r hr
        simp only [lpRet] at hr
        split at hr
        next hcond =>
          -- the tentative linearization is withdrawn
          right
          refine ⟨?_, ?_⟩
          · exact ro_of_tentative (mk := mk0 s.mark) (pc := .fChk w lvl pred cur sx sm nc pp ps)
              (by simp only [lpRet, hcond, and_self, if_true]; exact hr) (wpost_none_of_stop hcond.2.2)
          · exact wpost_none_of_stop hcond.2.2
        next => left; exact hr

theorem sinvl_step_hUnl {w : Why} {lvl pred cur : Nat} {pp : List Nat} {ps : List (Option Nat)}
    (h : SInvL c s L) (hpc : s.pc t = .hUnl w lvl pred cur pp ps) (hs : step c s t = some (s', ev)) :
    ∃ L', SInvL c s' L' ∧ StepEff s t s' L L' := by
  have ht := h.thr t; rw [hpc] at ht; simp only [TOk] at ht
  obtain ⟨hw, hl, hp, hcu⟩ := ht
  simp only [step, hpc, Option.some.injEq, Prod.mk.injEq] at hs; obtain ⟨rfl, -⟩ := hs
  refine ⟨L, pc_only s.unl s.hgt h ?_ ?_ ?_⟩
  · split
    · simp only [TOk]; exact ⟨hw, hl, hp, hcu⟩
    · exact tok_retry hw hl
  · intro n hn; rw [hpc]; split at hn <;> exact hn
  · rw [hpc]; split <;> exact eff_same rfl rfl rfl ⟨by simp, by simp [retry]⟩

theorem sinvl_step_hLd1 {w : Why} {lvl pred cur : Nat} {pp : List Nat} {ps : List (Option Nat)}
    (h : SInvL c s L) (hpc : s.pc t = .hLd1 w lvl pred cur pp ps) (hs : step c s t = some (s', ev)) :
    ∃ L', SInvL c s' L' ∧ StepEff s t s' L L' := by
  have ht := h.thr t; rw [hpc] at ht; simp only [TOk] at ht
  simp only [step, hpc, Option.some.injEq, Prod.mk.injEq] at hs; obtain ⟨rfl, -⟩ := hs
  refine ⟨L, pc_only s.unl s.hgt h ?_ ?_ ?_⟩
  · simp only [TOk]; exact ht
  · intro n hn; rw [hpc]; exact hn
  · rw [hpc]; exact eff_same rfl rfl rfl ⟨by simp, by simp⟩

theorem sinvl_step_hLd2 {w : Why} {lvl pred cur : Nat} {pp : List Nat} {ps : List (Option Nat)} {x : Option Nat} {m : Bool}
    (h : SInvL c s L) (hpc : s.pc t = .hLd2 w lvl pred cur pp ps x m) (hs : step c s t = some (s', ev)) :
    ∃ L', SInvL c s' L' ∧ StepEff s t s' L L' := by
  have ht := h.thr t; rw [hpc] at ht; simp only [TOk] at ht
  obtain ⟨hw, hl, hp, hcu⟩ := ht
  simp only [step, hpc] at hs
  split at hs
  next hv =>
    simp only [Option.some.injEq, Prod.mk.injEq] at hs; obtain ⟨rfl, -⟩ := hs
    refine ⟨L, pc_only s.unl s.hgt h ?_ ?_ ?_⟩
    · split
      next hm => simp only [TOk]; exact ⟨hw, hl, hp, hcu, by rw [hv.2]; exact hm, hv.1⟩
      · exact tok_retry hw hl
    · intro n hn; rw [hpc]; split at hn <;> exact hn
    · rw [hpc]; split <;> exact eff_same rfl rfl rfl ⟨by simp, by simp [retry]⟩
  next hv =>
    simp only [Option.some.injEq, Prod.mk.injEq] at hs; obtain ⟨rfl, -⟩ := hs
    refine ⟨L, pc_only s.unl s.hgt h ?_ ?_ ?_⟩
    · simp only [TOk]; exact ⟨hw, hl, hp, hcu⟩
    · intro n hn; rw [hpc]; exact hn
    · rw [hpc]; exact eff_same rfl rfl rfl ⟨by simp, by simp⟩

theorem sinvl_step_hSub {w : Why} {cur : Nat} {pp : List Nat} {ps : List (Option Nat)}
    (h : SInvL c s L) (hpc : s.pc t = .hSub w cur pp ps) (hs : step c s t = some (s', ev)) :
    ∃ L', SInvL c s' L' ∧ StepEff s t s' L L' := by
  have ht := h.thr t; rw [hpc] at ht; simp only [TOk] at ht
  simp only [step, hpc, Option.some.injEq, Prod.mk.injEq] at hs; obtain ⟨rfl, -⟩ := hs
  refine ⟨L, pc_only _ s.hgt h (tok_retry ht.1 ht.2) ?_ ?_⟩
  · intro n hn; rw [hpc]; exact hn
  · rw [hpc]; exact eff_same rfl rfl rfl ⟨by simp, by simp [retry]⟩

end steps

end CdsVerif.Algo.SkipList

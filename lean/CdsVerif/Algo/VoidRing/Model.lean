/-
  Atomic-step model of `cds::container::WeakRingBuffer<void>` (cds/container/weak_ringbuffer.h, second
  half): variable-size byte records, single producer (thread 0) / single consumer (thread 1).

    back( size ):   real_size = calc_real_size( size );             // 8-byte header + payload rounded up to 8
                    back = back_.load( relaxed );
                    if ( pfront_ + capacity() - back < real_size ) {
                        pfront_ = front_.load( acquire );
                        if ( pfront_ + capacity() - back < real_size ) return nullptr;
                    }
                    reserved = buffer + mod( back );  tail_size = capacity() - mod( back );
                    if ( tail_size < real_size ) {
                        *reserved = make_tail( tail_size - 8 );      // plain write
                        back += tail_size;
                        if ( pfront_ + capacity() - back < real_size ) {
                            pfront_ = front_.load( acquire );
                            if ( pfront_ + capacity() - back < real_size ) return nullptr;
                        }
                        back_.store( back, release );                // publishes the tail marker
                        reserved = buffer;
                    }
                    *reserved = size;  return reserved + 8;          // plain write; the client copies its bytes
    push_back():    back = back_.load( relaxed );
                    real_size = calc_real_size( *(buffer + mod( back )) );
                    back_.store( back + real_size, release );
    front():        front = front_.load( relaxed );
                    if ( cback_ - front < 8 ) { cback_ = back_.load( acquire ); if ( cback_ - front < 8 ) return null; }
                    size = *(buffer + mod( front ));                 // plain read
                    if ( is_tail( size )) {
                        pop_front();                                  // CDS_VERIFY: result ignored in release
                        front = front_.load( relaxed );
                        if ( cback_ - front < 8 ) { cback_ = back_.load( acquire ); if ( cback_ - front < 8 ) return null; }
                        size = *(buffer + mod( front ));
                    }
                    return ( buffer + mod( front ) + 8, size );
    pop_front():    front = front_.load( relaxed );
                    if ( cback_ - front < 8 ) { cback_ = back_.load( acquire ); if ( cback_ - front < 8 ) return false; }
                    real_size = calc_real_size( untail( *(buffer + mod( front )) ));
                    front_.store( front + real_size, release ); return true;
    empty():        return front_.load( relaxed ) == back_.load( relaxed );
    size():         return back_.load( relaxed ) - front_.load( relaxed );
  (`_DEBUG` blocks are not compiled.  The order of the two loads of empty() / size() is unspecified in C++; the
  model has the order of the harness build, which the trace tie checks: empty() loads `front_` first, size() loads
  `back_` first.  The bounds proved for them do not depend on it.)  `mod` is `% capacity()`; with the `Exp2` buffer trait the capacity
  is a power of two and `mod` is `& (capacity() - 1)`, the same function (`Nat.and_two_pow_sub_one_eq_mod`).

  One `step` of a thread is ONE atomic operation on `front_` / `back_` followed by the plain (non-atomic)
  work of the same thread up to its next atomic operation: the caches `pfront_` / `cback_`, the local
  variables, and the accesses to the byte buffer.  The buffer is plain memory shared by the two threads;
  where exactly between two atomic operations a plain access is placed is immaterial because the model is
  shown race free (`Inv.lean`): no step of the producer writes a cell of the live region `[front_, back_)`,
  the live region shrinks only by the consumer's own `front_.store`, the consumer reads only live cells,
  and the free region the producer was granted shrinks only by the producer's own `back_.store`.

  Buffer cells are indexed by BYTE offset.  A header word occupies the cell at its (8-aligned) offset:
  `.size n` for a record of `n` payload bytes, `.tail m` for `make_tail( m )`.  The client's `memcpy` of a
  record with payload id `id` writes `.pay id k` into the cell of the k-th payload byte (the harness client
  fills byte k of record id with `pattern( id, k )`): a record is delivered byte-exact iff the consumer
  finds `.pay id k` in all `size` cells behind the header (`payId`).

  Counters are `Nat` (the 64-bit counters do not wrap in any feasible run); every truncated subtraction
  below is exact by the invariant (`back ≤ pfront_ + cap` also for the advanced local `back`, `front ≤ cback_`).

  Client operations (wire form after the pre-pass tools/voidring_pre.py of the harness client `ringbuf.cpp`,
  variants void_*):
    thread 0:  push sz id    back( sz ), copy of the payload `id`, push_back()          → [1] | [0]
               (`push_back( data, sz )` performs exactly the same operations)
    thread 1:  pop           front(), read of the record, pop_front()                   → [1, sz, id] | [0]
               front         front() and read of the record only                        → [1, sz, id] | [0]
    both:      size          size()                                                      → [n]
               empty         empty()                                                     → [1] | [0]
  Preconditions of `back( size )` (assertions of the library): `0 < size`, `calc_real_size( size ) < capacity()`;
  an invocation violating them is not enabled.
  Ghost state: `pushed` = records published, `popped` = records delivered and released by `pop_front()`,
               `live` = the segments (records and tail markers) published and not yet released.
-/
import CdsVerif.Base.Machine
namespace CdsVerif.Algo.VoidRing
open CdsVerif.Machine CdsVerif.Spec

inductive Cell
  | junk
  | size (n : Nat)            -- header word: payload size of a record
  | tail (m : Nat)            -- header word `make_tail( m )`, m = tail_size - 8
  | pay (id : Int) (k : Nat)  -- k-th payload byte of the record with payload id `id`
deriving DecidableEq, Repr

/-- `calc_real_size` (Gen/RingBuffer.lean, `Ring.calc_real_size_toNat`). -/
def realSize (sz : Nat) : Nat := (sz + 7) / 8 * 8 + 8

/-- The header word as the `size_t` the consumer returns (`.tail`: the top bit is set). -/
def rawSize : Cell → Nat
  | .size n => n
  | .tail m => 2 ^ 63 + m
  | _ => 0

/-- `calc_real_size( untail( word ))`. -/
def hdrLen : Cell → Nat
  | .size n => realSize n
  | .tail m => realSize m
  | _ => realSize 0

/-- A published segment of the byte stream. -/
inductive Seg
  | data (sz : Nat) (id : Int)
  | tail (n : Nat)            -- n = tail_size (bytes skipped, header word included)
deriving DecidableEq, Repr

def Seg.len : Seg → Nat
  | .data sz _ => realSize sz
  | .tail n => n

def recsOf : List Seg → List (Nat × Int)
  | [] => []
  | .data sz id :: l => (sz, id) :: recsOf l
  | .tail _ :: l => recsOf l

/-- Producer program counter. -/
inductive PPC
  | idle
  | bLdBack (sz : Nat) (id : Int)               -- back(): next back_.load( relaxed )
  | bLdFront (sz : Nat) (id : Int) (b : Nat)    -- back(): next pfront_ = front_.load( acquire )   (first check failed)
  | wLdFront (sz : Nat) (id : Int) (b : Nat)    -- wrap path, marker written, b = back + tail_size: next front_.load
  | wStBack (sz : Nat) (id : Int) (b : Nat)     -- wrap path: next back_.store( b ), then the header at offset 0
  | cLdBack (sz : Nat) (id : Int)               -- push_back(): next back_.load( relaxed )
  | cStBack (sz : Nat) (id : Int) (b n : Nat)   -- push_back(): next back_.store( b + n )
  | done (r : GRet)
  | zLd1 (e : Bool)                             -- empty() (e) / size(): next first load
  | zLd2 (e : Bool) (v : Nat)                   --   next second load; v = front_ (empty) / back_ (size) as loaded
  | zdone (e : Bool) (a b : Nat)                --   done with front_ = a and back_ = b as loaded
deriving DecidableEq, Repr

inductive COp
  | pop
  | front
deriving DecidableEq, Repr

/-- Consumer program counter. -/
inductive CPC
  | idle
  | fLdFront (op : COp)                         -- front(): next front_.load( relaxed )
  | fLdBack (op : COp) (f : Nat)                -- front(): next cback_ = back_.load( acquire )
  | tLdFront (op : COp)                         -- pop_front() called by front() on a tail marker: next front_.load
  | tLdBack (op : COp) (f : Nat)                --   its reload of back_ (shown unreachable)
  | tStFront (op : COp) (f n : Nat)             --   next front_.store( f + n )
  | gLdFront (op : COp)                         -- front() behind the marker: next front_.load( relaxed )
  | gLdBack (op : COp) (f : Nat)                --   next cback_ = back_.load( acquire )
  | pLdFront (sz : Nat) (id : Int)              -- pop_front() after front() delivered (sz, id): next front_.load
  | pLdBack (sz : Nat) (id : Int) (f : Nat)     --   its reload of back_ (shown unreachable)
  | pStFront (sz : Nat) (id : Int) (f n : Nat)  --   next front_.store( f + n )
  | done (r : GRet)
  | zLd1 (e : Bool)                             -- empty() (e) / size(), as for the producer
  | zLd2 (e : Bool) (v : Nat)
  | zdone (e : Bool) (a b : Nat)
deriving DecidableEq, Repr

structure St where
  cap : Nat              -- capacity() (constant)
  front : Nat            -- atomic front_
  back : Nat             -- atomic back_
  pfront : Nat           -- producer's cached pfront_
  cback : Nat            -- consumer's cached cback_
  mem : Nat → Cell       -- buffer cells by byte offset
  pp : PPC
  cp : CPC
  pushed : List (Nat × Int)   -- ghost
  popped : List (Nat × Int)   -- ghost
  live : List Seg             -- ghost

def init (cap : Nat) : St := ⟨cap, 0, 0, 0, 0, fun _ => .junk, .idle, .idle, [], [], []⟩

/-- `*reserved = size` followed by the client's `memcpy( reserved + 8, data, size )`. -/
def wrRec (mem : Nat → Cell) (o sz : Nat) (id : Int) : Nat → Cell :=
  fun j => if o + 8 ≤ j ∧ j < o + 8 + sz then .pay id (j - (o + 8)) else if j = o then .size sz else mem j

/-- What the client reads through the pointer `front()` returned: the payload id if all `sz` bytes are the
    bytes of one record in order, `-1` otherwise (as the harness client identifies a record). -/
def payId (mem : Nat → Cell) (o sz : Nat) : Int :=
  match mem (o + 8) with
  | .pay id _ => if (List.range sz).all (fun k => mem (o + 8 + k) == .pay id k) then id else -1
  | _ => -1

def pushOf (op : GOp) : Option (Nat × Int) :=
  match op.name, op.args with
  | "push", [sz, id] => some (sz.toNat, id)
  | _, _ => none

def consOf (op : GOp) : Option COp :=
  match op.name, op.args with
  | "pop", [] => some .pop
  | "front", [] => some .front
  | _, _ => none

/-- `size` / `empty`, callable by both threads. -/
def sizeOf (op : GOp) : Option Bool :=
  match op.name, op.args with
  | "size", [] => some false
  | "empty", [] => some true
  | _, _ => none

/-- Thread 0 is the producer, thread 1 the consumer. -/
def invoke (s : St) (t : Tid) (op : GOp) : Option St :=
  if t = 0 then
    match s.pp, pushOf op, sizeOf op with
    | .idle, some (sz, id), _ =>
      if 0 < sz ∧ realSize sz < s.cap then some { s with pp := .bLdBack sz id } else none
    | .idle, none, some e => some { s with pp := .zLd1 e }
    | _, _, _ => none
  else if t = 1 then
    match s.cp, consOf op, sizeOf op with
    | .idle, some c, _ => some { s with cp := .fLdFront c }
    | .idle, none, some e => some { s with cp := .zLd1 e }
    | _, _, _ => none
  else none

/-- What empty() (e) / size() return for the loaded values `front_ = a`, `back_ = b`. -/
def sizeRet (e : Bool) (a b : Nat) : GRet :=
  if e then [if a = b then 1 else 0] else [((b - a : Nat) : Int)]

/-- back() after the first free-space check has passed with the local `back = b`: place the record, or
    write the tail marker and run the first half of the second check (plain work only). -/
def place (s : St) (sz : Nat) (id : Int) (b : Nat) : St :=
  if s.cap - b % s.cap < realSize sz then
    if s.pfront + s.cap - (b + (s.cap - b % s.cap)) < realSize sz then
      { s with mem := upd s.mem (b % s.cap) (.tail (s.cap - b % s.cap - 8)),
               pp := .wLdFront sz id (b + (s.cap - b % s.cap)) }
    else
      { s with mem := upd s.mem (b % s.cap) (.tail (s.cap - b % s.cap - 8)),
               pp := .wStBack sz id (b + (s.cap - b % s.cap)) }
  else { s with mem := wrRec s.mem (b % s.cap) sz id, pp := .cLdBack sz id }

/-- front() hands the record whose header word is `c` at position `f` to the client (plain work only). -/
def deliver (s : St) (op : COp) (f : Nat) (c : Cell) : St :=
  match op with
  | .front => { s with cp := .done [1, (rawSize c : Int), payId s.mem (f % s.cap) (rawSize c)] }
  | .pop => { s with cp := .pLdFront (rawSize c) (payId s.mem (f % s.cap) (rawSize c)) }

/-- front(): first read of the header word at position `f`. -/
def readHdr (s : St) (op : COp) (f : Nat) : St :=
  match s.mem (f % s.cap) with
  | .tail _ => { s with cp := .tLdFront op }
  | c => deliver s op f c

def evLd (loc : String) (n : Nat) : Ev := ⟨"ld", loc, toString n, ""⟩
def evSt (loc : String) (n : Nat) : Ev := ⟨"st", loc, toString n, ""⟩

def step (s : St) (t : Tid) : Option (St × Ev) :=
  if t = 0 then
    match s.pp with
    | .bLdBack sz id =>
      if s.pfront + s.cap - s.back < realSize sz then
        some ({ s with pp := .bLdFront sz id s.back }, evLd "back" s.back)
      else some (place s sz id s.back, evLd "back" s.back)
    | .bLdFront sz id b =>
      if s.front + s.cap - b < realSize sz then
        some ({ s with pfront := s.front, pp := .done [0] }, evLd "front" s.front)
      else some (place { s with pfront := s.front } sz id b, evLd "front" s.front)
    | .wLdFront sz id b =>
      if s.front + s.cap - b < realSize sz then
        some ({ s with pfront := s.front, pp := .done [0] }, evLd "front" s.front)
      else some ({ s with pfront := s.front, pp := .wStBack sz id b }, evLd "front" s.front)
    | .wStBack sz id b =>
      some ({ s with back := b, live := s.live ++ [.tail (b - s.back)], mem := wrRec s.mem 0 sz id,
                     pp := .cLdBack sz id }, evSt "back" b)
    | .cLdBack sz id =>
      some ({ s with pp := .cStBack sz id s.back (hdrLen (s.mem (s.back % s.cap))) }, evLd "back" s.back)
    | .cStBack sz id b n =>
      some ({ s with back := b + n, pushed := s.pushed ++ [(sz, id)], live := s.live ++ [.data sz id],
                     pp := .done [1] }, evSt "back" (b + n))
    | .zLd1 e =>
      if e then some ({ s with pp := .zLd2 e s.front }, evLd "front" s.front)
      else some ({ s with pp := .zLd2 e s.back }, evLd "back" s.back)
    | .zLd2 e v =>
      if e then some ({ s with pp := .zdone e v s.back }, evLd "back" s.back)
      else some ({ s with pp := .zdone e s.front v }, evLd "front" s.front)
    | _ => none
  else if t = 1 then
    match s.cp with
    | .fLdFront op =>
      if s.cback - s.front < 8 then some ({ s with cp := .fLdBack op s.front }, evLd "front" s.front)
      else some (readHdr s op s.front, evLd "front" s.front)
    | .fLdBack op f =>
      if s.back - f < 8 then some ({ s with cback := s.back, cp := .done [0] }, evLd "back" s.back)
      else some (readHdr { s with cback := s.back } op f, evLd "back" s.back)
    | .tLdFront op =>
      if s.cback - s.front < 8 then some ({ s with cp := .tLdBack op s.front }, evLd "front" s.front)
      else some ({ s with cp := .tStFront op s.front (hdrLen (s.mem (s.front % s.cap))) }, evLd "front" s.front)
    | .tLdBack op f =>
      if s.back - f < 8 then some ({ s with cback := s.back, cp := .gLdFront op }, evLd "back" s.back)
      else some ({ s with cback := s.back, cp := .tStFront op f (hdrLen (s.mem (f % s.cap))) }, evLd "back" s.back)
    | .tStFront op f n =>
      some ({ s with front := f + n, live := s.live.drop 1, cp := .gLdFront op }, evSt "front" (f + n))
    | .gLdFront op =>
      if s.cback - s.front < 8 then some ({ s with cp := .gLdBack op s.front }, evLd "front" s.front)
      else some (deliver s op s.front (s.mem (s.front % s.cap)), evLd "front" s.front)
    | .gLdBack op f =>
      if s.back - f < 8 then some ({ s with cback := s.back, cp := .done [0] }, evLd "back" s.back)
      else some (deliver { s with cback := s.back } op f (s.mem (f % s.cap)), evLd "back" s.back)
    | .pLdFront sz id =>
      if s.cback - s.front < 8 then some ({ s with cp := .pLdBack sz id s.front }, evLd "front" s.front)
      else some ({ s with cp := .pStFront sz id s.front (hdrLen (s.mem (s.front % s.cap))) }, evLd "front" s.front)
    | .pLdBack sz id f =>
      -- pop_front() returns false: the harness client reports it and still returns the record it has read
      if s.back - f < 8 then some ({ s with cback := s.back, cp := .done [1, (sz : Int), id] }, evLd "back" s.back)
      else some ({ s with cback := s.back, cp := .pStFront sz id f (hdrLen (s.mem (f % s.cap))) }, evLd "back" s.back)
    | .pStFront sz id f n =>
      some ({ s with front := f + n, popped := s.popped ++ [(sz, id)], live := s.live.drop 1,
                     cp := .done [1, (sz : Int), id] }, evSt "front" (f + n))
    | .zLd1 e =>
      if e then some ({ s with cp := .zLd2 e s.front }, evLd "front" s.front)
      else some ({ s with cp := .zLd2 e s.back }, evLd "back" s.back)
    | .zLd2 e v =>
      if e then some ({ s with cp := .zdone e v s.back }, evLd "back" s.back)
      else some ({ s with cp := .zdone e s.front v }, evLd "front" s.front)
    | _ => none
  else none

def result (s : St) (t : Tid) : Option (St × GRet) :=
  if t = 0 then
    match s.pp with
    | .done r => some ({ s with pp := .idle }, r)
    | .zdone e a b => some ({ s with pp := .idle }, sizeRet e a b)
    | _ => none
  else if t = 1 then
    match s.cp with
    | .done r => some ({ s with cp := .idle }, r)
    | .zdone e a b => some ({ s with cp := .idle }, sizeRet e a b)
    | _ => none
  else none

def model : Model St := ⟨invoke, step, result⟩

/-! ### Initial state for trace replay

The header comment of a case carries `cap=<capacity()>` and `rot=<r>`: the harness client rotates the ring by
`r` untraced rounds "push an 8-byte record with id i+1, pop it" before the scheduled program starts; the same
warm-up is executed here on the model, so that the caches and the buffer content start as in the real object. -/

def cfgNat (key : String) (cfg : List String) : Option Nat :=
  cfg.findSome? (fun w => if w.startsWith (key ++ "=") then (w.drop (key.length + 1)).toNat? else none)

def runOp (s : St) (t : Tid) (op : GOp) : St :=
  match invoke s t op with
  | none => s
  | some s1 =>
    let rec go (fuel : Nat) (s : St) : St :=
      match fuel with
      | 0 => s
      | fuel + 1 => match step s t with
        | some (s', _) => go fuel s'
        | none => s
    match result (go 12 s1) t with
    | some (s2, _) => s2
    | none => s1

def warmup (cap rot : Nat) : St :=
  (List.range rot).foldl (fun s (i : Nat) => runOp (runOp s 0 ⟨"push", [8, (i : Int) + 1]⟩) 1 ⟨"pop", []⟩) (init cap)

def initCfg (cfg : List String) : St :=
  warmup ((cfgNat "cap" cfg).getD 16) ((cfgNat "rot" cfg).getD 0)

end CdsVerif.Algo.VoidRing

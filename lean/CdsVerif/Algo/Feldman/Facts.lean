/-
  Facts about single steps of the FeldmanHashSet model that the property file quotes: what a step can do to a slot,
  what `expand_slot` guarantees at the publication of the new array node, and who may erase / replace an item.
-/
import CdsVerif.Algo.Feldman.Lin
namespace CdsVerif.Algo.Feldman
open CdsVerif.Machine CdsVerif.Spec CdsVerif.Lin

/-- The life of a slot: null ↔ data freely (and data → data of the same key: `update`); data → converting →
    array-node pointer, never back; an array-node pointer is never removed or changed. -/
def SlotStep (x y : Cell) : Prop :=
  x = y ∨ (x = .null ∧ ∃ n, y = .data n) ∨
  (∃ n, x = .data n ∧ (y = .null ∨ y = .conv n ∨ ∃ n', y = .data n' ∧ n'.key = n.key)) ∨
  (∃ n b, x = .conv n ∧ y = .arr b)

theorem slot_upd (cell : Nat → Nat → Cell) (a0 i0 : Nat) (v : Cell) (hst : SlotStep (cell a0 i0) v) (a i : Nat) :
    SlotStep (cell a i) (upd2 cell a0 i0 v a i) := by
  simp only [upd2]
  split
  · next hh => rw [hh.1, hh.2]; exact hst
  · exact Or.inl rfl

theorem step_slot {c : Cfg} {s s' : St} {t : Tid} {ev : Ev} (hcf : c.copyFirst = true) (h : SInv c s)
    (hs : step c s t = some (s', ev)) (a i : Nat) : SlotStep (s.cell a i) (s'.cell a i) := by
  cases hpc : s.pc t
  all_goals (simp only [step, hpc, hcf, if_true] at hs)
  all_goals (try (simp at hs; done))
  case xCopy op a0 lvl n b =>
    have hnull := h.xNull t op a0 lvl n b (Or.inr hpc)
    simp only [Option.some.injEq, Prod.mk.injEq] at hs; obtain ⟨rfl, -⟩ := hs
    exact slot_upd _ _ _ _ (by rw [hnull]; exact Or.inr (Or.inl ⟨rfl, n, rfl⟩)) a i
  case casUpd op a0 lvl n =>
    obtain ⟨hk, n0, al, rfl⟩ := h.casU t op a0 lvl n hpc
    split at hs
    · next hd =>
      simp only [Option.some.injEq, Prod.mk.injEq] at hs; obtain ⟨rfl, -⟩ := hs
      exact slot_upd _ _ _ _ (by rw [hd]; exact Or.inr (Or.inr (Or.inl ⟨n, rfl, Or.inr (Or.inr ⟨n0, rfl, hk.symm⟩)⟩))) a i
    · simp only [Option.some.injEq, Prod.mk.injEq] at hs; obtain ⟨rfl, -⟩ := hs; exact Or.inl rfl
  case casIns op a0 lvl =>
    split at hs
    · next hd =>
      simp only [Option.some.injEq, Prod.mk.injEq] at hs; obtain ⟨rfl, -⟩ := hs
      exact slot_upd _ _ _ _ (by rw [hd]; exact Or.inr (Or.inl ⟨rfl, _, rfl⟩)) a i
    · simp only [Option.some.injEq, Prod.mk.injEq] at hs; obtain ⟨rfl, -⟩ := hs; exact Or.inl rfl
  case casEra op a0 lvl n =>
    split at hs
    · next hd =>
      simp only [Option.some.injEq, Prod.mk.injEq] at hs; obtain ⟨rfl, -⟩ := hs
      exact slot_upd _ _ _ _ (by rw [hd]; exact Or.inr (Or.inr (Or.inl ⟨n, rfl, Or.inl rfl⟩))) a i
    · simp only [Option.some.injEq, Prod.mk.injEq] at hs; obtain ⟨rfl, -⟩ := hs; exact Or.inl rfl
  case xConv op a0 lvl n b =>
    split at hs
    · next hd =>
      simp only [Option.some.injEq, Prod.mk.injEq] at hs; obtain ⟨rfl, -⟩ := hs
      exact slot_upd _ _ _ _ (by rw [hd]; exact Or.inr (Or.inr (Or.inl ⟨n, rfl, Or.inr (Or.inl rfl)⟩))) a i
    · simp only [Option.some.injEq, Prod.mk.injEq] at hs; obtain ⟨rfl, -⟩ := hs; exact Or.inl rfl
  case xPub op a0 lvl n b =>
    split at hs
    · next hd =>
      simp only [Option.some.injEq, Prod.mk.injEq] at hs; obtain ⟨rfl, -⟩ := hs
      exact slot_upd _ _ _ _ (by rw [hd]; exact Or.inr (Or.inr (Or.inr ⟨n, b, rfl, rfl⟩))) a i
    · simp only [Option.some.injEq, Prod.mk.injEq] at hs; obtain ⟨rfl, -⟩ := hs; exact Or.inl rfl
  all_goals (repeat' split at hs)
  all_goals (simp only [Option.some.injEq, Prod.mk.injEq] at hs; obtain ⟨rfl, -⟩ := hs)
  all_goals (exact Or.inl rfl)

/-- WHAT `expand_slot` GUARANTEES.  The only step that turns a converting slot `(a, i)` holding item `n` into the
    pointer to an array node `b` is the publishing CAS of the thread that converted the slot; at that instant `b`
    contains `n` — in the slot given by the hash of `n` at the level of `b` — and nothing else, and `b` hangs below
    `(a, i)`; no lookup changes its answer (in particular `n` is found before and after). -/
theorem expand_publish {c : Cfg} {s s' : St} {t : Tid} {ev : Ev} (hp : PathHyp c) (hcf : c.copyFirst = true)
    (h : SInv c s) (hs : step c s t = some (s', ev)) (a i b : Nat) (n : Node)
    (hc : s.cell a i = .conv n) (hc' : s'.cell a i = .arr b) :
    (∃ op lvl, s.pc t = .xPub op a lvl n b ∧ i = sl c (okey op) lvl ∧ (s.pre b).length = lvl + 1) ∧
    s'.cell b (sl c n.key (s.pre b).length) = .data n ∧
    (∀ j, j ≠ sl c n.key (s.pre b).length → s'.cell b j = .null) ∧
    s'.par b = a ∧ s'.pidx b = i ∧
    look c s n.key = some n.val ∧ ∀ k, look c s' k = look c s k := by
  have hlook := (step_refines hp hcf h hs).2
  have key : ∃ op lvl, s.pc t = .xPub op a lvl n b ∧ i = sl c (okey op) lvl ∧
      s'.cell = upd2 s.cell a i (.arr b) ∧ s'.pc t = .trav op a lvl ∧ s'.par = s.par ∧ s'.pidx = s.pidx := by
    cases hpc : s.pc t
    all_goals (simp only [step, hpc, hcf, if_true] at hs)
    all_goals (try (simp at hs; done))
    case xPub op a0 lvl n0 b0 =>
      split at hs
      · next hd =>
        simp only [Option.some.injEq, Prod.mk.injEq] at hs; obtain ⟨rfl, -⟩ := hs
        simp only [upd2] at hc'
        split at hc'
        · next hh =>
          obtain ⟨rfl, rfl⟩ := hh
          simp only [Cell.arr.injEq] at hc'; subst hc'
          rw [hc] at hd; simp only [Cell.conv.injEq] at hd; subst hd
          exact ⟨op, lvl, rfl, rfl, rfl, by simp, rfl, rfl⟩
        · rw [hc] at hc'; simp at hc'
      · simp only [Option.some.injEq, Prod.mk.injEq] at hs; obtain ⟨rfl, -⟩ := hs
        rw [hc] at hc'; simp at hc'
    all_goals (repeat' split at hs)
    all_goals (simp only [Option.some.injEq, Prod.mk.injEq] at hs; obtain ⟨rfl, -⟩ := hs)
    all_goals (try (rw [hc] at hc'; simp at hc'; done))
    all_goals (
      simp only [upd2] at hc'
      split at hc'
      · simp at hc'
      · rw [hc] at hc'; simp at hc')
  obtain ⟨op, lvl, hpc, hi, hcell, hpc', hpar, hpidx⟩ := key
  have hpo := h.pos t op a lvl (by simp [hpc, posOf])
  have hw := h.own t op a lvl n b (by simp [hpc, ownOf])
  have hf := h.xFull t op a lvl n b hpc
  have hl := pos_len hp hpo.2.2.1 hpo.2.2.2
  have hlb : (s.pre b).length = lvl + 1 := by rw [hw.2.2.2.2.2.2.2]; simp [hl]
  have hab : a ≠ b := by omega
  have hcb : ∀ j, s'.cell b j = s.cell b j := by
    intro j; rw [hcell]; simp only [upd2]; rw [if_neg (by intro hh; exact hab hh.1.symm)]
  refine ⟨⟨op, lvl, hpc, hi, hlb⟩, by rw [hlb, hcb]; exact hf.1, by intro j hj; rw [hlb] at hj; rw [hcb]; exact hf.2 j hj,
    by rw [hpar]; exact hw.2.2.2.2.2.1, by rw [hpidx, hi]; exact hw.2.2.2.2.2.2.1, ?_, ?_⟩
  · exact look_item h a i n hpo.1 (Or.inr hc)
  · exact hlook (by simp [hpc', retOf])

/-- An item leaves the set only by the successful CAS of an `erase` of its key (which then answers with the item's
    payload) or of an `update` of its key (which puts its own item in the same slot): if `look` has `k ↦ v` before
    a step and not after, the step is one of these two. -/
theorem look_removed {c : Cfg} {s s' : St} {t : Tid} {ev : Ev} (hp : PathHyp c) (hcf : c.copyFirst = true)
    (h : SInv c s) (hs : step c s t = some (s', ev)) (k v : Int) (h1 : look c s k = some v)
    (h2 : look c s' k ≠ some v) :
    (∃ op a lvl n, s.pc t = .casEra op a lvl n ∧ okey op = k ∧ s'.pc t = .done [1, v]) ∨
    (∃ op a lvl n, s.pc t = .casUpd op a lvl n ∧ okey op = k ∧ s'.pc t = .done [1, 0]) := by
  obtain ⟨hlp, hnlp⟩ := step_refines hp hcf h hs
  cases hr : retOf (s'.pc t) with
  | none => exact absurd (by rw [hnlp hr k]; exact h1) h2
  | some r =>
    -- a linearization point: which one?
    cases hpc : s.pc t
    all_goals (simp only [step, hpc, hcf, if_true] at hs)
    all_goals (try (simp at hs; done))
    case casEra op a lvl n =>
      obtain ⟨hk, k0, rfl⟩ := h.casE t _ a lvl n hpc
      have hpo : posOf (s.pc t) = some (.era k0, a, lvl) := by simp [hpc, posOf]
      split at hs
      · next hd =>
        simp only [Option.some.injEq, Prod.mk.injEq] at hs; obtain ⟨rfl, -⟩ := hs
        left
        have hna : ∀ b, s.cell a (sl c (okey (.era k0)) lvl) ≠ .arr b := by intro b hb; rw [hd] at hb; simp at hb
        have hL := look_pos_leaf hp h t _ a lvl hpo hna
        have hL' := look_write hp h t (.era k0) a lvl hpo .null (by intro b hb; simp at hb) hna
          (upd s.pc t (.done [1, n.val]))
          (by intro j hj; rw [hd]; simp only [leaf]; rw [if_neg (by rw [hk]; exact fun e => hj e.symm)])
        rw [hd] at hL
        simp only [okey] at hk hL
        simp only [leaf, hk, if_true] at hL
        by_cases hkk : k = k0
        · subst hkk
          rw [hL] at h1; simp only [Option.some.injEq] at h1; subst h1
          exact ⟨_, a, lvl, n, rfl, rfl, by simp⟩
        · have h3 := hL' k
          simp only [okey] at h3 h2
          simp only [hkk, if_false] at h3
          exact absurd (h3.trans h1) h2
      · simp only [Option.some.injEq, Prod.mk.injEq] at hs; obtain ⟨rfl, -⟩ := hs; simp [retOf] at hr
    case casUpd op a lvl n =>
      obtain ⟨hk, n0, al, rfl⟩ := h.casU t _ a lvl n hpc
      have hpo : posOf (s.pc t) = some (.upd n0 al, a, lvl) := by simp [hpc, posOf]
      split at hs
      · next hd =>
        simp only [Option.some.injEq, Prod.mk.injEq] at hs; obtain ⟨rfl, -⟩ := hs
        right
        have hna : ∀ b, s.cell a (sl c (okey (.upd n0 al)) lvl) ≠ .arr b := by intro b hb; rw [hd] at hb; simp at hb
        have hL' := look_write hp h t (.upd n0 al) a lvl hpo (.data n0) (by intro b hb; simp at hb) hna
          (upd s.pc t (.done [1, 0]))
          (by intro j hj; rw [hd]; simp only [leaf, okey] at hj ⊢
              rw [if_neg (fun e => hj e.symm), if_neg (by rw [hk]; exact fun e => hj e.symm)])
        by_cases hkk : k = n0.key
        · subst hkk
          exact ⟨_, a, lvl, n, rfl, rfl, by simp⟩
        · have h3 := hL' k
          simp only [okey, onode] at h3 h2
          simp only [hkk, if_false] at h3
          exact absurd (h3.trans h1) h2
      · simp only [Option.some.injEq, Prod.mk.injEq] at hs; obtain ⟨rfl, -⟩ := hs; simp [retOf] at hr
    case casIns op a lvl =>
      have hpo : posOf (s.pc t) = some (op, a, lvl) := by simp [hpc, posOf]
      have hga := (h.casI t op a lvl hpc).1
      split at hs
      · next hd =>
        simp only [Option.some.injEq, Prod.mk.injEq] at hs; obtain ⟨rfl, -⟩ := hs
        have hna : ∀ b, s.cell a (sl c (okey op) lvl) ≠ .arr b := by intro b hb; rw [hd] at hb; simp at hb
        have hkey : (onode op).key = okey op := by cases op <;> simp_all [onode, okey, isGA]
        have hL := look_pos_leaf hp h t _ a lvl hpo hna
        rw [hd] at hL; simp only [leaf] at hL
        have hL' := look_write hp h t op a lvl hpo (.data (onode op)) (by intro b hb; simp at hb) hna
          (upd s.pc t (.done (insRet op)))
          (by intro j hj; rw [hd]; simp only [leaf]; rw [if_neg (by rw [hkey]; exact fun e => hj e.symm)])
        by_cases hkk : k = okey op
        · subst hkk; rw [hL] at h1; simp at h1
        · have h3 := hL' k
          simp only [if_neg hkk] at h3
          exact absurd (h3.trans h1) h2
      · simp only [Option.some.injEq, Prod.mk.injEq] at hs; obtain ⟨rfl, -⟩ := hs; simp [retOf] at hr
    case prot2 op a lvl cl x =>
      repeat' split at hs
      all_goals (simp only [Option.some.injEq, Prod.mk.injEq] at hs; obtain ⟨rfl, -⟩ := hs)
      all_goals (exact absurd h1 h2)
    all_goals (repeat' split at hs)
    all_goals (simp only [Option.some.injEq, Prod.mk.injEq] at hs; obtain ⟨rfl, -⟩ := hs)
    all_goals (simp [retOf, hpc] at hr)

/-! ### The statements for reachable states -/

variable {c : Cfg}

theorem reachable_tree (hp : PathHyp c) (hcf : c.copyFirst = true) (s : St) (hr : (model c).Reachable init s) :
    (∀ a i b, s.cell a i = .arr b → s.par b = a ∧ s.pidx b = i ∧ a < b ∧ b < s.acnt ∧ s.pre b = s.pre a ++ [i] ∧
      (s.pre b).length < c.depth) ∧
    (∀ a, Pub s a → walk s.cell 0 (s.pre a) = some a) ∧
    (∀ p a, walk s.cell 0 p = some a → Pub s a ∧ s.pre a = p) := by
  have h := reachable_sinv hp hcf s hr
  refine ⟨?_, fun a => walk_pub h a, fun p a => pub_of_walk h p a⟩
  intro a i b hc
  have := h.arrp a i b hc
  refine ⟨this.1, this.2.1, this.2.2.2.1, this.2.2.2.2.1, this.2.2.1, ?_⟩
  rw [this.2.2.1]; simp; exact this.2.2.2.2.2.2

theorem reachable_on_path (hp : PathHyp c) (hcf : c.copyFirst = true) (s : St) (hr : (model c).Reachable init s)
    (a i : Nat) (n : Node) (hc : s.cell a i = .data n ∨ s.cell a i = .conv n) :
    (c.path n.key).take ((s.pre a).length + 1) = s.pre a ++ [i] ∧
    (Pub s a → stop s.cell 0 (c.path n.key) = some (a, i) ∧ look c s n.key = some n.val) := by
  have h := reachable_sinv hp hcf s hr
  exact ⟨(h.onp a i n hc).take_eq, fun hpub => ⟨stop_item h a i n hpub hc, look_item h a i n hpub hc⟩⟩

theorem reachable_unique (hp : PathHyp c) (hcf : c.copyFirst = true) (s : St) (hr : (model c).Reachable init s)
    (a i a' i' : Nat) (n n' : Node) (hpub : Pub s a) (hpub' : Pub s a')
    (hc : s.cell a i = .data n ∨ s.cell a i = .conv n) (hc' : s.cell a' i' = .data n' ∨ s.cell a' i' = .conv n')
    (hk : n.key = n'.key) : a = a' ∧ i = i' ∧ n = n' :=
  item_unique (reachable_sinv hp hcf s hr) a i a' i' n n' hpub hpub' hc hc' hk

theorem reachable_look_some (hp : PathHyp c) (hcf : c.copyFirst = true) (s : St) (hr : (model c).Reachable init s)
    (k v : Int) : look c s k = some v ↔
      ∃ a i n, Pub s a ∧ (s.cell a i = .data n ∨ s.cell a i = .conv n) ∧ n.key = k ∧ n.val = v := by
  have h := reachable_sinv hp hcf s hr
  constructor
  · exact look_some h k v
  · rintro ⟨a, i, n, hpub, hc, rfl, rfl⟩; exact look_item h a i n hpub hc

theorem reachable_pos (hp : PathHyp c) (hcf : c.copyFirst = true) (s : St) (hr : (model c).Reachable init s)
    (t : Tid) (op : Op) (a lvl : Nat) (hpo : posOf (s.pc t) = some (op, a, lvl)) :
    walk s.cell 0 ((c.path (okey op)).take lvl) = some a ∧ lvl < c.depth ∧
    look c s (okey op) = go s.cell (okey op) a ((c.path (okey op)).drop lvl) := by
  have h := reachable_sinv hp hcf s hr
  have hpos := h.pos t op a lvl hpo
  have hw := walk_pub h a hpos.1
  rw [hpos.2.2.2] at hw
  exact ⟨hw, hpos.2.2.1, (look_from_pos hp h t op a lvl hpo).1⟩

/-! ### The hypotheses are satisfiable at every depth -/

/-- an injective numbering of the integers -/
def encInt (k : Int) : Nat := if 0 ≤ k then 2 * k.toNat else 2 * (-k - 1).toNat + 1

/-- The worst hash of depth `d + 1`: all keys share the first `d` slot indices and differ only at the last level, so
    every pair of keys in the set forces `d` expansions. -/
def cfgDeep (d : Nat) : Cfg :=
  { path := fun k => List.replicate d 0 ++ [encInt k], depth := d + 1 }

theorem cfgDeep_hyp (d : Nat) : PathHyp (cfgDeep d) ∧ (cfgDeep d).copyFirst = true := by
  refine ⟨⟨fun k => by simp [cfgDeep], ?_⟩, rfl⟩
  intro k k' h
  simp only [cfgDeep, List.append_cancel_left_eq, List.cons.injEq, and_true] at h
  unfold encInt at h
  split at h <;> split at h <;> omega

end CdsVerif.Algo.Feldman

/-
  Structural invariant of the Treiber stack with elimination back-off and the effect of every atomic step on the
  abstract stack.

  * `SInvL s l` : following `next` from `top` visits exactly the nodes `l` (duplicate-free, all published); nodes still
    private to a pusher, nodes already popped and nodes handed over by elimination are outside the chain and stay
    outside.  Ghost bookkeeping: a node in the chain or private to a pusher has been taken by nobody and has not been
    eliminated.
  * `Shape` : a step is silent (abstract stack, fixed results and pending operations unchanged), or it is the
    linearization point of the stepping thread (one `lifo` transition), or it is a collision: the linearization point
    of a `push v` and of a `pop` returning `v`, in this order, the abstract stack being unchanged.
-/
import CdsVerif.Algo.Elim.Inv
import CdsVerif.Algo.Treiber.Inv
namespace CdsVerif.Algo.Elim
open CdsVerif.Machine CdsVerif.Spec CdsVerif.Lin
open CdsVerif.Algo.Treiber (Chain walk walk_of_chain walk_none length_le_of_nodup_lt lifo_push lifo_pop_some lifo_pop_none)

def isUnlC : PC → Bool
  | .bkUnlC _ _ => true
  | .bkWait _ _ _ => false
  | .bkLock2 _ _ => false
  | .bkSpin2 _ _ => false
  | .bkIn2 _ _ => false
  | .bkChk _ => false
  | .idle => false
  | .pushLd _ => false
  | .pushSt _ _ => false
  | .pushCas _ _ => false
  | .popLd1 => false
  | .popLd2 _ => false
  | .popNext _ => false
  | .popCas _ _ => false
  | .popClr _ _ => false
  | .bkSt _ _ _ => false
  | .bkLock _ _ _ => false
  | .bkSpin _ _ _ => false
  | .bkIn _ _ _ => false
  | .done _ => false

/-- The operation has been eliminated (its result is fixed): active side after the collision, passive side once its
    status is op_collided. -/
def elimd (pc : PC) (st : Nat) : Bool := isUnlC pc || (passive pc && decide (st = 2))

def pushNodeC (pc : PC) (st : Nat) : Option Nat := if elimd pc st = true then none else pushNodePc pc

/-- The node a pusher still owns privately (before its successful CAS / before its elimination). -/
def pushNode (s : St) (t : Tid) : Option Nat := pushNodeC (s.pc t) (s.status t)

/-- The result fixed by the program point alone. -/
def postPc : PC → Option GRet
  | .popClr _ r => some r
  | .done r => some r
  | .bkUnlC _ _ => none
  | .bkWait _ _ _ => none
  | .bkLock2 _ _ => none
  | .bkSpin2 _ _ => none
  | .bkIn2 _ _ => none
  | .bkChk _ => none
  | .idle => none
  | .pushLd _ => none
  | .pushSt _ _ => none
  | .pushCas _ _ => none
  | .popLd1 => none
  | .popLd2 _ => none
  | .popNext _ => none
  | .popCas _ _ => none
  | .bkSt _ _ _ => none
  | .bkLock _ _ _ => none
  | .bkSpin _ _ _ => none
  | .bkIn _ _ _ => none

def elimRet (val : Nat → Int) (pv : Option Nat) : Option Ctx → Option GRet
  | some c => some (retOf val pv c)
  | none => none

def postRetC (pc : PC) (st : Nat) (val : Nat → Int) (pv : Option Nat) : Option GRet :=
  if elimd pc st = true then elimRet val pv (ctxOf pc) else postPc pc

/-- The result of thread `t`'s operation, once it is fixed (the thread has passed its linearization point). -/
def postRet (s : St) (t : Tid) : Option GRet := postRetC (s.pc t) (s.status t) s.val (s.pval t)

def opOfPc (val : Nat → Int) (pc : PC) : Option GOp :=
  match pushNodePc pc with
  | some n => some ⟨"push", [val n]⟩
  | none => if isPopPc pc = true then some ⟨"pop", []⟩ else none

def opOfC (pc : PC) (st : Nat) (val : Nat → Int) : Option GOp := if elimd pc st = true then none else opOfPc val pc

/-- The operation a thread is executing, while it has not passed its linearization point. -/
def opOf (s : St) (t : Tid) : Option GOp := opOfC (s.pc t) (s.status t) s.val

/-- The nodes reachable from `top` (fuel: the number of nodes ever allocated). -/
def absNodes (s : St) : List Nat := walk s.next s.cnt s.top
/-- The abstract stack: the values along the chain, top first. -/
def absStack (s : St) : List Int := (absNodes s).map s.val

/-- `a` has been allocated and is no longer private to a pusher: it is or was in the stack, or it was eliminated. -/
def Pub (s : St) (a : Nat) : Prop := a < s.cnt ∧ ∀ t, pushNodeC (s.pc t) (s.status t) ≠ some a

structure SInvL (s : St) (l : List Nat) : Prop where
  chain : Chain s.next s.top l
  nodup : l.Nodup
  pub : ∀ a, a ∈ l → Pub s a
  fresh : ∀ t n, pushNodePc (s.pc t) = some n → n < s.cnt
  own : ∀ t1 t2 n, pushNodePc (s.pc t1) = some n → pushNodePc (s.pc t2) = some n → t1 = t2
  linked : ∀ t n tv, s.pc t = .pushCas n tv → s.next n = tv
  casx : ∀ t a nx, s.pc t = .popCas a nx → Pub s a ∧ (a ∈ l → s.next a = nx)
  nxt : ∀ t a, s.pc t = .popNext a → Pub s a
  clr : ∀ t a r, s.pc t = .popClr a r → Pub s a ∧ a ∉ l
  tk : ∀ a, a ∈ l → s.taken a = none ∧ s.elim a = false
  priv : ∀ t n, pushNodeC (s.pc t) (s.status t) = some n → s.taken n = none ∧ s.elim n = false
  tklt : ∀ a, s.cnt ≤ a → s.taken a = none ∧ s.elim a = false

def SInv (s : St) : Prop := ∃ l, SInvL s l

theorem SInvL.absNodes_eq {s : St} {l : List Nat} (h : SInvL s l) : absNodes s = l :=
  walk_of_chain h.chain (length_le_of_nodup_lt h.nodup (fun a ha => (h.pub a ha).1))

theorem SInvL.absStack_eq {s : St} {l : List Nat} (h : SInvL s l) : absStack s = l.map s.val := by
  simp [absStack, h.absNodes_eq]

theorem SInvL.unique {s : St} {l1 l2 : List Nat} (h1 : SInvL s l1) (h2 : SInvL s l2) : l1 = l2 :=
  Chain.functional h1.chain h2.chain

theorem sinv_init : SInvL init [] := by
  constructor <;> simp [init, Chain, pushNodeC, pushNodePc, elimd, isUnlC, passive]

/-- How a step acts on the abstract stack, the fixed results and the pending operations. -/
inductive Shape (s s' : St) (t : Tid) (l l' : List Nat) : Prop
  | silent (hl : l' = l) (hp : ∀ u, postRet s' u = postRet s u) (ho : ∀ u, opOf s' u = opOf s u)
  | single (op : GOp) (r : GRet) (h0 : postRet s t = none) (h1 : opOf s t = some op)
      (hn : lifo.next (l.map s.val) op r = some (l'.map s.val))
      (hp : ∀ u, postRet s' u = if u = t then some r else postRet s u)
      (ho : ∀ u, opOf s' u = if u = t then none else opOf s u)
  | pair (a b : Tid) (v : Int) (hab : a ≠ b) (hl : l' = l) (ha : postRet s a = none) (hb : postRet s b = none)
      (hoa : opOf s a = some ⟨"push", [v]⟩) (hob : opOf s b = some ⟨"pop", []⟩)
      (hp : ∀ u, postRet s' u = if u = a then some [1] else if u = b then some [1, v] else postRet s u)
      (ho : ∀ u, opOf s' u = if u = a then none else if u = b then none else opOf s u)
      (ht : t = a ∨ t = b)

structure StepEff (s : St) (t : Tid) (s' : St) (l l' : List Nat) : Prop where
  val : s'.val = s.val
  cnt : s'.cnt = s.cnt
  idle : ∀ u, s'.pc u = .idle ↔ s.pc u = .idle
  busy : s.pc t ≠ .idle
  sub : ∀ a, a ∈ l' → a ∈ l ∨ pushNodeC (s.pc t) (s.status t) = some a
  pubmono : ∀ a, Pub s a → Pub s' a
  tkmono : ∀ a u, s.taken a = some u → s'.taken a = some u
  elmono : ∀ a, s.elim a = true → s'.elim a = true

set_option maxHeartbeats 4000000 in
theorem sinvl_step_pushLd {s s' : St} {t : Tid} {ev : Ev} {l : List Nat} {n : Nat}
    (h : SInvL s l) (he : EInv s) (hpc : s.pc t = .pushLd n) (hs : step s t = some (s', ev)) :
    ∃ l', SInvL s' l' ∧ StepEff s t s' l l' ∧ Shape s s' t l l' := by
  obtain ⟨hch, hnd, hpub, hfr, hown, hlk, hcx, hnx, hcl, htk, hpv, htl⟩ := h
  obtain ⟨e1, e2, e3, e4, e5, e6, e7, e8⟩ := he
  simp only [step, hpc] at hs
  simp at hs; obtain ⟨rfl, -⟩ := hs
  refine ⟨l, ?_, ?_, .silent rfl ?_ ?_⟩
  · constructor <;> intros <;> (try dsimp only at *) <;> grind [upd, Pub, pushNodeC, elimd, isUnlC, passive, pushNodePc, ctxNode, retry, Chain, Chain.upd, pub_facts]
  · constructor <;> intros <;> (try dsimp only at *) <;> grind [upd, Pub, pushNodeC, elimd, isUnlC, passive, pushNodePc, ctxNode, retry, pub_facts]
  · (intros; (try dsimp only at *); grind [upd, postRet, opOf, postRetC, opOfC, opOfPc, postPc, elimRet, retOf, ctxOf, isPopPc, ctxPop, elimd, isUnlC, passive, pushNodePc, ctxNode, retry, pub_facts, lifo_push, lifo_pop_some, lifo_pop_none])
  · (intros; (try dsimp only at *); grind [upd, postRet, opOf, postRetC, opOfC, opOfPc, postPc, elimRet, retOf, ctxOf, isPopPc, ctxPop, elimd, isUnlC, passive, pushNodePc, ctxNode, retry, pub_facts, lifo_push, lifo_pop_some, lifo_pop_none])

set_option maxHeartbeats 4000000 in
theorem sinvl_step_pushSt {s s' : St} {t : Tid} {ev : Ev} {l : List Nat} {n : Nat} {tv : Option Nat}
    (h : SInvL s l) (he : EInv s) (hpc : s.pc t = .pushSt n tv) (hs : step s t = some (s', ev)) :
    ∃ l', SInvL s' l' ∧ StepEff s t s' l l' ∧ Shape s s' t l l' := by
  obtain ⟨hch, hnd, hpub, hfr, hown, hlk, hcx, hnx, hcl, htk, hpv, htl⟩ := h
  obtain ⟨e1, e2, e3, e4, e5, e6, e7, e8⟩ := he
  simp only [step, hpc] at hs
  simp at hs; obtain ⟨rfl, -⟩ := hs
  have hn : n ∉ l := fun hm => (hpub n hm).2 t (by simp [hpc, pushNodeC, elimd, isUnlC, passive, pushNodePc, ctxNode])
  have hch' := Chain.upd (v := tv) hn hch
  refine ⟨l, ?_, ?_, .silent rfl ?_ ?_⟩
  · constructor <;> intros <;> (try dsimp only at *) <;> grind [upd, Pub, pushNodeC, elimd, isUnlC, passive, pushNodePc, ctxNode, retry, Chain, Chain.upd, pub_facts]
  · constructor <;> intros <;> (try dsimp only at *) <;> grind [upd, Pub, pushNodeC, elimd, isUnlC, passive, pushNodePc, ctxNode, retry, pub_facts]
  · (intros; (try dsimp only at *); grind [upd, postRet, opOf, postRetC, opOfC, opOfPc, postPc, elimRet, retOf, ctxOf, isPopPc, ctxPop, elimd, isUnlC, passive, pushNodePc, ctxNode, retry, pub_facts, lifo_push, lifo_pop_some, lifo_pop_none])
  · (intros; (try dsimp only at *); grind [upd, postRet, opOf, postRetC, opOfC, opOfPc, postPc, elimRet, retOf, ctxOf, isPopPc, ctxPop, elimd, isUnlC, passive, pushNodePc, ctxNode, retry, pub_facts, lifo_push, lifo_pop_some, lifo_pop_none])

set_option maxHeartbeats 4000000 in
theorem sinvl_step_pushCas {s s' : St} {t : Tid} {ev : Ev} {l : List Nat} {n : Nat} {tv : Option Nat}
    (h : SInvL s l) (he : EInv s) (hpc : s.pc t = .pushCas n tv) (hs : step s t = some (s', ev)) :
    ∃ l', SInvL s' l' ∧ StepEff s t s' l l' ∧ Shape s s' t l l' := by
  obtain ⟨hch, hnd, hpub, hfr, hown, hlk, hcx, hnx, hcl, htk, hpv, htl⟩ := h
  obtain ⟨e1, e2, e3, e4, e5, e6, e7, e8⟩ := he
  simp only [step, hpc] at hs
  split at hs
  next heq =>
    simp at hs; obtain ⟨rfl, -⟩ := hs
    have hn : n ∉ l := fun hm => (hpub n hm).2 t (by simp [hpc, pushNodeC, elimd, isUnlC, passive, pushNodePc, ctxNode])
    have hnn := hlk t n tv hpc
    have hpn : pushNodeC (s.pc t) (s.status t) = some n := by simp [hpc, pushNodeC, elimd, isUnlC, passive, pushNodePc, ctxNode]
    have hlp : lifo.next (l.map s.val) ⟨"push", [s.val n]⟩ [1] = some ((n :: l).map s.val) := by
      simp [lifo_push]
    refine ⟨n :: l, ?_, ?_, .single ⟨"push", [s.val n]⟩ [1] ?_ ?_ hlp ?_ ?_⟩
    · constructor <;> intros <;> (try dsimp only at *) <;> grind [upd, Pub, pushNodeC, elimd, isUnlC, passive, pushNodePc, ctxNode, retry, Chain, Chain.upd, pub_facts]
    · constructor <;> intros <;> (try dsimp only at *) <;> grind [upd, Pub, pushNodeC, elimd, isUnlC, passive, pushNodePc, ctxNode, retry, pub_facts]
    · (intros; (try dsimp only at *); grind [upd, postRet, opOf, postRetC, opOfC, opOfPc, postPc, elimRet, retOf, ctxOf, isPopPc, ctxPop, elimd, isUnlC, passive, pushNodePc, ctxNode, retry, pub_facts, lifo_push, lifo_pop_some, lifo_pop_none])
    · (intros; (try dsimp only at *); grind [upd, postRet, opOf, postRetC, opOfC, opOfPc, postPc, elimRet, retOf, ctxOf, isPopPc, ctxPop, elimd, isUnlC, passive, pushNodePc, ctxNode, retry, pub_facts, lifo_push, lifo_pop_some, lifo_pop_none])
    · (intros; (try dsimp only at *); grind [upd, postRet, opOf, postRetC, opOfC, opOfPc, postPc, elimRet, retOf, ctxOf, isPopPc, ctxPop, elimd, isUnlC, passive, pushNodePc, ctxNode, retry, pub_facts, lifo_push, lifo_pop_some, lifo_pop_none])
    · (intros; (try dsimp only at *); grind [upd, postRet, opOf, postRetC, opOfC, opOfPc, postPc, elimRet, retOf, ctxOf, isPopPc, ctxPop, elimd, isUnlC, passive, pushNodePc, ctxNode, retry, pub_facts, lifo_push, lifo_pop_some, lifo_pop_none])
  next hne =>
    simp at hs; obtain ⟨rfl, -⟩ := hs
    refine ⟨l, ?_, ?_, .silent rfl ?_ ?_⟩
    · constructor <;> intros <;> (try dsimp only at *) <;> grind [upd, Pub, pushNodeC, elimd, isUnlC, passive, pushNodePc, ctxNode, retry, Chain, Chain.upd, pub_facts]
    · constructor <;> intros <;> (try dsimp only at *) <;> grind [upd, Pub, pushNodeC, elimd, isUnlC, passive, pushNodePc, ctxNode, retry, pub_facts]
    · (intros; (try dsimp only at *); grind [upd, postRet, opOf, postRetC, opOfC, opOfPc, postPc, elimRet, retOf, ctxOf, isPopPc, ctxPop, elimd, isUnlC, passive, pushNodePc, ctxNode, retry, pub_facts, lifo_push, lifo_pop_some, lifo_pop_none])
    · (intros; (try dsimp only at *); grind [upd, postRet, opOf, postRetC, opOfC, opOfPc, postPc, elimRet, retOf, ctxOf, isPopPc, ctxPop, elimd, isUnlC, passive, pushNodePc, ctxNode, retry, pub_facts, lifo_push, lifo_pop_some, lifo_pop_none])

set_option maxHeartbeats 4000000 in
theorem sinvl_step_popLd1 {s s' : St} {t : Tid} {ev : Ev} {l : List Nat} 
    (h : SInvL s l) (he : EInv s) (hpc : s.pc t = .popLd1 ) (hs : step s t = some (s', ev)) :
    ∃ l', SInvL s' l' ∧ StepEff s t s' l l' ∧ Shape s s' t l l' := by
  obtain ⟨hch, hnd, hpub, hfr, hown, hlk, hcx, hnx, hcl, htk, hpv, htl⟩ := h
  obtain ⟨e1, e2, e3, e4, e5, e6, e7, e8⟩ := he
  simp only [step, hpc] at hs
  simp at hs; obtain ⟨rfl, -⟩ := hs
  refine ⟨l, ?_, ?_, .silent rfl ?_ ?_⟩
  · constructor <;> intros <;> (try dsimp only at *) <;> grind [upd, Pub, pushNodeC, elimd, isUnlC, passive, pushNodePc, ctxNode, retry, Chain, Chain.upd, pub_facts]
  · constructor <;> intros <;> (try dsimp only at *) <;> grind [upd, Pub, pushNodeC, elimd, isUnlC, passive, pushNodePc, ctxNode, retry, pub_facts]
  · (intros; (try dsimp only at *); grind [upd, postRet, opOf, postRetC, opOfC, opOfPc, postPc, elimRet, retOf, ctxOf, isPopPc, ctxPop, elimd, isUnlC, passive, pushNodePc, ctxNode, retry, pub_facts, lifo_push, lifo_pop_some, lifo_pop_none])
  · (intros; (try dsimp only at *); grind [upd, postRet, opOf, postRetC, opOfC, opOfPc, postPc, elimRet, retOf, ctxOf, isPopPc, ctxPop, elimd, isUnlC, passive, pushNodePc, ctxNode, retry, pub_facts, lifo_push, lifo_pop_some, lifo_pop_none])

set_option maxHeartbeats 4000000 in
theorem sinvl_step_popLd2 {s s' : St} {t : Tid} {ev : Ev} {l : List Nat} {p : Option Nat}
    (h : SInvL s l) (he : EInv s) (hpc : s.pc t = .popLd2 p) (hs : step s t = some (s', ev)) :
    ∃ l', SInvL s' l' ∧ StepEff s t s' l l' ∧ Shape s s' t l l' := by
  obtain ⟨hch, hnd, hpub, hfr, hown, hlk, hcx, hnx, hcl, htk, hpv, htl⟩ := h
  obtain ⟨e1, e2, e3, e4, e5, e6, e7, e8⟩ := he
  simp only [step, hpc] at hs
  split at hs
  next heq =>
    split at hs
    next =>
      simp at hs; obtain ⟨rfl, -⟩ := hs
      have hl : l = [] := by cases l <;> simp_all [Chain]
      subst hl
      refine ⟨[], ?_, ?_, .single ⟨"pop", []⟩ [0] ?_ ?_ (by simp [lifo_pop_none]) ?_ ?_⟩
      · constructor <;> intros <;> (try dsimp only at *) <;> grind [upd, Pub, pushNodeC, elimd, isUnlC, passive, pushNodePc, ctxNode, retry, Chain, Chain.upd, pub_facts]
      · constructor <;> intros <;> (try dsimp only at *) <;> grind [upd, Pub, pushNodeC, elimd, isUnlC, passive, pushNodePc, ctxNode, retry, pub_facts]
      · (intros; (try dsimp only at *); grind [upd, postRet, opOf, postRetC, opOfC, opOfPc, postPc, elimRet, retOf, ctxOf, isPopPc, ctxPop, elimd, isUnlC, passive, pushNodePc, ctxNode, retry, pub_facts, lifo_push, lifo_pop_some, lifo_pop_none])
      · (intros; (try dsimp only at *); grind [upd, postRet, opOf, postRetC, opOfC, opOfPc, postPc, elimRet, retOf, ctxOf, isPopPc, ctxPop, elimd, isUnlC, passive, pushNodePc, ctxNode, retry, pub_facts, lifo_push, lifo_pop_some, lifo_pop_none])
      · (intros; (try dsimp only at *); grind [upd, postRet, opOf, postRetC, opOfC, opOfPc, postPc, elimRet, retOf, ctxOf, isPopPc, ctxPop, elimd, isUnlC, passive, pushNodePc, ctxNode, retry, pub_facts, lifo_push, lifo_pop_some, lifo_pop_none])
      · (intros; (try dsimp only at *); grind [upd, postRet, opOf, postRetC, opOfC, opOfPc, postPc, elimRet, retOf, ctxOf, isPopPc, ctxPop, elimd, isUnlC, passive, pushNodePc, ctxNode, retry, pub_facts, lifo_push, lifo_pop_some, lifo_pop_none])
    next a =>
      simp at hs; obtain ⟨rfl, -⟩ := hs
      have ha : a ∈ l := by cases l <;> simp_all [Chain]
      refine ⟨l, ?_, ?_, .silent rfl ?_ ?_⟩
      · constructor <;> intros <;> (try dsimp only at *) <;> grind [upd, Pub, pushNodeC, elimd, isUnlC, passive, pushNodePc, ctxNode, retry, Chain, Chain.upd, pub_facts]
      · constructor <;> intros <;> (try dsimp only at *) <;> grind [upd, Pub, pushNodeC, elimd, isUnlC, passive, pushNodePc, ctxNode, retry, pub_facts]
      · (intros; (try dsimp only at *); grind [upd, postRet, opOf, postRetC, opOfC, opOfPc, postPc, elimRet, retOf, ctxOf, isPopPc, ctxPop, elimd, isUnlC, passive, pushNodePc, ctxNode, retry, pub_facts, lifo_push, lifo_pop_some, lifo_pop_none])
      · (intros; (try dsimp only at *); grind [upd, postRet, opOf, postRetC, opOfC, opOfPc, postPc, elimRet, retOf, ctxOf, isPopPc, ctxPop, elimd, isUnlC, passive, pushNodePc, ctxNode, retry, pub_facts, lifo_push, lifo_pop_some, lifo_pop_none])
  next hne =>
    simp at hs; obtain ⟨rfl, -⟩ := hs
    refine ⟨l, ?_, ?_, .silent rfl ?_ ?_⟩
    · constructor <;> intros <;> (try dsimp only at *) <;> grind [upd, Pub, pushNodeC, elimd, isUnlC, passive, pushNodePc, ctxNode, retry, Chain, Chain.upd, pub_facts]
    · constructor <;> intros <;> (try dsimp only at *) <;> grind [upd, Pub, pushNodeC, elimd, isUnlC, passive, pushNodePc, ctxNode, retry, pub_facts]
    · (intros; (try dsimp only at *); grind [upd, postRet, opOf, postRetC, opOfC, opOfPc, postPc, elimRet, retOf, ctxOf, isPopPc, ctxPop, elimd, isUnlC, passive, pushNodePc, ctxNode, retry, pub_facts, lifo_push, lifo_pop_some, lifo_pop_none])
    · (intros; (try dsimp only at *); grind [upd, postRet, opOf, postRetC, opOfC, opOfPc, postPc, elimRet, retOf, ctxOf, isPopPc, ctxPop, elimd, isUnlC, passive, pushNodePc, ctxNode, retry, pub_facts, lifo_push, lifo_pop_some, lifo_pop_none])

set_option maxHeartbeats 4000000 in
theorem sinvl_step_popNext {s s' : St} {t : Tid} {ev : Ev} {l : List Nat} {a : Nat}
    (h : SInvL s l) (he : EInv s) (hpc : s.pc t = .popNext a) (hs : step s t = some (s', ev)) :
    ∃ l', SInvL s' l' ∧ StepEff s t s' l l' ∧ Shape s s' t l l' := by
  obtain ⟨hch, hnd, hpub, hfr, hown, hlk, hcx, hnx, hcl, htk, hpv, htl⟩ := h
  obtain ⟨e1, e2, e3, e4, e5, e6, e7, e8⟩ := he
  simp only [step, hpc] at hs
  simp at hs; obtain ⟨rfl, -⟩ := hs
  refine ⟨l, ?_, ?_, .silent rfl ?_ ?_⟩
  · constructor <;> intros <;> (try dsimp only at *) <;> grind [upd, Pub, pushNodeC, elimd, isUnlC, passive, pushNodePc, ctxNode, retry, Chain, Chain.upd, pub_facts]
  · constructor <;> intros <;> (try dsimp only at *) <;> grind [upd, Pub, pushNodeC, elimd, isUnlC, passive, pushNodePc, ctxNode, retry, pub_facts]
  · (intros; (try dsimp only at *); grind [upd, postRet, opOf, postRetC, opOfC, opOfPc, postPc, elimRet, retOf, ctxOf, isPopPc, ctxPop, elimd, isUnlC, passive, pushNodePc, ctxNode, retry, pub_facts, lifo_push, lifo_pop_some, lifo_pop_none])
  · (intros; (try dsimp only at *); grind [upd, postRet, opOf, postRetC, opOfC, opOfPc, postPc, elimRet, retOf, ctxOf, isPopPc, ctxPop, elimd, isUnlC, passive, pushNodePc, ctxNode, retry, pub_facts, lifo_push, lifo_pop_some, lifo_pop_none])

set_option maxHeartbeats 4000000 in
theorem sinvl_step_popCas {s s' : St} {t : Tid} {ev : Ev} {l : List Nat} {a : Nat} {nx : Option Nat}
    (h : SInvL s l) (he : EInv s) (hpc : s.pc t = .popCas a nx) (hs : step s t = some (s', ev)) :
    ∃ l', SInvL s' l' ∧ StepEff s t s' l l' ∧ Shape s s' t l l' := by
  obtain ⟨hch, hnd, hpub, hfr, hown, hlk, hcx, hnx, hcl, htk, hpv, htl⟩ := h
  obtain ⟨e1, e2, e3, e4, e5, e6, e7, e8⟩ := he
  simp only [step, hpc] at hs
  split at hs
  next heq =>
    simp at hs; obtain ⟨rfl, -⟩ := hs
    obtain ⟨hpa, hnxa⟩ := hcx t a nx hpc
    cases l with
    | nil => simp_all [Chain]
    | cons b l0 =>
      have hb : b = a := by simp_all [Chain]
      subst hb
      have hnx' := hnxa (by simp)
      have hlp : lifo.next ((b :: l0).map s.val) ⟨"pop", []⟩ [1, s.val b] = some (l0.map s.val) := by
        simp [lifo_pop_some]
      refine ⟨l0, ?_, ?_, .single ⟨"pop", []⟩ [1, s.val b] ?_ ?_ hlp ?_ ?_⟩
      · constructor <;> intros <;> (try dsimp only at *) <;> grind [upd, Pub, pushNodeC, elimd, isUnlC, passive, pushNodePc, ctxNode, retry, Chain, Chain.upd, pub_facts]
      · constructor <;> intros <;> (try dsimp only at *) <;> grind [upd, Pub, pushNodeC, elimd, isUnlC, passive, pushNodePc, ctxNode, retry, pub_facts]
      · (intros; (try dsimp only at *); grind [upd, postRet, opOf, postRetC, opOfC, opOfPc, postPc, elimRet, retOf, ctxOf, isPopPc, ctxPop, elimd, isUnlC, passive, pushNodePc, ctxNode, retry, pub_facts, lifo_push, lifo_pop_some, lifo_pop_none])
      · (intros; (try dsimp only at *); grind [upd, postRet, opOf, postRetC, opOfC, opOfPc, postPc, elimRet, retOf, ctxOf, isPopPc, ctxPop, elimd, isUnlC, passive, pushNodePc, ctxNode, retry, pub_facts, lifo_push, lifo_pop_some, lifo_pop_none])
      · (intros; (try dsimp only at *); grind [upd, postRet, opOf, postRetC, opOfC, opOfPc, postPc, elimRet, retOf, ctxOf, isPopPc, ctxPop, elimd, isUnlC, passive, pushNodePc, ctxNode, retry, pub_facts, lifo_push, lifo_pop_some, lifo_pop_none])
      · (intros; (try dsimp only at *); grind [upd, postRet, opOf, postRetC, opOfC, opOfPc, postPc, elimRet, retOf, ctxOf, isPopPc, ctxPop, elimd, isUnlC, passive, pushNodePc, ctxNode, retry, pub_facts, lifo_push, lifo_pop_some, lifo_pop_none])
  next hne =>
    simp at hs; obtain ⟨rfl, -⟩ := hs
    refine ⟨l, ?_, ?_, .silent rfl ?_ ?_⟩
    · constructor <;> intros <;> (try dsimp only at *) <;> grind [upd, Pub, pushNodeC, elimd, isUnlC, passive, pushNodePc, ctxNode, retry, Chain, Chain.upd, pub_facts]
    · constructor <;> intros <;> (try dsimp only at *) <;> grind [upd, Pub, pushNodeC, elimd, isUnlC, passive, pushNodePc, ctxNode, retry, pub_facts]
    · (intros; (try dsimp only at *); grind [upd, postRet, opOf, postRetC, opOfC, opOfPc, postPc, elimRet, retOf, ctxOf, isPopPc, ctxPop, elimd, isUnlC, passive, pushNodePc, ctxNode, retry, pub_facts, lifo_push, lifo_pop_some, lifo_pop_none])
    · (intros; (try dsimp only at *); grind [upd, postRet, opOf, postRetC, opOfC, opOfPc, postPc, elimRet, retOf, ctxOf, isPopPc, ctxPop, elimd, isUnlC, passive, pushNodePc, ctxNode, retry, pub_facts, lifo_push, lifo_pop_some, lifo_pop_none])

set_option maxHeartbeats 4000000 in
theorem sinvl_step_popClr {s s' : St} {t : Tid} {ev : Ev} {l : List Nat} {a : Nat} {r : GRet}
    (h : SInvL s l) (he : EInv s) (hpc : s.pc t = .popClr a r) (hs : step s t = some (s', ev)) :
    ∃ l', SInvL s' l' ∧ StepEff s t s' l l' ∧ Shape s s' t l l' := by
  obtain ⟨hch, hnd, hpub, hfr, hown, hlk, hcx, hnx, hcl, htk, hpv, htl⟩ := h
  obtain ⟨e1, e2, e3, e4, e5, e6, e7, e8⟩ := he
  simp only [step, hpc] at hs
  simp at hs; obtain ⟨rfl, -⟩ := hs
  have hn : a ∉ l := (hcl t a r hpc).2
  have hch' := Chain.upd (v := none) hn hch
  refine ⟨l, ?_, ?_, .silent rfl ?_ ?_⟩
  · constructor <;> intros <;> (try dsimp only at *) <;> grind [upd, Pub, pushNodeC, elimd, isUnlC, passive, pushNodePc, ctxNode, retry, Chain, Chain.upd, pub_facts]
  · constructor <;> intros <;> (try dsimp only at *) <;> grind [upd, Pub, pushNodeC, elimd, isUnlC, passive, pushNodePc, ctxNode, retry, pub_facts]
  · (intros; (try dsimp only at *); grind [upd, postRet, opOf, postRetC, opOfC, opOfPc, postPc, elimRet, retOf, ctxOf, isPopPc, ctxPop, elimd, isUnlC, passive, pushNodePc, ctxNode, retry, pub_facts, lifo_push, lifo_pop_some, lifo_pop_none])
  · (intros; (try dsimp only at *); grind [upd, postRet, opOf, postRetC, opOfC, opOfPc, postPc, elimRet, retOf, ctxOf, isPopPc, ctxPop, elimd, isUnlC, passive, pushNodePc, ctxNode, retry, pub_facts, lifo_push, lifo_pop_some, lifo_pop_none])

set_option maxHeartbeats 4000000 in
theorem sinvl_step_bkSt {s s' : St} {t : Tid} {ev : Ev} {l : List Nat} {c : Ctx} {sl : Nat} {k : Nat}
    (h : SInvL s l) (he : EInv s) (hpc : s.pc t = .bkSt c sl k) (hs : step s t = some (s', ev)) :
    ∃ l', SInvL s' l' ∧ StepEff s t s' l l' ∧ Shape s s' t l l' := by
  obtain ⟨hch, hnd, hpub, hfr, hown, hlk, hcx, hnx, hcl, htk, hpv, htl⟩ := h
  obtain ⟨e1, e2, e3, e4, e5, e6, e7, e8⟩ := he
  simp only [step, hpc] at hs
  simp at hs; obtain ⟨rfl, -⟩ := hs
  refine ⟨l, ?_, ?_, .silent rfl ?_ ?_⟩
  · constructor <;> intros <;> (try dsimp only at *) <;> grind [upd, Pub, pushNodeC, elimd, isUnlC, passive, pushNodePc, ctxNode, retry, Chain, Chain.upd, pub_facts]
  · constructor <;> intros <;> (try dsimp only at *) <;> grind [upd, Pub, pushNodeC, elimd, isUnlC, passive, pushNodePc, ctxNode, retry, pub_facts]
  · (intros; (try dsimp only at *); grind [upd, postRet, opOf, postRetC, opOfC, opOfPc, postPc, elimRet, retOf, ctxOf, isPopPc, ctxPop, elimd, isUnlC, passive, pushNodePc, ctxNode, retry, pub_facts, lifo_push, lifo_pop_some, lifo_pop_none])
  · (intros; (try dsimp only at *); grind [upd, postRet, opOf, postRetC, opOfC, opOfPc, postPc, elimRet, retOf, ctxOf, isPopPc, ctxPop, elimd, isUnlC, passive, pushNodePc, ctxNode, retry, pub_facts, lifo_push, lifo_pop_some, lifo_pop_none])

set_option maxHeartbeats 4000000 in
theorem sinvl_step_bkLock {s s' : St} {t : Tid} {ev : Ev} {l : List Nat} {c : Ctx} {sl : Nat} {k : Nat}
    (h : SInvL s l) (he : EInv s) (hpc : s.pc t = .bkLock c sl k) (hs : step s t = some (s', ev)) :
    ∃ l', SInvL s' l' ∧ StepEff s t s' l l' ∧ Shape s s' t l l' := by
  obtain ⟨hch, hnd, hpub, hfr, hown, hlk, hcx, hnx, hcl, htk, hpv, htl⟩ := h
  obtain ⟨e1, e2, e3, e4, e5, e6, e7, e8⟩ := he
  simp only [step, hpc] at hs
  split at hs
  next hlk1 =>
    simp at hs; obtain ⟨rfl, -⟩ := hs
    refine ⟨l, ?_, ?_, .silent rfl ?_ ?_⟩
    · constructor <;> intros <;> (try dsimp only at *) <;> grind [upd, Pub, pushNodeC, elimd, isUnlC, passive, pushNodePc, ctxNode, retry, Chain, Chain.upd, pub_facts]
    · constructor <;> intros <;> (try dsimp only at *) <;> grind [upd, Pub, pushNodeC, elimd, isUnlC, passive, pushNodePc, ctxNode, retry, pub_facts]
    · (intros; (try dsimp only at *); grind [upd, postRet, opOf, postRetC, opOfC, opOfPc, postPc, elimRet, retOf, ctxOf, isPopPc, ctxPop, elimd, isUnlC, passive, pushNodePc, ctxNode, retry, pub_facts, lifo_push, lifo_pop_some, lifo_pop_none])
    · (intros; (try dsimp only at *); grind [upd, postRet, opOf, postRetC, opOfC, opOfPc, postPc, elimRet, retOf, ctxOf, isPopPc, ctxPop, elimd, isUnlC, passive, pushNodePc, ctxNode, retry, pub_facts, lifo_push, lifo_pop_some, lifo_pop_none])
  next hlk0 =>
    simp at hs; obtain ⟨rfl, -⟩ := hs
    refine ⟨l, ?_, ?_, .silent rfl ?_ ?_⟩
    · constructor <;> intros <;> (try dsimp only at *) <;> grind [upd, Pub, pushNodeC, elimd, isUnlC, passive, pushNodePc, ctxNode, retry, Chain, Chain.upd, pub_facts]
    · constructor <;> intros <;> (try dsimp only at *) <;> grind [upd, Pub, pushNodeC, elimd, isUnlC, passive, pushNodePc, ctxNode, retry, pub_facts]
    · (intros; (try dsimp only at *); grind [upd, postRet, opOf, postRetC, opOfC, opOfPc, postPc, elimRet, retOf, ctxOf, isPopPc, ctxPop, elimd, isUnlC, passive, pushNodePc, ctxNode, retry, pub_facts, lifo_push, lifo_pop_some, lifo_pop_none])
    · (intros; (try dsimp only at *); grind [upd, postRet, opOf, postRetC, opOfC, opOfPc, postPc, elimRet, retOf, ctxOf, isPopPc, ctxPop, elimd, isUnlC, passive, pushNodePc, ctxNode, retry, pub_facts, lifo_push, lifo_pop_some, lifo_pop_none])

set_option maxHeartbeats 4000000 in
theorem sinvl_step_bkSpin {s s' : St} {t : Tid} {ev : Ev} {l : List Nat} {c : Ctx} {sl : Nat} {k : Nat}
    (h : SInvL s l) (he : EInv s) (hpc : s.pc t = .bkSpin c sl k) (hs : step s t = some (s', ev)) :
    ∃ l', SInvL s' l' ∧ StepEff s t s' l l' ∧ Shape s s' t l l' := by
  obtain ⟨hch, hnd, hpub, hfr, hown, hlk, hcx, hnx, hcl, htk, hpv, htl⟩ := h
  obtain ⟨e1, e2, e3, e4, e5, e6, e7, e8⟩ := he
  simp only [step, hpc] at hs
  split at hs
  next hlk1 =>
    simp at hs; obtain ⟨rfl, -⟩ := hs
    refine ⟨l, ?_, ?_, .silent rfl (fun _ => rfl) (fun _ => rfl)⟩
    · constructor <;> intros <;> (try dsimp only at *) <;> grind [upd, Pub, pushNodeC, elimd, isUnlC, passive, pushNodePc, ctxNode, retry, Chain, Chain.upd, pub_facts]
    · constructor <;> intros <;> (try dsimp only at *) <;> grind [upd, Pub, pushNodeC, elimd, isUnlC, passive, pushNodePc, ctxNode, retry, pub_facts]
  next hlk0 =>
    simp at hs; obtain ⟨rfl, -⟩ := hs
    refine ⟨l, ?_, ?_, .silent rfl ?_ ?_⟩
    · constructor <;> intros <;> (try dsimp only at *) <;> grind [upd, Pub, pushNodeC, elimd, isUnlC, passive, pushNodePc, ctxNode, retry, Chain, Chain.upd, pub_facts]
    · constructor <;> intros <;> (try dsimp only at *) <;> grind [upd, Pub, pushNodeC, elimd, isUnlC, passive, pushNodePc, ctxNode, retry, pub_facts]
    · (intros; (try dsimp only at *); grind [upd, postRet, opOf, postRetC, opOfC, opOfPc, postPc, elimRet, retOf, ctxOf, isPopPc, ctxPop, elimd, isUnlC, passive, pushNodePc, ctxNode, retry, pub_facts, lifo_push, lifo_pop_some, lifo_pop_none])
    · (intros; (try dsimp only at *); grind [upd, postRet, opOf, postRetC, opOfC, opOfPc, postPc, elimRet, retOf, ctxOf, isPopPc, ctxPop, elimd, isUnlC, passive, pushNodePc, ctxNode, retry, pub_facts, lifo_push, lifo_pop_some, lifo_pop_none])

set_option maxHeartbeats 4000000 in
theorem sinvl_step_bkLock2 {s s' : St} {t : Tid} {ev : Ev} {l : List Nat} {c : Ctx} {sl : Nat}
    (h : SInvL s l) (he : EInv s) (hpc : s.pc t = .bkLock2 c sl) (hs : step s t = some (s', ev)) :
    ∃ l', SInvL s' l' ∧ StepEff s t s' l l' ∧ Shape s s' t l l' := by
  obtain ⟨hch, hnd, hpub, hfr, hown, hlk, hcx, hnx, hcl, htk, hpv, htl⟩ := h
  obtain ⟨e1, e2, e3, e4, e5, e6, e7, e8⟩ := he
  simp only [step, hpc] at hs
  split at hs
  next hlk1 =>
    simp at hs; obtain ⟨rfl, -⟩ := hs
    refine ⟨l, ?_, ?_, .silent rfl ?_ ?_⟩
    · constructor <;> intros <;> (try dsimp only at *) <;> grind [upd, Pub, pushNodeC, elimd, isUnlC, passive, pushNodePc, ctxNode, retry, Chain, Chain.upd, pub_facts]
    · constructor <;> intros <;> (try dsimp only at *) <;> grind [upd, Pub, pushNodeC, elimd, isUnlC, passive, pushNodePc, ctxNode, retry, pub_facts]
    · (intros; (try dsimp only at *); grind [upd, postRet, opOf, postRetC, opOfC, opOfPc, postPc, elimRet, retOf, ctxOf, isPopPc, ctxPop, elimd, isUnlC, passive, pushNodePc, ctxNode, retry, pub_facts, lifo_push, lifo_pop_some, lifo_pop_none])
    · (intros; (try dsimp only at *); grind [upd, postRet, opOf, postRetC, opOfC, opOfPc, postPc, elimRet, retOf, ctxOf, isPopPc, ctxPop, elimd, isUnlC, passive, pushNodePc, ctxNode, retry, pub_facts, lifo_push, lifo_pop_some, lifo_pop_none])
  next hlk0 =>
    simp at hs; obtain ⟨rfl, -⟩ := hs
    refine ⟨l, ?_, ?_, .silent rfl ?_ ?_⟩
    · constructor <;> intros <;> (try dsimp only at *) <;> grind [upd, Pub, pushNodeC, elimd, isUnlC, passive, pushNodePc, ctxNode, retry, Chain, Chain.upd, pub_facts]
    · constructor <;> intros <;> (try dsimp only at *) <;> grind [upd, Pub, pushNodeC, elimd, isUnlC, passive, pushNodePc, ctxNode, retry, pub_facts]
    · (intros; (try dsimp only at *); grind [upd, postRet, opOf, postRetC, opOfC, opOfPc, postPc, elimRet, retOf, ctxOf, isPopPc, ctxPop, elimd, isUnlC, passive, pushNodePc, ctxNode, retry, pub_facts, lifo_push, lifo_pop_some, lifo_pop_none])
    · (intros; (try dsimp only at *); grind [upd, postRet, opOf, postRetC, opOfC, opOfPc, postPc, elimRet, retOf, ctxOf, isPopPc, ctxPop, elimd, isUnlC, passive, pushNodePc, ctxNode, retry, pub_facts, lifo_push, lifo_pop_some, lifo_pop_none])

set_option maxHeartbeats 4000000 in
theorem sinvl_step_bkSpin2 {s s' : St} {t : Tid} {ev : Ev} {l : List Nat} {c : Ctx} {sl : Nat}
    (h : SInvL s l) (he : EInv s) (hpc : s.pc t = .bkSpin2 c sl) (hs : step s t = some (s', ev)) :
    ∃ l', SInvL s' l' ∧ StepEff s t s' l l' ∧ Shape s s' t l l' := by
  obtain ⟨hch, hnd, hpub, hfr, hown, hlk, hcx, hnx, hcl, htk, hpv, htl⟩ := h
  obtain ⟨e1, e2, e3, e4, e5, e6, e7, e8⟩ := he
  simp only [step, hpc] at hs
  split at hs
  next hlk1 =>
    simp at hs; obtain ⟨rfl, -⟩ := hs
    refine ⟨l, ?_, ?_, .silent rfl (fun _ => rfl) (fun _ => rfl)⟩
    · constructor <;> intros <;> (try dsimp only at *) <;> grind [upd, Pub, pushNodeC, elimd, isUnlC, passive, pushNodePc, ctxNode, retry, Chain, Chain.upd, pub_facts]
    · constructor <;> intros <;> (try dsimp only at *) <;> grind [upd, Pub, pushNodeC, elimd, isUnlC, passive, pushNodePc, ctxNode, retry, pub_facts]
  next hlk0 =>
    simp at hs; obtain ⟨rfl, -⟩ := hs
    refine ⟨l, ?_, ?_, .silent rfl ?_ ?_⟩
    · constructor <;> intros <;> (try dsimp only at *) <;> grind [upd, Pub, pushNodeC, elimd, isUnlC, passive, pushNodePc, ctxNode, retry, Chain, Chain.upd, pub_facts]
    · constructor <;> intros <;> (try dsimp only at *) <;> grind [upd, Pub, pushNodeC, elimd, isUnlC, passive, pushNodePc, ctxNode, retry, pub_facts]
    · (intros; (try dsimp only at *); grind [upd, postRet, opOf, postRetC, opOfC, opOfPc, postPc, elimRet, retOf, ctxOf, isPopPc, ctxPop, elimd, isUnlC, passive, pushNodePc, ctxNode, retry, pub_facts, lifo_push, lifo_pop_some, lifo_pop_none])
    · (intros; (try dsimp only at *); grind [upd, postRet, opOf, postRetC, opOfC, opOfPc, postPc, elimRet, retOf, ctxOf, isPopPc, ctxPop, elimd, isUnlC, passive, pushNodePc, ctxNode, retry, pub_facts, lifo_push, lifo_pop_some, lifo_pop_none])

set_option maxHeartbeats 4000000 in
theorem sinvl_step_bkUnlC {s s' : St} {t : Tid} {ev : Ev} {l : List Nat} {c : Ctx} {sl : Nat}
    (h : SInvL s l) (he : EInv s) (hpc : s.pc t = .bkUnlC c sl) (hs : step s t = some (s', ev)) :
    ∃ l', SInvL s' l' ∧ StepEff s t s' l l' ∧ Shape s s' t l l' := by
  obtain ⟨hch, hnd, hpub, hfr, hown, hlk, hcx, hnx, hcl, htk, hpv, htl⟩ := h
  obtain ⟨e1, e2, e3, e4, e5, e6, e7, e8⟩ := he
  simp only [step, hpc] at hs
  simp at hs; obtain ⟨rfl, -⟩ := hs
  refine ⟨l, ?_, ?_, .silent rfl ?_ ?_⟩
  · constructor <;> intros <;> (try dsimp only at *) <;> grind [upd, Pub, pushNodeC, elimd, isUnlC, passive, pushNodePc, ctxNode, retry, Chain, Chain.upd, pub_facts]
  · constructor <;> intros <;> (try dsimp only at *) <;> grind [upd, Pub, pushNodeC, elimd, isUnlC, passive, pushNodePc, ctxNode, retry, pub_facts]
  · (intros; (try dsimp only at *); grind [upd, postRet, opOf, postRetC, opOfC, opOfPc, postPc, elimRet, retOf, ctxOf, isPopPc, ctxPop, elimd, isUnlC, passive, pushNodePc, ctxNode, retry, pub_facts, lifo_push, lifo_pop_some, lifo_pop_none])
  · (intros; (try dsimp only at *); grind [upd, postRet, opOf, postRetC, opOfC, opOfPc, postPc, elimRet, retOf, ctxOf, isPopPc, ctxPop, elimd, isUnlC, passive, pushNodePc, ctxNode, retry, pub_facts, lifo_push, lifo_pop_some, lifo_pop_none])

set_option maxHeartbeats 4000000 in
theorem sinvl_step_bkWait {s s' : St} {t : Tid} {ev : Ev} {l : List Nat} {c : Ctx} {sl : Nat} {k : Nat}
    (h : SInvL s l) (he : EInv s) (hpc : s.pc t = .bkWait c sl k) (hs : step s t = some (s', ev)) :
    ∃ l', SInvL s' l' ∧ StepEff s t s' l l' ∧ Shape s s' t l l' := by
  obtain ⟨hch, hnd, hpub, hfr, hown, hlk, hcx, hnx, hcl, htk, hpv, htl⟩ := h
  obtain ⟨e1, e2, e3, e4, e5, e6, e7, e8⟩ := he
  simp only [step, hpc] at hs
  split at hs
  next hst =>
    simp at hs; obtain ⟨rfl, -⟩ := hs
    refine ⟨l, ?_, ?_, .silent rfl ?_ ?_⟩
    · constructor <;> intros <;> (try dsimp only at *) <;> grind [upd, Pub, pushNodeC, elimd, isUnlC, passive, pushNodePc, ctxNode, retry, Chain, Chain.upd, pub_facts]
    · constructor <;> intros <;> (try dsimp only at *) <;> grind [upd, Pub, pushNodeC, elimd, isUnlC, passive, pushNodePc, ctxNode, retry, pub_facts]
    · (intros; (try dsimp only at *); grind [upd, postRet, opOf, postRetC, opOfC, opOfPc, postPc, elimRet, retOf, ctxOf, isPopPc, ctxPop, elimd, isUnlC, passive, pushNodePc, ctxNode, retry, pub_facts, lifo_push, lifo_pop_some, lifo_pop_none])
    · (intros; (try dsimp only at *); grind [upd, postRet, opOf, postRetC, opOfC, opOfPc, postPc, elimRet, retOf, ctxOf, isPopPc, ctxPop, elimd, isUnlC, passive, pushNodePc, ctxNode, retry, pub_facts, lifo_push, lifo_pop_some, lifo_pop_none])
  next hst =>
    split at hs
    next =>
      simp at hs; obtain ⟨rfl, -⟩ := hs
      refine ⟨l, ?_, ?_, .silent rfl ?_ ?_⟩
      · constructor <;> intros <;> (try dsimp only at *) <;> grind [upd, Pub, pushNodeC, elimd, isUnlC, passive, pushNodePc, ctxNode, retry, Chain, Chain.upd, pub_facts]
      · constructor <;> intros <;> (try dsimp only at *) <;> grind [upd, Pub, pushNodeC, elimd, isUnlC, passive, pushNodePc, ctxNode, retry, pub_facts]
      · (intros; (try dsimp only at *); grind [upd, postRet, opOf, postRetC, opOfC, opOfPc, postPc, elimRet, retOf, ctxOf, isPopPc, ctxPop, elimd, isUnlC, passive, pushNodePc, ctxNode, retry, pub_facts, lifo_push, lifo_pop_some, lifo_pop_none])
      · (intros; (try dsimp only at *); grind [upd, postRet, opOf, postRetC, opOfC, opOfPc, postPc, elimRet, retOf, ctxOf, isPopPc, ctxPop, elimd, isUnlC, passive, pushNodePc, ctxNode, retry, pub_facts, lifo_push, lifo_pop_some, lifo_pop_none])
    next k' =>
      simp at hs; obtain ⟨rfl, -⟩ := hs
      refine ⟨l, ?_, ?_, .silent rfl ?_ ?_⟩
      · constructor <;> intros <;> (try dsimp only at *) <;> grind [upd, Pub, pushNodeC, elimd, isUnlC, passive, pushNodePc, ctxNode, retry, Chain, Chain.upd, pub_facts]
      · constructor <;> intros <;> (try dsimp only at *) <;> grind [upd, Pub, pushNodeC, elimd, isUnlC, passive, pushNodePc, ctxNode, retry, pub_facts]
      · (intros; (try dsimp only at *); grind [upd, postRet, opOf, postRetC, opOfC, opOfPc, postPc, elimRet, retOf, ctxOf, isPopPc, ctxPop, elimd, isUnlC, passive, pushNodePc, ctxNode, retry, pub_facts, lifo_push, lifo_pop_some, lifo_pop_none])
      · (intros; (try dsimp only at *); grind [upd, postRet, opOf, postRetC, opOfC, opOfPc, postPc, elimRet, retOf, ctxOf, isPopPc, ctxPop, elimd, isUnlC, passive, pushNodePc, ctxNode, retry, pub_facts, lifo_push, lifo_pop_some, lifo_pop_none])

set_option maxHeartbeats 4000000 in
theorem sinvl_step_bkIn2 {s s' : St} {t : Tid} {ev : Ev} {l : List Nat} {c : Ctx} {sl : Nat}
    (h : SInvL s l) (he : EInv s) (hpc : s.pc t = .bkIn2 c sl) (hs : step s t = some (s', ev)) :
    ∃ l', SInvL s' l' ∧ StepEff s t s' l l' ∧ Shape s s' t l l' := by
  obtain ⟨hch, hnd, hpub, hfr, hown, hlk, hcx, hnx, hcl, htk, hpv, htl⟩ := h
  obtain ⟨e1, e2, e3, e4, e5, e6, e7, e8⟩ := he
  simp only [step, hpc] at hs
  simp at hs; obtain ⟨rfl, -⟩ := hs
  refine ⟨l, ?_, ?_, .silent rfl ?_ ?_⟩
  · constructor <;> intros <;> (try dsimp only at *) <;> grind [upd, Pub, pushNodeC, elimd, isUnlC, passive, pushNodePc, ctxNode, retry, Chain, Chain.upd, pub_facts]
  · constructor <;> intros <;> (try dsimp only at *) <;> grind [upd, Pub, pushNodeC, elimd, isUnlC, passive, pushNodePc, ctxNode, retry, pub_facts]
  · (intros; (try dsimp only at *); grind [upd, postRet, opOf, postRetC, opOfC, opOfPc, postPc, elimRet, retOf, ctxOf, isPopPc, ctxPop, elimd, isUnlC, passive, pushNodePc, ctxNode, retry, pub_facts, lifo_push, lifo_pop_some, lifo_pop_none])
  · (intros; (try dsimp only at *); grind [upd, postRet, opOf, postRetC, opOfC, opOfPc, postPc, elimRet, retOf, ctxOf, isPopPc, ctxPop, elimd, isUnlC, passive, pushNodePc, ctxNode, retry, pub_facts, lifo_push, lifo_pop_some, lifo_pop_none])

set_option maxHeartbeats 4000000 in
theorem sinvl_step_bkChk {s s' : St} {t : Tid} {ev : Ev} {l : List Nat} {c : Ctx}
    (h : SInvL s l) (he : EInv s) (hpc : s.pc t = .bkChk c) (hs : step s t = some (s', ev)) :
    ∃ l', SInvL s' l' ∧ StepEff s t s' l l' ∧ Shape s s' t l l' := by
  obtain ⟨hch, hnd, hpub, hfr, hown, hlk, hcx, hnx, hcl, htk, hpv, htl⟩ := h
  obtain ⟨e1, e2, e3, e4, e5, e6, e7, e8⟩ := he
  simp only [step, hpc] at hs
  cases c
  all_goals split at hs
  all_goals simp at hs
  all_goals obtain ⟨rfl, -⟩ := hs
  all_goals refine ⟨l, ?_, ?_, .silent rfl ?_ ?_⟩
  all_goals first
    | (constructor <;> intros <;> (try dsimp only at *) <;> grind [upd, Pub, pushNodeC, elimd, isUnlC, passive, pushNodePc, ctxNode, retry, Chain, Chain.upd, pub_facts]; done)
    | ((intros; (try dsimp only at *); grind [upd, postRet, opOf, postRetC, opOfC, opOfPc, postPc, elimRet, retOf, ctxOf, isPopPc, ctxPop, elimd, isUnlC, passive, pushNodePc, ctxNode, retry, pub_facts, lifo_push, lifo_pop_some, lifo_pop_none]))
theorem pub_ctx {pc : PC} {sl : Nat} (h : pubSlot pc = some sl) :
    ∃ c, ctxOf pc = some c ∧ isPopPc pc = ctxPop c ∧ pushNodePc pc = ctxNode c ∧ isUnlC pc = false ∧
      passive pc = true ∧ postPc pc = none := by
  cases pc <;> simp_all [pubSlot, ctxOf, isPopPc, pushNodePc, isUnlC, passive, postPc]

set_option maxHeartbeats 4000000 in
theorem sinvl_step_bkIn {s s' : St} {t : Tid} {ev : Ev} {l : List Nat} {c : Ctx} {sl : Nat} {k : Nat}
    (h : SInvL s l) (he : EInv s) (hpc : s.pc t = .bkIn c sl k) (hs : step s t = some (s', ev)) :
    ∃ l', SInvL s' l' ∧ StepEff s t s' l l' ∧ Shape s s' t l l' := by
  obtain ⟨hch, hnd, hpub, hfr, hown, hlk, hcx, hnx, hcl, htk, hpv, htl⟩ := h
  obtain ⟨e1, e2, e3, e4, e5, e6, e7, e8⟩ := he
  simp only [step, hpc] at hs
  split at hs
  next x h hrec =>
    split at hs
    next hkind =>
      obtain ⟨hpubh, hsth⟩ := e1 sl h hrec
      obtain ⟨ch, hc1, hc2, hc3, hc4, hc5, hc6⟩ := pub_ctx hpubh
      have hht : h ≠ t := by intro e; subst e; exact hkind rfl
      have hkt := e6 t
      have hkh := e6 h
      have hpt' := e7 t
      have hph' := e7 h
      split at hs
      next hpt =>
        -- `t` pushes node `n`, `h` pops
        cases c with
        | pop => simp [hpc, isPopPc, ctxPop, hpt] at hpt'
        | push n tv =>
          have hpvt : s.pval t = some n := (hkt n (by simp [hpc, pushNodePc, ctxNode])).2
          have hih : s.isPush h = false := by cases hq : s.isPush h <;> simp_all
          cases ch with
          | push n' tv' => simp [hc3, ctxNode, hih] at hkh
          | pop =>
            simp only [hpvt] at hs
            simp at hs; obtain ⟨hs', -⟩ := hs
            have hn : n ∉ l := fun hm => (hpub n hm).2 t (by simp [hpc, pushNodeC, elimd, isUnlC, passive, pushNodePc, ctxNode])
            have hpm : ∀ a, Pub s a → Pub s' a := by
              subst hs'
              intro a hp; obtain ⟨hp1, hp2⟩ := hp
              refine ⟨hp1, fun w => ?_⟩
              have := hp2 w
              dsimp only
              grind [upd, pushNodeC, elimd, isUnlC, passive]
            subst hs'
            refine ⟨l, ?_, ?_, .pair t h (s.val n) hht.symm rfl ?_ ?_ ?_ ?_ ?_ ?_ (Or.inl rfl)⟩
            · constructor <;> intros <;> (try dsimp only at *) <;> grind [upd, Pub, pushNodeC, elimd, isUnlC, passive, pushNodePc, ctxNode, retry, Chain, Chain.upd, pub_facts]
            · constructor <;> intros <;> (try dsimp only at *) <;> grind [upd, Pub, pushNodeC, elimd, isUnlC, passive, pushNodePc, ctxNode, retry, pub_facts]
            · grind [upd, postRet, opOf, postRetC, opOfC, opOfPc, postPc, elimRet, retOf, ctxOf, isPopPc, ctxPop, elimd, isUnlC, passive, pushNodePc, ctxNode]
            · grind [upd, postRet, opOf, postRetC, opOfC, opOfPc, postPc, elimRet, retOf, ctxOf, isPopPc, ctxPop, elimd, isUnlC, passive, pushNodePc, ctxNode]
            · grind [upd, postRet, opOf, postRetC, opOfC, opOfPc, postPc, elimRet, retOf, ctxOf, isPopPc, ctxPop, elimd, isUnlC, passive, pushNodePc, ctxNode]
            · grind [upd, postRet, opOf, postRetC, opOfC, opOfPc, postPc, elimRet, retOf, ctxOf, isPopPc, ctxPop, elimd, isUnlC, passive, pushNodePc, ctxNode]
            · (intro u; (try dsimp only); grind [upd, postRet, opOf, postRetC, opOfC, opOfPc, postPc, elimRet, retOf, ctxOf, isPopPc, ctxPop, elimd, isUnlC, passive, pushNodePc, ctxNode])
            · (intro u; (try dsimp only); grind [upd, postRet, opOf, postRetC, opOfC, opOfPc, postPc, elimRet, retOf, ctxOf, isPopPc, ctxPop, elimd, isUnlC, passive, pushNodePc, ctxNode])
      next hpt =>
        -- `t` pops, `h` pushes
        have hpt0 : s.isPush t = false := by cases hq : s.isPush t <;> simp_all
        have hih : s.isPush h = true := by cases hq : s.isPush h <;> simp_all
        cases c with
        | push n tv => simp [hpc, pushNodePc, ctxNode, hpt0] at hkt
        | pop =>
          cases ch with
          | pop => simp [hc2, ctxPop, hih] at hph'
          | push n' tv' =>
            have hpvh : s.pval h = some n' := (hkh n' (by simp [hc3, ctxNode])).2
            simp only [hpvh] at hs
            simp at hs; obtain ⟨hs', -⟩ := hs
            have hpm : ∀ a, Pub s a → Pub s' a := by
              subst hs'
              intro a hp; obtain ⟨hp1, hp2⟩ := hp
              refine ⟨hp1, fun w => ?_⟩
              have := hp2 w
              dsimp only
              grind [upd, pushNodeC, elimd, isUnlC, passive]
            subst hs'
            have hpnh : pushNodeC (s.pc h) (s.status h) = some n' := by
              simp [pushNodeC, elimd, hc4, hc5, hsth, hc3, ctxNode]
            have hn : n' ∉ l := fun hm => (hpub n' hm).2 h hpnh
            refine ⟨l, ?_, ?_, .pair h t (s.val n') hht rfl ?_ ?_ ?_ ?_ ?_ ?_ (Or.inr rfl)⟩
            · constructor <;> intros <;> (try dsimp only at *) <;> grind [upd, Pub, pushNodeC, elimd, isUnlC, passive, pushNodePc, ctxNode, retry, Chain, Chain.upd, pub_facts]
            · constructor <;> intros <;> (try dsimp only at *) <;> grind [upd, Pub, pushNodeC, elimd, isUnlC, passive, pushNodePc, ctxNode, retry, pub_facts]
            · grind [upd, postRet, opOf, postRetC, opOfC, opOfPc, postPc, elimRet, retOf, ctxOf, isPopPc, ctxPop, elimd, isUnlC, passive, pushNodePc, ctxNode]
            · grind [upd, postRet, opOf, postRetC, opOfC, opOfPc, postPc, elimRet, retOf, ctxOf, isPopPc, ctxPop, elimd, isUnlC, passive, pushNodePc, ctxNode]
            · grind [upd, postRet, opOf, postRetC, opOfC, opOfPc, postPc, elimRet, retOf, ctxOf, isPopPc, ctxPop, elimd, isUnlC, passive, pushNodePc, ctxNode]
            · grind [upd, postRet, opOf, postRetC, opOfC, opOfPc, postPc, elimRet, retOf, ctxOf, isPopPc, ctxPop, elimd, isUnlC, passive, pushNodePc, ctxNode]
            · (intro u; (try dsimp only); grind [upd, postRet, opOf, postRetC, opOfC, opOfPc, postPc, elimRet, retOf, ctxOf, isPopPc, ctxPop, elimd, isUnlC, passive, pushNodePc, ctxNode])
            · (intro u; (try dsimp only); grind [upd, postRet, opOf, postRetC, opOfC, opOfPc, postPc, elimRet, retOf, ctxOf, isPopPc, ctxPop, elimd, isUnlC, passive, pushNodePc, ctxNode])
    next hkind =>
      have hst := e4 t (by simp [hpc, preWait])
      simp at hs; obtain ⟨rfl, -⟩ := hs
      refine ⟨l, ?_, ?_, .silent rfl ?_ ?_⟩
      · constructor <;> intros <;> (try dsimp only at *) <;> grind [upd, Pub, pushNodeC, elimd, isUnlC, passive, pushNodePc, ctxNode, retry, Chain, Chain.upd, pub_facts]
      · constructor <;> intros <;> (try dsimp only at *) <;> grind [upd, Pub, pushNodeC, elimd, isUnlC, passive, pushNodePc, ctxNode, retry, pub_facts]
      · (intros; (try dsimp only at *); grind [upd, postRet, opOf, postRetC, opOfC, opOfPc, postPc, elimRet, retOf, ctxOf, isPopPc, ctxPop, elimd, isUnlC, passive, pushNodePc, ctxNode, retry, pub_facts, lifo_push, lifo_pop_some, lifo_pop_none])
      · (intros; (try dsimp only at *); grind [upd, postRet, opOf, postRetC, opOfC, opOfPc, postPc, elimRet, retOf, ctxOf, isPopPc, ctxPop, elimd, isUnlC, passive, pushNodePc, ctxNode, retry, pub_facts, lifo_push, lifo_pop_some, lifo_pop_none])
  next x hrec =>
    have hst := e4 t (by simp [hpc, preWait])
    simp at hs; obtain ⟨rfl, -⟩ := hs
    refine ⟨l, ?_, ?_, .silent rfl ?_ ?_⟩
    · constructor <;> intros <;> (try dsimp only at *) <;> grind [upd, Pub, pushNodeC, elimd, isUnlC, passive, pushNodePc, ctxNode, retry, Chain, Chain.upd, pub_facts]
    · constructor <;> intros <;> (try dsimp only at *) <;> grind [upd, Pub, pushNodeC, elimd, isUnlC, passive, pushNodePc, ctxNode, retry, pub_facts]
    · (intros; (try dsimp only at *); grind [upd, postRet, opOf, postRetC, opOfC, opOfPc, postPc, elimRet, retOf, ctxOf, isPopPc, ctxPop, elimd, isUnlC, passive, pushNodePc, ctxNode, retry, pub_facts, lifo_push, lifo_pop_some, lifo_pop_none])
    · (intros; (try dsimp only at *); grind [upd, postRet, opOf, postRetC, opOfC, opOfPc, postPc, elimRet, retOf, ctxOf, isPopPc, ctxPop, elimd, isUnlC, passive, pushNodePc, ctxNode, retry, pub_facts, lifo_push, lifo_pop_some, lifo_pop_none])

theorem sinvl_step {s s' : St} {t : Tid} {ev : Ev} {l : List Nat}
    (h : SInvL s l) (he : EInv s) (hs : step s t = some (s', ev)) :
    ∃ l', SInvL s' l' ∧ StepEff s t s' l l' ∧ Shape s s' t l l' := by
  cases hpc : s.pc t with
  | idle => simp [step, hpc] at hs
  | done r => simp [step, hpc] at hs
  | pushLd n => exact sinvl_step_pushLd h he hpc hs
  | pushSt n tv => exact sinvl_step_pushSt h he hpc hs
  | pushCas n tv => exact sinvl_step_pushCas h he hpc hs
  | popLd1  => exact sinvl_step_popLd1 h he hpc hs
  | popLd2 p => exact sinvl_step_popLd2 h he hpc hs
  | popNext a => exact sinvl_step_popNext h he hpc hs
  | popCas a nx => exact sinvl_step_popCas h he hpc hs
  | popClr a r => exact sinvl_step_popClr h he hpc hs
  | bkSt c sl k => exact sinvl_step_bkSt h he hpc hs
  | bkLock c sl k => exact sinvl_step_bkLock h he hpc hs
  | bkSpin c sl k => exact sinvl_step_bkSpin h he hpc hs
  | bkIn c sl k => exact sinvl_step_bkIn h he hpc hs
  | bkUnlC c sl => exact sinvl_step_bkUnlC h he hpc hs
  | bkWait c sl k => exact sinvl_step_bkWait h he hpc hs
  | bkLock2 c sl => exact sinvl_step_bkLock2 h he hpc hs
  | bkSpin2 c sl => exact sinvl_step_bkSpin2 h he hpc hs
  | bkIn2 c sl => exact sinvl_step_bkIn2 h he hpc hs
  | bkChk c => exact sinvl_step_bkChk h he hpc hs

/-! ### Invocation and return -/

/-- The operation of the sequential specification: the inputs of the back-off rounds are dropped. -/
def specOp (op : GOp) : GOp := if op.name = "push" then ⟨"push", op.args.take 1⟩ else ⟨op.name, []⟩

theorem postRetC_val (pc : PC) (st : Nat) (val : Nat → Int) (pv : Option Nat) (k : Nat) (v : Int)
    (h : ∀ n, pv = some n → n ≠ k) : postRetC pc st (upd val k v) pv = postRetC pc st val pv := by
  unfold postRetC
  split
  · cases ctxOf pc with
    | none => rfl
    | some c =>
      cases c with
      | push n tv => rfl
      | pop =>
        cases pv with
        | none => rfl
        | some n => simp [elimRet, retOf, upd, h n rfl]
  · rfl

theorem opOfC_val (pc : PC) (st : Nat) (val : Nat → Int) (k : Nat) (v : Int)
    (h : ∀ n, pushNodePc pc = some n → n ≠ k) : opOfC pc st (upd val k v) = opOfC pc st val := by
  unfold opOfC opOfPc
  split
  · rfl
  · cases hq : pushNodePc pc with
    | none => rfl
    | some n => simp [upd, h n hq]

structure InvokeEff (s : St) (t : Tid) (op : GOp) (s' : St) (l : List Nat) : Prop where
  posts : ∀ u, postRet s' u = postRet s u
  ops : ∀ u, u ≠ t → opOf s' u = opOf s u
  was : s.pc t = .idle
  now : opOf s' t = some (specOp op)
  nowpost : postRet s' t = none
  idle : ∀ u, u ≠ t → (s'.pc u = .idle ↔ s.pc u = .idle)
  busy : s'.pc t ≠ .idle
  abs : l.map s'.val = l.map s.val
  pubmono : ∀ a, Pub s a → Pub s' a
  tkmono : ∀ a u, s.taken a = some u → s'.taken a = some u
  elmono : ∀ a, s.elim a = true → s'.elim a = true

set_option maxHeartbeats 4000000 in
theorem sinvl_invoke {s s' : St} {t : Tid} {op : GOp} {l : List Nat}
    (h : SInvL s l) (he : EInv s) (hs : invoke s t op = some s') : SInvL s' l ∧ InvokeEff s t op s' l := by
  obtain ⟨hch, hnd, hpub, hfr, hown, hlk, hcx, hnx, hcl, htk, hpv, htl⟩ := h
  obtain ⟨e1, e2, e3, e4, e5, e6, e7, e8⟩ := he
  obtain ⟨name, args⟩ := op
  have hfr' : ∀ u n, pushNodePc (s.pc u) = some n → n ≠ s.cnt := fun u n h => Nat.ne_of_lt (hfr u n h)
  have e8' : ∀ u n, s.pval u = some n → n ≠ s.cnt := fun u n h => Nat.ne_of_lt (e8 u n h)
  unfold invoke at hs
  split at hs
  next v r hpc hname hargs =>
    simp at hs; subst hs
    dsimp only at hname hargs; subst hname hargs
    refine ⟨?_, ?_⟩
    · constructor <;> intros <;> (try dsimp only at *) <;> grind [upd, Pub, pushNodeC, elimd, isUnlC, passive, pushNodePc, ctxNode, retry, Chain, Chain.upd, pub_facts]
    · constructor
      · intro u
        dsimp only [postRet]
        by_cases hut : u = t
        · subst hut; simp [upd, hpc, postRetC, elimd, isUnlC, passive, postPc]
        · simp only [upd_other _ _ _ _ hut]
          exact postRetC_val _ _ _ _ _ _ (e8' u)
      · intro u hut
        dsimp only [opOf]
        simp only [upd_other _ _ _ _ hut]
        exact opOfC_val _ _ _ _ _ (hfr' u)
      · exact hpc
      · simp [opOf, opOfC, opOfPc, upd, elimd, isUnlC, passive, pushNodePc, specOp]
      · (intros; (try dsimp only at *); grind [upd, postRet, opOf, postRetC, opOfC, opOfPc, postPc, elimRet, retOf, ctxOf, isPopPc, ctxPop, elimd, isUnlC, passive, pushNodePc, ctxNode, retry, pub_facts, lifo_push, lifo_pop_some, lifo_pop_none])
      · (intros; (try dsimp only at *); grind [upd])
      · simp [upd]
      · apply List.map_congr_left
        intro a ha
        have := (hpub a ha).1
        simp [upd]; omega
      · (intros; (try dsimp only at *); grind [upd, Pub, pushNodeC, elimd, isUnlC, passive, pushNodePc, ctxNode])
      · (intros; assumption)
      · (intros; assumption)
  next _ _ _ hpc hname =>
    simp at hs; subst hs
    dsimp only at hname; subst hname
    refine ⟨?_, ?_⟩
    · constructor <;> intros <;> (try dsimp only at *) <;> grind [upd, Pub, pushNodeC, elimd, isUnlC, passive, pushNodePc, ctxNode, retry, Chain, Chain.upd, pub_facts]
    · constructor
      · (intros; (try dsimp only at *); grind [upd, postRet, opOf, postRetC, opOfC, opOfPc, postPc, elimRet, retOf, ctxOf, isPopPc, ctxPop, elimd, isUnlC, passive, pushNodePc, ctxNode, retry, pub_facts, lifo_push, lifo_pop_some, lifo_pop_none])
      · (intros; (try dsimp only at *); grind [upd, postRet, opOf, postRetC, opOfC, opOfPc, postPc, elimRet, retOf, ctxOf, isPopPc, ctxPop, elimd, isUnlC, passive, pushNodePc, ctxNode, retry, pub_facts, lifo_push, lifo_pop_some, lifo_pop_none])
      · exact hpc
      · simp [opOf, opOfC, opOfPc, upd, elimd, isUnlC, passive, pushNodePc, isPopPc, specOp]
      · (intros; (try dsimp only at *); grind [upd, postRet, opOf, postRetC, opOfC, opOfPc, postPc, elimRet, retOf, ctxOf, isPopPc, ctxPop, elimd, isUnlC, passive, pushNodePc, ctxNode, retry, pub_facts, lifo_push, lifo_pop_some, lifo_pop_none])
      · (intros; (try dsimp only at *); grind [upd])
      · simp [upd]
      · rfl
      · (intros; (try dsimp only at *); grind [upd, Pub, pushNodeC, elimd, isUnlC, passive, pushNodePc, ctxNode])
      · (intros; assumption)
      · (intros; assumption)
  next => simp at hs

structure ResultEff (s : St) (t : Tid) (r : GRet) (s' : St) : Prop where
  was : postRet s t = some r
  posts : ∀ u, postRet s' u = if u = t then none else postRet s u
  ops : ∀ u, opOf s' u = opOf s u
  now : s'.pc t = .idle
  idle : ∀ u, u ≠ t → (s'.pc u = .idle ↔ s.pc u = .idle)
  val : s'.val = s.val
  pubmono : ∀ a, Pub s a → Pub s' a
  tkmono : ∀ a u, s.taken a = some u → s'.taken a = some u
  elmono : ∀ a, s.elim a = true → s'.elim a = true

set_option maxHeartbeats 4000000 in
theorem sinvl_result {s s' : St} {t : Tid} {r : GRet} {l : List Nat}
    (h : SInvL s l) (he : EInv s) (hs : result s t = some (s', r)) : SInvL s' l ∧ ResultEff s t r s' := by
  obtain ⟨hch, hnd, hpub, hfr, hown, hlk, hcx, hnx, hcl, htk, hpv, htl⟩ := h
  obtain ⟨e1, e2, e3, e4, e5, e6, e7, e8⟩ := he
  unfold result at hs
  split at hs
  next r' hpc =>
    simp at hs; obtain ⟨rfl, rfl⟩ := hs
    refine ⟨?_, ?_⟩
    · constructor <;> intros <;> (try dsimp only at *) <;> grind [upd, Pub, pushNodeC, elimd, isUnlC, passive, pushNodePc, ctxNode, retry, Chain, Chain.upd, pub_facts]
    · constructor
      · simp [postRet, postRetC, hpc, elimd, isUnlC, passive, postPc]
      · (intros; (try dsimp only at *); grind [upd, postRet, opOf, postRetC, opOfC, opOfPc, postPc, elimRet, retOf, ctxOf, isPopPc, ctxPop, elimd, isUnlC, passive, pushNodePc, ctxNode, retry, pub_facts, lifo_push, lifo_pop_some, lifo_pop_none])
      · (intros; (try dsimp only at *); grind [upd, postRet, opOf, postRetC, opOfC, opOfPc, postPc, elimRet, retOf, ctxOf, isPopPc, ctxPop, elimd, isUnlC, passive, pushNodePc, ctxNode, retry, pub_facts, lifo_push, lifo_pop_some, lifo_pop_none])
      · simp [upd]
      · (intros; (try dsimp only at *); grind [upd])
      · rfl
      · (intros; (try dsimp only at *); grind [upd, Pub, pushNodeC, elimd, isUnlC, passive, pushNodePc, ctxNode])
      · (intros; assumption)
      · (intros; assumption)
  next => simp at hs

/-! ### Reachable states -/

/-- The invariant of the model: chain structure and collision protocol. -/
def MInv (s : St) : Prop := (∃ l, SInvL s l) ∧ EInv s

theorem minv_init : MInv init := ⟨⟨[], sinv_init⟩, einv_init⟩

theorem minv_apply {s s' : St} {t : Tid} {a : Act} {o : Obs} (h : MInv s)
    (hap : model.apply s t a = some (s', o)) : MInv s' := by
  obtain ⟨⟨l, hl⟩, he⟩ := h
  cases a with
  | invoke op =>
    simp only [Model.apply, model, Option.map_eq_some_iff] at hap
    obtain ⟨s1, hs1, heq⟩ := hap
    simp only [Prod.mk.injEq] at heq
    obtain ⟨rfl, -⟩ := heq
    exact ⟨⟨l, (sinvl_invoke hl he hs1).1⟩, einv_invoke he hs1⟩
  | step =>
    simp only [Model.apply, model, Option.map_eq_some_iff] at hap
    obtain ⟨⟨s1, e⟩, hs1, heq⟩ := hap
    simp only [Prod.mk.injEq] at heq
    obtain ⟨rfl, -⟩ := heq
    obtain ⟨l', hl', -⟩ := sinvl_step hl he hs1
    exact ⟨⟨l', hl'⟩, einv_step he hs1⟩
  | ret =>
    simp only [Model.apply, model, Option.map_eq_some_iff] at hap
    obtain ⟨⟨s1, r⟩, hs1, heq⟩ := hap
    simp only [Prod.mk.injEq] at heq
    obtain ⟨rfl, -⟩ := heq
    exact ⟨⟨l, (sinvl_result hl he hs1).1⟩, einv_result he hs1⟩

theorem minv_reachable (s : St) (h : model.Reachable init s) : MInv s :=
  model.inv_reachable MInv init minv_init (fun _ _ _ _ _ hi hap => minv_apply hi hap) s h

end CdsVerif.Algo.Elim

// Tie D for C01/C03: the reclamation decision of the real basic_smr::classic_scan / inplace_scan.
// One thread owns a record; its hazard slots and those of a second record are set to chosen objects,
// its retired array is filled with chosen objects, scan() is called; prints what was kept and freed.
// Line: scan <kind> H <addr…> R <addr…> -> K <addr…> F <addr…>   (addresses are arena offsets; odd = misaligned)
#include <cstdint>
#include <cstdio>
#include <cstdlib>
#include <vector>
#include <algorithm>
#include <thread>
#include <future>
#include <memory>
#include <cds/init.h>
#include <cds/gc/hp.h>

static uint64_t rng_s;
static uint64_t rnd()
{
    uint64_t z = ( rng_s += 0x9E3779B97F4A7C15ull );
    z = ( z ^ ( z >> 30 )) * 0xBF58476D1CE4E5B9ull;
    z = ( z ^ ( z >> 27 )) * 0x94D049BB133111EBull;
    return z ^ ( z >> 31 );
}

static char arena[4096];
static std::vector<long> freed;
static void disposer( void* p ) { freed.push_back( long( static_cast<char*>( p ) - arena )); }

static void one_case( bool classic, bool allow_odd )
{
    size_t H = 1 + rnd() % 4;
    cds::gc::HP hp( H, 2, 0, classic ? cds::gc::HP::scan_type::classic : cds::gc::HP::scan_type::inplace );
    cds::threading::Manager::attachThread();
    // a second record owned by another thread, whose hazards count too
    std::vector<long> other_hz;
    size_t nother = rnd() % ( H + 1 );
    std::vector<long> pool;             // distinct object offsets: 8*i (+1 when odd)
    for ( long i = 1; i <= 24; ++i ) pool.push_back( 8 * i + (( allow_odd && rnd() % 4 == 0 ) ? 1 : 0 ));
    std::random_shuffle( pool.begin(), pool.end(), []( int n ) { return int( rnd() % n ); } );
    size_t nret = 1 + rnd() % 7;        // default capacity is 2*H*2 >= 4; keep below it
    if ( nret >= 2 * H * 2 ) nret = 2 * H * 2 - 1;
    std::vector<long> retired( pool.begin(), pool.begin() + nret );
    std::vector<long> cand( pool.begin(), pool.begin() + nret + 4 );     // hazards are drawn from retired objects and a few others
    auto* rec = cds::gc::HP::hp_implementation::tls();
    std::vector<long> hz;
    {
        size_t nmine = rnd() % ( H + 1 );
        std::vector<cds::gc::HP::Guard*> gs;
        for ( size_t i = 0; i < nmine; ++i ) {
            gs.push_back( new cds::gc::HP::Guard );
            long o = cand[rnd() % cand.size()];
            gs.back()->assign( static_cast<void*>( arena + o ));
            hz.push_back( o );
        }
        std::vector<long> picks;
        for ( size_t i = 0; i < nother; ++i ) picks.push_back( cand[rnd() % cand.size()] );
        std::promise<void> ready, done;
        std::thread th( [&] {
            cds::threading::Manager::attachThread();
            {
                std::vector<std::unique_ptr<cds::gc::HP::Guard>> g2;
                for ( long o : picks ) {
                    g2.emplace_back( new cds::gc::HP::Guard );
                    g2.back()->assign( static_cast<void*>( arena + o ));
                }
                ready.set_value();
                done.get_future().wait();       // keep the record owned and the hazards set while the first thread scans
            }
            cds::threading::Manager::detachThread();
        } );
        ready.get_future().wait();
        for ( long o : picks ) hz.push_back( o );
        for ( long o : retired ) rec->retired_.push( cds::gc::hp::details::retired_ptr( static_cast<void*>( arena + o ), disposer ));
        freed.clear();
        cds::gc::HP::scan();
        std::printf( "scan %s H", classic ? "classic" : "inplace" );
        for ( long o : hz ) std::printf( " %ld", o );
        std::printf( " R" );
        for ( long o : retired ) std::printf( " %ld", o );
        std::printf( " -> K" );
        for ( auto* it = rec->retired_.first(), *e = rec->retired_.last(); it != e; ++it )
            std::printf( " %ld", long( static_cast<char*>( it->m_p ) - arena ));
        std::printf( " F" );
        for ( long o : freed ) std::printf( " %ld", o );
        std::printf( "\n" );
        for ( auto* g : gs ) delete g;
        done.set_value();
        th.join();
    }
    cds::threading::Manager::detachThread();
}

int main( int argc, char** argv )
{
    uint64_t seed = argc > 1 ? strtoull( argv[1], nullptr, 10 ) : 1;
    size_t n = argc > 2 ? strtoull( argv[2], nullptr, 10 ) : 300;
    rng_s = seed * 0x2545F4914F6CDD1Dull + 11;
    cds::Initialize();
    for ( size_t i = 0; i < n; ++i )
        one_case( i % 2 == 0, i % 3 == 0 );
    cds::Terminate();
    return 0;
}

/-
  MSPriorityQueue machine, layer 1 of the invariant: LOCK DISCIPLINE.

  The locks a thread holds are a function of its program counter (`holds`); the ghost owner table `own` is exactly
  that relation (`ow1`, `ow2`), a lock word is set exactly when the lock has an owner (`lk0`, `lk1`), the indices
  carried by the program counters are heap slots in range (`wf`), only threads below `nthr` run operations, and the
  item counter never exceeds the capacity.

  `SlotOK` collects the facts about the slot function of the bit-reversed counter used by the proofs:
  `rank` is the inverse of `slot` on `1 .. cap` (the k-th slot handed out is `slot k`; slot `i` is the `rank i`-th),
  the root is the first slot, a parent is handed out before its children and a left child before its right sibling.
  `Props/C11MSPQ.lean` proves them for the real counter (capacity `2^k - 1`).
-/
import CdsVerif.Algo.MSPQ.Model
namespace CdsVerif.Algo.MSPQ
open CdsVerif.Machine CdsVerif.Spec

structure SlotOK (c : Cfg) (rank : Nat → Nat) : Prop where
  cap_pos : 1 ≤ c.cap
  slot_range : ∀ m, 1 ≤ m → m ≤ c.cap → 1 ≤ c.slot m ∧ c.slot m ≤ c.cap
  rank_range : ∀ i, 1 ≤ i → i ≤ c.cap → 1 ≤ rank i ∧ rank i ≤ c.cap
  slot_rank : ∀ i, 1 ≤ i → i ≤ c.cap → c.slot (rank i) = i
  rank_slot : ∀ m, 1 ≤ m → m ≤ c.cap → rank (c.slot m) = m
  slot_one : c.slot 1 = 1
  rank_parent : ∀ i, 2 ≤ i → i ≤ c.cap → rank (i / 2) < rank i
  rank_sibling : ∀ p, 1 ≤ p → 2 * p + 1 ≤ c.cap → rank (2 * p) < rank (2 * p + 1)

/-- Locks held while waiting for the lock of acquisition `k`. -/
def kHolds : K → Nat → Prop
  | .pSz _, _ => False
  | .pNode _ _, l => l = 0
  | .hPar _, _ => False
  | .hItem i, l => l = i / 2
  | .hRoot, _ => False
  | .oSz, _ => False
  | .oTop _, l => l = 0
  | .oBot _, l => l = 0 ∨ l = 1
  | .dChild par _ _, l => l = par
  | .dRight par ch _, l => l = par ∨ l = ch

/-- The locks a thread holds at a program counter. -/
def holds : PC → Nat → Prop
  | .idle, _ => False
  | .acq k, l => kHolds k l
  | .spin k, l => kHolds k l
  | .pFullUnl, l => l = 0
  | .pFail, _ => False
  | .pUnlSz _ i, l => l = 0 ∨ l = i
  | .pUnlNode i, l => l = i
  | .hUnlItem i _, l => l = i / 2 ∨ l = i
  | .hUnlPar i _, l => l = i / 2
  | .hUnlRoot, l => l = 1
  | .pOk, _ => False
  | .oEmptyUnl, l => l = 0
  | .oFail, _ => False
  | .oUnlTop1 _, l => l = 0 ∨ l = 1
  | .oUnlSz1 _, l => l = 0
  | .oUnlSz b, l => l = 0 ∨ l = 1 ∨ l = b
  | .oUnlBot b _, l => l = 1 ∨ l = b
  | .oUnlTopE _, l => l = 1
  | .dUnlBreak par ch _, l => l = par ∨ l = ch
  | .dUnlLeft par ch _, l => l = par ∨ l = ch ∨ l = ch + 1
  | .dUnlRight par ch _, l => l = par ∨ l = ch ∨ l = ch + 1
  | .dUnlSwap par ch _, l => l = par ∨ l = ch
  | .dUnlPar par _, l => l = par
  | .oDone _, _ => False

def kWf (cap : Nat) : K → Prop
  | .pSz _ => True
  | .pNode _ i => 1 ≤ i ∧ i ≤ cap
  | .hPar i => 2 ≤ i ∧ i ≤ cap
  | .hItem i => 2 ≤ i ∧ i ≤ cap
  | .hRoot => True
  | .oSz => True
  | .oTop b => 1 ≤ b ∧ b ≤ cap
  | .oBot b => 2 ≤ b ∧ b ≤ cap
  | .dChild par ch _ => 1 ≤ par ∧ ch = 2 * par ∧ ch ≤ cap
  | .dRight par ch _ => 1 ≤ par ∧ ch = 2 * par ∧ ch + 1 ≤ cap

/-- The indices carried by a program counter are heap slots in range. -/
def wf (cap : Nat) : PC → Prop
  | .acq k => kWf cap k
  | .spin k => kWf cap k
  | .pUnlSz _ i => 1 ≤ i ∧ i ≤ cap
  | .pUnlNode i => 1 ≤ i ∧ i ≤ cap
  | .hUnlItem i i' => 2 ≤ i ∧ i ≤ cap ∧ i' ≤ i
  | .hUnlPar i i' => 2 ≤ i ∧ i ≤ cap ∧ i' ≤ i
  | .oUnlSz b => 2 ≤ b ∧ b ≤ cap
  | .oUnlBot b _ => 2 ≤ b ∧ b ≤ cap
  | .dUnlBreak par ch _ => 1 ≤ par ∧ (ch = 2 * par ∨ ch = 2 * par + 1) ∧ ch ≤ cap
  | .dUnlLeft par ch _ => 1 ≤ par ∧ ch = 2 * par ∧ ch + 1 ≤ cap
  | .dUnlRight par ch _ => 1 ≤ par ∧ ch = 2 * par ∧ ch + 1 ≤ cap
  | .dUnlSwap par ch _ => 1 ≤ par ∧ (ch = 2 * par ∨ ch = 2 * par + 1) ∧ ch ≤ cap
  | .dUnlPar par _ => 1 ≤ par ∧ par ≤ cap
  | _ => True

structure LInv (c : Cfg) (s : St) : Prop where
  ow1 : ∀ l t, s.own l = some t → holds (s.pc t) l
  ow2 : ∀ l t, holds (s.pc t) l → s.own l = some t
  lk0 : ∀ l, s.lk l = false → s.own l = none
  lk1 : ∀ l, s.own l = none → s.lk l = false
  wfp : ∀ t, wf c.cap (s.pc t)
  thr : ∀ t, s.pc t ≠ .idle → t < c.nthr
  cntle : s.cnt ≤ c.cap

theorem linv_init (c : Cfg) : LInv c init := by
  constructor <;> intros <;> simp_all [init, holds, wf]

macro "lgrind" : tactic =>
  `(tactic| grind (splits := 12) [upd, holds, kHolds, wf, kWf, K.lock, St.setPc, rel, pushLoop, popLoop])

/- `lg h X`: clause `X` of `LInv` for the post-state: unchanged, or by `grind` from the same clause, or from all clauses. -/
open Lean in
macro "lg" h:ident x:ident : tactic => do
  let f := mkIdent (`CdsVerif.Algo.MSPQ.LInv ++ x.getId.eraseMacroScopes)
  `(tactic| first
    | (dsimp only [St.setPc, rel]; exact $f $h)
    | (intros; have := $f $h; (try dsimp only [St.setPc, rel] at *); lgrind)
    | (intros; have := LInv.ow1 $h; have := LInv.ow2 $h; have := LInv.lk0 $h; have := LInv.lk1 $h
       have := LInv.wfp $h; have := LInv.thr $h; have := LInv.cntle $h
       (try dsimp only [St.setPc, rel] at *); lgrind))

macro "linv_all" h:ident : tactic =>
  `(tactic| (constructor; lg $h ow1; lg $h ow2; lg $h lk0; lg $h lk1; lg $h wfp; lg $h thr; lg $h cntle))

theorem linv_invoke {c : Cfg} {s s' : St} {t : Tid} {op : GOp} (h : LInv c s) (hs : invoke c s t op = some s') :
    LInv c s' := by
  unfold invoke at hs
  split at hs
  · split at hs
    · simp at hs; subst hs; linv_all h
    · simp at hs; subst hs; linv_all h
    · simp at hs
  · simp at hs

theorem linv_result {c : Cfg} {s s' : St} {t : Tid} {r : GRet} (h : LInv c s) (hs : result c s t = some (s', r)) :
    LInv c s' := by
  unfold result at hs
  split at hs <;> simp at hs <;> obtain ⟨rfl, -⟩ := hs <;> linv_all h

/-- Shape of an acquisition step: the lock is busy (the thread waits), or it is taken and `after` runs. -/
theorem step_acq {c : Cfg} {s s' : St} {t : Tid} {ev : Ev} {k : K} (hpc : s.pc t = .acq k)
    (hs : step c s t = some (s', ev)) :
    (s.lk k.lock = true ∧ s' = s.setPc t (.spin k)) ∨
    (s.lk k.lock = false ∧
      after c { s with lk := upd s.lk k.lock true, own := upd s.own k.lock (some t) } t k = some s') := by
  simp only [step, hpc] at hs
  split at hs
  next hl => simp at hs; exact Or.inl ⟨hl, hs.1.symm⟩
  next hl =>
    simp only [Option.map_eq_some_iff, Prod.mk.injEq] at hs
    obtain ⟨s1, h1, rfl, -⟩ := hs
    exact Or.inr ⟨by simpa using hl, h1⟩

set_option maxHeartbeats 1000000 in
theorem linv_after {c : Cfg} {rank : Nat → Nat} (hc : SlotOK c rank) {s s' : St} {t : Tid} {k : K} (h : LInv c s)
    (hpc : s.pc t = .acq k) (hl : s.lk k.lock = false)
    (hs : after c { s with lk := upd s.lk k.lock true, own := upd s.own k.lock (some t) } t k = some s') :
    LInv c s' := by
  have hown := h.lk0 _ hl
  have hsr := hc.slot_range
  cases k with
  | pSz v =>
    simp only [after] at hs
    split at hs <;> simp at hs <;> subst hs <;> linv_all h
  | pNode v i => simp only [after] at hs; simp at hs; subst hs; linv_all h
  | hPar i => simp only [after] at hs; simp at hs; subst hs; linv_all h
  | hItem i =>
    simp only [after] at hs
    split at hs
    · split at hs
      · split at hs <;> simp at hs <;> subst hs <;> linv_all h
      · simp at hs
    · split at hs
      · simp at hs; subst hs; linv_all h
      · split at hs <;> simp at hs <;> subst hs <;> linv_all h
  | hRoot =>
    simp only [after] at hs
    split at hs <;> simp at hs <;> subst hs <;> linv_all h
  | oSz =>
    simp only [after] at hs
    split at hs <;> simp at hs <;> subst hs <;> linv_all h
  | oTop b =>
    simp only [after] at hs
    split at hs <;> simp at hs <;> subst hs <;> linv_all h
  | oBot b => simp only [after] at hs; simp at hs; subst hs; linv_all h
  | dChild par ch pv =>
    simp only [after] at hs
    split at hs
    · simp at hs; subst hs; linv_all h
    · split at hs
      · simp at hs; subst hs; linv_all h
      · unfold dCompare at hs
        split at hs
        · split at hs <;> simp at hs <;> subst hs <;> linv_all h
        · simp at hs
  | dRight par ch pv =>
    simp only [after] at hs
    split at hs
    · simp at hs; subst hs; linv_all h
    · split at hs
      · split at hs <;> simp at hs <;> subst hs <;> linv_all h
      · simp at hs

set_option maxHeartbeats 1000000 in
theorem linv_step {c : Cfg} {rank : Nat → Nat} (hc : SlotOK c rank) {s s' : St} {t : Tid} {ev : Ev} (h : LInv c s)
    (hs : step c s t = some (s', ev)) : LInv c s' := by
  have hmine : ∀ l, holds (s.pc t) l → s.own l = some t := fun l => h.ow2 l t
  have hwf := h.wfp t
  cases hpc : s.pc t with
  | acq k =>
    rcases step_acq hpc hs with ⟨hl, rfl⟩ | ⟨hl, ha⟩
    · linv_all h
    · exact linv_after hc h hpc hl ha
  | spin k =>
    simp only [step, hpc] at hs
    simp at hs; obtain ⟨rfl, -⟩ := hs
    by_cases hl : s.lk k.lock = true <;> simp only [hl] <;> linv_all h
  | dUnlLeft par ch pv =>
    simp only [step, hpc, Option.map_eq_some_iff, Prod.mk.injEq] at hs
    obtain ⟨s1, h1, rfl, -⟩ := hs
    simp only [hpc, holds, wf] at hmine hwf
    unfold dCompare at h1
    split at h1
    · split at h1 <;> simp at h1 <;> subst h1 <;> linv_all h
    · simp at h1
  | dUnlRight par ch pv =>
    simp only [step, hpc, Option.map_eq_some_iff, Prod.mk.injEq] at hs
    obtain ⟨s1, h1, rfl, -⟩ := hs
    simp only [hpc, holds, wf] at hmine hwf
    unfold dCompare at h1
    split at h1
    · split at h1 <;> simp at h1 <;> subst h1 <;> linv_all h
    · simp at h1
  | oUnlBot b pv =>
    simp only [step, hpc] at hs
    simp only [hpc, holds, wf] at hmine hwf
    split at hs <;> simp at hs <;> obtain ⟨rfl, -⟩ := hs <;> linv_all h
  | idle => simp [step, hpc] at hs
  | pFail => simp [step, hpc] at hs
  | pOk => simp [step, hpc] at hs
  | oFail => simp [step, hpc] at hs
  | oDone pv => simp [step, hpc] at hs
  | _ =>
    simp only [step, hpc] at hs
    simp only [hpc, holds, wf] at hmine hwf
    simp at hs; obtain ⟨rfl, -⟩ := hs
    linv_all h

theorem apply_cases {c : Cfg} {s s' : St} {t : Tid} {a : Act} {o : Obs} (hap : (model c).apply s t a = some (s', o)) :
    (∃ op, a = .invoke op ∧ invoke c s t op = some s' ∧ o = .call op) ∨
    (∃ ev, a = .step ∧ step c s t = some (s', ev) ∧ o = .ev ev) ∨
    (∃ r, a = .ret ∧ result c s t = some (s', r) ∧ o = .ret r) := by
  cases a with
  | invoke op =>
    simp only [Model.apply, model, Option.map_eq_some_iff] at hap
    obtain ⟨s1, hs1, heq⟩ := hap
    simp only [Prod.mk.injEq] at heq
    obtain ⟨rfl, rfl⟩ := heq
    exact Or.inl ⟨op, rfl, hs1, rfl⟩
  | step =>
    simp only [Model.apply, model, Option.map_eq_some_iff] at hap
    obtain ⟨⟨s1, e⟩, hs1, heq⟩ := hap
    simp only [Prod.mk.injEq] at heq
    obtain ⟨rfl, rfl⟩ := heq
    exact Or.inr (Or.inl ⟨e, rfl, hs1, rfl⟩)
  | ret =>
    simp only [Model.apply, model, Option.map_eq_some_iff] at hap
    obtain ⟨⟨s1, r⟩, hs1, heq⟩ := hap
    simp only [Prod.mk.injEq] at heq
    obtain ⟨rfl, rfl⟩ := heq
    exact Or.inr (Or.inr ⟨r, rfl, hs1, rfl⟩)

theorem linv_apply {c : Cfg} {rank : Nat → Nat} (hc : SlotOK c rank) (s : St) (t : Tid) (a : Act) (s' : St) (o : Obs)
    (h : LInv c s) (hap : (model c).apply s t a = some (s', o)) : LInv c s' := by
  rcases apply_cases hap with ⟨op, -, hs, -⟩ | ⟨ev, -, hs, -⟩ | ⟨r, -, hs, -⟩
  · exact linv_invoke h hs
  · exact linv_step hc h hs
  · exact linv_result h hs

theorem linv_reachable {c : Cfg} {rank : Nat → Nat} (hc : SlotOK c rank) (s : St) (h : (model c).Reachable init s) :
    LInv c s :=
  (model c).inv_reachable (LInv c) init (linv_init c) (linv_apply hc) s h

end CdsVerif.Algo.MSPQ

/-
  Queue linearizability toolkit, part 3: the ghost-log construction of `Ghost.lean` for an ARBITRARY sequential
  specification `spec` on `List Int`, with the abstract state of the machine related to the state of the specification
  UP TO PERMUTATION.  Used for queues whose linearization order is not the order of their linearization points
  (BasketQueue): such a machine still refines the unordered POOL (`poolSpec`: `enq` adds an item, `deq` removes one that
  is present, `deq` answers "empty" only when nothing is present) step by step, which gives — for every run —
  linearizability to the pool: no loss, no duplication, no invention, "empty" only if empty.

  Obligations per action (`PSys.OK`) as in `Ghost.lean`, except that a linearization point has to be a transition of
  `spec` up to permutation (`PEff`), and `spec` must not change its state on a result `[0]` (`ret0`).
-/
import CdsVerif.Algo.QueueLin.History
namespace CdsVerif.Algo.QueueLinP
open CdsVerif.Machine CdsVerif.Spec CdsVerif.Lin CdsVerif.Algo.QueueLin

abbrev SpecL := CdsVerif.Lin.Spec (List Int) GOp GRet

/-- Sequential replay of the logged operations and results against `S`. -/
def runSpecS (S : SpecL) : List Int → List LE → Option (List Int)
  | st, [] => some st
  | st, e :: l => (S.next st e.op e.ret).bind (fun st' => runSpecS S st' l)

theorem runSpecS_append (S : SpecL) (l1 l2 : List LE) : ∀ st, runSpecS S st (l1 ++ l2) = (runSpecS S st l1).bind (fun st' => runSpecS S st' l2) := by
  induction l1 with
  | nil => intro st; simp [runSpecS]
  | cons e l ih =>
    intro st
    simp only [List.cons_append, runSpecS]
    cases S.next st e.op e.ret with
    | none => simp
    | some st1 => simp [ih]

theorem runSpecS_close (S : SpecL) (t c : Nat) (l : List LE) : ∀ st, runSpecS S st (l.map (LE.close t c)) = runSpecS S st l := by
  induction l with
  | nil => intro st; rfl
  | cons e l ih =>
    intro st
    have h1 : (LE.close t c e).op = e.op := by unfold LE.close; split <;> rfl
    have h2 : (LE.close t c e).ret = e.ret := by unfold LE.close; split <;> rfl
    simp only [List.map_cons, runSpecS, h1, h2, ih]

theorem legal_of_runSpecS (S : SpecL) (c : Nat) (l : List LE) : ∀ st st', runSpecS S st l = some st' → Legal S st (l.map (LE.fin c)) := by
  induction l with
  | nil => intro st st' _; trivial
  | cons e l ih =>
    intro st st' h
    simp only [runSpecS] at h
    cases hn : S.next st e.op e.ret with
    | none => simp [hn] at h
    | some st1 =>
      simp only [hn, Option.bind_some] at h
      exact ⟨st1, hn, ih st1 st' h⟩

/-- Entries answering `[0]` may be removed from a legal log. -/
theorem runSpecS_filter (S : SpecL) (ret0 : ∀ q op q', S.next q op [0] = some q' → q' = q) (P : LE → Bool) (l : List LE) :
    ∀ st st', (∀ e ∈ l, P e = false → e.ret = [0]) → runSpecS S st l = some st' → runSpecS S st (l.filter P) = some st' := by
  induction l with
  | nil => intro st st' _ h; simpa [runSpecS] using h
  | cons e l ih =>
    intro st st' hP h
    simp only [runSpecS] at h
    cases hn : S.next st e.op e.ret with
    | none => simp [hn] at h
    | some st1 =>
      simp only [hn, Option.bind_some] at h
      have hP' : ∀ e' ∈ l, P e' = false → e'.ret = [0] := fun e' he' => hP e' (List.mem_cons_of_mem _ he')
      simp only [List.filter_cons]
      cases hp : P e with
      | true =>
        simp only [if_true, runSpecS, hn, Option.bind_some]
        exact ih st1 st' hP' h
      | false =>
        have hr := hP e (by simp) hp
        rw [hr] at hn
        have := ret0 _ _ _ hn
        subst this
        simpa using ih st1 st' hP' h

theorem runSpecS_dropOpen (S : SpecL) (ret0 : ∀ q op q', S.next q op [0] = some q' → q' = q) (t : Nat) (l : List LE)
    (st st' : List Int) (h0 : ∀ e ∈ openOf t l, e.ret = [0])
    (h : runSpecS S st l = some st') : runSpecS S st (dropOpen t l) = some st' := by
  apply runSpecS_filter S ret0 _ _ _ _ _ h
  intro e he hp
  apply h0
  simp only [openOf, List.mem_filter]
  refine ⟨he, ?_⟩
  by_cases hc : e.tid = t ∧ e.res = none
  · simp [hc]
  · simp [hc] at hp

/-- A transition of `S` up to permutation of the state. -/
def PEff (S : SpecL) (q : List Int) (op : GOp) (r : GRet) (q' : List Int) : Prop :=
  ∀ q0 : List Int, q0.Perm q → ∃ q0', S.next q0 op r = some q0' ∧ q0'.Perm q'

structure QSys (σ : Type) where
  spec : SpecL
  model : Model σ
  init : σ
  Inv : σ → Prop
  absQ : σ → List Int
  lpRet : σ → Tid → Option GRet
  postRet : σ → Tid → Option GRet
  opOf : σ → Tid → Option GOp
  EmptyAt : σ → Tid → Prop

variable {σ : Type}

/-- The bookkeeping of the threads other than `t` is not touched by an action of `t`. -/
structure Frame (Q : QSys σ) (s s' : σ) (t : Tid) : Prop where
  lp : ∀ t2, t2 ≠ t → Q.lpRet s' t2 = Q.lpRet s t2
  op : ∀ t2, t2 ≠ t → Q.opOf s' t2 = Q.opOf s t2

structure InvokeOK (Q : QSys σ) (s : σ) (t : Tid) (op : GOp) (s' : σ) : Prop where
  inv : Q.Inv s'
  frame : Frame Q s s' t
  was : Q.lpRet s t = none
  nowop : Q.opOf s' t = some op
  nowlp : Q.lpRet s' t = none
  abs : Q.absQ s' = Q.absQ s

structure StepOK (Q : QSys σ) (s : σ) (t : Tid) (s' : σ) : Prop where
  inv : Q.Inv s'
  frame : Frame Q s s' t
  /-- passing a linearization point = a transition of `spec` (up to permutation), with the result fixed there -/
  lp : Q.lpRet s t = none → ∀ r, Q.lpRet s' t = some r →
        ∃ op, Q.opOf s t = some op ∧ PEff Q.spec (Q.absQ s) op r (Q.absQ s')
  nolp : (Q.lpRet s t ≠ none ∨ Q.lpRet s' t = none) → Q.absQ s' = Q.absQ s
  /-- only a tentative "empty" can be withdrawn -/
  keep : ∀ r, Q.lpRet s t = some r → Q.lpRet s' t = some r ∨ (r = [0] ∧ Q.lpRet s' t = none)
  op : Q.postRet s' t = none → Q.opOf s' t = Q.opOf s t
  empty : Q.lpRet s t = none → Q.lpRet s' t = some [0] → Q.EmptyAt s t

structure ResultOK (Q : QSys σ) (s : σ) (t : Tid) (r : GRet) (s' : σ) : Prop where
  inv : Q.Inv s'
  frame : Frame Q s s' t
  was : Q.lpRet s t = some r
  nowlp : Q.lpRet s' t = none
  nowop : Q.opOf s' t = none
  abs : Q.absQ s' = Q.absQ s

structure QSys.OK (Q : QSys σ) : Prop where
  ret0 : ∀ q op q', Q.spec.next q op [0] = some q' → q' = q
  spec_init : Q.spec.init = []
  inv_init : Q.Inv Q.init
  abs_init : Q.absQ Q.init = []
  lp_init : ∀ t, Q.lpRet Q.init t = none
  op_init : ∀ t, Q.opOf Q.init t = none
  post_lp : ∀ s t r, Q.postRet s t = some r → Q.lpRet s t = some r
  post_op : ∀ s t r, Q.postRet s t = some r → Q.opOf s t = none
  lp_post : ∀ s t r, Q.lpRet s t = some r → r ≠ [0] → Q.postRet s t = some r
  empty_abs : ∀ s t, Q.EmptyAt s t → Q.absQ s = []
  invoke : ∀ s t op s', Q.Inv s → Q.model.invoke s t op = some s' → InvokeOK Q s t op s'
  step : ∀ s t s' ev, Q.Inv s → Q.model.step s t = some (s', ev) → StepOK Q s t s'
  result : ∀ s t s' r, Q.Inv s → Q.model.result s t = some (s', r) → ResultOK Q s t r s'

/-! ### Instrumented runs -/

structure GSt (σ : Type) where
  s : σ
  clock : Nat                          -- number of actions so far = index of the next observation
  pend : Pend
  hist : List (OpRec GOp GRet)         -- records of the operations that have returned, in order of return
  log : List LE                        -- operations that have passed their linearization point, in that order
  trace : List σ                       -- the model states before each action so far (`trace[j]` = state before action `j`)

def ginit (Q : QSys σ) : GSt σ := ⟨Q.init, 0, fun _ => none, [], [], []⟩

/-- Ghost update for the action of thread `t` that leads to model state `s'` with observation `o`. -/
def gnext (Q : QSys σ) (g : GSt σ) (t : Tid) (s' : σ) : Obs → GSt σ
  | .call op =>
    { g with s := s', clock := g.clock + 1, pend := upd g.pend t (some (op, g.clock)), trace := g.trace ++ [g.s] }
  | .ev _ =>
    { g with
      s := s', clock := g.clock + 1, trace := g.trace ++ [g.s],
      log := match Q.lpRet g.s t, Q.lpRet s' t, g.pend t with
        | none, some r, some (op, k) => g.log ++ [⟨t, op, r, k, none⟩]     -- linearization point (possibly tentative)
        | some _, none, _ => dropOpen t g.log                               -- tentative linearization withdrawn
        | _, _, _ => g.log }
  | .ret r =>
    match g.pend t with
    | some (op, k) =>
      { s := s', clock := g.clock + 1, pend := upd g.pend t none,
        hist := g.hist ++ [⟨t, op, r, k, g.clock⟩], log := g.log.map (LE.close t g.clock),
        trace := g.trace ++ [g.s] }
    | none => { g with s := s', clock := g.clock + 1, trace := g.trace ++ [g.s] }

structure GI (Q : QSys σ) (g : GSt σ) : Prop where
  spec : ∃ q0, runSpecS Q.spec [] g.log = some q0 ∧ q0.Perm (Q.absQ g.s)
  invlt : ∀ e, e ∈ g.log → e.inv < g.clock
  rt : g.log.Pairwise (fun a b => ∀ r, b.res = some r → a.inv ≤ r)
  comp : (completed g.log).Perm g.hist
  pendlt : ∀ t op k, g.pend t = some (op, k) → k < g.clock
  pre : ∀ t op, Q.opOf g.s t = some op → ∃ k, g.pend t = some (op, k)
  preopen : ∀ t, Q.lpRet g.s t = none → openOf t g.log = []
  post : ∀ t r, Q.lpRet g.s t = some r → ∃ op k, g.pend t = some (op, k) ∧ openOf t g.log = [⟨t, op, r, k, none⟩]

def GInv (Q : QSys σ) (g : GSt σ) : Prop := Q.Inv g.s ∧ GI Q g

theorem ginv_init {Q : QSys σ} (hQ : Q.OK) : GInv Q (ginit Q) := by
  refine ⟨hQ.inv_init, ?_⟩
  constructor <;> simp [ginit, runSpecS, completed, openOf, hQ.abs_init, hQ.lp_init, hQ.op_init]

theorem ginv_invoke {Q : QSys σ} (hQ : Q.OK) {g : GSt σ} {t : Tid} {op : GOp} {s' : σ} (h : GInv Q g)
    (hs : Q.model.invoke g.s t op = some s') : GInv Q (gnext Q g t s' (.call op)) := by
  obtain ⟨hl, hg⟩ := h
  obtain ⟨hl', ⟨hflp, hfop⟩, hpw, hnowop, hnowlp, habs⟩ := hQ.invoke _ _ _ _ hl hs
  refine ⟨hl', ?_⟩
  obtain ⟨hspec, hinvlt, hrt, hcomp, hpendlt, hpre, hpreopen, hpost⟩ := hg
  constructor
  · simp only [gnext]; rw [habs]; exact hspec
  · intro e he; have := hinvlt e he; simp only [gnext]; omega
  · exact hrt
  · exact hcomp
  · intro t2 op2 k; simp only [gnext, upd]; intro h
    split at h
    · simp at h; omega
    · have := hpendlt t2 op2 k h; omega
  · intro t2 op2; simp only [gnext]
    by_cases ht : t2 = t
    · subst ht; rw [hnowop]; intro h; simp at h; subst h; exact ⟨g.clock, by simp [upd]⟩
    · rw [hfop t2 ht]; intro h
      obtain ⟨k, hk⟩ := hpre t2 op2 h
      exact ⟨k, by simp [upd, ht, hk]⟩
  · intro t2; simp only [gnext]
    by_cases ht : t2 = t
    · subst ht; intro _; exact hpreopen t2 hpw
    · rw [hflp t2 ht]; exact hpreopen t2
  · intro t2 r; simp only [gnext]
    by_cases ht : t2 = t
    · subst ht; rw [hnowlp]; intro h; simp at h
    · rw [hflp t2 ht]; intro h
      obtain ⟨op2, k, h1, h2⟩ := hpost t2 r h
      exact ⟨op2, k, by simp [upd, ht, h1], h2⟩

theorem ginv_result {Q : QSys σ} (hQ : Q.OK) {g : GSt σ} {t : Tid} {r : GRet} {s' : σ} (h : GInv Q g)
    (hs : Q.model.result g.s t = some (s', r)) : GInv Q (gnext Q g t s' (.ret r)) := by
  obtain ⟨hl, hg⟩ := h
  obtain ⟨hl', ⟨hflp, hfop⟩, hdone, hidlp, hidop, habs⟩ := hQ.result _ _ _ _ hl hs
  obtain ⟨hspec, hinvlt, hrt, hcomp, hpendlt, hpre, hpreopen, hpost⟩ := hg
  obtain ⟨op, k, hp, hopen⟩ := hpost t r hdone
  have hcl : ∀ e, (LE.close t g.clock e).inv = e.inv := by intro e; unfold LE.close; split <;> rfl
  simp only [gnext, hp]
  refine ⟨hl', ?_⟩
  constructor <;> dsimp only
  · rw [runSpecS_close, habs]; exact hspec
  · intro e he
    obtain ⟨e0, he0, rfl⟩ := List.mem_map.mp he
    have := hinvlt e0 he0; rw [hcl]; omega
  · rw [List.pairwise_map]
    refine List.Pairwise.imp_of_mem ?_ hrt
    intro a b ha hb hab r' hr'
    rw [hcl]
    unfold LE.close at hr'
    split at hr'
    · simp at hr'; have := hinvlt a ha; omega
    · exact hab r' hr'
  · refine (completed_close t g.clock g.log).trans ?_
    rw [hopen]
    exact List.Perm.append_right _ hcomp
  · intro t2 op2 k2 h
    simp only [upd] at h
    split at h
    · simp at h
    · have := hpendlt t2 op2 k2 h; omega
  · intro t2 op2
    by_cases ht : t2 = t
    · subst ht; rw [hidop]; simp
    · rw [hfop t2 ht]; intro h
      obtain ⟨k2, hk⟩ := hpre t2 op2 h
      exact ⟨k2, by simp [upd, ht, hk]⟩
  · intro t2
    by_cases ht : t2 = t
    · subst ht; intro _; exact openOf_close_same _ _ _
    · rw [hflp t2 ht, openOf_close_other _ _ _ ht]; exact hpreopen t2
  · intro t2 r2
    by_cases ht : t2 = t
    · subst ht; rw [hidlp]; simp
    · rw [hflp t2 ht, openOf_close_other _ _ _ ht]; intro h
      obtain ⟨op2, k2, h1, h2⟩ := hpost t2 r2 h
      exact ⟨op2, k2, by simp [upd, ht, h1], h2⟩

theorem ginv_step {Q : QSys σ} (hQ : Q.OK) {g : GSt σ} {t : Tid} {ev : Ev} {s' : σ} (h : GInv Q g)
    (hs : Q.model.step g.s t = some (s', ev)) : GInv Q (gnext Q g t s' (.ev ev)) := by
  obtain ⟨hl, hg⟩ := h
  obtain ⟨hl', ⟨hflp, hfop⟩, hlp, hnolp, hkeep, hop, -⟩ := hQ.step _ _ _ _ hl hs
  refine ⟨hl', ?_⟩
  obtain ⟨hspec, hinvlt, hrt, hcomp, hpendlt, hpre, hpreopen, hpost⟩ := hg
  -- the operation table of the moving thread
  have hpre' : ∀ op2, Q.opOf s' t = some op2 → ∃ k, g.pend t = some (op2, k) := by
    intro op2
    cases hp : Q.postRet s' t with
    | some r => rw [hQ.post_op _ _ _ hp]; simp
    | none => rw [hop hp]; exact hpre t op2
  by_cases hLP : Q.lpRet g.s t = none ∧ ∃ r, Q.lpRet s' t = some r
  · -- linearization point (tentative or definitive)
    obtain ⟨h1, r, h2⟩ := hLP
    obtain ⟨op, hopo, hnext⟩ := hlp h1 r h2
    obtain ⟨k, hk⟩ := hpre t op hopo
    have hlog : (gnext Q g t s' (.ev ev)).log = g.log ++ [⟨t, op, r, k, none⟩] := by
      simp only [gnext, h1, h2, hk]
    constructor
    · obtain ⟨q0, hq0, hperm⟩ := hspec
      obtain ⟨q0', hn0, hperm'⟩ := hnext q0 hperm
      refine ⟨q0', ?_, by simpa only [gnext] using hperm'⟩
      rw [hlog, runSpecS_append, hq0]
      simp only [Option.bind_some, runSpecS]
      rw [hn0]; rfl
    · rw [hlog]; intro e he
      simp only [gnext]
      rcases List.mem_append.mp he with h | h
      · have := hinvlt e h; omega
      · simp at h; subst h; have := hpendlt t op k hk; simp only; omega
    · rw [hlog, List.pairwise_append]
      refine ⟨hrt, by simp, ?_⟩
      intro a _ b hb r' hr'
      simp at hb; subst hb; simp at hr'
    · rw [hlog]
      simp only [completed, List.filterMap_append, gnext] at hcomp ⊢
      have : List.filterMap LE.done? [(⟨t, op, r, k, none⟩ : LE)] = [] := by simp [LE.done?]
      rw [this, List.append_nil]; exact hcomp
    · intro t2 op2 k2 h
      simp only [gnext] at h ⊢
      have := hpendlt t2 op2 k2 h; omega
    · intro t2 op2
      simp only [gnext]
      by_cases ht : t2 = t
      · subst ht; exact hpre' op2
      · rw [hfop t2 ht]; exact hpre t2 op2
    · intro t2
      rw [hlog]; simp only [gnext]
      by_cases ht : t2 = t
      · subst ht; rw [h2]; simp
      · rw [hflp t2 ht, openOf_append]; intro h
        rw [hpreopen t2 h]
        have : t ≠ t2 := fun e => ht e.symm
        simp [openOf, this]
    · intro t2 r2
      rw [hlog]; simp only [gnext]
      by_cases ht : t2 = t
      · subst ht; rw [h2]; intro h; simp at h; subst h
        refine ⟨op, k, hk, ?_⟩
        rw [openOf_append, hpreopen t2 h1]
        simp [openOf]
      · rw [hflp t2 ht, openOf_append]; intro h
        obtain ⟨op2, k2, h3, h4⟩ := hpost t2 r2 h
        refine ⟨op2, k2, h3, ?_⟩
        rw [h4]
        have : t ≠ t2 := fun e => ht e.symm
        simp [openOf, this]
  · by_cases hAB : (∃ r, Q.lpRet g.s t = some r) ∧ Q.lpRet s' t = none
    · -- a tentative linearization is withdrawn: the entry answered `[0]` and leaves the log
      obtain ⟨⟨r, h1⟩, h2⟩ := hAB
      have hr0 : r = [0] := by
        rcases hkeep r h1 with h | h
        · rw [h2] at h; simp at h
        · exact h.1
      have hll := hnolp (Or.inr h2)
      obtain ⟨op, k, hk, hopen⟩ := hpost t r h1
      have hlog : (gnext Q g t s' (.ev ev)).log = dropOpen t g.log := by
        simp only [gnext, h1, h2]
      constructor
      · obtain ⟨q0, hq0, hperm⟩ := hspec
        refine ⟨q0, ?_, by simp only [gnext]; rw [hll]; exact hperm⟩
        rw [hlog]
        apply runSpecS_dropOpen _ hQ.ret0 _ _ _ _ _ hq0
        intro e he; rw [hopen] at he; simp at he; rw [he]; exact hr0
      · rw [hlog]; intro e he; have := hinvlt e (mem_dropOpen he); simp only [gnext]; omega
      · rw [hlog]; exact hrt.sublist (dropOpen_sublist t g.log)
      · rw [hlog, completed_dropOpen]; exact hcomp
      · intro t2 op2 k2 h
        simp only [gnext] at h ⊢
        have := hpendlt t2 op2 k2 h; omega
      · intro t2 op2
        simp only [gnext]
        by_cases ht : t2 = t
        · subst ht; exact hpre' op2
        · rw [hfop t2 ht]; exact hpre t2 op2
      · intro t2
        rw [hlog]; simp only [gnext]
        by_cases ht : t2 = t
        · subst ht; intro _; exact openOf_dropOpen_same _ _
        · rw [hflp t2 ht, openOf_dropOpen_other _ _ ht]; exact hpreopen t2
      · intro t2 r2
        rw [hlog]; simp only [gnext]
        by_cases ht : t2 = t
        · subst ht; rw [h2]; intro h; simp at h
        · rw [hflp t2 ht, openOf_dropOpen_other _ _ ht]; exact hpost t2 r2
    · -- neither: the thread's linearization status is unchanged
      have hEq : Q.lpRet s' t = Q.lpRet g.s t := by
        cases h1 : Q.lpRet g.s t with
        | none =>
          cases h2 : Q.lpRet s' t with
          | none => rfl
          | some r => exact absurd ⟨h1, r, h2⟩ hLP
        | some r =>
          rcases hkeep r h1 with h | h
          · exact h
          · exact absurd ⟨⟨r, h1⟩, h.2⟩ hAB
      have hc : Q.lpRet g.s t ≠ none ∨ Q.lpRet s' t = none := by
        cases h1 : Q.lpRet g.s t with
        | none => right; rw [hEq, h1]
        | some r => left; simp
      have hll := hnolp hc
      have hlog : (gnext Q g t s' (.ev ev)).log = g.log := by
        simp only [gnext]
        split
        next h1 h2 _ => exact absurd ⟨h1, _, h2⟩ hLP
        next h1 h2 => exact absurd ⟨⟨_, h1⟩, h2⟩ hAB
        next => rfl
      constructor
      · rw [hlog]; simp only [gnext]; rw [hll]; exact hspec
      · rw [hlog]; intro e he; have := hinvlt e he; simp only [gnext]; omega
      · rw [hlog]; exact hrt
      · rw [hlog]; exact hcomp
      · intro t2 op2 k2 h
        simp only [gnext] at h ⊢
        have := hpendlt t2 op2 k2 h; omega
      · intro t2 op2
        simp only [gnext]
        by_cases ht : t2 = t
        · subst ht; exact hpre' op2
        · rw [hfop t2 ht]; exact hpre t2 op2
      · intro t2
        rw [hlog]; simp only [gnext]
        by_cases ht : t2 = t
        · subst ht; rw [hEq]; exact hpreopen t2
        · rw [hflp t2 ht]; exact hpreopen t2
      · intro t2 r2
        rw [hlog]; simp only [gnext]
        by_cases ht : t2 = t
        · subst ht; rw [hEq]; exact hpost t2 r2
        · rw [hflp t2 ht]; exact hpost t2 r2

/-! ### The instant at which an empty dequeue saw the empty queue -/

/-- Second ghost invariant: every dequeue that answered (or is about to answer) `[0]` has an instant `j`, after
    its call and before its return, at which `EmptyAt` held. -/
structure GE (Q : QSys σ) (g : GSt σ) : Prop where
  tlen : g.trace.length = g.clock
  histemp : ∀ r, r ∈ g.hist → r.ret = [0] →
    ∃ j s1, r.inv < j ∧ j < r.res ∧ g.trace[j]? = some s1 ∧ Q.EmptyAt s1 r.tid
  pendemp : ∀ t, Q.lpRet g.s t = some [0] →
    ∃ j s1 op k, g.pend t = some (op, k) ∧ k < j ∧ j < g.clock ∧ g.trace[j]? = some s1 ∧ Q.EmptyAt s1 t

theorem ge_init {Q : QSys σ} (hQ : Q.OK) : GE Q (ginit Q) := by
  constructor <;> simp [ginit, hQ.lp_init]

theorem ge_invoke {Q : QSys σ} (hQ : Q.OK) {g : GSt σ} {t : Tid} {op : GOp} {s' : σ} (h : GInv Q g) (he : GE Q g)
    (hs : Q.model.invoke g.s t op = some s') : GE Q (gnext Q g t s' (.call op)) := by
  obtain ⟨hl, hg⟩ := h
  obtain ⟨-, ⟨hflp, -⟩, -, -, hnowlp, -⟩ := hQ.invoke _ _ _ _ hl hs
  obtain ⟨htlen, hhist, hpend⟩ := he
  constructor
  · simp only [gnext, List.length_append, List.length_singleton, htlen]
  · intro r hr hret
    obtain ⟨j, s1, h1, h2, h3, h4⟩ := hhist r hr hret
    exact ⟨j, s1, h1, h2, getElem?_snoc_of_some h3, h4⟩
  · intro t2
    simp only [gnext]
    by_cases ht : t2 = t
    · subst ht; rw [hnowlp]; intro h; simp at h
    · rw [hflp t2 ht]; intro h
      obtain ⟨j, s1, op2, k, h1, h2, h3, h4, h5⟩ := hpend t2 h
      exact ⟨j, s1, op2, k, by simp [upd, ht, h1], h2, by omega, getElem?_snoc_of_some h4, h5⟩

theorem ge_result {Q : QSys σ} (hQ : Q.OK) {g : GSt σ} {t : Tid} {r : GRet} {s' : σ} (h : GInv Q g) (he : GE Q g)
    (hs : Q.model.result g.s t = some (s', r)) : GE Q (gnext Q g t s' (.ret r)) := by
  obtain ⟨hl, hg⟩ := h
  obtain ⟨-, ⟨hflp, -⟩, hdone, hidlp, -, -⟩ := hQ.result _ _ _ _ hl hs
  obtain ⟨htlen, hhist, hpend⟩ := he
  obtain ⟨op, k, hp, -⟩ := hg.post t r hdone
  simp only [gnext, hp]
  constructor <;> dsimp only
  · simp only [List.length_append, List.length_singleton, htlen]
  · intro r0 hr hret
    rcases List.mem_append.mp hr with hr | hr
    · obtain ⟨j, s1, h1, h2, h3, h4⟩ := hhist r0 hr hret
      exact ⟨j, s1, h1, h2, getElem?_snoc_of_some h3, h4⟩
    · simp at hr; subst hr
      simp only at hret
      obtain ⟨j, s1, op2, k2, h1, h2, h3, h4, h5⟩ := hpend t (by rw [hdone, hret])
      rw [hp] at h1; simp at h1
      exact ⟨j, s1, by simp only; omega, h3, getElem?_snoc_of_some h4, h5⟩
  · intro t2
    by_cases ht : t2 = t
    · subst ht; rw [hidlp]; intro h; simp at h
    · rw [hflp t2 ht]; intro h
      obtain ⟨j, s1, op2, k2, h1, h2, h3, h4, h5⟩ := hpend t2 h
      exact ⟨j, s1, op2, k2, by simp [upd, ht, h1], h2, by omega, getElem?_snoc_of_some h4, h5⟩

theorem ge_step {Q : QSys σ} (hQ : Q.OK) {g : GSt σ} {t : Tid} {ev : Ev} {s' : σ} (h : GInv Q g) (he : GE Q g)
    (hs : Q.model.step g.s t = some (s', ev)) : GE Q (gnext Q g t s' (.ev ev)) := by
  obtain ⟨hl, hg⟩ := h
  obtain ⟨-, ⟨hflp, -⟩, -, -, hkeep, -, hempty⟩ := hQ.step _ _ _ _ hl hs
  obtain ⟨htlen, hhist, hpend⟩ := he
  constructor
  · simp only [gnext, List.length_append, List.length_singleton, htlen]
  · intro r hr hret
    obtain ⟨j, s1, h1, h2, h3, h4⟩ := hhist r hr hret
    exact ⟨j, s1, h1, h2, getElem?_snoc_of_some h3, h4⟩
  · intro t2
    simp only [gnext]
    by_cases ht : t2 = t
    · subst ht
      intro h2
      cases h1 : Q.lpRet g.s t2 with
      | none =>
        -- the (tentative) linearization point of an empty dequeue: the state before this very step
        have hE := hempty h1 h2
        obtain ⟨op, hopo, -⟩ := (hQ.step _ _ _ _ hl hs).lp h1 _ h2
        obtain ⟨k, hk⟩ := hg.pre t2 op hopo
        refine ⟨g.clock, g.s, _, k, hk, hg.pendlt _ _ _ hk, by omega, ?_, hE⟩
        rw [List.getElem?_append_right (by omega)]; simp [htlen]
      | some r =>
        have hr : r = [0] := by
          rcases hkeep r h1 with h | h
          · rw [h2] at h; simp at h; exact h.symm
          · exact h.1
        subst hr
        obtain ⟨j, s1, op2, k, e1, e2, e3, e4, e5⟩ := hpend t2 h1
        exact ⟨j, s1, op2, k, e1, e2, by omega, getElem?_snoc_of_some e4, e5⟩
    · rw [hflp t2 ht]; intro h
      obtain ⟨j, s1, op2, k, h1, h2, h3, h4, h5⟩ := hpend t2 h
      exact ⟨j, s1, op2, k, h1, h2, by omega, getElem?_snoc_of_some h4, h5⟩

theorem gnext_s (Q : QSys σ) (g : GSt σ) (t : Tid) (s' : σ) (o : Obs) : (gnext Q g t s' o).s = s' := by
  cases o <;> simp only [gnext]
  split <;> rfl

theorem gnext_clock (Q : QSys σ) (g : GSt σ) (t : Tid) (s' : σ) (o : Obs) : (gnext Q g t s' o).clock = g.clock + 1 := by
  cases o <;> simp only [gnext]
  split <;> rfl

theorem gnext_hist (Q : QSys σ) (g : GSt σ) (t : Tid) (s' : σ) (o : Obs) (os : List (Tid × Obs)) :
    (gnext Q g t s' o).hist ++ histAux (g.clock + 1) (gnext Q g t s' o).pend os
      = g.hist ++ histAux g.clock g.pend ((t, o) :: os) := by
  cases o with
  | call op => simp only [gnext, histAux]
  | ev e => simp only [gnext, histAux]
  | ret r =>
    simp only [gnext, histAux]
    cases hp : g.pend t with
    | none => simp only
    | some p => obtain ⟨op, k⟩ := p; simp only [List.append_assoc, List.singleton_append]

theorem gnext_pend (Q : QSys σ) (g : GSt σ) (t : Tid) (s' : σ) (o : Obs) (os : List (Tid × Obs)) :
    pendAux (g.clock + 1) (gnext Q g t s' o).pend os = pendAux g.clock g.pend ((t, o) :: os) := by
  cases o with
  | call op => simp only [gnext, pendAux]
  | ev e => simp only [gnext, pendAux]
  | ret r =>
    simp only [gnext, pendAux]
    cases hp : g.pend t with
    | none => simp only
    | some p => obtain ⟨op, k⟩ := p; simp only

theorem gnext_trace (Q : QSys σ) (g : GSt σ) (t : Tid) (s' : σ) (o : Obs) : (gnext Q g t s' o).trace = g.trace ++ [g.s] := by
  cases o <;> simp only [gnext]
  split <;> rfl

theorem ginv_apply {Q : QSys σ} (hQ : Q.OK) {g : GSt σ} {t : Tid} {a : Act} {s' : σ} {o : Obs} (h : GInv Q g)
    (hap : Q.model.apply g.s t a = some (s', o)) : GInv Q (gnext Q g t s' o) := by
  cases a with
  | invoke op =>
    simp only [Model.apply, Option.map_eq_some_iff] at hap
    obtain ⟨s1, hs1, heq⟩ := hap
    simp only [Prod.mk.injEq] at heq
    obtain ⟨rfl, rfl⟩ := heq
    exact ginv_invoke hQ h hs1
  | step =>
    simp only [Model.apply, Option.map_eq_some_iff] at hap
    obtain ⟨⟨s1, e⟩, hs1, heq⟩ := hap
    simp only [Prod.mk.injEq] at heq
    obtain ⟨rfl, rfl⟩ := heq
    exact ginv_step hQ h hs1
  | ret =>
    simp only [Model.apply, Option.map_eq_some_iff] at hap
    obtain ⟨⟨s1, r⟩, hs1, heq⟩ := hap
    simp only [Prod.mk.injEq] at heq
    obtain ⟨rfl, rfl⟩ := heq
    exact ginv_result hQ h hs1

theorem ge_apply {Q : QSys σ} (hQ : Q.OK) {g : GSt σ} {t : Tid} {a : Act} {s' : σ} {o : Obs} (h : GInv Q g) (he : GE Q g)
    (hap : Q.model.apply g.s t a = some (s', o)) : GE Q (gnext Q g t s' o) := by
  cases a with
  | invoke op =>
    simp only [Model.apply, Option.map_eq_some_iff] at hap
    obtain ⟨s1, hs1, heq⟩ := hap
    simp only [Prod.mk.injEq] at heq
    obtain ⟨rfl, rfl⟩ := heq
    exact ge_invoke hQ h he hs1
  | step =>
    simp only [Model.apply, Option.map_eq_some_iff] at hap
    obtain ⟨⟨s1, e⟩, hs1, heq⟩ := hap
    simp only [Prod.mk.injEq] at heq
    obtain ⟨rfl, rfl⟩ := heq
    exact ge_step hQ h he hs1
  | ret =>
    simp only [Model.apply, Option.map_eq_some_iff] at hap
    obtain ⟨⟨s1, r⟩, hs1, heq⟩ := hap
    simp only [Prod.mk.injEq] at heq
    obtain ⟨rfl, rfl⟩ := heq
    exact ge_result hQ h he hs1

/-- The states a run passes through: `(statesOf m s sched)[j]` is the state before action `j`. -/
def statesOf (m : Model σ) : σ → List (Tid × Act) → List σ
  | _, [] => []
  | s, (t, a) :: rest =>
    s :: (match m.apply s t a with
      | some (s', _) => statesOf m s' rest
      | none => [])

/-- `(statesOf m s sched)[j]` is the state reached by the first `j` actions of the run, which produce the first `j`
    observations. -/
theorem statesOf_prefix (m : Model σ) : ∀ (sched : List (Tid × Act)) (s s' : σ) (os : List (Tid × Obs)) (j : Nat) (s1 : σ),
    m.run s sched = some (s', os) → (statesOf m s sched)[j]? = some s1 →
    m.run s (sched.take j) = some (s1, os.take j) := by
  intro sched
  induction sched with
  | nil => intro s s' os j s1 _ h; simp [statesOf] at h
  | cons x rest ih =>
    intro s s' os j s1 hr h
    obtain ⟨t, a⟩ := x
    simp only [Model.run] at hr
    cases hap : m.apply s t a with
    | none => simp [hap] at hr
    | some p =>
      obtain ⟨s2, o⟩ := p
      simp only [hap] at hr
      cases hrr : m.run s2 rest with
      | none => simp [hrr] at hr
      | some q =>
        obtain ⟨s3, os2⟩ := q
        simp only [hrr, Option.some.injEq, Prod.mk.injEq] at hr
        obtain ⟨rfl, rfl⟩ := hr
        cases j with
        | zero =>
          simp [statesOf] at h
          subst h
          simp [Model.run]
        | succ j =>
          simp only [statesOf, hap, List.getElem?_cons_succ] at h
          have := ih s2 s3 os2 j s1 hrr h
          simp only [List.take_succ_cons, Model.run, hap, this]

/-- Every run of the model lifts to an instrumented run: the ghost state at the end satisfies the invariants, and
    its `hist` / `pend` / `trace` are the history / pending table / state sequence of the run. -/
theorem run_ghost {Q : QSys σ} (hQ : Q.OK) : ∀ (sched : List (Tid × Act)) (g : GSt σ) (s' : σ) (os : List (Tid × Obs)),
    GInv Q g → GE Q g → Q.model.run g.s sched = some (s', os) →
    ∃ g', GInv Q g' ∧ GE Q g' ∧ g'.s = s' ∧ g'.hist = g.hist ++ histAux g.clock g.pend os ∧
      g'.pend = pendAux g.clock g.pend os ∧ g'.clock = g.clock + os.length ∧
      g'.trace = g.trace ++ statesOf Q.model g.s sched := by
  intro sched
  induction sched with
  | nil =>
    intro g s' os hg he hr
    simp [Model.run] at hr
    obtain ⟨rfl, rfl⟩ := hr
    exact ⟨g, hg, he, rfl, by simp [histAux], by simp [pendAux], by simp, by simp [statesOf]⟩
  | cons x rest ih =>
    intro g s' os hg he hr
    obtain ⟨t, a⟩ := x
    simp only [Model.run] at hr
    cases hap : Q.model.apply g.s t a with
    | none => simp [hap] at hr
    | some p =>
      obtain ⟨s1, o⟩ := p
      simp only [hap] at hr
      cases hrr : Q.model.run s1 rest with
      | none => simp [hrr] at hr
      | some q =>
        obtain ⟨s2, os2⟩ := q
        simp only [hrr, Option.some.injEq, Prod.mk.injEq] at hr
        obtain ⟨rfl, rfl⟩ := hr
        have hg1 := ginv_apply hQ hg hap
        have he1 := ge_apply hQ hg he hap
        have hrr' : Q.model.run (gnext Q g t s1 o).s rest = some (s2, os2) := by rw [gnext_s]; exact hrr
        obtain ⟨g', hg', he', hs', hh, hp, hc, htr⟩ := ih (gnext Q g t s1 o) s2 os2 hg1 he1 hrr'
        refine ⟨g', hg', he', hs', ?_, ?_, ?_, ?_⟩
        · rw [hh, gnext_clock, gnext_hist]
        · rw [hp, gnext_clock, gnext_pend]
        · rw [hc, gnext_clock]; simp; omega
        · rw [htr, gnext_trace, gnext_s]; simp [statesOf, hap]

/-! ### From the ghost invariant to linearizability -/

/-- The linearization extracted from the ghost log. -/
theorem ginv_linearizable {Q : QSys σ} (hQ : Q.OK) {g : GSt σ} (h : GInv Q g) :
    Linearizable Q.spec (g.hist ++ (openAll (finalLog g.log)).map (LE.fin g.clock)) ∧
    (∀ e ∈ (openAll (finalLog g.log)).map (LE.fin g.clock),
        g.pend e.tid = some (e.op, e.inv) ∧ e.res = g.clock ∧ Q.postRet g.s e.tid = some e.ret) ∧
    ((openAll (finalLog g.log)).map (LE.fin g.clock)).Pairwise (fun a b => a.tid ≠ b.tid) := by
  obtain ⟨hl, hg⟩ := h
  obtain ⟨hspec, hinvlt, hrt, hcomp, hpendlt, hpre, hpreopen, hpost⟩ := hg
  have hsub : (finalLog g.log).Sublist g.log := List.filter_sublist
  have hcompl : completed (finalLog g.log) = completed g.log :=
    completed_filter_open keepLE g.log (fun e _ hk => (keepLE_false hk).1)
  refine ⟨⟨(finalLog g.log).map (LE.fin g.clock), ?_, ?_, ?_⟩, ?_, ?_⟩
  · refine (completed_openAll_perm g.clock (finalLog g.log)).symm.trans (List.Perm.append_right _ ?_)
    rw [hcompl]; exact hcomp
  · unfold RespectsRT
    rw [List.pairwise_map]
    refine List.Pairwise.imp_of_mem ?_ (hrt.sublist hsub)
    intro a b ha _ hab
    simp only [LE.fin]
    cases hr : b.res with
    | none => have := hinvlt a (hsub.subset ha); simp; omega
    | some r => have := hab r hr; simp; omega
  · obtain ⟨q0, hq0, -⟩ := hspec
    show Legal Q.spec Q.spec.init _
    rw [hQ.spec_init]
    exact legal_of_runSpecS Q.spec g.clock (finalLog g.log) [] _
      (runSpecS_filter Q.spec hQ.ret0 keepLE g.log [] _ (fun e _ hk => (keepLE_false hk).2) hq0)
  · intro e' he'
    obtain ⟨e, he, rfl⟩ := List.mem_map.mp he'
    have he2 := List.mem_filter.mp he
    have he3 := List.mem_filter.mp he2.1
    have hr : e.res = none := by cases h : e.res <;> simp_all
    have hr0 : e.ret ≠ [0] := by
      intro h0
      have := he3.2
      simp [keepLE, hr, h0] at this
    have hmem : e ∈ openOf e.tid g.log := by
      simp only [openOf, List.mem_filter]; exact ⟨he3.1, by simp [hr]⟩
    cases hp : Q.lpRet g.s e.tid with
    | none => rw [hpreopen e.tid hp] at hmem; simp at hmem
    | some r =>
      obtain ⟨op, k, h1, h2⟩ := hpost e.tid r hp
      rw [h2] at hmem
      simp at hmem
      have e1 : e.op = op := by rw [hmem]
      have e2 : e.inv = k := by rw [hmem]
      have e3 : e.ret = r := by rw [hmem]
      have hpr : Q.postRet g.s e.tid = some r := hQ.lp_post _ _ _ hp (e3 ▸ hr0)
      simp [LE.fin, hr, h1, e1, e2, e3, hpr]
  · rw [List.pairwise_map]
    refine (openAll_pairwise g.log ?_).sublist (openAll_finalLog_sublist g.log)
    intro t
    cases hp : Q.lpRet g.s t with
    | none => rw [hpreopen t hp]; simp
    | some r => obtain ⟨op, k, -, h2⟩ := hpost t r hp; rw [h2]; simp

/-! ### Main theorems -/

theorem run_ghost_init {Q : QSys σ} (hQ : Q.OK) {sched : List (Tid × Act)} {s : σ} {os : List (Tid × Obs)}
    (h : Q.model.run Q.init sched = some (s, os)) :
    ∃ g, GInv Q g ∧ GE Q g ∧ g.s = s ∧ g.hist = historyOf os ∧ g.pend = pendingOf os ∧ g.clock = os.length ∧
      g.trace = statesOf Q.model Q.init sched := by
  obtain ⟨g, hg, he, h1, h2, h3, h4, h5⟩ := run_ghost hQ sched (ginit Q) s os (ginv_init hQ) (ge_init hQ) h
  exact ⟨g, hg, he, h1, by simpa [ginit, historyOf] using h2, by simpa [ginit, pendingOf] using h3,
    by simpa [ginit] using h4, by simpa [ginit] using h5⟩

/-- The structural invariant holds in every reachable state. -/
theorem inv_reachable {Q : QSys σ} (hQ : Q.OK) (s : σ) (h : Q.model.Reachable Q.init s) : Q.Inv s := by
  obtain ⟨sched, os, hr⟩ := h
  obtain ⟨g, hg, -, rfl, -⟩ := run_ghost_init hQ hr
  exact hg.1

/-- **Linearizability** (Herlihy–Wing, with completion of pending operations).  For every run of the machine, the
    history of the completed operations, extended by response records `extra` for SOME of the operations still
    pending at the end (operations that have passed their linearization point definitively — `postRet` — they get
    the result fixed there and the response time "end of the run"; at most one per thread), is linearizable to the
    sequential FIFO queue.  All other pending operations are dropped (among them the pending empty dequeues). -/
theorem linearizable {Q : QSys σ} (hQ : Q.OK) (sched : List (Tid × Act)) (s : σ) (os : List (Tid × Obs))
    (h : Q.model.run Q.init sched = some (s, os)) :
    ∃ extra : List (OpRec GOp GRet),
      (∀ e ∈ extra, pendingOf os e.tid = some (e.op, e.inv) ∧ e.res = os.length ∧
          Q.postRet s e.tid = some e.ret) ∧
      extra.Pairwise (fun a b => a.tid ≠ b.tid) ∧
      Linearizable Q.spec (historyOf os ++ extra) := by
  obtain ⟨g, hg, -, rfl, h2, h3, h4, -⟩ := run_ghost_init hQ h
  obtain ⟨hlin, hex, hpw⟩ := ginv_linearizable hQ hg
  rw [h2, h3, h4] at *
  exact ⟨_, hex, hpw, hlin⟩

theorem linearizable_no_effect_pending {Q : QSys σ} (hQ : Q.OK) (sched : List (Tid × Act)) (s : σ)
    (os : List (Tid × Obs)) (h : Q.model.run Q.init sched = some (s, os)) (hq : ∀ t, Q.postRet s t = none) :
    Linearizable Q.spec (historyOf os) := by
  obtain ⟨extra, hex, -, hlin⟩ := linearizable hQ sched s os h
  have : extra = [] := by
    apply List.eq_nil_iff_forall_not_mem.mpr
    intro e he
    have := (hex e he).2.2
    rw [hq] at this; simp at this
  simpa [this] using hlin

/-- **Hindsight for the empty dequeue, on runs.**  If a completed `deq` of a run returned `[0]`, then there is an
    instant `j` strictly between its call (observation `r.inv`) and its return (observation `r.res`) such that in
    the state `s1` reached by the first `j` actions of the run `EmptyAt s1 r.tid` holds and the abstract queue is
    empty. -/
theorem empty_hindsight {Q : QSys σ} (hQ : Q.OK) (sched : List (Tid × Act)) (s : σ) (os : List (Tid × Obs))
    (h : Q.model.run Q.init sched = some (s, os)) (r : OpRec GOp GRet) (hr : r ∈ historyOf os) (hret : r.ret = [0]) :
    ∃ j s1, r.inv < j ∧ j < r.res ∧ Q.model.run Q.init (sched.take j) = some (s1, os.take j) ∧
      Q.EmptyAt s1 r.tid ∧ Q.absQ s1 = [] := by
  obtain ⟨g, -, he, -, h2, -, -, h5⟩ := run_ghost_init hQ h
  obtain ⟨j, s1, e1, e2, e3, e4⟩ := he.histemp r (h2 ▸ hr) hret
  rw [h5] at e3
  exact ⟨j, s1, e1, e2, statesOf_prefix Q.model sched Q.init s os j s1 h e3, e4, hQ.empty_abs _ _ e4⟩


/-! ### The unordered pool -/

/-- The pool: `enq v` adds an item; `deq` removes an item that is present and returns it, or answers `[0]` when
    nothing is present.  (The FIFO queue with the order forgotten.) -/
def poolNext (q : List Int) (op : GOp) (r : GRet) : Option (List Int) :=
  match op.name, op.args, r with
  | "enq", [v], [1] => some (q ++ [v])
  | "deq", [], [0] => if q = [] then some [] else none
  | "deq", [], [1, v] => if v ∈ q then some (q.erase v) else none
  | _, _, _ => none

def poolSpec : SpecL := ⟨[], poolNext⟩

theorem pool_ret0 (q : List Int) (op : GOp) (q' : List Int) (h : poolSpec.next q op [0] = some q') : q' = q := by
  obtain ⟨name, args⟩ := op
  simp only [poolSpec, poolNext] at h
  split at h
  · simp_all
  · split at h <;> simp_all
  · simp_all
  · simp at h

/-- An insertion anywhere is a pool `enq`. -/
theorem peff_enq (v : Int) (X Y : List Int) : PEff poolSpec (X ++ Y) ⟨"enq", [v]⟩ [1] (X ++ v :: Y) := by
  intro q0 hp
  refine ⟨q0 ++ [v], by simp [poolSpec, poolNext], ?_⟩
  have h1 : (q0 ++ [v]).Perm (v :: q0) := List.perm_append_singleton v q0
  have h2 : (X ++ v :: Y).Perm (v :: (X ++ Y)) := List.perm_middle
  exact h1.trans ((List.Perm.cons v hp).trans h2.symm)

/-- A `fifo` dequeue is a pool `deq`. -/
theorem peff_deq (q q' : List Int) (r : GRet) (h : fifo.next q ⟨"deq", []⟩ r = some q') :
    PEff poolSpec q ⟨"deq", []⟩ r q' := by
  intro q0 hp
  simp only [fifo, detSpec, fifoStep] at h
  cases q with
  | nil =>
    simp at h
    obtain ⟨rfl, rfl⟩ := h
    have : q0 = [] := List.Perm.eq_nil hp
    subst this
    exact ⟨[], by simp [poolSpec, poolNext], List.Perm.refl _⟩
  | cons x xs =>
    simp at h
    obtain ⟨rfl, rfl⟩ := h
    have hx : x ∈ q0 := hp.mem_iff.mpr (by simp)
    refine ⟨q0.erase x, by simp [poolSpec, poolNext, hx], ?_⟩
    have := hp.erase x
    simpa using this

/-- `r` is an `enq v`. -/
def isEnq (v : Int) (r : OpRec GOp GRet) : Bool := r.op == ⟨"enq", [v]⟩
/-- `r` is a dequeue that returned `v`. -/
def isDeqOf (v : Int) (r : OpRec GOp GRet) : Bool := r.op == ⟨"deq", []⟩ && r.ret == [1, v]

theorem pool_step_count {st st' : List Int} (o : OpRec GOp GRet) (v : Int)
    (h : poolSpec.next st o.op o.ret = some st') :
    st'.count v + (if isDeqOf v o then 1 else 0) = st.count v + (if isEnq v o then 1 else 0) := by
  obtain ⟨tid, ⟨name, args⟩, ret, inv, res⟩ := o
  simp only [poolSpec, poolNext] at h
  split at h
  next nm ar rt w =>
    simp at h; subst h
    by_cases hw : w = v
    · subst hw; simp [isEnq, isDeqOf]
    · simp [isEnq, isDeqOf, hw]
  next nm ar rt =>
    split at h <;> simp at h
    subst h; simp_all [isEnq, isDeqOf]
  next nm ar rt w =>
    split at h <;> simp at h
    next hw =>
      subst h
      by_cases e : w = v
      · subst e
        have : 0 < st.count w := List.count_pos_iff.mpr hw
        simp [isEnq, isDeqOf, List.count_erase_self]; omega
      · have : (st.erase w).count v = st.count v := List.count_erase_of_ne (Ne.symm e)
        simp [isEnq, isDeqOf, e, this]
  next => simp at h

theorem pool_legal_count (v : Int) : ∀ (l : List (OpRec GOp GRet)) (st : List Int), Legal poolSpec st l →
    l.countP (isDeqOf v) ≤ st.count v + l.countP (isEnq v) := by
  intro l
  induction l with
  | nil => intro st _; simp
  | cons o l ih =>
    intro st h
    obtain ⟨st1, h1, h2⟩ := h
    have := ih st1 h2
    have hc := pool_step_count o v h1
    simp only [List.countP_cons]
    by_cases hd : isDeqOf v o = true <;> by_cases hen : isEnq v o = true <;> simp [hd, hen] at hc ⊢ <;> omega

/-- In a history linearizable to the pool, the dequeues that return `v` are at most as many as the enqueues of `v`. -/
theorem pool_linearizable_no_dup {ops : List (OpRec GOp GRet)} (h : Linearizable poolSpec ops) (v : Int) :
    ops.countP (isDeqOf v) ≤ ops.countP (isEnq v) := by
  obtain ⟨perm, hperm, -, hlegal⟩ := h
  have := pool_legal_count v perm [] hlegal
  rw [hperm.countP_eq, hperm.countP_eq] at this
  simpa using this

end CdsVerif.Algo.QueueLinP

/-
  C04 — grace period of the general-purpose user-space RCU (cds/urcu/details/gp.h, gpi.h, gpb.h):
  an object retired after it became unreachable is not disposed while a thread that entered a read-side
  critical section before the retirement is still inside it, including nested critical sections;
  synchronize() returns only after all such readers have left.
  Property theorems only; model in Algo/RCU/Model.lean, invariants in Algo/RCU/Inv.lean.

  All theorems quantify over every reachable state of the model: every schedule, every number of threads
  `n`, every client program, both flavours (`b = false`: general_instant, `b = true`: general_buffered),
  every threshold `c` and physical buffer capacity `bc`.
  A section "begins" at the step that completes access_lock (store of the control word + fence).
-/
import CdsVerif.Algo.RCU.Inv
namespace CdsVerif.Props.C04
open CdsVerif.Machine CdsVerif.Spec CdsVerif.Algo CdsVerif.Algo.RCU

/-- Grace period.  When a synchronize (either flavour) has completed its second flip_and_wait (its next step
    is the release of the mutex):
    * every thread that is now inside a critical section began that (outermost) section after the synchronizer
      acquired the mutex - in fact after its first flip (`refClock`), which is later;
    * in terms of the snapshot `mustWait` taken at the acquisition (the threads that were inside a section at that
      instant, with the start clocks of those sections): none of them is still in the same section. -/
theorem C04_grace_period (b : Bool) (n c bc : Nat) (s : RCU.St) (h : RCU.model.Reachable (RCU.init b n c bc) s)
    (t : Tid) (w : RCU.W) (hpc : s.pc t = .release w) :
    (∀ u k, s.secStart u = some k → s.acqClock < k ∧ s.refClock ≤ k) ∧
    (∀ u k, s.mustWait u = some k → s.secStart u ≠ some k) := by
  have hI := RCU.inv_reachable b n c bc s h
  have hG := hI.G.body t
  rw [hpc] at hG
  obtain ⟨h1, h2⟩ := hG
  have key : ∀ u k, s.secStart u = some k → s.acqClock < k ∧ s.refClock ≤ k := by
    intro u k hk
    have := h2 u
    simp only [OldSec, not_exists, not_and] at this
    have := this k hk
    omega
  refine ⟨key, fun u k hm hk => ?_⟩
  have := hI.G.mw u k hm
  have := key u k hk
  omega

/-- The ghost values used by `C04_grace_period` are those of the synchronizer that is about to release: while a
    thread holds the mutex, no action of any thread changes `acqClock` or `mustWait`, and only the holder's first
    flip sets `refClock`.  (They are written by the step that acquires the mutex: see the `example` below.) -/
theorem C04_ghost_stable_while_held (b : Bool) (n c bc : Nat) (s : RCU.St) (h : RCU.model.Reachable (RCU.init b n c bc) s)
    (t : Tid) (hh : RCU.holding (s.pc t) = true) (t' : Tid) (a : Act) (s' : RCU.St) (o : Obs)
    (hap : RCU.model.apply s t' a = some (s', o)) :
    s'.acqClock = s.acqClock ∧ s'.mustWait = s.mustWait ∧ (t' ≠ t → s'.refClock = s.refClock) := by
  have hI := RCU.inv_reachable b n c bc s h
  have hl := (hI.M.m1 t).1 hh
  have tr := RCU.trans_of_apply hap
  refine ⟨?_, ?_, ?_⟩
  · cases tr <;> first | rfl | (rename_i hl' _; rw [hl] at hl'; exact absurd hl' (by simp))
  · cases tr <;> first | rfl | (rename_i hl' _; rw [hl] at hl'; exact absurd hl' (by simp))
  · intro hne
    rcases RCU.trans_refClock hI.M tr with h1 | ⟨-, h1⟩
    · exact h1
    · have := h1 t (Ne.symm hne); rw [hh] at this; exact absurd this (by simp)

/-- The acquisition step records the clock and the snapshot of the sections that are open at that instant. -/
theorem C04_acquire_records (s : RCU.St) (t : Tid) (own : List RCU.Obj) (hpc : s.pc t = .acq own) (hl : s.locked = none) :
    ∃ s' e, RCU.model.step s t = some (s', e) ∧ s'.locked = some t ∧ s'.acqClock = s.clock ∧ s'.mustWait = s.secStart := by
  simp [RCU.model, RCU.step, hpc, hl]

/-- No disposal under a pre-existing reader (both flavours; for the buffered flavour this rests on the epoch-tag
    lemma `RCU.SyncQ` / `RCU.syncQ_first_flip`).  Whenever a step gives object `p` to its disposer, no thread is
    inside a critical section that began before `retire p` was invoked: every open section began strictly later. -/
theorem C04_no_dispose_under_preexisting_reader (b : Bool) (n c bc : Nat) (s : RCU.St)
    (h : RCU.model.Reachable (RCU.init b n c bc) s) (t : Tid) (s' : RCU.St) (e : Ev)
    (hstep : RCU.model.step s t = some (s', e)) (p : RCU.Obj) (hd : s'.disposed p ≠ s.disposed p) :
    ∀ u k r, s.secStart u = some k → s.retiredAt p = some r → r < k := by
  have hI := RCU.inv_reachable b n c bc s h
  have tr := RCU.trans_of_step hstep
  have hdisp : RCU.disposing (s.pc t) = some p := by
    cases tr <;> dsimp only at hd <;> first | exact absurd rfl hd | skip
    all_goals (rename_i q hpc; rw [hpc]; simp only [RCU.disposing]; grind [upd])
  exact RCU.invQ_disposing hI.A hI.Q t p hdisp

/-- The epoch-tag lemma behind the buffered case: while a synchronizer that obtained epoch `w.e` from its fetch_add
    still holds the mutex, every tagged pointer (in the buffer or about to be pushed) whose tag is at most `w.e`
    was retired - `retire_ptr` was invoked - before that fetch_add, hence before the first flip. -/
theorem C04_epoch_tag (b : Bool) (n c bc : Nat) (s : RCU.St) (h : RCU.model.Reachable (RCU.init b n c bc) s)
    (t : Tid) (w : RCU.W) (hw : RCU.wOf (s.pc t) = some w) (hh : RCU.holding (s.pc t) = true)
    (hb : s.buffered = true) (q : RCU.Obj) (tag : Nat) (hi : RCU.Item s q tag) (ht : tag ≤ w.e) :
    ∃ r, s.retiredAt q = some r ∧ r < s.faddClock :=
  RCU.epoch_tag_lemma (RCU.inv_reachable b n c bc s h).T t w hw hh hb q tag hi ht

/-- State form of the same fact: a thread whose next step is a disposal of `p` sees `p` quiescent. -/
theorem C04_about_to_dispose_quiescent (b : Bool) (n c bc : Nat) (s : RCU.St)
    (h : RCU.model.Reachable (RCU.init b n c bc) s) (t : Tid) (p : RCU.Obj) (hd : RCU.disposing (s.pc t) = some p) :
    ∀ u k r, s.secStart u = some k → s.retiredAt p = some r → r < k :=
  let hI := RCU.inv_reachable b n c bc s h
  RCU.invQ_disposing hI.A hI.Q t p hd

/-- Nesting does not end a section early.  A thread is inside a section exactly when its nest count is non-zero,
    and an action of thread `t` leaves the recorded start of `u`'s outermost section untouched unless it is `u`'s own
    access_unlock store that brings the nest count from 1 to 0.  (In particular a nested access_lock keeps the start,
    and a nested access_unlock - nest count > 1 - does not clear it.) -/
theorem C04_nested (b : Bool) (n c bc : Nat) (s : RCU.St) (h : RCU.model.Reachable (RCU.init b n c bc) s) :
    (∀ u, s.secStart u = none ↔ (s.ctl u).nest = 0) ∧
    ∀ t a s' o, RCU.model.apply s t a = some (s', o) → ∀ u k, s.secStart u = some k →
      s'.secStart u = some k ∨
      (u = t ∧ s.pc t = .ruStore (s.ctl t) ∧ (s.ctl t).nest = 1 ∧ s'.secStart t = none ∧ (s'.ctl t).nest = 0) := by
  have hI := RCU.inv_reachable b n c bc s h
  refine ⟨hI.A.a1, ?_⟩
  intro t a s' o hap u k hk
  have tr := RCU.trans_of_apply hap
  have a1 := hI.A.a1 u
  cases tr
  case rlStore g hpc =>
    have := hI.A.a7 t g hpc
    left; dsimp only; grind [upd]
  case ruStore c' hpc =>
    have := hI.A.a4 t c' hpc
    dsimp only; grind [upd]
  all_goals (left; exact hk)

/-! ### Non-vacuity -/

/-- A reader forces the synchronizer to spin: thread 1 is inside a section when thread 0 retires object 7
    (instant flavour); after the first flip thread 0 skips itself (nest 0: no load of the global word) and loops on
    thread 1's control word (the last 4 steps below change nothing but the clock) and has disposed nothing. -/
example : ∃ s os, RCU.model.run (RCU.init false 2 1 2)
    [(1, .invoke ⟨"rlock", [1]⟩), (1, .step), (1, .step), (1, .step), (1, .ret),
     (0, .invoke ⟨"retire", [0, 7]⟩), (0, .step), (0, .step), (0, .step), (0, .step),
     (0, .step), (0, .step), (0, .step), (0, .step), (0, .step)] = some (s, os)
    ∧ s.pc 0 = .waitLd ⟨[7], 0⟩ false 1 ∧ s.secStart 1 = some 3 ∧ s.retiredAt 7 = some 5
    ∧ s.mustWait 1 = some 3 ∧ s.disposed 7 = 0 := by
  refine ⟨_, _, rfl, ?_, ?_, ?_, ?_, ?_⟩ <;> decide

/-- ... and once the reader leaves, the synchronizer gets through both rounds and the object is disposed. -/
example : ∃ s os, RCU.model.run (RCU.init false 2 1 2)
    [(1, .invoke ⟨"rlock", [1]⟩), (1, .step), (1, .step), (1, .step), (1, .ret),
     (0, .invoke ⟨"retire", [0, 7]⟩), (0, .step), (0, .step), (0, .step), (0, .step), (0, .step),
     (1, .invoke ⟨"runlock", [1]⟩), (1, .step), (1, .step), (1, .ret),
     (0, .step), (0, .step), (0, .step), (0, .step), (0, .step), (0, .step), (0, .ret)] = some (s, os)
    ∧ s.pc 0 = .idle ∧ s.secStart 1 = none ∧ s.disposed 7 = 1 ∧ s.locked = none := by
  refine ⟨_, _, rfl, ?_, ?_, ?_, ?_⟩ <;> decide

/-- Why there are two rounds.  Thread 1 loads the global phase between the two flips of a first synchronize and
    completes access_lock after it (phase bit = true, stale).  A second synchronize acquires the mutex while thread 1
    is inside (`mustWait 1 = secStart 1 = some 13`); its FIRST flip_and_wait passes thread 1 (phases agree), so after
    one round the pre-existing reader is still inside ... -/
example : ∃ s os, RCU.model.run (RCU.init false 2 1 1)
    ([(0, .invoke ⟨"synchronize", [0]⟩), (0, .step), (0, .step),
      (1, .invoke ⟨"rlock", [1]⟩), (1, .step), (1, .step)] ++ List.replicate 6 (0, .step) ++
     [(0, .ret), (1, .step), (1, .ret), (0, .invoke ⟨"synchronize", [0]⟩)] ++ List.replicate 5 (0, .step)) = some (s, os)
    ∧ s.pc 0 = .flip ⟨[], 0⟩ true ∧ s.mustWait 1 = some 13 ∧ s.secStart 1 = some 13 ∧ s.ctl 1 = ⟨1, true⟩ := by
  refine ⟨_, _, rfl, ?_, ?_, ?_, ?_⟩ <;> decide

/-- ... and the SECOND flip_and_wait spins on it. -/
example : ∃ s os, RCU.model.run (RCU.init false 2 1 1)
    ([(0, .invoke ⟨"synchronize", [0]⟩), (0, .step), (0, .step),
      (1, .invoke ⟨"rlock", [1]⟩), (1, .step), (1, .step)] ++ List.replicate 6 (0, .step) ++
     [(0, .ret), (1, .step), (1, .ret), (0, .invoke ⟨"synchronize", [0]⟩)] ++ List.replicate 11 (0, .step)) = some (s, os)
    ∧ s.pc 0 = .waitLd ⟨[], 0⟩ true 1 ∧ s.secStart 1 = some 13 := by
  refine ⟨_, _, rfl, ?_, ?_⟩ <;> decide

/-- Nesting depth 2: the inner unlock keeps the section (and its start clock) open, the outer one closes it. -/
example : ∃ s os, RCU.model.run (RCU.init true 1 4 4)
    [(0, .invoke ⟨"rlock", [0]⟩), (0, .step), (0, .step), (0, .step), (0, .ret),
     (0, .invoke ⟨"rlock", [0]⟩), (0, .step), (0, .step), (0, .ret),
     (0, .invoke ⟨"runlock", [0]⟩), (0, .step), (0, .step), (0, .ret)] = some (s, os)
    ∧ (s.ctl 0).nest = 1 ∧ s.secStart 0 = some 3 := by
  refine ⟨_, _, rfl, ?_, ?_⟩ <;> decide

example : ∃ s os, RCU.model.run (RCU.init true 1 4 4)
    [(0, .invoke ⟨"rlock", [0]⟩), (0, .step), (0, .step), (0, .step), (0, .ret),
     (0, .invoke ⟨"rlock", [0]⟩), (0, .step), (0, .step), (0, .ret),
     (0, .invoke ⟨"runlock", [0]⟩), (0, .step), (0, .step), (0, .ret),
     (0, .invoke ⟨"runlock", [0]⟩), (0, .step), (0, .step), (0, .ret)] = some (s, os)
    ∧ (s.ctl 0).nest = 0 ∧ s.secStart 0 = none := by
  refine ⟨_, _, rfl, ?_, ?_⟩ <;> decide

end CdsVerif.Props.C04

/-
  Linearizability of complete finite histories, and an executable checker
  that is proved sound and complete against the definition.

  A history is given as a list of operation records.  Every record carries
  the operation, the observed result and the positions (`inv`, `res`) of its
  invocation and response events in the real-time order of the execution.
  `a` precedes `b` in real time iff `a.res < b.inv`.

  Specifications are *result-determined* automata: `next s op ret` is
  `some s'` iff the sequential object in state `s` may answer `op` with `ret`,
  moving to `s'`.  Deterministic objects (queue, stack, set, map) and
  relaxed ones (bag, quasi-queue) both fit.
-/
namespace CdsVerif.Lin

structure Spec (σ Op Ret : Type) where
  init : σ
  next : σ → Op → Ret → Option σ

structure OpRec (Op Ret : Type) where
  tid : Nat
  op  : Op
  ret : Ret
  inv : Nat
  res : Nat
deriving DecidableEq, Repr

variable {σ Op Ret : Type}

/-- `perm` is a legal sequential execution of `spec` from state `s`. -/
def Legal (spec : Spec σ Op Ret) : σ → List (OpRec Op Ret) → Prop
  | _, [] => True
  | s, o :: os => ∃ s', spec.next s o.op o.ret = some s' ∧ Legal spec s' os

/-- The order never places an operation before one that really preceded it. -/
def RespectsRT (l : List (OpRec Op Ret)) : Prop :=
  l.Pairwise (fun a b => ¬ b.res < a.inv)

/-- Herlihy–Wing linearizability of a complete history starting in state `s`. -/
def LinearizableFrom (spec : Spec σ Op Ret) (s : σ) (ops : List (OpRec Op Ret)) : Prop :=
  ∃ perm : List (OpRec Op Ret), perm.Perm ops ∧ RespectsRT perm ∧ Legal spec s perm

def Linearizable (spec : Spec σ Op Ret) (ops : List (OpRec Op Ret)) : Prop :=
  LinearizableFrom spec spec.init ops

/-! ### The checker -/

def minimalIn (o : OpRec Op Ret) (rem : List (OpRec Op Ret)) : Bool :=
  rem.all (fun p => !(p.res < o.inv))

variable [DecidableEq Op] [DecidableEq Ret]

/-- Depth-first search over all real-time-respecting orders. -/
def search (spec : Spec σ Op Ret) : Nat → σ → List (OpRec Op Ret) → Bool
  | 0, _, rem => rem.isEmpty
  | fuel + 1, s, rem =>
    rem.isEmpty ||
    rem.any (fun o =>
      minimalIn o rem &&
      match spec.next s o.op o.ret with
      | some s' => search spec fuel s' (rem.erase o)
      | none => false)

def linCheck (spec : Spec σ Op Ret) (ops : List (OpRec Op Ret)) : Bool :=
  search spec ops.length spec.init ops

/-! ### Soundness -/

theorem minimalIn_iff (o : OpRec Op Ret) (rem : List (OpRec Op Ret)) :
    minimalIn o rem = true ↔ ∀ p ∈ rem, ¬ p.res < o.inv := by
  simp [minimalIn, List.all_eq_true]

theorem search_sound (spec : Spec σ Op Ret) :
    ∀ (fuel : Nat) (s : σ) (rem : List (OpRec Op Ret)),
      search spec fuel s rem = true → LinearizableFrom spec s rem := by
  intro fuel
  induction fuel with
  | zero =>
    intro s rem h
    simp [search] at h
    subst h
    exact ⟨[], List.Perm.refl _, List.Pairwise.nil, trivial⟩
  | succ n ih =>
    intro s rem h
    simp only [search, Bool.or_eq_true, List.any_eq_true, Bool.and_eq_true] at h
    rcases h with h | ⟨o, hmem, hmin, hnext⟩
    · have : rem = [] := by simpa using h
      subst this
      exact ⟨[], List.Perm.refl _, List.Pairwise.nil, trivial⟩
    · cases hn : spec.next s o.op o.ret with
      | none => simp [hn] at hnext
      | some s' =>
        simp only [hn] at hnext
        obtain ⟨perm, hperm, hrt, hlegal⟩ := ih s' (rem.erase o) hnext
        refine ⟨o :: perm, ?_, ?_, ?_⟩
        · exact (List.Perm.cons o hperm).trans (List.perm_cons_erase hmem).symm
        · refine List.Pairwise.cons ?_ hrt
          intro b hb
          have hb' : b ∈ rem.erase o := hperm.mem_iff.mp hb
          exact (minimalIn_iff o rem).mp hmin b (List.mem_of_mem_erase hb')
        · exact ⟨s', hn, hlegal⟩

/-! ### Completeness -/

theorem search_complete (spec : Spec σ Op Ret) :
    ∀ (fuel : Nat) (s : σ) (rem : List (OpRec Op Ret)),
      rem.length ≤ fuel → (∀ o ∈ rem, o.inv ≤ o.res) →
      LinearizableFrom spec s rem → search spec fuel s rem = true := by
  intro fuel
  induction fuel with
  | zero =>
    intro s rem hlen _ _
    have : rem = [] := List.eq_nil_of_length_eq_zero (Nat.le_zero.mp hlen)
    simp [search, this]
  | succ n ih =>
    intro s rem hlen hwf ⟨perm, hperm, hrt, hlegal⟩
    cases perm with
    | nil =>
      have : rem = [] := List.Perm.eq_nil (hperm.symm)
      simp [search, this]
    | cons o rest =>
      obtain ⟨s', hn, hlegal'⟩ := hlegal
      have hmem : o ∈ rem := hperm.mem_iff.mp (List.mem_cons_self)
      have hrest : rest.Perm (rem.erase o) := by
        have h1 : (o :: rest).Perm (o :: rem.erase o) := hperm.trans (List.perm_cons_erase hmem).symm.symm
        exact List.Perm.cons_inv h1
      have hrt' := List.pairwise_cons.mp hrt
      have hmin : minimalIn o rem = true := by
        rw [minimalIn_iff]
        intro p hp
        rcases List.mem_cons.mp (hperm.mem_iff.mpr hp) with h | h
        · subst h
          have := hwf p hp
          omega
        · exact hrt'.1 p h
      have hlen' : (rem.erase o).length ≤ n := by
        rw [List.length_erase_of_mem hmem]; omega
      have hwf' : ∀ q ∈ rem.erase o, q.inv ≤ q.res :=
        fun q hq => hwf q (List.mem_of_mem_erase hq)
      have hrec := ih s' (rem.erase o) hlen' hwf' ⟨rest, hrest, hrt'.2, hlegal'⟩
      simp only [search, Bool.or_eq_true, List.any_eq_true, Bool.and_eq_true]
      right
      exact ⟨o, hmem, hmin, by simp [hn, hrec]⟩

/-- The checker decides linearizability of well-formed complete histories. -/
theorem linCheck_iff (spec : Spec σ Op Ret) (ops : List (OpRec Op Ret))
    (hwf : ∀ o ∈ ops, o.inv ≤ o.res) :
    linCheck spec ops = true ↔ Linearizable spec ops :=
  ⟨search_sound spec _ _ _, search_complete spec _ _ _ (Nat.le_refl _) hwf⟩

theorem linCheck_sound (spec : Spec σ Op Ret) (ops : List (OpRec Op Ret)) :
    linCheck spec ops = true → Linearizable spec ops :=
  search_sound spec _ _ _

end CdsVerif.Lin

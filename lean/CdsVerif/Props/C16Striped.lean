/-
  C16 — `cds::container::StripedSet` / `cds::intrusive::StripedSet` with the `striping` and the `refinable` mutex
  policies (cds/intrusive/striped_set.h, cds/intrusive/striped_set/striping_policy.h) is a linearizable set / map
  across concurrent resizes; no element is lost or duplicated by a resize racing with updates.
  Property theorems only; the atomic-step model, the invariant and the proofs live in
  `Algo/Striped/{Model,Lemmas,Inv,StepA,StepZ,Reach,Log,Lin}.lean`.  (CuckooSet is not covered here.)

  The theorems hold for EVERY schedule: any number of threads, any client program of `insert k v`, `update k v allow`,
  `erase k`, `find k`, `contains k`, any keys, any interleaving of the atomic steps, any hash function `cfg.h : Int → Nat`,
  any initial capacity `2 ^ cfg.k0` (= number of cell locks), any load-factor resizing policy
  "resize when size * den > bucket_count * num", both policies (`cfg.refinable`).  They are stated for `cfg.recheck = true`
  (the library's `refinable::acquire`, which re-reads `m_Owner` after locking the cell) and they NEED it: with
  `cfg.recheck = false` (the seeded change /verif/seeded/C16-refinable-owner-recheck) the `example`s at the end of this
  file exhibit a run that breaks the lock discipline, loses an element and is not linearizable.

  Granularity of the model (see `Algo/Striped/Model.lean`): one step per atomic operation of the code, in source order;
  the operation on a bucket (a sequential container used under its cell lock) is ONE step; the rehash of a resize is ONE
  step in total (taken at the store of the new mask), which theorem `C16_striped_resize_exclusive` justifies: no other
  thread is inside a cell section then.  Memory reclamation of replaced lock arrays is not modelled beyond "not reused".

  Completed route: FULL linearizability for both policies.  No `…_partial` fallback was needed.
  Tie to the real code: traces of the harness client `striped`, hidden variants `tie_striping` / `tie_refinable`, are
  replayed step by step (atomic events, pseudo-events of the bucket operations and of the rehash with the complete table
  layout, results) by `cdsdriver replay striped`.
-/
import CdsVerif.Algo.Striped.Lin
import CdsVerif.Algo.Striped.Replay
namespace CdsVerif.Props.C16Striped
open CdsVerif.Machine CdsVerif.Lin CdsVerif.Spec CdsVerif.Algo CdsVerif.Algo.Striped

/-! ### A. Lock discipline -/

/-- Per-cell mutual exclusion (both policies): in a reachable state no two threads hold the lock of the same cell of
    the same lock array.  `Holds` covers the cell sections of the operations, the sweep of `acquire_resize`, and (striping)
    `lock_all` … `unlock_all` of a resize; a thread that holds a lock is its ghost holder and the lock word is set. -/
theorem C16_striped_lock_mutex (cfg : Cfg) (hre : cfg.recheck = true) (s : St)
    (hreach : (model cfg).Reachable (init cfg) s) (t1 t2 : Tid) (g c : Nat)
    (h1 : Holds cfg s t1 g c) (h2 : Holds cfg s t2 g c) : t1 = t2 ∧ s.lk g c = true :=
  ⟨lock_mutex (sinv_reachable hre hreach) h1 h2, (holds_holder (sinv_reachable hre hreach) h1).2⟩

/-- A thread touches a bucket only while it holds the lock that CURRENTLY guards it.  A thread about to perform its
    bucket step on bucket `b` (program point `bOp`): `b` is the bucket the CURRENT mask selects for the key; the thread
    holds cell `( g, c )`; under `striping` that is lock `b mod nlocks` of the one lock array; under `refinable` the lock
    array it locked is still the current one (`g = s.gen`: what the re-check established and nobody can have changed
    since), that array has one cell per bucket, and `c = b`. -/
theorem C16_striped_bucket_under_current_lock (cfg : Cfg) (hre : cfg.recheck = true) (s : St)
    (hreach : (model cfg).Reachable (init cfg) s) (t : Tid) (op : GOp) (g c b : Nat)
    (hpc : s.pc t = .bOp op g c b) :
    b = cfg.h (keyD op) % (s.mask + 1) ∧ Holds cfg s t g c ∧ s.lk g c = true ∧
    (cfg.refinable = false → g = 0 ∧ s.asz 0 = cfg.cap0 ∧ c = b % cfg.cap0) ∧
    (cfg.refinable = true → g = s.gen ∧ s.asz s.gen = s.mask + 1 ∧ c = b) :=
  bucket_access (sinv_reachable hre hreach) hpc

/-- A resize runs alone.  While a thread `t'` has the resize lock (`excl`: from the end of `lock_all` / of the owner's
    sweep until it starts to give the lock back; this includes the rehash step `zMask`): no thread is inside a cell
    section (lock held and, refinable, re-check passed: `inCell`), in particular none is inside a bucket operation; `t'`
    is the only such thread; under `striping` it holds every cell lock and nobody else holds any cell lock; under
    `refinable` it is the owner (other threads may transiently hold a cell lock of the old array between their
    `lock()` and their failing re-check — that is what the re-check is for — but none of them is past the re-check). -/
theorem C16_striped_resize_exclusive (cfg : Cfg) (hre : cfg.recheck = true) (s : St)
    (hreach : (model cfg).Reachable (init cfg) s) (t' : Tid) (hex : excl (s.pc t') = true) :
    (∀ t, inCell (s.pc t) = false) ∧ (∀ t2, excl (s.pc t2) = true → t2 = t') ∧
    (cfg.refinable = false → (∀ c, c < cfg.cap0 → Holds cfg s t' 0 c) ∧ ∀ t g c, Holds cfg s t g c → t = t') ∧
    (cfg.refinable = true → s.owner = some t') :=
  resize_exclusive (sinv_reachable hre hreach) hex

/-- refinable: `m_Owner` names exactly the thread between its successful CAS in `acquire_resize` and its
    `release_resize` (so there is at most one), and it is 0 under `striping`. -/
theorem C16_refinable_owner (cfg : Cfg) (hre : cfg.recheck = true) (s : St)
    (hreach : (model cfg).Reachable (init cfg) s) :
    (∀ t, s.owner = some t → ownPC (s.pc t) = true ∧ cfg.refinable = true) ∧
    (∀ t, cfg.refinable = true → ownPC (s.pc t) = true → s.owner = some t) :=
  ⟨(sinv_reachable hre hreach).own1, (sinv_reachable hre hreach).own2⟩

/-- refinable: the `m_access` section (which protects the plain shared_ptr `m_arrLocks`) holds one thread at a time. -/
theorem C16_refinable_access_mutex (cfg : Cfg) (hre : cfg.recheck = true) (s : St)
    (hreach : (model cfg).Reachable (init cfg) s) (t1 t2 : Tid)
    (h1 : accPC (s.pc t1) = true) (h2 : accPC (s.pc t2) = true) : t1 = t2 :=
  access_mutex (sinv_reachable hre hreach) h1 h2

/-- refinable: from the successful re-check to the unlock of its cell a thread works with the CURRENT lock array; that
    array has one cell per bucket; and no thread has the resize lock, so the array and the table cannot be replaced. -/
theorem C16_refinable_array_current (cfg : Cfg) (hre : cfg.recheck = true) (s : St)
    (hreach : (model cfg).Reachable (init cfg) s) (t : Tid) (g c : Nat)
    (hin : inCell (s.pc t) = true) (hc : cellOf (s.pc t) = some (g, c)) :
    g = s.gen ∧ (cfg.refinable = true → s.asz s.gen = s.mask + 1) ∧ ∀ t', excl (s.pc t') = false :=
  cell_array_current (sinv_reachable hre hreach) hin hc

/-! ### B. No element is lost or duplicated -/

/-- The abstract map is well defined in every reachable state: the capacity is a power of two (so the code's
    `nHash & m_nBucketMask` is the model's `nHash % capacity`) and a multiple of the initial capacity; every item sits in
    bucket `h key % capacity` — hence a key occurs in at most one bucket — and no bucket holds a key twice. -/
theorem C16_striped_no_loss_no_dup (cfg : Cfg) (hre : cfg.recheck = true) (s : St)
    (hreach : (model cfg).Reachable (init cfg) s) :
    (∃ e, s.mask + 1 = 2 ^ e ∧ ∀ x : Nat, x &&& s.mask = x % (s.mask + 1)) ∧ cfg.cap0 ∣ s.mask + 1 ∧
    (∀ b k v, (k, v) ∈ s.bkt b → b = cfg.h k % (s.mask + 1)) ∧
    (∀ b, ((s.bkt b).map (·.1)).Nodup) := by
  have h := sinv_reachable hre hreach
  refine ⟨?_, h.dvd, fun b k v hm => (h.place b (k, v) hm).symm, fun b => keyUniq_nodup (h.uniq b)⟩
  obtain ⟨e, he⟩ := h.pow2
  refine ⟨e, he, fun x => ?_⟩
  have : s.mask = 2 ^ e - 1 := by omega
  rw [he, this]; exact and_mask_eq_mod x e

/-- A resize leaves the abstract map unchanged.  The rehash step (the only step of a resize that touches the table)
    doubles the capacity; every lookup finds afterwards what it found before; every item occurs in its new bucket exactly
    as often as it occurred in its old bucket (nothing lost, nothing duplicated). -/
theorem C16_striped_resize_preserves (cfg : Cfg) (hre : cfg.recheck = true) (s s' : St) (t : Tid) (ev : Ev)
    (hreach : (model cfg).Reachable (init cfg) s) (r : GRet) (old oc : Nat) (hpc : s.pc t = .zMask r old oc)
    (hs : step cfg s t = some (s', ev)) :
    s'.mask + 1 = 2 * (s.mask + 1) ∧ (∀ k, look cfg s' k = look cfg s k) ∧
    ∀ e : Int × Int, (s'.bkt (cfg.h e.1 % (s'.mask + 1))).count e = (s.bkt (cfg.h e.1 % (s.mask + 1))).count e :=
  rehash_step (sinv_reachable hre hreach) hpc hs

/-- Only the bucket step and the rehash step change the table; in particular every other step of a resize (locking,
    the sweep, replacing the lock array, the loads of the mask, unlocking) leaves buckets and mask alone. -/
theorem C16_striped_table_frame (cfg : Cfg) (s s' : St) (t : Tid) (ev : Ev) (hs : step cfg s t = some (s', ev))
    (h1 : ∀ op g c b, s.pc t ≠ .bOp op g c b) (h2 : ∀ r old oc, s.pc t ≠ .zMask r old oc) :
    s'.bkt = s.bkt ∧ s'.mask = s.mask :=
  table_frame hs h1 h2

/-! ### C. Linearizability -/

/-- Refinement.  In a reachable state, the bucket step of a thread (operation `op`) fixes its result `r` and is exactly
    the `Spec.map` transition `op ↦ r` of the abstract map (of every sequential map that agrees with the table on all
    lookups); every other step leaves every lookup unchanged. -/
theorem C16_striped_lp_refines (cfg : Cfg) (hre : cfg.recheck = true) (s s' : St) (t : Tid) (ev : Ev)
    (hreach : (model cfg).Reachable (init cfg) s) (hs : step cfg s t = some (s', ev)) :
    (∀ op g c b, s.pc t = .bOp op g c b →
      ∃ r, retOf (s'.pc t) = some r ∧
        ∀ m : MapSt, (∀ k, mfind m k = look cfg s k) →
          ∃ m', map.next m op r = some m' ∧ ∀ k, mfind m' k = look cfg s' k) ∧
    ((∀ op g c b, s.pc t ≠ .bOp op g c b) → ∀ k, look cfg s' k = look cfg s k) :=
  ⟨fun _ _ _ _ hpc => bOp_refines (sinv_reachable hre hreach) hpc hs,
   fun hn => other_step_look (sinv_reachable hre hreach) hs hn⟩

/-- **Linearizability, striping policy** (Herlihy–Wing with completion of pending operations).  For EVERY schedule of the
    model with the `striping` policy, the history of the completed operations of the run — extended by response records
    for the pending operations that have already performed their bucket step (at most one per thread; each is an
    operation pending in `os`, completed with the result fixed at its bucket step and the response time "end of run"),
    all other pending operations being dropped — is linearizable to the sequential map: `insert k v → [1] | [0]`,
    `update k v allow → [1, 1] | [1, 0] | [0, 0]`, `erase k → [1, v] | [0]`, `find k → [1, v] | [0]`,
    `contains k → [1] | [0]`.  Resizes may run at any time. -/
theorem C16_striped_linearizable (cfg : Cfg) (hpol : cfg.refinable = false) (hre : cfg.recheck = true)
    (sched : List (Tid × Act)) (s : St) (os : List (Tid × Obs))
    (h : (model cfg).run (init cfg) sched = some (s, os)) :
    ∃ extra : List (OpRec GOp GRet),
      (∀ e ∈ extra, pendingOf os e.tid = some (e.op, e.inv) ∧ e.res = os.length ∧
          retOf (s.pc e.tid) = some e.ret) ∧
      extra.Pairwise (fun a b => a.tid ≠ b.tid) ∧
      Linearizable map (historyOf os ++ extra) :=
  let _ := hpol
  striped_linearizable cfg hre sched s os h

/-- **Linearizability, refinable policy**: the same statement for the policy that replaces the lock array at every
    resize.  It needs the re-check of `refinable::acquire` (`hre`). -/
theorem C16_refinable_linearizable (cfg : Cfg) (hpol : cfg.refinable = true) (hre : cfg.recheck = true)
    (sched : List (Tid × Act)) (s : St) (os : List (Tid × Obs))
    (h : (model cfg).run (init cfg) sched = some (s, os)) :
    ∃ extra : List (OpRec GOp GRet),
      (∀ e ∈ extra, pendingOf os e.tid = some (e.op, e.inv) ∧ e.res = os.length ∧
          retOf (s.pc e.tid) = some e.ret) ∧
      extra.Pairwise (fun a b => a.tid ≠ b.tid) ∧
      Linearizable map (historyOf os ++ extra) :=
  let _ := hpol
  striped_linearizable cfg hre sched s os h

/-- Runs in which every invoked operation has returned (either policy): the history is linearizable as it is. -/
theorem C16_striped_linearizable_complete_runs (cfg : Cfg) (hre : cfg.recheck = true) (sched : List (Tid × Act))
    (s : St) (os : List (Tid × Obs)) (h : (model cfg).run (init cfg) sched = some (s, os))
    (hq : ∀ t, s.pc t = .idle) : Linearizable map (historyOf os) :=
  striped_linearizable_complete_runs cfg hre sched s os h hq

/-- More generally: runs at whose end no thread is between its bucket step and its return. -/
theorem C16_striped_linearizable_no_effect_pending (cfg : Cfg) (hre : cfg.recheck = true) (sched : List (Tid × Act))
    (s : St) (os : List (Tid × Obs)) (h : (model cfg).run (init cfg) sched = some (s, os))
    (hq : ∀ t, retOf (s.pc t) = none) : Linearizable map (historyOf os) :=
  striped_linearizable_no_effect_pending cfg hre sched s os h hq

/-- `historyOf` is faithful: a record's `inv` / `res` are the positions of its call and return observations. -/
theorem C16_striped_history_sound (os : List (Tid × Obs)) (r : OpRec GOp GRet) (h : r ∈ historyOf os) :
    os[r.inv]? = some (r.tid, .call r.op) ∧ os[r.res]? = some (r.tid, .ret r.ret) ∧ r.inv < r.res :=
  historyOf_sound os r h

/-- Every state the trace-replay driver reaches while it accepts a real trace is a state of a run of the machine these
    theorems are about (same schedule, same observations). -/
theorem C16_striped_replay_is_run (sched : List (Tid × Act)) (s s' : RSt) (os : List (Tid × Obs))
    (h : modelR.run s sched = some (s', os)) : s'.cfg = s.cfg ∧ (model s.cfg).run s.st sched = some (s'.st, os) :=
  modelR_run sched s s' os h

/-! ### D. Non-vacuity -/

def steps (t : Tid) (n : Nat) : List (Tid × Act) := List.replicate n (t, .step)
def ins (k v : Int) : GOp := ⟨"insert", [k, v]⟩
def fnd (k : Int) : GOp := ⟨"find", [k]⟩

/-- two cell locks, identity hash, resize when size > bucket_count -/
def cfgS : Cfg := { refinable := false, k0 := 1, num := 1, den := 1, h := fun k => k.toNat }
def cfgR : Cfg := { refinable := true, k0 := 1, num := 1, den := 1, h := fun k => k.toNat }

/-- Striping.  Thread 0 inserts 1, 3, 5; the third insert resizes the table to 4 buckets (the two locks stay).  Then
    `insert 0` (thread 0) and `insert 2` (thread 1) go to DIFFERENT buckets (0 and 2) guarded by the SAME lock 0: thread 1
    waits (`xchg lk0 1 1`, `ld lk0 1`).  Thread 1's insert then triggers the next resize (5 items > 4 buckets); while it
    holds all locks, thread 0's `find 5` waits on cell lock 1 (`xchg lk1 1 1`, `ld lk1 1`) and proceeds after
    `unlock_all`, with the new mask 7. -/
def stripingSched : List (Tid × Act) :=
  [(0, .invoke (ins 1 10))] ++ steps 0 6 ++ [(0, .ret)] ++ [(0, .invoke (ins 3 30))] ++ steps 0 6 ++ [(0, .ret)] ++
  [(0, .invoke (ins 5 50))] ++ steps 0 18 ++ [(0, .ret)] ++
  [(0, .invoke (ins 0 100))] ++ steps 0 1 ++ [(1, .invoke (ins 2 20))] ++ steps 1 2 ++ steps 0 5 ++ [(0, .ret)] ++
  steps 1 10 ++ [(0, .invoke (fnd 5))] ++ steps 0 2 ++ steps 1 11 ++ [(1, .ret)] ++ steps 0 5 ++ [(0, .ret)]

example : ((model cfgS).run (init cfgS) stripingSched).map (fun r => r.2.drop 16) =
    some [(0, .call (ins 5 50)),
          (0, .ev ⟨"xchg", "lk1", "0", "1"⟩),
          (0, .ev ⟨"ld", "mask", "1", ""⟩),
          (0, .ev ⟨"insert", "b1", "5", "1"⟩),            -- the bucket step (pseudo-event)
          (0, .ev ⟨"add", "count", "2", "1"⟩),
          (0, .ev ⟨"ld", "mask", "1", ""⟩),               -- resizing policy: 3 > 2 * 1
          (0, .ev ⟨"st", "lk1", "0", ""⟩),
          (0, .ev ⟨"ld", "mask", "1", ""⟩),               -- resize(): nOldCapacity
          (0, .ev ⟨"xchg", "lk0", "0", "1"⟩),             -- lock_all
          (0, .ev ⟨"xchg", "lk1", "0", "1"⟩),
          (0, .ev ⟨"ld", "mask", "1", ""⟩),               -- unchanged
          (0, .ev ⟨"ld", "mask", "1", ""⟩),               -- internal_resize: nOldCapacity
          (0, .ev ⟨"st", "mask", "3", ""⟩),               -- new table + rehash
          (0, .ev ⟨"ld", "mask", "3", ""⟩),               -- one load per moved item
          (0, .ev ⟨"ld", "mask", "3", ""⟩),
          (0, .ev ⟨"ld", "mask", "3", ""⟩),
          (0, .ev ⟨"rehash", "tbl", "4", "1=1:10,5:50;3=3:30"⟩),
          (0, .ev ⟨"st", "lk0", "0", ""⟩),                -- unlock_all
          (0, .ev ⟨"st", "lk1", "0", ""⟩),
          (0, .ret [1]),
          (0, .call (ins 0 100)),
          (0, .ev ⟨"xchg", "lk0", "0", "1"⟩),             -- bucket 0, lock 0
          (1, .call (ins 2 20)),
          (1, .ev ⟨"xchg", "lk0", "1", "1"⟩),             -- bucket 2, lock 0 as well: wait
          (1, .ev ⟨"ld", "lk0", "1", ""⟩),
          (0, .ev ⟨"ld", "mask", "3", ""⟩),
          (0, .ev ⟨"insert", "b0", "0", "1"⟩),
          (0, .ev ⟨"add", "count", "3", "1"⟩),
          (0, .ev ⟨"ld", "mask", "3", ""⟩),
          (0, .ev ⟨"st", "lk0", "0", ""⟩),
          (0, .ret [1]),
          (1, .ev ⟨"ld", "lk0", "0", ""⟩),
          (1, .ev ⟨"xchg", "lk0", "0", "1"⟩),
          (1, .ev ⟨"ld", "mask", "3", ""⟩),
          (1, .ev ⟨"insert", "b2", "2", "1"⟩),
          (1, .ev ⟨"add", "count", "4", "1"⟩),
          (1, .ev ⟨"ld", "mask", "3", ""⟩),               -- 5 > 4: resize
          (1, .ev ⟨"st", "lk0", "0", ""⟩),
          (1, .ev ⟨"ld", "mask", "3", ""⟩),
          (1, .ev ⟨"xchg", "lk0", "0", "1"⟩),
          (1, .ev ⟨"xchg", "lk1", "0", "1"⟩),             -- thread 1 holds all cell locks
          (0, .call (fnd 5)),
          (0, .ev ⟨"xchg", "lk1", "1", "1"⟩),             -- thread 0 waits on a cell lock during the resize
          (0, .ev ⟨"ld", "lk1", "1", ""⟩),
          (1, .ev ⟨"ld", "mask", "3", ""⟩),
          (1, .ev ⟨"ld", "mask", "3", ""⟩),
          (1, .ev ⟨"st", "mask", "7", ""⟩),
          (1, .ev ⟨"ld", "mask", "7", ""⟩),
          (1, .ev ⟨"ld", "mask", "7", ""⟩),
          (1, .ev ⟨"ld", "mask", "7", ""⟩),
          (1, .ev ⟨"ld", "mask", "7", ""⟩),
          (1, .ev ⟨"ld", "mask", "7", ""⟩),
          (1, .ev ⟨"rehash", "tbl", "8", "0=0:100;1=1:10;2=2:20;3=3:30;5=5:50"⟩),
          (1, .ev ⟨"st", "lk0", "0", ""⟩),
          (1, .ev ⟨"st", "lk1", "0", ""⟩),
          (1, .ret [1]),
          (0, .ev ⟨"ld", "lk1", "0", ""⟩),
          (0, .ev ⟨"xchg", "lk1", "0", "1"⟩),
          (0, .ev ⟨"ld", "mask", "7", ""⟩),               -- the bucket index comes from the NEW mask
          (0, .ev ⟨"find", "b5", "5", "1:50"⟩),
          (0, .ev ⟨"st", "lk1", "0", ""⟩),
          (0, .ret [1, 50])] := by decide +kernel

example : ((model cfgS).run (init cfgS) stripingSched).map
    (fun r => (r.1.mask, r.1.count, r.1.asz 0, linCheck map (historyOf r.2))) = some (7, 5, 2, true) := by
  decide +kernel

/-- Refinable.  Thread 0's `find 1` reads the lock array (generation 0) and is delayed.  Thread 1's `insert 5` makes the
    table grow: it becomes the owner, sweeps the old array, installs generation 1 (`st lcap 4`, four lock constructors,
    swap under `m_access`), rehashes, releases.  Thread 0 then locks cell 1 of the OLD array, its re-check finds the
    array replaced (`ld owner 0`, but `m_arrLocks != pLocks`), it unlocks and starts again with generation 1. -/
def refinableSched : List (Tid × Act) :=
  [(1, .invoke (ins 1 10))] ++ steps 1 10 ++ [(1, .ret)] ++ [(1, .invoke (ins 3 30))] ++ steps 1 10 ++ [(1, .ret)] ++
  [(0, .invoke (fnd 1))] ++ steps 0 3 ++ [(1, .invoke (ins 5 50))] ++ steps 1 31 ++ [(1, .ret)] ++ steps 0 11 ++ [(0, .ret)]

example : ((model cfgR).run (init cfgR) refinableSched).map (fun r => r.2.drop 24) =
    some [(0, .call (fnd 1)),
          (0, .ev ⟨"ld", "owner", "0", ""⟩),
          (0, .ev ⟨"xchg", "access", "0", "1"⟩),
          (0, .ev ⟨"st", "access", "0", ""⟩),             -- pLocks = generation 0
          (1, .call (ins 5 50)),
          (1, .ev ⟨"ld", "owner", "0", ""⟩),
          (1, .ev ⟨"xchg", "access", "0", "1"⟩),
          (1, .ev ⟨"st", "access", "0", ""⟩),
          (1, .ev ⟨"xchg", "lk0.1", "0", "1"⟩),
          (1, .ev ⟨"ld", "owner", "0", ""⟩),              -- the re-check
          (1, .ev ⟨"ld", "mask", "1", ""⟩),
          (1, .ev ⟨"insert", "b1", "5", "1"⟩),
          (1, .ev ⟨"add", "count", "2", "1"⟩),
          (1, .ev ⟨"ld", "mask", "1", ""⟩),
          (1, .ev ⟨"st", "lk0.1", "0", ""⟩),
          (1, .ev ⟨"ld", "mask", "1", ""⟩),
          (1, .ev ⟨"cas+", "owner", "0", "own1"⟩),        -- acquire_resize
          (1, .ev ⟨"xchg", "lk0.0", "0", "1"⟩),           -- the sweep
          (1, .ev ⟨"st", "lk0.0", "0", ""⟩),
          (1, .ev ⟨"xchg", "lk0.1", "0", "1"⟩),
          (1, .ev ⟨"st", "lk0.1", "0", ""⟩),
          (1, .ev ⟨"ld", "mask", "1", ""⟩),
          (1, .ev ⟨"st", "lcap", "4", ""⟩),               -- the new lock array
          (1, .ev ⟨"st", "lk1.0", "0", ""⟩),
          (1, .ev ⟨"st", "lk1.1", "0", ""⟩),
          (1, .ev ⟨"st", "lk1.2", "0", ""⟩),
          (1, .ev ⟨"st", "lk1.3", "0", ""⟩),
          (1, .ev ⟨"xchg", "access", "0", "1"⟩),
          (1, .ev ⟨"st", "access", "0", ""⟩),             -- m_arrLocks = generation 1
          (1, .ev ⟨"ld", "mask", "1", ""⟩),
          (1, .ev ⟨"st", "mask", "3", ""⟩),
          (1, .ev ⟨"ld", "mask", "3", ""⟩),
          (1, .ev ⟨"ld", "mask", "3", ""⟩),
          (1, .ev ⟨"ld", "mask", "3", ""⟩),
          (1, .ev ⟨"rehash", "tbl", "4", "1=1:10,5:50;3=3:30"⟩),
          (1, .ev ⟨"st", "owner", "0", ""⟩),
          (1, .ret [1]),
          (0, .ev ⟨"xchg", "lk0.1", "0", "1"⟩),           -- a cell of the OLD array
          (0, .ev ⟨"ld", "owner", "0", ""⟩),              -- re-check: nobody resizes, but the array has changed
          (0, .ev ⟨"st", "lk0.1", "0", ""⟩),              -- unlock and retry
          (0, .ev ⟨"ld", "owner", "0", ""⟩),
          (0, .ev ⟨"xchg", "access", "0", "1"⟩),
          (0, .ev ⟨"st", "access", "0", ""⟩),
          (0, .ev ⟨"xchg", "lk1.1", "0", "1"⟩),
          (0, .ev ⟨"ld", "owner", "0", ""⟩),
          (0, .ev ⟨"ld", "mask", "3", ""⟩),
          (0, .ev ⟨"find", "b1", "1", "1:10"⟩),
          (0, .ev ⟨"st", "lk1.1", "0", ""⟩),
          (0, .ret [1, 10])] := by decide +kernel

/-- The same, but thread 0 locks its cell of the old array right AFTER the owner's sweep and before the swap: its
    re-check sees the owner (`ld owner own1`), it unlocks, waits in the first loop of `acquire`, and retries when the
    resize is over. -/
def refinableSched2 : List (Tid × Act) :=
  [(1, .invoke (ins 1 10))] ++ steps 1 10 ++ [(1, .ret)] ++ [(1, .invoke (ins 3 30))] ++ steps 1 10 ++ [(1, .ret)] ++
  [(0, .invoke (fnd 1))] ++ steps 0 3 ++ [(1, .invoke (ins 5 50))] ++ steps 1 16 ++ steps 0 4 ++ steps 1 15 ++ [(1, .ret)] ++
  steps 0 8 ++ [(0, .ret)]

example : ((model cfgR).run (init cfgR) refinableSched2).map (fun r => ((r.2.drop 40).take 14, r.2.drop 63)) =
    some ([(1, .ev ⟨"cas+", "owner", "0", "own1"⟩),
           (1, .ev ⟨"xchg", "lk0.0", "0", "1"⟩),
           (1, .ev ⟨"st", "lk0.0", "0", ""⟩),
           (1, .ev ⟨"xchg", "lk0.1", "0", "1"⟩),
           (1, .ev ⟨"st", "lk0.1", "0", ""⟩),             -- the sweep is over
           (0, .ev ⟨"xchg", "lk0.1", "0", "1"⟩),          -- thread 0 gets its cell of the old array
           (0, .ev ⟨"ld", "owner", "own1", ""⟩),          -- the re-check sees the owner
           (0, .ev ⟨"st", "lk0.1", "0", ""⟩),
           (0, .ev ⟨"ld", "owner", "own1", ""⟩),          -- waits
           (1, .ev ⟨"ld", "mask", "1", ""⟩),
           (1, .ev ⟨"st", "lcap", "4", ""⟩),
           (1, .ev ⟨"st", "lk1.0", "0", ""⟩),
           (1, .ev ⟨"st", "lk1.1", "0", ""⟩),
           (1, .ev ⟨"st", "lk1.2", "0", ""⟩)],
          [(1, .ev ⟨"st", "owner", "0", ""⟩),
           (1, .ret [1]),
           (0, .ev ⟨"ld", "owner", "0", ""⟩),
           (0, .ev ⟨"xchg", "access", "0", "1"⟩),
           (0, .ev ⟨"st", "access", "0", ""⟩),
           (0, .ev ⟨"xchg", "lk1.1", "0", "1"⟩),
           (0, .ev ⟨"ld", "owner", "0", ""⟩),
           (0, .ev ⟨"ld", "mask", "3", ""⟩),
           (0, .ev ⟨"find", "b1", "1", "1:10"⟩),
           (0, .ev ⟨"st", "lk1.1", "0", ""⟩),
           (0, .ret [1, 10])]) := by decide +kernel

example : ((model cfgR).run (init cfgR) refinableSched2).map
    (fun r => (r.1.mask, r.1.gen, r.1.asz 1, r.1.lcap, linCheck map (historyOf r.2))) = some (3, 1, 4, 4, true) := by
  decide +kernel

/-! ### The theorems need the re-check -/

/-- `refinable::acquire` WITHOUT the second load of `m_Owner` (the seeded change). -/
def cfgBad : Cfg := { cfgR with recheck := false }

/-- Thread 0's `insert 2` passes the first loop of `acquire` and reads the lock array, then sleeps.  Thread 1's `insert 5`
    becomes the owner and finishes its sweep.  Now thread 0 locks cell 0 of the old array and — no re-check — enters its
    cell section: a thread is inside a cell section while another one has the resize lock, the negation of
    `C16_striped_resize_exclusive`. -/
def badSched : List (Tid × Act) :=
  [(1, .invoke (ins 1 10))] ++ steps 1 9 ++ [(1, .ret)] ++ [(1, .invoke (ins 3 30))] ++ steps 1 9 ++ [(1, .ret)] ++
  [(0, .invoke (ins 2 20))] ++ steps 0 3 ++ [(1, .invoke (ins 5 50))] ++ steps 1 15 ++ steps 0 1

example : ((model cfgBad).run (init cfgBad) badSched).map
    (fun r => (excl (r.1.pc 1), inCell (r.1.pc 0), r.1.owner, r.2.getLast?)) =
    some (true, true, some 1, some (0, .ev ⟨"xchg", "lk0.0", "0", "1"⟩)) := by decide +kernel

/-- It goes on: thread 0 computes its bucket from the OLD mask (bucket 0 of 2), thread 1 replaces the table (4 buckets),
    thread 0 inserts key 2 into bucket 0 of the new table, where no lookup will search for it (`2 % 4 = 2`): a later
    `find 2` answers "absent".  The element is lost and the history is not linearizable. -/
def badSched2 : List (Tid × Act) :=
  badSched ++ steps 0 1 ++ steps 1 15 ++ [(1, .ret)] ++ steps 0 4 ++ [(0, .ret)] ++
  [(0, .invoke (fnd 2))] ++ steps 0 7 ++ [(0, .ret)]

set_option synthInstance.maxSize 2000 in
example : ((model cfgBad).run (init cfgBad) badSched2).map
    (fun r => (r.1.mask, r.1.bkt 0, r.1.bkt 2, okB ⟨cfgBad, r.1⟩, (historyOf r.2).drop 3)) =
    some (3, [(2, 20)], [], false,
      [⟨0, ins 2 20, [1], 22, 64⟩, ⟨0, fnd 2, [0], 65, 73⟩]) := by decide +kernel

example : ((model cfgBad).run (init cfgBad) badSched2).map (fun r => linCheck map (historyOf r.2)) = some false := by
  decide +kernel

example : ¬ Linearizable map
    [⟨1, ins 1 10, [1], 0, 10⟩, ⟨1, ins 3 30, [1], 11, 21⟩, ⟨1, ins 5 50, [1], 26, 59⟩,
     ⟨0, ins 2 20, [1], 22, 64⟩, ⟨0, fnd 2, [0], 65, 73⟩] := by
  intro hlin
  have := (linCheck_iff map _ (by decide)).mpr hlin
  revert this
  decide +kernel

/-- With the re-check, the same schedule prefix is harmless: after locking the old cell thread 0 is NOT inside a cell
    section (it is at the re-check, which will fail because thread 1 is the owner). -/
def goodSched : List (Tid × Act) :=
  [(1, .invoke (ins 1 10))] ++ steps 1 10 ++ [(1, .ret)] ++ [(1, .invoke (ins 3 30))] ++ steps 1 10 ++ [(1, .ret)] ++
  [(0, .invoke (ins 2 20))] ++ steps 0 3 ++ [(1, .invoke (ins 5 50))] ++ steps 1 16 ++ steps 0 1

set_option synthInstance.maxSize 2000 in
example : ((model cfgR).run (init cfgR) goodSched).map
    (fun r => (excl (r.1.pc 1), inCell (r.1.pc 0), r.1.pc 0, (step cfgR r.1 0).map (fun q => (q.1.pc 0, q.2)))) =
    some (true, false, .aChk (ins 2 20) 0 0, some (.aRel (ins 2 20) 0 0, ⟨"ld", "owner", "own1", ""⟩)) := by
  decide +kernel

end CdsVerif.Props.C16Striped
